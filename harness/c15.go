package main

import (
	"bytes"
	"errors"
	"fmt"
	"math/rand"
	"os"
	"path/filepath"

	"github.com/thomasjungblut/go-sstables/recordio"
	rProto "github.com/thomasjungblut/go-sstables/recordio/proto"
	"github.com/thomasjungblut/go-sstables/skiplist"
	"github.com/thomasjungblut/go-sstables/sstables"
	"google.golang.org/protobuf/proto"
)

type failingData struct {
	recordio.WriterI
	fail map[int]bool
	n    int
}

func (f *failingData) Write(b []byte) (uint64, error) {
	f.n++
	if f.fail[f.n] {
		return 0, errInjected
	}
	return f.WriterI.Write(b)
}

type failingIndex struct {
	rProto.WriterI
	fail map[int]bool
	n    int
}

func (f *failingIndex) Write(m proto.Message) (uint64, error) {
	f.n++
	if f.fail[f.n] {
		return 0, errInjected
	}
	return f.WriterI.Write(m)
}

type c15Call struct {
	K        []byte `json:"k"`
	V        []byte `json:"v,omitempty"`
	Nil      bool   `json:"nil,omitempty"`
	FailData bool   `json:"fail_data,omitempty"`
	FailIdx  bool   `json:"fail_index,omitempty"`
	// observation
	Err string `json:"err,omitempty"` // "" | Rejected | Injected | Other
}

type c15Case struct {
	Opts  tblOpts   `json:"opts"`
	Calls []c15Call `json:"calls"`
	Mag   bool      `json:"mag,omitempty"` // the key comparator answers with magnitudes (multiples of the byte order), not just -1/0/1
	// observations
	CloseErr string   `json:"close_err,omitempty"`
	Table    scanOut  `json:"table"`
	Absent   [][]byte `json:"absent,omitempty"` // accepted keys that Contains / Get of the re-opened table deny
	Meta     metaOut  `json:"meta"`
	IdxPay   [][]byte `json:"-"`
	IndexLen int      `json:"index_len"`
	DataLen  int      `json:"data_len"`
	OpenErr  string   `json:"open_err,omitempty"`
	Fatal    string   `json:"fatal,omitempty"`
}

func (c *c15Case) Exec() {
	defer func() {
		if r := recover(); r != nil {
			c.Fatal = fmt.Sprint("panic: ", r)
		}
	}()
	c.Fatal, c.CloseErr, c.OpenErr = "", "", ""
	dir := tmpDir("c15-")
	defer os.RemoveAll(dir)
	wopts := c.Opts.writerOptions(dir)
	if c.Mag {
		wopts = append(wopts, sstables.WithKeyComparator(magBytesCmp{}))
	}
	w, err := sstables.NewSSTableStreamWriter(wopts...)
	must(err)
	must(w.Open())
	// the data writer sees one Write per call that passes the key check; the index writer one per
	// call whose data append succeeded: the wrappers count their own calls
	fd := &failingData{fail: map[int]bool{}}
	fi := &failingIndex{fail: map[int]bool{}}
	sstables.VerifWrapWriters(w, func(d recordio.WriterI) recordio.WriterI { fd.WriterI = d; return fd },
		func(i rProto.WriterI) rProto.WriterI { fi.WriterI = i; return fi })
	for i := range c.Calls {
		call := &c.Calls[i]
		fd.fail[fd.n+1] = call.FailData
		fi.fail[fi.n+1] = call.FailIdx
		var v []byte
		if !call.Nil {
			v = call.V
			if v == nil {
				v = []byte{}
			}
		}
		// the caller streams from reused buffers: what the writer wants to keep it has to copy
		kb, vb := scratchCopy(call.K), scratchCopy(v)
		err := w.WriteNext(kb, vb)
		scribble(kb)
		scribble(vb)
		delete(fd.fail, fd.n+1)
		delete(fi.fail, fi.n+1)
		switch {
		case err == nil:
			call.Err = ""
		case errors.Is(err, errInjected):
			call.Err = "Injected"
		default:
			call.Err = "Rejected"
		}
	}
	if err := w.Close(); err != nil {
		c.CloseErr = classifyErr(err)
	}
	c.IndexLen, c.DataLen = len(readFileOr(dir, sstables.IndexFileName)), len(readFileOr(dir, sstables.DataFileName))
	c.IdxPay = indexEntries(dir)
	r, err := sstables.NewSSTableReader(sstables.ReadBasePath(dir), sstables.ReadWithKeyComparator(skiplist.BytesComparator{}))
	if err != nil {
		c.OpenErr = classifyErr(err)
		return
	}
	defer r.Close()
	c.Meta = metaOf(r.MetaData())
	it, err := r.Scan()
	c.Table = drainTable(it, err, len(c.Calls)+3)
	// every key the scan shows must also be found by the point lookups (bloom filter and index)
	c.Absent = nil
	for _, kv := range c.Table.KVs {
		if ok, err := r.Contains(kv.K); err != nil || !ok {
			c.Absent = append(c.Absent, kv.K)
		} else if _, err := r.Get(kv.K); err != nil {
			c.Absent = append(c.Absent, kv.K)
		}
	}
	_ = filepath.Join
}

func (c *c15Case) Oracle() (bool, string) {
	if c.Fatal != "" {
		return false, c.Fatal
	}
	var acc []tblKV
	var last []byte
	haveLast := false
	for i, call := range c.Calls {
		mustReject := haveLast && bytes.Compare(call.K, last) <= 0
		switch {
		case mustReject:
			if call.Err == "" {
				return false, fmt.Sprintf("call %d: key %x not greater than the last accepted key %x was accepted", i, call.K, last)
			}
		case call.FailData || call.FailIdx:
			if call.Err == "" {
				return false, fmt.Sprintf("call %d: injected I/O failure not reported", i)
			}
			if call.Err == "Rejected" {
				return false, fmt.Sprintf("call %d: key %x is greater than the last accepted key %x but was rejected as non-ascending", i, call.K, last)
			}
		default:
			if call.Err != "" {
				return false, fmt.Sprintf("call %d: key %x greater than the last accepted key %x was refused (%s)", i, call.K, last, call.Err)
			}
			acc = append(acc, tblKV{K: call.K, V: call.V, Nil: call.Nil})
			last, haveLast = call.K, true
		}
	}
	if c.CloseErr != "" || c.OpenErr != "" {
		return false, "close/reopen failed: " + c.CloseErr + c.OpenErr
	}
	if c.Table.Err != "" || !tblEq(c.Table.KVs, acc) {
		return false, fmt.Sprintf("table content differs from the successfully written pairs (err=%q, %d entries, want %d)", c.Table.Err, len(c.Table.KVs), len(acc))
	}
	if len(c.Absent) > 0 {
		return false, fmt.Sprintf("the accepted key %x is in the table but Contains / Get deny it (%d such keys)", c.Absent[0], len(c.Absent))
	}
	nulls := 0
	for _, kv := range acc {
		if kv.Nil {
			nulls++
		}
	}
	if c.Meta.NumRecords != uint64(len(acc)) || c.Meta.NullValues != uint64(nulls) {
		return false, fmt.Sprintf("metadata counts %d records / %d nil values, table has %d / %d", c.Meta.NumRecords, c.Meta.NullValues, len(acc), nulls)
	}
	if len(acc) > 0 {
		if !bytes.Equal(c.Meta.MinKey, acc[0].K) {
			return false, fmt.Sprintf("metadata MinKey %x, smallest key in the table %x", c.Meta.MinKey, acc[0].K)
		}
		if !bytes.Equal(c.Meta.MaxKey, acc[len(acc)-1].K) {
			return false, fmt.Sprintf("metadata MaxKey %x, largest key in the table %x", c.Meta.MaxKey, acc[len(acc)-1].K)
		}
	}
	if c.Meta.IndexBytes != uint64(c.IndexLen) || c.Meta.DataBytes != uint64(c.DataLen) || c.Meta.TotalBytes != uint64(c.IndexLen+c.DataLen) {
		return false, fmt.Sprintf("metadata sizes index=%d data=%d total=%d, files have index=%d data=%d", c.Meta.IndexBytes, c.Meta.DataBytes, c.Meta.TotalBytes, c.IndexLen, c.DataLen)
	}
	return true, ""
}

func (c *c15Case) Sx() string {
	if c.Fatal != "" || c.OpenErr != "" || c.CloseErr != "" {
		return ""
	}
	var calls, errs []string
	var vals [][]byte
	for _, call := range c.Calls {
		f := 0
		if call.FailData {
			f = 1
		} else if call.FailIdx {
			f = 2
		}
		calls = append(calls, sxL(sxI(f), sxB(call.K), sxOBn(call.V, call.Nil)))
		e := 0
		if call.Err == "Rejected" {
			e = 1
		} else if call.Err != "" {
			e = 2
		}
		errs = append(errs, sxI(e))
		if !call.Nil {
			v := call.V
			if v == nil {
				v = []byte{}
			}
			vals = append(vals, v)
		}
	}
	return sxL(sxI(c.Opts.IndexComp), sxI(c.Opts.DataComp), compTable(c.Opts.IndexComp, c.IdxPay), compTable(c.Opts.DataComp, vals),
		sxList(calls), sxList(errs), c.Table.sx(), sxMeta(c.Meta), sxI(c.IndexLen), sxI(c.DataLen))
}
func (c *c15Case) Nontrivial() bool {
	ok, bad := 0, 0
	for _, call := range c.Calls {
		if call.Err == "" {
			ok++
		} else {
			bad++
		}
	}
	return ok >= 2 && bad >= 1
}
func (c *c15Case) Kind() string {
	f := 0
	for _, call := range c.Calls {
		if call.FailData || call.FailIdx {
			f++
		}
	}
	return fmt.Sprintf("calls=%s/faults=%s/i%d/d%d", bucket(len(c.Calls)), bucket(f), c.Opts.IndexComp, c.Opts.DataComp)
}

func genC15(r *rand.Rand, tier string) []Case {
	n := 300
	if tier == "thorough" {
		n = 10000
	}
	bufs := []int{1, 7, 64, 4096}
	var cases []Case
	for i := 0; i < n; i++ {
		c := &c15Case{Opts: tblOpts{IndexComp: r.Intn(4), DataComp: r.Intn(4), BloomN: []uint64{100, 100, 3, 1}[i%4], BloomP: 0.01, WBuf: bufs[r.Intn(len(bufs))]}, Mag: i%3 == 1}
		ncalls := r.Intn(25)
		cur := 0
		for j := 0; j < ncalls; j++ {
			var k []byte
			switch r.Intn(10) {
			case 0: // repeat or go back
				k = []byte(fmt.Sprintf("k%03d", cur-r.Intn(3)))
			case 1:
				k = []byte{}
			case 2:
				k = []byte(fmt.Sprintf("k%03d%s", cur, string(bytes.Repeat([]byte{'x'}, r.Intn(40)))))
				cur++
			default:
				cur += 1 + r.Intn(3)
				k = []byte(fmt.Sprintf("k%03d", cur))
			}
			call := c15Call{K: k}
			switch r.Intn(6) {
			case 0:
				call.Nil = true
			case 1:
				call.V = []byte{}
			default:
				call.V = advPayload(r, 20)
			}
			if i%3 != 0 {
				switch r.Intn(7) {
				case 0:
					call.FailData = true
				case 1:
					call.FailIdx = true
				}
			}
			c.Calls = append(c.Calls, call)
			// retry the same key after a failure now and then
			if (call.FailData || call.FailIdx) && r.Intn(2) == 0 {
				c.Calls = append(c.Calls, c15Call{K: k, V: []byte("retry")})
			}
		}
		cases = append(cases, c)
	}
	return cases
}

func init() {
	register(&Prop{
		ID: "C15", Num: 15,
		Gen:  genC15,
		New:  func() Case { return &c15Case{} },
		Rule: "sequences of 0..24 WriteNext calls with unsorted, repeated, empty and varying-length keys, nil/empty/adversarial values, a random subset failing at the data append or at the index append (wrappers installed through the verif hook), retries of the failed key, 4x4 compression pairs, write buffers {1,7,64,4096}; table reopened, metadata compared with the table and the file sizes. Non-trivial: >=2 accepted and >=1 refused call.",
	})
}
