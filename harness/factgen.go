package main

func factgen(out string) error { return nil }
