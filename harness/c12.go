package main

import (
	"bytes"
	"encoding/binary"
	"fmt"
	"hash/crc32"
	"math/rand"
	"os"
	"path/filepath"

	"github.com/thomasjungblut/go-sstables/recordio"
)

type c12Rec struct {
	Rec []byte `json:"rec,omitempty"`
	Nil bool   `json:"nil,omitempty"`
	// a large record is given by length and seed and materialised when the case runs
	GenN    int   `json:"gen_n,omitempty"`
	GenSeed int64 `json:"gen_seed,omitempty"`
}

type cutObs struct {
	N     int      `json:"n"`
	Open  string   `json:"open,omitempty"` // error of Open (sequential reader), "" = ok
	Seq   []recOut `json:"seq"`
	At    []recOut `json:"at"` // ReadNextAt at every original record offset
	MOpen string   `json:"mopen,omitempty"`
	// two read/skip programs over the cut file (skip the even positions and read the odd ones; the other way round)
	Mix [][]recOut `json:"mix,omitempty"`
}

type altObs struct {
	Pos int      `json:"pos"`
	Val int      `json:"val"`
	Rec int      `json:"rec"` // index of the record whose header was altered
	Seq []recOut `json:"seq"`
	At  recOut   `json:"at"`
	// a reader that reads the records before the damaged one, SKIPS the damaged one, and reads on
	SkipErr   string   `json:"skip_err,omitempty"`
	AfterSkip []recOut `json:"after_skip,omitempty"`
}

type fhObs struct {
	Version uint32 `json:"version"`
	Comp    uint32 `json:"comp"`
	Open    string `json:"open,omitempty"`
	MOpen   string `json:"mopen,omitempty"`
}

type c12Case struct {
	Mode string      `json:"mode"` // cut | hdr | filehdr
	Comp int         `json:"comp"`
	RBuf int         `json:"rbuf"`
	Recs []c12Rec    `json:"recs"`
	Vals []int       `json:"vals,omitempty"` // replacement values for hdr mode (empty = all 255 others)
	FH   [][2]uint32 `json:"fh,omitempty"`
	Big  bool        `json:"big,omitempty"` // cut mode with records of hundreds of kilobytes: sampled cut lengths, payloads observed as digests
	gen  map[int][]byte
	// observations
	File  []byte   `json:"file"`
	Offs  []uint64 `json:"offs"`
	HLens []int    `json:"hlens"`
	Cuts  []cutObs `json:"cuts,omitempty"`
	Alts  []altObs `json:"alts,omitempty"`
	FHs   []fhObs  `json:"fhs,omitempty"`
	Fatal string   `json:"fatal,omitempty"`
}

func (c *c12Case) rec(i int) []byte {
	if c.Recs[i].Nil {
		return nil
	}
	if n := c.Recs[i].GenN; n > 0 {
		if c.gen == nil {
			c.gen = map[int][]byte{}
		}
		if b, ok := c.gen[i]; ok {
			return b
		}
		b := make([]byte, n)
		rand.New(rand.NewSource(c.Recs[i].GenSeed)).Read(b)
		c.gen[i] = b
		return b
	}
	if c.Recs[i].Rec == nil {
		return []byte{}
	}
	return c.Recs[i].Rec
}

func (c *c12Case) storedLen(i int) int {
	if c.Recs[i].Nil {
		return 0
	}
	if c.Comp == 0 {
		return len(c.rec(i))
	}
	return len(compressBytes(c.Comp, c.rec(i)))
}

func openErr(err error) string {
	if err == nil {
		return ""
	}
	return classifyErr(err)
}

func readSeqFile(path string, rbuf int, limit int) (string, []recOut) {
	r, err := recordio.NewFileReader(recordio.ReaderPath(path), recordio.ReaderBufferSizeBytes(rbuf))
	if err != nil {
		return "Other", nil
	}
	defer r.Close()
	if err := r.Open(); err != nil {
		return "Rejected", nil
	}
	var out []recOut
	for i := 0; i < limit; i++ {
		b, err := r.ReadNext()
		out = append(out, mkRec(b, err, false))
		if err != nil {
			break
		}
	}
	return "", out
}

func (c *c12Case) Exec() {
	defer func() {
		if r := recover(); r != nil {
			c.Fatal = fmt.Sprint("panic: ", r)
		}
	}()
	c.Fatal, c.Cuts, c.Alts, c.FHs, c.Offs, c.HLens = "", nil, nil, nil, nil, nil
	dir := tmpDir("c12-")
	defer os.RemoveAll(dir)
	path := filepath.Join(dir, "f.rio")
	w, err := recordio.NewFileWriter(recordio.Path(path), recordio.CompressionType(c.Comp), recordio.BufferSizeBytes(64))
	if err != nil {
		c.Fatal = err.Error()
		return
	}
	must(w.Open())
	for i := range c.Recs {
		off, err := w.Write(c.rec(i))
		if err != nil {
			c.Fatal = err.Error()
			return
		}
		c.Offs = append(c.Offs, off)
	}
	end := w.Size()
	must(w.Close())
	c.File, _ = os.ReadFile(path)
	for i := range c.Recs {
		next := end
		if i+1 < len(c.Offs) {
			next = c.Offs[i+1]
		}
		c.HLens = append(c.HLens, int(next-c.Offs[i])-c.storedLen(i))
	}
	tmp := filepath.Join(dir, "t.rio")
	switch c.Mode {
	case "cut":
		var lens []int
		if !c.Big {
			for n := 0; n <= len(c.File); n++ {
				lens = append(lens, n)
			}
		} else {
			// around every record boundary, and a stride through the payloads
			seenLen := map[int]bool{}
			add := func(n int) {
				if n >= 0 && n <= len(c.File) && !seenLen[n] {
					seenLen[n] = true
					lens = append(lens, n)
				}
			}
			for i, off := range c.Offs {
				for d := -3; d <= 3; d++ {
					add(int(off) + d)
					add(int(off) + c.HLens[i] + d)
				}
			}
			for n := 0; n <= len(c.File); n += 1 + len(c.File)/37 {
				add(n)
			}
			add(len(c.File))
		}
		for _, n := range lens {
			must(os.WriteFile(tmp, c.File[:n], 0644))
			ob := cutObs{N: n}
			ob.Open, ob.Seq = readSeqFile(tmp, c.RBuf, len(c.Recs)+2)
			if n >= 8 && len(c.Recs) >= 2 {
				for par := 0; par < 2; par++ {
					var prog []bool
					for i := 0; i < len(c.Recs)+1; i++ {
						prog = append(prog, i%2 != par)
					}
					ob.Mix = append(ob.Mix, readMixed(tmp, c.RBuf, prog))
				}
			}
			m, err := openMmap(tmp, 0)
			if err != nil {
				ob.MOpen = "Rejected"
			} else {
				for _, off := range c.Offs {
					b, err := m.ReadNextAt(off)
					ob.At = append(ob.At, mkRec(b, err, true))
				}
				m.Close()
			}
			if c.Big {
				for _, l := range append([][]recOut{ob.Seq, ob.At}, ob.Mix...) {
					for x := range l {
						l[x].Data = squash(l[x].Data)
					}
				}
			}
			c.Cuts = append(c.Cuts, ob)
		}
		if c.Big {
			c.File = nil
		}
	case "hdr":
		for ri := range c.Recs {
			for p := 0; p < c.HLens[ri]; p++ {
				pos := int(c.Offs[ri]) + p
				vals := c.Vals
				if len(vals) == 0 {
					for v := 0; v < 256; v++ {
						vals = append(vals, v)
					}
				}
				for _, v := range vals {
					if byte(v) == c.File[pos] {
						continue
					}
					mod := append([]byte{}, c.File...)
					mod[pos] = byte(v)
					must(os.WriteFile(tmp, mod, 0644))
					ob := altObs{Pos: pos, Val: v, Rec: ri}
					_, ob.Seq = readSeqFile(tmp, c.RBuf, len(c.Recs)+2)
					m, err := openMmap(tmp, 0)
					if err == nil {
						b, err := m.ReadNextAt(c.Offs[ri])
						ob.At = mkRec(b, err, true)
						m.Close()
					}
					// skipping is reading and discarding: stepping over the damaged record must fail too, and whatever follows
					// a skip that "succeeded" must be the genuine continuation
					func() {
						rd, err := recordio.NewFileReader(recordio.ReaderPath(tmp), recordio.ReaderBufferSizeBytes(c.RBuf))
						if err != nil || rd.Open() != nil {
							ob.SkipErr = "Open"
							return
						}
						defer rd.Close()
						for i := 0; i < ri; i++ {
							if _, err := rd.ReadNext(); err != nil {
								ob.SkipErr = "Before"
								return
							}
						}
						if err := rd.SkipNext(); err != nil {
							ob.SkipErr = classifyErr(err)
							return
						}
						for i := 0; i < len(c.Recs)+1; i++ {
							b, err := rd.ReadNext()
							ob.AfterSkip = append(ob.AfterSkip, mkRec(b, err, false))
							if err != nil {
								break
							}
						}
					}()
					c.Alts = append(c.Alts, ob)
				}
			}
		}
	case "filehdr":
		for _, fh := range c.FH {
			mod := append([]byte{}, c.File...)
			binary.LittleEndian.PutUint32(mod[0:4], fh[0])
			binary.LittleEndian.PutUint32(mod[4:8], fh[1])
			must(os.WriteFile(tmp, mod, 0644))
			ob := fhObs{Version: fh[0], Comp: fh[1]}
			r, err := recordio.NewFileReader(recordio.ReaderPath(tmp), recordio.ReaderBufferSizeBytes(c.RBuf))
			if err == nil {
				if e := r.Open(); e != nil {
					ob.Open = "Rejected"
				}
				r.Close()
			}
			m, err := recordio.NewMemoryMappedReaderWithPath(tmp)
			if err == nil {
				if e := m.Open(); e != nil {
					ob.MOpen = "Rejected"
				}
				m.Close()
			}
			c.FHs = append(c.FHs, ob)
		}
	}
}

// eq: the returned payload is record i (large payloads are observed as digests)
func (c *c12Case) eq(data []byte, i int) bool {
	if c.Big {
		return bytes.Equal(data, squash(c.rec(i)))
	}
	return bytes.Equal(data, c.rec(i))
}

// genuinePrefix: the Ok items are exactly the first k written records, unaltered
func (c *c12Case) genuinePrefix(seq []recOut) (int, string) {
	k := 0
	for _, r := range seq {
		if r.Err != "" {
			break
		}
		if k >= len(c.Recs) {
			return k, "more records returned than were written"
		}
		if r.Nil != c.Recs[k].Nil || !c.eq(r.Data, k) {
			return k, fmt.Sprintf("record %d returned altered (nil=%v data=%x)", k, r.Nil, r.Data)
		}
		k++
	}
	return k, ""
}

func (c *c12Case) Oracle() (bool, string) {
	if c.Fatal != "" {
		return false, c.Fatal
	}
	switch c.Mode {
	case "cut":
		for _, ob := range c.Cuts {
			if ob.N < 8 {
				if ob.Open == "" {
					return false, fmt.Sprintf("cut %d: file with a cut file header was opened", ob.N)
				}
				continue
			}
			if ob.Open != "" {
				return false, fmt.Sprintf("cut %d: open failed: %s", ob.N, ob.Open)
			}
			k, msg := c.genuinePrefix(ob.Seq)
			if msg != "" {
				return false, fmt.Sprintf("cut %d: %s", ob.N, msg)
			}
			// exactly the records completely contained in the first n bytes
			want := 0
			for i := range c.Recs {
				endI := int(c.Offs[i]) + c.HLens[i] + c.storedLen(i)
				if endI <= ob.N {
					want = i + 1
				}
			}
			if k != want {
				return false, fmt.Sprintf("cut %d: %d records returned, %d are completely contained", ob.N, k, want)
			}
			if len(ob.Seq) != k+1 || ob.Seq[k].Err == "" {
				return false, fmt.Sprintf("cut %d: reader did not end with EOF or an error", ob.N)
			}
			for par, mix := range ob.Mix {
				for i, r := range mix {
					if !r.Skip && r.Err != "" && i < len(c.Recs) {
						// skipping is reading and discarding: a completely contained record is returned also after skips
						if endI := int(c.Offs[i]) + c.HLens[i] + c.storedLen(i); endI <= ob.N {
							return false, fmt.Sprintf("cut %d: read/skip program %d: reading the completely contained record %d failed after skips (%s)", ob.N, par, i, r.Err)
						}
					}
					if r.Skip || r.Err != "" {
						continue
					}
					// a record returned at step i of a read/skip program is record i, whole
					if i >= len(c.Recs) {
						return false, fmt.Sprintf("cut %d: read/skip program %d returned a record at step %d, behind the last written one", ob.N, par, i)
					}
					if endI := int(c.Offs[i]) + c.HLens[i] + c.storedLen(i); endI > ob.N {
						return false, fmt.Sprintf("cut %d: read/skip program %d returned data for record %d, which is not completely contained", ob.N, par, i)
					}
					if r.Nil != c.Recs[i].Nil || !c.eq(r.Data, i) {
						return false, fmt.Sprintf("cut %d: read/skip program %d: step %d did not return record %d (after skips)", ob.N, par, i, i)
					}
				}
			}
			for i, r := range ob.At {
				endI := int(c.Offs[i]) + c.HLens[i] + c.storedLen(i)
				if endI <= ob.N {
					if r.Err != "" || r.Nil != c.Recs[i].Nil || !c.eq(r.Data, i) {
						return false, fmt.Sprintf("cut %d: ReadNextAt of contained record %d wrong (%s)", ob.N, i, r.Err)
					}
				} else if r.Err == "" {
					return false, fmt.Sprintf("cut %d: ReadNextAt returned data for record %d that is not completely contained", ob.N, i)
				}
			}
		}
	case "hdr":
		for _, ob := range c.Alts {
			k, msg := c.genuinePrefix(ob.Seq)
			if msg != "" || k > ob.Rec {
				if msg == "" {
					msg = "the record with the altered header was returned as data"
				}
				return false, fmt.Sprintf("header byte %d (record %d) %02x->%02x, sequential reader: %s", ob.Pos, ob.Rec, c.File[ob.Pos], ob.Val, msg)
			}
			if k < ob.Rec {
				return false, fmt.Sprintf("header byte %d -> %02x: records before the damage were lost", ob.Pos, ob.Val)
			}
			if ob.At.Err == "" {
				return false, fmt.Sprintf("header byte %d (record %d) %02x->%02x, random-access reader returned data (nil=%v %x)", ob.Pos, ob.Rec, c.File[ob.Pos], ob.Val, ob.At.Nil, ob.At.Data)
			}
			if ob.SkipErr == "" {
				// the skip over the damaged record was accepted: what follows must be exactly the records behind it
				for i, r := range ob.AfterSkip {
					if r.Err != "" {
						break
					}
					j := ob.Rec + 1 + i
					if j >= len(c.Recs) || r.Nil != c.Recs[j].Nil || !bytes.Equal(r.Data, c.rec(j)) {
						return false, fmt.Sprintf("header byte %d (record %d) %02x->%02x: SkipNext stepped over the damaged record and the next read returned something that is not the following record", ob.Pos, ob.Rec, c.File[ob.Pos], ob.Val)
					}
				}
			}
		}
	case "filehdr":
		for _, ob := range c.FHs {
			bad := ob.Version < 1 || ob.Version > 4 || ob.Comp > 3
			if bad && (ob.Open == "" || ob.MOpen == "") {
				return false, fmt.Sprintf("file header version=%d compression=%d was accepted", ob.Version, ob.Comp)
			}
			if !bad && (ob.Open != "" || ob.MOpen != "") {
				return false, fmt.Sprintf("file header version=%d compression=%d was rejected", ob.Version, ob.Comp)
			}
		}
	}
	return true, ""
}

func sxRecs(l []recOut) string {
	var xs []string
	for _, r := range l {
		xs = append(xs, r.sx())
	}
	return sxList(xs)
}

func (c *c12Case) Sx() string {
	if c.Big {
		return ""
	}
	return c.sx()
}

func (c *c12Case) sx() string {
	if c.Fatal != "" {
		return ""
	}
	var recs, ctab, offs []string
	seen := map[string]bool{}
	for i := range c.Recs {
		recs = append(recs, sxOBn(c.Recs[i].Rec, c.Recs[i].Nil))
		if c.Comp != 0 && !seen[string(c.rec(i))] {
			seen[string(c.rec(i))] = true
			ctab = append(ctab, sxL(sxB(c.rec(i)), sxB(compressBytes(c.Comp, c.rec(i)))))
		}
		offs = append(offs, sxN(c.Offs[i]))
	}
	if c.Comp != 0 && !seen[""] {
		ctab = append(ctab, sxL(sxB(nil), sxB(compressBytes(c.Comp, []byte{}))))
	}
	head := []string{sxI(c.Comp), sxList(ctab), sxList(recs), sxB(c.File), sxList(offs)}
	switch c.Mode {
	case "cut":
		var cuts []string
		for _, ob := range c.Cuts {
			if ob.N < 8 {
				continue
			}
			var mixes []string
			for par, mix := range ob.Mix {
				var prog, out []string
				for i := 0; i < len(c.Recs)+1; i++ {
					prog = append(prog, sxBool(i%2 != par))
				}
				for _, r := range mix {
					out = append(out, r.sxMixed())
				}
				mixes = append(mixes, sxL(sxList(prog), sxList(out)))
			}
			cuts = append(cuts, sxL(sxI(ob.N), sxRecs(ob.Seq), sxRecs(ob.At), sxList(mixes)))
		}
		return sxL("n0", sxL(head...), sxList(cuts))
	case "hdr":
		// compressed files: a damaged header may pass a payload to the real decompressor that the
		// oracle table does not know; the model comparison is restricted to uncompressed files
		if c.Comp != 0 {
			return ""
		}
		var alts []string
		for _, ob := range c.Alts {
			alts = append(alts, sxL(sxI(ob.Pos), sxI(ob.Val), sxN(c.Offs[ob.Rec]), sxRecs(ob.Seq), ob.At.sx()))
		}
		return sxL("n1", sxL(head...), sxList(alts))
	case "filehdr":
		var fhs []string
		for _, ob := range c.FHs {
			fhs = append(fhs, sxL(sxN(uint64(ob.Version)), sxN(uint64(ob.Comp)), sxBool(ob.Open != ""), sxBool(ob.MOpen != "")))
		}
		return sxL("n2", sxL(head...), sxList(fhs))
	}
	return ""
}

func (c *c12Case) Nontrivial() bool { return len(c.Recs) >= 2 || c.Mode == "filehdr" }
func (c *c12Case) Kind() string {
	return fmt.Sprintf("%s/comp=%d/recs=%s", c.Mode, c.Comp, bucket(len(c.Recs)))
}

func genC12(r *rand.Rand, tier string) []Case {
	nCut, nHdr := 60, 24
	if tier == "thorough" {
		nCut, nHdr = 1500, 400
	}
	mkRecs := func(maxRecs, maxLen int) []c12Rec {
		n := 1 + r.Intn(maxRecs)
		var out []c12Rec
		for i := 0; i < n; i++ {
			switch r.Intn(7) {
			case 0:
				out = append(out, c12Rec{Nil: true})
			case 1:
				out = append(out, c12Rec{Rec: []byte{}})
			default:
				out = append(out, c12Rec{Rec: advPayload(r, maxLen)})
			}
		}
		return out
	}
	bufs := []int{1, 7, 64, 4096}
	var cases []Case
	for i := 0; i < nCut; i++ {
		cases = append(cases, &c12Case{Mode: "cut", Comp: i % 4, RBuf: bufs[r.Intn(len(bufs))], Recs: mkRecs(5, 20)})
	}
	// nil records between data records (the read/skip programs then read a nil record right after a skip)
	for i := 0; i < 4; i++ {
		c := &c12Case{Mode: "cut", Comp: i, RBuf: bufs[r.Intn(len(bufs))]}
		c.Recs = []c12Rec{{Rec: advPayload(r, 20)}, {Nil: true}, {Rec: append([]byte("B"), advPayload(r, 20)...)}, {Rec: append([]byte("C"), advPayload(r, 10)...)}, {Nil: true}, {Rec: []byte("D")}}
		if i%2 == 1 {
			c.Recs = append([]c12Rec{{Nil: true}}, c.Recs...)
		}
		cases = append(cases, c)
	}
	// records beyond the size classes of the readers' buffer pools (512 KiB, 1 MiB), cut inside their payloads
	for i := 0; i < 2; i++ {
		c := &c12Case{Mode: "cut", Comp: 0, RBuf: []int{4096, 64}[i], Big: true}
		c.Recs = []c12Rec{{Rec: []byte("first")}, {GenN: 512<<10 + 1 + r.Intn(100000), GenSeed: int64(i + 1)}, {Nil: true}, {Rec: advPayload(r, 30)}}
		if i == 1 {
			c.Recs = append(c.Recs, c12Rec{GenN: 1<<20 + 1 + r.Intn(1000), GenSeed: 77}, c12Rec{Rec: []byte("last")})
		}
		cases = append(cases, c)
	}
	for i := 0; i < nHdr; i++ {
		c := &c12Case{Mode: "hdr", Comp: i % 4, RBuf: bufs[r.Intn(len(bufs))], Recs: mkRecs(3, 12)}
		if i%4 == 0 && i%8 == 0 {
			c.Comp = 0
		}
		if i >= nHdr/2 && tier != "thorough" {
			// bit flips, zero, 0xff and marker bytes only
			c.Recs = mkRecs(6, 200)
		}
		cases = append(cases, c)
	}
	// payloads that begin with the checksum an altered header would need: if the one-byte length field gets its
	// continuation bit set it swallows the following zero byte (the compressed length), every later field moves by one and
	// the checksum is read from the start of the payload - a reader that tolerates the non-minimal length accepts it
	for i := 0; i < 3; i++ {
		L := 12 + r.Intn(100)
		h := []byte{0x91, 0x8d, 0x4c, 0x00, byte(L), 0x00}
		crcOf := func(b []byte) []byte {
			var buf [10]byte
			n := binary.PutUvarint(buf[:], uint64(crc32.Checksum(b, crc32.MakeTable(crc32.Castagnoli))))
			return buf[:n]
		}
		altered := append([]byte{0x91, 0x8d, 0x4c, 0x00, byte(L) | 0x80, 0x00}, crcOf(h)...)
		payload := append([]byte{}, crcOf(altered)...)
		for len(payload) < L {
			payload = append(payload, byte('a'+len(payload)%26))
		}
		c := &c12Case{Mode: "hdr", Comp: 0, RBuf: bufs[r.Intn(len(bufs))], Recs: []c12Rec{{Rec: payload[:L]}, {Rec: bytes.Repeat([]byte("following record "), 8)}}}
		cases = append(cases, c)
	}
	// restricted replacement sets are computed per position in Exec when Vals is empty: for the
	// longer files use the small set
	for _, cs := range cases {
		c := cs.(*c12Case)
		if c.Mode == "hdr" && len(c.Recs) > 3 {
			c.Vals = []int{0x00, 0xff, 0x91, 0x8d, 0x4c, 0x01, 0x80}
		}
	}
	fh := [][2]uint32{}
	for v := uint32(0); v <= 9; v++ {
		for ct := uint32(0); ct <= 6; ct++ {
			fh = append(fh, [2]uint32{v, ct})
		}
	}
	fh = append(fh, [2]uint32{4, 255}, [2]uint32{4, 256}, [2]uint32{4, 1 << 31}, [2]uint32{256, 0}, [2]uint32{0x04000000, 0}, [2]uint32{1 << 31, 1 << 31}, [2]uint32{0xffffffff, 0xffffffff}, [2]uint32{4, 0xffffffff})
	for i := 0; i < 4; i++ {
		cases = append(cases, &c12Case{Mode: "filehdr", Comp: i, RBuf: 4096, Recs: mkRecs(3, 10), FH: fh})
	}
	return cases
}

func init() {
	register(&Prop{
		ID: "C12", Num: 12,
		Gen: func(r *rand.Rand, tier string) []Case {
			var out []Case
			for _, c := range genC12(r, tier) {
				out = append(out, &c12Any{Cur: c.(*c12Case)})
			}
			for _, f := range []string{"v3_compat/recordio_UncompressedNilAndEmptyRecord", "v3_compat/recordio_UncompressedSingleRecord", "v2_compat/recordio_UncompressedSingleRecord",
				"v3_compat/recordio_UncompressedMagicNumberContent", "v2_compat/recordio_UncompressedWriterMultiRecord_asc", "v3_compat/recordio_SnappyWriterMultiRecord_asc",
				"v2_compat/recordio_SnappyWriterMultiRecord_asc", "v1_compat/recordio_UncompressedSingleRecord"} {
				if _, err := os.Stat(filepath.Join(repoRoot, "recordio", "test_files", f)); err == nil {
					out = append(out, &c12Any{Legacy: &c12Legacy{File: f}})
				}
			}
			return out
		},
		New:  func() Case { return &c12Any{} },
		Rule: "fixtures of the older format versions (recordio/test_files/v1..v3_compat) cut at every length (sampled around the record starts for the 30 KiB ones): both readers return only records of the uncut file, in order; cut: files of 1-5 adversarial records per compression type (plus files with nil records between data records, and files with records of 512 KiB+ / 1 MiB+ cut at sampled lengths), every truncation length 0..size, sequential reader, ReadNextAt at every record offset and two read/skip programs (skip even / read odd positions and the reverse) over every cut; hdr: every header byte of every record x all 255 other values (short files) or {00,ff,91,8d,4c,01,80} (longer files), both readers; filehdr: version 0..9 x compression 0..6 plus large values. Non-trivial: >=2 records (or file-header grid).",
	})
}

func (c *c12Case) Evals() int { return len(c.Cuts) + len(c.Alts) + len(c.FHs) }
