package main

import (
	"bytes"
	"errors"
	"fmt"
	"os"
	"path/filepath"
	"sort"
	"strings"
	"time"

	"github.com/thomasjungblut/go-sstables/simpledb"
)

// ---- database programs: sessions of steps against one directory

type dbOpts struct {
	MemstoreBytes uint64 `json:"memstore"`
	Threshold     int    `json:"threshold"`
	MaxSize       uint64 `json:"max_size"`
	RatioPct      int    `json:"ratio_pct"` // compaction ratio in percent
	WBuf          uint64 `json:"wbuf"`
	RBuf          uint64 `json:"rbuf"`
	AsyncWAL      bool   `json:"async_wal,omitempty"`
	DirectIOWAL   bool   `json:"directio_wal,omitempty"` // with the synchronous WAL every append is refused: all writes fail
	EarlyClose    bool   `json:"early_close,omitempty"`  // Close is called on the handle before Open (it is refused and must change nothing)
}

func (o dbOpts) options() []simpledb.ExtraOption {
	opts := []simpledb.ExtraOption{simpledb.DisableCompactions(), simpledb.MemstoreSizeBytes(o.MemstoreBytes),
		simpledb.CompactionFileThreshold(o.Threshold), simpledb.CompactionMaxSizeBytes(o.MaxSize),
		simpledb.CompactionRatio(float32(o.RatioPct) / 100), simpledb.WriteBufferSizeBytes(o.WBuf), simpledb.ReadBufferSizeBytes(o.RBuf)}
	if o.AsyncWAL {
		opts = append(opts, simpledb.EnableAsyncWAL())
	}
	if o.DirectIOWAL {
		opts = append(opts, simpledb.EnableDirectIOWAL())
	}
	return opts
}

type tblInfo struct {
	Name  string `json:"name"`
	Num   uint64 `json:"num"`
	Nulls uint64 `json:"nulls"`
	Bytes uint64 `json:"bytes"`
}

type dbStep struct {
	Op   string  `json:"op"` // put putb del delb get getb rotate compact reopen
	K    []byte  `json:"k,omitempty"`
	V    []byte  `json:"v,omitempty"`
	KNil bool    `json:"knil,omitempty"`
	VNil bool    `json:"vnil,omitempty"`
	Opts *dbOpts `json:"opts,omitempty"` // for reopen
	Torn int     `json:"torn,omitempty"` // for reopen: 1+n = before Open, a newest WAL file with only n (0..7) bytes of its header is planted
	// for reopen: before Open a leftover compaction directory is planted whose success marker has a complete file
	// header but no (1) or a cut (2) record - what a kill while the marker was being written leaves behind
	TornMarker int `json:"torn_marker,omitempty"`
	// for putb: the value is handed over in a buffer that the caller keeps per key and refills for the next PutBytes of
	// that key (the database keeps the slice it is given; a caller that refills it right before the next put of the same
	// key never shows it a stale value)
	Scratch bool `json:"scratch,omitempty"`
	// observations
	Err      string    `json:"err,omitempty"`
	Val      []byte    `json:"val,omitempty"`
	Found    bool      `json:"found,omitempty"`
	Tables   []tblInfo `json:"tables,omitempty"`   // live tables after rotate(+flush) / compact / reopen
	Selected []string  `json:"selected,omitempty"` // compaction inputs (base names)
	Before   []tblInfo `json:"before,omitempty"`   // live tables before a compaction cycle
}

func (s *dbStep) key() []byte {
	if s.KNil {
		return nil
	}
	if s.K == nil {
		return []byte{}
	}
	return s.K
}
func (s *dbStep) val() []byte {
	if s.VNil {
		return nil
	}
	if s.V == nil {
		return []byte{}
	}
	return s.V
}

func dbErrName(err error) string {
	switch {
	case err == nil:
		return ""
	case errors.Is(err, simpledb.ErrNotFound):
		return "NotFound"
	case errors.Is(err, simpledb.ErrEmptyKeyValue):
		return "Rejected"
	}
	n := classifyErr(err)
	if n == "Other" {
		msg := err.Error()
		if strings.Contains(msg, "was nil") {
			return "Rejected"
		}
		return "Other:" + msg
	}
	return n
}

func tablesOf(db *simpledb.DB) []tblInfo {
	var out []tblInfo
	for _, t := range db.VerifTables() {
		out = append(out, tblInfo{Name: filepath.Base(t.Path), Num: t.NumRecords, Nulls: t.NullValues, Bytes: t.TotalBytes})
	}
	return out
}

type dbRunner struct {
	dir     string
	db      *simpledb.DB
	opts    dbOpts
	scratch map[string][]byte
}

func (r *dbRunner) open(o dbOpts) error {
	db, err := simpledb.NewSimpleDB(r.dir, o.options()...)
	if err != nil {
		return err
	}
	if o.EarlyClose {
		if err := db.Close(); err == nil {
			return fmt.Errorf("Close before Open was not refused")
		}
	}
	if err := db.Open(); err != nil {
		return err
	}
	r.db, r.opts = db, o
	return nil
}

// run one step; a panic inside the library is an outcome ("Panic:...")
func (r *dbRunner) step(s *dbStep) {
	defer func() {
		if p := recover(); p != nil {
			s.Err = fmt.Sprint("Panic:", p)
		}
	}()
	s.Err, s.Val, s.Found, s.Tables, s.Selected, s.Before = "", nil, false, nil, nil, nil
	switch s.Op {
	case "put":
		s.Err = dbErrName(r.db.Put(string(s.key()), string(s.val())))
	case "putb":
		v := s.val()
		if s.Scratch && v != nil {
			if r.scratch == nil {
				r.scratch = map[string][]byte{}
			}
			buf := r.scratch[string(s.key())]
			if cap(buf) < len(v) {
				buf = make([]byte, len(v))
			}
			buf = buf[:len(v)]
			copy(buf, v)
			r.scratch[string(s.key())] = buf
			v = buf
		}
		s.Err = dbErrName(r.db.PutBytes(s.key(), v))
	case "del":
		s.Err = dbErrName(r.db.Delete(string(s.key())))
	case "delb":
		s.Err = dbErrName(r.db.DeleteBytes(s.key()))
	case "get":
		v, err := r.db.Get(string(s.key()))
		s.Err = dbErrName(err)
		if err == nil {
			s.Val, s.Found = []byte(v), true
		}
	case "getb":
		v, err := r.db.GetBytes(s.key())
		s.Err = dbErrName(err)
		if err == nil {
			s.Val, s.Found = append([]byte{}, v...), true
		}
	case "rotate":
		if err := r.db.VerifForceRotation(); err != nil {
			s.Err = dbErrName(err)
			return
		}
		r.db.VerifWaitFlusherIdle()
		s.Tables = tablesOf(r.db)
	case "rotnw":
		// a rotation that does not wait for the flusher: the next steps run while the flush is (or may be) under way
		if err := r.db.VerifForceRotation(); err != nil {
			s.Err = dbErrName(err)
		}
	case "compact":
		s.Before = tablesOf(r.db)
		done := make(chan struct{})
		var sel []string
		var err error
		go func() {
			defer close(done)
			defer func() {
				if p := recover(); p != nil {
					err = fmt.Errorf("panic: %v", p)
				}
			}()
			sel, _, _, err = r.db.VerifRunCompaction()
		}()
		select {
		case <-done:
		case <-time.After(20 * time.Second):
			s.Err = "Hang"
			return
		}
		if err != nil {
			s.Err = "Other:" + err.Error()
		}
		s.Selected = sel
		s.Tables = tablesOf(r.db)
	case "reopen":
		if err := r.db.Close(); err != nil {
			s.Err = "Close:" + err.Error()
			return
		}
		o := r.opts
		if s.Opts != nil {
			o = *s.Opts
		}
		if s.Torn > 0 {
			// what a kill between the creation of a WAL file and the write of its header leaves behind
			wd := filepath.Join(r.dir, "wal")
			os.MkdirAll(wd, 0700)
			ents, _ := os.ReadDir(wd)
			next := 0
			for _, e := range ents {
				var n int
				if _, err := fmt.Sscanf(e.Name(), "%06d.wal", &n); err == nil && n >= next {
					next = n + 1
				}
			}
			hdr := []byte{4, 0, 0, 0, 1, 0, 0, 0}
			os.WriteFile(filepath.Join(wd, fmt.Sprintf("%06d.wal", next)), hdr[:s.Torn-1], 0600)
		}
		if s.TornMarker > 0 {
			cd := filepath.Join(r.dir, fmt.Sprintf("sstable_compaction%d", 4242+s.TornMarker))
			os.MkdirAll(cd, 0700)
			marker := []byte{4, 0, 0, 0, 0, 0, 0, 0}
			if s.TornMarker == 2 {
				marker = append(marker, 0x91, 0x8d, 0x4c, 0x00, 0x20)
			}
			os.WriteFile(filepath.Join(cd, "compaction_successful"), marker, 0600)
		}
		if err := r.open(o); err != nil {
			s.Err = "Open:" + err.Error()
			return
		}
		s.Tables = tablesOf(r.db)
	}
}

// ---- reference bookkeeping (model-independent): the map, and the lineage of tables for classifiers

type refDB struct {
	m map[string][]byte // live values
}

func newRefDB() *refDB { return &refDB{m: map[string][]byte{}} }

func sortedKeys(m map[string][]byte) []string {
	var ks []string
	for k := range m {
		ks = append(ks, k)
	}
	sort.Strings(ks)
	return ks
}

// lineage: logical mirror of the table list, used only to classify the known finding F-C06a
type lTable map[string]*[]byte // nil = tombstone

type lineage struct {
	tables      []lTable
	mem         lTable
	resurrected map[string]bool // keys whose tombstone was dropped by a compaction while an older table outside the run holds a live value
}

func newLineage() *lineage { return &lineage{mem: lTable{}, resurrected: map[string]bool{}} }

func (l *lineage) flush() {
	if len(l.mem) > 0 {
		l.tables = append(l.tables, l.mem)
		l.mem = lTable{}
	}
}

func (l *lineage) apply(s *dbStep) {
	switch s.Op {
	case "put", "putb":
		if s.Err == "" {
			v := append([]byte{}, s.val()...)
			l.mem[string(s.key())] = &v
		}
	case "del", "delb":
		if s.Err == "" {
			l.mem[string(s.key())] = nil
		}
	case "rotate", "reopen":
		l.flush()
	case "compact":
		if len(s.Selected) == 0 || len(s.Before) != len(l.tables) {
			return
		}
		pos := map[string]int{}
		for i, t := range s.Before {
			pos[t.Name] = i
		}
		p0, p1 := len(l.tables), -1
		for _, n := range s.Selected {
			if p, ok := pos[n]; ok {
				if p < p0 {
					p0 = p
				}
				if p > p1 {
					p1 = p
				}
			}
		}
		if p1 < p0 {
			return
		}
		merged := lTable{}
		newest := lTable{}
		for i := p0; i <= p1; i++ {
			for k, v := range l.tables[i] {
				newest[k] = v
			}
		}
		for k, v := range newest {
			if v != nil && len(*v) > 0 {
				merged[k] = v
				continue
			}
			// dropped tombstone: does an older table outside the run still hold a live value?
			for j := p0 - 1; j >= 0; j-- {
				if ov, ok := l.tables[j][k]; ok {
					if ov != nil {
						l.resurrected[k] = true
					}
					break
				}
			}
		}
		nt := append([]lTable{}, l.tables[:p0]...)
		nt = append(nt, merged)
		nt = append(nt, l.tables[p1+1:]...)
		l.tables = nt
	}
}

// classifyC06a: the failure message concerns a Get of a key affected by F-C06a
func classifyC06a(steps []dbStep, msg string) string {
	l := newLineage()
	for i := range steps {
		l.apply(&steps[i])
	}
	for k := range l.resurrected {
		if strings.Contains(msg, fmt.Sprintf("(%q)", k)) && strings.Contains(msg, "present=false") {
			return "F-C06a"
		}
	}
	return ""
}

var _ = bytes.Equal
var _ = os.Remove

// ---- s-expression of a database program with its observations (Corr/DB.v)

func genOf(name string) uint64 {
	var g uint64
	fmt.Sscanf(name, simpledb.SSTablePattern, &g)
	return g
}

func sxTables(ts []tblInfo) string {
	var xs []string
	for _, t := range ts {
		xs = append(xs, sxL(sxN(genOf(t.Name)), sxN(t.Num), sxN(t.Nulls)))
	}
	return sxList(xs)
}

// returns "" when the program contains something the logical model does not cover
// the step list of a database program with its observations; "" if a step failed in an unmodelled way
func sxDbSteps(opts dbOpts, steps []dbStep) (string, bool) {
	cur := opts
	var xs []string
	for i := range steps {
		s := &steps[i]
		if len(s.Err) > 6 && (s.Err[:6] == "Other:" || s.Err[:6] == "Panic:") {
			return "", false
		}
		switch s.Op {
		case "put", "putb":
			xs = append(xs, sxL("n0", sxOBn(s.K, s.KNil), sxOBn(s.V, s.VNil), sxBool(s.Err == "")))
		case "del", "delb":
			xs = append(xs, sxL("n1", sxOBn(s.K, s.KNil), sxBool(s.Err == "")))
		case "get", "getb":
			xs = append(xs, sxL("n2", sxB(s.key()), sxOBn(s.Val, !s.Found)))
		case "rotate":
			xs = append(xs, sxL("n3", sxTables(s.Tables)))
		case "compact":
			var sizes, sel []string
			for _, t := range s.Before {
				sizes = append(sizes, sxN(t.Bytes))
			}
			for _, n := range s.Selected {
				sel = append(sel, sxN(genOf(n)))
			}
			cfg := sxL(sxI(cur.Threshold), sxN(cur.MaxSize), sxI(cur.RatioPct))
			xs = append(xs, sxL("n4", cfg, sxList(sizes), sxList(sel), sxTables(s.Tables)))
		case "reopen":
			if s.Opts != nil {
				cur = *s.Opts
			}
			xs = append(xs, sxL("n5", sxTables(s.Tables)))
		}
	}
	return sxList(xs), true
}

func sxDbProgram(opts dbOpts, steps []dbStep, sweeps [][]dbStep, sweepBeforeCompact bool) string {
	stepsSx, ok := sxDbSteps(opts, steps)
	if !ok {
		return ""
	}
	var sws []string
	for _, sw := range sweeps {
		var ps []string
		for _, g := range sw {
			ps = append(ps, sxL(sxB(g.key()), sxOBn(g.Val, !g.Found)))
		}
		sws = append(sws, sxList(ps))
	}
	return sxL(stepsSx, sxList(sws), "()", sxBool(sweepBeforeCompact))
}
