package main

import (
	"bytes"
	"fmt"
	"github.com/thomasjungblut/go-sstables/recordio"
	"math/rand"
	"os"
	"path/filepath"
)

type c01Case struct {
	Opts  dbOpts   `json:"opts"`
	Steps []dbStep `json:"steps"`
	Keys  [][]byte `json:"keys"` // key universe, read completely at the end and after every structural step
	// observations
	Sweeps [][]dbStep `json:"sweeps,omitempty"` // Get of every key after each rotate/compact/reopen and at the end
	Fatal  string     `json:"fatal,omitempty"`
}

func (c *c01Case) Exec() {
	c.Fatal, c.Sweeps = "", nil
	top := tmpDir("c01-")
	defer os.RemoveAll(top)
	// the name of the database directory is part of the configuration: names that look like the library's own
	// table / compaction directories must work like any other
	dir := filepath.Join(top, []string{"db", "sstable_store", "sstable_compaction_area", "wal"}[(len(c.Steps)+len(c.Keys))%4])
	must(os.MkdirAll(dir, 0755))
	r := &dbRunner{dir: dir}
	if err := r.open(c.Opts); err != nil {
		c.Fatal = "open: " + err.Error()
		return
	}
	sweep := func() {
		var sw []dbStep
		for _, k := range c.Keys {
			g := dbStep{Op: "getb", K: k}
			r.step(&g)
			sw = append(sw, g)
		}
		c.Sweeps = append(c.Sweeps, sw)
	}
	for i := range c.Steps {
		s := &c.Steps[i]
		r.step(s)
		if s.Op == "rotate" || s.Op == "compact" || s.Op == "reopen" {
			if len(s.Err) > 5 && (s.Err[:5] == "Open:" || s.Err[:5] == "Panic" || s.Err == "Hang") {
				c.Fatal = fmt.Sprintf("step %d (%s): %s", i, s.Op, s.Err)
				return
			}
			sweep()
		}
	}
	sweep()
	if r.db != nil {
		_ = r.db.Close()
	}
}

// valid workload: non-empty keys and values through the string API
func (c *c01Case) Oracle() (bool, string) {
	if c.Fatal != "" {
		return false, c.Fatal
	}
	ref := map[string][]byte{}
	si := 0
	checkSweep := func(after string) (bool, string) {
		if si >= len(c.Sweeps) {
			return false, "missing sweep"
		}
		sw := c.Sweeps[si]
		si++
		for _, g := range sw {
			want, ok := ref[string(g.K)]
			if ok != g.Found || (ok && !bytes.Equal(want, g.Val)) || (!ok && g.Err != "NotFound") {
				return false, fmt.Sprintf("after %s: Get(%q) = %q found=%v err=%q, reference says %q present=%v", after, g.K, g.Val, g.Found, g.Err, want, ok)
			}
		}
		return true, ""
	}
	for i, s := range c.Steps {
		switch s.Op {
		case "put", "putb":
			if s.Err != "" {
				return false, fmt.Sprintf("step %d %s failed: %s", i, s.Op, s.Err)
			}
			ref[string(s.key())] = s.val()
		case "del", "delb":
			if s.Err != "" {
				return false, fmt.Sprintf("step %d %s failed: %s", i, s.Op, s.Err)
			}
			delete(ref, string(s.key()))
		case "get", "getb":
			want, ok := ref[string(s.key())]
			if ok != s.Found || (ok && !bytes.Equal(want, s.Val)) || (!ok && s.Err != "NotFound") {
				return false, fmt.Sprintf("step %d: Get(%q) = %q found=%v err=%q, reference says %q present=%v", i, s.K, s.Val, s.Found, s.Err, want, ok)
			}
		case "rotate", "compact", "reopen":
			if s.Err != "" {
				return false, fmt.Sprintf("step %d: %s cycle failed: %s", i, s.Op, s.Err)
			}
			if ok, m := checkSweep(fmt.Sprintf("step %d (%s)", i, s.Op)); !ok {
				return false, m
			}
		}
	}
	return checkSweep("the last step")
}

func (c *c01Case) Sx() string {
	if c.Fatal != "" || c.Opts.MemstoreBytes < 1<<20 {
		return ""
	}
	return sxDbProgram(c.Opts, c.Steps, c.Sweeps, false)
}
func (c *c01Case) Nontrivial() bool {
	st := 0
	for _, s := range c.Steps {
		if s.Op == "rotate" || s.Op == "compact" || s.Op == "reopen" {
			st++
		}
	}
	return st >= 2 && len(c.Steps) >= 8
}
func (c *c01Case) Kind() string {
	return fmt.Sprintf("steps=%s/thr=%d/ratio=%d/max=%d", bucket(len(c.Steps)), c.Opts.Threshold, c.Opts.RatioPct, c.Opts.MaxSize)
}

var dioAvailable, _ = recordio.IsDirectIOAvailable()

func randDbOpts(r *rand.Rand) dbOpts {
	o := randDbOpts0(r)
	o.EarlyClose = r.Intn(5) == 0
	switch r.Intn(8) {
	case 0:
		o.AsyncWAL = true
	case 1:
		// the asynchronous log through direct I/O (with any of the buffer sizes of the session)
		o.AsyncWAL, o.DirectIOWAL = true, dioAvailable
	}
	return o
}

func randDbOpts0(r *rand.Rand) dbOpts {
	return dbOpts{
		MemstoreBytes: 1 << 30,
		Threshold:     []int{0, 1, 2, 3, 10}[r.Intn(5)],
		MaxSize:       []uint64{0, 200, 400, 1000, 5 << 30}[r.Intn(5)],
		RatioPct:      []int{0, 20, 50, 100}[r.Intn(4)],
		WBuf:          []uint64{1, 7, 4096, 4 << 20}[r.Intn(4)],
		RBuf:          []uint64{1, 7, 4096, 4 << 20}[r.Intn(4)],
	}
}

func genDbProgram(r *rand.Rand, nsteps int, keys [][]byte) []dbStep {
	var steps []dbStep
	written := map[string][][]byte{}
	for j := 0; j < nsteps; j++ {
		k := keys[r.Intn(len(keys))]
		switch x := r.Intn(20); {
		case x < 8:
			v := []byte(fmt.Sprintf("v%d-%d", j, r.Intn(1000)))
			if r.Intn(8) == 0 {
				v = bytes.Repeat([]byte{byte('a' + j%26)}, 50+r.Intn(300))
			} else if r.Intn(8) == 0 {
				v = make([]byte, 200+r.Intn(400)) // incompressible
				r.Read(v)
			}
			op := "put"
			if r.Intn(3) == 0 {
				op = "putb"
			}
			if prev := written[string(k)]; len(prev) > 0 && r.Intn(4) == 0 {
				v = prev[r.Intn(len(prev))] // the same bytes as an earlier put of this key
			}
			written[string(k)] = append(written[string(k)], v)
			steps = append(steps, dbStep{Op: op, K: k, V: v})
		case x < 12:
			op := "del"
			if r.Intn(3) == 0 {
				op = "delb"
			}
			if r.Intn(6) == 0 {
				k = []byte{} // Delete accepts the empty key (Put does not)
			}
			steps = append(steps, dbStep{Op: op, K: k})
		case x < 15:
			steps = append(steps, dbStep{Op: "get", K: k})
		case x < 17:
			steps = append(steps, dbStep{Op: "rotate"})
		case x < 19:
			steps = append(steps, dbStep{Op: "compact"})
		default:
			o := randDbOpts(r)
			steps = append(steps, dbStep{Op: "reopen", Opts: &o})
		}
	}
	return steps
}

func genC01(r *rand.Rand, tier string) []Case {
	n, maxSteps := 150, 60
	if tier == "thorough" {
		n, maxSteps = 4000, 300
	}
	var cases []Case
	for i := 0; i < n; i++ {
		nk := 2 + r.Intn(7)
		var keys [][]byte
		for k := 0; k < nk; k++ {
			keys = append(keys, []byte(fmt.Sprintf("key%02d", k)))
		}
		if i%5 == 0 {
			keys = append(keys, []byte{0x91, 0x8d, 0x4c}, []byte("a\x00"))
		}
		c := &c01Case{Opts: randDbOpts(r), Keys: keys}
		c.Steps = genDbProgram(r, 5+r.Intn(maxSteps), keys)
		if i%8 == 5 {
			// tiny memstore: (almost) every Put rotates by itself, flushes overlap with the next operations;
			// judged by the reference-map oracle only (the schedule is the implementation's own)
			c.Opts.MemstoreBytes = []uint64{1, 20, 60}[r.Intn(3)]
			var st []dbStep
			for j := 0; j < 40+r.Intn(60); j++ {
				k := keys[r.Intn(len(keys))]
				st = append(st, dbStep{Op: "put", K: k, V: []byte(fmt.Sprintf("v%d", j))}, dbStep{Op: "get", K: k})
				if r.Intn(4) == 0 {
					st = append(st, dbStep{Op: "del", K: keys[r.Intn(len(keys))]}, dbStep{Op: "get", K: keys[r.Intn(len(keys))]})
				}
				if r.Intn(25) == 0 {
					st = append(st, dbStep{Op: "compact"})
				}
			}
			c.Steps = st
		}
		cases = append(cases, c)
	}
	// tiny memstores with bursts of deletes and overwrites of the same keys: the log of one memstore generation grows
	// far beyond any multiple of the memstore limit while the memstore does not grow; then restarts
	nt := 6
	if tier == "thorough" {
		nt = 120
	}
	for i := 0; i < nt; i++ {
		keys := [][]byte{[]byte("k0"), []byte("k1"), []byte("k2")}
		c := &c01Case{Keys: keys, Opts: dbOpts{MemstoreBytes: []uint64{1, 1, 4, 8}[r.Intn(4)], Threshold: 10, MaxSize: 5 << 30, RatioPct: 100, WBuf: 4096, RBuf: 4096}}
		for round := 0; round < 2+r.Intn(3); round++ {
			c.Steps = append(c.Steps, dbStep{Op: "put", K: keys[r.Intn(3)], V: []byte(fmt.Sprintf("v%d", round))})
			for j := 0; j < 40+r.Intn(80); j++ {
				c.Steps = append(c.Steps, dbStep{Op: "del", K: keys[r.Intn(3)]})
			}
			c.Steps = append(c.Steps, dbStep{Op: "put", K: keys[r.Intn(3)], V: []byte(fmt.Sprintf("w%d", round))})
			if r.Intn(2) == 0 {
				o := c.Opts
				c.Steps = append(c.Steps, dbStep{Op: "reopen", Opts: &o})
			}
		}
		o := c.Opts
		c.Steps = append(c.Steps, dbStep{Op: "reopen", Opts: &o})
		cases = append(cases, c)
	}
	// the lineages of the compaction check (selection by two criteria across a gap, excluded oldest tables) as programs
	for _, cc := range genC06(r, "quick") {
		c6 := cc.(*c06Case)
		if len(c6.Steps) == 0 || len(cases)%1 != 0 {
			continue
		}
		cases = append(cases, &c01Case{Opts: c6.Opts, Steps: c6.Steps, Keys: c6.Keys})
	}
	return cases
}

func init() {
	register(&Prop{
		ID: "C01", Num: 1,
		Gen:      genC01,
		New:      func() Case { return &c01Case{} },
		Rule:     "programs of Put/PutBytes/Delete/DeleteBytes/Get over 2-10 keys with forced rotations (+flush wait), synchronous compaction cycles and close/reopen with fresh random options placed at random positions; options: file threshold {0,1,2,3,10}, max size {0,200,400,1000,5Gi}, ratio {0,.2,.5,1}, write/read buffers {1,7,4096,4Mi}; every key read after every structural step. Non-trivial: >=2 structural steps and >=8 steps.",
		Classify: func(cs Case, msg string) string { return classifyC06a(cs.(*c01Case).Steps, msg) },
		Shrink: func(cs Case) []Case {
			c := cs.(*c01Case)
			var out []Case
			for i := range c.Steps {
				n := &c01Case{Opts: c.Opts, Keys: c.Keys}
				n.Steps = append(append([]dbStep{}, c.Steps[:i]...), c.Steps[i+1:]...)
				out = append(out, n)
			}
			return out
		},
	})
}
