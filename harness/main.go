package main

import (
	"encoding/json"
	"flag"
	"fmt"
	"io"
	"log"
	"os"
)

func main() {
	log.SetOutput(io.Discard)
	if len(os.Args) < 2 {
		fmt.Fprintln(os.Stderr, "usage: harness <property|factgen|list> [flags]")
		os.Exit(2)
	}
	cmd := os.Args[1]
	if sub, ok := subcommands[cmd]; ok {
		os.Exit(sub(os.Args[2:]))
	}
	fs := flag.NewFlagSet(cmd, flag.ExitOnError)
	tier := fs.String("tier", "quick", "quick|thorough")
	seed := fs.Int64("seed", 1, "PRNG seed")
	out := fs.String("out", "", "output directory")
	replay := fs.String("replay", "", "replay file")
	corpus := fs.String("corpus", "", "corpus directory")
	_ = fs.Parse(os.Args[2:])
	switch cmd {
	case "list":
		for id := range props {
			fmt.Println(id)
		}
		return
	case "factgen":
		if err := factgen(*out); err != nil {
			fmt.Fprintln(os.Stderr, err)
			os.Exit(2)
		}
		return
	}
	p, ok := props[cmd]
	if !ok {
		fmt.Fprintf(os.Stderr, "unknown property %s\n", cmd)
		os.Exit(2)
	}
	if *replay != "" {
		c, err := loadCase(p, *replay)
		if err != nil {
			fmt.Fprintln(os.Stderr, err)
			os.Exit(2)
		}
		pmsg := safeExec(c)
		okk, msg := false, pmsg
		if pmsg == "" {
			okk, msg = c.Oracle()
		}
		js, _ := json.MarshalIndent(c, "", " ")
		fmt.Printf("%s\noracle_ok=%v %s\n", js, okk, msg)
		if !okk {
			os.Exit(1)
		}
		return
	}
	if *out == "" {
		fmt.Fprintln(os.Stderr, "--out required")
		os.Exit(2)
	}
	if err := runProp(p, *tier, *seed, *out, *corpus); err != nil {
		fmt.Fprintln(os.Stderr, err)
		os.Exit(2)
	}
}

// subcommands are auxiliary entry points (child processes for crash workloads etc.)
var subcommands = map[string]func(args []string) int{}
