package main

import (
	"bytes"
	"errors"
	"fmt"
	"math/rand"
	"os"
	"path/filepath"
	"sort"

	"github.com/thomasjungblut/go-sstables/sstables"
)

type c08Case struct {
	Tables [][]tblKV   `json:"tables"` // oldest first
	Probes [][]byte    `json:"probes"`
	Bounds [][2][]byte `json:"bounds"`
	Rev    bool        `json:"rev,omitempty"` // tables, stack and merger use the reversed bytewise key order
	// observations
	Gets      []getOut  `json:"gets"`
	All       scanOut   `json:"all"`
	Froms     []scanOut `json:"froms"`
	Ranges    []scanOut `json:"ranges"`
	Compact   scanOut   `json:"compact"`    // MergeCompact + ScanReduceLatestWins, table read back
	CompactST scanOut   `json:"compact_st"` // ... SkipTombstones
	CompErr   string    `json:"comp_err,omitempty"`
	CompSTErr string    `json:"comp_st_err,omitempty"`
	Disjoint  bool      `json:"disjoint"`
	Merge     scanOut   `json:"merge"` // plain Merge (only for disjoint inputs)
	MergeErr  string    `json:"merge_err,omitempty"`
	Fatal     string    `json:"fatal,omitempty"`
}

func defaultTblOpts() tblOpts {
	return tblOpts{IndexComp: 0, DataComp: 2, BloomN: 100, BloomP: 0.01, WBuf: 4096}
}

func (c *c08Case) Exec() {
	defer func() {
		if r := recover(); r != nil {
			c.Fatal = fmt.Sprint("panic: ", r)
		}
	}()
	c.Fatal, c.Gets, c.Froms, c.Ranges, c.CompErr, c.CompSTErr, c.MergeErr = "", nil, nil, nil, "", "", ""
	dir := tmpDir("c08-")
	defer os.RemoveAll(dir)
	var readers []sstables.SSTableReaderI
	topts := defaultTblOpts()
	topts.Rev = c.Rev
	kcmp := keyCmpFor(c.Rev)
	ropts := func(d string) []sstables.ReadOption {
		o := []sstables.ReadOption{sstables.ReadBasePath(d)}
		if c.Rev {
			o = append(o, sstables.ReadWithKeyComparator(kcmp), sstables.ReadIndexLoader(&sstables.SkipListIndexLoader{KeyComparator: kcmp, ReadBufferSize: 4096}))
		}
		return o
	}
	open := func() []sstables.SSTableReaderI {
		var rs []sstables.SSTableReaderI
		for i := range c.Tables {
			r, err := sstables.NewSSTableReader(ropts(filepath.Join(dir, c08Dir(i)))...)
			must(err)
			rs = append(rs, r)
		}
		return rs
	}
	for i, t := range c.Tables {
		d := filepath.Join(dir, c08Dir(i))
		must(os.MkdirAll(d, 0755))
		if c.Rev {
			t = append([]tblKV(nil), t...)
			for a, b := 0, len(t)-1; a < b; a, b = a+1, b-1 {
				t[a], t[b] = t[b], t[a]
			}
		}
		errs, err := writeTable(d, topts, t)
		must(err)
		for _, e := range errs {
			if e != "" {
				c.Fatal = "table write rejected"
				return
			}
		}
	}
	readers = open()
	super := sstables.NewSuperSSTableReader(readers, kcmp)
	limit := 3
	for _, t := range c.Tables {
		limit += len(t)
	}
	for _, p := range c.Probes {
		g := getOut{K: p}
		ok, err := super.Contains(p)
		g.Contains, g.CErr = ok, errName(err)
		v, err := super.Get(p)
		if err != nil {
			g.Err = classifyErr(err)
		} else {
			g.V, g.Nil = append([]byte{}, v...), v == nil
		}
		c.Gets = append(c.Gets, g)
		it, err := super.ScanStartingAt(p)
		c.Froms = append(c.Froms, drainTable(it, err, limit))
	}
	it, err := super.Scan()
	c.All = drainTable(it, err, limit)
	for _, b := range c.Bounds {
		it, err := super.ScanRange(b[0], b[1])
		c.Ranges = append(c.Ranges, drainTable(it, err, limit))
	}
	_ = super.Close()
	// compacting merges into real writers
	mergeInto := func(name string, f func(its []sstables.SSTableMergeIteratorContext, w *sstables.SSTableStreamWriter) error) (scanOut, string) {
		rs := open()
		defer func() {
			for _, r := range rs {
				r.Close()
			}
		}()
		var its []sstables.SSTableMergeIteratorContext
		for i, r := range rs {
			sc, err := r.Scan()
			must(err)
			its = append(its, sstables.NewMergeIteratorContext(i, sc))
		}
		d := filepath.Join(dir, name)
		must(os.MkdirAll(d, 0755))
		w, err := sstables.NewSSTableStreamWriter(topts.writerOptions(d)...)
		must(err)
		must(w.Open())
		merr := f(its, w)
		cerr := w.Close()
		if merr != nil {
			return scanOut{}, classifyErr(merr)
		}
		if cerr != nil {
			return scanOut{}, "Close:" + classifyErr(cerr)
		}
		r, err := sstables.NewSSTableReader(ropts(d)...)
		if err != nil {
			return scanOut{}, "Reopen:" + classifyErr(err)
		}
		defer r.Close()
		sc, err := r.Scan()
		return drainTable(sc, err, limit), ""
	}
	m := sstables.NewSSTableMerger(kcmp)
	c.Compact, c.CompErr = mergeInto("mc", func(its []sstables.SSTableMergeIteratorContext, w *sstables.SSTableStreamWriter) error {
		return m.MergeCompact(its, w, sstables.ScanReduceLatestWins)
	})
	c.CompactST, c.CompSTErr = mergeInto("mcst", func(its []sstables.SSTableMergeIteratorContext, w *sstables.SSTableStreamWriter) error {
		return m.MergeCompact(its, w, sstables.ScanReduceLatestWinsSkipTombstones)
	})
	if c.Disjoint {
		c.Merge, c.MergeErr = mergeInto("m", func(its []sstables.SSTableMergeIteratorContext, w *sstables.SSTableStreamWriter) error {
			return m.Merge(its, w)
		})
	}
}

// latest-wins union, ascending
func (c *c08Case) union() []tblKV {
	m := map[string]tblKV{}
	for _, t := range c.Tables {
		for _, kv := range t {
			m[string(kv.K)] = kv
		}
	}
	var out []tblKV
	for _, kv := range m {
		out = append(out, kv)
	}
	kcmp := keyCmpFor(c.Rev)
	sort.Slice(out, func(i, j int) bool { return kcmp.Compare(out[i].K, out[j].K) < 0 })
	return out
}

func filterKV(l []tblKV, f func(tblKV) bool) []tblKV {
	var out []tblKV
	for _, kv := range l {
		if f(kv) {
			out = append(out, kv)
		}
	}
	return out
}

func (c *c08Case) Oracle() (bool, string) {
	if c.Fatal != "" {
		return false, c.Fatal
	}
	u := c.union()
	kcmp := keyCmpFor(c.Rev)
	live := func(kv tblKV) bool { return !kv.Nil }
	nonEmpty := func(kv tblKV) bool { return len(kv.val()) > 0 }
	chk := func(name string, got scanOut, want []tblKV) (bool, string) {
		if got.Err != "" || !tblEq(got.KVs, want) {
			// is some value attributed to a different key?
			for _, g := range got.KVs {
				belongs := false
				for _, t := range c.Tables {
					for _, kv := range t {
						if bytes.Equal(kv.K, g.K) && kv.Nil == g.Nil && bytes.Equal(kv.val(), g.val()) {
							belongs = true
						}
					}
				}
				if !belongs {
					return false, fmt.Sprintf("%s: value %x attributed to key %x which no table holds for it", name, g.V, g.K)
				}
			}
			return false, fmt.Sprintf("%s differs from the latest-wins union (err=%q, %d entries, want %d)", name, got.Err, len(got.KVs), len(want))
		}
		return true, ""
	}
	if ok, m := chk("Scan", c.All, filterKV(u, live)); !ok {
		return false, m
	}
	for i, p := range c.Probes {
		g := c.Gets[i]
		var want *tblKV
		for j := range u {
			if bytes.Equal(u[j].K, p) {
				want = &u[j]
			}
		}
		if g.CErr != "" || g.Contains != (want != nil) {
			return false, fmt.Sprintf("Contains(%x) wrong", p)
		}
		if want == nil {
			if g.Err != "NotFound" {
				return false, fmt.Sprintf("Get(%x): key of no table found", p)
			}
		} else if g.Err != "" || g.Nil != want.Nil || !bytes.Equal(g.V, want.val()) {
			return false, fmt.Sprintf("Get(%x): not the newest value (err=%q)", p, g.Err)
		}
		if ok, m := chk(fmt.Sprintf("ScanStartingAt(%x)", p), c.Froms[i], filterKV(u, func(kv tblKV) bool { return live(kv) && kcmp.Compare(kv.K, p) >= 0 })); !ok {
			return false, m
		}
	}
	for i, b := range c.Bounds {
		if kcmp.Compare(b[0], b[1]) > 0 {
			if c.Ranges[i].Err == "" {
				return false, "ScanRange: lower > upper not rejected"
			}
			continue
		}
		if ok, m := chk(fmt.Sprintf("ScanRange(%x,%x)", b[0], b[1]), c.Ranges[i], filterKV(u, func(kv tblKV) bool {
			return live(kv) && kcmp.Compare(kv.K, b[0]) >= 0 && kcmp.Compare(kv.K, b[1]) <= 0
		})); !ok {
			return false, m
		}
	}
	if c.CompErr != "" || c.CompSTErr != "" {
		return false, "MergeCompact failed: " + c.CompErr + c.CompSTErr
	}
	if ok, m := chk("MergeCompact(latest wins)", c.Compact, filterKV(u, live)); !ok {
		return false, m
	}
	if ok, m := chk("MergeCompact(latest wins, skip tombstones)", c.CompactST, filterKV(u, nonEmpty)); !ok {
		return false, m
	}
	if c.Disjoint {
		if c.MergeErr != "" {
			return false, "Merge failed: " + c.MergeErr
		}
		if ok, m := chk("Merge", c.Merge, u); !ok {
			return false, m
		}
	}
	return true, ""
}

func (c *c08Case) Sx() string {
	if c.Fatal != "" || c.Rev { // the model's tables are in bytewise order: reversed-order cases are judged by the oracle

		return ""
	}
	var tables, gets, froms, ranges []string
	var vals [][]byte
	for _, t := range c.Tables {
		tables = append(tables, sxTblKVs(t))
		vals = append(vals, valuesOf(t)...)
	}
	for i, p := range c.Probes {
		g := c.Gets[i]
		gets = append(gets, sxL(sxB(p), sxRes(sxBool(g.Contains), g.CErr), sxRes(sxOBn(g.V, g.Nil), g.Err)))
		froms = append(froms, sxL(sxB(p), c.Froms[i].sx()))
	}
	for i, b := range c.Bounds {
		r := c.Ranges[i]
		if len(r.Err) > 5 && r.Err[:5] == "Open:" {
			ranges = append(ranges, sxL(sxB(b[0]), sxB(b[1]), "()"))
		} else {
			ranges = append(ranges, sxL(sxB(b[0]), sxB(b[1]), sxL(r.sx())))
		}
	}
	if c.CompErr != "" || c.CompSTErr != "" || c.MergeErr != "" {
		return ""
	}
	mrg := "()"
	if c.Disjoint {
		mrg = sxL(c.Merge.sx())
	}
	return sxL(compTable(2, vals), sxList(tables), sxList(gets), c.All.sx(), sxList(froms), sxList(ranges), c.Compact.sx(), c.CompactST.sx(), mrg)
}

func (c *c08Case) hasEmptyKey() bool {
	for _, t := range c.Tables {
		for _, kv := range t {
			if len(kv.K) == 0 {
				return true
			}
		}
	}
	return false
}

func (c *c08Case) Nontrivial() bool {
	n := 0
	for _, t := range c.Tables {
		if len(t) > 0 {
			n++
		}
	}
	return n >= 2
}
func (c *c08Case) Kind() string {
	k := fmt.Sprintf("tables=%s", bucket(len(c.Tables)))
	if c.hasEmptyKey() {
		k += "/emptykey"
	}
	if c.Disjoint {
		k += "/disjoint"
	}
	if c.Rev {
		k += "/revcmp"
	}
	return k
}

func genC08(r *rand.Rand, tier string) []Case {
	n, maxT, maxK := 300, 6, 12
	if tier == "thorough" {
		n, maxT, maxK = 6000, 12, 40
	}
	var cases []Case
	for i := 0; i < n; i++ {
		c := &c08Case{Disjoint: i%4 == 3, Rev: i%6 == 4}
		nt := 1 + r.Intn(maxT)
		universe := [][]byte{[]byte("a"), []byte("b"), []byte("c"), []byte("ab"), []byte("b\x00"), {0x91, 0x8d}, []byte("zz"), []byte("d"), []byte("e")}
		if i%3 == 0 {
			universe = append(universe, []byte{})
		}
		for j := 0; j < 12; j++ {
			universe = append(universe, []byte(fmt.Sprintf("k%02d", r.Intn(30))))
		}
		used := map[string]bool{}
		for t := 0; t < nt; t++ {
			seen := map[string]bool{}
			var kvs []tblKV
			nk := r.Intn(maxK)
			if r.Intn(6) == 0 {
				nk = 0
			}
			for x := 0; x < nk; x++ {
				k := universe[r.Intn(len(universe))]
				if seen[string(k)] || (c.Disjoint && used[string(k)]) {
					continue
				}
				seen[string(k)] = true
				used[string(k)] = true
				kv := tblKV{K: k}
				switch r.Intn(5) {
				case 0:
					kv.Nil = true
				case 1:
					kv.V = []byte{}
				default:
					kv.V = []byte(fmt.Sprintf("t%d-%s", t, k))
				}
				kvs = append(kvs, kv)
			}
			sort.Slice(kvs, func(a, b int) bool { return bytes.Compare(kvs[a].K, kvs[b].K) < 0 })
			c.Tables = append(c.Tables, kvs)
		}
		for _, k := range universe {
			if r.Intn(2) == 0 {
				c.Probes = append(c.Probes, k)
			}
		}
		c.Probes = append(c.Probes, []byte("nope"), []byte{0xff})
		if len(c.Probes) > 12 {
			c.Probes = c.Probes[:12]
		}
		for x := 0; x < 5; x++ {
			a, b := universe[r.Intn(len(universe))], universe[r.Intn(len(universe))]
			if x < 4 && bytes.Compare(a, b) > 0 {
				a, b = b, a
			}
			c.Bounds = append(c.Bounds, [2][]byte{a, b})
		}
		cases = append(cases, c)
	}
	return cases
}

func init() {
	register(&Prop{
		ID: "C08", Num: 8,
		Gen:  genC08,
		New:  func() Case { return &c08Case{} },
		Rule: "lists of 1..6 (thorough 12) real tables over a shared key universe (incl. the empty key in a third of the cases, keys that are prefixes of each other, marker bytes), values nil (tombstone) / empty / live, empty tables; stacked reader Get/Contains/Scan/ScanStartingAt/ScanRange, every sixth case with a non-bytewise (reversed) key comparator in writer, index, stack and merger; MergeCompact with both reductions into a real writer (read back), plain Merge for disjoint inputs. Non-trivial: >=2 non-empty tables.",
	})
	_ = errors.New
}

// c08Dir: the directory of table i (0 = oldest). The names sort in the reverse of the age order and have different
// lengths: the order of a stack is the order in which the readers are given, never an order of their paths
func c08Dir(i int) string { return fmt.Sprintf("t%d", 1000-97*i) }
