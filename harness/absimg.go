package main

// Abstraction of a SimpleDB directory image to the disk of coq/theories/Fs/Crash.v.

import (
	"errors"
	"fmt"
	"io"
	"os"
	"path/filepath"
	"sort"
	"strconv"
	"strings"

	"github.com/thomasjungblut/go-sstables/recordio"
	rProto "github.com/thomasjungblut/go-sstables/recordio/proto"
	dbproto "github.com/thomasjungblut/go-sstables/simpledb/proto"
	"github.com/thomasjungblut/go-sstables/sstables"
	"google.golang.org/protobuf/proto"
)

func fileNonEmpty(p string) bool {
	st, err := os.Stat(p)
	return err == nil && st.Size() > 0
}
func fileExists(p string) bool {
	_, err := os.Stat(p)
	return err == nil
}

// content of a complete table as ((key value?) ...): nil and empty values are tombstones
func absTableData(dir string) (s string, err error) {
	defer func() {
		if r := recover(); r != nil {
			err = fmt.Errorf("panic reading table: %v", r)
		}
	}()
	tr, e := sstables.NewSSTableReader(sstables.ReadBasePath(dir))
	if e != nil {
		return "", e
	}
	defer tr.Close()
	it, e := tr.Scan()
	if e != nil {
		return "", e
	}
	var xs []string
	for {
		k, v, e := it.Next()
		if e != nil {
			if errors.Is(e, sstables.Done) {
				break
			}
			return "", e
		}
		if len(v) == 0 {
			xs = append(xs, sxL(sxB(k), "()"))
		} else {
			xs = append(xs, sxL(sxB(k), sxOB(v)))
		}
	}
	return sxList(xs), nil
}

// 0 partial (no usable metadata), 1 complete, 2 half removed (metadata there, another file gone)
func absTableState(dir string) int {
	if !fileNonEmpty(filepath.Join(dir, sstables.MetaFileName)) {
		return 0
	}
	for _, f := range []string{sstables.IndexFileName, sstables.DataFileName, sstables.BloomFileName} {
		if !fileExists(filepath.Join(dir, f)) {
			return 2
		}
	}
	return 1
}

func absTable(dir string, gen uint64) string {
	st := absTableState(dir)
	data := "()"
	if st == 1 {
		d, err := absTableData(dir)
		if err != nil {
			return sxL(sxN(gen), "n9", "()") // not decodable: counts as a mismatch
		}
		data = d
	}
	return sxL(sxN(gen), sxI(st), data)
}

func genOfDir(name string) (uint64, bool) {
	if !strings.HasPrefix(name, "sstable_") || strings.HasPrefix(name, "sstable_compaction") {
		return 0, false
	}
	n, err := strconv.ParseUint(name[len("sstable_"):], 10, 64)
	return n, err == nil
}

// complete records of one WAL file (a torn tail or missing header ends the list)
func absWalRecords(path string) []string {
	var out []string
	rd, err := recordio.NewFileReaderWithPath(path)
	if err != nil {
		return out
	}
	if err := rd.Open(); err != nil {
		return out
	}
	defer rd.Close()
	for {
		rec, err := rd.ReadNext()
		if err != nil {
			if !errors.Is(err, io.EOF) && !errors.Is(err, io.ErrUnexpectedEOF) {
				out = append(out, "n9") // an error recovery does not tolerate: undecodable
			}
			return out
		}
		m := &dbproto.WalMutation{}
		if proto.Unmarshal(rec, m) != nil {
			out = append(out, "n9")
			return out
		}
		switch u := m.Mutation.(type) {
		case *dbproto.WalMutation_Addition:
			k, v := u.Addition.KeyBytes, u.Addition.ValueBytes
			if len(k) == 0 {
				k, v = []byte(u.Addition.Key), []byte(u.Addition.Value)
			}
			out = append(out, sxL("n0", sxB(k), sxB(v)))
		case *dbproto.WalMutation_DeleteTombStone:
			k := u.DeleteTombStone.KeyBytes
			if len(k) == 0 {
				k = []byte(u.DeleteTombStone.Key)
			}
			out = append(out, sxL("n1", sxB(k)))
		}
	}
}

func absComp(dir string) string {
	flag := "n0"
	fp := filepath.Join(dir, "compaction_successful")
	if fileExists(fp) {
		flag = "n1"
		func() {
			defer func() { recover() }()
			rd, err := rProto.NewReader(rProto.ReaderPath(fp))
			if err != nil {
				return
			}
			if rd.Open() != nil {
				rd.Close()
				return
			}
			defer rd.Close()
			md := &dbproto.CompactionMetadata{}
			if _, err := rd.ReadNext(md); err != nil {
				return
			}
			var gens []string
			for _, p := range md.SstablePaths {
				g, ok := genOfDir(filepath.Base(p))
				if !ok {
					return
				}
				gens = append(gens, sxN(g))
			}
			flag = sxL(sxList(gens))
		}()
	}
	merged, complete := "()", false
	if absTableState(dir) == 1 {
		if d, err := absTableData(dir); err == nil {
			merged, complete = d, true
		}
	}
	return sxL(flag, merged, sxBool(complete))
}

// the abstract disk of an image directory
func absImage(img string) string {
	ents, _ := os.ReadDir(img)
	type tb struct {
		gen uint64
		dir string
	}
	var tabs []tb
	var comps []string
	for _, e := range ents {
		if !e.IsDir() {
			continue
		}
		if strings.HasPrefix(e.Name(), "sstable_compaction") {
			comps = append(comps, filepath.Join(img, e.Name()))
		} else if g, ok := genOfDir(e.Name()); ok {
			tabs = append(tabs, tb{g, filepath.Join(img, e.Name())})
		}
	}
	sort.Slice(tabs, func(i, j int) bool { return tabs[i].gen < tabs[j].gen })
	var ts []string
	for _, t := range tabs {
		ts = append(ts, absTable(t.dir, t.gen))
	}
	wfiles, _ := filepath.Glob(filepath.Join(img, "wal", "*.wal"))
	sort.Strings(wfiles)
	var ws []string
	for _, w := range wfiles {
		n, err := strconv.ParseUint(strings.TrimSuffix(filepath.Base(w), ".wal"), 10, 64)
		if err != nil {
			continue
		}
		recs := absWalRecords(w)
		if len(recs) > 0 {
			ws = append(ws, sxL(sxN(n), sxList(recs)))
		}
	}
	comp := "()"
	if len(comps) == 1 {
		comp = sxL(absComp(comps[0]))
	} else if len(comps) > 1 {
		comp = "n9"
	}
	return sxL(sxList(ts), sxList(ws), comp)
}
