package main

import (
	"bytes"
	"encoding/json"
	"fmt"
	"io"
	"math/rand"

	"github.com/thomasjungblut/go-sstables/recordio"
)

// ---- C13, the in-process log buffer: programs of Write / Flush / Seek / Close on the buffered writer that sits in
// front of every log and table file (recordio.NewWriterBuf) over a file that records what it is handed, call by call

type bufOp struct {
	Op  string `json:"op"` // write | flush | seek | close
	P   []byte `json:"p,omitempty"`
	Off int64  `json:"off,omitempty"`
}

type bufEv struct {
	Kind  string `json:"kind"` // write | seek | close
	Chunk []byte `json:"chunk,omitempty"`
	Off   int64  `json:"off,omitempty"`
}

type c13Buf struct {
	Cap int     `json:"cap"`
	Ops []bufOp `json:"ops"`
	// observations: what each call handed to the file
	Emits [][]bufEv `json:"emits"`
	Errs  []string  `json:"errs,omitempty"`
	Fatal string    `json:"fatal,omitempty"`
}

type recordingFile struct{ evs []bufEv }

func (f *recordingFile) Write(p []byte) (int, error) {
	f.evs = append(f.evs, bufEv{Kind: "write", Chunk: append([]byte{}, p...)})
	return len(p), nil
}
func (f *recordingFile) Seek(off int64, whence int) (int64, error) {
	f.evs = append(f.evs, bufEv{Kind: "seek", Off: off})
	return off, nil
}
func (f *recordingFile) Close() error {
	f.evs = append(f.evs, bufEv{Kind: "close"})
	return nil
}

func (c *c13Buf) Exec() {
	defer func() {
		if r := recover(); r != nil {
			c.Fatal = fmt.Sprint("panic: ", r)
		}
	}()
	c.Fatal, c.Emits, c.Errs = "", nil, nil
	f := &recordingFile{}
	w := recordio.NewWriterBuf(f, make([]byte, c.Cap))
	for _, o := range c.Ops {
		f.evs = nil
		var err error
		switch o.Op {
		case "write":
			// the caller reuses its slice afterwards: the writer must not keep it
			p := append([]byte{}, o.P...)
			var n int
			n, err = w.Write(p)
			if err == nil && n != len(p) {
				err = io.ErrShortWrite
			}
			for i := range p {
				p[i] = 0xee
			}
		case "flush":
			err = w.Flush()
		case "seek":
			_, err = w.Seek(o.Off, io.SeekStart)
		case "close":
			err = w.Close()
		}
		if err != nil {
			c.Errs = append(c.Errs, err.Error())
		}
		c.Emits = append(c.Emits, append([]bufEv{}, f.evs...))
	}
}

func (c *c13Buf) Oracle() (bool, string) {
	if c.Fatal != "" {
		return false, c.Fatal
	}
	if len(c.Errs) > 0 {
		return false, "a call on the buffered writer failed although the file accepts everything: " + c.Errs[0]
	}
	// model-independent: between seeks, the bytes that reached the file are at every moment a prefix of the bytes handed
	// over, nothing is handed to the file twice or out of order, no chunk (except a direct write of one whole payload)
	// exceeds the buffer, and after flush / seek / close nothing is held back
	var handed, file []byte
	for i, o := range c.Ops {
		if o.Op == "write" {
			handed = append(handed, o.P...)
		}
		for _, e := range c.Emits[i] {
			switch e.Kind {
			case "write":
				file = append(file, e.Chunk...)
				if len(file) > len(handed) || !bytes.Equal(file, handed[:len(file)]) {
					return false, fmt.Sprintf("call %d (%s): after a write of %d bytes the file is not a prefix of what was handed over (%d of %d bytes)", i, o.Op, len(e.Chunk), len(file), len(handed))
				}
				if len(e.Chunk) > c.Cap && !(o.Op == "write" && bytes.HasSuffix(o.P, e.Chunk)) {
					return false, fmt.Sprintf("call %d (%s): a chunk of %d bytes left a buffer of %d bytes", i, o.Op, len(e.Chunk), c.Cap)
				}
			case "seek", "close":
				if !bytes.Equal(file, handed) {
					return false, fmt.Sprintf("call %d (%s): the file was moved / closed while %d handed-over bytes had not reached it", i, o.Op, len(handed)-len(file))
				}
			}
		}
		if o.Op != "write" && !bytes.Equal(file, handed) {
			return false, fmt.Sprintf("call %d (%s): %d bytes are still held back", i, o.Op, len(handed)-len(file))
		}
		if len(handed)-len(file) > c.Cap {
			return false, fmt.Sprintf("call %d (%s): %d bytes held back by a buffer of %d", i, o.Op, len(handed)-len(file), c.Cap)
		}
	}
	return true, ""
}

func (c *c13Buf) Sx() string {
	if c.Fatal != "" || len(c.Errs) > 0 {
		return ""
	}
	var ops, emits []string
	for i, o := range c.Ops {
		switch o.Op {
		case "write":
			ops = append(ops, sxL("n0", sxB(o.P)))
		case "flush":
			ops = append(ops, sxL("n1"))
		case "seek":
			ops = append(ops, sxL("n2", sxN(uint64(o.Off))))
		default:
			ops = append(ops, sxL("n3"))
		}
		var evs []string
		for _, e := range c.Emits[i] {
			switch e.Kind {
			case "write":
				evs = append(evs, sxL("n0", sxB(e.Chunk)))
			case "seek":
				evs = append(evs, sxL("n1", sxN(uint64(e.Off))))
			default:
				evs = append(evs, sxL("n2"))
			}
		}
		emits = append(emits, sxList(evs))
	}
	return sxL("n77", sxI(c.Cap), sxList(ops), sxList(emits))
}

func (c *c13Buf) Nontrivial() bool {
	direct := false
	for _, es := range c.Emits {
		if len(es) >= 2 {
			direct = true
		}
	}
	return len(c.Ops) >= 4 && direct
}
func (c *c13Buf) Kind() string { return fmt.Sprintf("buffer/cap=%s", bucket(c.Cap)) }

func genC13Buf(r *rand.Rand, tier string) []Case {
	n := 300
	if tier == "thorough" {
		n = 20000
	}
	var out []Case
	for i := 0; i < n; i++ {
		c := &c13Buf{Cap: []int{0, 1, 2, 3, 4, 7, 8, 16, 64, 4096}[r.Intn(10)]}
		for j := 0; j < 1+r.Intn(14); j++ {
			switch x := r.Intn(12); {
			case x == 0:
				c.Ops = append(c.Ops, bufOp{Op: "flush"})
			case x == 1 && i%3 == 0:
				c.Ops = append(c.Ops, bufOp{Op: "seek", Off: int64(r.Intn(100))})
			default:
				// lengths around the buffer size and around what is left of it
				var l int
				switch r.Intn(5) {
				case 0:
					l = r.Intn(3)
				case 1:
					l = c.Cap + r.Intn(3) - 1
				case 2:
					l = 2*c.Cap + r.Intn(3) - 1
				default:
					l = r.Intn(2*c.Cap + 4)
				}
				if l < 0 {
					l = 0
				}
				if l > 10000 {
					l = 10000
				}
				p := make([]byte, l)
				for x := range p {
					p[x] = byte(j*16 + x%16)
				}
				c.Ops = append(c.Ops, bufOp{Op: "write", P: p})
			}
		}
		if r.Intn(2) == 0 {
			c.Ops = append(c.Ops, bufOp{Op: "close"})
		}
		out = append(out, c)
	}
	return out
}

// C13's cases: crash sessions with the asynchronous log, and programs on the log's write buffer
type c13Any struct {
	Crash *c02Case `json:"crash,omitempty"`
	Buf   *c13Buf  `json:"buf,omitempty"`
}

func (c *c13Any) inner() Case {
	if c.Buf != nil {
		return c.Buf
	}
	return c.Crash
}
func (c *c13Any) Exec()                  { c.inner().Exec() }
func (c *c13Any) Oracle() (bool, string) { return c.inner().Oracle() }
func (c *c13Any) Sx() string             { return c.inner().Sx() }
func (c *c13Any) Nontrivial() bool       { return c.inner().Nontrivial() }
func (c *c13Any) Kind() string           { return c.inner().Kind() }
func (c *c13Any) Evals() int {
	if c.Buf != nil {
		return 1
	}
	return c.Crash.Evals()
}

// a replay file written before the wrapper existed holds a bare crash session
func (c *c13Any) UnmarshalJSON(data []byte) error {
	var probe map[string]json.RawMessage
	if err := json.Unmarshal(data, &probe); err != nil {
		return err
	}
	_, hasCrash := probe["crash"]
	_, hasBuf := probe["buf"]
	if hasCrash || hasBuf {
		type plain c13Any
		return json.Unmarshal(data, (*plain)(c))
	}
	c.Crash = &c02Case{}
	return json.Unmarshal(data, c.Crash)
}
