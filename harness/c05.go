package main

import (
	"fmt"
	"math/rand"
	"os"
	"strings"
	"sync"
	"time"

	pp "github.com/anishathalye/porcupine"
	"github.com/thomasjungblut/go-sstables/simpledb"
)

// C05: concurrent clients against one DB while a driver forces rotations and compaction cycles;
// the recorded history must be linearizable as a single-copy map (checked with porcupine).

type lOp struct {
	Client int    `json:"c"`
	Kind   int    `json:"k"` // 0 get 1 put 2 del
	Key    string `json:"key"`
	Val    string `json:"val,omitempty"` // input value (put) or returned value (get)
	Found  bool   `json:"found,omitempty"`
	Err    string `json:"err,omitempty"`
	Call   int64  `json:"call"`
	Ret    int64  `json:"ret"`
}

type c05Case struct {
	Seed       int64  `json:"seed"`
	Clients    int    `json:"clients"`
	OpsPer     int    `json:"ops_per"`
	Keys       int    `json:"keys"`
	Memstore   uint64 `json:"memstore"`
	Background bool   `json:"background"` // background compaction thread with a 1ms ticker
	Procs      int    `json:"procs"`
	ReadHeavy  bool   `json:"read_heavy,omitempty"` // client 0 writes, all others only read the same hot keys
	BigVals    int    `json:"big_vals,omitempty"`   // values are an 8-byte token repeated this many times (the history records the token)
	FewVals    bool   `json:"few_vals,omitempty"`   // every Put writes one of three values: the same bytes are put again and again
	Partial    bool   `json:"partial,omitempty"`    // a big oldest table that the size limit keeps out of every compaction run (tombstones must be kept)
	// observations
	History   []lOp  `json:"history,omitempty"`
	NOps      int    `json:"n_ops"`
	Rotations int    `json:"rotations"`
	Cycles    int    `json:"cycles"`
	Result    string `json:"result"` // ok | illegal | unknown | error
	Detail    string `json:"detail,omitempty"`
	Fatal     string `json:"fatal,omitempty"`
}

type linIn struct {
	Kind int
	Key  string
	Val  string
}
type linOut struct {
	Val   string
	Found bool
}

// per-key partitions: the state is the value of one key ("" + present flag)
type linState struct {
	present bool
	val     string
}

func (s linState) Clone() linState        { return s }
func (s linState) Equals(o linState) bool { return s == o }
func (s linState) String() string         { return fmt.Sprintf("%v:%s", s.present, s.val) }

var linModel = pp.Model[linState, linIn, linOut]{
	Init: func() linState { return linState{} },
	Partition: func(h []pp.Operation[linIn, linOut]) [][]pp.Operation[linIn, linOut] {
		idx := map[string]int{}
		var parts [][]pp.Operation[linIn, linOut]
		for _, op := range h {
			i, ok := idx[op.Input.Key]
			if !ok {
				i = len(parts)
				idx[op.Input.Key] = i
				parts = append(parts, nil)
			}
			parts[i] = append(parts[i], op)
		}
		return parts
	},
	Step: func(s linState, in linIn, out linOut) (bool, linState) {
		switch in.Kind {
		case 0:
			return s.present == out.Found && (!s.present || s.val == out.Val), s
		case 1:
			return true, linState{true, in.Val}
		default:
			return true, linState{}
		}
	},
}

func (c *c05Case) Exec() {
	defer func() {
		if r := recover(); r != nil {
			c.Fatal = fmt.Sprint("panic: ", r)
		}
	}()
	c.Fatal, c.History, c.Result, c.Detail = "", nil, "", ""
	dir := tmpDir("c05-")
	defer os.RemoveAll(dir)
	opts := []simpledb.ExtraOption{simpledb.MemstoreSizeBytes(c.Memstore), simpledb.CompactionFileThreshold(2), simpledb.EnableAsyncWAL()}
	if c.Background {
		opts = append(opts, simpledb.CompactionRunInterval(time.Millisecond))
	} else {
		opts = append(opts, simpledb.DisableCompactions())
	}
	if c.Partial {
		opts = append(opts, simpledb.CompactionMaxSizeBytes(4000), simpledb.CompactionRatio(1))
	}
	db, err := simpledb.NewSimpleDB(dir, opts...)
	must(err)
	must(db.Open())
	if c.Partial {
		// every key gets an initial value in one big, incompressible table (not part of the history: the model starts
		// from "all keys hold init")
		junk := make([]byte, 6000)
		rand.New(rand.NewSource(c.Seed)).Read(junk)
		must(db.PutBytes([]byte("zz-junk"), junk))
		for k := 0; k < c.Keys; k++ {
			must(db.Put(fmt.Sprintf("k%d", k), "init"))
		}
		must(db.VerifForceRotation())
		db.VerifWaitFlusherIdle()
	}
	t0 := time.Now()
	var mu sync.Mutex
	var hist []lOp
	if c.Partial {
		// the initial puts are the first operations of the history, each finished before the next began
		for k := 0; k < c.Keys; k++ {
			hist = append(hist, lOp{Client: 99, Kind: 1, Key: fmt.Sprintf("k%d", k), Val: "init", Call: int64(2*k + 1), Ret: int64(2*k + 2)})
		}
		t0 = t0.Add(-time.Duration(2*c.Keys + 10))
	}
	var wg sync.WaitGroup
	stop := make(chan struct{})
	// driver: rotations and synchronous compaction cycles at random moments
	var dwg sync.WaitGroup
	dwg.Add(1)
	go func() {
		defer dwg.Done()
		r := rand.New(rand.NewSource(c.Seed * 7919))
		for {
			select {
			case <-stop:
				return
			default:
			}
			time.Sleep(time.Duration(r.Intn(300)) * time.Microsecond)
			if c.BigVals > 0 && r.Intn(20) != 0 {
				continue // mostly leave the big values in the write memstore
			}
			if r.Intn(2) == 0 {
				if db.VerifForceRotation() == nil {
					c.Rotations++
				}
			} else if !c.Background {
				if _, _, _, err := db.VerifRunCompaction(); err == nil {
					c.Cycles++
				}
			}
		}
	}()
	writerDone := make(chan struct{})
	for cl := 0; cl < c.Clients; cl++ {
		wg.Add(1)
		go func(cl int) {
			defer wg.Done()
			if cl == 0 {
				defer close(writerDone)
			}
			r := rand.New(rand.NewSource(c.Seed*1000 + int64(cl)))
			n := c.OpsPer
			writers := 1
			if c.BigVals > 0 {
				writers = 3 // several writers queue on the write lock back to back, while readers still copy a value out
			}
			if c.ReadHeavy && cl >= writers {
				n = 8 * c.OpsPer
			}
			for i := 0; i < n; i++ {
				op := lOp{Client: cl, Key: fmt.Sprintf("k%d", r.Intn(c.Keys))}
				x := r.Intn(10)
				if c.ReadHeavy {
					if cl >= writers {
						x = 0 // readers
						select {
						case <-writerDone:
							return
						default:
						}
					} else if x < 5 {
						x = 5 + x%5 // a writer
					}
					if c.BigVals > 0 && cl < writers {
						x = 5 // puts only: equal-length overwrites
					}
				}
				switch {
				case x < 5:
					op.Kind = 0
					op.Call = int64(time.Since(t0))
					v, err := db.Get(op.Key)
					op.Ret = int64(time.Since(t0))
					if err == nil {
						op.Val, op.Found = v, true
						if c.BigVals > 0 {
							// a value is one token repeated: anything else was never written by anybody
							if len(v) != 8*c.BigVals || strings.Count(v, v[:8]) != c.BigVals {
								op.Val = "TORN:" + v[:8] + ".." + v[len(v)-8:]
							} else {
								op.Val = v[:8]
							}
						}
					} else if dbErrName(err) != "NotFound" {
						op.Err = err.Error()
					}
				case x < 8:
					op.Kind = 1
					op.Val = fmt.Sprintf("c%d-%d", cl, i)
					if c.FewVals {
						op.Val = []string{"A", "B", "C"}[r.Intn(3)]
					}
					payload := op.Val
					if c.BigVals > 0 {
						op.Val = fmt.Sprintf("c%d-%05d", cl, i%100000)[:8]
						payload = strings.Repeat(op.Val, c.BigVals)
					}
					op.Call = int64(time.Since(t0))
					err := db.Put(op.Key, payload)
					op.Ret = int64(time.Since(t0))
					if err != nil {
						op.Err = err.Error()
					}
				default:
					op.Kind = 2
					op.Call = int64(time.Since(t0))
					err := db.Delete(op.Key)
					op.Ret = int64(time.Since(t0))
					if err != nil {
						op.Err = err.Error()
					}
				}
				mu.Lock()
				hist = append(hist, op)
				mu.Unlock()
			}
		}(cl)
	}
	wg.Wait()
	close(stop)
	dwg.Wait()
	if err := db.Close(); err != nil {
		c.Detail = "close: " + err.Error()
	}
	c.NOps = len(hist)
	var ops []pp.Operation[linIn, linOut]
	for _, h := range hist {
		if h.Err != "" {
			c.Result, c.Detail = "error", fmt.Sprintf("client %d: operation %d on %s failed: %s", h.Client, h.Kind, h.Key, h.Err)
			c.History = hist
			return
		}
		ops = append(ops, pp.Operation[linIn, linOut]{ClientId: h.Client, Input: linIn{h.Kind, h.Key, h.Val}, Call: h.Call, Output: linOut{h.Val, h.Found}, Return: h.Ret})
	}
	res := pp.CheckOperationsTimeout(linModel, ops, 60*time.Second)
	switch res {
	case pp.Ok:
		c.Result = "ok"
	case pp.Illegal:
		c.Result = "illegal"
		c.History = hist
	default:
		c.Result = "unknown"
	}
}

func (c *c05Case) Oracle() (bool, string) {
	if c.Fatal != "" {
		return false, c.Fatal
	}
	switch c.Result {
	case "ok", "unknown":
		return true, ""
	case "error":
		return false, "an operation on an existing handle failed: " + c.Detail
	}
	return false, fmt.Sprintf("history of %d operations (%d clients, %d rotations, %d cycles) is not linearizable", c.NOps, c.Clients, c.Rotations, c.Cycles)
}
func (c *c05Case) Sx() string       { return "" }
func (c *c05Case) Evals() int       { return c.NOps }
func (c *c05Case) Nontrivial() bool { return c.Rotations >= 2 && c.NOps >= 100 }
func (c *c05Case) Kind() string {
	return fmt.Sprintf("clients=%d/bg=%v/readheavy=%v", c.Clients, c.Background, c.ReadHeavy)
}

func genC05(r *rand.Rand, tier string) []Case {
	n := 30
	if tier == "thorough" {
		n = 400
	}
	var cases []Case
	for i := 0; i < n; i++ {
		c := &c05Case{Seed: r.Int63n(1 << 40), Clients: 4 + r.Intn(5), OpsPer: 250 + r.Intn(250), Keys: 3 + r.Intn(6),
			Memstore: []uint64{1, 50, 300, 1 << 30}[r.Intn(4)], Background: i%3 == 0}
		if i%4 == 1 {
			// one writer whose every Put rotates the memstore, readers spinning on the keys it has just written:
			// a Get overlaps the completion of a flush all the time
			c.ReadHeavy, c.Memstore, c.Keys, c.OpsPer = true, 1, 2+r.Intn(3), 150+r.Intn(100)
		}
		if i%5 == 3 {
			// big values that stay in the write memstore: an overwrite must not be visible in a value that a Get
			// is still copying out
			c.ReadHeavy, c.Memstore, c.Keys, c.OpsPer, c.BigVals, c.Background, c.Clients = true, 1<<30, 2, 100+r.Intn(50), 1<<15, false, 6+r.Intn(2)
		}
		if i%6 == 5 && !c.ReadHeavy && c.BigVals == 0 {
			// a big oldest table stays out of every compaction run: deletes live on as kept tombstones in merged tables
			c.Partial, c.Memstore, c.Background = true, []uint64{50, 300}[r.Intn(2)], i%12 == 5
		}
		if i%6 == 2 && !c.ReadHeavy {
			// the same few values are put again and again while rotations go on (a re-put of bytes that an older
			// generation still holds is a write like any other); few keys so that they collide
			c.FewVals, c.Keys, c.Memstore = true, 2+r.Intn(2), []uint64{50, 300}[r.Intn(2)]
		}
		cases = append(cases, c)
	}
	return cases
}

func init() {
	register(&Prop{
		ID: "C05", Num: 5,
		Gen:  genC05,
		New:  func() Case { return &c05Case{} },
		Rule: "30 (thorough 400) concurrent runs: 4-8 client goroutines x 250-500 Get/Put/Delete calls over 3-8 keys, memstore limits {1,50,300,1Gi} (self-rotating), a driver goroutine forcing rotations and synchronous compaction cycles through the verif hooks at random moments, every third run with the background compactor on a 1 ms ticker; the recorded invocation/response history is checked for linearizability against the map model with porcupine (the repository's pinned fork). Non-trivial: >=2 rotations and >=100 operations.",
	})
}
