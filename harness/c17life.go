package main

import (
	"bytes"
	"errors"
	"fmt"
	"math/rand"
	"os"
	"path/filepath"

	"github.com/thomasjungblut/go-sstables/simpledb"
)

// ---- C17, life cycle: Open / Close / Put / Delete / Get in any order on ONE handle over a fresh directory. Calls outside
// the window between the successful Open and the successful Close are refused and change nothing.

type lifeCall struct {
	Op   string `json:"op"` // open | close | put | putb | del | delb | get | getb
	K    []byte `json:"k,omitempty"`
	V    []byte `json:"v,omitempty"`
	KNil bool   `json:"knil,omitempty"`
	VNil bool   `json:"vnil,omitempty"`
	// observations
	Err   string `json:"err,omitempty"` // "" | NotOpenedYet | AlreadyClosed | AlreadyOpen | Rejected | NotFound | Other:...
	Val   []byte `json:"val,omitempty"`
	Found bool   `json:"found,omitempty"`
}

type c17Life struct {
	Calls []lifeCall `json:"calls"`
	// right after the successful Open a compaction folder (as a running compaction would have) is planted in the
	// directory; refused calls must leave it alone
	PlantGone string `json:"plant_gone,omitempty"` // the call after which the planted folder had disappeared
	Fatal     string `json:"fatal,omitempty"`
}

func lifeErr(err error) string {
	switch {
	case err == nil:
		return ""
	case errors.Is(err, simpledb.ErrNotOpenedYet):
		return "NotOpenedYet"
	case errors.Is(err, simpledb.ErrAlreadyClosed):
		return "AlreadyClosed"
	case errors.Is(err, simpledb.ErrAlreadyOpen):
		return "AlreadyOpen"
	}
	return dbErrName(err)
}

func (l *lifeCall) key() []byte {
	if l.KNil {
		return nil
	}
	if l.K == nil {
		return []byte{}
	}
	return l.K
}
func (l *lifeCall) val() []byte {
	if l.VNil {
		return nil
	}
	if l.V == nil {
		return []byte{}
	}
	return l.V
}

func (c *c17Life) Exec() {
	defer func() {
		if r := recover(); r != nil {
			c.Fatal = fmt.Sprint("panic: ", r)
		}
	}()
	c.Fatal, c.PlantGone = "", ""
	planted := ""
	dir := tmpDir("c17l-")
	defer os.RemoveAll(dir)
	db, err := simpledb.NewSimpleDB(dir, simpledb.DisableCompactions())
	must(err)
	for i := range c.Calls {
		l := &c.Calls[i]
		l.Err, l.Val, l.Found = "", nil, false
		switch l.Op {
		case "open":
			l.Err = lifeErr(db.Open())
			if l.Err == "" {
				planted = filepath.Join(dir, "sstable_compaction4711")
				must(os.MkdirAll(planted, 0700))
				must(os.WriteFile(filepath.Join(planted, "data.rio"), []byte{4, 0, 0, 0, 0, 0, 0, 0}, 0600))
			}
		case "close":
			l.Err = lifeErr(db.Close())
		case "put":
			l.Err = lifeErr(db.Put(string(l.key()), string(l.val())))
		case "putb":
			l.Err = lifeErr(db.PutBytes(l.key(), l.val()))
		case "del":
			l.Err = lifeErr(db.Delete(string(l.key())))
		case "delb":
			l.Err = lifeErr(db.DeleteBytes(l.key()))
		case "get":
			v, err := db.Get(string(l.key()))
			l.Err = lifeErr(err)
			if err == nil {
				l.Val, l.Found = []byte(v), true
			}
		case "getb":
			v, err := db.GetBytes(l.key())
			l.Err = lifeErr(err)
			if err == nil {
				l.Val, l.Found = append([]byte{}, v...), true
			}
		}
		if planted != "" && c.PlantGone == "" && (l.Err == "NotOpenedYet" || l.Err == "AlreadyClosed" || l.Err == "AlreadyOpen") {
			if _, err := os.Stat(filepath.Join(planted, "data.rio")); err != nil {
				c.PlantGone = fmt.Sprintf("call %d (%s, refused with %s)", i, l.Op, l.Err)
			}
		}
	}
	// a handle that was opened and never closed by the program is closed here (outside the observations)
	_ = db.Close()
}

// reference: the flags and a map
func (c *c17Life) Oracle() (bool, string) {
	if c.Fatal != "" {
		return false, c.Fatal
	}
	if c.PlantGone != "" {
		return false, "a refused call changed the directory: the folder of a running compaction was gone after " + c.PlantGone
	}
	open, closed := false, false
	ref := map[string][]byte{}
	for i, l := range c.Calls {
		refusal := ""
		if !open {
			refusal = "NotOpenedYet"
		} else if closed {
			refusal = "AlreadyClosed"
		}
		want := refusal
		switch l.Op {
		case "open":
			want = ""
			if open {
				want = "AlreadyOpen"
			} else {
				open = true
			}
		case "close":
			if refusal == "" {
				closed = true
			}
		case "put", "putb":
			// the arguments are looked at before the flags
			if len(l.key()) == 0 || len(l.val()) == 0 {
				want = "Rejected"
			} else if refusal == "" {
				ref[string(l.key())] = l.val()
			}
		case "del", "delb":
			if refusal == "" {
				delete(ref, string(l.key()))
			}
		case "get", "getb":
			if refusal == "" {
				v, ok := ref[string(l.key())]
				if !ok {
					want = "NotFound"
				} else if !l.Found || !bytes.Equal(l.Val, v) {
					return false, fmt.Sprintf("call %d %s(%q) = %q found=%v, reference says %q", i, l.Op, l.K, l.Val, l.Found, v)
				}
			}
		}
		if l.Err != want {
			return false, fmt.Sprintf("call %d (%s) answered %q, the life cycle of the handle says %q (open=%v closed=%v before the call)", i, l.Op, l.Err, want, open, closed)
		}
	}
	return true, ""
}

func (c *c17Life) Sx() string {
	if c.Fatal != "" {
		return ""
	}
	var calls, outs []string
	for _, l := range c.Calls {
		switch l.Op {
		case "open":
			calls = append(calls, sxL("n0"))
		case "close":
			calls = append(calls, sxL("n1"))
		case "put", "putb":
			calls = append(calls, sxL("n2", sxOBn(l.key(), l.KNil), sxOBn(l.val(), l.VNil)))
		case "del", "delb":
			calls = append(calls, sxL("n3", sxOBn(l.key(), l.KNil)))
		default:
			calls = append(calls, sxL("n4", sxB(l.key())))
		}
		switch {
		case l.Err == "NotOpenedYet":
			outs = append(outs, sxL("n0", "n0"))
		case l.Err == "AlreadyClosed":
			outs = append(outs, sxL("n0", "n1"))
		case l.Err == "AlreadyOpen":
			outs = append(outs, sxL("n0", "n2"))
		case l.Op == "put" || l.Op == "putb":
			if l.Err != "" && l.Err != "Rejected" {
				return ""
			}
			outs = append(outs, sxL("n1", "n0", sxBool(l.Err == "")))
		case l.Op == "get" || l.Op == "getb":
			if l.Err != "" && l.Err != "NotFound" {
				return ""
			}
			outs = append(outs, sxL("n1", "n2", sxOBn(l.Val, !l.Found)))
		default:
			if l.Err != "" {
				return ""
			}
			outs = append(outs, sxL("n1", "n1"))
		}
	}
	return sxL("n78", sxList(calls), sxList(outs))
}

func (c *c17Life) Nontrivial() bool {
	opens, refused := 0, 0
	for _, l := range c.Calls {
		if l.Op == "open" && l.Err == "" {
			opens++
		}
		if l.Err == "NotOpenedYet" || l.Err == "AlreadyClosed" || l.Err == "AlreadyOpen" {
			refused++
		}
	}
	return opens == 1 && refused >= 2
}
func (c *c17Life) Kind() string { return "lifecycle/" + bucket(len(c.Calls)) }

func genC17Life(r *rand.Rand, tier string) []Case {
	n := 60
	if tier == "thorough" {
		n = 2000
	}
	keys := [][]byte{[]byte("a"), []byte("b"), []byte("c")}
	var out []Case
	for i := 0; i < n; i++ {
		c := &c17Life{}
		data := func() lifeCall {
			k := keys[r.Intn(3)]
			switch r.Intn(7) {
			case 0, 1:
				return lifeCall{Op: []string{"put", "putb"}[r.Intn(2)], K: k, V: []byte(fmt.Sprintf("v%d", r.Intn(50)))}
			case 2:
				return lifeCall{Op: "putb", K: k, V: []byte{}, VNil: r.Intn(2) == 0} // rejected inside the window
			case 3:
				return lifeCall{Op: []string{"del", "delb"}[r.Intn(2)], K: k}
			default:
				return lifeCall{Op: []string{"get", "getb"}[r.Intn(2)], K: k}
			}
		}
		other := func() lifeCall {
			switch r.Intn(4) {
			case 0:
				return lifeCall{Op: "close"}
			case 1:
				return lifeCall{Op: "open"}
			}
			return data()
		}
		for j := 0; j < r.Intn(4); j++ { // before Open: anything but Open
			l := other()
			if l.Op == "open" {
				l.Op = "close"
			}
			c.Calls = append(c.Calls, l)
		}
		c.Calls = append(c.Calls, lifeCall{Op: "open"})
		for j := 0; j < r.Intn(10); j++ { // the window: data calls and further Opens
			l := other()
			if l.Op == "close" {
				l = data()
			}
			c.Calls = append(c.Calls, l)
		}
		if r.Intn(5) != 0 {
			c.Calls = append(c.Calls, lifeCall{Op: "close"})
			for j := 0; j < r.Intn(5); j++ {
				c.Calls = append(c.Calls, other())
			}
		}
		out = append(out, c)
	}
	return out
}
