package main

import (
	"bytes"
	"fmt"
	"math/rand"
	"os"
	"path/filepath"
)

type c17Case struct {
	Opts  dbOpts   `json:"opts"`
	Steps []dbStep `json:"steps"`
	Keys  [][]byte `json:"keys"`
	// observations
	Sweeps [][]dbStep `json:"sweeps,omitempty"` // both flavours for every key: after each rotate/reopen and at the end
	Agree  []string   `json:"agree,omitempty"`  // flavour disagreements found by the closing probes
	Fatal  string     `json:"fatal,omitempty"`
}

func (c *c17Case) Exec() {
	c.Fatal, c.Sweeps = "", nil
	top := tmpDir("c17-")
	defer os.RemoveAll(top)
	// the name of the database directory is part of the configuration: names that look like the library's own
	// table / compaction directories must work like any other
	dir := filepath.Join(top, []string{"db", "sstable_store", "sstable_compaction_area", "wal"}[(len(c.Steps)+len(c.Keys))%4])
	must(os.MkdirAll(dir, 0755))
	r := &dbRunner{dir: dir}
	if err := r.open(c.Opts); err != nil {
		c.Fatal = "open: " + err.Error()
		return
	}
	sweep := func() {
		var sw []dbStep
		for _, k := range c.Keys {
			g := dbStep{Op: "getb", K: k}
			r.step(&g)
			sw = append(sw, g)
			g2 := dbStep{Op: "get", K: k} // Go strings hold arbitrary bytes: the string flavour must agree on them too
			r.step(&g2)
			sw = append(sw, g2)
		}
		c.Sweeps = append(c.Sweeps, sw)
	}
	for i := range c.Steps {
		s := &c.Steps[i]
		r.step(s)
		if s.Op == "rotate" || s.Op == "reopen" {
			if len(s.Err) >= 4 && (s.Err[:4] == "Open" || s.Err[:4] == "Pani") {
				c.Fatal = fmt.Sprintf("step %d (%s): %s", i, s.Op, s.Err)
				return
			}
			sweep()
		}
	}
	sweep()
	// closing probes: for every key (and a few values) the two flavours must give the same verdict
	c.Agree = nil
	verdict := func(err error) string {
		if err == nil {
			return "accepted"
		}
		return "rejected"
	}
	for _, k := range c.Keys {
		for _, v := range [][]byte{[]byte("probe"), {}, []byte("\xff\xfe")} {
			a, b := verdict(r.db.Put(string(k), string(v))), verdict(r.db.PutBytes(k, v))
			if a != b {
				c.Agree = append(c.Agree, fmt.Sprintf("Put(%q,%q) is %s but PutBytes is %s", k, v, a, b))
			}
		}
		a, b := verdict(r.db.Delete(string(k))), verdict(r.db.DeleteBytes(k))
		if a != b {
			c.Agree = append(c.Agree, fmt.Sprintf("Delete(%q) is %s but DeleteBytes is %s", k, a, b))
		}
		_, e1 := r.db.Get(string(k))
		_, e2 := r.db.GetBytes(k)
		if dbErrName(e1) != dbErrName(e2) {
			c.Agree = append(c.Agree, fmt.Sprintf("Get(%q) gives %q but GetBytes %q", k, dbErrName(e1), dbErrName(e2)))
		}
	}
	if r.db != nil {
		_ = r.db.Close()
	}
}

func (c *c17Case) Oracle() (bool, string) {
	if c.Fatal != "" {
		return false, c.Fatal
	}
	if len(c.Agree) > 0 {
		return false, "the string and the byte flavour disagree: " + c.Agree[0]
	}
	ref := map[string][]byte{}
	si := 0
	checkSweep := func(after string) (bool, string) {
		sw := c.Sweeps[si]
		si++
		for _, g := range sw {
			want, ok := ref[string(g.key())]
			if ok != g.Found || (ok && !bytes.Equal(want, g.Val)) || (!ok && g.Err != "NotFound") {
				return false, fmt.Sprintf("after %s: %s(%q) = %q found=%v err=%q, reference (failed calls ignored) says %q present=%v", after, g.Op, g.K, g.Val, g.Found, g.Err, want, ok)
			}
		}
		return true, ""
	}
	cur := c.Opts
	for i, s := range c.Steps {
		if s.Op == "reopen" && s.Opts != nil {
			cur = *s.Opts
		}
		walFails := cur.DirectIOWAL && !cur.AsyncWAL // every WAL append is refused: a write may fail, and then has no effect
		switch s.Op {
		case "put", "putb":
			mustReject := len(s.key()) == 0 || len(s.val()) == 0
			if walFails && !mustReject {
				if s.Err == "" {
					ref[string(s.key())] = s.val()
				}
				continue
			}
			if mustReject && s.Err == "" {
				return false, fmt.Sprintf("step %d: %s with an empty or nil key/value (key %q nil=%v, value %q nil=%v) was accepted", i, s.Op, s.K, s.KNil, s.V, s.VNil)
			}
			if !mustReject && s.Err != "" {
				return false, fmt.Sprintf("step %d: %s(%q,%q) rejected: %s", i, s.Op, s.K, s.V, s.Err)
			}
			if s.Err == "" {
				ref[string(s.key())] = s.val()
			}
		case "del", "delb":
			if s.Err == "" {
				delete(ref, string(s.key()))
			}
		case "get", "getb":
			want, ok := ref[string(s.key())]
			if ok != s.Found || (ok && !bytes.Equal(want, s.Val)) || (!ok && s.Err != "NotFound") {
				return false, fmt.Sprintf("step %d: %s(%q) = %q found=%v err=%q, reference says %q present=%v", i, s.Op, s.K, s.Val, s.Found, s.Err, want, ok)
			}
		case "rotate", "reopen":
			if s.Err != "" {
				return false, fmt.Sprintf("step %d: %s failed: %s", i, s.Op, s.Err)
			}
			if ok, m := checkSweep(fmt.Sprintf("step %d (%s)", i, s.Op)); !ok {
				return false, m
			}
		}
	}
	return checkSweep("the last step")
}

func (c *c17Case) Sx() string {
	if c.Fatal != "" || c.Opts.MemstoreBytes < 1<<20 {
		return "" // self-rotating sessions are not programs of Db/Logical.v: the reference map judges them
	}
	for _, st := range c.Steps {
		if st.Opts != nil && st.Opts.DirectIOWAL {
			return "" // sessions with a failing WAL: the reference map judges them
		}
	}
	return sxDbProgram(c.Opts, c.Steps, c.Sweeps, false)
}
func (c *c17Case) Nontrivial() bool {
	rej, acc := 0, 0
	for _, s := range c.Steps {
		if s.Op == "put" || s.Op == "putb" {
			if s.Err != "" {
				rej++
			} else {
				acc++
			}
		}
	}
	return rej >= 1 && acc >= 2
}
func (c *c17Case) Kind() string { return fmt.Sprintf("steps=%s", bucket(len(c.Steps))) }

func genC17(r *rand.Rand, tier string) []Case {
	n := 200
	if tier == "thorough" {
		n = 5000
	}
	var cases []Case
	for i := 0; i < n; i++ {
		keys := [][]byte{[]byte("a"), []byte("b"), []byte("key-\xff\xfe"), {0x91, 0x8d, 0x4c}, bytes.Repeat([]byte("L"), 300), {}}
		if i%10 == 0 {
			keys = append(keys, bytes.Repeat([]byte("K"), 1<<16))
		}
		c := &c17Case{Keys: keys, Opts: dbOpts{MemstoreBytes: 1 << 30, Threshold: 10, MaxSize: 5 << 30, RatioPct: 20, WBuf: 4096, RBuf: 4096, AsyncWAL: i%2 == 0, EarlyClose: i%3 == 0}}
		ns := 3 + r.Intn(28)
		for j := 0; j < ns; j++ {
			k := keys[r.Intn(len(keys))]
			s := dbStep{K: k}
			switch x := r.Intn(20); {
			case x < 9:
				s.Op = []string{"put", "putb"}[r.Intn(2)]
				switch r.Intn(6) {
				case 0:
					s.V = []byte{}
				case 1:
					s.VNil = s.Op == "putb"
					s.V = []byte{}
				case 2:
					s.V = []byte("non-utf8-\xff")
				case 3:
					s.V = bytes.Repeat([]byte("v"), 1+r.Intn(3000))
					if r.Intn(6) == 0 {
						s.V = bytes.Repeat([]byte("v"), 66000)
					}
				default:
					s.V = []byte(fmt.Sprintf("v%d", j))
				}
				if r.Intn(10) == 0 {
					s.KNil, s.K = s.Op == "putb", []byte{}
				}

			case x < 12:
				s.Op = []string{"del", "delb"}[r.Intn(2)]

				if r.Intn(8) == 0 && s.Op == "delb" {
					s.KNil, s.K = true, nil
				}
			case x < 15:
				s.Op = []string{"get", "getb"}[r.Intn(2)]

			case x < 18:
				s = dbStep{Op: "rotate"}
			default:
				o := c.Opts
				s = dbStep{Op: "reopen", Opts: &o}
			}
			c.Steps = append(c.Steps, s)
		}
		cases = append(cases, c)
	}
	// a phase in which every WAL append is refused (direct I/O with the synchronous WAL): writes fail, and a failed
	// write - Put or Delete, either flavour - must leave no trace, neither now nor after restarts
	nf := 4
	if tier == "thorough" {
		nf = 60
	}
	for i := 0; i < nf; i++ {
		keys := [][]byte{[]byte("a"), []byte("b"), []byte("c")}
		good := dbOpts{MemstoreBytes: 1 << 30, Threshold: 10, MaxSize: 5 << 30, RatioPct: 20, WBuf: 4096, RBuf: 4096}
		bad := good
		bad.DirectIOWAL = true
		c := &c17Case{Keys: keys, Opts: good}
		c.Steps = append(c.Steps, dbStep{Op: "put", K: keys[0], V: []byte("a1")}, dbStep{Op: "putb", K: keys[1], V: []byte("b1")})
		if i%2 == 0 {
			c.Steps = append(c.Steps, dbStep{Op: "rotate"})
		}
		c.Steps = append(c.Steps, dbStep{Op: "reopen", Opts: &bad})
		for j := 0; j < 3+r.Intn(6); j++ {
			k := keys[r.Intn(3)]
			switch r.Intn(4) {
			case 0:
				c.Steps = append(c.Steps, dbStep{Op: "del", K: k})
			case 1:
				c.Steps = append(c.Steps, dbStep{Op: "delb", K: k})
			case 2:
				c.Steps = append(c.Steps, dbStep{Op: "put", K: k, V: []byte(fmt.Sprintf("x%d", j))})
			default:
				c.Steps = append(c.Steps, dbStep{Op: "putb", K: k, V: []byte(fmt.Sprintf("y%d", j))})
			}
			c.Steps = append(c.Steps, dbStep{Op: "get", K: k})
		}
		if i%3 == 0 {
			c.Steps = append(c.Steps, dbStep{Op: "rotate"})
		}
		c.Steps = append(c.Steps, dbStep{Op: "reopen", Opts: &good}, dbStep{Op: "get", K: keys[0]}, dbStep{Op: "get", K: keys[1]})
		cases = append(cases, c)
	}
	// a small memstore and one key overwritten again and again: the log grows far beyond the memstore limit while the
	// memstore stays below it; then other keys, a clean restart, and every key must read as before it
	nh := 4
	if tier == "thorough" {
		nh = 60
	}
	for i := 0; i < nh; i++ {
		keys := [][]byte{[]byte("hot"), []byte("b"), []byte("c")}
		c := &c17Case{Keys: keys, Opts: dbOpts{MemstoreBytes: []uint64{1, 8, uint64(150 + r.Intn(300))}[i%3], Threshold: 10, MaxSize: 5 << 30, RatioPct: 20, WBuf: 4096, RBuf: 4096, AsyncWAL: i%2 == 0}}
		for j := 0; j < 40+r.Intn(150); j++ {
			c.Steps = append(c.Steps, dbStep{Op: []string{"put", "putb"}[j%2], K: keys[0], V: []byte(fmt.Sprintf("gen-%04d", j))})
		}
		for j := 0; j < 40+r.Intn(60); j++ {
			c.Steps = append(c.Steps, dbStep{Op: []string{"del", "delb"}[j%2], K: keys[j%3]})
		}
		c.Steps = append(c.Steps, dbStep{Op: "put", K: keys[1], V: []byte("other")}, dbStep{Op: "put", K: keys[0], V: []byte("final-value")}, dbStep{Op: "del", K: keys[1]})
		o := c.Opts
		c.Steps = append(c.Steps, dbStep{Op: "reopen", Opts: &o}, dbStep{Op: "get", K: keys[0]}, dbStep{Op: "get", K: keys[1]}, dbStep{Op: "reopen", Opts: &o}, dbStep{Op: "get", K: keys[0]})
		cases = append(cases, c)
	}
	// a tombstone that a partial compaction keeps (as an empty value) over a live value in an older, excluded table: the
	// deleted key must read as absent through both flavours, now and after restarts
	for i := 0; i < nh; i++ {
		keys := [][]byte{[]byte("a"), []byte("b"), []byte("big")}
		c := &c17Case{Keys: keys, Opts: dbOpts{MemstoreBytes: 1 << 30, Threshold: 1, MaxSize: 300, RatioPct: 100, WBuf: 4096, RBuf: 4096, EarlyClose: i%2 == 0}}
		big := make([]byte, 500+r.Intn(300))
		r.Read(big)
		c.Steps = append(c.Steps, dbStep{Op: "put", K: keys[0], V: []byte("old-a")}, dbStep{Op: "putb", K: keys[2], V: big}, dbStep{Op: "rotate"},
			dbStep{Op: []string{"del", "delb"}[i%2], K: keys[0]}, dbStep{Op: "putb", K: keys[0], V: []byte{}}, dbStep{Op: "rotate"},
			dbStep{Op: "put", K: keys[1], V: []byte("vb")}, dbStep{Op: "rotate"}, dbStep{Op: "compact"},
			dbStep{Op: "get", K: keys[0]}, dbStep{Op: "getb", K: keys[0]}, dbStep{Op: "rotate"})
		o := c.Opts
		c.Steps = append(c.Steps, dbStep{Op: "reopen", Opts: &o}, dbStep{Op: "get", K: keys[0]}, dbStep{Op: "getb", K: keys[1]})
		cases = append(cases, c)
	}
	// bursts of rotations that do not wait for the flusher: a value that has left the write store must be readable at
	// every moment (from the store being flushed or from its table), through both flavours
	for i := 0; i < nh; i++ {
		keys := [][]byte{[]byte("a"), []byte("b"), []byte("c")}
		c := &c17Case{Keys: keys, Opts: dbOpts{MemstoreBytes: 500000, Threshold: 10, MaxSize: 5 << 30, RatioPct: 20, WBuf: 4096, RBuf: 4096, AsyncWAL: i%2 == 0}}
		// on a fresh database: two generations right behind each other, the second deletes a key of the first
		c.Steps = append(c.Steps, dbStep{Op: "put", K: keys[0], V: []byte("first-a")}, dbStep{Op: "putb", K: keys[1], V: []byte("first-b")}, dbStep{Op: "rotnw"},
			dbStep{Op: []string{"del", "delb"}[i%2], K: keys[0]}, dbStep{Op: "rotnw"}, dbStep{Op: "get", K: keys[0]}, dbStep{Op: "getb", K: keys[1]})
		if i%2 == 0 {
			o := c.Opts
			c.Steps = append(c.Steps, dbStep{Op: "reopen", Opts: &o}, dbStep{Op: "get", K: keys[0]}, dbStep{Op: "getb", K: keys[0]})
		}
		for j := 0; j < 10+r.Intn(20); j++ {
			k, k2 := keys[j%3], keys[(j+1)%3]
			c.Steps = append(c.Steps, dbStep{Op: []string{"put", "putb"}[j%2], K: k, V: []byte(fmt.Sprintf("burst-%04d", j))}, dbStep{Op: "rotnw"})
			if r.Intn(3) == 0 {
				c.Steps = append(c.Steps, dbStep{Op: "del", K: k2})
			} else {
				c.Steps = append(c.Steps, dbStep{Op: "put", K: k2, V: []byte(fmt.Sprintf("other-%04d", j))})
			}
			c.Steps = append(c.Steps, dbStep{Op: "rotnw"}, dbStep{Op: "get", K: k}, dbStep{Op: "getb", K: k2})
		}
		c.Steps = append(c.Steps, dbStep{Op: "putb", K: keys[0], V: []byte{}}, dbStep{Op: "put", K: keys[0], V: []byte("x")}, dbStep{Op: "put", K: keys[1], V: []byte("y")})
		cases = append(cases, c)
	}
	return cases
}

// C17 also has a crash part: kill images taken around rejected calls (same machinery as C02)
type c17Any struct {
	API   *c17Case `json:"api,omitempty"`
	Crash *c02Case `json:"crash,omitempty"`
	Life  *c17Life `json:"life,omitempty"`
}

func (c *c17Any) inner() Case {
	if c.API != nil {
		return c.API
	}
	if c.Life != nil {
		return c.Life
	}
	return c.Crash
}
func (c *c17Any) Exec()                  { c.inner().Exec() }
func (c *c17Any) Oracle() (bool, string) { return c.inner().Oracle() }
func (c *c17Any) Sx() string {
	if c.Crash != nil {
		return "" // crash images are compared with Fs/Crash.v by the C02 check; here the oracle judges them
	}
	return c.inner().Sx()
}
func (c *c17Any) Nontrivial() bool { return c.inner().Nontrivial() }
func (c *c17Any) Kind() string {
	if c.Crash != nil {
		return "crash/" + c.Crash.Kind()
	}
	return c.inner().Kind()
}
func (c *c17Any) Evals() int {
	if c.Crash != nil {
		return c.Crash.Evals()
	}
	return 1
}

// sessions in which rejected calls (nil / empty values and keys through the byte API) are mixed with
// accepted ones; every kill image must re-open and show no trace of the rejected calls
func genC17Crash(r *rand.Rand) *c02Case {
	keys := [][]byte{[]byte("a"), []byte("b"), []byte("c")}
	c := &c02Case{Keys: keys, NoAbs: true}
	c.Opts = dbOpts{MemstoreBytes: 1 << 30, Threshold: 10, MaxSize: 5 << 30, RatioPct: 100, WBuf: 4096, RBuf: 4096}
	for j := 0; j < 10+r.Intn(6); j++ {
		k := keys[r.Intn(len(keys))]
		switch r.Intn(6) {
		case 0:
			c.Steps = append(c.Steps, dbStep{Op: "putb", K: k, V: []byte{}, VNil: true})
		case 1:
			c.Steps = append(c.Steps, dbStep{Op: "putb", K: k, V: []byte{}})
		case 2:
			c.Steps = append(c.Steps, dbStep{Op: "putb", K: []byte{}, V: []byte("v")})
		case 3:
			c.Steps = append(c.Steps, dbStep{Op: "rotate"})
		case 4:
			c.Steps = append(c.Steps, dbStep{Op: "del", K: k})
			if r.Intn(2) == 0 {
				// accepted by both flavours and logged: the empty / nil key
				c.Steps = append(c.Steps, dbStep{Op: "del", K: []byte{}}, dbStep{Op: "delb", KNil: true})
			}
		default:
			c.Steps = append(c.Steps, dbStep{Op: "put", K: k, V: []byte(fmt.Sprintf("v%d", j))})
		}
	}
	// every session logs at least one tombstone for the empty key (accepted by both flavours) that is still in the WAL
	// when the kill images are taken
	c.Steps = append(c.Steps, dbStep{Op: "delb", K: []byte{}}, dbStep{Op: "put", K: keys[0], V: []byte("last")})
	return c
}

func init() {
	register(&Prop{
		ID: "C17", Num: 17,
		Gen: func(r *rand.Rand, tier string) []Case {
			var out []Case
			for _, c := range genC17(r, tier) {
				out = append(out, &c17Any{API: c.(*c17Case)})
			}
			n := 2
			if tier == "thorough" {
				n = 30
			}
			for i := 0; i < n; i++ {
				out = append(out, &c17Any{Crash: genC17Crash(r)})
			}
			out = append(out, &c17Any{Crash: genDeleteTailCrashCase(r, true)})
			for _, c := range genC17Life(r, tier) {
				out = append(out, &c17Any{Life: c.(*c17Life)})
			}
			return out
		},
		New:  func() Case { return &c17Any{} },
		Rule: "call sequences over the life cycle of ONE handle (calls before Open, a second Open, calls after Close: refused, and without effect), compared with Db/Handle.v; also sessions with bursts of rotations that do not wait for the flusher, and crash sessions whose last log generation holds only deletes (each second kill image is recovered, killed idle and opened again); programs mixing accepted and rejected calls through both API flavours: keys/values nil, empty, non-UTF-8, 64 KiB and longer, marker bytes, the empty key; observed directly, after forced rotation+flush, after clean reopen; plus sessions with rejected calls run under strace whose every kill image is re-opened (C02 machinery). Non-trivial: >=1 rejected and >=2 accepted puts.",
		Shrink: func(cs Case) []Case {
			a := cs.(*c17Any)
			if a.API == nil {
				return nil
			}
			c := a.API
			var out []Case
			for i := range c.Steps {
				n := &c17Case{Opts: c.Opts, Keys: c.Keys}
				n.Steps = append(append([]dbStep{}, c.Steps[:i]...), c.Steps[i+1:]...)
				out = append(out, &c17Any{API: n})
			}
			return out
		},
	})
}
