package main

import (
	"bytes"
	"fmt"
	"math/rand"
	"os"
	"path/filepath"
	"strings"

	"github.com/thomasjungblut/go-sstables/recordio"
)

type wOp struct {
	Op     string `json:"op"` // write | writesync | seek
	Rec    []byte `json:"rec,omitempty"`
	Nil    bool   `json:"nil,omitempty"`
	SeekTo int    `json:"seek_to,omitempty"` // (SeekTo mod (n+1))-th surviving record boundary, n = current end
	// observation
	Off uint64 `json:"off"`
	Err string `json:"err,omitempty"`
}

type c04Case struct {
	Comp     int    `json:"comp"`
	WBuf     int    `json:"wbuf"`
	RBuf     int    `json:"rbuf"`
	Direct   bool   `json:"direct,omitempty"`
	BufRead  bool   `json:"buf_read,omitempty"` // written with direct I/O, read back with the buffered reader only
	SeekLen  int    `json:"seek_len"`
	Prog     []wOp  `json:"prog"`
	ReadProg []bool `json:"read_prog"`
	Embedded bool   `json:"embedded,omitempty"` // some payload embeds a complete record image
	// observations
	Size    uint64    `json:"size"`
	File    []byte    `json:"file"`
	Seq     []recOut  `json:"seq"`
	SeqFile []recOut  `json:"seq_file,omitempty"` // the same read through NewFileReaderWithFile (default buffer size)
	At      []recOut  `json:"at"`
	AtOffs  []uint64  `json:"at_offs"`
	Mixed   []recOut  `json:"mixed"`
	Seeks   []seekOut `json:"seeks"`
	MmapLen uint64    `json:"mmap_len"`
	Fatal   string    `json:"fatal,omitempty"`
}

type surv struct {
	off uint64
	rec []byte
	nil bool
}

func (c *c04Case) rec(o *wOp) []byte {
	if o.Nil {
		return nil
	}
	if o.Rec == nil {
		return []byte{}
	}
	return o.Rec
}

func (c *c04Case) Exec() {
	defer func() {
		if r := recover(); r != nil {
			c.Fatal = fmt.Sprint("panic: ", r)
		}
	}()
	c.Fatal = ""
	dir := tmpDir("c04-")
	defer os.RemoveAll(dir)
	path := filepath.Join(dir, "f.rio")
	opts := []recordio.FileWriterOption{recordio.Path(path), recordio.CompressionType(c.Comp), recordio.BufferSizeBytes(c.WBuf)}
	if len(c.Prog)%5 == 1 {
		// the writer is handed an open file instead of a path
		f, err := os.Create(path)
		must(err)
		opts[0] = recordio.File(f)
	}
	if c.Direct {
		opts = append(opts, recordio.DirectIO())
	}
	w, err := recordio.NewFileWriter(opts...)
	if err != nil {
		c.Fatal = "new writer: " + err.Error()
		return
	}
	if err := w.Open(); err != nil {
		c.Fatal = "open writer: " + err.Error()
		return
	}
	var offs []uint64 // offset returned for write op i (seek ops: 0)
	for i := range c.Prog {
		o := &c.Prog[i]
		o.Err, o.Off = "", 0
		switch o.Op {
		case "write":
			off, err := w.Write(c.rec(o))
			o.Off = off
			if err != nil {
				o.Err = classifyErr(err)
			}
		case "writesync":
			off, err := w.WriteSync(c.rec(o))
			o.Off = off
			if err != nil {
				o.Err = classifyErr(err)
			}
		case "seek":
			// target: the offset of the (SeekTo mod (n+1))-th record that still survives, n+1-th = current end
			target := w.Size()
			sv := c.survivorsUpTo(i)
			if k := o.SeekTo % (len(sv) + 1); k < len(sv) {
				target = sv[k].off
			}
			if c.Direct && target%4096 != 0 {
				// direct I/O can only seek to block boundaries: the nearest surviving boundary that is one, else stay
				target = w.Size()
				for _, x := range sv {
					if x.off%4096 == 0 && x.off > 0 {
						target = x.off
					}
				}
				if target%4096 != 0 {
					o.Off = w.Size()
					offs = append(offs, o.Off)
					continue
				}
			}
			o.Off = target
			if err := w.Seek(target); err != nil {
				o.Err = classifyErr(err)
			}
		}
		offs = append(offs, o.Off)
	}
	c.Size = w.Size()
	if err := w.Close(); err != nil {
		c.Fatal = "close writer: " + err.Error()
		return
	}
	c.File, _ = os.ReadFile(path)
	c.Seq = readAllSeq(path, c.RBuf, c.Direct && !c.BufRead, len(c.Prog)+3)
	c.SeqFile = nil
	if len(c.Prog)%3 == 0 && !c.Direct {
		c.SeqFile = readAllSeqWithFile(path, len(c.Prog)+3)
	}
	sv := c.survivors()
	c.At, c.AtOffs, c.Seeks = nil, nil, nil
	m, err := openMmap(path, c.SeekLen)
	if err != nil {
		c.Fatal = "mmap: " + err.Error()
		return
	}
	defer m.Close()
	c.MmapLen = m.Size()
	for _, s := range sv {
		b, err := m.ReadNextAt(s.off)
		c.At = append(c.At, mkRec(b, err, true))
		c.AtOffs = append(c.AtOffs, s.off)
	}
	c.Mixed = readMixed(path, c.RBuf, c.ReadProg)
	n := uint64(len(c.File))
	step := uint64(1)
	if n > 600 {
		step = n/300 + 1
	}
	for o := uint64(0); o <= n; o += step {
		off, b, err := m.SeekNext(o)
		so := seekOut{From: o, Off: off, Rec: mkRec(b, err, false)}
		if err != nil {
			so.Off = 0
		}
		c.Seeks = append(c.Seeks, so)
	}
}

// survivors: the logical content after the program (model-independent bookkeeping from returned offsets)
func (c *c04Case) survivors() []surv { return c.survivorsUpTo(len(c.Prog)) }

func (c *c04Case) survivorsUpTo(n int) []surv {
	var sv []surv
	for i := 0; i < n; i++ {
		o := &c.Prog[i]
		if o.Err != "" {
			continue
		}
		switch o.Op {
		case "write", "writesync":
			sv = append(sv, surv{off: o.Off, rec: c.rec(o), nil: o.Nil})
		case "seek":
			var keep []surv
			for _, s := range sv {
				if s.off < o.Off {
					keep = append(keep, s)
				}
			}
			sv = keep
		}
	}
	return sv
}

func recMatches(r recOut, s surv) bool {
	return r.Err == "" && !r.Skip && r.Nil == s.nil && bytes.Equal(r.Data, s.rec)
}

func (c *c04Case) Oracle() (bool, string) {
	if c.Fatal != "" {
		return false, c.Fatal
	}
	for i, o := range c.Prog {
		if o.Err != "" {
			return false, fmt.Sprintf("writer op %d (%s) failed: %s", i, o.Op, o.Err)
		}
	}
	sv := c.survivors()
	// returned offsets ascend along survivors and Size is the end
	for i := 1; i < len(sv); i++ {
		if sv[i].off <= sv[i-1].off {
			return false, "offsets of surviving records do not ascend"
		}
	}
	if !c.Direct && c.Size != uint64(len(c.File)) {
		return false, fmt.Sprintf("Size() %d but file has %d bytes", c.Size, len(c.File))
	}
	// sequential: exactly the survivors then EOF
	if len(c.Seq) != len(sv)+1 {
		return false, fmt.Sprintf("sequential reader returned %d items, expected %d records then EOF (last: %+v)", len(c.Seq), len(sv), c.Seq[len(c.Seq)-1].Err)
	}
	for i, s := range sv {
		if !recMatches(c.Seq[i], s) {
			return false, fmt.Sprintf("sequential record %d differs (nil=%v err=%s)", i, c.Seq[i].Nil, c.Seq[i].Err)
		}
	}
	if c.Seq[len(sv)].Err != "EOF" {
		return false, "sequential reader did not end with EOF: " + c.Seq[len(sv)].Err
	}
	if c.SeqFile != nil {
		if len(c.SeqFile) != len(c.Seq) {
			return false, fmt.Sprintf("the reader made by NewFileReaderWithFile returned %d items, the one made with a path %d", len(c.SeqFile), len(c.Seq))
		}
		for i := range c.Seq {
			if c.SeqFile[i].Err != c.Seq[i].Err || c.SeqFile[i].Nil != c.Seq[i].Nil || !bytes.Equal(c.SeqFile[i].Data, c.Seq[i].Data) {
				return false, fmt.Sprintf("record %d read through NewFileReaderWithFile differs from the one read through a path", i)
			}
		}
	}
	// random access at returned offsets
	for i, s := range sv {
		if !recMatches(c.At[i], s) {
			return false, fmt.Sprintf("ReadNextAt(%d) differs from record %d (err=%s)", s.off, i, c.At[i].Err)
		}
	}
	// mixed read/skip visits the same positions
	for i, rd := range c.ReadProg {
		if i >= len(c.Mixed) {
			return false, "mixed program stopped early"
		}
		got := c.Mixed[i]
		if i >= len(sv) {
			if got.Err != "EOF" {
				return false, fmt.Sprintf("mixed program step %d: expected EOF, got %+v", i, got)
			}
			break
		}
		if rd {
			if !recMatches(got, sv[i]) {
				return false, fmt.Sprintf("mixed program step %d: read differs after skips (err=%s)", i, got.Err)
			}
		} else if got.Err != "" {
			return false, fmt.Sprintf("mixed program step %d: skip failed: %s", i, got.Err)
		}
	}
	// seek-next: first surviving record starting at or after the offset
	{
		for _, so := range c.Seeks {
			var want *surv
			for i := range sv {
				if sv[i].off >= so.From {
					want = &sv[i]
					break
				}
			}
			if want == nil {
				if so.Rec.Err != "EOF" {
					return false, fmt.Sprintf("SeekNext(%d): expected EOF, got off=%d err=%q", so.From, so.Off, so.Rec.Err)
				}
			} else if so.Rec.Err != "" || so.Off != want.off || !recMatches(so.Rec, *want) {
				return false, fmt.Sprintf("SeekNext(%d): expected record at %d, got off=%d err=%q", so.From, want.off, so.Off, so.Rec.Err)
			}
		}
	}
	return true, ""
}

func (c *c04Case) Sx() string {
	if c.Fatal != "" || c.Direct || len(c.File) > 100<<10 { // multi-megabyte files are judged by the oracle only
		return ""
	}
	var prog, offs, ctab, seq, at, mixed, seeks, rp []string
	seen := map[string]bool{}
	for i := range c.Prog {
		o := &c.Prog[i]
		switch o.Op {
		case "write":
			prog = append(prog, sxL("n0", sxOBn(o.Rec, o.Nil)))
		case "writesync":
			prog = append(prog, sxL("n1", sxOBn(o.Rec, o.Nil)))
		case "seek":
			prog = append(prog, sxL("n2", sxN(o.Off)))
		}
		offs = append(offs, sxL(sxN(o.Off), sxBool(o.Err != "")))
		if o.Op != "seek" && c.Comp != 0 && !seen[string(c.rec(o))] {
			seen[string(c.rec(o))] = true
			ctab = append(ctab, sxL(sxB(c.rec(o)), sxB(compressBytes(c.Comp, c.rec(o)))))
		}
	}
	for _, r := range c.Seq {
		seq = append(seq, r.sx())
	}
	for i, r := range c.At {
		at = append(at, sxL(sxN(c.AtOffs[i]), r.sx()))
	}
	for _, r := range c.Mixed {
		mixed = append(mixed, r.sxMixed())
	}
	for _, s := range c.Seeks {
		seeks = append(seeks, sxL(sxN(s.From), sxN(s.Off), s.Rec.sx()))
	}
	for _, b := range c.ReadProg {
		rp = append(rp, sxBool(b))
	}
	return sxL(sxI(c.Comp), sxList(ctab), sxI(c.SeekLen), sxList(prog), sxList(offs), sxN(c.Size), sxB(c.File),
		sxList(seq), sxList(at), sxList(rp), sxList(mixed), sxList(seeks))
}

func (c *c04Case) Nontrivial() bool {
	nrec, special := 0, false
	for _, o := range c.Prog {
		if o.Op == "seek" {
			special = true
			continue
		}
		nrec++
		if o.Nil || len(o.Rec) == 0 || bytes.IndexByte(o.Rec, 0x91) >= 0 {
			special = true
		}
		for _, b := range []int{c.WBuf, c.RBuf} {
			if d := len(o.Rec) - b; d >= -2 && d <= 2 {
				special = true
			}
		}
	}
	return nrec >= 2 && special
}

func (c *c04Case) Kind() string {
	k := fmt.Sprintf("comp=%d/recs=%s/seeklen=%d", c.Comp, bucket(len(c.Prog)), c.SeekLen)
	if c.Direct {
		k += "/direct"
	}
	if c.Embedded {
		k += "/embedded"
	}
	return k
}

var markerBytes = []byte{0x91, 0x8d, 0x4c}

func advPayload(r *rand.Rand, maxLen int) []byte {
	n := r.Intn(maxLen + 1)
	b := make([]byte, n)
	switch r.Intn(4) {
	case 0: // printable
		for i := range b {
			b[i] = byte('a' + r.Intn(26))
		}
	case 1: // marker soup
		for i := range b {
			b[i] = markerBytes[r.Intn(3)]
		}
	case 2: // leading zero, mixed
		for i := range b {
			b[i] = byte(r.Intn(256))
		}
		if n > 0 {
			b[0] = 0
		}
	default:
		for i := range b {
			b[i] = byte(r.Intn(256))
		}
	}
	// proper prefixes of the marker placed at the very end (directly before the next record)
	switch r.Intn(6) {
	case 0:
		b = append(b, 0x91)
	case 1:
		b = append(b, 0x91, 0x8d)
	case 2:
		b = append(b, 0x91, 0x8d, 0x4c)
	case 3:
		b = append(b, 0x91, 0x8d, 0x4c, 0x00)
	}
	return b
}

func genC04(r *rand.Rand, tier string) []Case {
	n := 600
	if tier == "thorough" {
		n = 20000
	}
	bufs := []int{1, 2, 7, 16, 64, 4096, 1 << 20}
	seekLens := []int{4, 5, 7, 16, 4096}
	dio, _ := recordio.IsDirectIOAvailable()
	var cases []Case
	for i := 0; i < n; i++ {
		c := &c04Case{Comp: i % 4, WBuf: bufs[r.Intn(len(bufs))], RBuf: bufs[r.Intn(len(bufs))], SeekLen: seekLens[r.Intn(len(seekLens))]}
		if dio && i%25 == 24 {
			c.Direct, c.WBuf, c.RBuf = true, 4096, 4096
		}
		nrec := r.Intn(12)
		maxLen := 24
		if i%10 == 0 {
			maxLen = 300
		}
		if c.Direct {
			// several blocks, and a partially filled last one
			nrec, maxLen = 4+r.Intn(10), 1800
		}
		if tier == "thorough" && i%200 == 0 {
			maxLen = 3 << 20
			nrec = 1 + r.Intn(3)
		}
		writes := 0
		for j := 0; j < nrec; j++ {
			op := wOp{Op: "write"}
			if !c.Direct && r.Intn(4) == 0 {
				op.Op = "writesync"
			}
			switch r.Intn(8) {
			case 0:
				op.Nil = true
			case 1:
				op.Rec = []byte{}
			default:
				op.Rec = advPayload(r, maxLen)
				if r.Intn(6) == 0 {
					// size within +-2 of a buffer size
					target := c.WBuf + r.Intn(5) - 2
					if target >= 0 && target < 5000 {
						op.Rec = bytes.Repeat([]byte{byte('A' + j)}, target)
					}
				}
			}
			if c.Direct && len(op.Rec) > 2000 {
				op.Rec = op.Rec[:2000]
			}
			c.Prog = append(c.Prog, op)
			writes++
			if !c.Direct && writes > 0 && r.Intn(5) == 0 {
				// seek back to an earlier boundary (or the current end) and continue
				c.Prog = append(c.Prog, wOp{Op: "seek", SeekTo: r.Intn(1000)})
			}
		}
		for j := 0; j < nrec+2; j++ {
			c.ReadProg = append(c.ReadProg, r.Intn(2) == 0)
		}
		cases = append(cases, c)
	}
	// records of one mebibyte and more (buffer pools and copy shortcuts have size classes)
	for k := 0; k < 2; k++ {
		c := &c04Case{Comp: []int{0, 2}[k], WBuf: 4096, RBuf: 4096, SeekLen: 4096}
		big := make([]byte, 1<<20+r.Intn(3))
		r.Read(big)
		c.Prog = []wOp{{Op: "write", Rec: []byte("small before")}, {Op: "write", Rec: big}, {Op: "write", Rec: []byte("small after")}}
		c.ReadProg = []bool{true, true, true, true}
		cases = append(cases, c)
	}
	// records of a few kilobytes up to beyond 64 KiB under every compression type, compressible and not (decompressors
	// deliver their output in chunks; buffer pools have size classes)
	for k := 0; k < 4; k++ {
		c := &c04Case{Comp: k, WBuf: []int{4096, 64}[k%2], RBuf: []int{64, 4096}[k%2], SeekLen: 4096}
		for j, n := range []int{4095, 4097, 9000 + r.Intn(100), 33000 + r.Intn(100), 66000 + r.Intn(100)} {
			rec := make([]byte, n)
			if j%2 == 0 {
				r.Read(rec)
			} else {
				for x := range rec {
					rec[x] = byte('a' + (x/7)%5)
				}
			}
			c.Prog = append(c.Prog, wOp{Op: "write", Rec: rec})
		}
		c.ReadProg = []bool{true, false, true, true, false, true}
		cases = append(cases, c)
	}
	// record lengths at the boundaries of the length varints (127/128, 16383/16384, and for compressed files payloads
	// whose COMPRESSED length sits there)
	for k := 0; k < 3; k++ {
		c := &c04Case{Comp: []int{0, 2, 0}[k], WBuf: 4096, RBuf: 4096, SeekLen: 4096}
		for _, n := range []int{127, 128, 129, 16383, 16384, 16385} {
			rec := make([]byte, n)
			r.Read(rec)
			if c.Comp == 2 {
				// snappy stores incompressible input with a few bytes of framing: search the input length whose compressed form has n bytes
				for d := 0; d < 64; d++ {
					if m := n - d; m > 0 && len(compressBytes(2, rec[:m])) == n {
						rec = rec[:m]
						break
					}
				}
			}
			c.Prog = append(c.Prog, wOp{Op: []string{"write", "writesync"}[k%2], Rec: rec})
		}
		c.ReadProg = []bool{true, false, true, true, false, true, true}
		cases = append(cases, c)
	}
	// a payload that contains the complete image of a record (a record whose payload is itself a serialized record)
	for k := 0; k < 2; k++ {
		c := &c04Case{Comp: 0, WBuf: 4096, RBuf: 4096, SeekLen: []int{4, 4096}[k], Embedded: true}
		inner := recImage([]byte(fmt.Sprintf("inner record %d", k)))
		outer := append(append([]byte("xx"), inner...), []byte("yy")...)
		c.Prog = []wOp{{Op: "write", Rec: []byte("first")}, {Op: "write", Rec: outer}, {Op: "write", Rec: []byte("third")}}
		c.ReadProg = []bool{true, false, true, true}
		cases = append(cases, c)
	}
	if dio {
		// direct I/O files whose writer buffer (= the zero padding at their end) is larger than the reader's buffer
		for k := 0; k < 3; k++ {
			c := &c04Case{Comp: []int{0, 2, 0}[k], Direct: true, BufRead: true, WBuf: []int{65536, 16384, 1 << 20}[k], RBuf: 4096, SeekLen: 4096}
			for j := 0; j < 2+r.Intn(4); j++ {
				c.Prog = append(c.Prog, wOp{Op: "write", Rec: advPayload(r, 200)})
			}
			for j := 0; j < len(c.Prog)+2; j++ {
				c.ReadProg = append(c.ReadProg, j%2 == k%2)
			}
			cases = append(cases, c)
		}
		// direct I/O with a seek back to a block boundary and a shorter rewrite: what lies beyond must be cut off.
		// The first record is sized so that (with the usual 5-byte checksum varint) it ends at offset 4096.
		for k := 0; k < 3; k++ {
			c := &c04Case{Comp: 0, Direct: true, WBuf: 4096, RBuf: 4096, SeekLen: 4096}
			first := make([]byte, 4076)
			r.Read(first)
			c.Prog = append(c.Prog, wOp{Op: "write", Rec: first})
			for j := 0; j < 3+r.Intn(3); j++ {
				p := make([]byte, 1200+r.Intn(800))
				r.Read(p)
				c.Prog = append(c.Prog, wOp{Op: "write", Rec: p})
			}
			c.Prog = append(c.Prog, wOp{Op: "seek", SeekTo: 1}, wOp{Op: "write", Rec: []byte("short rewrite")})
			for j := 0; j < 4; j++ {
				c.ReadProg = append(c.ReadProg, j%2 == 0)
			}
			cases = append(cases, c)
		}
	}
	return cases
}

func init() {
	register(&Prop{
		ID: "C04", Num: 4,
		Gen:  genC04,
		New:  func() Case { return &c04Case{} },
		Rule: "(writers also get an open file instead of a path, a third of the files is also read through NewFileReaderWithFile; four files of 4 KiB-66 KiB records, one per compression type) writer programs of Write/WriteSync/Seek(back to a boundary)/Close over adversarial payloads (nil, empty, marker bytes and proper marker prefixes at the end of a payload, leading zero, sizes within +-2 of a buffer size) x 4 compression types x write/read buffer sizes {1,2,7,16,64,4096,1Mi} x scan window {4,5,7,16,4096} (+ direct I/O when the file system allows); observed: returned offsets, Size, file bytes, sequential read, ReadNextAt at every surviving offset, a random read/skip program, SeekNext from every byte offset (sampled for files > 600 bytes). Non-trivial: >=2 records and one of {nil, empty, marker byte, seek-back, size within +-2 of a buffer}.",
		Classify: func(cs Case, msg string) string {
			// F-C04e: a payload embeds the complete image of a record; SeekNext from an offset before that image (inside the
			// payload or before the record) stops at the image. Every wrong answer must be exactly that.
			c := cs.(*c04Case)
			if !c.Embedded || c.Fatal != "" || !strings.HasPrefix(msg, "SeekNext(") {
				return ""
			}
			sv := c.survivors()
			inside := func(off uint64) bool {
				for _, s := range sv {
					if off > s.off && off < s.off+uint64(len(recImage(s.rec))) {
						return true
					}
				}
				return false
			}
			bad := 0
			for _, so := range c.Seeks {
				var want *surv
				for i := range sv {
					if sv[i].off >= so.From {
						want = &sv[i]
						break
					}
				}
				ok := (want == nil && so.Rec.Err == "EOF") || (want != nil && so.Rec.Err == "" && so.Off == want.off && recMatches(so.Rec, *want))
				if ok {
					continue
				}
				bad++
				if so.Rec.Err != "" || !inside(so.Off) {
					return "" // not the embedded image
				}
			}
			if bad > 0 {
				return "F-C04e"
			}
			return ""
		},
		Shrink: func(cs Case) []Case {
			c := cs.(*c04Case)
			var out []Case
			for i := range c.Prog {
				n := *c
				n.Prog = append(append([]wOp{}, c.Prog[:i]...), c.Prog[i+1:]...)
				out = append(out, &n)
			}
			return out
		},
	})
}
