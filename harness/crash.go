package main

// Crash-image machinery (C02, C07, C10, C13, C17 crash part): a workload runs in a child process
// under strace; the recorded file-system system calls are replayed prefix by prefix into fresh
// directories (one image per boundary between two mutating calls), and the real Open()/Replay()
// runs on each image in another child process (a panic or hang there is an outcome).

import (
	"bufio"
	"bytes"
	"encoding/json"
	"fmt"
	"os"
	"os/exec"
	"path/filepath"
	"regexp"
	"sort"
	"strconv"
	"strings"
	"time"
)

type fsEvent struct {
	Kind  string `json:"kind"` // create write truncate rename unlink rmdir mkdir fsync ack begin
	Path  string `json:"path,omitempty"`
	To    string `json:"to,omitempty"`
	Off   int64  `json:"off,omitempty"`
	Data  []byte `json:"data,omitempty"`
	Len   int64  `json:"len,omitempty"`
	Op    int    `json:"op,omitempty"` // for ack/begin markers
	Trunc bool   `json:"trunc,omitempty"`
	Rel   bool   `json:"rel,omitempty"` // unlink relative to a directory descriptor: part of a RemoveAll, whose order is the listing order
}

func (e fsEvent) mutating() bool {
	switch e.Kind {
	case "create", "write", "truncate", "rename", "unlink", "rmdir", "mkdir":
		return true
	}
	return false
}

var hexEsc = regexp.MustCompile(`\\x([0-9a-f]{2})`)

func unhex(s string) []byte {
	var out []byte
	for i := 0; i < len(s); {
		if s[i] == '\\' && i+3 < len(s) && s[i+1] == 'x' {
			v, _ := strconv.ParseUint(s[i+2:i+4], 16, 8)
			out = append(out, byte(v))
			i += 4
		} else {
			out = append(out, s[i])
			i++
		}
	}
	return out
}

// split the argument list of a syscall line at top-level commas (strings are hex-escaped, no commas inside)
func splitArgs(s string) []string {
	var out []string
	depth, start := 0, 0
	inStr := false
	for i := 0; i < len(s); i++ {
		switch s[i] {
		case '"':
			inStr = !inStr
		case '(', '[', '{':
			if !inStr {
				depth++
			}
		case ')', ']', '}':
			if !inStr {
				depth--
			}
		case ',':
			if !inStr && depth == 0 {
				out = append(out, strings.TrimSpace(s[start:i]))
				start = i + 1
			}
		}
	}
	out = append(out, strings.TrimSpace(s[start:]))
	return out
}

func strArg(a string) string {
	a = strings.TrimSpace(a)
	if i := strings.Index(a, `"`); i >= 0 {
		j := strings.LastIndex(a, `"`)
		if j > i {
			return string(unhex(a[i+1 : j]))
		}
	}
	return ""
}

type fdState struct {
	path string
	off  int64
	app  bool
}

// parseStrace turns the strace log into file-system events under root (plus ack/begin markers
// written by the workload to ackPath).
func parseStrace(logPath, root, ackPath string) ([]fsEvent, error) {
	f, err := os.Open(logPath)
	if err != nil {
		return nil, err
	}
	defer f.Close()
	sc := bufio.NewScanner(f)
	sc.Buffer(make([]byte, 1<<20), 1<<30)
	pending := map[string]string{}
	fds := map[int]*fdState{}
	sizes := map[string]int64{} // current logical size of files under root
	var events []fsEvent
	lineRe := regexp.MustCompile(`^(\d+)\s+(.*)$`)
	callRe := regexp.MustCompile(`^([a-z0-9_]+)\((.*)\)\s+=\s+(-?\d+|\?)(.*)$`)
	under := func(p string) bool { return p == root || strings.HasPrefix(p, root+"/") }
	for sc.Scan() {
		line := sc.Text()
		m := lineRe.FindStringSubmatch(line)
		if m == nil {
			continue
		}
		pid, rest := m[1], m[2]
		if strings.HasSuffix(rest, "<unfinished ...>") {
			pending[pid] = strings.TrimSuffix(rest, "<unfinished ...>")
			// a close takes effect when it is issued: by the time its completion is logged the number may already
			// belong to a file another thread has opened in between
			if strings.HasPrefix(rest, "close(") {
				if n, err := strconv.Atoi(strings.TrimSpace(strings.SplitN(strings.TrimSuffix(strings.TrimPrefix(strings.TrimSpace(pending[pid]), "close("), ")"), "<", 2)[0])); err == nil {
					delete(fds, n)
				}
				pending[pid] = "closed-early("
			}
			continue
		}
		if strings.HasPrefix(rest, "<... ") {
			i := strings.Index(rest, "resumed>")
			if i < 0 {
				continue
			}
			if pending[pid] == "closed-early(" {
				delete(pending, pid)
				continue
			}
			rest = pending[pid] + rest[i+len("resumed>"):]
			delete(pending, pid)
		}
		c := callRe.FindStringSubmatch(rest)
		if c == nil {
			continue
		}
		name, argstr, retS := c[1], c[2], c[3]
		ret, _ := strconv.ParseInt(retS, 10, 64)
		if retS == "?" || ret < 0 {
			continue
		}
		args := splitArgs(argstr)
		fdOf := func(a string) int {
			n, _ := strconv.Atoi(strings.TrimSpace(strings.SplitN(a, "<", 2)[0]))
			return n
		}
		// strace -y annotates every descriptor with its path: "7</dir/file>". The table of open descriptors kept here
		// (needed for the file offsets) is checked against it: two threads can close and re-open the same number between
		// the two log lines of one call, and then the annotation is right and the table is not
		annot := func(a string) string {
			a = strings.TrimSpace(a)
			i, j := strings.Index(a, "<"), strings.LastIndex(a, ">")
			if i < 0 || j < i {
				return ""
			}
			return strings.TrimSuffix(string(unhex(a[i+1:j])), " (deleted)")
		}
		lookup := func(a string) *fdState {
			st := fds[fdOf(a)]
			if p := annot(a); p != "" && filepath.IsAbs(p) {
				if st == nil || st.path != p {
					st = &fdState{path: p, off: sizes[p], app: false}
					fds[fdOf(a)] = st
				}
			}
			return st
		}
		// resolve a path argument relative to a directory descriptor argument (os.RemoveAll works that way)
		at := func(dirArg, p string) string {
			if filepath.IsAbs(p) || strings.HasPrefix(strings.TrimSpace(dirArg), "AT_FDCWD") {
				return p
			}
			if st := lookup(dirArg); st != nil {
				return filepath.Join(st.path, p)
			}
			return p
		}
		switch name {
		case "openat", "open", "creat":
			pi, fi := 1, 2
			if name == "open" {
				pi, fi = 0, 1
			} else if name == "creat" {
				pi, fi = 0, -1
			}
			p := strArg(args[pi])
			if name == "openat" {
				p = at(args[0], p)
			}
			flags := "O_CREAT|O_WRONLY|O_TRUNC"
			if fi >= 0 && fi < len(args) {
				flags = args[fi]
			}
			if !filepath.IsAbs(p) {
				continue
			}
			p = filepath.Clean(p)
			st := &fdState{path: p, app: strings.Contains(flags, "O_APPEND")}
			fds[int(ret)] = st
			if under(p) && !strings.Contains(flags, "O_DIRECTORY") {
				_, exists := sizes[p]
				if strings.Contains(flags, "O_CREAT") && !exists {
					sizes[p] = 0
					events = append(events, fsEvent{Kind: "create", Path: p})
				} else if strings.Contains(flags, "O_TRUNC") && exists && (strings.Contains(flags, "O_WRONLY") || strings.Contains(flags, "O_RDWR")) {
					sizes[p] = 0
					events = append(events, fsEvent{Kind: "truncate", Path: p, Len: 0})
				}
			}
		case "close":
			delete(fds, fdOf(args[0]))
		case "write", "pwrite64":
			st := lookup(args[0])
			if st == nil {
				continue
			}
			data := unhex(strings.Trim(strings.TrimSpace(args[1]), `"`))
			if int64(len(data)) > ret {
				data = data[:ret]
			}
			if st.path == ackPath {
				for _, l := range strings.Split(strings.TrimSpace(string(data)), "\n") {
					var op int
					if _, err := fmt.Sscanf(l, "A %d", &op); err == nil {
						events = append(events, fsEvent{Kind: "ack", Op: op})
					} else if _, err := fmt.Sscanf(l, "B %d", &op); err == nil {
						events = append(events, fsEvent{Kind: "begin", Op: op})
					}
				}
				continue
			}
			if !under(st.path) {
				continue
			}
			off := st.off
			if name == "pwrite64" {
				off, _ = strconv.ParseInt(strings.TrimSpace(args[3]), 10, 64)
			} else if st.app {
				off = sizes[st.path]
			}
			events = append(events, fsEvent{Kind: "write", Path: st.path, Off: off, Data: data})
			if name == "write" {
				st.off = off + int64(len(data))
			}
			if off+int64(len(data)) > sizes[st.path] {
				sizes[st.path] = off + int64(len(data))
			}
		case "lseek":
			st := lookup(args[0])
			if st != nil {
				st.off = ret
			}
		case "ftruncate":
			st := lookup(args[0])
			if st != nil && under(st.path) {
				n, _ := strconv.ParseInt(strings.TrimSpace(args[1]), 10, 64)
				sizes[st.path] = n
				events = append(events, fsEvent{Kind: "truncate", Path: st.path, Len: n})
			}
		case "fsync", "fdatasync":
			st := lookup(args[0])
			if st != nil && under(st.path) {
				events = append(events, fsEvent{Kind: "fsync", Path: st.path})
			}
		case "rename", "renameat", "renameat2":
			var a, b string
			if name == "rename" {
				a, b = strArg(args[0]), strArg(args[1])
			} else {
				a, b = at(args[0], strArg(args[1])), at(args[2], strArg(args[3]))
			}
			a, b = filepath.Clean(a), filepath.Clean(b)
			if under(a) || under(b) {
				events = append(events, fsEvent{Kind: "rename", Path: a, To: b})
				for p, n := range sizes {
					if p == a || strings.HasPrefix(p, a+"/") {
						delete(sizes, p)
						sizes[b+strings.TrimPrefix(p, a)] = n
					}
				}
				for _, st := range fds {
					if st.path == a || strings.HasPrefix(st.path, a+"/") {
						st.path = b + strings.TrimPrefix(st.path, a)
					}
				}
			}
		case "unlink", "unlinkat", "rmdir":
			var p string
			isDir := name == "rmdir"
			rel := false
			if name == "unlinkat" {
				rel = !strings.HasPrefix(strings.TrimSpace(args[0]), "AT_FDCWD")
				p = at(args[0], strArg(args[1]))
				isDir = len(args) > 2 && strings.Contains(args[2], "AT_REMOVEDIR")
			} else {
				p = strArg(args[0])
			}
			p = filepath.Clean(p)
			if under(p) {
				if isDir {
					events = append(events, fsEvent{Kind: "rmdir", Path: p})
				} else {
					delete(sizes, p)
					events = append(events, fsEvent{Kind: "unlink", Path: p, Rel: rel})
				}
			}
		case "mkdir", "mkdirat":
			p := strArg(args[0])
			if name == "mkdirat" {
				p = at(args[0], strArg(args[1]))
			}
			p = filepath.Clean(p)
			if under(p) {
				events = append(events, fsEvent{Kind: "mkdir", Path: p})
			}
		}
	}
	return events, nil
}

// applyEvent replays one event into the image directory (root is mapped to img)
func applyEvent(img, root string, e fsEvent) error {
	mp := func(p string) string { return filepath.Join(img, strings.TrimPrefix(p, root)) }
	switch e.Kind {
	case "create":
		f, err := os.OpenFile(mp(e.Path), os.O_CREATE|os.O_WRONLY, 0644)
		if err != nil {
			return err
		}
		return f.Close()
	case "write":
		f, err := os.OpenFile(mp(e.Path), os.O_CREATE|os.O_WRONLY, 0644)
		if err != nil {
			return err
		}
		_, err = f.WriteAt(e.Data, e.Off)
		f.Close()
		return err
	case "truncate":
		return os.Truncate(mp(e.Path), e.Len)
	case "rename":
		return os.Rename(mp(e.Path), mp(e.To))
	case "unlink":
		return os.Remove(mp(e.Path))
	case "rmdir":
		return os.Remove(mp(e.Path))
	case "mkdir":
		return os.MkdirAll(mp(e.Path), 0755)
	}
	return nil
}

func copyTree(src, dst string) error {
	return filepath.Walk(src, func(p string, info os.FileInfo, err error) error {
		if err != nil {
			return err
		}
		rel, _ := filepath.Rel(src, p)
		t := filepath.Join(dst, rel)
		if info.IsDir() {
			return os.MkdirAll(t, 0755)
		}
		b, err := os.ReadFile(p)
		if err != nil {
			return err
		}
		return os.WriteFile(t, b, 0644)
	})
}

// treeDigest: canonical listing (relative path, size, content hash) to deduplicate images
func treeDigest(dir string) string {
	var sb strings.Builder
	var paths []string
	filepath.Walk(dir, func(p string, info os.FileInfo, err error) error {
		if err == nil {
			paths = append(paths, p)
		}
		return nil
	})
	sort.Strings(paths)
	for _, p := range paths {
		rel, _ := filepath.Rel(dir, p)
		st, err := os.Stat(p)
		if err != nil {
			continue
		}
		if st.IsDir() {
			fmt.Fprintf(&sb, "D %s\n", rel)
		} else {
			b, _ := os.ReadFile(p)
			fmt.Fprintf(&sb, "F %s %d %x\n", rel, len(b), hashBytes(b))
		}
	}
	return sb.String()
}

// replayExplainsFinal: does the directory rebuilt from the traced events explain the directory the child really
// left? System calls that were in flight when the process exited complete in the kernel without a log line, so the
// real directory may hold a few more entries, longer files, or lack one entry that was being removed; anything else
// means the trace was not understood. Returns "" or the first unexplained difference.
func replayExplainsFinal(replayed, real string) string {
	missing := 0
	var bad string
	filepath.Walk(replayed, func(p string, info os.FileInfo, err error) error {
		if err != nil || bad != "" {
			return nil
		}
		rel, _ := filepath.Rel(replayed, p)
		rp := filepath.Join(real, rel)
		st, err := os.Stat(rp)
		if err != nil {
			missing++
			if missing > 1 {
				bad = rel + " is in the replayed image but not in the real directory"
			}
			if info.IsDir() {
				return filepath.SkipDir
			}
			return nil
		}
		if info.IsDir() != st.IsDir() {
			bad = rel + " differs in kind"
			return nil
		}
		if !info.IsDir() {
			a, _ := os.ReadFile(p)
			b, _ := os.ReadFile(rp)
			if len(b) < len(a) || !bytes.Equal(a, b[:len(a)]) {
				bad = fmt.Sprintf("%s: replayed %d bytes are not a prefix of the real %d bytes", rel, len(a), len(b))
			}
		}
		return nil
	})
	return bad
}

func hashBytes(b []byte) uint64 {
	var h uint64 = 1469598103934665603
	for _, c := range b {
		h ^= uint64(c)
		h *= 1099511628211
	}
	return h
}

// runTraced runs this binary with the given sub-command under strace and returns the events
// straceTrouble: the tracer itself failed (ptrace errors under load), which says nothing about the traced program
func straceTrouble(msg string) bool {
	return strings.Contains(msg, "strace: ptrace(") || strings.Contains(msg, "strace: attach") || strings.Contains(msg, "strace: Process") && strings.Contains(msg, "detached")
}

// runTraced runs a sub-command of this binary under strace. reset (may be nil) restores the directories the
// sub-command writes to; it is called before every retry after a failure of the tracer itself.
func runTraced(sub string, args interface{}, root, ackPath, logPath string, timeout time.Duration, reset ...func()) ([]fsEvent, string, error) {
	var ev []fsEvent
	var out string
	var err error
	for attempt := 0; attempt < 3; attempt++ {
		if attempt > 0 {
			for _, r := range reset {
				r()
			}
			os.Remove(logPath)
			os.Remove(ackPath)
		}
		ev, out, err = runTracedOnce(sub, args, root, ackPath, logPath, timeout)
		if err == nil || !straceTrouble(err.Error()) || len(reset) == 0 {
			return ev, out, err
		}
	}
	return ev, out, fmt.Errorf("tracer failed repeatedly: %v", err)
}

func runTracedOnce(sub string, args interface{}, root, ackPath, logPath string, timeout time.Duration) ([]fsEvent, string, error) {
	self, _ := os.Executable()
	a, _ := json.Marshal(args)
	argFile := logPath + ".args.json"
	must(os.WriteFile(argFile, a, 0644))
	defer os.Remove(argFile)
	cmd := exec.Command("strace", "-f", "-y", "-xx", "-s", "16777216", "-o", logPath,
		"-e", "trace=open,openat,creat,close,write,pwrite64,lseek,ftruncate,fsync,fdatasync,rename,renameat,renameat2,unlink,unlinkat,rmdir,mkdir,mkdirat",
		self, sub, "--args", "@"+argFile)
	var out bytes.Buffer
	cmd.Stdout, cmd.Stderr = &out, &out
	if err := cmd.Start(); err != nil {
		return nil, "", err
	}
	done := make(chan error, 1)
	go func() { done <- cmd.Wait() }()
	select {
	case err := <-done:
		if err != nil {
			return nil, out.String(), fmt.Errorf("traced child: %v: %s", err, out.String())
		}
	case <-time.After(timeout):
		cmd.Process.Kill()
		return nil, out.String(), fmt.Errorf("traced child timed out")
	}
	ev, err := parseStrace(logPath, root, ackPath)
	return ev, out.String(), err
}

// runChild runs a sub-command of this binary with a timeout; returns its stdout and whether it hung / crashed
func runChild(sub string, args interface{}, timeout time.Duration) (string, string) {
	self, _ := os.Executable()
	a, _ := json.Marshal(args)
	af, err := os.CreateTemp(os.Getenv("VERIF_TMP"), "args-*.json")
	must(err)
	af.Write(a)
	af.Close()
	defer os.Remove(af.Name())
	cmd := exec.Command(self, sub, "--args", "@"+af.Name())
	var out, errb bytes.Buffer
	cmd.Stdout, cmd.Stderr = &out, &errb
	if err := cmd.Start(); err != nil {
		return "", "start: " + err.Error()
	}
	done := make(chan error, 1)
	go func() { done <- cmd.Wait() }()
	select {
	case err := <-done:
		if err != nil {
			msg := errb.String()
			if len(msg) > 300 {
				msg = msg[:300]
			}
			return out.String(), "crashed: " + err.Error() + " " + msg
		}
		return out.String(), ""
	case <-time.After(timeout):
		cmd.Process.Kill()
		return out.String(), "hang"
	}
}

type ackWriter struct{ f *os.File }

func newAckWriter(path string) *ackWriter {
	f, err := os.OpenFile(path, os.O_CREATE|os.O_WRONLY|os.O_APPEND, 0644)
	must(err)
	return &ackWriter{f}
}
func (a *ackWriter) begin(i int) { fmt.Fprintf(a.f, "B %d\n", i) }
func (a *ackWriter) ack(i int)   { fmt.Fprintf(a.f, "A %d\n", i) }

// childArgs decodes the --args value of a sub-command ("@file" = read the JSON from that file)
func childArgs(v string, into interface{}) {
	data := []byte(v)
	if strings.HasPrefix(v, "@") {
		b, err := os.ReadFile(v[1:])
		must(err)
		data = b
	}
	must(json.Unmarshal(data, into))
}
