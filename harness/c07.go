package main

import (
	"bytes"
	"crypto/sha256"
	"encoding/hex"
	"encoding/json"
	"flag"
	"fmt"
	"math/rand"
	"os"
	"path/filepath"
	"sort"
	"strings"
	"time"

	"github.com/thomasjungblut/go-sstables/recordio"
	"github.com/thomasjungblut/go-sstables/wal"
)

type walOp struct {
	Op  string `json:"op"` // append | appendsync | rotate
	Rec []byte `json:"rec,omitempty"`
	Err string `json:"err,omitempty"`
	// a large record is given by length and seed and materialised when the program runs
	GenN    int   `json:"gen_n,omitempty"`
	GenSeed int64 `json:"gen_seed,omitempty"`
}

func (o walOp) rec() []byte {
	if o.GenN == 0 {
		return o.Rec
	}
	rec := make([]byte, o.GenN)
	rand.New(rand.NewSource(o.GenSeed)).Read(rec)
	rec[0], rec[o.GenN-1] = 0x91, byte(o.GenSeed)
	return rec
}

// squash: records above 64 KiB are kept in observations as their SHA-256
func squash(b []byte) []byte {
	if len(b) <= 64<<10 {
		return b
	}
	sum := sha256.Sum256(b)
	return append([]byte(fmt.Sprintf("sha256/%d:", len(b))), sum[:]...)
}

type walCfg struct {
	MaxSize uint64 `json:"max_size"`
	Comp    int    `json:"comp"`
	WBuf    int    `json:"wbuf"`
	// Facade: the log is driven through wal.NewWriteAheadLog with the default writer and reader factories of
	// NewWriteAheadLogOptions (Comp and WBuf are then the library's defaults)
	Facade bool `json:"facade,omitempty"`
	// Direct: the log files are written through the block-aligned direct-I/O writer (buffer WBuf, a multiple of 4096)
	Direct bool `json:"direct,omitempty"`
}

func (c walCfg) options(dir string) (*wal.Options, error) {
	if c.Facade {
		return wal.NewWriteAheadLogOptions(wal.BasePath(dir), wal.MaximumWalFileSizeBytes(c.MaxSize))
	}
	return wal.NewWriteAheadLogOptions(wal.BasePath(dir), wal.MaximumWalFileSizeBytes(c.MaxSize),
		wal.WriterFactory(func(path string) (recordio.WriterI, error) {
			if c.Direct {
				return recordio.NewFileWriter(recordio.Path(path), recordio.CompressionType(c.Comp), recordio.BufferSizeBytes(c.WBuf), recordio.DirectIO())
			}
			return recordio.NewFileWriter(recordio.Path(path), recordio.CompressionType(c.Comp), recordio.BufferSizeBytes(c.WBuf))
		}),
		wal.ReaderFactory(func(path string) (recordio.ReaderI, error) { return recordio.NewFileReaderWithPath(path) }))
}

type imgObs struct {
	Boundary int      `json:"boundary"`
	Err      string   `json:"err,omitempty"` // replay / open error, "hang", "crashed: ..."
	Recs     [][]byte `json:"recs,omitempty"`
	Acked    int      `json:"acked"`    // ops acknowledged before the boundary
	InFlight int      `json:"inflight"` // op begun but not acknowledged (-1 none)
}

type c07Case struct {
	Cfg   walCfg  `json:"cfg"`
	Ops   []walOp `json:"ops"`
	Crash bool    `json:"crash"`          // also enumerate crash images
	Cuts  bool    `json:"cuts,omitempty"` // also cut the newest file at byte lengths (every length, or around every record header for big files)
	// observations
	Files    []string `json:"files"`
	Replayed [][]byte `json:"replayed"`
	ReplErr  string   `json:"repl_err,omitempty"`
	Images   []imgObs `json:"images,omitempty"`
	Unsynced []int    `json:"unsynced,omitempty"` // AppendSync ops that returned while written bytes were not fsynced
	NEvents  int      `json:"n_events,omitempty"`
	PadBad   string   `json:"pad_bad,omitempty"` // zero padding behind the files changed what is replayed
	CutBad   string   `json:"cut_bad,omitempty"` // first byte-level cut of the newest file whose replay is not a prefix / fails
	NCuts    int      `json:"n_cuts,omitempty"`
	Fatal    string   `json:"fatal,omitempty"`
	// crash stage: lengths of the write system calls per log file, in order (file name -> lengths)
	SysWrites map[string][]int `json:"sys_writes,omitempty"`
}

func replayDir(cfg walCfg, dir string) ([][]byte, error) {
	opts, err := cfg.options(dir)
	if err != nil {
		return nil, err
	}
	rp, err := wal.NewReplayer(opts)
	if err != nil {
		return nil, err
	}
	var recs [][]byte
	err = rp.Replay(func(r []byte) error {
		recs = append(recs, squash(append([]byte{}, r...)))
		return nil
	})
	return recs, err
}

type walChildArgs struct {
	Cfg walCfg  `json:"cfg"`
	Ops []walOp `json:"ops"`
	Dir string  `json:"dir"`
	Ack string  `json:"ack"`
}

func runWalOps(cfg walCfg, ops []walOp, dir string, ack *ackWriter) error {
	opts, err := cfg.options(dir)
	if err != nil {
		return err
	}
	var a wal.WriteAheadLogAppendI
	var facade wal.WriteAheadLogI
	if cfg.Facade {
		facade, err = wal.NewWriteAheadLog(opts)
		a = facade
	} else {
		a, err = wal.NewAppender(opts)
	}
	if err != nil {
		return err
	}
	for i := range ops {
		if facade != nil && ack == nil && i == len(ops)/2 {
			// the same log object is replayed in the middle of its life (only what has reached the files by then) ...
			if err := facade.Replay(func([]byte) error { return nil }); err != nil {
				return fmt.Errorf("replay in the middle of the session: %w", err)
			}
		}
		if ack != nil {
			ack.begin(i)
		}
		var err error
		switch ops[i].Op {
		case "append":
			err = a.Append(ops[i].rec())
		case "appendsync":
			err = a.AppendSync(ops[i].rec())
		case "rotate":
			_, err = a.Rotate()
		}
		if err != nil {
			ops[i].Err = classifyErr(err)
		} else if ack != nil {
			ack.ack(i)
		}
	}
	if err := a.Close(); err != nil {
		return err
	}
	if facade != nil && ack == nil {
		// ... and again after Close: it must deliver everything that was appended, also into files created since
		n, want := 0, 0
		for _, o := range ops {
			if o.Op != "rotate" && o.Err == "" {
				want++
			}
		}
		if err := facade.Replay(func([]byte) error { n++; return nil }); err != nil {
			return fmt.Errorf("second replay through the same log object: %w", err)
		}
		if n != want {
			return fmt.Errorf("the second replay through the same log object delivered %d of %d appended records", n, want)
		}
	}
	return nil
}

func walChild(args []string) int {
	fs := flag.NewFlagSet("c07wl", flag.ExitOnError)
	in := fs.String("args", "", "json")
	_ = fs.Parse(args)
	var a walChildArgs
	childArgs(*in, &a)
	if err := runWalOps(a.Cfg, a.Ops, a.Dir, newAckWriter(a.Ack)); err != nil {
		fmt.Println("ERR", err)
		return 1
	}
	return 0
}

type walReplayArgs struct {
	Cfg walCfg `json:"cfg"`
	Dir string `json:"dir"`
}

func walReplayChild(args []string) int {
	fs := flag.NewFlagSet("c07replay", flag.ExitOnError)
	in := fs.String("args", "", "json")
	_ = fs.Parse(args)
	var a walReplayArgs
	childArgs(*in, &a)
	recs, err := replayDir(a.Cfg, a.Dir)
	out := map[string]interface{}{"recs": recs}
	if err != nil {
		out["err"] = classifyErr(err) + ": " + err.Error()
	}
	js, _ := json.Marshal(out)
	fmt.Println(string(js))
	return 0
}

func init() {
	subcommands["c07wl"] = walChild
	subcommands["c07replay"] = walReplayChild
}

func (c *c07Case) Exec() {
	defer func() {
		if r := recover(); r != nil {
			c.Fatal = fmt.Sprint("panic: ", r)
		}
	}()
	c.Fatal, c.Files, c.Replayed, c.ReplErr, c.Images, c.SysWrites = "", nil, nil, "", nil, nil
	dir := tmpDir("c07-")
	defer os.RemoveAll(dir)
	// the directory name is configuration too: pattern metacharacters must be taken literally
	wd := filepath.Join(dir, []string{"wal", "wal[shard-1]", "w?l*", "wal"}[len(c.Ops)%4])
	must(os.MkdirAll(wd, 0755))
	ops := append([]walOp{}, c.Ops...)
	if err := runWalOps(c.Cfg, ops, wd, nil); err != nil {
		c.Fatal = "close: " + err.Error()
		return
	}
	for i := range ops {
		c.Ops[i].Err = ops[i].Err
	}
	ents, _ := os.ReadDir(wd)
	for _, e := range ents {
		st, _ := e.Info()
		c.Files = append(c.Files, fmt.Sprintf("%s:%d", e.Name(), st.Size()))
	}
	sort.Strings(c.Files)
	recs, err := replayDir(c.Cfg, wd)
	c.Replayed = recs
	if err != nil {
		c.ReplErr = classifyErr(err)
	}
	if c.Cuts && err == nil {
		c.cutNewest(dir, wd, recs)
	}
	if err == nil && len(c.Files) >= 1 && !c.Crash {
		// block-aligned (direct I/O) writers pad every file with zeros up to a multiple of their buffer: a log whose
		// files end in 1, 2, 3 or 17 zero bytes replays to the same records
		c.PadBad = ""
		pd := filepath.Join(dir, "pad")
		for _, n := range []int{1, 2, 3, 17} {
			os.RemoveAll(pd)
			must(copyTree(wd, pd))
			ents, _ := os.ReadDir(pd)
			for _, e := range ents {
				f, err := os.OpenFile(filepath.Join(pd, e.Name()), os.O_APPEND|os.O_WRONLY, 0644)
				must(err)
				f.Write(make([]byte, n))
				f.Close()
			}
			got, err := replayDir(c.Cfg, pd)
			if err != nil {
				c.PadBad = fmt.Sprintf("every log file padded with %d zero bytes: replay failed: %s", n, classifyErr(err))
				break
			}
			if len(got) != len(recs) {
				c.PadBad = fmt.Sprintf("every log file padded with %d zero bytes: %d records replayed, %d without the padding", n, len(got), len(recs))
				break
			}
			for i := range got {
				if !bytes.Equal(got[i], recs[i]) {
					c.PadBad = fmt.Sprintf("every log file padded with %d zero bytes: replayed record %d differs", n, i)
				}
			}
		}
	}
	if !c.Crash {
		return
	}
	// crash images of the same program run in a child under strace
	cd := filepath.Join(dir, "crash")
	root := filepath.Join(cd, "wal")
	must(os.MkdirAll(root, 0755))
	ackPath := filepath.Join(cd, "ACK")
	events, out, err := runTraced("c07wl", walChildArgs{Cfg: c.Cfg, Ops: c.Ops, Dir: root, Ack: ackPath}, root, ackPath, filepath.Join(cd, "trace.txt"), 60*time.Second,
		func() { os.RemoveAll(root); must(os.MkdirAll(root, 0755)) })
	if err != nil && straceTrouble(err.Error()) {
		return // the tracer failed: the crash stage of this case is skipped (the program stage above stands)
	}
	if err != nil {
		c.Fatal = "trace: " + err.Error() + " " + out
		return
	}
	c.NEvents = len(events)
	img := filepath.Join(cd, "img")
	must(os.MkdirAll(img, 0755))
	acked, inflight := 0, -1
	seen := map[string]bool{}
	dirty := map[string]bool{}
	lastWritten := ""
	c.Unsynced = nil
	test := func(b int) {
		d := treeDigest(img) + fmt.Sprintf("|%d|%d", acked, inflight)
		if seen[d] {
			return
		}
		seen[d] = true
		cp := filepath.Join(cd, "cp")
		os.RemoveAll(cp)
		must(copyTree(img, cp))
		so, cerr := runChild("c07replay", walReplayArgs{Cfg: c.Cfg, Dir: cp}, 20*time.Second)
		ob := imgObs{Boundary: b, Acked: acked, InFlight: inflight}
		if cerr != "" {
			ob.Err = cerr
		} else {
			var res struct {
				Recs [][]byte `json:"recs"`
				Err  string   `json:"err"`
			}
			if json.Unmarshal([]byte(so), &res) != nil {
				ob.Err = "bad child output"
			}
			ob.Recs, ob.Err = res.Recs, res.Err
		}
		c.Images = append(c.Images, ob)
	}
	test(-1)
	for i, e := range events {
		switch e.Kind {
		case "begin":
			inflight = e.Op
			lastWritten = ""
			continue
		case "ack":
			if e.Op < len(c.Ops) && c.Ops[e.Op].Op == "appendsync" {
				// the record of this operation goes to the file written last (a size-triggered rotation
				// may first flush older asynchronous appends into the previous file): it must have been fsynced
				if lastWritten == "" || dirty[lastWritten] {
					c.Unsynced = append(c.Unsynced, e.Op)
				}
			}
			acked = e.Op + 1
			inflight = -1
			continue
		case "write":
			dirty[e.Path] = true
			lastWritten = e.Path
			if c.SysWrites == nil {
				c.SysWrites = map[string][]int{}
			}
			c.SysWrites[filepath.Base(e.Path)] = append(c.SysWrites[filepath.Base(e.Path)], len(e.Data))
		case "fsync":
			dirty[e.Path] = false
		case "unlink":
			delete(dirty, e.Path)
		}
		if !e.mutating() {
			continue
		}
		if err := applyEvent(img, root, e); err != nil {
			c.Fatal = fmt.Sprintf("replaying event %d (%s %s): %v", i, e.Kind, e.Path, err)
			return
		}
		test(i)
	}
	if replayExplainsFinal(img, root) != "" {
		// the traced events do not reproduce the directory the child left: the trace was not understood, nothing
		// follows from its images
		c.Images, c.Unsynced, c.SysWrites = nil, nil, nil
	}
}

func (c *c07Case) appended() ([][]byte, []bool) {
	var recs [][]byte
	var sync []bool
	for _, o := range c.Ops {
		if o.Op == "rotate" || o.Err != "" {
			continue
		}
		r := squash(o.rec())
		if r == nil {
			r = []byte{}
		}
		recs = append(recs, r)
		sync = append(sync, o.Op == "appendsync")
	}
	return recs, sync
}

// cutNewest: the newest WAL file cut at byte lengths - what a kill can leave when the record bytes reach the file in
// arbitrary pieces; the replay must succeed and deliver a prefix of the full replay
func (c *c07Case) cutNewest(dir, wd string, full [][]byte) {
	c.CutBad, c.NCuts = "", 0
	ents, _ := os.ReadDir(wd)
	if len(ents) == 0 {
		return
	}
	var names []string
	for _, e := range ents {
		names = append(names, e.Name())
	}
	sort.Strings(names)
	newest := names[len(names)-1]
	data, _ := os.ReadFile(filepath.Join(wd, newest))
	cd := filepath.Join(dir, "cut")
	must(copyTree(wd, cd))
	var lens []int
	if len(data) <= 600 {
		for n := 0; n <= len(data); n++ {
			lens = append(lens, n)
		}
	} else {
		// around every occurrence of the record marker (all header bytes) and a sample of other positions
		seen := map[int]bool{}
		for i := 0; i+2 < len(data); i++ {
			if data[i] == 0x91 && data[i+1] == 0x8d && data[i+2] == 0x4c {
				for n := i - 2; n <= i+24; n++ {
					if n >= 0 && n <= len(data) && !seen[n] {
						seen[n] = true
						lens = append(lens, n)
					}
				}
			}
		}
		for n := 0; n <= len(data); n += 1 + len(data)/97 {
			if !seen[n] {
				lens = append(lens, n)
			}
		}
	}
	for _, n := range lens {
		must(os.WriteFile(filepath.Join(cd, newest), data[:n], 0644))
		got, err := replayDir(c.Cfg, cd)
		c.NCuts++
		if err != nil {
			c.CutBad = fmt.Sprintf("newest file %s cut at %d of %d bytes: replay failed: %s", newest, n, len(data), classifyErr(err))
			return
		}
		if len(got) > len(full) {
			c.CutBad = fmt.Sprintf("newest file cut at %d bytes: more records than in the whole log", n)
			return
		}
		for i := range got {
			if !bytes.Equal(got[i], full[i]) {
				c.CutBad = fmt.Sprintf("newest file cut at %d bytes: replayed record %d is not the appended one", n, i)
				return
			}
		}
	}
}

func (c *c07Case) Oracle() (bool, string) {
	if c.Fatal != "" {
		return false, c.Fatal
	}
	if c.CutBad != "" {
		return false, c.CutBad
	}
	if c.PadBad != "" {
		return false, c.PadBad
	}
	for i, o := range c.Ops {
		if o.Err != "" {
			return false, fmt.Sprintf("op %d (%s) failed: %s", i, o.Op, o.Err)
		}
	}
	want, _ := c.appended()
	if c.ReplErr != "" {
		return false, "replay of the closed log failed: " + c.ReplErr
	}
	if len(c.Replayed) != len(want) {
		return false, fmt.Sprintf("replay delivered %d records, %d were appended", len(c.Replayed), len(want))
	}
	for i := range want {
		if !bytes.Equal(want[i], c.Replayed[i]) {
			return false, fmt.Sprintf("replayed record %d differs or is out of order", i)
		}
	}
	if len(c.Unsynced) > 0 {
		return false, fmt.Sprintf("AppendSync (op %d) returned although bytes it wrote had not been fsynced", c.Unsynced[0])
	}
	// crash images: replay succeeds, delivers a prefix that contains every acknowledged synchronous record
	for _, im := range c.Images {
		if im.Err != "" {
			return false, fmt.Sprintf("crash image after event %d (acked %d ops, in flight %d): replay failed: %s", im.Boundary, im.Acked, im.InFlight, im.Err)
		}
		if len(im.Recs) > len(want) {
			return false, fmt.Sprintf("crash image after event %d: more records than were appended", im.Boundary)
		}
		for i := range im.Recs {
			if !bytes.Equal(im.Recs[i], want[i]) {
				return false, fmt.Sprintf("crash image after event %d: record %d is not the appended one (not a prefix)", im.Boundary, i)
			}
		}
		// last acknowledged synchronous append
		need, n := 0, 0
		for oi, o := range c.Ops {
			if o.Op == "rotate" {
				continue
			}
			n++
			if oi < im.Acked && o.Op == "appendsync" {
				need = n
			}
		}
		if len(im.Recs) < need {
			return false, fmt.Sprintf("crash image after event %d: %d records replayed but %d were covered by a returned AppendSync", im.Boundary, len(im.Recs), need)
		}
	}
	return true, ""
}

func (c *c07Case) Sx() string {
	if c.Fatal != "" || c.Cfg.Comp != 0 || c.Cfg.Direct {
		return "" // (direct-I/O files end in zero padding that the file model does not contain: oracle only)
	}
	for _, o := range c.Ops {
		if o.GenN > 0 {
			return "" // megabyte records are judged by the oracle only
		}
	}
	var ops, files, recs []string
	for _, o := range c.Ops {
		switch o.Op {
		case "rotate":
			ops = append(ops, "(n1)")
		default:
			ops = append(ops, sxL("n0", sxB(o.Rec)))
		}
	}
	for _, f := range c.Files {
		parts := strings.Split(f, ":")
		var num, size uint64
		fmt.Sscanf(strings.TrimSuffix(parts[0], ".wal"), "%d", &num)
		fmt.Sscanf(parts[1], "%d", &size)
		files = append(files, sxL(sxN(num), sxN(size)))
	}
	for _, r := range c.Replayed {
		recs = append(recs, sxB(r))
	}
	if c.Crash && len(c.SysWrites) > 0 && !c.Cfg.Facade {
		// the traced session: buffer size, one flag per append, and the write system calls of every log file
		var syncs, writes []string
		for _, o := range c.Ops {
			if o.Op != "rotate" {
				syncs = append(syncs, sxBool(o.Op == "appendsync"))
			}
		}
		var names []string
		for n := range c.SysWrites {
			names = append(names, n)
		}
		sort.Strings(names)
		for _, n := range names {
			var num uint64
			fmt.Sscanf(strings.TrimSuffix(n, ".wal"), "%d", &num)
			var lens []string
			for _, l := range c.SysWrites[n] {
				lens = append(lens, sxI(l))
			}
			writes = append(writes, sxL(sxN(num), sxList(lens)))
		}
		return sxL(sxN(c.Cfg.MaxSize), sxList(ops), sxList(files), sxList(recs), sxL(sxI(c.Cfg.WBuf), sxList(syncs), sxList(writes)))
	}
	return sxL(sxN(c.Cfg.MaxSize), sxList(ops), sxList(files), sxList(recs))
}

func (c *c07Case) Evals() int { return 1 + len(c.Images) }
func (c *c07Case) Nontrivial() bool {
	rot := 0
	for _, f := range c.Files {
		_ = f
		rot++
	}
	return len(c.Ops) >= 3 && rot >= 2
}
func (c *c07Case) Kind() string {
	k := fmt.Sprintf("comp=%d/wbuf=%d", c.Cfg.Comp, c.Cfg.WBuf)
	if c.Cfg.Facade {
		k = "facade-defaults"
	}
	if c.Cfg.Direct {
		k += "/direct"
	}
	if c.Crash {
		k += "/crash"
	}
	return k
}

func genC07(r *rand.Rand, tier string) []Case {
	n, ncrash := 100, 4
	if tier == "thorough" {
		n, ncrash = 3000, 60
	}
	var cases []Case
	for i := 0; i < n; i++ {
		c := &c07Case{Cfg: walCfg{MaxSize: []uint64{9, 30, 100, 1000, 1 << 20}[r.Intn(5)], Comp: []int{0, 0, 2}[r.Intn(3)], WBuf: []int{1, 16, 64, 4096, 4 << 20}[r.Intn(5)]}}
		c.Crash = i < ncrash
		c.Cuts = i%4 == 1
		if i%7 == 5 || (c.Crash && i%4 == 3) {
			c.Cfg.Facade, c.Cfg.Comp = true, 0
		}
		nops := 1 + r.Intn(40)
		if c.Crash {
			nops = 3 + r.Intn(10)
			if !c.Cfg.Facade {
				c.Cfg.WBuf = []int{16, 64, 4096}[i%3]
			}
			c.Cfg.MaxSize = []uint64{60, 200, 1 << 20}[i%3]
		}
		for j := 0; j < nops; j++ {
			switch x := r.Intn(10); {
			case x == 0:
				c.Ops = append(c.Ops, walOp{Op: "rotate"})
			default:
				op := walOp{Op: []string{"append", "appendsync"}[r.Intn(2)]}
				switch r.Intn(6) {
				case 0:
					op.Rec = []byte{}
				case 1:
					op.Rec = bytes.Repeat([]byte{byte(j)}, 100+r.Intn(200)) // larger than small limits and buffers
					if c.Cuts && r.Intn(3) == 0 {
						// a length whose varint has a bare continuation byte (0x80) in the middle
						op.Rec = make([]byte, 16384+r.Intn(120))
						r.Read(op.Rec)
					}
				default:
					op.Rec = advPayload(r, 20)
				}
				c.Ops = append(c.Ops, op)
			}
		}
		if c.Crash {
			// what Rotate and Close do with a tail that is still in the write buffer and begins in the middle of a record
			// (record lengths just above the buffer size and just above half of it leave such a tail)
			wb := c.Cfg.WBuf
			if c.Cfg.Facade {
				wb = 64
			}
			c.Ops = append(c.Ops, walOp{Op: "append", Rec: bytes.Repeat([]byte{0xa0 + byte(i)}, wb+3)}, walOp{Op: "append", Rec: bytes.Repeat([]byte{0xc0 + byte(i)}, wb/2+5)}, walOp{Op: "rotate"},
				walOp{Op: "append", Rec: bytes.Repeat([]byte{0xb0 + byte(i)}, wb/2+5)}, walOp{Op: "append", Rec: bytes.Repeat([]byte{0xd0 + byte(i)}, wb+3)})
		}
		cases = append(cases, c)
	}
	// logs written through the direct-I/O writer: several buffers per file (the buffer is reused after each aligned
	// flush), records of up to half a buffer, rotations by size and forced
	if dioAvailable {
		for i := 0; i < 3; i++ {
			c := &c07Case{Cfg: walCfg{MaxSize: []uint64{30000, 9000, 1 << 20}[i], Comp: []int{0, 2, 0}[i], WBuf: []int{4096, 4096, 8192}[i], Direct: true}}
			for j := 0; j < 30+r.Intn(30); j++ {
				rec := make([]byte, 1+r.Intn(1800))
				r.Read(rec)
				c.Ops = append(c.Ops, walOp{Op: "append", Rec: rec})
				if r.Intn(15) == 0 {
					c.Ops = append(c.Ops, walOp{Op: "rotate"})
				}
			}
			cases = append(cases, c)
		}
	}
	// records around the size classes of the readers' buffer pool and beyond the default write buffer
	for i := 0; i < 2; i++ {
		c := &c07Case{Cfg: walCfg{MaxSize: []uint64{1 << 20, 64 << 20}[i], Comp: 0, WBuf: 4 << 20, Facade: i == 1}}
		for j, n := range []int{100, 512<<10 + 1, 1 << 20, 1<<20 + 1, 3, 4<<20 + 100, 2<<20 + 7} {
			c.Ops = append(c.Ops, walOp{Op: []string{"append", "appendsync"}[(i+j)%2], GenN: n, GenSeed: int64(j + 1)})
		}
		cases = append(cases, c)
	}
	return cases
}

func init() {
	register(&Prop{
		ID: "C07", Num: 7,
		Gen:  genC07,
		New:  func() Case { return &c07Case{} },
		Rule: "logs of 1-40 Append/AppendSync/Rotate operations (empty records, records larger than the file size limit and the write buffer, marker bytes), maximum file sizes {9,30,100,1000,1Mi}, write buffers {1,16,64,4096,4Mi}, compression none/snappy, and a seventh of the logs through the wal.NewWriteAheadLog facade with its default factories; the closed log is replayed; a few programs (4 quick, 60 thorough) additionally run in a child under strace and the real replayer runs on the directory image of EVERY boundary between two mutating system calls. Non-trivial: >=3 operations and >=2 files.",
	})
	_ = hex.EncodeToString
}
