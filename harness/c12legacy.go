package main

import (
	"bytes"
	"encoding/json"
	"fmt"
	"io"
	"os"
	"path/filepath"

	"github.com/thomasjungblut/go-sstables/recordio"
)

// ---- C12, files of the older format versions (the fixtures under recordio/test_files/v1..v3_compat, which the readers
// still accept): whatever length such a file is cut to, both readers return only records of the uncut file, in order

type c12Legacy struct {
	File string `json:"file"` // relative to recordio/test_files
	// observations
	NRecs int    `json:"n_recs"`
	NCuts int    `json:"n_cuts"`
	Bad   string `json:"bad,omitempty"`
	Fatal string `json:"fatal,omitempty"`
}

func (c *c12Legacy) Exec() {
	defer func() {
		if r := recover(); r != nil {
			c.Fatal = fmt.Sprint("panic: ", r)
		}
	}()
	c.Fatal, c.Bad, c.NRecs, c.NCuts = "", "", 0, 0
	data, err := os.ReadFile(filepath.Join(repoRoot, "recordio", "test_files", c.File))
	must(err)
	dir := tmpDir("c12l-")
	defer os.RemoveAll(dir)
	full := filepath.Join(dir, "full.rio")
	must(os.WriteFile(full, data, 0644))
	// reference: the records of the uncut file (sequential reader) and their offsets (chain of SeekNext)
	var ref [][]byte
	var refNil []bool
	for _, r := range readAllSeq(full, 4096, false, 100000) {
		if r.Err != "" {
			break
		}
		ref = append(ref, r.Data)
		refNil = append(refNil, r.Nil)
	}
	c.NRecs = len(ref)
	var offs []uint64
	if m, err := openMmap(full, 0); err == nil {
		pos := uint64(8)
		for len(offs) < len(ref) {
			o, _, err := m.SeekNext(pos)
			if err != nil {
				break
			}
			offs = append(offs, o)
			pos = o + 1
		}
		m.Close()
	}
	if len(offs) != len(ref) {
		offs = nil // payloads with marker bytes: the random-access part is skipped for this fixture
	}
	seen := map[int]bool{}
	var lens []int
	add := func(n int) {
		if n >= 0 && n <= len(data) && !seen[n] {
			seen[n] = true
			lens = append(lens, n)
		}
	}
	if len(data) <= 700 {
		for n := 0; n <= len(data); n++ {
			add(n)
		}
	} else {
		for _, o := range offs {
			for d := -2; d <= 14; d++ {
				add(int(o) + d)
			}
		}
		for n := 0; n <= len(data); n += 1 + len(data)/53 {
			add(n)
		}
	}
	cut := filepath.Join(dir, "cut.rio")
	for _, n := range lens {
		must(os.WriteFile(cut, data[:n], 0644))
		c.NCuts++
		k := 0
		for _, r := range readAllSeq(cut, 4096, false, len(ref)+2) {
			if r.Err != "" {
				break
			}
			if k >= len(ref) || r.Nil != refNil[k] || !bytes.Equal(r.Data, ref[k]) {
				c.Bad = fmt.Sprintf("%s cut at %d of %d bytes: the sequential reader returned as record %d something the uncut file does not hold there", c.File, n, len(data), k)
				return
			}
			k++
		}
		if offs == nil || n < 8 {
			continue
		}
		m, err := openMmap(cut, 0)
		if err != nil {
			continue
		}
		for i, o := range offs {
			b, err := m.ReadNextAt(o)
			if err != nil {
				continue
			}
			if (b == nil) != refNil[i] || !bytes.Equal(b, ref[i]) {
				c.Bad = fmt.Sprintf("%s cut at %d of %d bytes: ReadNextAt(%d) returned %d bytes without error, record %d of the uncut file has %d", c.File, n, len(data), o, len(b), i, len(ref[i]))
				m.Close()
				return
			}
		}
		m.Close()
	}
}

func (c *c12Legacy) Oracle() (bool, string) {
	if c.Fatal != "" {
		return false, c.Fatal
	}
	if c.Bad != "" {
		return false, c.Bad
	}
	return true, ""
}
func (c *c12Legacy) Sx() string       { return "" }
func (c *c12Legacy) Nontrivial() bool { return c.NRecs >= 1 && c.NCuts >= 10 }
func (c *c12Legacy) Kind() string     { return "legacy/" + filepath.Dir(c.File) }
func (c *c12Legacy) Evals() int       { return c.NCuts }

var _ = io.EOF
var _ = recordio.CompressionTypeNone

// C12's cases: files of the current writer, and fixtures of the older versions
type c12Any struct {
	Cur    *c12Case   `json:"cur,omitempty"`
	Legacy *c12Legacy `json:"legacy,omitempty"`
}

func (c *c12Any) inner() Case {
	if c.Legacy != nil {
		return c.Legacy
	}
	return c.Cur
}
func (c *c12Any) Exec()                  { c.inner().Exec() }
func (c *c12Any) Oracle() (bool, string) { return c.inner().Oracle() }
func (c *c12Any) Sx() string             { return c.inner().Sx() }
func (c *c12Any) Nontrivial() bool       { return c.inner().Nontrivial() }
func (c *c12Any) Kind() string           { return c.inner().Kind() }
func (c *c12Any) Evals() int {
	if c.Legacy != nil {
		return c.Legacy.Evals()
	}
	return c.Cur.Evals()
}

// a replay file written before the wrapper existed holds a bare case of the current format
func (c *c12Any) UnmarshalJSON(data []byte) error {
	var probe map[string]json.RawMessage
	if err := json.Unmarshal(data, &probe); err != nil {
		return err
	}
	_, hasCur := probe["cur"]
	_, hasLegacy := probe["legacy"]
	if hasCur || hasLegacy {
		type plain c12Any
		return json.Unmarshal(data, (*plain)(c))
	}
	c.Cur = &c12Case{}
	return json.Unmarshal(data, c.Cur)
}
