package main

import (
	"bytes"
	"errors"
	"os"
	"path/filepath"

	rProto "github.com/thomasjungblut/go-sstables/recordio/proto"
	"github.com/thomasjungblut/go-sstables/skiplist"
	"github.com/thomasjungblut/go-sstables/sstables"
	sproto "github.com/thomasjungblut/go-sstables/sstables/proto"
	"google.golang.org/protobuf/proto"
)

func init() {
	errClassifiers = append(errClassifiers, func(err error) string {
		switch {
		case errors.Is(err, sstables.NotFound) || errors.Is(err, skiplist.NotFound):
			return "NotFound"
		case errors.Is(err, sstables.ChecksumError{}):
			return "ValueChecksum"
		}
		return ""
	})
}

type tblKV struct {
	K   []byte `json:"k"`
	V   []byte `json:"v,omitempty"`
	Nil bool   `json:"nil,omitempty"`
}

func (kv tblKV) val() []byte {
	if kv.Nil {
		return nil
	}
	if kv.V == nil {
		return []byte{}
	}
	return kv.V
}

type tblOpts struct {
	IndexComp int     `json:"icomp"`
	DataComp  int     `json:"dcomp"`
	BloomN    uint64  `json:"bloom_n"`
	BloomP    float64 `json:"bloom_p"`
	WBuf      int     `json:"wbuf"`
	Rev       bool    `json:"rev,omitempty"` // keys are ordered by the reverse of the bytewise order
}

// revBytesCmp: a comparator whose order differs from the bytewise one everywhere
type revBytesCmp struct{}

func (revBytesCmp) Compare(a, b []byte) int { return bytes.Compare(b, a) }

func keyCmpFor(rev bool) skiplist.Comparator[[]byte] {
	if rev {
		return revBytesCmp{}
	}
	return skiplist.BytesComparator{}
}

func (o tblOpts) writerOptions(dir string) []sstables.WriterOption {
	return []sstables.WriterOption{sstables.WriteBasePath(dir), sstables.WithKeyComparator(keyCmpFor(o.Rev)),
		sstables.IndexCompressionType(o.IndexComp), sstables.DataCompressionType(o.DataComp),
		sstables.BloomExpectedNumberOfElements(o.BloomN), sstables.BloomFalsePositiveProbability(o.BloomP),
		sstables.WriteBufferSizeBytes(o.WBuf)}
}

// scratchCopy keeps nil nil and empty empty
func scratchCopy(b []byte) []byte {
	if b == nil {
		return nil
	}
	return append(make([]byte, 0, len(b)), b...)
}
func scribble(b []byte) {
	for i := range b {
		b[i] = 0xff
	}
}

// writeTable writes kvs through the stream writer; returns the per-call error names
func writeTable(dir string, o tblOpts, kvs []tblKV) ([]string, error) {
	w, err := sstables.NewSSTableStreamWriter(o.writerOptions(dir)...)
	if err != nil {
		return nil, err
	}
	if err := w.Open(); err != nil {
		return nil, err
	}
	var errs []string
	for _, kv := range kvs {
		kb, vb := scratchCopy(kv.K), scratchCopy(kv.val())
		e := w.WriteNext(kb, vb)
		scribble(kb) // a streaming caller reuses its buffers
		scribble(vb)
		if e != nil {
			errs = append(errs, "Rejected")
		} else {
			errs = append(errs, "")
		}
	}
	return errs, w.Close()
}

func writeTableSkipList(dir string, o tblOpts, kvs []tblKV) error {
	m := skiplist.NewSkipListMap[[]byte, []byte](skiplist.BytesComparator{})
	for i := len(kvs) - 1; i >= 0; i-- { // insertion order must not matter
		m.Insert(kvs[i].K, kvs[i].val())
	}
	opts := o.writerOptions(dir)
	w, err := sstables.NewSSTableSimpleWriter(opts...)
	if err != nil {
		return err
	}
	return w.WriteSkipListMap(m)
}

func loaderFor(name string, rbuf int) sstables.IndexLoader {
	switch name {
	case "slice":
		return &sstables.SliceKeyIndexLoader{ReadBufferSize: rbuf}
	case "skiplist":
		return &sstables.SkipListIndexLoader{KeyComparator: skiplist.BytesComparator{}, ReadBufferSize: rbuf}
	case "map4":
		return &sstables.MapKeyIndexLoader[[4]byte]{ReadBufferSize: rbuf, Mapper: &sstables.Byte4KeyMapper{}}
	case "map20":
		return &sstables.MapKeyIndexLoader[[20]byte]{ReadBufferSize: rbuf, Mapper: &sstables.Byte20KeyMapper{}}
	case "disk":
		return &sstables.DiskIndexLoader{}
	}
	return nil
}

type scanOut struct {
	KVs []tblKV `json:"kvs"`
	Err string  `json:"err,omitempty"` // error that ended the scan ("" = Done)
}

func drainTable(it sstables.SSTableIteratorI, err error, limit int) scanOut {
	if err != nil {
		return scanOut{Err: "Open:" + classifyErr(err)}
	}
	var out scanOut
	// the returned slices are retained until the scan is over and copied only then: an iterator
	// that hands out a reused buffer would show up as altered earlier results
	var ks, vs [][]byte
	for i := 0; i < limit; i++ {
		k, v, err := it.Next()
		if err != nil {
			if !errors.Is(err, sstables.Done) {
				out.Err = classifyErr(err)
				break
			}
			// an exhausted iterator stays exhausted: what it hands out when asked again counts as part of the scan
			for again := 0; again < 2; again++ {
				if k2, v2, err2 := it.Next(); err2 == nil {
					ks, vs = append(ks, k2), append(vs, v2)
				}
			}
			break
		}
		ks, vs = append(ks, k), append(vs, v)
		if i == limit-1 {
			out.Err = "Limit"
		}
	}
	for i := range ks {
		out.KVs = append(out.KVs, tblKV{K: append([]byte{}, ks[i]...), V: append([]byte{}, vs[i]...), Nil: vs[i] == nil})
	}
	return out
}

func sxTblKV(kv tblKV) string { return sxL(sxB(kv.K), sxOBn(kv.V, kv.Nil)) }
func sxTblKVs(l []tblKV) string {
	var xs []string
	for _, kv := range l {
		xs = append(xs, sxTblKV(kv))
	}
	return sxList(xs)
}
func (s scanOut) sx() string {
	if s.Err == "" {
		return sxL(sxTblKVs(s.KVs), "()")
	}
	name := s.Err
	if len(name) > 5 && name[:5] == "Open:" {
		name = "Rejected"
	}
	if _, ok := errCodes[name]; !ok {
		name = "Other"
	}
	return sxL(sxTblKVs(s.KVs), sxL(sxErr(name)))
}

func readFileOr(dir, name string) []byte {
	b, _ := os.ReadFile(filepath.Join(dir, name))
	return b
}

type metaOut struct {
	NumRecords uint64 `json:"num"`
	NullValues uint64 `json:"nulls"`
	MinKey     []byte `json:"min"`
	MaxKey     []byte `json:"max"`
	DataBytes  uint64 `json:"data_bytes"`
	IndexBytes uint64 `json:"index_bytes"`
	TotalBytes uint64 `json:"total_bytes"`
	Version    uint32 `json:"version"`
}

func metaOf(m *sproto.MetaData) metaOut {
	return metaOut{m.NumRecords, m.NullValues, m.MinKey, m.MaxKey, m.DataBytes, m.IndexBytes, m.TotalBytes, m.Version}
}

// compressor oracle tables for a table directory: index payloads are the marshalled index entries
func indexEntries(dir string) [][]byte {
	var out [][]byte
	r, err := rProto.NewReader(rProto.ReaderPath(filepath.Join(dir, sstables.IndexFileName)))
	if err != nil {
		return nil
	}
	if r.Open() != nil {
		return nil
	}
	defer r.Close()
	for {
		e := &sproto.IndexEntry{}
		if _, err := r.ReadNext(e); err != nil {
			break
		}
		b, _ := proto.Marshal(e)
		if b == nil {
			b = []byte{}
		}
		out = append(out, b)
	}
	return out
}

func compTable(comp int, payloads [][]byte) string {
	if comp == 0 {
		return "()"
	}
	seen := map[string]bool{}
	var xs []string
	add := func(b []byte) {
		if !seen[string(b)] {
			seen[string(b)] = true
			xs = append(xs, sxL(sxB(b), sxB(compressBytes(comp, b))))
		}
	}
	add([]byte{})
	for _, p := range payloads {
		add(p)
	}
	return sxList(xs)
}

func sxMeta(m metaOut) string {
	return sxL(sxN(m.NumRecords), sxN(m.NullValues), sxB(m.MinKey), sxB(m.MaxKey), sxN(m.DataBytes), sxN(m.IndexBytes))
}

func sxLoader(name string, seekLen int) string {
	switch name {
	case "slice":
		return "(n0)"
	case "skiplist":
		return "(n1)"
	case "map4":
		return "(n2 n4)"
	case "map20":
		return "(n2 n20)"
	}
	if seekLen == 0 {
		seekLen = 4096
	}
	return sxL("n3", sxI(seekLen))
}

func valuesOf(kvs []tblKV) [][]byte {
	var out [][]byte
	for _, kv := range kvs {
		if !kv.Nil {
			out = append(out, kv.val())
		}
	}
	return out
}

func sxRes(ok string, err string) string {
	if err != "" {
		if _, known := errCodes[err]; !known {
			err = "Other"
		}
		return sxErrRes(err)
	}
	return sxOk(ok)
}
