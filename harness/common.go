package main

import (
	"crypto/sha256"
	"encoding/hex"
	"encoding/json"
	"errors"
	"fmt"
	"io"
	"math/rand"
	"os"
	"path/filepath"
	"sort"
	"strconv"
	"strings"
)

// Case is one generated input together with what the implementation did on it.
type Case interface {
	Exec()                  // run on the implementation, fill the observation fields
	Oracle() (bool, string) // model-independent property oracle over the observation
	Sx() string             // s-expression of the case incl. observations ("" = not compared with the model)
	Nontrivial() bool
	Kind() string // histogram bucket
}

// Prop bundles what the driver needs for one property.
type Prop struct {
	ID       string
	Gen      func(r *rand.Rand, tier string) []Case
	New      func() Case                     // for decoding a replay file
	Num      int                             // property number used by Corr/All.v check_by_id
	Classify func(c Case, msg string) string // known-finding classifier id ("" = unclassified)
	Rule     string
	Shrink   func(c Case) []Case
}

var props = map[string]*Prop{}

func register(p *Prop) { props[p.ID] = p }

// ---- s-expression helpers (syntax parsed by runner/driver.ml into Base/Sx.v's sx)

func sxB(b []byte) string { return "x" + hex.EncodeToString(b) }

// option bytes: nil -> (), non-nil -> (x..)
func sxOB(b []byte) string {
	if b == nil {
		return "()"
	}
	return "(" + sxB(b) + ")"
}
func sxN(n uint64) string { return fmt.Sprintf("n%d", n) }
func sxI(n int) string {
	if n < 0 {
		panic("negative number in sx")
	}
	return fmt.Sprintf("n%d", n)
}
func sxBool(b bool) string {
	if b {
		return "n1"
	}
	return "n0"
}
func sxL(xs ...string) string   { return "(" + strings.Join(xs, " ") + ")" }
func sxList(xs []string) string { return "(" + strings.Join(xs, " ") + ")" }
func sxOpt(s string, some bool) string {
	if !some {
		return "()"
	}
	return "(" + s + ")"
}

var errCodes = map[string]int{"EOF": 1, "UnexpectedEOF": 2, "MagicMismatch": 3, "HeaderChecksum": 4, "ValueChecksum": 5,
	"Decompress": 6, "NotFound": 7, "Rejected": 8, "Overflow": 9, "OutOfFuel": 10, "Other": 11, "WrappedEOF": 12}

func sxErr(name string) string    { return sxI(errCodes[name]) }
func sxOk(s string) string        { return "(n0 " + s + ")" }
func sxErrRes(name string) string { return "(n1 " + sxErr(name) + ")" }

// ---- error enum shared with Base/Bytes.v

func errName(err error) string {
	if err == nil {
		return ""
	}
	return classifyErr(err)
}

var errClassifiers []func(error) string

func classifyErr(err error) string {
	for _, f := range errClassifiers {
		if s := f(err); s != "" {
			return s
		}
	}
	if errors.Is(err, io.ErrUnexpectedEOF) {
		return "UnexpectedEOF"
	}
	if strings.Contains(err.Error(), "varint overflows a 64-bit integer") {
		return "Overflow"
	}
	if errors.Is(err, io.EOF) {
		return "EOF"
	}
	return "Other"
}

// ---- run a property

type runSummary struct {
	Property    string                 `json:"property"`
	Tier        string                 `json:"tier"`
	Seed        int64                  `json:"seed"`
	Evaluations int                    `json:"evaluations"`
	Cases       int                    `json:"cases"`
	Distinct    int                    `json:"distinct_nontrivial"`
	Kinds       map[string]int         `json:"kinds"`
	ModelCases  int                    `json:"model_cases"`
	SxIndex     []int                  `json:"sx_index"` // line of cases.sx -> case id
	OracleFails []oracleFail           `json:"oracle_fails"`
	Samples     []json.RawMessage      `json:"samples"`
	Extra       map[string]interface{} `json:"extra,omitempty"`
}

type oracleFail struct {
	CaseID  int    `json:"case_id"`
	Msg     string `json:"msg"`
	Finding string `json:"finding"`
	File    string `json:"file"`
}

func runProp(p *Prop, tier string, seed int64, outDir string, corpusDir string) error {
	r := rand.New(rand.NewSource(seed))
	var cases []Case
	// corpus first
	if corpusDir != "" {
		files, _ := filepath.Glob(filepath.Join(corpusDir, p.ID+"_*.json"))
		sort.Strings(files)
		for _, f := range files {
			c, err := loadCase(p, f)
			if err == nil {
				cases = append(cases, c)
			} else {
				fmt.Fprintf(os.Stderr, "corpus %s: %v\n", f, err)
			}
		}
	}
	cases = append(cases, p.Gen(r, tier)...)
	sum := runSummary{Property: p.ID, Tier: tier, Seed: seed, Kinds: map[string]int{}, Extra: map[string]interface{}{}}
	seen := map[string]bool{}
	jl, err := os.Create(filepath.Join(outDir, "cases.jsonl"))
	if err != nil {
		return err
	}
	defer jl.Close()
	sxf, err := os.Create(filepath.Join(outDir, "cases.sx"))
	if err != nil {
		return err
	}
	defer sxf.Close()
	var sxIDs []int
	unclassified := 0
	sxBytes := 0
	const sxBudget = 400 << 20
	for i, c := range cases {
		pmsg := safeExec(c)
		ok, msg := false, pmsg
		if pmsg == "" {
			ok, msg = c.Oracle()
		}
		js, _ := json.Marshal(c)
		fmt.Fprintf(jl, "%s\n", js)
		if ev, ok := c.(interface{ Evals() int }); ok {
			sum.Evaluations += ev.Evals()
		} else {
			sum.Evaluations++
		}
		sum.Cases++
		sum.Kinds[c.Kind()]++
		if c.Nontrivial() {
			h := sha256.Sum256(js)
			k := hex.EncodeToString(h[:8])
			if !seen[k] {
				seen[k] = true
				sum.Distinct++
			}
		}
		if len(sum.Samples) < 3 && c.Nontrivial() && len(js) < 4000 {
			sum.Samples = append(sum.Samples, js)
		}
		if !ok {
			f := filepath.Join(outDir, fmt.Sprintf("fail_%d.json", i))
			fin := ""
			if p.Classify != nil && pmsg == "" {
				fin = p.Classify(c, msg)
			}
			cc := c
			if fin == "" {
				unclassified++
			}
			// only the first failing inputs are minimised (the driver keeps three replays)
			if p.Shrink != nil && fin == "" && pmsg == "" && unclassified <= 3 && os.Getenv("VERIF_NO_SHRINK") == "" {
				cc = shrinkCase(p, c, msg)
				_, msg = cc.Oracle()
			}
			writeReplay(f, p.ID, "failing-input", cc, msg, "")
			sum.OracleFails = append(sum.OracleFails, oracleFail{CaseID: i, Msg: msg, Finding: fin, File: f})
			// regression runs over seeded changes only ask whether anything fails (tools/seedregress.sh)
			if n, _ := strconv.Atoi(os.Getenv("VERIF_STOP_AFTER_FAILS")); n > 0 && unclassified >= n {
				break
			}
		}
		if pmsg != "" {
			continue
		}
		// the model runs on at most sxBudget bytes of cases per check (the oracle above judges every case)
		if sxBytes < sxBudget {
			if t := c.Sx(); t != "" {
				fmt.Fprintf(sxf, "%d %s\n", p.Num, t)
				sxIDs = append(sxIDs, i)
				sxBytes += len(t)
			}
		}
	}
	if len(sum.Samples) == 0 && len(cases) > 0 {
		js, _ := json.Marshal(cases[0])
		if len(js) < 20000 {
			sum.Samples = append(sum.Samples, js)
		}
	}
	sum.ModelCases = len(sxIDs)
	sum.SxIndex = sxIDs
	js, _ := json.MarshalIndent(sum, "", " ")
	return os.WriteFile(filepath.Join(outDir, "summary.json"), js, 0644)
}

// safeExec runs a case; a panic that escapes the case's own handling (a panic inside a library call) is an outcome
func safeExec(c Case) (msg string) {
	defer func() {
		if r := recover(); r != nil {
			msg = fmt.Sprint("panic in a library call: ", r)
			if len(msg) > 600 {
				msg = msg[:600]
			}
		}
	}()
	c.Exec()
	return ""
}

type replayFile struct {
	Property string          `json:"property"`
	Kind     string          `json:"kind"`
	Case     json.RawMessage `json:"case"`
	Observed string          `json:"observed"`
	Theorem  string          `json:"theorem_or_correspondence,omitempty"`
}

func writeReplay(path, prop, kind string, c Case, observed, theorem string) {
	js, _ := json.Marshal(c)
	rf := replayFile{Property: prop, Kind: kind, Case: js, Observed: observed, Theorem: theorem}
	out, _ := json.MarshalIndent(rf, "", " ")
	_ = os.WriteFile(path, out, 0644)
}

func loadCase(p *Prop, path string) (Case, error) {
	data, err := os.ReadFile(path)
	if err != nil {
		return nil, err
	}
	var rf replayFile
	if err := json.Unmarshal(data, &rf); err == nil && len(rf.Case) > 0 {
		data = rf.Case
	}
	c := p.New()
	if err := json.Unmarshal(data, c); err != nil {
		return nil, err
	}
	return c, nil
}

func msgClass(m string) string {
	for i, ch := range m {
		if ch == ':' || ch == '(' || (ch >= '0' && ch <= '9') {
			return m[:i]
		}
	}
	return m
}

// shrinkCase greedily removes parts of a failing case while the same kind of failure persists
func shrinkCase(p *Prop, c Case, msg string) Case {
	cur := c
	class := msgClass(msg)
	for round := 0; round < 200; round++ {
		progressed := false
		for _, cand := range p.Shrink(cur) {
			cand.Exec()
			if ok, m := cand.Oracle(); !ok && msgClass(m) == class {
				cur = cand
				progressed = true
				break
			}
		}
		if !progressed {
			break
		}
	}
	return cur
}

// ---- misc

func tmpDir(prefix string) string {
	base := os.Getenv("VERIF_TMP")
	if base == "" {
		base = "/var/tmp"
	}
	d, err := os.MkdirTemp(base, prefix)
	if err != nil {
		panic(err)
	}
	return d
}

func must(err error) {
	if err != nil {
		panic(err)
	}
}

func hexs(b []byte) string { return hex.EncodeToString(b) }
