package main

import (
	"bytes"
	"fmt"
	"math/rand"
	"os"

	"github.com/thomasjungblut/go-sstables/simpledb"
)

// C06: lineages of tables (sizes straddling the size limit, tombstones shadowing older live values),
// then compaction cycles; every key is read before and after each cycle and after later steps.
type c06Case struct {
	Opts  dbOpts   `json:"opts"`
	Steps []dbStep `json:"steps"`
	Keys  [][]byte `json:"keys"`
	Flood [][]bool `json:"flood,omitempty"` // floodFill inputs (exhaustive small vectors)
	// observations
	Sweeps   [][]dbStep `json:"sweeps,omitempty"` // before the first step of kind compact/rotate/reopen ... and after each
	FloodOut [][]bool   `json:"flood_out,omitempty"`
	Fatal    string     `json:"fatal,omitempty"`
}

func (c *c06Case) Exec() {
	c.Fatal, c.Sweeps, c.FloodOut = "", nil, nil
	for _, f := range c.Flood {
		in := append([]bool{}, f...)
		c.FloodOut = append(c.FloodOut, simpledb.VerifFloodFill(in))
	}
	if len(c.Steps) == 0 {
		return
	}
	dir := tmpDir("c06-")
	defer os.RemoveAll(dir)
	r := &dbRunner{dir: dir}
	if err := r.open(c.Opts); err != nil {
		c.Fatal = "open: " + err.Error()
		return
	}
	sweep := func() {
		var sw []dbStep
		for _, k := range c.Keys {
			g := dbStep{Op: "getb", K: k}
			r.step(&g)
			sw = append(sw, g)
		}
		c.Sweeps = append(c.Sweeps, sw)
	}
	for i := range c.Steps {
		s := &c.Steps[i]
		if s.Op == "compact" {
			sweep() // immediately before the cycle
		}
		r.step(s)
		if len(s.Err) >= 4 && (s.Err[:4] == "Open" || s.Err[:4] == "Pani" || s.Err == "Hang") {
			c.Fatal = fmt.Sprintf("step %d (%s): %s", i, s.Op, s.Err)
			return
		}
		if s.Op == "compact" || s.Op == "rotate" || s.Op == "reopen" {
			sweep()
		}
	}
	if r.db != nil {
		_ = r.db.Close()
	}
}

func floodSpec(a []bool) []bool {
	first, last := -1, -1
	for i, b := range a {
		if b {
			if first < 0 {
				first = i
			}
			last = i
		}
	}
	out := append([]bool{}, a...)
	for i := first; first >= 0 && i <= last; i++ {
		out[i] = true
	}
	return out
}

func (c *c06Case) Oracle() (bool, string) {
	if c.Fatal != "" {
		return false, c.Fatal
	}
	for i, f := range c.Flood {
		want := floodSpec(f)
		if len(want) != len(c.FloodOut[i]) {
			return false, "floodFill changed the vector length"
		}
		for j := range want {
			if want[j] != c.FloodOut[i][j] {
				return false, fmt.Sprintf("floodFill(%v) = %v: not the gap-free run between the first and last selected table", f, c.FloodOut[i])
			}
		}
	}
	ref := map[string][]byte{}
	si := 0
	agree := func(sw []dbStep, what string) (bool, string) {
		for _, g := range sw {
			want, ok := ref[string(g.K)]
			if ok != g.Found || (ok && !bytes.Equal(want, g.Val)) || (!ok && g.Err != "NotFound") {
				return false, fmt.Sprintf("%s: Get(%q) = %q found=%v err=%q, reference says %q present=%v", what, g.K, g.Val, g.Found, g.Err, want, ok)
			}
		}
		return true, ""
	}
	for i, s := range c.Steps {
		switch s.Op {
		case "put", "putb":
			if s.Err != "" {
				return false, fmt.Sprintf("step %d failed: %s", i, s.Err)
			}
			ref[string(s.key())] = s.val()
		case "del", "delb":
			if s.Err != "" {
				return false, fmt.Sprintf("step %d failed: %s", i, s.Err)
			}
			delete(ref, string(s.key()))
		case "compact":
			if ok, m := agree(c.Sweeps[si], fmt.Sprintf("before the compaction cycle of step %d", i)); !ok {
				return false, m
			}
			si++
			if s.Err != "" {
				return false, fmt.Sprintf("step %d: compaction cycle failed: %s", i, s.Err)
			}
			// selection: gap-free run in age order and a superset of the pre-selection
			if len(s.Selected) > 0 {
				pos := map[string]int{}
				for j, t := range s.Before {
					pos[t.Name] = j
				}
				min, max := len(s.Before), -1
				for _, n := range s.Selected {
					p, ok := pos[n]
					if !ok {
						return false, fmt.Sprintf("step %d: compaction selected %s which is not a live table", i, n)
					}
					if p < min {
						min = p
					}
					if p > max {
						max = p
					}
				}
				if max-min+1 != len(s.Selected) {
					return false, fmt.Sprintf("step %d: selected tables %v are not a gap-free run of %v", i, s.Selected, s.Before)
				}
			}
			if ok, m := agree(c.Sweeps[si], fmt.Sprintf("after the compaction cycle of step %d (selected %v)", i, s.Selected)); !ok {
				return false, m
			}
			si++
		case "rotate", "reopen":
			if s.Err != "" {
				return false, fmt.Sprintf("step %d: %s failed: %s", i, s.Op, s.Err)
			}
			if ok, m := agree(c.Sweeps[si], fmt.Sprintf("after step %d (%s)", i, s.Op)); !ok {
				return false, m
			}
			si++
		}
	}
	return true, ""
}

func (c *c06Case) Sx() string {
	if c.Fatal != "" {
		return ""
	}
	for _, s := range c.Steps {
		if len(s.V) > 256<<10 {
			return "" // megabyte values: oracle only
		}
	}
	if len(c.Flood) > 0 {
		var fl []string
		for i, f := range c.Flood {
			var a, b []string
			for _, x := range f {
				a = append(a, sxBool(x))
			}
			for _, x := range c.FloodOut[i] {
				b = append(b, sxBool(x))
			}
			fl = append(fl, sxL(sxList(a), sxList(b)))
		}
		return sxL("()", "()", sxList(fl), "n0")
	}
	return sxDbProgram(c.Opts, c.Steps, c.Sweeps, true)
}
func (c *c06Case) Nontrivial() bool {
	if len(c.Flood) > 0 {
		return true
	}
	for _, s := range c.Steps {
		if s.Op == "compact" && len(s.Selected) >= 2 {
			return true
		}
	}
	return false
}
func (c *c06Case) Kind() string {
	if len(c.Flood) > 0 {
		return "floodfill"
	}
	sub := "none"
	for _, s := range c.Steps {
		if s.Op == "compact" && len(s.Selected) > 0 {
			if len(s.Before) > 0 && s.Selected[0] != s.Before[0].Name {
				sub = "excludes-oldest"
			} else if sub == "none" {
				sub = "from-oldest"
			}
		}
	}
	return fmt.Sprintf("lineage/%s/thr=%d/ratio=%d", sub, c.Opts.Threshold, c.Opts.RatioPct)
}

func genC06(r *rand.Rand, tier string) []Case {
	n, maxFlood := 120, 10
	if tier == "thorough" {
		n, maxFlood = 3000, 14
	}
	var cases []Case
	// floodFill: all boolean vectors up to maxFlood
	fc := &c06Case{}
	for l := 0; l <= maxFlood; l++ {
		for m := 0; m < 1<<l; m++ {
			v := make([]bool, l)
			for b := 0; b < l; b++ {
				v[b] = m&(1<<b) != 0
			}
			fc.Flood = append(fc.Flood, v)
		}
	}
	cases = append(cases, fc)
	for i := 0; i < n; i++ {
		nk := 3 + r.Intn(5)
		var keys [][]byte
		for k := 0; k < nk; k++ {
			keys = append(keys, []byte(fmt.Sprintf("key%02d", k)))
		}
		c := &c06Case{Keys: keys}
		c.Opts = dbOpts{MemstoreBytes: 1 << 30, Threshold: []int{0, 1, 1, 2}[r.Intn(4)], MaxSize: []uint64{300, 500, 1000}[r.Intn(3)],
			RatioPct: []int{20, 50, 100, 100}[r.Intn(4)], WBuf: 4096, RBuf: 4096}
		ntab := 2 + r.Intn(5)
		for t := 0; t < ntab; t++ {
			big := t == 0 && i%3 != 2 // a big oldest table is excluded by the size limit
			if r.Intn(5) == 0 {
				big = true
			}
			nops := 1 + r.Intn(5)
			for o := 0; o < nops; o++ {
				k := keys[r.Intn(len(keys))]
				if t > 0 && r.Intn(3) == 0 {
					c.Steps = append(c.Steps, dbStep{Op: "del", K: k})
				} else {
					v := []byte(fmt.Sprintf("t%d-%d", t, o))
					if big {
						v = make([]byte, 300+r.Intn(400)) // incompressible: the table really exceeds the size limit
						r.Read(v)
					}
					c.Steps = append(c.Steps, dbStep{Op: "put", K: k, V: v})
				}
			}
			if t > 0 && r.Intn(3) == 0 {
				// Delete accepts the empty key (Put does not): its tombstone reaches the tables and is read back as a nil key
				c.Steps = append(c.Steps, dbStep{Op: []string{"del", "delb"}[r.Intn(2)], K: []byte{}})
			}
			c.Steps = append(c.Steps, dbStep{Op: "rotate"})
		}
		c.Steps = append(c.Steps, dbStep{Op: "compact"})
		// later flushes, cycles and restarts
		for x := r.Intn(4); x > 0; x-- {
			switch r.Intn(4) {
			case 0:
				c.Steps = append(c.Steps, dbStep{Op: "put", K: keys[r.Intn(len(keys))], V: []byte("late")}, dbStep{Op: "rotate"})
			case 1:
				c.Steps = append(c.Steps, dbStep{Op: "compact"})
			case 2:
				o := c.Opts
				c.Steps = append(c.Steps, dbStep{Op: "reopen", Opts: &o})
			default:
				c.Steps = append(c.Steps, dbStep{Op: "del", K: keys[r.Intn(len(keys))]}, dbStep{Op: "rotate"}, dbStep{Op: "compact"})
			}
		}
		cases = append(cases, c)
	}
	// values of a mebibyte and more travel through a compaction (the sequential reader of the merge has its own path for
	// records above the buffer pool's largest class)
	for i := 0; i < 1; i++ {
		keys := [][]byte{[]byte("key00"), []byte("key01"), []byte("key02")}
		c := &c06Case{Keys: keys}
		c.Opts = dbOpts{MemstoreBytes: 1 << 30, Threshold: 0, MaxSize: 5 << 30, RatioPct: 100, WBuf: 4096, RBuf: 4096}
		for t, n := range []int{1 << 20, 1<<20 + 1, 600 << 10} {
			v := make([]byte, n)
			r.Read(v)
			c.Steps = append(c.Steps, dbStep{Op: "putb", K: keys[t], V: v}, dbStep{Op: "rotate"})
		}
		c.Steps = append(c.Steps, dbStep{Op: "compact"})
		cases = append(cases, c)
	}
	// dozens of small tables piled up (a cycle that selects far more inputs than usual, from the oldest on): values in the
	// oldest tables, their tombstones in tables created much later
	np := 1
	if tier == "thorough" {
		np = 6
	}
	for i := 0; i < np; i++ {
		var keys [][]byte
		for k := 0; k < 6; k++ {
			keys = append(keys, []byte(fmt.Sprintf("key%02d", k)))
		}
		c := &c06Case{Keys: keys}
		c.Opts = dbOpts{MemstoreBytes: 1 << 30, Threshold: r.Intn(2), MaxSize: 5 << 30, RatioPct: 100, WBuf: 4096, RBuf: 4096}
		for k := 0; k < 3; k++ {
			c.Steps = append(c.Steps, dbStep{Op: "put", K: keys[k], V: []byte(fmt.Sprintf("oldest-%d", k))})
			if k < 2 {
				c.Steps = append(c.Steps, dbStep{Op: "rotate"})
			}
		}
		c.Steps = append(c.Steps, dbStep{Op: "rotate"})
		ntab := 33 + r.Intn(8)
		for t := 0; t < ntab; t++ {
			c.Steps = append(c.Steps, dbStep{Op: "put", K: keys[3+t%3], V: []byte(fmt.Sprintf("filler-%d", t))})
			if t == ntab/2 {
				c.Steps = append(c.Steps, dbStep{Op: "del", K: keys[0]})
			}
			if t == ntab-3 {
				c.Steps = append(c.Steps, dbStep{Op: "del", K: keys[1]})
			}
			c.Steps = append(c.Steps, dbStep{Op: "rotate"})
		}
		o := c.Opts
		c.Steps = append(c.Steps, dbStep{Op: "compact"}, dbStep{Op: "compact"}, dbStep{Op: "reopen", Opts: &o}, dbStep{Op: "compact"})
		cases = append(cases, c)
	}
	// a run of small old tables merged while two or more NEWER tables (over the size limit, few tombstones) stay outside
	// the run and hold different versions of the same keys: the live tables must keep their age order
	nn := 4
	if tier == "thorough" {
		nn = 100
	}
	for i := 0; i < nn; i++ {
		var keys [][]byte
		for k := 0; k < 5; k++ {
			keys = append(keys, []byte(fmt.Sprintf("key%02d", k)))
		}
		c := &c06Case{Keys: keys}
		c.Opts = dbOpts{MemstoreBytes: 1 << 30, Threshold: r.Intn(2), MaxSize: 300, RatioPct: 100, WBuf: 4096, RBuf: 4096}
		bigv := func() []byte { v := make([]byte, 500+r.Intn(300)); r.Read(v); return v }
		for t := 0; t < 2+r.Intn(2); t++ {
			c.Steps = append(c.Steps, dbStep{Op: "put", K: keys[1+t%3], V: []byte(fmt.Sprintf("old%d", t))}, dbStep{Op: "rotate"})
		}
		for t := 0; t < 2+r.Intn(2); t++ {
			c.Steps = append(c.Steps, dbStep{Op: "put", K: keys[0], V: []byte(fmt.Sprintf("version-%d", t))}, dbStep{Op: "put", K: keys[4], V: bigv()})
			if t == 1 {
				c.Steps = append(c.Steps, dbStep{Op: "del", K: keys[1]})
			}
			c.Steps = append(c.Steps, dbStep{Op: "rotate"})
		}
		c.Steps = append(c.Steps, dbStep{Op: "compact"}, dbStep{Op: "put", K: keys[2], V: []byte("late")}, dbStep{Op: "rotate"}, dbStep{Op: "compact"})
		cases = append(cases, c)
	}
	// selection by two different criteria with an ineligible table in between: [over the size limit but mostly
	// tombstones] [over the limit, clean] ... [small]; the run must be filled across the gap, otherwise the middle
	// tables' versions win over newer ones
	ng := 6
	if tier == "thorough" {
		ng = 150
	}
	for i := 0; i < ng; i++ {
		var keys [][]byte
		for k := 0; k < 6; k++ {
			keys = append(keys, []byte(fmt.Sprintf("key%02d", k)))
		}
		c := &c06Case{Keys: keys}
		c.Opts = dbOpts{MemstoreBytes: 1 << 30, Threshold: r.Intn(2), MaxSize: 300, RatioPct: []int{20, 50}[r.Intn(2)], WBuf: 4096, RBuf: 4096}
		bigv := func() []byte { v := make([]byte, 500+r.Intn(300)); r.Read(v); return v }
		// table 1: one big value, three tombstones
		c.Steps = append(c.Steps, dbStep{Op: "put", K: keys[1], V: bigv()}, dbStep{Op: "del", K: keys[2]}, dbStep{Op: "del", K: keys[3]}, dbStep{Op: "del", K: keys[4]}, dbStep{Op: "rotate"})
		// 1-2 middle tables: big, no tombstones, holding a version of key00 (and of a key deleted later)
		for m := 0; m < 1+r.Intn(2); m++ {
			c.Steps = append(c.Steps, dbStep{Op: "put", K: keys[0], V: []byte(fmt.Sprintf("middle-%d", m))}, dbStep{Op: "put", K: keys[5], V: bigv()}, dbStep{Op: "rotate"})
		}
		// newest table: small, with the newest version of key00 and a delete of key05
		c.Steps = append(c.Steps, dbStep{Op: "put", K: keys[0], V: []byte("newest")})
		if r.Intn(2) == 0 {
			c.Steps = append(c.Steps, dbStep{Op: "del", K: keys[5]})
		}
		c.Steps = append(c.Steps, dbStep{Op: "rotate"}, dbStep{Op: "compact"})
		if r.Intn(2) == 0 {
			o := c.Opts
			c.Steps = append(c.Steps, dbStep{Op: "reopen", Opts: &o})
		}
		c.Steps = append(c.Steps, dbStep{Op: "put", K: keys[2], V: []byte("late")}, dbStep{Op: "rotate"}, dbStep{Op: "put", K: keys[3], V: []byte("late")}, dbStep{Op: "rotate"}, dbStep{Op: "compact"})
		cases = append(cases, c)
	}
	// holes in the table numbering: a compaction that leaves the NEWEST table out (it is over the size limit) puts its
	// result into the oldest slot; after a restart newer tables must still get names behind the one left out, or the next
	// restart loads them in the wrong age order
	nh := 4
	if tier == "thorough" {
		nh = 60
	}
	for i := 0; i < nh; i++ {
		var keys [][]byte
		for k := 0; k < 5; k++ {
			keys = append(keys, []byte(fmt.Sprintf("key%02d", k)))
		}
		c := &c06Case{Keys: keys}
		c.Opts = dbOpts{MemstoreBytes: 1 << 30, Threshold: i % 2, MaxSize: 300, RatioPct: 100, WBuf: 4096, RBuf: 4096}
		bigv := func() []byte { v := make([]byte, 500+r.Intn(300)); r.Read(v); return v }
		for t := 0; t < 3+i%2; t++ { // at least three, so that the first table written after the restart does not collide with the one left out
			c.Steps = append(c.Steps, dbStep{Op: "put", K: keys[1+t%3], V: []byte(fmt.Sprintf("small%d", t))}, dbStep{Op: "rotate"})
		}
		c.Steps = append(c.Steps, dbStep{Op: "put", K: keys[0], V: []byte("in-the-table-left-out")}, dbStep{Op: "put", K: keys[4], V: bigv()}, dbStep{Op: "rotate"}, dbStep{Op: "compact"})
		o := c.Opts
		c.Steps = append(c.Steps, dbStep{Op: "reopen", Opts: &o})
		if i%2 == 0 {
			c.Steps = append(c.Steps, dbStep{Op: "del", K: keys[0]})
		} else {
			c.Steps = append(c.Steps, dbStep{Op: "put", K: keys[0], V: []byte("after-the-restart")})
		}
		if i%4 < 2 {
			c.Steps = append(c.Steps, dbStep{Op: "rotate"})
		}
		c.Steps = append(c.Steps, dbStep{Op: "reopen", Opts: &o}, dbStep{Op: "reopen", Opts: &o}, dbStep{Op: "compact"})
		cases = append(cases, c)
	}
	return cases
}

func init() {
	register(&Prop{
		ID: "C06", Num: 6,
		Gen:      genC06,
		New:      func() Case { return &c06Case{} },
		Rule:     "floodFill on ALL boolean vectors up to length 10 (thorough 14); lineages of 2-6 tables built through the real DB (a big oldest table that the size limit excludes, deletes shadowing older live values, sizes on both sides of the limit, ratios .2/.5/1, thresholds 0/1/2), one synchronous compaction cycle via hook, then further flushes, cycles and restarts; every key read immediately before and after each cycle and after each later step; selection checked to be a gap-free run of the live tables. Non-trivial: a cycle that merged >=2 tables.",
		Classify: func(cs Case, msg string) string { return classifyC06a(cs.(*c06Case).Steps, msg) },
		Shrink: func(cs Case) []Case {
			c := cs.(*c06Case)
			var out []Case
			for i := range c.Steps {
				n := &c06Case{Opts: c.Opts, Keys: c.Keys}
				n.Steps = append(append([]dbStep{}, c.Steps[:i]...), c.Steps[i+1:]...)
				out = append(out, n)
			}
			return out
		},
	})
}
