package main

import (
	"encoding/binary"
	"errors"
	"fmt"
	"hash/crc32"
	"io"
	"os"
	"path/filepath"

	"github.com/thomasjungblut/go-sstables/recordio"
	"github.com/thomasjungblut/go-sstables/recordio/compressor"
)

func init() {
	errClassifiers = append(errClassifiers, func(err error) string {
		switch {
		case errors.Is(err, recordio.MagicNumberMismatchErr):
			return "MagicMismatch"
		case errors.Is(err, recordio.HeaderChecksumMismatchErr):
			return "HeaderChecksum"
		}
		return ""
	})
}

// exact EOF (err == io.EOF) vs wrapped EOF matters to callers of ReadNextAt
func errNameExact(err error) string {
	if err == nil {
		return ""
	}
	if err == io.EOF {
		return "EOF"
	}
	n := classifyErr(err)
	if n == "EOF" {
		return "WrappedEOF"
	}
	return n
}

type recOut struct {
	Nil  bool   `json:"nil,omitempty"`
	Data []byte `json:"data,omitempty"`
	Err  string `json:"err,omitempty"`
	Skip bool   `json:"skip,omitempty"`
}

func (r recOut) sx() string {
	if r.Err != "" {
		return sxErrRes(r.Err)
	}
	if r.Skip {
		return sxOk("()")
	}
	return sxOk(sxOBn(r.Data, r.Nil))
}

// mixed programs: skip = (n0 ()), read r = (n0 (r))
func (r recOut) sxMixed() string {
	if r.Err != "" {
		return sxErrRes(r.Err)
	}
	if r.Skip {
		return sxOk("()")
	}
	return sxOk("(" + sxOBn(r.Data, r.Nil) + ")")
}

func mkRec(b []byte, err error, exact bool) recOut {
	if err != nil {
		if exact {
			return recOut{Err: errNameExact(err)}
		}
		return recOut{Err: classifyErr(err)}
	}
	return recOut{Nil: b == nil, Data: append([]byte{}, b...)}
}

func compressorFor(t int) compressor.CompressionI {
	c, _ := recordio.NewCompressorForType(t)
	return c
}

func compressBytes(t int, b []byte) []byte {
	c := compressorFor(t)
	if c == nil {
		return nil
	}
	out, err := c.Compress(b)
	if err != nil {
		panic(err)
	}
	return out
}

// sequential read of a whole file: records until the first error (EOF included as the last element)
func readAllSeq(path string, bufSize int, direct bool, limit int) []recOut {
	opts := []recordio.FileReaderOption{recordio.ReaderPath(path), recordio.ReaderBufferSizeBytes(bufSize)}
	if direct {
		opts = append(opts, recordio.ReaderIoFactory(recordio.DirectIOFactory{}))
	}
	r, err := recordio.NewFileReader(opts...)
	if err != nil {
		return []recOut{{Err: "Open:" + classifyErr(err)}}
	}
	defer r.Close()
	if err := r.Open(); err != nil {
		return []recOut{{Err: "Open:" + classifyErr(err)}}
	}
	// returned slices are retained and copied only after the last read (detects reused buffers)
	var raw [][]byte
	var last error
	for i := 0; i < limit; i++ {
		b, err := r.ReadNext()
		if err != nil {
			last = err
			break
		}
		raw = append(raw, b)
	}
	var out []recOut
	for _, b := range raw {
		out = append(out, mkRec(b, nil, false))
	}
	if last != nil {
		out = append(out, mkRec(nil, last, false))
	}
	return out
}

// the same through NewFileReaderWithFile (the reader takes over an open file; default buffer size)
func readAllSeqWithFile(path string, limit int) []recOut {
	f, err := os.Open(path)
	if err != nil {
		return []recOut{{Err: "Open:" + classifyErr(err)}}
	}
	r, err := recordio.NewFileReaderWithFile(f)
	if err != nil {
		return []recOut{{Err: "Open:" + classifyErr(err)}}
	}
	defer r.Close()
	if err := r.Open(); err != nil {
		return []recOut{{Err: "Open:" + classifyErr(err)}}
	}
	var out []recOut
	for i := 0; i < limit; i++ {
		b, err := r.ReadNext()
		out = append(out, mkRec(b, err, false))
		if err != nil {
			break
		}
	}
	return out
}

// mixed read/skip program; true = ReadNext, false = SkipNext; stops at first error
func readMixed(path string, bufSize int, prog []bool) []recOut {
	r, err := recordio.NewFileReader(recordio.ReaderPath(path), recordio.ReaderBufferSizeBytes(bufSize))
	if err != nil {
		return []recOut{{Err: "Open:" + classifyErr(err)}}
	}
	defer r.Close()
	if err := r.Open(); err != nil {
		return []recOut{{Err: "Open:" + classifyErr(err)}}
	}
	var out []recOut
	for _, rd := range prog {
		if rd {
			b, err := r.ReadNext()
			out = append(out, mkRec(b, err, false))
			if err != nil {
				break
			}
		} else {
			err := r.SkipNext()
			if err != nil {
				out = append(out, recOut{Err: classifyErr(err)})
				break
			}
			out = append(out, recOut{Skip: true})
		}
	}
	return out
}

type seekOut struct {
	From uint64 `json:"from"`
	Off  uint64 `json:"off"`
	Rec  recOut `json:"rec"`
}

func openMmap(path string, seekLen int) (recordio.ReadAtI, error) {
	r, err := recordio.NewMemoryMappedReaderWithPath(path)
	if err != nil {
		return nil, err
	}
	if err := r.Open(); err != nil {
		_ = r.Close()
		return nil, err
	}
	if seekLen > 0 {
		recordio.VerifSetSeekLen(r, seekLen)
	}
	return r, nil
}

func writeBytesFile(dir, name string, b []byte) string {
	p := filepath.Join(dir, name)
	must(os.WriteFile(p, b, 0644))
	return p
}

var _ = fmt.Sprint

// recImage: the bytes of one complete version-4 record of an uncompressed file holding payload p
// (marker, nil flag 0, length, compressed length 0, header checksum, payload)
func recImage(p []byte) []byte {
	h := []byte{0x91, 0x8d, 0x4c, 0x00}
	var buf [10]byte
	h = append(h, buf[:binary.PutUvarint(buf[:], uint64(len(p)))]...)
	h = append(h, 0x00)
	crc := crc32.Checksum(h, crc32.MakeTable(crc32.Castagnoli))
	h = append(h, buf[:binary.PutUvarint(buf[:], uint64(crc))]...)
	return append(h, p...)
}
