package main

import (
	"bytes"
	"encoding/binary"
	"errors"
	"fmt"
	"math/rand"
	"sort"
	"strings"

	"github.com/thomasjungblut/go-sstables/pq"
	"github.com/thomasjungblut/go-sstables/skiplist"
)

// ---------- skip list case

type kvPair struct {
	K []byte `json:"k"`
	V []byte `json:"v"`
}

type c16SL struct {
	Cmp     string      `json:"cmp"` // int | string | bytes
	Ins     []kvPair    `json:"ins"`
	Probes  [][]byte    `json:"probes"`
	Bounds  [][2][]byte `json:"bounds"`
	Heights []int       `json:"heights"`
	// observations
	Size     int        `json:"size"`
	Gets     []*kvPair  `json:"gets"` // nil = not found
	Contains []bool     `json:"contains"`
	All      []kvPair   `json:"all"`
	Froms    [][]kvPair `json:"froms"`
	Betw     [][]kvPair `json:"betw"`
	BetwErr  []bool     `json:"betw_err"`
	Panic    string     `json:"panic,omitempty"`
	// second phase, after the observations above: lookups interleaved with further inserts. Before and after each
	// insert Late[i] the map is scanned from LateQ[i] (through one reused probe buffer for byte keys)
	Late    []kvPair  `json:"late,omitempty"`
	LateQ   [][]byte  `json:"late_q,omitempty"`
	LateObs []lateObs `json:"late_obs,omitempty"`
}

type lateObs struct {
	Before []kvPair `json:"before"`
	After  []kvPair `json:"after"`
	Has    bool     `json:"has"`
	HasNew bool     `json:"has_new"`
	Size   int      `json:"size"`
}

func encInt(i int64) []byte {
	b := make([]byte, 8)
	binary.BigEndian.PutUint64(b, uint64(i)^(1<<63))
	return b
}
func decInt(b []byte) int64 { return int64(binary.BigEndian.Uint64(b) ^ (1 << 63)) }

type slOps struct {
	insert  func(k, v []byte)
	size    func() int
	get     func(k []byte) ([]byte, bool)
	has     func(k []byte) bool
	all     func() []kvPair
	from    func(k []byte) []kvPair
	between func(lo, hi []byte) ([]kvPair, bool)
}

func drainSL[K any](it skiplist.IteratorI[K, []byte], enc func(K) []byte) []kvPair {
	var out []kvPair
	for n := 0; n < 1000000; n++ {
		k, v, err := it.Next()
		if err != nil {
			if !errors.Is(err, skiplist.Done) {
				out = append(out, kvPair{K: []byte("ERR:" + err.Error())})
				return out
			}
			// an exhausted iterator stays exhausted: whatever it hands out when it is asked again is part of its output
			for again := 0; again < 2; again++ {
				if k2, v2, err2 := it.Next(); err2 == nil {
					out = append(out, kvPair{K: enc(k2), V: v2})
				}
			}
			return out
		}
		out = append(out, kvPair{K: enc(k), V: v})
	}
	return out
}

func mkSL[K any](cmp skiplist.Comparator[K], dec func([]byte) K, enc func(K) []byte) slOps {
	m := skiplist.NewSkipListMap[K, []byte](cmp)
	return slOps{
		insert: func(k, v []byte) { m.Insert(dec(k), v) },
		size:   func() int { return m.Size() },
		get: func(k []byte) ([]byte, bool) {
			v, err := m.Get(dec(k))
			return v, err == nil
		},
		has: func(k []byte) bool { return m.Contains(dec(k)) },
		all: func() []kvPair { it, _ := m.Iterator(); return drainSL(it, enc) },
		from: func(k []byte) []kvPair {
			it, _ := m.IteratorStartingAt(dec(k))
			return drainSL(it, enc)
		},
		between: func(lo, hi []byte) ([]kvPair, bool) {
			it, err := m.IteratorBetween(dec(lo), dec(hi))
			if err != nil {
				return nil, true
			}
			return drainSL(it, enc), false
		},
	}
}

// comparators that honour only the sign contract (<0, 0, >0), not -1/0/1
type magIntCmp struct{}

func (magIntCmp) Compare(a, b int64) int {
	if a > b {
		return 7
	} else if a < b {
		return -3
	}
	return 0
}

type magBytesCmp struct{}

func (magBytesCmp) Compare(a, b []byte) int { return 5 * bytes.Compare(a, b) }

type magStringCmp struct{}

func (magStringCmp) Compare(a, b string) int { return 9 * strings.Compare(a, b) }

func (c *c16SL) Exec() {
	defer func() {
		if r := recover(); r != nil {
			c.Panic = fmt.Sprint(r)
		}
	}()
	var ops slOps
	switch c.Cmp {
	case "int":
		ops = mkSL[int64](skiplist.OrderedComparator[int64]{}, decInt, encInt)
	case "magint":
		ops = mkSL[int64](magIntCmp{}, decInt, encInt)
	case "string":
		ops = mkSL[string](skiplist.OrderedComparator[string]{}, func(b []byte) string { return string(b) }, func(s string) []byte { return []byte(s) })
	case "magstring":
		ops = mkSL[string](magStringCmp{}, func(b []byte) string { return string(b) }, func(s string) []byte { return []byte(s) })
	case "magbytes":
		ops = mkSL[[]byte](magBytesCmp{}, func(b []byte) []byte { return b }, func(b []byte) []byte { return b })
	default:
		ops = mkSL[[]byte](skiplist.BytesComparator{}, func(b []byte) []byte { return b }, func(b []byte) []byte { return b })
	}
	for _, kv := range c.Ins {
		ops.insert(kv.K, kv.V)
	}
	c.Size = ops.size()
	c.Gets, c.Contains, c.Froms, c.Betw, c.BetwErr = nil, nil, nil, nil, nil
	for _, p := range c.Probes {
		v, ok := ops.get(p)
		if ok {
			c.Gets = append(c.Gets, &kvPair{K: p, V: v})
		} else {
			c.Gets = append(c.Gets, nil)
		}
		c.Contains = append(c.Contains, ops.has(p))
		c.Froms = append(c.Froms, ops.from(p))
	}
	c.All = ops.all()
	for _, b := range c.Bounds {
		l, e := ops.between(b[0], b[1])
		c.Betw = append(c.Betw, l)
		c.BetwErr = append(c.BetwErr, e)
	}
	c.LateObs = nil
	probe := make([]byte, 0, 64)
	for i, kv := range c.Late {
		var o lateObs
		probe = append(probe[:0], c.LateQ[i]...)
		o.Before = ops.from(probe)
		ops.insert(kv.K, kv.V)
		o.After = ops.from(probe)
		o.Has = ops.has(probe)
		probe = append(probe[:0], kv.K...) // the same buffer now holds another key
		o.HasNew = ops.has(probe)
		o.Size = ops.size()
		c.LateObs = append(c.LateObs, o)
	}
}

func sortedRef(ins []kvPair) []kvPair {
	ref := append([]kvPair(nil), ins...)
	sort.Slice(ref, func(i, j int) bool { return bytes.Compare(ref[i].K, ref[j].K) < 0 })
	return ref
}

func kvEq(a, b []kvPair) bool {
	if len(a) != len(b) {
		return false
	}
	for i := range a {
		if !bytes.Equal(a[i].K, b[i].K) || !bytes.Equal(a[i].V, b[i].V) {
			return false
		}
	}
	return true
}

func (c *c16SL) Oracle() (bool, string) {
	if c.Panic != "" {
		return false, "panic: " + c.Panic
	}
	ref := sortedRef(c.Ins)
	if c.Size != len(ref) {
		return false, fmt.Sprintf("size %d want %d", c.Size, len(ref))
	}
	if !kvEq(c.All, ref) {
		return false, "full iteration differs from sorted reference"
	}
	for i, p := range c.Probes {
		var want *kvPair
		var from []kvPair
		for j := range ref {
			if bytes.Equal(ref[j].K, p) {
				want = &ref[j]
			}
			if bytes.Compare(ref[j].K, p) >= 0 {
				from = append(from, ref[j])
			}
		}
		got := c.Gets[i]
		if (want == nil) != (got == nil) || (want != nil && !bytes.Equal(want.V, got.V)) {
			return false, fmt.Sprintf("get %x wrong", p)
		}
		if c.Contains[i] != (want != nil) {
			return false, fmt.Sprintf("contains %x wrong", p)
		}
		if !kvEq(c.Froms[i], from) {
			return false, fmt.Sprintf("iterator starting at %x wrong", p)
		}
	}
	for i, b := range c.Bounds {
		if bytes.Compare(b[0], b[1]) > 0 {
			if !c.BetwErr[i] {
				return false, fmt.Sprintf("between %x %x: lower > upper not rejected", b[0], b[1])
			}
			continue
		}
		if c.BetwErr[i] {
			return false, fmt.Sprintf("between %x %x rejected", b[0], b[1])
		}
		var want []kvPair
		for j := range ref {
			if bytes.Compare(ref[j].K, b[0]) >= 0 && bytes.Compare(ref[j].K, b[1]) <= 0 {
				want = append(want, ref[j])
			}
		}
		if !kvEq(c.Betw[i], want) {
			return false, fmt.Sprintf("between %x %x wrong", b[0], b[1])
		}
	}
	cur := append([]kvPair(nil), c.Ins...)
	fromRef := func(q []byte) ([]kvPair, bool) {
		var out []kvPair
		has := false
		for _, kv := range sortedRef(cur) {
			if bytes.Compare(kv.K, q) >= 0 {
				out = append(out, kv)
			}
			if bytes.Equal(kv.K, q) {
				has = true
			}
		}
		return out, has
	}
	for i, kv := range c.Late {
		if i >= len(c.LateObs) {
			return false, "interleaved phase stopped early"
		}
		o := c.LateObs[i]
		if want, _ := fromRef(c.LateQ[i]); !kvEq(o.Before, want) {
			return false, fmt.Sprintf("interleaved phase step %d: iterator starting at %x before the insert wrong", i, c.LateQ[i])
		}
		cur = append(cur, kv)
		want, has := fromRef(c.LateQ[i])
		if !kvEq(o.After, want) {
			return false, fmt.Sprintf("interleaved phase step %d: iterator starting at %x after inserting %x wrong (%d entries, want %d)", i, c.LateQ[i], kv.K, len(o.After), len(want))
		}
		if o.Has != has || !o.HasNew || o.Size != len(cur) {
			return false, fmt.Sprintf("interleaved phase step %d: Contains/Size after inserting %x wrong", i, kv.K)
		}
	}
	return true, ""
}

func sxKV(p kvPair) string { return sxL(sxB(p.K), sxB(p.V)) }
func sxKVs(l []kvPair) string {
	var xs []string
	for _, p := range l {
		xs = append(xs, sxKV(p))
	}
	return sxList(xs)
}

func (c *c16SL) Sx() string {
	if c.Panic != "" {
		return ""
	}
	var ins, gets, froms, betw []string
	for i, kv := range c.Ins {
		ins = append(ins, sxL(sxB(kv.K), sxB(kv.V), sxI(c.Heights[i])))
	}
	for i, p := range c.Probes {
		g := "()"
		if c.Gets[i] != nil {
			g = sxL(sxB(c.Gets[i].V))
		}
		gets = append(gets, sxL(sxB(p), g, sxBool(c.Contains[i])))
		froms = append(froms, sxL(sxB(p), sxKVs(c.Froms[i])))
	}
	for i, b := range c.Bounds {
		betw = append(betw, sxL(sxB(b[0]), sxB(b[1]), sxOpt(sxKVs(c.Betw[i]), !c.BetwErr[i])))
	}
	var late []string
	for i, kv := range c.Late {
		if i >= len(c.LateObs) {
			break
		}
		o := c.LateObs[i]
		late = append(late, sxL(sxB(kv.K), sxB(kv.V), sxB(c.LateQ[i]), sxKVs(o.Before), sxKVs(o.After), sxBool(o.Has), sxI(o.Size)))
	}
	return sxL("n0", sxList(ins), sxI(c.Size), sxKVs(c.All), sxList(gets), sxList(froms), sxList(betw), sxList(late))
}

func (c *c16SL) Nontrivial() bool { return len(c.Ins) >= 3 && len(c.Probes) >= 2 && len(c.Bounds) >= 1 }
func (c *c16SL) Kind() string     { return fmt.Sprintf("skiplist/%s/n=%s", c.Cmp, bucket(len(c.Ins))) }

func bucket(n int) string {
	switch {
	case n == 0:
		return "0"
	case n <= 3:
		return "1-3"
	case n <= 7:
		return "4-7"
	case n <= 32:
		return "8-32"
	case n <= 256:
		return "33-256"
	default:
		return ">256"
	}
}

// ---------- priority queue case

type pqItem struct {
	K   []byte `json:"k"`
	V   []byte `json:"v"`
	Err bool   `json:"err,omitempty"`
}

type pqOut struct {
	K   []byte `json:"k"`
	V   []byte `json:"v"`
	Ctx int    `json:"ctx"`
}

type c16PQ struct {
	Mag    bool       `json:"mag"`           // comparator returning magnitudes instead of -1/0/1
	Int    bool       `json:"int,omitempty"` // the keys are 8-byte encodings of int64 (negative ones included) and the queue is keyed by int64
	Inputs [][]pqItem `json:"inputs"`
	// observation
	Out     []pqOut `json:"out"`
	InitErr bool    `json:"init_err"`
	NextErr bool    `json:"next_err"`
	Panic   string  `json:"panic,omitempty"`
}

type sliceIter struct {
	items []pqItem
	pos   int
	ctx   int
}

var errInjected = errors.New("injected fault")

func (s *sliceIter) Next() ([]byte, []byte, error) {
	if s.pos >= len(s.items) {
		return nil, nil, pq.Done
	}
	it := s.items[s.pos]
	s.pos++
	if it.Err {
		return nil, nil, errInjected
	}
	return it.K, it.V, nil
}
func (s *sliceIter) Context() int { return s.ctx }

func (c *c16PQ) Exec() {
	defer func() {
		if r := recover(); r != nil {
			c.Panic = fmt.Sprint(r)
		}
	}()
	c.Out, c.InitErr, c.NextErr = nil, false, false
	if c.Int {
		var its []pq.IteratorWithContext[int64, []byte, int]
		for i, in := range c.Inputs {
			its = append(its, &intIter{sliceIter{items: in, ctx: i}})
		}
		var cmp skiplist.Comparator[int64] = skiplist.OrderedComparator[int64]{}
		if c.Mag {
			cmp = magIntCmp{}
		}
		q, err := pq.NewPriorityQueue[int64, []byte, int](cmp, its)
		if err != nil {
			c.InitErr = true
			return
		}
		for n := 0; n < 10000000; n++ {
			k, v, ctx, err := q.Next()
			if err != nil {
				if !errors.Is(err, pq.Done) {
					c.NextErr = true
				}
				return
			}
			c.Out = append(c.Out, pqOut{K: encInt(k), V: v, Ctx: ctx})
		}
		return
	}
	var its []pq.IteratorWithContext[[]byte, []byte, int]
	for i, in := range c.Inputs {
		its = append(its, &sliceIter{items: in, ctx: i})
	}
	var cmp skiplist.Comparator[[]byte] = skiplist.BytesComparator{}
	if c.Mag {
		cmp = magBytesCmp{}
	}
	q, err := pq.NewPriorityQueue[[]byte, []byte, int](cmp, its)
	if err != nil {
		c.InitErr = true
		return
	}
	for n := 0; n < 10000000; n++ {
		k, v, ctx, err := q.Next()
		if err != nil {
			if !errors.Is(err, pq.Done) {
				c.NextErr = true
			}
			return
		}
		c.Out = append(c.Out, pqOut{K: k, V: v, Ctx: ctx})
	}
}

// the same input delivered with int64 keys
type intIter struct{ sliceIter }

func (s *intIter) Next() (int64, []byte, error) {
	k, v, err := s.sliceIter.Next()
	if err != nil {
		return 0, nil, err
	}
	return decInt(k), v, nil
}

func (c *c16PQ) hasErr() bool {
	for _, in := range c.Inputs {
		for _, it := range in {
			if it.Err {
				return true
			}
		}
	}
	return false
}

func (c *c16PQ) Oracle() (bool, string) {
	if c.Panic != "" {
		return false, "panic: " + c.Panic
	}
	if !c.hasErr() {
		if c.InitErr || c.NextErr {
			return false, "error without injected fault"
		}
		// sorted & permutation with identity
		for i := 1; i < len(c.Out); i++ {
			if bytes.Compare(c.Out[i-1].K, c.Out[i].K) > 0 {
				return false, fmt.Sprintf("output not non-descending at %d", i)
			}
		}
		pos := make([]int, len(c.Inputs))
		total := 0
		for _, in := range c.Inputs {
			total += len(in)
		}
		if len(c.Out) != total {
			return false, fmt.Sprintf("output has %d elements, inputs have %d", len(c.Out), total)
		}
		for _, o := range c.Out {
			if o.Ctx < 0 || o.Ctx >= len(c.Inputs) || pos[o.Ctx] >= len(c.Inputs[o.Ctx]) {
				return false, "bad context"
			}
			want := c.Inputs[o.Ctx][pos[o.Ctx]]
			pos[o.Ctx]++
			if !bytes.Equal(want.K, o.K) || !bytes.Equal(want.V, o.V) {
				return false, fmt.Sprintf("element of input %d out of order or altered", o.Ctx)
			}
		}
		return true, ""
	}
	// with faults: outputs so far must still be sorted and genuine; an error must have been reported
	// unless no fault position was reached (all faults are reached eventually when draining fully)
	if !c.InitErr && !c.NextErr {
		return false, "injected iterator fault was absorbed"
	}
	for i := 1; i < len(c.Out); i++ {
		if bytes.Compare(c.Out[i-1].K, c.Out[i].K) > 0 {
			return false, "output not non-descending before fault"
		}
	}
	return true, ""
}

func (c *c16PQ) Sx() string {
	if c.Panic != "" {
		return ""
	}
	var ins, outs []string
	for _, in := range c.Inputs {
		var xs []string
		for _, it := range in {
			if it.Err {
				xs = append(xs, sxErrRes("Other"))
			} else {
				xs = append(xs, sxOk(sxKV(kvPair{it.K, it.V})))
			}
		}
		ins = append(ins, sxList(xs))
	}
	for _, o := range c.Out {
		outs = append(outs, sxL(sxB(o.K), sxB(o.V), sxI(o.Ctx)))
	}
	st := 0
	if c.InitErr {
		st = 1
	} else if c.NextErr {
		st = 2
	}
	return sxL("n1", sxList(ins), sxList(outs), sxI(st))
}

func (c *c16PQ) Nontrivial() bool {
	n := 0
	for _, in := range c.Inputs {
		if len(in) > 0 {
			n++
		}
	}
	return n >= 2
}
func (c *c16PQ) Kind() string {
	k := "pq/lists=" + bucket(len(c.Inputs))
	if c.hasErr() {
		k += "/fault"
	}
	return k
}

// ---------- generators

func permutations(n int) [][]int {
	var res [][]int
	a := make([]int, n)
	for i := range a {
		a[i] = i
	}
	var rec func(k int)
	rec = func(k int) {
		if k == n {
			res = append(res, append([]int(nil), a...))
			return
		}
		for i := k; i < n; i++ {
			a[k], a[i] = a[i], a[k]
			rec(k + 1)
			a[k], a[i] = a[i], a[k]
		}
	}
	rec(0)
	return res
}

func randKey(r *rand.Rand, cmp string) []byte {
	switch cmp {
	case "int", "magint":
		vals := []int64{-5, -1, 0, 1, 2, 3, 7, 100, -1 << 62, 1 << 62}
		if r.Intn(3) == 0 {
			return encInt(vals[r.Intn(len(vals))])
		}
		return encInt(int64(r.Intn(40)) - 20)
	default:
		n := r.Intn(4)
		if r.Intn(10) == 0 {
			n = r.Intn(40)
		}
		b := make([]byte, n)
		alphabet := []byte{0, 1, 'a', 'b', 'c', 0x91, 0xff}
		for i := range b {
			b[i] = alphabet[r.Intn(len(alphabet))]
		}
		if (cmp == "string" || cmp == "magstring") && len(b) == 0 {
			return []byte{}
		}
		return b
	}
}

func randHeights(r *rand.Rand, n int) []int {
	h := make([]int, n)
	for i := range h {
		h[i] = 1
		for h[i] < 12 && r.Intn(3) == 0 {
			h[i]++
		}
	}
	return h
}

func slCaseFrom(r *rand.Rand, cmp string, keys [][]byte) *c16SL {
	c := &c16SL{Cmp: cmp}
	for i, k := range keys {
		c.Ins = append(c.Ins, kvPair{K: k, V: []byte{byte(i), byte(len(k))}})
	}
	c.Heights = randHeights(r, len(keys))
	// probes: all keys, plus absent ones around them
	seen := map[string]bool{}
	add := func(k []byte) {
		if !seen[string(k)] {
			seen[string(k)] = true
			c.Probes = append(c.Probes, k)
		}
	}
	for _, k := range keys {
		add(k)
	}
	for i := 0; i < 4; i++ {
		add(randKey(r, cmp))
	}
	isInt := cmp == "int" || cmp == "magint"
	if !isInt {
		add([]byte{})
		add([]byte{0xff, 0xff, 0xff, 0xff, 0xff})
		for _, k := range keys {
			if r.Intn(2) == 0 {
				add(append(append([]byte(nil), k...), 0))
			}
		}
	} else {
		add(encInt(-1 << 63))
		add(encInt(1<<63 - 1))
	}
	if len(c.Probes) > 14 {
		r.Shuffle(len(c.Probes), func(i, j int) { c.Probes[i], c.Probes[j] = c.Probes[j], c.Probes[i] })
		c.Probes = c.Probes[:14]
	}
	// inverted and degenerate ranges around the extremes
	if isInt {
		c.Bounds = append(c.Bounds, [2][]byte{encInt(1<<63 - 1), encInt(-1 << 63)}, [2][]byte{encInt(1<<63 - 1), encInt(1<<63 - 1)})
	} else {
		top := []byte{0xff, 0xff, 0xff, 0xff, 0xff, 0xff}
		c.Bounds = append(c.Bounds, [2][]byte{top, {}}, [2][]byte{top, top}, [2][]byte{{}, {}})
	}
	for i := 0; i < 6 && len(c.Probes) > 0; i++ {
		a := c.Probes[r.Intn(len(c.Probes))]
		b := c.Probes[r.Intn(len(c.Probes))]
		if i < 4 && bytes.Compare(a, b) > 0 {
			a, b = b, a
		}
		c.Bounds = append(c.Bounds, [2][]byte{a, b})
	}
	// interleaved phase: new keys, each probed from just below it (an absent key whose successor the new key becomes),
	// from a random key or from itself
	for i := 0; i < 1+r.Intn(6); i++ {
		k := randKey(r, cmp)
		if seen["late"+string(k)] {
			continue
		}
		dup := false
		for _, x := range keys {
			if bytes.Equal(x, k) {
				dup = true
			}
		}
		if dup {
			continue
		}
		seen["late"+string(k)] = true
		var q []byte
		switch r.Intn(4) {
		case 0:
			q = randKey(r, cmp)
		case 1:
			q = append([]byte(nil), k...)
		default:
			if isInt {
				q = encInt(decInt(k) - 1 - int64(r.Intn(3)))
			} else if len(k) > 0 {
				q = append([]byte(nil), k[:len(k)-1]...)
				if last := k[len(k)-1]; last > 0 && r.Intn(2) == 0 {
					q = append(q, last-1)
				}
			} else {
				q = []byte{}
			}
		}
		c.Late = append(c.Late, kvPair{K: k, V: []byte{0xee, byte(i)}})
		c.LateQ = append(c.LateQ, q)
	}
	return c
}

func distinctKeys(r *rand.Rand, cmp string, n int) [][]byte {
	seen := map[string]bool{}
	var out [][]byte
	for tries := 0; len(out) < n && tries < 50*n+50; tries++ {
		k := randKey(r, cmp)
		if len(out) > 20 {
			// widen the universe for larger maps
			if cmp == "int" || cmp == "magint" {
				k = encInt(r.Int63n(1000000) - 500000)
			} else {
				k = append(k, byte(r.Intn(256)), byte(r.Intn(256)))
			}
		}
		if !seen[string(k)] {
			seen[string(k)] = true
			out = append(out, k)
		}
	}
	return out
}

func genC16(r *rand.Rand, tier string) []Case {
	var cases []Case
	cmps := []string{"int", "string", "bytes", "magint", "magbytes", "magstring"}
	maxPerm := 6
	nRandSL, nPQ := 200, 300
	maxKeys, maxLists := 60, 8
	if tier == "thorough" {
		maxPerm = 7
		nRandSL, nPQ = 2000, 3000
		maxKeys, maxLists = 5000, 64
	}
	// all permutations of up to maxPerm distinct keys
	for n := 0; n <= maxPerm; n++ {
		for pi, perm := range permutations(n) {
			cmp := cmps[(pi+n)%len(cmps)]
			base := distinctKeys(r, cmp, n)
			sort.Slice(base, func(i, j int) bool { return bytes.Compare(base[i], base[j]) < 0 })
			if len(base) < n {
				continue
			}
			keys := make([][]byte, n)
			for i, p := range perm {
				keys[i] = base[p]
			}
			cases = append(cases, slCaseFrom(r, cmp, keys))
		}
	}
	for i := 0; i < nRandSL; i++ {
		cmp := cmps[i%len(cmps)]
		n := r.Intn(maxKeys)
		if tier == "thorough" && i%50 != 0 {
			n = r.Intn(200)
		}
		cases = append(cases, slCaseFrom(r, cmp, distinctKeys(r, cmp, n)))
	}
	// priority queue
	for i := 0; i < nPQ; i++ {
		k := r.Intn(maxLists + 1)
		if i < 4 {
			k = i
		}
		c := &c16PQ{Mag: i%2 == 1, Int: i%5 == 3}
		wide := i%10 == 7 // many inputs that are all alive at the same time
		if wide {
			k = 8 + r.Intn(9)
		}
		for j := 0; j < k; j++ {
			n := r.Intn(7)
			if r.Intn(4) == 0 {
				n = 0
			}
			if wide {
				n = 3 + r.Intn(10)
			}
			if tier == "thorough" && r.Intn(20) == 0 {
				n = r.Intn(200)
			}
			var keys [][]byte
			for x := 0; x < n; x++ {
				if c.Int {
					keys = append(keys, randKey(r, "int"))
				} else {
					keys = append(keys, randKey(r, "bytes"))
				}
			}
			sort.Slice(keys, func(a, b int) bool { return bytes.Compare(keys[a], keys[b]) < 0 })
			var in []pqItem
			for x, kk := range keys {
				in = append(in, pqItem{K: kk, V: []byte{byte(j), byte(x)}})
			}
			c.Inputs = append(c.Inputs, in)
		}
		if i%5 == 4 && k > 0 {
			// inject a fault into one input at a random position
			j := r.Intn(k)
			pos := r.Intn(len(c.Inputs[j]) + 1)
			in := append([]pqItem(nil), c.Inputs[j][:pos]...)
			in = append(in, pqItem{Err: true})
			in = append(in, c.Inputs[j][pos:]...)
			c.Inputs[j] = in
		}
		cases = append(cases, c)
	}
	return cases
}

type c16Any struct {
	SL *c16SL `json:"sl,omitempty"`
	PQ *c16PQ `json:"pq,omitempty"`
}

func (c *c16Any) inner() Case {
	if c.SL != nil {
		return c.SL
	}
	return c.PQ
}
func (c *c16Any) Exec()                  { c.inner().Exec() }
func (c *c16Any) Oracle() (bool, string) { return c.inner().Oracle() }
func (c *c16Any) Sx() string             { return c.inner().Sx() }
func (c *c16Any) Nontrivial() bool       { return c.inner().Nontrivial() }
func (c *c16Any) Kind() string           { return c.inner().Kind() }

func init() {
	register(&Prop{
		ID: "C16",
		Gen: func(r *rand.Rand, tier string) []Case {
			var out []Case
			for _, c := range genC16(r, tier) {
				switch x := c.(type) {
				case *c16SL:
					out = append(out, &c16Any{SL: x})
				case *c16PQ:
					out = append(out, &c16Any{PQ: x})
				}
			}
			return out
		},
		New: func() Case { return &c16Any{} },
		Num: 16,
		Rule: "skip list (after the observations of the filled map a second phase interleaves 1-6 further inserts with scans from a probe just below the new key, through one reused probe buffer): all permutations of up to 6 (quick) / 7 (thorough) distinct keys plus random maps, three comparators, probes incl. absent keys and bounds incl. lower>upper; " +
			"heap: random lists of ascending inputs with duplicates across inputs, every 5th with an injected iterator fault. " +
			"Non-trivial: skip list with >=3 keys, >=2 probes, >=1 bound pair; heap with >=2 non-empty inputs. Distinct = distinct hash of the full case.",
	})
	_ = strings.Join
}
