package main

import (
	"bytes"
	"encoding/json"
	"errors"
	"flag"
	"fmt"
	"math/rand"
	"os"
	"os/exec"
	"os/signal"
	"path/filepath"
	"sort"
	"syscall"
	"time"

	"github.com/thomasjungblut/go-sstables/memstore"
	"github.com/thomasjungblut/go-sstables/simpledb"
	"github.com/thomasjungblut/go-sstables/skiplist"
	"github.com/thomasjungblut/go-sstables/sstables"
)

// ---- C11, table level: merging real tables whose data file was cut

type c11Tbl struct {
	Mode   string    `json:"mode"` // merge | compact
	Tables [][]tblKV `json:"tables"`
	Victim int       `json:"victim"`         // table whose data file is cut
	Cut    int       `json:"cut"`            // number of records kept in the victim's data file
	Zeros  bool      `json:"zeros"`          // pad the cut file with zeros to its old length
	Seek   bool      `json:"seek,omitempty"` // the inputs are random-access iterators (ScanStartingAt / ScanRange), not full scans
	Mid    int       `json:"mid,omitempty"`  // cut this many bytes into record Cut instead of at its first byte
	// observations
	Err    string  `json:"err,omitempty"`
	Writes []tblKV `json:"writes"`
	Fatal  string  `json:"fatal,omitempty"`
}

func (c *c11Tbl) Exec() {
	defer func() {
		if r := recover(); r != nil {
			c.Fatal = fmt.Sprint("panic: ", r)
		}
	}()
	c.Fatal, c.Err, c.Writes = "", "", nil
	dir := tmpDir("c11t-")
	defer os.RemoveAll(dir)
	var readers []sstables.SSTableReaderI
	for i, t := range c.Tables {
		d := filepath.Join(dir, fmt.Sprintf("t%d", i))
		must(os.MkdirAll(d, 0755))
		o := defaultTblOpts()
		o.DataComp = 0
		_, err := writeTable(d, o, t)
		must(err)
		if i == c.Victim {
			// cut the data file exactly at a record boundary (offsets from the index)
			r0, err := sstables.NewSSTableReader(sstables.ReadBasePath(d))
			must(err)
			idx := sstables.VerifReaderIndex(r0)
			it, _ := idx.Iterator()
			var offs []uint64
			for {
				_, iv, err := it.Next()
				if err != nil {
					break
				}
				offs = append(offs, iv.Offset)
			}
			r0.Close()
			p := filepath.Join(d, sstables.DataFileName)
			data, _ := os.ReadFile(p)
			if c.Cut < len(offs) {
				at := int(offs[c.Cut]) + c.Mid
				if at > len(data) {
					at = len(data)
				}
				cut := append([]byte{}, data[:at]...)
				if c.Zeros {
					cut = append(cut, make([]byte, len(data)-len(cut))...)
				}
				must(os.WriteFile(p, cut, 0644))
			}
		}
		r, err := sstables.NewSSTableReader(sstables.ReadBasePath(d), sstables.SkipHashCheckOnLoad())
		if err != nil {
			c.Err = "Open:" + classifyErr(err)
			return
		}
		readers = append(readers, r)
	}
	defer func() {
		for _, r := range readers {
			r.Close()
		}
	}()
	var its []sstables.SSTableMergeIteratorContext
	for i, r := range readers {
		var sc sstables.SSTableIteratorI
		var err error
		switch {
		case !c.Seek:
			sc, err = r.Scan()
		case i%2 == 0:
			sc, err = r.ScanStartingAt([]byte{})
		default:
			sc, err = r.ScanRange([]byte{}, bytes.Repeat([]byte{0xff}, 40))
		}
		if err != nil {
			c.Err = "Scan:" + classifyErr(err)
			return
		}
		its = append(its, sstables.NewMergeIteratorContext(i, sc))
	}
	w := &recWriter{}
	m := sstables.NewSSTableMerger(skiplist.BytesComparator{})
	var err error
	if c.Mode == "merge" {
		err = m.Merge(its, w)
	} else {
		err = m.MergeCompact(its, w, sstables.ScanReduceLatestWins)
	}
	if err != nil {
		c.Err = classifyErr(err)
	}
	c.Writes = w.got
}

func (c *c11Tbl) Oracle() (bool, string) {
	if c.Fatal != "" {
		return false, c.Fatal
	}
	if c.Err != "" {
		return true, "" // reported
	}
	// success: the output must be the complete merge of the undamaged contents
	cc := &c08Case{Tables: c.Tables}
	u := cc.union()
	var want []tblKV
	if c.Mode == "merge" {
		for _, t := range c.Tables {
			want = append(want, t...)
		}
		sort.SliceStable(want, func(i, j int) bool { return bytes.Compare(want[i].K, want[j].K) < 0 })
		if len(c.Writes) != len(want) {
			return false, fmt.Sprintf("merge reported success but wrote %d of %d records (input %d lost records behind a cut data file)", len(c.Writes), len(want), c.Victim)
		}
		uniq := true
		for i := 1; i < len(want); i++ {
			if bytes.Equal(want[i-1].K, want[i].K) {
				uniq = false
			}
		}
		if uniq && !tblEq(c.Writes, want) {
			return false, fmt.Sprintf("merge reported success but its output misrepresents records of input %d (behind a cut data file)", c.Victim)
		}
		return true, ""
	}
	want = filterKV(u, func(kv tblKV) bool { return !kv.Nil })
	if !tblEq(c.Writes, want) {
		return false, fmt.Sprintf("compacting merge reported success but its output misses or misrepresents records (%d written, %d expected)", len(c.Writes), len(want))
	}
	return true, ""
}
func (c *c11Tbl) Sx() string       { return "" }
func (c *c11Tbl) Nontrivial() bool { return len(c.Tables) >= 2 }
func (c *c11Tbl) Kind() string {
	z := ""
	if c.Zeros {
		z = "/zeros"
	}
	if c.Seek {
		z += "/seek"
	}
	if c.Mid > 0 {
		z += "/midrecord"
	}
	return "tables/" + c.Mode + z
}

// ---- C11, system level: a flush whose write system calls fail beyond a file-size limit

type c11Flush struct {
	KVs    []tblKV `json:"kvs"` // memstore content (nil = tombstone)
	Tombs  bool    `json:"tombs"`
	Limits []int   `json:"limits"`
	// observations, one per limit
	Errs  []bool   `json:"errs"` // flush returned an error
	Fine  []string `json:"fine"` // "" or what is wrong with the table when flush reported success
	Fatal string   `json:"fatal,omitempty"`
}

type flushChildArgs struct {
	KVs   []tblKV `json:"kvs"`
	Tombs bool    `json:"tombs"`
	Dir   string  `json:"dir"`
	Limit int     `json:"limit"`
}

func flushChild(args []string) int {
	fs := flag.NewFlagSet("c11flush", flag.ExitOnError)
	in := fs.String("args", "", "json")
	_ = fs.Parse(args)
	var a flushChildArgs
	childArgs(*in, &a)
	m := memstore.NewMemStore()
	for _, kv := range a.KVs {
		if kv.Nil {
			must(m.Tombstone(kv.K))
		} else {
			must(m.Upsert(kv.K, kv.val()))
		}
	}
	signal.Ignore(syscall.SIGXFSZ)
	lim := syscall.Rlimit{Cur: uint64(a.Limit), Max: uint64(a.Limit)}
	must(syscall.Setrlimit(syscall.RLIMIT_FSIZE, &lim))
	var err error
	o := defaultTblOpts()
	o.DataComp, o.WBuf = 0, 64
	if a.Tombs {
		err = m.FlushWithTombstones(o.writerOptions(a.Dir)...)
	} else {
		err = m.Flush(o.writerOptions(a.Dir)...)
	}
	if err != nil {
		fmt.Println("ERR")
		return 0
	}
	fmt.Println("OK")
	return 0
}

func init() { subcommands["c11flush"] = flushChild }

func (c *c11Flush) Exec() {
	defer func() {
		if r := recover(); r != nil {
			c.Fatal = fmt.Sprint("panic: ", r)
		}
	}()
	c.Fatal, c.Errs, c.Fine = "", nil, nil
	self, _ := os.Executable()
	for _, lim := range c.Limits {
		dir := tmpDir("c11f-")
		a, _ := json.Marshal(flushChildArgs{KVs: c.KVs, Tombs: c.Tombs, Dir: dir, Limit: lim})
		out, err := exec.Command(self, "c11flush", "--args", string(a)).CombinedOutput()
		if err != nil {
			c.Fatal = fmt.Sprintf("child failed: %v %s", err, out)
			os.RemoveAll(dir)
			return
		}
		failed := !bytes.Contains(out, []byte("OK"))
		c.Errs = append(c.Errs, failed)
		fine := ""
		if !failed {
			want := filterKV(c.KVs, func(kv tblKV) bool { return c.Tombs || !kv.Nil })
			got, nils, rerr := readTable(dir)
			if rerr != nil {
				fine = "flush reported success but the table cannot be read: " + classifyErr(rerr)
			} else if len(got) != len(want) {
				fine = fmt.Sprintf("flush reported success but the table has %d of %d records", len(got), len(want))
			} else {
				for i := range got {
					if !bytes.Equal(got[i].K, want[i].K) || !bytes.Equal(got[i].V, want[i].val()) || nils[i] != want[i].Nil {
						fine = "flush reported success but a record differs"
					}
				}
			}
		}
		c.Fine = append(c.Fine, fine)
		os.RemoveAll(dir)
	}
}

func (c *c11Flush) Oracle() (bool, string) {
	if c.Fatal != "" {
		return false, c.Fatal
	}
	for i, f := range c.Fine {
		if f != "" {
			return false, fmt.Sprintf("file size limit %d: %s", c.Limits[i], f)
		}
	}
	return true, ""
}
func (c *c11Flush) Sx() string { return "" }
func (c *c11Flush) Nontrivial() bool {
	e, o := 0, 0
	for _, x := range c.Errs {
		if x {
			e++
		} else {
			o++
		}
	}
	return e >= 1 && o >= 1
}
func (c *c11Flush) Kind() string { return "flush/rlimit" }

var _ = errors.New

func (c *c11Flush) Evals() int { return len(c.Limits) }

// ---- C11, system level: a compaction cycle whose write system calls fail beyond a file-size limit, then a
// restart: the cycle must report the failure, and the directory must re-open to the same content (an incomplete
// merged table must never be installed, neither now nor by recovery)

type c11Compact struct {
	NTables int   `json:"ntables"`
	ValLen  int   `json:"val_len"`
	Limits  []int `json:"limits"`
	// observations, one per limit
	CycleErr []bool   `json:"cycle_err"`
	Bad      []string `json:"bad"` // "" or what is wrong after the restart
	// the same failing cycle on the real background goroutine (compaction ticker): the process has to stop
	Tick  []string `json:"tick,omitempty"` // per probed limit: "stopped" | "compacted" | "swallowed" | other trouble
	Fatal string   `json:"fatal,omitempty"`
}

type compactChildArgs struct {
	Dir    string `json:"dir"`
	Limit  int    `json:"limit"`
	Ticker bool   `json:"ticker,omitempty"`
}

func compactChild(args []string) int {
	fs := flag.NewFlagSet("c11compact", flag.ExitOnError)
	in := fs.String("args", "", "json")
	_ = fs.Parse(args)
	var a compactChildArgs
	childArgs(*in, &a)
	if a.Ticker {
		db, err := simpledb.NewSimpleDB(a.Dir, simpledb.MemstoreSizeBytes(1<<30), simpledb.CompactionFileThreshold(1), simpledb.CompactionMaxSizeBytes(5<<30),
			simpledb.CompactionRatio(1), simpledb.CompactionRunInterval(40*time.Millisecond), simpledb.WriteBufferSizeBytes(4096), simpledb.ReadBufferSizeBytes(4096))
		if err == nil {
			err = db.Open()
		}
		if err != nil {
			fmt.Println("OPENERR", err)
			return 0
		}
		signal.Ignore(syscall.SIGXFSZ)
		lim := syscall.Rlimit{Cur: uint64(a.Limit), Max: uint64(a.Limit)}
		must(syscall.Setrlimit(syscall.RLIMIT_FSIZE, &lim))
		time.Sleep(700 * time.Millisecond)
		fmt.Println("TICKALIVE")
		err = db.Close()
		fmt.Println("TICKCLOSED", err)
		return 0
	}
	r := &dbRunner{dir: a.Dir}
	if err := r.open(dbOpts{MemstoreBytes: 1 << 30, Threshold: 1, MaxSize: 5 << 30, RatioPct: 100, WBuf: 4096, RBuf: 4096}); err != nil {
		fmt.Println("OPENERR", err)
		return 0
	}
	signal.Ignore(syscall.SIGXFSZ)
	lim := syscall.Rlimit{Cur: uint64(a.Limit), Max: uint64(a.Limit)}
	must(syscall.Setrlimit(syscall.RLIMIT_FSIZE, &lim))
	_, _, _, err := r.db.VerifRunCompaction()
	if err != nil {
		fmt.Println("CYCLEERR")
	} else {
		fmt.Println("CYCLEOK")
	}
	// the process ends here without Close: whatever the cycle left on disk is what the next Open finds
	return 0
}

func init() { subcommands["c11compact"] = compactChild }

func (c *c11Compact) Exec() {
	defer func() {
		if r := recover(); r != nil {
			c.Fatal = fmt.Sprint("panic: ", r)
		}
	}()
	c.Fatal, c.CycleErr, c.Bad = "", nil, nil
	// build the directory once: NTables tables with incompressible values, overlapping keys and a delete
	base := tmpDir("c11c-")
	defer os.RemoveAll(base)
	r := &dbRunner{dir: filepath.Join(base, "db")}
	must(os.MkdirAll(r.dir, 0755))
	opts := dbOpts{MemstoreBytes: 1 << 30, Threshold: 1, MaxSize: 5 << 30, RatioPct: 100, WBuf: 4096, RBuf: 4096}
	must(r.open(opts))
	ref := map[string][]byte{}
	rnd := rand.New(rand.NewSource(int64(c.NTables*1000 + c.ValLen)))
	for t := 0; t < c.NTables; t++ {
		for k := 0; k < 3; k++ {
			key := fmt.Sprintf("key-%d", (t+k)%5)
			v := make([]byte, c.ValLen)
			rnd.Read(v)
			must(r.db.PutBytes([]byte(key), v))
			ref[key] = v
		}
		if t == c.NTables-1 {
			must(r.db.Delete("key-0"))
			delete(ref, "key-0")
		}
		s := dbStep{Op: "rotate"}
		r.step(&s)
	}
	must(r.db.Close())
	self, _ := os.Executable()
	for _, lim := range c.Limits {
		work := filepath.Join(base, "work")
		os.RemoveAll(work)
		must(copyTree(r.dir, work))
		a, _ := json.Marshal(compactChildArgs{Dir: work, Limit: lim})
		out, err := exec.Command(self, "c11compact", "--args", string(a)).CombinedOutput()
		if err != nil {
			c.Fatal = fmt.Sprintf("child failed: %v %s", err, out)
			return
		}
		c.CycleErr = append(c.CycleErr, bytes.Contains(out, []byte("CYCLEERR")))
		bad := ""
		if bytes.Contains(out, []byte("OPENERR")) {
			bad = "the prepared directory did not open: " + string(out)
		} else {
			r2 := &dbRunner{dir: work}
			if err := r2.open(opts); err != nil {
				bad = "after the failed cycle the directory does not re-open: " + err.Error()
			} else {
				for k := 0; k < 5 && bad == ""; k++ {
					key := fmt.Sprintf("key-%d", k)
					v, err := r2.db.GetBytes([]byte(key))
					want, ok := ref[key]
					if ok && (err != nil || !bytes.Equal(v, want)) {
						bad = fmt.Sprintf("after the restart %s reads differently (err %v, %d bytes, want %d bytes)", key, err, len(v), len(want))
					}
					if !ok && err == nil {
						bad = fmt.Sprintf("after the restart the deleted %s is readable again", key)
					}
				}
				r2.db.Close()
			}
		}
		c.Bad = append(c.Bad, bad)
	}
	// the background goroutine: three of the limits under which the synchronous cycle failed
	c.Tick = nil
	var failing []int
	for i, e := range c.CycleErr {
		if e && c.Bad[i] == "" {
			failing = append(failing, i)
		}
	}
	if len(failing) > 3 {
		failing = []int{failing[0], failing[len(failing)/2], failing[len(failing)-1]}
	}
	countTables := func(d string) int {
		n := 0
		ents, _ := os.ReadDir(d)
		for _, e := range ents {
			if e.IsDir() && len(e.Name()) > 8 && e.Name()[:8] == "sstable_" && !bytes.Contains([]byte(e.Name()), []byte("compaction")) {
				n++
			}
		}
		return n
	}
	for _, i := range failing {
		work := filepath.Join(base, "tick")
		os.RemoveAll(work)
		must(copyTree(r.dir, work))
		before := countTables(work)
		a, _ := json.Marshal(compactChildArgs{Dir: work, Limit: c.Limits[i], Ticker: true})
		out, err := exec.Command(self, "c11compact", "--args", string(a)).CombinedOutput()
		switch {
		case bytes.Contains(out, []byte("OPENERR")):
			c.Tick = append(c.Tick, "the prepared directory did not open: "+string(out))
		case err != nil || !bytes.Contains(out, []byte("TICKCLOSED")):
			c.Tick = append(c.Tick, "stopped")
		case countTables(work) < before:
			c.Tick = append(c.Tick, "compacted")
		default:
			c.Tick = append(c.Tick, "swallowed")
		}
	}
}

func (c *c11Compact) Oracle() (bool, string) {
	if c.Fatal != "" {
		return false, c.Fatal
	}
	for _, t := range c.Tick {
		if t != "stopped" && t != "compacted" {
			if t == "swallowed" {
				t = "every compaction cycle of the background goroutine failed under a file size limit, but the process went on and Close returned as if nothing had happened (the failure was neither returned nor did it stop the process)"
			}
			return false, t
		}
	}
	for i, b := range c.Bad {
		if b != "" {
			return false, fmt.Sprintf("compaction cycle under file size limit %d (cycle reported error: %v): %s", c.Limits[i], c.CycleErr[i], b)
		}
	}
	return true, ""
}
func (c *c11Compact) Sx() string { return "" }
func (c *c11Compact) Nontrivial() bool {
	e := 0
	for _, x := range c.CycleErr {
		if x {
			e++
		}
	}
	return e >= 1
}
func (c *c11Compact) Kind() string { return "compaction/rlimit" }
func (c *c11Compact) Evals() int   { return len(c.Limits) }

// ---- C11, system level: one file of the table cannot be written at all (it is a symlink to /dev/full): the flush
// must report it, whichever file it is

type c11DevFull struct {
	KVs []tblKV `json:"kvs"`
	// observations: per file, did the flush report an error
	Files []string `json:"files"`
	Errs  []bool   `json:"errs"`
	Skip  string   `json:"skip,omitempty"`
	Fatal string   `json:"fatal,omitempty"`
}

func (c *c11DevFull) Exec() {
	defer func() {
		if r := recover(); r != nil {
			c.Fatal = fmt.Sprint("panic: ", r)
		}
	}()
	c.Fatal, c.Files, c.Errs, c.Skip = "", nil, nil, ""
	if _, err := os.Stat("/dev/full"); err != nil {
		c.Skip = "/dev/full is not available"
		return
	}
	for _, f := range []string{sstables.IndexFileName, sstables.DataFileName, sstables.BloomFileName, sstables.MetaFileName} {
		dir := tmpDir("c11d-")
		must(os.Symlink("/dev/full", filepath.Join(dir, f)))
		m := memstore.NewMemStore()
		for _, kv := range c.KVs {
			if kv.Nil {
				must(m.Tombstone(kv.K))
			} else {
				must(m.Upsert(kv.K, kv.val()))
			}
		}
		o := defaultTblOpts()
		o.DataComp, o.WBuf = 0, 64
		err := m.FlushWithTombstones(o.writerOptions(dir)...)
		c.Files = append(c.Files, f)
		c.Errs = append(c.Errs, err != nil)
		os.RemoveAll(dir)
	}
}

func (c *c11DevFull) Oracle() (bool, string) {
	if c.Fatal != "" {
		return false, c.Fatal
	}
	for i, f := range c.Files {
		if !c.Errs[i] {
			return false, fmt.Sprintf("every write to %s fails (no space left on device) but the flush reported success", f)
		}
	}
	return true, ""
}
func (c *c11DevFull) Sx() string       { return "" }
func (c *c11DevFull) Nontrivial() bool { return len(c.Files) == 4 }
func (c *c11DevFull) Kind() string     { return "flush/devfull" }

// ---- C11, system level: recovery (Open) under a file-size limit: the flush of the replayed log fails; Open must
// report it, or at least a later unrestricted Open must still find every acknowledged operation

type c11Recover struct {
	NKeys  int   `json:"nkeys"`
	ValLen int   `json:"val_len"`
	Limits []int `json:"limits"`
	// observations per limit
	OpenErr []bool   `json:"open_err"`
	Bad     []string `json:"bad"`
	Fatal   string   `json:"fatal,omitempty"`
}

func recoverChild(args []string) int {
	fs := flag.NewFlagSet("c11recover", flag.ExitOnError)
	in := fs.String("args", "", "json")
	_ = fs.Parse(args)
	var a compactChildArgs
	childArgs(*in, &a)
	signal.Ignore(syscall.SIGXFSZ)
	lim := syscall.Rlimit{Cur: uint64(a.Limit), Max: uint64(a.Limit)}
	must(syscall.Setrlimit(syscall.RLIMIT_FSIZE, &lim))
	r := &dbRunner{dir: a.Dir}
	if err := r.open(dbOpts{MemstoreBytes: 1 << 30, Threshold: 10, MaxSize: 5 << 30, RatioPct: 100, WBuf: 4096, RBuf: 4096}); err != nil {
		fmt.Println("OPENERR")
		return 0
	}
	fmt.Println("OPENOK")
	return 0 // no Close: whatever Open left on disk is what the next Open finds
}

func init() { subcommands["c11recover"] = recoverChild }

func (c *c11Recover) Exec() {
	defer func() {
		if r := recover(); r != nil {
			c.Fatal = fmt.Sprint("panic: ", r)
		}
	}()
	c.Fatal, c.OpenErr, c.Bad = "", nil, nil
	base := tmpDir("c11r-")
	defer os.RemoveAll(base)
	opts := dbOpts{MemstoreBytes: 1 << 30, Threshold: 10, MaxSize: 5 << 30, RatioPct: 100, WBuf: 4096, RBuf: 4096}
	// a directory whose acknowledged operations exist in the WAL only (the process "was killed": no Close)
	src := filepath.Join(base, "db")
	must(os.MkdirAll(src, 0755))
	r := &dbRunner{dir: src}
	must(r.open(opts))
	ref := map[string][]byte{}
	rnd := rand.New(rand.NewSource(int64(c.NKeys*977 + c.ValLen)))
	for k := 0; k < c.NKeys; k++ {
		v := make([]byte, c.ValLen)
		rnd.Read(v)
		key := fmt.Sprintf("key-%02d", k)
		must(r.db.PutBytes([]byte(key), v))
		ref[key] = v
	}
	img := filepath.Join(base, "img")
	must(copyTree(src, img)) // the kill image: everything was acknowledged (synchronous WAL)
	r.db.Close()
	self, _ := os.Executable()
	for _, lim := range c.Limits {
		work := filepath.Join(base, "work")
		os.RemoveAll(work)
		must(copyTree(img, work))
		a, _ := json.Marshal(compactChildArgs{Dir: work, Limit: lim})
		out, err := exec.Command(self, "c11recover", "--args", string(a)).CombinedOutput()
		if err != nil {
			c.Fatal = fmt.Sprintf("child failed: %v %s", err, out)
			return
		}
		c.OpenErr = append(c.OpenErr, bytes.Contains(out, []byte("OPENERR")))
		bad := ""
		r2 := &dbRunner{dir: work}
		if c.OpenErr[len(c.OpenErr)-1] {
			// the failure was reported: nothing more is required here
		} else if err := r2.open(opts); err != nil {
			bad = "the restricted Open reported success, but afterwards the directory does not re-open: " + err.Error()
		} else {
			for key, want := range ref {
				v, err := r2.db.GetBytes([]byte(key))
				if err != nil || !bytes.Equal(v, want) {
					bad = fmt.Sprintf("after an Open whose recovery flush could not write (it reported error: %v) and a restart, the acknowledged %s is gone or differs (err %v)", c.OpenErr[len(c.OpenErr)-1], key, err)
					break
				}
			}
			r2.db.Close()
		}
		c.Bad = append(c.Bad, bad)
	}
}

func (c *c11Recover) Oracle() (bool, string) {
	if c.Fatal != "" {
		return false, c.Fatal
	}
	for i, b := range c.Bad {
		if b != "" {
			return false, fmt.Sprintf("file size limit %d: %s", c.Limits[i], b)
		}
	}
	return true, ""
}
func (c *c11Recover) Sx() string { return "" }
func (c *c11Recover) Nontrivial() bool {
	e := 0
	for _, x := range c.OpenErr {
		if x {
			e++
		}
	}
	return e >= 1
}
func (c *c11Recover) Kind() string { return "recovery/rlimit" }
func (c *c11Recover) Evals() int   { return len(c.Limits) }

// ---- C11, system level: a memstore flush that fails on the real background goroutine (the data file of the next
// table is a symlink to /dev/full): the process has to stop (or the failure has to reach a caller) - it must not go
// on, block its callers for ever, or close as if nothing had happened

type c11BgFlush struct {
	NPuts   int    `json:"nputs"`
	ValLen  int    `json:"val_len"`
	File    string `json:"file"`               // which file of the table cannot be written
	AtClose bool   `json:"at_close,omitempty"` // the memstore limit is never reached: the failing flush is the one Close hands over
	// observations
	Outcome string `json:"outcome"` // stopped | hung | closed-silently | closed-with-error | flush did not fail
	Out     string `json:"out,omitempty"`
	Fatal   string `json:"fatal,omitempty"`
}

type bgFlushArgs struct {
	Dir     string `json:"dir"`
	NPuts   int    `json:"nputs"`
	ValLen  int    `json:"val_len"`
	File    string `json:"file"`
	AtClose bool   `json:"at_close,omitempty"`
}

func bgFlushChild(args []string) int {
	fs := flag.NewFlagSet("c11bgflush", flag.ExitOnError)
	in := fs.String("args", "", "json")
	_ = fs.Parse(args)
	var a bgFlushArgs
	childArgs(*in, &a)
	limit := uint64(4 * a.ValLen)
	if a.AtClose {
		limit = 1 << 30
	}
	db, err := simpledb.NewSimpleDB(a.Dir, simpledb.MemstoreSizeBytes(limit), simpledb.DisableCompactions(), simpledb.WriteBufferSizeBytes(4096), simpledb.ReadBufferSizeBytes(4096))
	if err == nil {
		err = db.Open()
	}
	if err != nil {
		fmt.Println("OPENERR", err)
		return 0
	}
	// the next tables' directories, with one file that cannot be written
	for g := 0; g < 4; g++ {
		d := filepath.Join(a.Dir, fmt.Sprintf(simpledb.SSTablePattern, g))
		must(os.MkdirAll(d, 0755))
		must(os.Symlink("/dev/full", filepath.Join(d, a.File)))
	}
	go func() {
		time.Sleep(4 * time.Second)
		fmt.Println("HUNG")
		os.Exit(3)
	}()
	for i := 0; i < a.NPuts; i++ {
		v := bytes.Repeat([]byte{byte('a' + i%26)}, a.ValLen)
		if err := db.PutBytes([]byte(fmt.Sprintf("key-%03d", i)), v); err != nil {
			fmt.Println("PUTERR", i, err)
			return 0
		}
	}
	fmt.Println("PUTSDONE")
	time.Sleep(300 * time.Millisecond)
	err = db.Close()
	fmt.Println("CLOSED", err)
	return 0
}

func init() { subcommands["c11bgflush"] = bgFlushChild }

func (c *c11BgFlush) Exec() {
	defer func() {
		if r := recover(); r != nil {
			c.Fatal = fmt.Sprint("panic: ", r)
		}
	}()
	c.Fatal, c.Outcome, c.Out = "", "", ""
	base := tmpDir("c11b-")
	defer os.RemoveAll(base)
	dir := filepath.Join(base, "db")
	must(os.MkdirAll(dir, 0755))
	self, _ := os.Executable()
	a, _ := json.Marshal(bgFlushArgs{Dir: dir, NPuts: c.NPuts, ValLen: c.ValLen, File: c.File, AtClose: c.AtClose})
	out, err := exec.Command(self, "c11bgflush", "--args", string(a)).CombinedOutput()
	c.Out = string(out)
	if len(c.Out) > 600 {
		c.Out = c.Out[:300] + " ... " + c.Out[len(c.Out)-300:]
	}
	switch {
	case bytes.Contains(out, []byte("OPENERR")):
		c.Fatal = "the fresh directory did not open: " + c.Out
	case bytes.Contains(out, []byte("HUNG")):
		c.Outcome = "hung"
	case bytes.Contains(out, []byte("PUTERR")):
		c.Outcome = "closed-with-error"
	case err != nil:
		c.Outcome = "stopped"
	case bytes.Contains(out, []byte("CLOSED <nil>")):
		// every Put and Close reported success: the table must be there, complete
		c.Outcome = "closed-silently"
		silent := false
		tabs, _ := filepath.Glob(filepath.Join(dir, "sstable_*"))
		for _, td := range tabs {
			// a planted directory that a flush has written into (some other table file is there) while the planted file
			// still points to /dev/full: that flush cannot have succeeded
			used := false
			for _, f := range []string{"index.rio", "data.rio", "meta.pb.bin", "bloom.bf.gz"} {
				if st, err := os.Lstat(filepath.Join(td, f)); f != c.File && err == nil && st.Mode().IsRegular() {
					used = true
				}
			}
			if st, err := os.Lstat(filepath.Join(td, c.File)); used && err == nil && st.Mode()&os.ModeSymlink != 0 {
				silent = true
			}
		}
		if !silent {
			c.Outcome = "flush did not fail"
		}
	case bytes.Contains(out, []byte("CLOSED")):
		c.Outcome = "closed-with-error"
	default:
		c.Outcome = "stopped"
	}
}

func (c *c11BgFlush) Oracle() (bool, string) {
	if c.Fatal != "" {
		return false, c.Fatal
	}
	switch c.Outcome {
	case "hung":
		return false, fmt.Sprintf("the flush of a memstore failed on the background goroutine (%s cannot be written): the process did not stop and no call returned an error - a later write blocked for ever", c.File)
	case "closed-silently":
		return false, fmt.Sprintf("the flush of a memstore failed on the background goroutine (%s cannot be written): every Put and Close returned success and the process ended normally", c.File)
	}
	return true, ""
}
func (c *c11BgFlush) Sx() string { return "" }
func (c *c11BgFlush) Nontrivial() bool {
	return c.Outcome == "stopped" || c.Outcome == "closed-with-error"
}
func (c *c11BgFlush) Kind() string { return "flush/background/" + c.File }

// ---- C11, database level: a compaction cycle over an input whose data file went bad on disk AFTER the database had
// loaded it (one altered payload byte; the table still decompresses): the cycle re-reads its inputs, so it has to
// report the damage - it must never merge the altered value into a table with a fresh, matching checksum

type c11Damaged struct {
	NTables int  `json:"ntables"`
	Victim  int  `json:"victim"`
	Comp    bool `json:"comp,omitempty"`
	// instead of one altered value: a hole of zero bytes (longer than a disk block, beginning at a record boundary) in
	// the index file of the victim, which holds hundreds of records
	IdxHole bool `json:"idx_hole,omitempty"`
	// observations
	CycleErr string   `json:"cycle_err,omitempty"`
	Selected []string `json:"selected,omitempty"`
	Records  []uint64 `json:"records,omitempty"` // record counts of the live tables after the cycle
	Wrong    string   `json:"wrong,omitempty"`   // after a cycle that reported success: a key that reads differently than it was written
	Fatal    string   `json:"fatal,omitempty"`
}

func (c *c11Damaged) Exec() {
	defer func() {
		if r := recover(); r != nil {
			c.Fatal = fmt.Sprint("panic: ", r)
		}
	}()
	c.Fatal, c.CycleErr, c.Wrong = "", "", ""
	dir := tmpDir("c11d-")
	defer os.RemoveAll(dir)
	r := &dbRunner{dir: dir}
	must(r.open(dbOpts{MemstoreBytes: 1 << 30, Threshold: 1, MaxSize: 5 << 30, RatioPct: 100, WBuf: 4096, RBuf: 4096}))
	defer func() {
		if r.db != nil {
			r.db.Close()
		}
	}()
	ref := map[string]string{}
	nrec := 3
	if c.IdxHole {
		nrec = 700
	}
	for t := 0; t < c.NTables; t++ {
		for k := 0; k < nrec; k++ {
			key, val := fmt.Sprintf("key-%d-%04d", t, k), fmt.Sprintf("balance=%d", 1000+17*t+k)
			must(r.db.Put(key, val))
			ref[key] = val
		}
		st := dbStep{Op: "rotate"}
		r.step(&st)
	}
	// one more generation, so that the memstore pair no longer holds the content of any of the tables above (the store
	// flushed last stays readable in memory until the next rotation)
	must(r.db.Put("zz-last", "x"))
	ref["zz-last"] = "x"
	last := dbStep{Op: "rotate"}
	r.step(&last)
	tabs := r.db.VerifTables()
	if len(tabs) != c.NTables+1 {
		c.Fatal = "setup: unexpected number of tables"
		return
	}
	tabs = tabs[:c.NTables]
	p := filepath.Join(tabs[c.Victim%len(tabs)].Path, sstables.DataFileName)
	if c.IdxHole {
		p = filepath.Join(tabs[c.Victim%len(tabs)].Path, sstables.IndexFileName)
	}
	data, err := os.ReadFile(p)
	must(err)
	if c.IdxHole {
		// from the first record boundary behind a third of the file, 5000 bytes (or to the end)
		at := -1
		for i := len(data) / 3; i+2 < len(data); i++ {
			if data[i] == 0x91 && data[i+1] == 0x8d && data[i+2] == 0x4c {
				at = i
				break
			}
		}
		if at < 0 || len(data) < 12000 {
			c.Fatal = "setup: index file too small for a hole"
			return
		}
		for i := at; i < at+5000 && i < len(data); i++ {
			data[i] = 0
		}
	} else {
		// the table files are snappy compressed: the last byte of the file is a literal byte of the last value
		data[len(data)-1] ^= 0x08
	}
	must(os.WriteFile(p, data, 0644))
	st := dbStep{Op: "compact"}
	r.step(&st)
	c.CycleErr, c.Selected, c.Records = st.Err, st.Selected, nil
	for _, t := range st.Tables {
		c.Records = append(c.Records, t.Num)
	}
	if st.Err != "" {
		return
	}
	for k, want := range ref {
		v, err := r.db.Get(k)
		if err != nil || v != want {
			c.Wrong = fmt.Sprintf("%s reads %q (err %v), written as %q", k, v, err, want)
			return
		}
	}
}

func (c *c11Damaged) Oracle() (bool, string) {
	if c.Fatal != "" {
		return false, c.Fatal
	}
	if c.CycleErr == "" && c.Wrong != "" {
		return false, "a compaction cycle over a damaged input table (altered value / zeroed stretch of its index) reported success and installed its output: " + c.Wrong
	}
	return true, ""
}
func (c *c11Damaged) Sx() string       { return "" }
func (c *c11Damaged) Nontrivial() bool { return c.CycleErr != "" }
func (c *c11Damaged) Kind() string {
	if c.IdxHole {
		return "compaction/index-hole"
	}
	return "compaction/damaged-input"
}
