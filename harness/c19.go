package main

import (
	"bufio"
	"fmt"
	"math/rand"
	"os"
	"path/filepath"
	"runtime"
	"runtime/debug"
	"strings"
	"time"

	"github.com/thomasjungblut/go-sstables/recordio"
	rProto "github.com/thomasjungblut/go-sstables/recordio/proto"
	"github.com/thomasjungblut/go-sstables/simpledb"
	"github.com/thomasjungblut/go-sstables/skiplist"
	"github.com/thomasjungblut/go-sstables/sstables"
)

// resources held by this process under a directory: open descriptors and memory mappings
func resourcesUnder(dir string) (fds int, maps int) {
	ents, _ := os.ReadDir("/proc/self/fd")
	for _, e := range ents {
		t, err := os.Readlink(filepath.Join("/proc/self/fd", e.Name()))
		if err == nil && strings.HasPrefix(t, dir+"/") {
			fds++
		}
	}
	f, err := os.Open("/proc/self/maps")
	if err == nil {
		defer f.Close()
		sc := bufio.NewScanner(f)
		for sc.Scan() {
			if strings.Contains(sc.Text(), dir+"/") {
				maps++
			}
		}
	}
	return
}

type resObs struct {
	FDs    int `json:"fds"`
	Maps   int `json:"maps"`
	Gor    int `json:"gor"` // goroutines above the baseline taken before Open
	Tables int `json:"tables"`
}

type c19Case struct {
	Mode              string   `json:"mode"` // db | reader
	Opts              dbOpts   `json:"opts"`
	Steps             []dbStep `json:"steps"`             // db mode; "reopen" = Close + Open; the program ends with a Close
	Puts              int      `json:"puts,omitempty"`    // dbbg mode
	ValLen            int      `json:"val_len,omitempty"` // dbbg mode
	WaitCompactionDir bool     `json:"wait_compaction,omitempty"`
	Scans             []string `json:"scans,omitempty"` // reader mode: full | abandoned | range | mmapseek | seqread | writer
	// observations
	After  []resObs `json:"after"` // after every step (db) / every scan (reader)
	Closed resObs   `json:"closed"`
	Fatal  string   `json:"fatal,omitempty"`
}

func settle(base int) int {
	// goroutines that are exiting need a moment (base = the number that may legitimately stay)
	for i := 0; i < 50; i++ {
		if runtime.NumGoroutine() <= base {
			break
		}
		time.Sleep(2 * time.Millisecond)
	}
	return runtime.NumGoroutine() - base
}

func (c *c19Case) Exec() {
	defer func() {
		if r := recover(); r != nil {
			c.Fatal = fmt.Sprint("panic: ", r)
		}
	}()
	c.Fatal, c.After = "", nil
	// finalizers could hide a leak by unmapping a forgotten reader: no GC while measuring
	old := debug.SetGCPercent(-1)
	defer debug.SetGCPercent(old)
	dir := tmpDir("c19-")
	defer os.RemoveAll(dir)
	base := runtime.NumGoroutine()
	if c.Mode == "db" {
		r := &dbRunner{dir: dir}
		if err := r.open(c.Opts); err != nil {
			c.Fatal = "open: " + err.Error()
			return
		}
		for i := range c.Steps {
			s := &c.Steps[i]
			r.step(s)
			if s.Err != "" && s.Err != "NotFound" {
				c.Fatal = fmt.Sprintf("step %d %s: %s", i, s.Op, s.Err)
				return
			}
			fds, maps := resourcesUnder(dir)
			c.After = append(c.After, resObs{FDs: fds, Maps: maps, Gor: settle(base+1) + 1, Tables: len(r.db.VerifTables())})
		}
		if err := r.db.Close(); err != nil {
			c.Fatal = "close: " + err.Error()
			return
		}
		fds, maps := resourcesUnder(dir)
		c.Closed = resObs{FDs: fds, Maps: maps, Gor: settle(base)}
		// the directory can be removed and re-opened by the same process
		if err := os.RemoveAll(dir); err != nil {
			c.Fatal = "remove after close: " + err.Error()
		}
		return
	}
	if c.Mode == "dbslow" {
		r := &dbRunner{dir: dir}
		if err := r.open(dbOpts{MemstoreBytes: 1 << 30, Threshold: 1, MaxSize: 5 << 30, RatioPct: 100, WBuf: 4096, RBuf: 4096}); err != nil {
			c.Fatal = "open: " + err.Error()
			return
		}
		for t := 0; t < 3; t++ {
			for _, st := range []dbStep{{Op: "put", K: []byte(fmt.Sprintf("k%d", t)), V: []byte("v")}, {Op: "rotate"}} {
				st := st
				r.step(&st)
			}
		}
		tabs := r.db.VerifTables()
		if len(tabs) < 3 {
			c.Fatal = "setup: three tables expected"
			return
		}
		slow := tabs[len(tabs)-1].Path
		for i := 0; i < 30000; i++ {
			f, err := os.Create(filepath.Join(slow, fmt.Sprintf("ballast-%05d", i)))
			must(err)
			f.Close()
		}
		st := dbStep{Op: "compact"}
		r.step(&st)
		live := map[string]bool{}
		for _, t := range r.db.VerifTables() {
			live[filepath.Base(t.Path)] = true
		}
		if err := r.db.Close(); err != nil {
			c.Fatal = "close: " + err.Error()
			return
		}
		// right now, with no grace period
		gor := runtime.NumGoroutine() - base
		ents, _ := os.ReadDir(dir)
		for _, e := range ents {
			if e.IsDir() && strings.HasPrefix(e.Name(), "sstable") && !live[e.Name()] {
				c.Fatal = fmt.Sprintf("Close returned while the directory %s of a compacted-away table is still there (%d goroutines of the handle still running)", e.Name(), gor)
				return
			}
		}
		fds, maps := resourcesUnder(dir)
		c.Closed = resObs{FDs: fds, Maps: maps, Gor: settle(base)}
		return
	}
	if c.Mode == "dbbg" {
		// background compactor with a 1ms ticker; tiny memstore so every few puts make a table and the compactor is
		// busy almost all the time; Close arrives at an arbitrary moment of that activity
		opts := []simpledb.ExtraOption{simpledb.MemstoreSizeBytes(c.Opts.MemstoreBytes), simpledb.CompactionFileThreshold(c.Opts.Threshold),
			simpledb.CompactionMaxSizeBytes(c.Opts.MaxSize), simpledb.CompactionRunInterval(time.Millisecond)}
		db, err := simpledb.NewSimpleDB(dir, opts...)
		must(err)
		must(db.Open())
		val := strings.Repeat("v", c.ValLen)
		for i := 0; i < c.Puts; i++ {
			if err := db.Put(fmt.Sprintf("key-%04d", i%97), fmt.Sprintf("%s%d", val, i)); err != nil {
				c.Fatal = "put: " + err.Error()
				return
			}
		}
		if c.WaitCompactionDir {
			// wait (bounded) until a compaction is visibly in flight
			for i := 0; i < 2000; i++ {
				if m, _ := filepath.Glob(filepath.Join(dir, "sstable_compaction*")); len(m) > 0 {
					break
				}
				time.Sleep(50 * time.Microsecond)
			}
		}
		// the compactor and the flusher keep working while this is measured: a sample counts only if the list of live
		// tables is the same before and after it (no installation or reflection completed in between)
		names := func() string {
			var sb strings.Builder
			for _, t := range db.VerifTables() {
				sb.WriteString(t.Path + ";")
			}
			return sb.String()
		}
		var fds, maps int
		for try := 0; try < 50; try++ {
			before := names()
			fds, maps = resourcesUnder(dir)
			if names() == before {
				c.After = append(c.After, resObs{FDs: fds, Maps: maps, Gor: runtime.NumGoroutine() - base, Tables: strings.Count(before, ";")})
				break
			}
		}
		if err := db.Close(); err != nil {
			c.Fatal = "close: " + err.Error()
			return
		}
		fds, maps = resourcesUnder(dir)
		c.Closed = resObs{FDs: fds, Maps: maps, Gor: settle(base)}
		if err := os.RemoveAll(dir); err != nil {
			c.Fatal = "remove after close: " + err.Error()
		}
		return
	}
	// reader mode: table reader and recordio readers/writers with scanners, some abandoned
	var kvs []tblKV
	for i := 0; i < 20; i++ {
		kvs = append(kvs, tblKV{K: []byte(fmt.Sprintf("k%02d", i)), V: []byte(fmt.Sprintf("value-%d", i))})
	}
	_, err := writeTable(dir, defaultTblOpts(), kvs)
	must(err)
	tr, err := sstables.NewSSTableReader(sstables.ReadBasePath(dir))
	must(err)
	rioPath := filepath.Join(dir, sstables.DataFileName)
	var closers []func() error
	for i, sc := range c.Scans {
		switch sc {
		case "full":
			it, err := tr.Scan()
			must(err)
			for {
				if _, _, err := it.Next(); err != nil {
					break
				}
			}
		case "abandoned":
			it, err := tr.Scan()
			must(err)
			it.Next()
		case "range":
			it, err := tr.ScanRange([]byte("k03"), []byte("k09"))
			must(err)
			it.Next()
		case "mmapseek":
			m, err := recordio.NewMemoryMappedReaderWithPath(rioPath)
			must(err)
			must(m.Open())
			m.SeekNext(9)
			closers = append(closers, m.Close)
		case "writerseek":
			// a writer that seeks back over its last records and is closed right away (Close truncates the file then)
			w, err := recordio.NewFileWriter(recordio.Path(filepath.Join(dir, fmt.Sprintf("ws%d.rio", i))))
			must(err)
			must(w.Open())
			var offs []uint64
			for j := 0; j < 4; j++ {
				o, err := w.Write([]byte(fmt.Sprintf("record %d", j)))
				must(err)
				offs = append(offs, o)
			}
			must(w.Seek(offs[2]))
			must(w.Close())
		case "superclose":
			// a stacked reader one of whose members was already closed by its owner: closing the stack must still
			// release every other member
			var members []sstables.SSTableReaderI
			for j := 0; j < 3; j++ {
				td := filepath.Join(dir, fmt.Sprintf("st%d-%d", i, j))
				must(os.MkdirAll(td, 0755))
				_, err := writeTable(td, defaultTblOpts(), kvs)
				must(err)
				m, err := sstables.NewSSTableReader(sstables.ReadBasePath(td))
				must(err)
				members = append(members, m)
			}
			it, err := members[0].Scan()
			must(err)
			it.Next()
			members[0].Close()
			sstables.NewSuperSSTableReader(members, skiplist.BytesComparator{}).Close()
		case "mmapnoopen":
			// a handle that was created (the file is mapped by the constructor) but never opened
			m, err := recordio.NewMemoryMappedReaderWithPath(rioPath)
			must(err)
			closers = append(closers, m.Close)
		case "mmapbadopen":
			// Open fails on a file whose header is cut: the handle still has to be released by Close
			bad := filepath.Join(dir, fmt.Sprintf("cut%d.rio", len(closers)))
			must(os.WriteFile(bad, []byte{4, 0, 0}, 0644))
			m, err := recordio.NewMemoryMappedReaderWithPath(bad)
			must(err)
			if m.Open() == nil {
				c.Fatal = "a file with a three-byte header was opened"
			}
			closers = append(closers, func() error { m.Close(); return nil })
		case "tblidx":
			// a table reader per index loader (the on-disk index keeps a mapping of the index file of its own):
			// a lookup and a range scan step, then Close
			t2, err := sstables.NewSSTableReader(sstables.ReadBasePath(dir), sstables.ReadIndexLoader(loaderFor([]string{"slice", "skiplist", "map4", "disk"}[i%4], 4096)))
			must(err)
			t2.Get([]byte("k05"))
			if it, err := t2.ScanRange([]byte("k03"), []byte("k09")); err == nil {
				it.Next()
			}
			must(t2.Close())
		case "seqfile":
			// a reader that takes over an open file
			fh, err := os.Open(rioPath)
			must(err)
			f, err := recordio.NewFileReaderWithFile(fh)
			must(err)
			must(f.Open())
			f.ReadNext()
			must(f.Close())
		case "writerfile":
			fh, err := os.Create(filepath.Join(dir, fmt.Sprintf("wf%d.rio", i)))
			must(err)
			w, err := recordio.NewFileWriter(recordio.File(fh))
			must(err)
			must(w.Open())
			w.Write([]byte("x"))
			must(w.Close())
		case "protoread":
			// the protobuf flavours of the readers over the index file
			pr, err := rProto.NewReader(rProto.ReaderPath(filepath.Join(dir, sstables.IndexFileName)))
			must(err)
			must(pr.Open())
			pr.SkipNext()
			must(pr.Close())
			pm, err := rProto.NewMMapProtoReaderWithPath(filepath.Join(dir, sstables.IndexFileName))
			must(err)
			must(pm.Open())
			must(pm.Close())
		case "seqread":
			f, err := recordio.NewFileReaderWithPath(rioPath)
			must(err)
			must(f.Open())
			f.ReadNext()
			closers = append(closers, f.Close)
		case "writer":
			w, err := recordio.NewFileWriter(recordio.Path(filepath.Join(dir, fmt.Sprintf("w%d.rio", len(closers)))))
			must(err)
			must(w.Open())
			w.Write([]byte("x"))
			closers = append(closers, w.Close)
		}
		fds, maps := resourcesUnder(dir)
		c.After = append(c.After, resObs{FDs: fds, Maps: maps, Gor: runtime.NumGoroutine() - base})
	}
	for _, cl := range closers {
		must(cl())
	}
	must(tr.Close())
	fds, maps := resourcesUnder(dir)
	c.Closed = resObs{FDs: fds, Maps: maps, Gor: settle(base)}
}

func (c *c19Case) Oracle() (bool, string) {
	if c.Fatal != "" {
		return false, c.Fatal
	}
	if c.Closed.FDs != 0 || c.Closed.Maps != 0 {
		return false, fmt.Sprintf("after Close %d descriptors and %d mappings under the directory are still held", c.Closed.FDs, c.Closed.Maps)
	}
	if c.Closed.Gor > 0 {
		return false, fmt.Sprintf("after Close %d goroutines started by the handle are still running", c.Closed.Gor)
	}
	if c.Mode == "dbbg" {
		for _, o := range c.After {
			// a compaction in flight holds its own reader and scanner per input, and a writer
			if o.Maps > 2*o.Tables+2 || o.FDs > o.Tables+8 {
				return false, fmt.Sprintf("before Close: %d mappings and %d descriptors held for %d live tables", o.Maps, o.FDs, o.Tables)
			}
		}
	}
	if c.Mode == "db" {
		for i, o := range c.After {
			// one mapping per live table (its data file), the WAL descriptor, plus a small constant
			if o.Maps > o.Tables+1 || o.FDs > o.Tables+3 {
				return false, fmt.Sprintf("after step %d (%s): %d mappings and %d descriptors held for %d live tables", i, c.Steps[i].Op, o.Maps, o.FDs, o.Tables)
			}
			if o.Gor > 3 {
				return false, fmt.Sprintf("after step %d: %d background goroutines", i, o.Gor)
			}
		}
	}
	return true, ""
}

func (c *c19Case) Sx() string {
	if c.Fatal != "" {
		return ""
	}
	if c.Mode == "db" {
		steps, ok := sxDbSteps(c.Opts, c.Steps)
		if !ok || len(c.After) != len(c.Steps) {
			return ""
		}
		var after []string
		for _, o := range c.After {
			after = append(after, sxL(sxI(o.Maps), sxI(o.FDs), sxI(o.Gor)))
		}
		return sxL("n0", sxBool(false), steps, sxList(after), sxL(sxI(c.Closed.Maps), sxI(c.Closed.FDs), sxI(c.Closed.Gor)))
	}
	if c.Mode != "reader" {
		return ""
	}
	code := map[string]int{"full": 0, "abandoned": 1, "range": 2, "mmapseek": 3, "seqread": 4, "writer": 5}
	var ops, after []string
	for _, sc := range c.Scans {
		if _, ok := code[sc]; !ok {
			return "" // handles that are never (successfully) opened are not part of the reader ledger: the oracle judges them
		}
	}
	for i, sc := range c.Scans {
		ops = append(ops, sxI(code[sc]))
		after = append(after, sxL(sxI(c.After[i].FDs), sxI(c.After[i].Maps)))
	}
	return sxL("n1", sxList(ops), sxList(after), sxL(sxI(c.Closed.FDs), sxI(c.Closed.Maps)))
}

func (c *c19Case) Nontrivial() bool { return len(c.Steps) >= 5 || len(c.Scans) >= 3 || c.Puts >= 100 }
func (c *c19Case) Kind() string     { return c.Mode }

func genC19(r *rand.Rand, tier string) []Case {
	n := 30
	if tier == "thorough" {
		n = 400
	}
	var cases []Case
	for i := 0; i < n; i++ {
		if i%6 == 1 {
			// close while the background compactor is busy
			cases = append(cases, &c19Case{Mode: "dbbg", Opts: dbOpts{MemstoreBytes: uint64(200 + r.Intn(3000)), Threshold: r.Intn(3), MaxSize: 5 << 30},
				Puts: 200 + r.Intn(1500), ValLen: 10 + r.Intn(200), WaitCompactionDir: r.Intn(2) == 0})
			continue
		}
		if i%6 == 4 {
			// an EMPTY table (everything in the oldest run deleted) takes part in later compactions
			c := &c19Case{Mode: "db", Opts: dbOpts{MemstoreBytes: 1 << 30, Threshold: r.Intn(2), MaxSize: 5 << 30, RatioPct: 20, WBuf: 4096, RBuf: 4096}}
			c.Steps = append(c.Steps, dbStep{Op: "put", K: []byte("a"), V: []byte("1")}, dbStep{Op: "rotate"}, dbStep{Op: "del", K: []byte("a")}, dbStep{Op: "rotate"}, dbStep{Op: "compact"})
			for j := 0; j < 2+r.Intn(6); j++ {
				c.Steps = append(c.Steps, dbStep{Op: "put", K: []byte("b"), V: []byte(fmt.Sprintf("v%d", j))})
				if r.Intn(2) == 0 {
					c.Steps = append(c.Steps, dbStep{Op: "del", K: []byte("b")})
				}
				c.Steps = append(c.Steps, dbStep{Op: "rotate"}, dbStep{Op: "compact"})
				if r.Intn(5) == 0 {
					c.Steps = append(c.Steps, dbStep{Op: "reopen"})
				}
			}
			cases = append(cases, c)
			continue
		}
		if i%3 == 2 {
			c := &c19Case{Mode: "reader"}
			kinds := []string{"full", "abandoned", "range", "mmapseek", "seqread", "writer"}
			if i%2 == 0 {
				kinds = append(kinds, "mmapnoopen", "mmapbadopen", "writerseek", "superclose", "tblidx", "seqfile", "writerfile", "protoread")
			}
			for j := 0; j < 2+r.Intn(8); j++ {
				c.Scans = append(c.Scans, kinds[r.Intn(len(kinds))])
			}
			if i%2 == 0 {
				c.Scans = append(c.Scans, "superclose", "writerseek", "tblidx", "tblidx", "tblidx", "tblidx", "seqfile", "protoread", "mmapnoopen", "mmapbadopen", "writerfile")
			}
			cases = append(cases, c)
			continue
		}
		keys := [][]byte{[]byte("a"), []byte("b"), []byte("c"), []byte("d")}
		c := &c19Case{Mode: "db", Opts: dbOpts{MemstoreBytes: 1 << 30, Threshold: []int{0, 1, 3}[r.Intn(3)], MaxSize: 5 << 30, RatioPct: 20, WBuf: 4096, RBuf: 4096}}
		if i%4 == 3 {
			c.Opts.AsyncWAL, c.Opts.DirectIOWAL = true, dioAvailable // the log through direct I/O (probed on every Open)
		}
		cycles := 3 + r.Intn(18)
		if tier == "thorough" && i%20 == 0 {
			cycles = 200
		}
		for j := 0; j < cycles; j++ {
			c.Steps = append(c.Steps, dbStep{Op: "put", K: keys[r.Intn(4)], V: []byte(fmt.Sprintf("v%d", j))})
			if r.Intn(3) == 0 {
				c.Steps = append(c.Steps, dbStep{Op: "del", K: keys[r.Intn(4)]})
			}
			c.Steps = append(c.Steps, dbStep{Op: "get", K: keys[r.Intn(4)]}, dbStep{Op: "rotate"})
			if r.Intn(2) == 0 {
				c.Steps = append(c.Steps, dbStep{Op: "compact"})
			}
			if r.Intn(7) == 0 {
				st := dbStep{Op: "reopen"}
				if r.Intn(2) == 0 {
					st.Torn = 1 + r.Intn(8) // recovery meets a WAL file whose header was never (completely) written
				}
				if r.Intn(2) == 0 {
					st.TornMarker = 1 + r.Intn(2) // ... and a leftover compaction whose success marker was cut
				}
				c.Steps = append(c.Steps, st)
			}
		}
		c.Steps = append(c.Steps, dbStep{Op: "reopen", TornMarker: 1 + i%2}, dbStep{Op: "get", K: keys[0]})
		cases = append(cases, c)
	}
	// a compaction whose inputs take long to delete (tens of thousands of files in one input directory), Close right
	// after it: when Close returns nothing of the compacted-away tables may be left or still being removed
	cases = append(cases, &c19Case{Mode: "dbslow"})
	return cases
}

func init() {
	register(&Prop{
		ID: "C19", Num: 19,
		Gen:  genC19,
		New:  func() Case { return &c19Case{} },
		Rule: "reader sequences also open / use / close a table reader per index loader (slice, skip list, map, disk), readers and writers that take over an open file, and the proto readers; database workloads of 3-20 (thorough: up to 200) rotation/flush/compaction cycles with open/close rounds: after EVERY step the descriptors (/proc/self/fd) and mappings (/proc/self/maps) under the database directory and the goroutine count are measured (GC disabled so finalizers cannot hide a leak) and compared with the number of live tables; after Close all must be zero and the directory removable; table-reader / RecordIO reader / writer sequences with complete, abandoned and range scanners, then Close. Non-trivial: >=5 steps or >=3 scanners.",
	})
}
