package main

import (
	"bytes"
	"encoding/json"
	"flag"
	"fmt"
	"math/rand"
	"os"
	"path/filepath"
	"sort"
	"strings"
	"time"

	"github.com/thomasjungblut/go-sstables/simpledb"
)

// ---- child processes

type dbWlArgs struct {
	Dir   string   `json:"dir"`
	Ack   string   `json:"ack"`
	Opts  dbOpts   `json:"opts"`
	Steps []dbStep `json:"steps"`
}

// the workload: every step is bracketed by begin/ack markers; the process exits without Close
// unless the last step is "close"
func dbWlChild(args []string) int {
	fs := flag.NewFlagSet("c02wl", flag.ExitOnError)
	in := fs.String("args", "", "json")
	_ = fs.Parse(args)
	var a dbWlArgs
	childArgs(*in, &a)
	ack := newAckWriter(a.Ack)
	r := &dbRunner{dir: a.Dir}
	if err := r.open(a.Opts); err != nil {
		fmt.Println("OPENERR", err)
		return 1
	}
	for i := range a.Steps {
		s := &a.Steps[i]
		ack.begin(i)
		if s.Op == "close" {
			if err := r.db.Close(); err != nil {
				fmt.Println("CLOSEERR", err)
				return 1
			}
			ack.ack(i)
			continue
		}
		r.step(s)
		if s.Err == "" || s.Err == "NotFound" || s.Err == "Rejected" {
			ack.ack(i)
		} else {
			fmt.Printf("STEPERR %d %s %s\n", i, s.Op, s.Err)
			return 1
		}
	}
	return 0
}

type dbOpenArgs struct {
	Dir  string   `json:"dir"`
	Opts dbOpts   `json:"opts"`
	Keys [][]byte `json:"keys"`
}

type dbOpenRes struct {
	Err    string   `json:"err,omitempty"`
	Vals   [][]byte `json:"vals"` // value per key, nil entry = not found
	Found  []bool   `json:"found"`
	Tables []uint64 `json:"tables"` // generations of the live tables right after Open
}

// open an image, read every key, close
func dbOpenChild(args []string) int {
	fs := flag.NewFlagSet("c02open", flag.ExitOnError)
	in := fs.String("args", "", "json")
	_ = fs.Parse(args)
	var a dbOpenArgs
	childArgs(*in, &a)
	res := dbOpenRes{}
	db, err := simpledb.NewSimpleDB(a.Dir, a.Opts.options()...)
	if err == nil {
		err = db.Open()
	}
	if err != nil {
		res.Err = err.Error()
	} else {
		for _, t := range db.VerifTables() {
			g, _ := genOfDir(filepath.Base(t.Path))
			res.Tables = append(res.Tables, g)
		}
		for _, k := range a.Keys {
			v, err := db.GetBytes(k)
			if err != nil {
				res.Vals, res.Found = append(res.Vals, nil), append(res.Found, false)
				if dbErrName(err) != "NotFound" {
					res.Err = "get: " + err.Error()
				}
			} else {
				res.Vals, res.Found = append(res.Vals, v), append(res.Found, true)
			}
		}
		if os.Getenv("VERIF_NO_CLOSE") == "" {
			if err := db.Close(); err != nil && res.Err == "" {
				res.Err = "close: " + err.Error()
			}
		}
	}
	js, _ := json.Marshal(res)
	fmt.Println(string(js))
	return 0
}

func init() {
	subcommands["c02wl"] = dbWlChild
	subcommands["c02open"] = dbOpenChild
}

// ---- the case

type dbImgObs struct {
	Boundary int       `json:"boundary"`
	Acked    int       `json:"acked"`
	InFlight int       `json:"inflight"`
	Res      dbOpenRes `json:"res"`
	Child    string    `json:"child,omitempty"` // "hang" / "crashed: ..."
	Nested   []nestObs `json:"nested,omitempty"`
	What     string    `json:"what,omitempty"` // last event before the boundary
	Abs      string    `json:"abs,omitempty"`  // the image as a disk of Fs/Crash.v
	// the recovered session killed again while idle (Open returned, nothing else happened), then opened once more
	Again      *dbOpenRes `json:"again,omitempty"`
	AgainChild string     `json:"again_child,omitempty"`
}

type nestObs struct {
	Boundary int       `json:"boundary"`
	Res      dbOpenRes `json:"res"`
	Child    string    `json:"child,omitempty"`
	What     string    `json:"what,omitempty"`
	Abs      string    `json:"abs,omitempty"`
	Alt      bool      `json:"alt,omitempty"` // an image of another listing order: not the successor of the previous one
}

type c02Case struct {
	Opts  dbOpts   `json:"opts"`
	Steps []dbStep `json:"steps"`
	Keys  [][]byte `json:"keys"`
	Nest  int      `json:"nest"`             // number of distinct images on which recovery itself is cut (C10)
	NoAbs bool     `json:"no_abs,omitempty"` // big sessions: the images are judged by the oracle only, not by the model
	// observations
	Images []dbImgObs `json:"images"`
	// asynchronous log only: images in which the newest log file holds records, with that file cut at byte lengths (the
	// write buffer reaches the file in pieces whose ends fall anywhere in a record, depending on the record sizes)
	WalCuts []dbImgObs `json:"wal_cuts,omitempty"`
	NEvents int        `json:"n_events"`
	Fatal   string     `json:"fatal,omitempty"`
	Skipped string     `json:"skipped,omitempty"` // the tracing infrastructure failed for this case
}

// newestWal: name and size of the log file with the highest number in an image
func newestWal(img string) (string, int64) {
	wals, _ := filepath.Glob(filepath.Join(img, "wal", "*.wal"))
	if len(wals) == 0 {
		return "", 0
	}
	sort.Strings(wals)
	st, err := os.Stat(wals[len(wals)-1])
	if err != nil {
		return "", 0
	}
	return filepath.Base(wals[len(wals)-1]), st.Size()
}

// imageFeatures: what kind of recovery work an image asks for (used to pick images for nested kills)
func imageFeatures(img string) string {
	wals, _ := filepath.Glob(filepath.Join(img, "wal", "*.wal"))
	flags, _ := filepath.Glob(filepath.Join(img, "sstable_compaction*", "compaction_successful"))
	comps, _ := filepath.Glob(filepath.Join(img, "sstable_compaction*"))
	tables, _ := filepath.Glob(filepath.Join(img, "sstable_0*"))
	partial := 0
	for _, t := range tables {
		if st, err := os.Stat(filepath.Join(t, "meta.pb.bin")); err != nil || st.Size() == 0 {
			partial++
		}
	}
	nw := 0
	for _, w := range wals {
		if st, err := os.Stat(w); err == nil && st.Size() > 8 {
			nw++ // WAL files that hold records
		}
	}
	if nw > 3 {
		nw = 3
	}
	nt := len(tables)
	if nt > 3 {
		nt = 3
	}
	return fmt.Sprintf("wal=%d flag=%d comp=%d partial=%d tables=%d", nw, len(flags), len(comps), partial, nt)
}

func evWhat(e fsEvent, root string) string {
	p, _ := filepath.Rel(root, e.Path)
	s := e.Kind + " " + p
	if e.Kind == "write" {
		s += fmt.Sprintf(" @%d+%d", e.Off, len(e.Data))
	}
	if e.To != "" {
		t, _ := filepath.Rel(root, e.To)
		s += " -> " + t
	}
	return s
}

func parseOpen(so, cerr string) (dbOpenRes, string) {
	var res dbOpenRes
	if cerr != "" {
		return res, cerr
	}
	if json.Unmarshal([]byte(so), &res) != nil {
		return res, "bad child output: " + so
	}
	return res, ""
}

func (c *c02Case) Exec() {
	defer func() {
		if r := recover(); r != nil {
			c.Fatal = fmt.Sprint("panic: ", r)
		}
	}()
	c.Fatal, c.Images, c.Skipped = "", nil, ""
	dir := tmpDir("c02-")
	defer os.RemoveAll(dir)
	root := filepath.Join(dir, []string{"db", "sstable_db"}[len(c.Steps)%2])
	must(os.MkdirAll(root, 0755))
	ackPath := filepath.Join(dir, "ACK")
	events, out, err := runTraced("c02wl", dbWlArgs{Dir: root, Ack: ackPath, Opts: c.Opts, Steps: c.Steps}, root, ackPath, filepath.Join(dir, "trace.txt"), 120*time.Second,
		func() { os.RemoveAll(root); must(os.MkdirAll(root, 0755)) })
	if err != nil {
		if straceTrouble(err.Error()) {
			c.Skipped = "the tracer failed: " + err.Error() // says nothing about the library: the case is not counted
			return
		}
		c.Fatal = "trace: " + err.Error() + " " + out
		return
	}
	c.NEvents = len(events)
	img := filepath.Join(dir, "img")
	must(os.MkdirAll(img, 0755))
	acked, inflight := 0, -1
	seen := map[string]bool{}
	featSeen := map[string]bool{}
	type savedImg struct {
		idx  int
		path string
		feat string
	}
	var saved []savedImg
	type cutCand struct {
		path, file, what   string
		size               int
		acked, inflight, b int
	}
	var cutCands []cutCand
	cutSeen := map[string]bool{}
	c.WalCuts = nil
	test := func(b int, what string) {
		d := treeDigest(img) + fmt.Sprintf("|%d|%d", acked, inflight)
		if seen[d] {
			return
		}
		seen[d] = true
		cp := filepath.Join(dir, "cp", filepath.Base(root)) // Open sees the same directory name as the session did
		os.RemoveAll(filepath.Join(dir, "cp"))
		must(os.MkdirAll(filepath.Join(dir, "cp"), 0755))
		must(copyTree(img, cp))
		ob := dbImgObs{Boundary: b, Acked: acked, InFlight: inflight, What: what}
		if !c.NoAbs {
			ob.Abs = absImage(img)
		}
		so, cerr := runChild("c02open", dbOpenArgs{Dir: cp, Opts: c.Opts, Keys: c.Keys}, 30*time.Second)
		ob.Res, ob.Child = parseOpen(so, cerr)
		if ob.Child == "" && ob.Res.Err == "" && len(c.Images)%2 == 0 {
			cpk := filepath.Join(dir, "cpk", filepath.Base(root))
			os.RemoveAll(filepath.Join(dir, "cpk"))
			must(os.MkdirAll(filepath.Join(dir, "cpk"), 0755))
			must(copyTree(img, cpk))
			os.Setenv("VERIF_NO_CLOSE", "1")
			runChild("c02open", dbOpenArgs{Dir: cpk, Opts: c.Opts, Keys: c.Keys}, 30*time.Second)
			os.Unsetenv("VERIF_NO_CLOSE")
			so2, cerr2 := runChild("c02open", dbOpenArgs{Dir: cpk, Opts: c.Opts, Keys: c.Keys}, 30*time.Second)
			r2, ch2 := parseOpen(so2, cerr2)
			ob.Again, ob.AgainChild = &r2, ch2
		}
		c.Images = append(c.Images, ob)
		if c.Opts.AsyncWAL && len(cutCands) < 2 {
			if name, size := newestWal(img); size > 20 && !cutSeen[name] {
				cutSeen[name] = true
				sp := filepath.Join(dir, fmt.Sprintf("cutcand%d", len(cutCands)))
				must(copyTree(img, sp))
				cutCands = append(cutCands, cutCand{path: sp, file: name, size: int(size), acked: acked, inflight: inflight, b: b, what: what})
			}
		}
		if c.Nest > 0 {
			feat := imageFeatures(img)
			if !featSeen[feat] || len(saved) < 4*c.Nest {
				featSeen[feat] = true
				sp := filepath.Join(dir, fmt.Sprintf("saved%d", len(saved)))
				must(copyTree(img, sp))
				saved = append(saved, savedImg{idx: len(c.Images) - 1, path: sp, feat: feat})
			}
		}
	}
	// C10: on selected images the recovery itself runs under strace and is cut at every boundary
	nestOn := func(si savedImg) {
		ob := &c.Images[si.idx]
		cp := filepath.Join(dir, "cpn", filepath.Base(root))
		os.RemoveAll(filepath.Join(dir, "cpn"))
		must(os.MkdirAll(filepath.Join(dir, "cpn"), 0755))
		must(copyTree(si.path, cp))
		os.Setenv("VERIF_NO_CLOSE", "1")
		evs, _, err := runTraced("c02open", dbOpenArgs{Dir: cp, Opts: c.Opts, Keys: c.Keys}, cp, filepath.Join(dir, "NOACK"), filepath.Join(dir, "trace2.txt"), 60*time.Second,
			func() { os.RemoveAll(cp); must(copyTree(si.path, cp)) })
		os.Unsetenv("VERIF_NO_CLOSE")
		if err != nil && straceTrouble(err.Error()) {
			return // the tracer failed: no nested images for this one
		}
		if err != nil {
			ob.Nested = append(ob.Nested, nestObs{Boundary: -1, Child: "traced recovery failed: " + err.Error()})
			return
		}
		img2 := filepath.Join(dir, "img2")
		os.RemoveAll(img2)
		must(copyTree(si.path, img2))
		seen2 := map[string]bool{}
		testNested := func(j int, what string, image string) {
			d2 := treeDigest(image)
			if seen2[d2] {
				return
			}
			seen2[d2] = true
			cp2 := filepath.Join(dir, "cp2", filepath.Base(root))
			os.RemoveAll(filepath.Join(dir, "cp2"))
			must(os.MkdirAll(filepath.Join(dir, "cp2"), 0755))
			must(copyTree(image, cp2))
			so, cerr := runChild("c02open", dbOpenArgs{Dir: cp2, Opts: c.Opts, Keys: c.Keys}, 30*time.Second)
			n := nestObs{Boundary: j, What: what, Alt: image != img2}
			if !c.NoAbs {
				n.Abs = absImage(image)
			}
			n.Res, n.Child = parseOpen(so, cerr)
			ob.Nested = append(ob.Nested, n)
		}
		for j, e := range evs {
			if !e.mutating() {
				continue
			}
			// a run of unlinks in one directory comes from RemoveAll, whose order is the directory listing
			// order of the file system: every subset of the run is a possible kill image
			if e.Kind == "unlink" && e.Rel && (j == 0 || !(evs[j-1].Kind == "unlink" && evs[j-1].Rel && filepath.Dir(evs[j-1].Path) == filepath.Dir(e.Path))) {
				var run []fsEvent
				for k := j; k < len(evs) && evs[k].Kind == "unlink" && evs[k].Rel && filepath.Dir(evs[k].Path) == filepath.Dir(e.Path); k++ {
					run = append(run, evs[k])
				}
				if len(run) >= 2 && len(run) <= 4 {
					for mask := 1; mask < (1<<len(run))-1; mask++ {
						alt := filepath.Join(dir, "img3")
						os.RemoveAll(alt)
						must(copyTree(img2, alt))
						desc := "other listing order:"
						for b, re := range run {
							if mask&(1<<b) != 0 {
								_ = applyEvent(alt, cp, re)
								desc += " " + evWhat(re, cp)
							}
						}
						testNested(j, desc, alt)
					}
				}
			}
			if err := applyEvent(img2, cp, e); err != nil {
				ob.Nested = append(ob.Nested, nestObs{Boundary: j, Child: "replay of recovery event failed: " + err.Error(), What: evWhat(e, cp)})
				break
			}
			testNested(j, evWhat(e, cp), img2)
		}
		if replayExplainsFinal(img2, cp) != "" {
			ob.Nested = nil // the traced recovery was not understood (tracer or parser trouble): nothing follows from it
		}
	}
	test(-1, "start")
	for i, e := range events {
		switch e.Kind {
		case "begin":
			inflight = e.Op
			continue
		case "ack":
			acked = e.Op + 1
			inflight = -1
			// the instant right after an operation returned and before any further system call
			test(i, fmt.Sprintf("return of step %d", e.Op))
			continue
		}
		if !e.mutating() {
			continue
		}
		if err := applyEvent(img, root, e); err != nil {
			c.Fatal = fmt.Sprintf("replaying event %d (%s): %v", i, evWhat(e, root), err)
			return
		}
		test(i, evWhat(e, root))
	}
	// the replayed events must reproduce the directory the session really left behind; if they do not, the trace was
	// not understood (tracer or parser trouble) and nothing about the library follows from this case
	if d := replayExplainsFinal(img, root); d != "" {
		c.Skipped = "replaying the traced events does not reproduce the final directory: trace not understood (" + d + ")"
		c.Images = nil
		return
	}
	for _, cc := range cutCands {
		data, err := os.ReadFile(filepath.Join(cc.path, "wal", cc.file))
		if err != nil {
			continue
		}
		var lens []int
		for n := len(data) - 1; n >= 8 && n >= len(data)-40; n-- {
			lens = append(lens, n)
		}
		for n := 8; n < len(data)-40; n += 1 + len(data)/23 {
			lens = append(lens, n)
		}
		for _, n := range lens {
			cp := filepath.Join(dir, "cpc", filepath.Base(root))
			os.RemoveAll(filepath.Join(dir, "cpc"))
			must(os.MkdirAll(filepath.Join(dir, "cpc"), 0755))
			must(copyTree(cc.path, cp))
			must(os.WriteFile(filepath.Join(cp, "wal", cc.file), data[:n], 0644))
			ob := dbImgObs{Boundary: cc.b, Acked: cc.acked, InFlight: cc.inflight, What: fmt.Sprintf("%s; the newest log file %s cut at %d of %d bytes", cc.what, cc.file, n, len(data))}
			so, cerr := runChild("c02open", dbOpenArgs{Dir: cp, Opts: c.Opts, Keys: c.Keys}, 30*time.Second)
			ob.Res, ob.Child = parseOpen(so, cerr)
			c.WalCuts = append(c.WalCuts, ob)
		}
	}
	if c.Nest > 0 {
		prio := func(f string) int {
			p := 0
			if strings.Contains(f, "flag=1") {
				p += 8
			}
			if !strings.Contains(f, "wal=0") {
				p += 4 // acknowledged operations that exist in the WAL only
			}
			if strings.Contains(f, "wal=2") || strings.Contains(f, "wal=3") {
				p += 2
			}
			if strings.Contains(f, "wal=3") {
				p += 2
			}
			if strings.Contains(f, "partial=1") {
				p += 2
			}
			if !strings.Contains(f, "comp=0") {
				p++
			}
			return p
		}
		sort.SliceStable(saved, func(i, j int) bool { return prio(saved[i].feat) > prio(saved[j].feat) })
		// round robin over the kinds of recovery work, so that every kind gets its share of the budget
		class := func(f string) string {
			switch {
			case !strings.Contains(f, "wal=0") && !strings.Contains(f, "flag=1"):
				return "wal"
			case strings.Contains(f, "flag=1"):
				return "flag"
			case !strings.Contains(f, "partial=0"):
				return "partial"
			}
			return "other"
		}
		groups := map[string][]savedImg{}
		for _, si := range saved {
			groups[class(si.feat)] = append(groups[class(si.feat)], si)
		}
		done := map[string]int{}
		n := 0
		for round := 0; n < c.Nest && round < len(saved); round++ {
			for _, cl := range []string{"wal", "flag", "partial", "other"} {
				g := groups[cl]
				// next image of this class whose feature string was used least
				best := -1
				for i, si := range g {
					if si.path == "" {
						continue
					}
					if best < 0 || done[si.feat] < done[g[best].feat] {
						best = i
					}
				}
				if best < 0 || n >= c.Nest {
					continue
				}
				done[g[best].feat]++
				n++
				nestOn(g[best])
				g[best].path = ""
			}
		}
	}
}

// reference map after the first n steps
func (c *c02Case) refAfter(n int) map[string][]byte {
	ref := map[string][]byte{}
	for i := 0; i < n && i < len(c.Steps); i++ {
		s := &c.Steps[i]
		switch s.Op {
		case "put", "putb":
			if len(s.key()) > 0 && len(s.val()) > 0 {
				ref[string(s.key())] = s.val()
			}
		case "del", "delb":
			delete(ref, string(s.key()))
		}
	}
	return ref
}

func (c *c02Case) stateEquals(res dbOpenRes, ref map[string][]byte) bool {
	for i, k := range c.Keys {
		want, ok := ref[string(k)]
		if ok != res.Found[i] || (ok && !bytes.Equal(want, res.Vals[i])) {
			return false
		}
	}
	return true
}

func (c *c02Case) checkImage(where string, acked, inflight int, res dbOpenRes, child string) (bool, string) {
	if child != "" {
		return false, fmt.Sprintf("%s: re-opening the directory: %s", where, child)
	}
	if res.Err != "" {
		return false, fmt.Sprintf("%s: re-opening the directory failed: %s", where, res.Err)
	}
	if len(res.Found) != len(c.Keys) {
		return false, where + ": incomplete read-back"
	}
	if c.Opts.AsyncWAL {
		// C13: the state of some prefix of the acknowledged sequence that covers everything before the last completed rotation
		lastRot := 0
		for i := 0; i < acked; i++ {
			if c.Steps[i].Op == "rotate" || c.Steps[i].Op == "close" || c.Steps[i].Op == "reopen" {
				lastRot = i
			}
		}
		hi := acked
		if inflight >= 0 {
			hi = inflight + 1
		}
		for p := lastRot; p <= hi; p++ {
			if c.stateEquals(res, c.refAfter(p)) {
				return true, ""
			}
		}
		return false, fmt.Sprintf("%s: the recovered state is not the state after any prefix (>= %d ops, the last rotation) of the %d acknowledged operations", where, lastRot, acked)
	}
	// C02: exactly the acknowledged operations; the one in flight may or may not be there
	if c.stateEquals(res, c.refAfter(acked)) {
		return true, ""
	}
	if inflight >= 0 && c.stateEquals(res, c.refAfter(inflight+1)) {
		return true, ""
	}
	for i, k := range c.Keys {
		want, ok := c.refAfter(acked)[string(k)]
		if ok != res.Found[i] || (ok && !bytes.Equal(want, res.Vals[i])) {
			return false, fmt.Sprintf("%s (acked %d ops, in flight %d): key %q reads %q found=%v, acknowledged state says %q present=%v", where, acked, inflight, k, trunc(res.Vals[i]), res.Found[i], trunc(want), ok)
		}
	}
	return false, where + ": state differs"
}

func trunc(b []byte) []byte {
	if len(b) > 24 {
		return append(append([]byte{}, b[:24]...), '.', '.')
	}
	return b
}

func (c *c02Case) Oracle() (bool, string) {
	if c.Skipped != "" {
		return true, ""
	}
	if c.Fatal != "" {
		return false, c.Fatal
	}
	for _, im := range c.WalCuts {
		where := fmt.Sprintf("kill after event %d [%s]", im.Boundary, im.What)
		if ok, m := c.checkImage(where, im.Acked, im.InFlight, im.Res, im.Child); !ok {
			return false, m
		}
	}
	for _, im := range c.Images {
		where := fmt.Sprintf("kill after event %d [%s]", im.Boundary, im.What)
		if ok, m := c.checkImage(where, im.Acked, im.InFlight, im.Res, im.Child); !ok {
			return false, m
		}
		if im.Again != nil {
			w2 := where + ", recovered, the recovered session killed while idle"
			if im.AgainChild != "" || im.Again.Err != "" {
				return false, fmt.Sprintf("%s: the next Open failed: %s%s", w2, im.AgainChild, im.Again.Err)
			}
			for i := range c.Keys {
				if im.Again.Found[i] != im.Res.Found[i] || !bytes.Equal(im.Again.Vals[i], im.Res.Vals[i]) {
					return false, fmt.Sprintf("%s: key %q reads %q (found=%v), the recovered session itself read %q (found=%v)", w2, c.Keys[i], trunc(im.Again.Vals[i]), im.Again.Found[i], trunc(im.Res.Vals[i]), im.Res.Found[i])
				}
			}
		}
		for _, n := range im.Nested {
			w2 := fmt.Sprintf("%s, then recovery killed after its event %d [%s]", where, n.Boundary, n.What)
			if n.Child != "" || n.Res.Err != "" {
				return false, fmt.Sprintf("%s: the next Open failed: %s%s", w2, n.Child, n.Res.Err)
			}
			// C10: same outcome as the uninterrupted recovery
			for i := range c.Keys {
				if n.Res.Found[i] != im.Res.Found[i] || !bytes.Equal(n.Res.Vals[i], im.Res.Vals[i]) {
					return false, fmt.Sprintf("%s: key %q reads %q (found=%v), the uninterrupted recovery gives %q (found=%v)", w2, c.Keys[i], trunc(n.Res.Vals[i]), n.Res.Found[i], trunc(im.Res.Vals[i]), im.Res.Found[i])
				}
			}
		}
	}
	return true, ""
}

// (keys async ((abs acked inflight ok vals tables ((abs alt ok vals tables) ...)) ...))
func (c *c02Case) Sx() string {
	if c.Fatal != "" || c.NoAbs || len(c.Images) == 0 {
		return ""
	}
	var keys []string
	for _, k := range c.Keys {
		keys = append(keys, sxB(k))
	}
	resSx := func(res dbOpenRes, child string) (string, string, string) {
		ok := child == "" && res.Err == "" && len(res.Found) == len(c.Keys)
		var vals, tabs []string
		if ok {
			for i := range c.Keys {
				if res.Found[i] {
					vals = append(vals, sxOB(append([]byte{}, res.Vals[i]...)))
				} else {
					vals = append(vals, "()")
				}
			}
			for _, g := range res.Tables {
				tabs = append(tabs, sxN(g))
			}
		}
		return sxBool(ok), sxList(vals), sxList(tabs)
	}
	var imgs []string
	total := 0
	for _, im := range c.Images {
		if im.Abs == "" {
			return ""
		}
		ok, vals, tabs := resSx(im.Res, im.Child)
		var nested []string
		for _, n := range im.Nested {
			if n.Abs == "" {
				continue
			}
			nok, nvals, ntabs := resSx(n.Res, n.Child)
			nested = append(nested, sxL(n.Abs, sxBool(n.Alt), nok, nvals, ntabs))
			total += len(n.Abs)
		}
		imgs = append(imgs, sxL(im.Abs, ok, vals, tabs, sxList(nested)))
		total += len(im.Abs)
	}
	if total > 8<<20 {
		return ""
	}
	return sxL(sxList(keys), sxBool(c.Opts.AsyncWAL), sxList(imgs))
}
func (c *c02Case) Evals() int {
	n := 0
	for _, im := range c.Images {
		n += 1 + len(im.Nested)
	}
	return n
}
func (c *c02Case) Nontrivial() bool {
	st := 0
	for _, s := range c.Steps {
		if s.Op == "rotate" || s.Op == "compact" {
			st++
		}
	}
	return st >= 1 && len(c.Images) > 10 && c.Skipped == ""
}
func (c *c02Case) Kind() string {
	if c.Skipped != "" {
		return "skipped(tracer failed)"
	}
	k := "sync"
	if c.Opts.AsyncWAL {
		k = "async"
	}
	if c.Nest > 0 {
		k += "/nested"
	}
	return k
}

func genCrashCase(r *rand.Rand, async bool, nest int, nsteps int, big bool) *c02Case {
	var keys [][]byte
	for k := 0; k < 4; k++ {
		keys = append(keys, []byte(fmt.Sprintf("key%d", k)))
	}
	c := &c02Case{Keys: keys, Nest: nest, NoAbs: big}
	c.Opts = dbOpts{MemstoreBytes: 1 << 30, Threshold: 1, MaxSize: []uint64{400, 5 << 30}[r.Intn(2)], RatioPct: 100, WBuf: []uint64{16, 64, 4096}[r.Intn(3)], RBuf: 4096, AsyncWAL: async}
	rot := 0
	for j := 0; j < nsteps; j++ {
		k := keys[r.Intn(len(keys))]
		switch x := r.Intn(12); {
		case x < 6:
			v := []byte(fmt.Sprintf("v%d", j))
			if r.Intn(5) == 0 {
				v = make([]byte, 300+r.Intn(200))
				r.Read(v)
			}
			if big && j%5 == 2 {
				v = make([]byte, 1500000) // several of these exceed the 4 MiB WAL buffer (incompressible: the WAL is snappy-compressed)
				r.Read(v)
			}
			c.Steps = append(c.Steps, dbStep{Op: "put", K: k, V: v})
		case x < 8:
			c.Steps = append(c.Steps, dbStep{Op: "del", K: k})
		case x == 8:
			c.Steps = append(c.Steps, dbStep{Op: "putb", K: k, V: []byte{}, VNil: true}) // rejected call: must leave no trace (C17)
		case x < 11:
			c.Steps = append(c.Steps, dbStep{Op: "rotate"})
			rot++
			if r.Intn(6) == 0 {
				c.Steps = append(c.Steps, dbStep{Op: "reopen"}) // the session continues in a new Open of the same process
			}
		default:
			if rot >= 2 {
				c.Steps = append(c.Steps, dbStep{Op: "compact"})
			} else {
				c.Steps = append(c.Steps, dbStep{Op: "rotate"})
				rot++
			}
		}
	}
	// make sure every session contains a compaction cycle over at least two tables
	c.Steps = append(c.Steps, dbStep{Op: "put", K: keys[0], V: []byte("x1")}, dbStep{Op: "rotate"}, dbStep{Op: "del", K: keys[1]}, dbStep{Op: "put", K: keys[2], V: []byte("x2")}, dbStep{Op: "rotate"}, dbStep{Op: "compact"}, dbStep{Op: "put", K: keys[3], V: []byte("x3")})
	if r.Intn(2) == 0 {
		c.Steps = append(c.Steps, dbStep{Op: "close"})
	}
	return c
}

// a self-triggered rotation whose flush (many small writes) overlaps later operations that overwrite the same keys
// with much shorter values and delete one: the table recovery builds from the log is SMALLER than the half-written
// one the killed flush left behind; with a restart in the middle of the session
func genShrinkCrashCase(r *rand.Rand, nest int) *c02Case {
	var keys [][]byte
	for k := 0; k < 5; k++ {
		keys = append(keys, []byte(fmt.Sprintf("key%d", k)))
	}
	c := &c02Case{Keys: keys, Nest: nest}
	c.Opts = dbOpts{MemstoreBytes: 7000, Threshold: 10, MaxSize: 5 << 30, RatioPct: 100, WBuf: 16, RBuf: 4096}
	c.Steps = append(c.Steps, dbStep{Op: "put", K: keys[4], V: []byte("earlier session")}, dbStep{Op: "reopen"})
	for k := 0; k < 4; k++ { // the fourth one exceeds the limit: rotation, and the flush of these four starts
		v := make([]byte, 2000+r.Intn(50))
		r.Read(v)
		c.Steps = append(c.Steps, dbStep{Op: "put", K: keys[k], V: v})
	}
	// while that flush runs: the same keys deleted or overwritten with one byte (tombstones carry no checksum: the index
	// entries of the table that recovery writes are shorter than the ones in the half-written table)
	for k := 0; k < 4; k++ {
		if k == 2 && r.Intn(2) == 0 {
			c.Steps = append(c.Steps, dbStep{Op: "put", K: keys[k], V: []byte{'x'}})
		} else {
			c.Steps = append(c.Steps, dbStep{Op: "del", K: keys[k]})
		}
	}
	c.Steps = append(c.Steps, dbStep{Op: "rotate"})
	return c
}

func genC02(r *rand.Rand, tier string) []Case {
	n := 5
	if tier == "thorough" {
		n = 80
	}
	var cases []Case
	for i := 0; i < n; i++ {
		nest := 0
		if i%4 == 0 {
			nest = 4 // kills during the re-open itself (a session continues after a kill)
		}
		cases = append(cases, genCrashCase(r, false, nest, 8+r.Intn(12), false))
	}
	for i := 0; i < (n+3)/4; i++ {
		cases = append(cases, genTinyCrashCase(r, false, 0), genTinyCrashCase(r, false, 0))
	}
	cases = append(cases, genHotKeyCrashCase(r, false), genShrinkCrashCase(r, 0), genDeleteTailCrashCase(r, false), genBigRecordSyncCase(r), genScratchCrashCase(r, false), genEmptyKeyDeleteCase(r))
	return cases
}

// one WAL generation that logs more than the 4 MiB write buffer: the buffer flush cuts a record, the cut stays on
// disk until the next flush or the rotation that closes the file
func genBigGenerationCase(r *rand.Rand) *c02Case {
	keys := [][]byte{[]byte("a"), []byte("b"), []byte("c"), []byte("d")}
	c := &c02Case{Keys: keys, NoAbs: true}
	c.Opts = dbOpts{MemstoreBytes: 1 << 30, Threshold: 10, MaxSize: 5 << 30, RatioPct: 100, WBuf: 4096, RBuf: 4096, AsyncWAL: true}
	// a previous session that ended cleanly: its last WAL file (header only) has a number above zero
	c.Steps = append(c.Steps, dbStep{Op: "put", K: keys[3], V: []byte("previous session")}, dbStep{Op: "rotate"}, dbStep{Op: "reopen"})
	c.Steps = append(c.Steps, dbStep{Op: "put", K: keys[0], V: []byte("first")})
	for j := 0; j < 3; j++ {
		v := make([]byte, 1500000+r.Intn(200000))
		r.Read(v)
		c.Steps = append(c.Steps, dbStep{Op: "put", K: keys[1+j%2], V: v})
	}
	huge := make([]byte, 4<<20+300000+r.Intn(1000)) // one record larger than the write buffer and the read buffer
	r.Read(huge)
	c.Steps = append(c.Steps, dbStep{Op: "put", K: keys[2], V: huge}, dbStep{Op: "put", K: keys[0], V: []byte("after the huge one")})
	c.Steps = append(c.Steps, dbStep{Op: "put", K: keys[3], V: []byte("after-the-cut")}, dbStep{Op: "rotate"},
		dbStep{Op: "put", K: keys[0], V: []byte("second")}, dbStep{Op: "rotate"}, dbStep{Op: "del", K: keys[3]})
	return c
}

// sessions whose last WAL generation holds nothing but deletes (and rejected calls) when the kill images are taken:
// what recovery does with a log that has no upsert in it
func genDeleteTailCrashCase(r *rand.Rand, rejected bool) *c02Case {
	keys := [][]byte{[]byte("a"), []byte("b"), []byte("c")}
	c := &c02Case{Keys: keys, NoAbs: rejected}
	c.Opts = dbOpts{MemstoreBytes: 1 << 30, Threshold: 10, MaxSize: 5 << 30, RatioPct: 100, WBuf: 4096, RBuf: 4096}
	for i, k := range keys {
		c.Steps = append(c.Steps, dbStep{Op: "put", K: k, V: []byte(fmt.Sprintf("old-%d-%d", i, r.Intn(100)))})
	}
	c.Steps = append(c.Steps, dbStep{Op: "rotate"})
	for _, i := range r.Perm(3)[:2+r.Intn(2)] {
		if rejected {
			c.Steps = append(c.Steps, dbStep{Op: "putb", K: keys[i], V: []byte{}, VNil: r.Intn(2) == 0}, dbStep{Op: "putb", K: []byte{}, V: []byte("v")})
		}
		c.Steps = append(c.Steps, dbStep{Op: []string{"del", "delb"}[r.Intn(2)], K: keys[i]})
	}
	return c
}

// the synchronous log with one record larger than its 4 MiB write buffer: the record reaches the file in two write
// system calls, a kill between them leaves a record cut inside its payload at the end of the newest log file
func genBigRecordSyncCase(r *rand.Rand) *c02Case {
	keys := [][]byte{[]byte("a"), []byte("b"), []byte("c")}
	c := &c02Case{Keys: keys, NoAbs: true}
	c.Opts = dbOpts{MemstoreBytes: 1 << 30, Threshold: 10, MaxSize: 5 << 30, RatioPct: 100, WBuf: 4096, RBuf: 4096}
	huge := make([]byte, 4<<20+200000+r.Intn(1000))
	r.Read(huge)
	c.Steps = append(c.Steps, dbStep{Op: "put", K: keys[0], V: []byte("before")}, dbStep{Op: "put", K: keys[1], V: huge},
		dbStep{Op: "put", K: keys[2], V: []byte("after")}, dbStep{Op: "del", K: keys[0]})
	return c
}

// the asynchronous log through direct I/O: block-aligned flushes of the 4 MiB buffer, zero padding at the end of every
// segment. One generation logs more than the buffer (so the buffer is reused), then rotations close the segments
func genDirectAsyncCase(r *rand.Rand) *c02Case {
	keys := [][]byte{[]byte("a"), []byte("b"), []byte("c"), []byte("d")}
	c := &c02Case{Keys: keys, NoAbs: true}
	c.Opts = dbOpts{MemstoreBytes: 1 << 30, Threshold: 10, MaxSize: 5 << 30, RatioPct: 100, WBuf: 4096, RBuf: 4096, AsyncWAL: true, DirectIOWAL: true}
	for j := 0; j < 38+r.Intn(6); j++ {
		v := make([]byte, 110000+r.Intn(20000))
		r.Read(v)
		c.Steps = append(c.Steps, dbStep{Op: "put", K: keys[j%3], V: v})
	}
	c.Steps = append(c.Steps, dbStep{Op: "put", K: keys[3], V: []byte("small-1")}, dbStep{Op: "rotate"},
		dbStep{Op: "put", K: keys[0], V: []byte("small-2")}, dbStep{Op: "del", K: keys[1]}, dbStep{Op: "rotate"}, dbStep{Op: "put", K: keys[3], V: []byte("small-3")})
	return c
}

// a caller that keeps one value buffer per key and refills it for every PutBytes of that key (values of equal length):
// every such put is a write of its own and has to be logged
func genScratchCrashCase(r *rand.Rand, async bool) *c02Case {
	keys := [][]byte{[]byte("a"), []byte("b")}
	c := &c02Case{Keys: keys}
	c.Opts = dbOpts{MemstoreBytes: 1 << 30, Threshold: 10, MaxSize: 5 << 30, RatioPct: 100, WBuf: 4096, RBuf: 4096, AsyncWAL: async}
	n := 0
	for round := 0; round < 3; round++ {
		for j := 0; j < 3+r.Intn(3); j++ {
			n++
			c.Steps = append(c.Steps, dbStep{Op: "putb", K: keys[r.Intn(2)], V: []byte(fmt.Sprintf("val-%04d", n)), Scratch: true})
		}
		if round < 2 {
			c.Steps = append(c.Steps, dbStep{Op: "rotate"})
		}
	}
	return c
}

// Delete accepts the empty key (Put does not): its record is in the log, recovery has to replay it
func genEmptyKeyDeleteCase(r *rand.Rand) *c02Case {
	keys := [][]byte{[]byte("a"), []byte("b")}
	c := &c02Case{Keys: keys, NoAbs: true}
	c.Opts = dbOpts{MemstoreBytes: 1 << 30, Threshold: 10, MaxSize: 5 << 30, RatioPct: 100, WBuf: 4096, RBuf: 4096}
	c.Steps = append(c.Steps, dbStep{Op: "put", K: keys[0], V: []byte("v1")}, dbStep{Op: "del", K: []byte{}}, dbStep{Op: "put", K: keys[1], V: []byte("v2")},
		dbStep{Op: "rotate"}, dbStep{Op: "delb", K: []byte{}, KNil: r.Intn(2) == 0}, dbStep{Op: "put", K: keys[0], V: []byte("v3")})
	return c
}

func genC13(r *rand.Rand, tier string) []Case {
	n := 4
	if tier == "thorough" {
		n = 50
	}
	var cases []Case
	for i := 0; i < n; i++ {
		cases = append(cases, genCrashCase(r, true, 0, 8+r.Intn(12), i == 0))
	}
	cases = append(cases, genTinyCrashCase(r, true, 0), genTinyCrashCase(r, true, 0), genHotKeyCrashCase(r, true), genBigGenerationCase(r), genScratchCrashCase(r, true))
	if dioAvailable {
		cases = append(cases, genDirectAsyncCase(r))
	}
	return cases
}

// self-rotating sessions: every Put rotates, the flush overlaps the next operations, so kill images
// hold several non-empty WAL files with conflicting values for the same keys
// hot-key sessions with a small memstore limit: one key is overwritten many times, so the WAL grows far beyond the
// memstore limit while the memstore stays small; then other keys, a rotation and more overwrites
func genHotKeyCrashCase(r *rand.Rand, async bool) *c02Case {
	keys := [][]byte{[]byte("hot"), []byte("k1"), []byte("k2")}
	c := &c02Case{Keys: keys}
	c.Opts = dbOpts{MemstoreBytes: uint64(120 + r.Intn(100)), Threshold: 10, MaxSize: 5 << 30, RatioPct: 100, WBuf: 4096, RBuf: 4096, AsyncWAL: async}
	for j := 0; j < 25+r.Intn(15); j++ {
		c.Steps = append(c.Steps, dbStep{Op: "put", K: keys[0], V: []byte(fmt.Sprintf("gen1-%04d", j))})
	}
	c.Steps = append(c.Steps, dbStep{Op: "put", K: keys[1], V: bytes.Repeat([]byte("x"), 200)}) // exceeds the limit: rotation
	c.Steps = append(c.Steps, dbStep{Op: "rotate"})
	for j := 0; j < 5; j++ {
		c.Steps = append(c.Steps, dbStep{Op: "put", K: keys[0], V: []byte(fmt.Sprintf("final-%d", j))})
	}
	c.Steps = append(c.Steps, dbStep{Op: "put", K: keys[2], V: []byte("z")}, dbStep{Op: "rotate"}, dbStep{Op: "close"})
	return c
}

// several records per memstore, distinct keys, no forced rotation: while one memstore is being flushed the writer fills
// and rotates the next one, so kill images hold two or more log files of complete, acknowledged records - more than a
// memstore is allowed to hold. Every one of them has to come back (a hole shows as a missing key among present ones)
func genMidMemstoreCrashCase(r *rand.Rand, async bool) *c02Case {
	var keys [][]byte
	for k := 0; k < 32; k++ {
		keys = append(keys, []byte(fmt.Sprintf("key%02d", k)))
	}
	c := &c02Case{Keys: keys}
	c.Opts = dbOpts{MemstoreBytes: uint64(40 + r.Intn(40)), Threshold: 10, MaxSize: 5 << 30, RatioPct: 100, WBuf: 4096, RBuf: 4096, AsyncWAL: async}
	for j := 0; j < 24+r.Intn(8); j++ {
		c.Steps = append(c.Steps, dbStep{Op: "put", K: keys[j], V: []byte(fmt.Sprintf("val%02d", j))})
	}
	return c
}

func genTinyCrashCase(r *rand.Rand, async bool, nest int) *c02Case {
	keys := [][]byte{[]byte("key0"), []byte("key1")}
	if r.Intn(2) == 0 {
		// distinct keys: a lost operation in the middle shows as a hole
		keys = nil
		for k := 0; k < 10; k++ {
			keys = append(keys, []byte(fmt.Sprintf("key%d", k)))
		}
		c := &c02Case{Keys: keys, Nest: nest}
		c.Opts = dbOpts{MemstoreBytes: 1, Threshold: 10, MaxSize: 5 << 30, RatioPct: 100, WBuf: 4096, RBuf: 4096, AsyncWAL: async}
		for j := 0; j < 8; j++ {
			c.Steps = append(c.Steps, dbStep{Op: "put", K: keys[j], V: []byte(fmt.Sprintf("val%d", j))})
		}
		return c
	}
	c := &c02Case{Keys: keys, Nest: nest}
	c.Opts = dbOpts{MemstoreBytes: 1, Threshold: 10, MaxSize: 5 << 30, RatioPct: 100, WBuf: 4096, RBuf: 4096, AsyncWAL: async}
	for j := 0; j < 6+r.Intn(5); j++ {
		if r.Intn(5) == 0 {
			c.Steps = append(c.Steps, dbStep{Op: "del", K: keys[r.Intn(2)]})
		} else {
			k := keys[0]
			if r.Intn(5) == 0 {
				k = keys[1]
			}
			c.Steps = append(c.Steps, dbStep{Op: "put", K: k, V: []byte(fmt.Sprintf("gen%d", j))})
		}
	}
	return c
}

func genC10(r *rand.Rand, tier string) []Case {
	n, nest := 3, 8
	if tier == "thorough" {
		n, nest = 30, 40
	}
	var cases []Case
	for i := 0; i < n; i++ {
		cases = append(cases, genCrashCase(r, false, nest, 8+r.Intn(10), false))
	}
	for i := 0; i < (n+2)/3; i++ {
		cases = append(cases, genTinyCrashCase(r, false, nest))
	}
	cases = append(cases, genShrinkCrashCase(r, nest/2))
	return cases
}

func init() {
	crashRule := "sessions of 8-20 steps (Put incl. incompressible and rejected values, Delete, forced rotation with flush, synchronous compaction cycles with a size limit that excludes big tables, optional clean Close) run in a child process under strace with small table write buffers; EVERY boundary between two file-system-mutating system calls (write, create, rename, unlink, mkdir, truncate) of any thread yields a directory image (deduplicated), on which the real Open runs in a fresh process (panic/hang/exit are outcomes) and every key is read. Every second image is in addition recovered by a process that is killed while idle and then opened once more (same content required); with the asynchronous log, images whose newest log file holds records get that file cut at byte lengths through its last record header."
	register(&Prop{ID: "C02", Num: 2, Gen: genC02, New: func() Case { return &c02Case{} },
		Rule: crashRule + " Oracle: Open succeeds and the state equals the acknowledged operations, the one in flight optional. Non-trivial: >=1 rotation/compaction and >10 images."})
	register(&Prop{ID: "C13", Num: 13, New: func() Case { return &c13Any{} },
		Gen: func(r *rand.Rand, tier string) []Case {
			var out []Case
			for _, c := range genC13(r, tier) {
				out = append(out, &c13Any{Crash: c.(*c02Case)})
			}
			for _, c := range genC13Buf(r, tier) {
				out = append(out, &c13Any{Buf: c.(*c13Buf)})
			}
			// (generated last, so that the cases above stay what they were)
			nm := 2
			if tier == "thorough" {
				nm = 16
			}
			for i := 0; i < nm; i++ {
				out = append(out, &c13Any{Crash: genMidMemstoreCrashCase(r, true)})
			}
			return out
		},
		Rule: "programs of 1-15 Write / Flush / Seek / Close calls on the buffered writer (recordio.NewWriterBuf, buffer sizes {0,1,2,3,4,7,8,16,64,4096}, payload lengths around the buffer size, twice the buffer size and what is left of it) over a file that records what it is handed, call by call - compared with the model and judged by a prefix oracle; and " + crashRule + " Asynchronous WAL; one session logs more than the 4 MiB WAL buffer. Oracle: Open succeeds and the state is that after some prefix of the acknowledged sequence covering everything before the last completed rotation."})
	register(&Prop{ID: "C10", Num: 10, Gen: genC10, New: func() Case { return &c02Case{} },
		Rule: crashRule + " On a sample of the distinct images the recovery itself runs under strace and is cut at every one of its boundaries (depth two); Open on each cut image must succeed and read exactly what the uninterrupted recovery reads."})
}
