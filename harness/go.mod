module verifharness

go 1.25

require (
	github.com/anishathalye/porcupine v0.1.2
	github.com/kaitai-io/kaitai_struct_go_runtime v0.11.0
	github.com/thomasjungblut/go-sstables v0.0.0
	google.golang.org/protobuf v1.36.11
)

require (
	capnproto.org/go/capnp/v3 v3.1.0-alpha.2 // indirect
	github.com/colega/zeropool v0.0.0-20230505084239-6fb4a4f75381 // indirect
	github.com/golang/snappy v1.0.0 // indirect
	github.com/ncw/directio v1.0.5 // indirect
	github.com/steakknife/bloomfilter v0.0.0-20180922174646-6819c0d2a570 // indirect
	github.com/steakknife/hamming v0.0.0-20180906055917-c99c65617cd3 // indirect
	golang.org/x/exp v0.0.0-20240613232115-7f521ea00fb8 // indirect
	golang.org/x/text v0.28.0 // indirect
)

replace github.com/thomasjungblut/go-sstables => /repo

replace github.com/anishathalye/porcupine v0.1.2 => github.com/tjungblu/porcupine v0.0.0-20221116095144-377185aa0569
