package main

import (
	"bytes"
	"errors"
	"fmt"
	"math/rand"
	"sort"

	"github.com/thomasjungblut/go-sstables/skiplist"
	"github.com/thomasjungblut/go-sstables/sstables"
)

type mItem struct {
	K   []byte `json:"k,omitempty"`
	V   []byte `json:"v,omitempty"`
	Nil bool   `json:"nil,omitempty"`
	Err bool   `json:"err,omitempty"` // this Next call fails (the items after it are still delivered)
}

func (m mItem) val() []byte {
	if m.Nil {
		return nil
	}
	if m.V == nil {
		return []byte{}
	}
	return m.V
}

type faultIter struct {
	items []mItem
	pos   int
}

func (f *faultIter) Next() ([]byte, []byte, error) {
	if f.pos >= len(f.items) {
		return nil, nil, sstables.Done
	}
	it := f.items[f.pos]
	f.pos++
	if it.Err {
		return nil, nil, errInjected
	}
	return it.K, it.val(), nil
}

type recWriter struct {
	failAt int // 1-based call number that fails, 0 = never
	calls  int
	got    []tblKV
}

func (w *recWriter) Open() error { return nil }
func (w *recWriter) WriteNext(k, v []byte) error {
	w.calls++
	if w.calls == w.failAt {
		return errInjected
	}
	w.got = append(w.got, tblKV{K: append([]byte{}, k...), V: append([]byte{}, v...), Nil: v == nil})
	return nil
}
func (w *recWriter) Close() error { return nil }

type c11Case struct {
	Mode   string    `json:"mode"` // merge | compact | compact_st
	Inputs [][]mItem `json:"inputs"`
	FailAt int       `json:"fail_at"`
	// observations
	Err    string  `json:"err,omitempty"`
	Writes []tblKV `json:"writes"`
	Calls  int     `json:"calls"`
	Fatal  string  `json:"fatal,omitempty"`
}

func (c *c11Case) Exec() {
	defer func() {
		if r := recover(); r != nil {
			c.Fatal = fmt.Sprint("panic: ", r)
		}
	}()
	c.Fatal, c.Err, c.Writes = "", "", nil
	var its []sstables.SSTableMergeIteratorContext
	for i, in := range c.Inputs {
		its = append(its, sstables.NewMergeIteratorContext(i, &faultIter{items: in}))
	}
	w := &recWriter{failAt: c.FailAt}
	m := sstables.NewSSTableMerger(skiplist.BytesComparator{})
	var err error
	switch c.Mode {
	case "merge":
		err = m.Merge(its, w)
	case "compact":
		err = m.MergeCompact(its, w, sstables.ScanReduceLatestWins)
	default:
		err = m.MergeCompact(its, w, sstables.ScanReduceLatestWinsSkipTombstones)
	}
	if err != nil {
		c.Err = classifyErr(err)
		if errors.Is(err, errInjected) {
			c.Err = "Injected"
		}
	}
	c.Writes, c.Calls = w.got, w.calls
}

func (c *c11Case) iterFault() bool {
	for _, in := range c.Inputs {
		for _, it := range in {
			if it.Err {
				return true
			}
		}
	}
	return false
}

// fault-free expected output
func (c *c11Case) expected() []tblKV {
	type tagged struct {
		kv  tblKV
		ctx int
		seq int
	}
	var all []tagged
	seq := 0
	for i, in := range c.Inputs {
		for _, it := range in {
			if it.Err {
				continue
			}
			all = append(all, tagged{tblKV{K: it.K, V: it.V, Nil: it.Nil}, i, seq})
			seq++
		}
	}
	sort.SliceStable(all, func(a, b int) bool { return bytes.Compare(all[a].kv.K, all[b].kv.K) < 0 })
	var out []tblKV
	if c.Mode == "merge" {
		for _, t := range all {
			out = append(out, t.kv)
		}
		return out
	}
	for i := 0; i < len(all); {
		j := i
		best := all[i]
		for j < len(all) && bytes.Equal(all[j].kv.K, all[i].kv.K) {
			if all[j].ctx > best.ctx {
				best = all[j]
			}
			j++
		}
		keep := !best.kv.Nil
		if c.Mode == "compact_st" && len(best.kv.val()) == 0 {
			keep = false
		}
		if keep {
			out = append(out, best.kv)
		}
		i = j
	}
	return out
}

func (c *c11Case) Oracle() (bool, string) {
	if c.Fatal != "" {
		return false, c.Fatal
	}
	exp := c.expected()
	writerFaultReached := c.FailAt > 0 && c.FailAt <= len(exp)
	if c.Err == "" {
		if c.iterFault() {
			return false, "an input iterator failed but the merge reported success"
		}
		if writerFaultReached {
			return false, fmt.Sprintf("write %d failed but the merge reported success", c.FailAt)
		}
		if c.Mode == "merge" {
			// order among equal keys is not fixed for a plain merge: compare as sorted multisets
			if len(c.Writes) != len(exp) {
				return false, "merge output has a different number of records than the inputs"
			}
		} else if !tblEq(c.Writes, exp) {
			return false, "merge reported success but the writer did not receive the fault-free output"
		}
	}
	return true, ""
}

func (c *c11Case) Sx() string {
	if c.Fatal != "" {
		return ""
	}
	var ins []string
	for _, in := range c.Inputs {
		var xs []string
		for _, it := range in {
			if it.Err {
				xs = append(xs, "(n1)")
			} else {
				xs = append(xs, sxL("n0", sxB(it.K), sxOBn(it.V, it.Nil)))
			}
		}
		ins = append(ins, sxList(xs))
	}
	mode := map[string]int{"merge": 0, "compact": 1, "compact_st": 2}[c.Mode]
	return sxL(sxI(mode), sxList(ins), sxI(c.FailAt), sxBool(c.Err != ""), sxTblKVs(c.Writes), sxI(c.Calls))
}
func (c *c11Case) Nontrivial() bool {
	n := 0
	for _, in := range c.Inputs {
		if len(in) > 0 {
			n++
		}
	}
	return n >= 2 && (c.iterFault() || c.FailAt > 0)
}
func (c *c11Case) Kind() string {
	k := c.Mode
	if c.iterFault() {
		k += "/iterfault"
	}
	if c.FailAt > 0 {
		k += "/writefault"
	}
	return k
}

func genC11(r *rand.Rand, tier string) []Case {
	n := 60
	if tier == "thorough" {
		n = 600
	}
	modes := []string{"merge", "compact", "compact_st"}
	var cases []Case
	for i := 0; i < n; i++ {
		nin := 1 + r.Intn(4)
		var base [][]mItem
		total := 0
		used := map[string]bool{}
		mode := modes[i%3]
		for j := 0; j < nin; j++ {
			seen := map[string]bool{}
			var keys [][]byte
			for x := r.Intn(6); x > 0; x-- {
				k := []byte(fmt.Sprintf("k%d", r.Intn(9)))
				if r.Intn(9) == 0 {
					k = []byte{}
				}
				if seen[string(k)] || (mode == "merge" && used[string(k)]) {
					continue
				}
				seen[string(k)] = true
				used[string(k)] = true
				keys = append(keys, k)
			}
			sort.Slice(keys, func(a, b int) bool { return bytes.Compare(keys[a], keys[b]) < 0 })
			var in []mItem
			for _, k := range keys {
				it := mItem{K: k, V: []byte(fmt.Sprintf("v%d-%s", j, k))}
				switch r.Intn(6) {
				case 0:
					it.Nil, it.V = true, nil
				case 1:
					it.V = []byte{}
				}
				in = append(in, it)
			}
			base = append(base, in)
			total += len(in)
		}
		cp := func() [][]mItem {
			var o [][]mItem
			for _, in := range base {
				o = append(o, append([]mItem{}, in...))
			}
			return o
		}
		// fault-free run
		cases = append(cases, &c11Case{Mode: mode, Inputs: cp()})
		// single iterator fault at every position of every input
		for j := range base {
			for pos := 0; pos <= len(base[j]); pos++ {
				in := cp()
				x := append([]mItem{}, in[j][:pos]...)
				x = append(x, mItem{Err: true})
				x = append(x, in[j][pos:]...)
				in[j] = x
				cases = append(cases, &c11Case{Mode: mode, Inputs: in})
			}
		}
		// single writer fault at every call
		for k := 1; k <= total+1; k++ {
			cases = append(cases, &c11Case{Mode: mode, Inputs: cp(), FailAt: k})
		}
		// a sampled double fault
		if total > 0 {
			in := cp()
			j := r.Intn(len(in))
			pos := r.Intn(len(in[j]) + 1)
			x := append([]mItem{}, in[j][:pos]...)
			x = append(x, mItem{Err: true})
			x = append(x, in[j][pos:]...)
			in[j] = x
			cases = append(cases, &c11Case{Mode: mode, Inputs: in, FailAt: 1 + r.Intn(total)})
		}
	}
	return cases
}

type c11Any struct {
	M *c11Case    `json:"merger,omitempty"`
	T *c11Tbl     `json:"tables,omitempty"`
	F *c11Flush   `json:"flush,omitempty"`
	C *c11Compact `json:"compaction,omitempty"`
	D *c11DevFull `json:"devfull,omitempty"`
	R *c11Recover `json:"recovery,omitempty"`
	B *c11BgFlush `json:"bgflush,omitempty"`
	X *c11Damaged `json:"damaged,omitempty"`
}

func (c *c11Any) inner() Case {
	switch {
	case c.M != nil:
		return c.M
	case c.T != nil:
		return c.T
	case c.C != nil:
		return c.C
	case c.D != nil:
		return c.D
	case c.R != nil:
		return c.R
	case c.B != nil:
		return c.B
	case c.X != nil:
		return c.X
	}
	return c.F
}
func (c *c11Any) Exec()                  { c.inner().Exec() }
func (c *c11Any) Oracle() (bool, string) { return c.inner().Oracle() }
func (c *c11Any) Sx() string             { return c.inner().Sx() }
func (c *c11Any) Nontrivial() bool       { return c.inner().Nontrivial() }
func (c *c11Any) Kind() string           { return c.inner().Kind() }

func genC11All(r *rand.Rand, tier string) []Case {
	var out []Case
	for _, c := range genC11(r, tier) {
		out = append(out, &c11Any{M: c.(*c11Case)})
	}
	// real tables with a data file cut at every record boundary (with and without a zero tail)
	nt := 6
	nf := 2
	if tier == "thorough" {
		nt, nf = 60, 20
	}
	for i := 0; i < nt; i++ {
		var tables [][]tblKV
		ntab := 2 + r.Intn(2)
		for t := 0; t < ntab; t++ {
			var kvs []tblKV
			for k := 0; k < 2+r.Intn(4); k++ {
				kvs = append(kvs, tblKV{K: []byte(fmt.Sprintf("k%d-%02d", t, k)), V: []byte(fmt.Sprintf("value-%d-%d", t, k))})
			}
			tables = append(tables, kvs)
		}
		v := r.Intn(ntab)
		for cut := 0; cut < len(tables[v]); cut++ {
			for _, z := range []bool{false, true} {
				out = append(out, &c11Any{T: &c11Tbl{Mode: []string{"merge", "compact"}[i%2], Tables: tables, Victim: v, Cut: cut, Zeros: z}})
				// (a cut inside a record that is padded with zeros is altered content, not a failing read: with the
				// checks switched off nothing can notice it, so those cuts stay at record boundaries)
				out = append(out, &c11Any{T: &c11Tbl{Mode: []string{"merge", "compact"}[i%2], Tables: tables, Victim: v, Cut: cut, Zeros: z, Seek: true, Mid: map[bool]int{false: []int{0, 1, 5, 9, 14}[(cut+i)%5], true: 0}[z]}})
			}
		}
	}
	// flushes under a file size limit: every write beyond the limit fails
	for i := 0; i < nf; i++ {
		var kvs []tblKV
		for k := 0; k < 4+r.Intn(5); k++ {
			kv := tblKV{K: []byte(fmt.Sprintf("key-%02d", k)), V: bytes.Repeat([]byte{byte('a' + k)}, 10+r.Intn(30))}
			if r.Intn(5) == 0 {
				kv.Nil, kv.V = true, nil
			}
			kvs = append(kvs, kv)
		}
		f := &c11Flush{KVs: kvs, Tombs: i%2 == 0}
		step := 7
		if tier == "thorough" {
			step = 1
		}
		for lim := 0; lim < 700; lim += step {
			f.Limits = append(f.Limits, lim)
		}
		out = append(out, &c11Any{F: f})
	}
	// compaction cycles under a file size limit, then a restart
	nc := 1
	if tier == "thorough" {
		nc = 6
	}
	for i := 0; i < nc; i++ {
		c := &c11Compact{NTables: 2 + r.Intn(3), ValLen: 3000 + r.Intn(6000)}
		for _, lim := range []int{0, 8, 100, 2000, 4096, 4200, 9000, 20000, 60000} {
			c.Limits = append(c.Limits, lim+r.Intn(50))
		}
		out = append(out, &c11Any{C: c})
	}
	// one table file that cannot be written at all; recovery under a file size limit followed by a restart
	for i := 0; i < nc; i++ {
		var kvs []tblKV
		for k := 0; k < 2+r.Intn(5); k++ {
			kvs = append(kvs, tblKV{K: []byte(fmt.Sprintf("k%02d", k)), V: []byte(fmt.Sprintf("value-%d", k)), Nil: r.Intn(5) == 0})
		}
		out = append(out, &c11Any{D: &c11DevFull{KVs: kvs}})
		rc := &c11Recover{NKeys: 2 + r.Intn(4), ValLen: 200 + r.Intn(2000)}
		for _, lim := range []int{0, 8, 20, 60, 150, 400, 1500, 5000} {
			rc.Limits = append(rc.Limits, lim+r.Intn(10))
		}
		out = append(out, &c11Any{R: rc})
	}
	for i := 0; i < 2*nc; i++ {
		out = append(out, &c11Any{X: &c11Damaged{NTables: 3 + r.Intn(2), Victim: i % 3}}) // oldest, middle, a later input
	}
	for i := 0; i < nc; i++ {
		out = append(out, &c11Any{X: &c11Damaged{NTables: 2 + r.Intn(2), Victim: r.Intn(4), IdxHole: true}})
	}
	// a flush failing on the real background goroutine
	for i, f := range []string{"data.rio", "index.rio", "meta.pb.bin", "bloom.bf.gz"} {
		if tier != "thorough" && i%2 != int(r.Int63()%2) {
			continue
		}
		out = append(out, &c11Any{B: &c11BgFlush{NPuts: 12 + r.Intn(20), ValLen: 100 + r.Intn(400), File: f}})
		// the same failure in the flush that Close hands over (the memstore never fills up before)
		out = append(out, &c11Any{B: &c11BgFlush{NPuts: 3 + r.Intn(5), ValLen: 50 + r.Intn(100), File: f, AtClose: true}})
	}
	return out
}

func init() {
	register(&Prop{
		ID: "C11", Num: 11,
		Gen:  genC11All,
		New:  func() Case { return &c11Any{} },
		Rule: "for 60 (thorough 600) input sets of 1..4 ascending inputs: the fault-free run, a failing Next at every position of every input (single faults, exhaustive), a failing WriteNext at every call (exhaustive), and one sampled double fault; for Merge, MergeCompact(latest wins) and MergeCompact(skip tombstones); plus merges over real tables one of whose data files was cut at every record boundary (with and without a zero tail, opened without load validation); plus memstore flushes in a child process whose write system calls fail beyond a file-size limit, for limits 0..700 (every 7th in the quick tier). Non-trivial: >=2 non-empty inputs and an injected fault.",
	})
}

func (c *c11Any) Evals() int {
	if c.F != nil {
		return c.F.Evals()
	}
	if c.C != nil {
		return c.C.Evals()
	}
	if c.R != nil {
		return c.R.Evals()
	}
	return 1
}
