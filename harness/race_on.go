//go:build race

package main

func init() { raceEnabled = true }
