package main

import (
	"bytes"
	"errors"
	"fmt"
	"math/rand"
	"os"
	"sort"

	"github.com/thomasjungblut/go-sstables/memstore"
	"github.com/thomasjungblut/go-sstables/sstables"
)

type msOp struct {
	Op   string `json:"op"` // add upsert delete deleteifexists tombstone get contains istombstoned size
	K    []byte `json:"k"`
	V    []byte `json:"v"`
	KNil bool   `json:"knil,omitempty"`
	VNil bool   `json:"vnil,omitempty"`
	// observation
	Err    string `json:"err,omitempty"`
	Val    []byte `json:"val,omitempty"`
	ValNil bool   `json:"valnil,omitempty"`
	Bool   bool   `json:"bool,omitempty"`
	N      int    `json:"n,omitempty"`
	Raw    uint64 `json:"raw"`
}

type c14Case struct {
	Ops        []msOp `json:"ops"`
	FlushTombs bool   `json:"flush_tombs"`
	// observations
	Iter     []kvPair `json:"iter"`
	IterNil  []bool   `json:"iter_nil"`
	Size     int      `json:"size"`
	Est      uint64   `json:"est"`
	Table    []kvPair `json:"table"`
	TableNil []bool   `json:"table_nil"`
	FlushErr string   `json:"flush_err,omitempty"`
	Panic    string   `json:"panic,omitempty"`
}

func msErrName(err error) string {
	switch {
	case err == nil:
		return ""
	case errors.Is(err, memstore.KeyAlreadyExists):
		return "KeyAlreadyExists"
	case errors.Is(err, memstore.KeyNotFound):
		return "KeyNotFound"
	case errors.Is(err, memstore.KeyTombstoned):
		return "KeyTombstoned"
	case errors.Is(err, memstore.KeyNil):
		return "KeyNil"
	case errors.Is(err, memstore.ValueNil):
		return "ValueNil"
	}
	return "Other:" + err.Error()
}

func (o *msOp) key() []byte {
	if o.KNil {
		return nil
	}
	if o.K == nil {
		return []byte{}
	}
	return o.K
}
func (o *msOp) val() []byte {
	if o.VNil {
		return nil
	}
	if o.V == nil {
		return []byte{}
	}
	return o.V
}

func readTable(dir string) ([]kvPair, []bool, error) {
	r, err := sstables.NewSSTableReader(sstables.ReadBasePath(dir))
	if err != nil {
		return nil, nil, err
	}
	defer r.Close()
	it, err := r.Scan()
	if err != nil {
		return nil, nil, err
	}
	var out []kvPair
	var nils []bool
	for {
		k, v, err := it.Next()
		if errors.Is(err, sstables.Done) {
			break
		}
		if err != nil {
			return out, nils, err
		}
		out = append(out, kvPair{K: append([]byte{}, k...), V: append([]byte{}, v...)})
		nils = append(nils, v == nil)
	}
	return out, nils, nil
}

func (c *c14Case) Exec() {
	defer func() {
		if r := recover(); r != nil {
			c.Panic = fmt.Sprint(r)
		}
	}()
	m := memstore.NewMemStore()
	probeBuf := make([]byte, 0, 256)
	probe := func(o *msOp) []byte {
		// lookups re-encode their key into one buffer (a nil key stays nil); the store must not keep that slice
		if o.KNil {
			return nil
		}
		probeBuf = append(probeBuf[:0], o.key()...)
		return probeBuf
	}
	for i := range c.Ops {
		o := &c.Ops[i]
		o.Err, o.Val, o.ValNil, o.Bool, o.N = "", nil, false, false, 0
		switch o.Op {
		case "add":
			o.Err = msErrName(m.Add(o.key(), o.val()))
		case "upsert":
			o.Err = msErrName(m.Upsert(o.key(), o.val()))
		case "delete":
			o.Err = msErrName(m.Delete(o.key()))
		case "deleteifexists":
			o.Err = msErrName(m.DeleteIfExists(o.key()))
		case "tombstone":
			o.Err = msErrName(m.Tombstone(o.key()))
		case "get":
			v, err := m.Get(probe(o))
			o.Err = msErrName(err)
			o.Val, o.ValNil = v, v == nil
		case "contains":
			o.Bool = m.Contains(probe(o))
		case "istombstoned":
			o.Bool = m.IsTombstoned(probe(o))
		case "size":
			o.N = m.Size()
		}
		o.Raw, _ = memstore.VerifRawSize(m)
	}
	c.Iter, c.IterNil = nil, nil
	it := m.SStableIterator()
	for {
		k, v, err := it.Next()
		if err != nil {
			break
		}
		c.Iter = append(c.Iter, kvPair{K: append([]byte{}, k...), V: append([]byte{}, v...)})
		c.IterNil = append(c.IterNil, v == nil)
	}
	c.Size = m.Size()
	c.Est = m.EstimatedSizeInBytes()
	dir := tmpDir("c14-")
	defer os.RemoveAll(dir)
	var err error
	if c.FlushTombs {
		err = m.FlushWithTombstones(sstables.WriteBasePath(dir))
	} else {
		err = m.Flush(sstables.WriteBasePath(dir))
	}
	c.Table, c.TableNil, c.FlushErr = nil, nil, ""
	if err != nil {
		c.FlushErr = err.Error()
		return
	}
	c.Table, c.TableNil, err = readTable(dir)
	if err != nil {
		c.FlushErr = "read back: " + err.Error()
	}
}

type refVal struct {
	v    []byte
	tomb bool
}

func (c *c14Case) Oracle() (bool, string) {
	if c.Panic != "" {
		return false, "panic: " + c.Panic
	}
	ref := map[string]*refVal{}
	raw := func() uint64 {
		var n uint64
		for k, v := range ref {
			n += uint64(len(k)) + uint64(len(v.v))
		}
		return n
	}
	for i := range c.Ops {
		o := &c.Ops[i]
		k := string(o.key())
		wantErr, wantBool, wantN := "", false, 0
		var wantVal []byte
		switch o.Op {
		case "add", "upsert":
			if o.KNil {
				wantErr = "KeyNil"
			} else if o.VNil {
				wantErr = "ValueNil"
			} else if e, ok := ref[k]; ok && !e.tomb && o.Op == "add" {
				wantErr = "KeyAlreadyExists"
			} else {
				ref[k] = &refVal{v: o.val()}
			}
		case "delete", "deleteifexists":
			if e, ok := ref[k]; ok {
				e.v, e.tomb = nil, true
			} else if o.Op == "delete" {
				wantErr = "KeyNotFound"
			}
		case "tombstone":
			ref[k] = &refVal{tomb: true}
		case "get":
			if e, ok := ref[k]; !ok {
				wantErr = "KeyNotFound"
			} else if e.tomb {
				wantErr = "KeyTombstoned"
			} else {
				wantVal = e.v
			}
		case "contains":
			e, ok := ref[k]
			wantBool = ok && !e.tomb
		case "istombstoned":
			e, ok := ref[k]
			wantBool = ok && e.tomb
		case "size":
			wantN = len(ref)
		}
		if o.Err != wantErr {
			return false, fmt.Sprintf("op %d %s(%x): error %q want %q", i, o.Op, o.K, o.Err, wantErr)
		}
		if o.Op == "get" && wantErr == "" && (!bytes.Equal(o.Val, wantVal) || o.ValNil) {
			return false, fmt.Sprintf("op %d get(%x): value %x want %x", i, o.K, o.Val, wantVal)
		}
		if o.Bool != wantBool || o.N != wantN {
			return false, fmt.Sprintf("op %d %s(%x): result wrong", i, o.Op, o.K)
		}
		if o.Raw != raw() {
			return false, fmt.Sprintf("op %d %s: raw size estimate %d, sum of key and value lengths %d", i, o.Op, o.Raw, raw())
		}
	}
	var keys []string
	for k := range ref {
		keys = append(keys, k)
	}
	sort.Strings(keys)
	if c.Size != len(keys) {
		return false, "Size does not count all entries incl. tombstones"
	}
	if len(c.Iter) != len(keys) {
		return false, fmt.Sprintf("iteration yields %d entries, reference has %d", len(c.Iter), len(keys))
	}
	var wantTable []string
	for i, k := range keys {
		e := ref[k]
		if string(c.Iter[i].K) != k || !bytes.Equal(c.Iter[i].V, e.v) || c.IterNil[i] != e.tomb {
			return false, fmt.Sprintf("iteration entry %d differs from reference", i)
		}
		if c.FlushTombs || !e.tomb {
			wantTable = append(wantTable, k)
		}
	}
	if c.Est != uint64(1.15*float32(raw())) {
		return false, "public size estimate is not 1.15 x raw"
	}
	if c.FlushErr != "" {
		return false, "flush failed: " + c.FlushErr
	}
	if len(c.Table) != len(wantTable) {
		return false, fmt.Sprintf("flushed table has %d entries, want %d", len(c.Table), len(wantTable))
	}
	for i, k := range wantTable {
		e := ref[k]
		if string(c.Table[i].K) != k || !bytes.Equal(c.Table[i].V, e.v) {
			return false, fmt.Sprintf("flushed table entry %d differs from reference", i)
		}
		// a tombstone is a nil value; a live empty value must stay non-nil
		if c.TableNil[i] != e.tomb {
			return false, fmt.Sprintf("flushed table entry %d: nil-ness differs (tombstone=%v)", i, e.tomb)
		}
	}
	return true, ""
}

func sxOBn(b []byte, isNil bool) string {
	if isNil {
		return "()"
	}
	return "(" + sxB(b) + ")"
}

var msOpTag = map[string]int{"add": 0, "upsert": 1, "delete": 2, "deleteifexists": 3, "tombstone": 4, "get": 5, "contains": 6, "istombstoned": 7, "size": 8}
var msErrTag = map[string]int{"": 0, "KeyAlreadyExists": 1, "KeyNotFound": 2, "KeyTombstoned": 3, "KeyNil": 4, "ValueNil": 5}

func (c *c14Case) Sx() string {
	if c.Panic != "" || c.FlushErr != "" {
		return ""
	}
	var ops, outs []string
	for i := range c.Ops {
		o := &c.Ops[i]
		ops = append(ops, sxL(sxI(msOpTag[o.Op]), sxOBn(o.K, o.KNil), sxOBn(o.V, o.VNil)))
		et, ok := msErrTag[o.Err]
		if !ok {
			return ""
		}
		var out string
		switch o.Op {
		case "get":
			if o.Err == "" {
				out = sxL("n1", sxL("n0", sxB(o.Val)))
			} else {
				out = sxL("n1", sxL("n1", sxI(et)))
			}
		case "contains", "istombstoned":
			out = sxL("n2", sxBool(o.Bool))
		case "size":
			out = sxL("n3", sxI(o.N))
		default:
			out = sxL("n0", sxI(et))
		}
		outs = append(outs, sxL(out, sxN(o.Raw)))
	}
	var iter, table []string
	for i, kv := range c.Iter {
		iter = append(iter, sxL(sxB(kv.K), sxOBn(kv.V, c.IterNil[i])))
	}
	for i, kv := range c.Table {
		table = append(table, sxL(sxB(kv.K), sxOBn(kv.V, c.TableNil[i])))
	}
	return sxL(sxList(ops), sxList(outs), sxList(iter), sxI(c.Size), sxBool(c.FlushTombs), sxList(table))
}

func (c *c14Case) Nontrivial() bool {
	muts, reads := 0, 0
	for _, o := range c.Ops {
		switch o.Op {
		case "add", "upsert", "delete", "deleteifexists", "tombstone":
			muts++
		default:
			reads++
		}
	}
	return muts >= 3 && reads >= 1
}
func (c *c14Case) Kind() string {
	t := "flush"
	if c.FlushTombs {
		t = "flushtombs"
	}
	return fmt.Sprintf("ops=%s/%s", bucket(len(c.Ops)), t)
}

func genC14(r *rand.Rand, tier string) []Case {
	n, maxOps := 500, 80
	if tier == "thorough" {
		n, maxOps = 20000, 600
	}
	opNames := []string{"add", "upsert", "delete", "deleteifexists", "tombstone", "get", "contains", "istombstoned", "size"}
	var cases []Case
	for i := 0; i < n; i++ {
		c := &c14Case{FlushTombs: i%2 == 0}
		universe := 3
		if i%3 == 1 {
			universe = 200
		} else if i%3 == 2 {
			universe = 12
		}
		var keys [][]byte
		for j := 0; j < universe; j++ {
			switch {
			case j == 0 && i%4 == 0:
				keys = append(keys, []byte{})
			case j%7 == 3:
				keys = append(keys, []byte{0x91, 0x8d, byte(j)})
			case i%5 == 2 && j%3 != 0:
				// binary keys of 8 and more bytes across the whole range of the leading byte (ids, hashes)
				k := make([]byte, 8+j%5)
				r.Read(k)
				k[0] = []byte{0x00, 0x01, 0x7f, 0x80, 0xfe, 0xff}[j%6]
				keys = append(keys, k)
			default:
				keys = append(keys, []byte(fmt.Sprintf("k%d", j*j%97)))
			}
		}
		nops := 1 + r.Intn(maxOps)
		for j := 0; j < nops; j++ {
			o := msOp{Op: opNames[r.Intn(len(opNames))], K: keys[r.Intn(len(keys))]}
			if r.Intn(25) == 0 {
				o.KNil, o.K = true, nil
			}
			switch r.Intn(12) {
			case 0:
				o.VNil = true
			case 1:
				o.V = []byte{}
			case 2:
				o.V = bytes.Repeat([]byte{byte(j)}, 1+r.Intn(300))
			default:
				o.V = []byte(fmt.Sprintf("v%d", r.Intn(50)))
			}
			if o.Op != "add" && o.Op != "upsert" {
				o.V, o.VNil = nil, true
			}
			c.Ops = append(c.Ops, o)
		}
		cases = append(cases, c)
	}
	return cases
}

func init() {
	register(&Prop{
		ID: "C14", Num: 14,
		Gen:  genC14,
		New:  func() Case { return &c14Case{} },
		Rule: "random call programs over key universes of 3, 12 and 200 keys (incl. empty key, nil key, nil/empty/long values), raw estimate read after every call, then Flush or FlushWithTombstones and the table read back. Non-trivial: >=3 mutating calls and >=1 query.",
		Shrink: func(c Case) []Case {
			cc := c.(*c14Case)
			var out []Case
			for i := range cc.Ops {
				n := &c14Case{FlushTombs: cc.FlushTombs}
				n.Ops = append(append([]msOp{}, cc.Ops[:i]...), cc.Ops[i+1:]...)
				out = append(out, n)
			}
			return out
		},
	})
}
