package main

import (
	"bytes"
	"fmt"
	"github.com/thomasjungblut/go-sstables/skiplist"
	"hash/crc64"
	"math/rand"
	"os"
	"path/filepath"
	"strings"
	"time"

	"github.com/thomasjungblut/go-sstables/sstables"
)

type dmgObs struct {
	Kind    string   `json:"kind"` // byte | cut | swap
	Pos     int      `json:"pos"`
	Val     int      `json:"val"`
	OpenErr string   `json:"open_err,omitempty"`
	Gets    []getOut `json:"gets,omitempty"`
	Gets2   []getOut `json:"gets2,omitempty"` // every key asked a second time on the same reader (only the answers that differ from the first)
	Scan    scanOut  `json:"scan"`
	From    scanOut  `json:"from"`
	Range   scanOut  `json:"range"`         // ScanRange over the whole key space
	Mod     []byte   `json:"mod,omitempty"` // the damaged bytes (swap only)
}

type c09Case struct {
	KVs      []tblKV `json:"kvs"`
	DataComp int     `json:"dcomp"`
	Loader   string  `json:"loader"`
	OnRead   bool    `json:"on_read"`            // SkipHashCheckOnLoad + EnableHashCheckOnReads instead of the default verify-on-load
	OptSwap  bool    `json:"opt_swap,omitempty"` // the two options in the other order
	Stacked  bool    `json:"stacked,omitempty"`  // read through a SuperSSTableReader over an older table holding other values for the same keys
	Vals     []int   `json:"vals"`               // replacement values; -1 = flip lowest bit, -2 = flip highest bit
	cleanMT  time.Time
	Big      bool `json:"big,omitempty"` // thousands of records; a sample of damages, most of them in the last part of the file
	// observations
	Data   []byte   `json:"data"`
	Index  []byte   `json:"index"`
	IdxPay [][]byte `json:"-"`
	Obs    []dmgObs `json:"obs"`
	Fatal  string   `json:"fatal,omitempty"`
}

func (c *c09Case) observe(dir string, data []byte, ob *dmgObs) {
	must(os.WriteFile(filepath.Join(dir, sstables.DataFileName), data, 0644))
	if !c.cleanMT.IsZero() {
		// silent damage: the file keeps the modification time it had when this process opened it undamaged
		must(os.Chtimes(filepath.Join(dir, sstables.DataFileName), c.cleanMT, c.cleanMT))
	}
	opts := []sstables.ReadOption{sstables.ReadBasePath(dir)}
	if c.Loader != "" && c.Loader != "slice" {
		opts = append(opts, sstables.ReadIndexLoader(loaderFor(c.Loader, 4096)))
	}
	if c.OnRead && !c.OptSwap {
		opts = append(opts, sstables.SkipHashCheckOnLoad(), sstables.EnableHashCheckOnReads())
	} else if c.OnRead {
		opts = append(opts, sstables.EnableHashCheckOnReads(), sstables.SkipHashCheckOnLoad())
	}
	func() {
		defer func() {
			if r := recover(); r != nil {
				ob.OpenErr = fmt.Sprint("panic: ", r)
			}
		}()
		r0, err := sstables.NewSSTableReader(opts...)
		if err != nil {
			ob.OpenErr = classifyErr(err)
			return
		}
		defer r0.Close()
		var r sstables.SSTableReaderI = r0
		if c.Stacked {
			// an older, undamaged table with OTHER values for the same keys below the damaged one: a failed read of the
			// newer table must not be answered from the older one
			old, err := sstables.NewSSTableReader(sstables.ReadBasePath(dir+"-old"), sstables.SkipHashCheckOnLoad(), sstables.EnableHashCheckOnReads())
			if err != nil {
				ob.OpenErr = "old table: " + classifyErr(err)
				return
			}
			defer old.Close()
			r = sstables.NewSuperSSTableReader([]sstables.SSTableReaderI{old, r0}, skiplist.BytesComparator{})
		}
		for _, kv := range c.KVs {
			g := getOut{K: kv.K}
			v, err := r.Get(kv.K)
			if err != nil {
				g.Err = classifyErr(err)
			} else {
				g.V, g.Nil = append([]byte{}, v...), v == nil
			}
			ob.Gets = append(ob.Gets, g)
		}
		// the same lookups again: a reader must not remember a failed check as done
		for i, kv := range c.KVs {
			g := getOut{K: kv.K}
			v, err := r.Get(kv.K)
			if err != nil {
				g.Err = classifyErr(err)
			} else {
				g.V, g.Nil = append([]byte{}, v...), v == nil
			}
			if f := ob.Gets[i]; f.Err != g.Err || f.Nil != g.Nil || !bytes.Equal(f.V, g.V) {
				ob.Gets2 = append(ob.Gets2, g)
			}
		}
		it, err := r.Scan()
		ob.Scan = drainTable(it, err, len(c.KVs)+2)
		it, err = r.ScanStartingAt([]byte{})
		ob.From = drainTable(it, err, len(c.KVs)+2)
		it, err = r.ScanRange([]byte{}, bytes.Repeat([]byte{0xff}, 40))
		ob.Range = drainTable(it, err, len(c.KVs)+2)
	}()
}

func (c *c09Case) Exec() {
	defer func() {
		if r := recover(); r != nil {
			c.Fatal = fmt.Sprint("panic: ", r)
		}
	}()
	c.Fatal, c.Obs = "", nil
	dir := tmpDir("c09-")
	defer os.RemoveAll(dir)
	o := tblOpts{IndexComp: 0, DataComp: c.DataComp, BloomN: 10, BloomP: 0.01, WBuf: 4096}
	_, err := writeTable(dir, o, c.KVs)
	must(err)
	if c.Stacked {
		var olds []tblKV
		for _, kv := range c.KVs {
			olds = append(olds, tblKV{K: kv.K, V: append([]byte("OLD-"), kv.K...)})
		}
		must(os.MkdirAll(dir+"-old", 0755))
		defer os.RemoveAll(dir + "-old")
		_, err = writeTable(dir+"-old", o, olds)
		must(err)
	}
	c.Data, c.Index = readFileOr(dir, sstables.DataFileName), readFileOr(dir, sstables.IndexFileName)
	c.IdxPay = indexEntries(dir)
	// the process has opened the table with the default options while it was still undamaged: nothing it learned then
	// may vouch for the file later
	if st, err := os.Stat(filepath.Join(dir, sstables.DataFileName)); err == nil {
		if r0, err := sstables.NewSSTableReader(sstables.ReadBasePath(dir)); err == nil {
			_ = r0.Close()
			c.cleanMT = st.ModTime()
		}
	}
	if c.Big {
		c.execBig(dir)
		return
	}
	// single byte alterations at every offset
	for pos := 0; pos < len(c.Data); pos++ {
		for _, v := range c.Vals {
			nv := byte(v)
			if v == -1 {
				nv = c.Data[pos] ^ 1
			} else if v == -2 {
				nv = c.Data[pos] ^ 0x80
			}
			if nv == c.Data[pos] {
				continue
			}
			mod := append([]byte{}, c.Data...)
			mod[pos] = nv
			ob := dmgObs{Kind: "byte", Pos: pos, Val: int(nv)}
			c.observe(dir, mod, &ob)
			c.Obs = append(c.Obs, ob)
		}
	}
	// every truncation length
	for n := 0; n < len(c.Data); n++ {
		ob := dmgObs{Kind: "cut", Pos: n}
		c.observe(dir, c.Data[:n], &ob)
		c.Obs = append(c.Obs, ob)
	}
	// swapped neighbouring records (byte ranges from the index offsets)
	offs := c.recordOffsets()
	for i := 0; i+2 < len(offs); i++ {
		a, b, e := offs[i], offs[i+1], offs[i+2]
		mod := append([]byte{}, c.Data[:a]...)
		mod = append(mod, c.Data[b:e]...)
		mod = append(mod, c.Data[a:b]...)
		mod = append(mod, c.Data[e:]...)
		ob := dmgObs{Kind: "swap", Pos: i, Mod: mod}
		c.observe(dir, mod, &ob)
		c.Obs = append(c.Obs, ob)
	}
}

// execBig: a sample of alterations and cuts, three quarters of them in the last fifth of the data file
func (c *c09Case) execBig(dir string) {
	rr := rand.New(rand.NewSource(int64(len(c.Data))))
	n := len(c.Data)
	pick := func() int {
		if rr.Intn(4) == 0 {
			return 8 + rr.Intn(n-8)
		}
		return n - 1 - rr.Intn(n/5)
	}
	for i := 0; i < 40; i++ {
		pos := pick()
		nv := c.Data[pos] ^ byte(1<<uint(rr.Intn(8)))
		mod := append([]byte{}, c.Data...)
		mod[pos] = nv
		ob := dmgObs{Kind: "byte", Pos: pos, Val: int(nv)}
		c.observe(dir, mod, &ob)
		c.Obs = append(c.Obs, ob)
	}
	for i := 0; i < 16; i++ {
		ob := dmgObs{Kind: "cut", Pos: pick()}
		c.observe(dir, c.Data[:ob.Pos], &ob)
		c.Obs = append(c.Obs, ob)
	}
}

// record start offsets in the data file followed by the file length
func (c *c09Case) recordOffsets() []int {
	var offs []int
	for i := 0; i+2 < len(c.Data); i++ {
		if c.Data[i] == 0x91 && c.Data[i+1] == 0x8d && c.Data[i+2] == 0x4c {
			offs = append(offs, i)
		}
	}
	// keep only offsets named by the index (payloads may contain marker bytes): approximate by count
	if len(offs) > len(c.KVs) {
		offs = offs[:0]
	}
	return append(offs, len(c.Data))
}

func (c *c09Case) Oracle() (bool, string) { return c.oracle(false) }

var crc64ISO = crc64.MakeTable(crc64.ISO)

// oracle; with exemptZeroCRC a non-empty value whose CRC-64/ISO is 0 is treated like an empty one (finding F-C09a:
// the zero checksum is the format's "no checksum" marker)
func (c *c09Case) oracle(exemptZeroCRC bool) (bool, string) {
	if c.Fatal != "" {
		return false, c.Fatal
	}
	for _, ob := range c.Obs {
		if ob.OpenErr != "" {
			if len(ob.OpenErr) > 6 && ob.OpenErr[:6] == "panic:" {
				return false, fmt.Sprintf("%s at %d: %s", ob.Kind, ob.Pos, ob.OpenErr)
			}
			continue // damage detected when opening
		}
		chk := func(k []byte, v []byte, isNil bool, where string) (bool, string) {
			for _, kv := range c.KVs {
				if bytes.Equal(kv.K, k) {
					// a key whose index checksum is zero (empty and nil values by format design, and non-empty values whose
					// CRC-64/ISO happens to be zero) is not protected by any check: finding F-C09a
					zeroCRC := len(kv.val()) == 0 || crc64.Checksum(kv.val(), crc64ISO) == 0
					if exemptZeroCRC && zeroCRC {
						return true, ""
					}
					if len(kv.val()) == 0 {
						// an empty / nil value must stay empty / nil
						if len(v) != 0 {
							return false, fmt.Sprintf("%s at %d (->%02x): %s returned the non-empty value %x for key %x, whose written value is empty/nil, without error", ob.Kind, ob.Pos, ob.Val, where, v, k)
						}
						return true, ""
					}
					if isNil || !bytes.Equal(v, kv.val()) {
						return false, fmt.Sprintf("%s at %d (->%02x): %s returned a different value for key %x without error: %x instead of %x", ob.Kind, ob.Pos, ob.Val, where, k, v, kv.val())
					}
				}
			}
			return true, ""
		}
		for _, g := range ob.Gets {
			if g.Err == "" {
				if ok, m := chk(g.K, g.V, g.Nil, "Get"); !ok {
					return false, m
				}
			}
		}
		for _, g := range ob.Gets2 {
			if g.Err == "" {
				if ok, m := chk(g.K, g.V, g.Nil, "the second Get"); !ok {
					return false, m
				}
			}
		}
		for _, kv := range ob.Scan.KVs {
			if ok, m := chk(kv.K, kv.val(), kv.Nil, "Scan"); !ok {
				return false, m
			}
		}
		for _, kv := range ob.From.KVs {
			if ok, m := chk(kv.K, kv.val(), kv.Nil, "ScanStartingAt"); !ok {
				return false, m
			}
		}
		for _, kv := range ob.Range.KVs {
			if ok, m := chk(kv.K, kv.val(), kv.Nil, "ScanRange"); !ok {
				return false, m
			}
		}
	}
	return true, ""
}

func (c *c09Case) Sx() string {
	if c.Fatal != "" || c.DataComp != 0 || (c.Loader != "" && c.Loader != "slice") || c.Stacked || c.Big {
		return ""
	}
	var obs []string
	for _, ob := range c.Obs {
		// the file header (version, compression type) selects legacy formats / real decompressors the
		// model does not contain: those damages are judged by the oracle only
		if ob.Kind == "byte" && ob.Pos < 8 {
			continue
		}
		var kind string
		switch ob.Kind {
		case "byte":
			kind = sxL("n0", sxI(ob.Pos), sxI(ob.Val))
		case "cut":
			kind = sxL("n1", sxI(ob.Pos))
		default:
			kind = sxL("n2", sxB(ob.Mod))
		}
		if ob.OpenErr != "" {
			obs = append(obs, sxL(kind, "n0", "()", "(() ())", "(() ())"))
			continue
		}
		var gets []string
		for _, g := range ob.Gets {
			gets = append(gets, sxRes(sxOBn(g.V, g.Nil), g.Err))
		}
		obs = append(obs, sxL(kind, "n1", sxList(gets), ob.Scan.sx(), ob.From.sx()))
	}
	return sxL(sxTblKVs(c.KVs), sxBool(c.OnRead), sxB(c.Index), sxB(c.Data), sxList(obs))
}

func (c *c09Case) Nontrivial() bool { return len(c.KVs) >= 2 && len(c.Obs) > 10 }
func (c *c09Case) Kind() string {
	m := "onload"
	if c.OnRead {
		m = "onread"
	}
	return fmt.Sprintf("dcomp=%d/%s/%s/keys=%s", c.DataComp, m, c.Loader, bucket(len(c.KVs)))
}

func genC09(r *rand.Rand, tier string) []Case {
	n := 10
	if tier == "thorough" {
		n = 80
	}
	var cases []Case
	for i := 0; i < n; i++ {
		// every index loader under both checking modes (the quick tier's ten cases walk the grid once)
		grid := []struct {
			loader string
			onRead bool
		}{{"slice", false}, {"disk", false}, {"slice", true}, {"skiplist", false}, {"map20", true}, {"disk", true}, {"map20", false}, {"skiplist", true}, {"slice", false}, {"disk", false}}
		c := &c09Case{DataComp: []int{0, 2, 0, 1, 0, 3, 0, 2}[i%8], OnRead: grid[i%len(grid)].onRead, Loader: grid[i%len(grid)].loader}
		c.Vals = []int{-1, -2, 0x00, 0xff, 0x91, 0x4c}
		if tier == "thorough" && i%20 == 0 {
			c.Vals = nil
			for v := 0; v < 256; v++ {
				c.Vals = append(c.Vals, v)
			}
		}
		nk := 3 + r.Intn(4)
		for j := 0; j < nk; j++ {
			kv := tblKV{K: []byte(fmt.Sprintf("key-%02d", j))}
			switch r.Intn(7) {
			case 0:
				kv.Nil = true
			case 1:
				kv.V = []byte{}
			default:
				kv.V = advPayload(r, 24)
				if len(kv.V) == 0 {
					kv.V = []byte("v")
				}
			}
			c.KVs = append(c.KVs, kv)
		}
		cases = append(cases, c)
	}
	// verify-on-read with the options given in the other order; and a stacked reader over an older table
	for i := 0; i < 4; i++ {
		c := &c09Case{DataComp: []int{0, 2}[i%2], OnRead: true, OptSwap: i < 2, Stacked: i >= 2, Loader: "slice", Vals: []int{-1, -2, 0x00, 0xff}}
		for j := 0; j < 4; j++ {
			c.KVs = append(c.KVs, tblKV{K: []byte(fmt.Sprintf("key-%02d", j)), V: []byte(fmt.Sprintf("new-value-%02d-%s", j, strings.Repeat("x", r.Intn(12))))})
		}
		cases = append(cases, c)
	}
	// tables of thousands of records (any size-dependent strategy of the load-time validation), record counts that are
	// not multiples of a power of two
	nbig := 2
	if tier == "thorough" {
		nbig = 12
	}
	for i := 0; i < nbig; i++ {
		c := &c09Case{DataComp: []int{0, 2}[i%2], OnRead: i%4 == 3, Loader: "slice", Big: true}
		nk := 2049 + r.Intn(3000)
		if nk%1024 < 100 {
			nk += 300
		}
		for j := 0; j < nk; j++ {
			c.KVs = append(c.KVs, tblKV{K: []byte(fmt.Sprintf("key-%05d", j)), V: []byte(fmt.Sprintf("v%d-%d", j, r.Intn(1000)))})
		}
		cases = append(cases, c)
	}
	// a non-empty value whose CRC-64/ISO is zero, between ordinary values
	for i := 0; i < 2; i++ {
		c := &c09Case{DataComp: 0, OnRead: i == 1, Loader: "slice", Vals: []int{-1, -2, 0x00, 0xff}}
		c.KVs = []tblKV{{K: []byte("key-00"), V: []byte("ordinary")}, {K: []byte("key-01"), V: []byte{0xf4, 0x42, 0x2f, 0xf4, 0x42, 0x2f, 0xf4, 0x12}}, {K: []byte("key-02"), V: []byte("another one")}}
		cases = append(cases, c)
	}
	return cases
}

func init() {
	register(&Prop{
		ID: "C09", Num: 9,
		Gen: genC09,
		New: func() Case { return &c09Case{} },
		Classify: func(cs Case, msg string) string {
			// F-C09a: every wrong answer concerns a non-empty value whose CRC-64/ISO is zero
			c := cs.(*c09Case)
			if ok, _ := c.oracle(false); ok {
				return ""
			}
			if ok, _ := c.oracle(true); ok {
				return "F-C09a"
			}
			return ""
		},
		Rule: "every key is read twice on the same reader, every scan flavour once; two tables (thorough: 12) of 2049-5000 records with sampled damages concentrated in the last fifth of the data file; tables of 3-6 keys (values nil / empty / adversarial, data files of ~100-300 bytes) under each data compression; every byte offset of the data file x {bit 0 flipped, bit 7 flipped, 00, ff, 91, 4c} (all 255 values on some tables in the thorough tier), every truncation length, swaps of neighbouring records; default options (verify on load) and verify-on-read; Get of every key, Scan and ScanStartingAt. Non-trivial: >=2 keys and >10 damages.",
	})
}

func (c *c09Case) Evals() int { return len(c.Obs) }
