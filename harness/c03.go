package main

import (
	"bytes"
	"encoding/binary"
	"fmt"
	sproto "github.com/thomasjungblut/go-sstables/sstables/proto"
	"google.golang.org/protobuf/proto"
	"hash/crc32"
	"math/rand"
	"os"
	"sort"
	"strings"

	"github.com/thomasjungblut/go-sstables/sstables"
)

type getOut struct {
	K        []byte `json:"k"`
	Contains bool   `json:"contains"`
	CErr     string `json:"cerr,omitempty"`
	V        []byte `json:"v,omitempty"`
	Nil      bool   `json:"nil,omitempty"`
	Err      string `json:"err,omitempty"`
}

type c03Case struct {
	KVs     []tblKV     `json:"kvs"`
	Opts    tblOpts     `json:"opts"`
	Simple  bool        `json:"simple"` // written through the skip-list writer
	Loader  string      `json:"loader"`
	RBuf    int         `json:"rbuf"`
	SeekLen int         `json:"seek_len,omitempty"`
	Probes  [][]byte    `json:"probes"`
	Bounds  [][2][]byte `json:"bounds"`
	// observations
	IdxPay  [][]byte  `json:"-"`
	Index   []byte    `json:"index"`
	Data    []byte    `json:"data"`
	Meta    metaOut   `json:"meta"`
	OpenErr string    `json:"open_err,omitempty"`
	Gets    []getOut  `json:"gets"`
	All     scanOut   `json:"all"`
	Froms   []scanOut `json:"froms"`
	Ranges  []scanOut `json:"ranges"`
	Multi   []scanOut `json:"multi,omitempty"` // three full scans opened together, drained one after the other
	Fatal   string    `json:"fatal,omitempty"`
}

func (c *c03Case) Exec() {
	defer func() {
		if r := recover(); r != nil {
			c.Fatal = fmt.Sprint("panic: ", r)
		}
	}()
	c.Fatal, c.OpenErr, c.Gets, c.Froms, c.Ranges, c.Multi = "", "", nil, nil, nil, nil
	dir := tmpDir("c03-")
	defer os.RemoveAll(dir)
	var err error
	if c.Simple {
		err = writeTableSkipList(dir, c.Opts, c.KVs)
	} else {
		var errs []string
		errs, err = writeTable(dir, c.Opts, c.KVs)
		for i, e := range errs {
			if e != "" {
				c.Fatal = fmt.Sprintf("write %d rejected", i)
				return
			}
		}
	}
	if err != nil {
		c.Fatal = "write: " + err.Error()
		return
	}
	c.Index, c.Data = readFileOr(dir, sstables.IndexFileName), readFileOr(dir, sstables.DataFileName)
	c.IdxPay = indexEntries(dir)
	r, err := sstables.NewSSTableReader(sstables.ReadBasePath(dir), sstables.ReadIndexLoader(loaderFor(c.Loader, c.RBuf)), sstables.ReadBufferSizeBytes(c.RBuf))
	if err != nil {
		c.OpenErr = classifyErr(err)
		return
	}
	defer r.Close()
	if c.SeekLen > 0 {
		sstables.VerifDiskIndexSetSeekLen(sstables.VerifReaderIndex(r), c.SeekLen)
	}
	c.Meta = metaOf(r.MetaData())
	limit := len(c.KVs) + 3
	// all probes go through one buffer that the caller re-encodes for each call (a reader must not keep the slice)
	probeBuf := make([]byte, 0, 1024)
	for _, pk := range c.Probes {
		g := getOut{K: pk}
		probeBuf = append(probeBuf[:0], pk...)
		p := probeBuf
		ok, err := r.Contains(p)
		g.Contains, g.CErr = ok, errName(err)
		v, err := r.Get(p)
		if err != nil {
			g.Err = classifyErr(err)
		} else {
			g.V, g.Nil = append([]byte{}, v...), v == nil
		}
		c.Gets = append(c.Gets, g)
		it, err := r.ScanStartingAt(p)
		c.Froms = append(c.Froms, drainTable(it, err, limit))
	}
	it, err := r.Scan()
	c.All = drainTable(it, err, limit)
	for _, b := range c.Bounds {
		it, err := r.ScanRange(b[0], b[1])
		c.Ranges = append(c.Ranges, drainTable(it, err, limit))
	}
	// several scanners of one reader alive at the same time: each is drained completely while the others wait
	c.Multi = nil
	type open struct {
		it  sstables.SSTableIteratorI
		err error
	}
	var scans []open
	for i := 0; i < 3; i++ {
		it, err := r.Scan()
		scans = append(scans, open{it, err})
	}
	for _, i := range [][]int{{0, 1, 2}, {1, 0, 2}, {2, 1, 0}, {0, 2, 1}}[len(c.KVs)%4] {
		c.Multi = append(c.Multi, drainTable(scans[i].it, scans[i].err, limit))
	}
}

func tblEq(a []tblKV, b []tblKV) bool {
	if len(a) != len(b) {
		return false
	}
	for i := range a {
		if !bytes.Equal(a[i].K, b[i].K) || !bytes.Equal(a[i].val(), b[i].val()) || a[i].Nil != b[i].Nil {
			return false
		}
	}
	return true
}

func (c *c03Case) Oracle() (bool, string) {
	if c.Fatal != "" {
		return false, c.Fatal
	}
	if c.OpenErr != "" {
		return false, "reader could not be opened: " + c.OpenErr
	}
	if c.All.Err != "" || !tblEq(c.All.KVs, c.KVs) {
		return false, fmt.Sprintf("Scan differs from the written pairs (err=%q, %d of %d)", c.All.Err, len(c.All.KVs), len(c.KVs))
	}
	for i, m := range c.Multi {
		if m.Err != "" || !tblEq(m.KVs, c.KVs) {
			return false, fmt.Sprintf("of three scans opened together the one drained as number %d differs from the written pairs (err=%q, %d of %d)", i+1, m.Err, len(m.KVs), len(c.KVs))
		}
	}
	for i, p := range c.Probes {
		g := c.Gets[i]
		var want *tblKV
		var from []tblKV
		for j := range c.KVs {
			if bytes.Equal(c.KVs[j].K, p) {
				want = &c.KVs[j]
			}
			if bytes.Compare(c.KVs[j].K, p) >= 0 {
				from = append(from, c.KVs[j])
			}
		}
		if g.CErr != "" {
			return false, fmt.Sprintf("Contains(%x) failed: %s", p, g.CErr)
		}
		if g.Contains != (want != nil) {
			if want != nil {
				return false, fmt.Sprintf("Contains(%x): written key reported absent", p)
			}
			return false, fmt.Sprintf("Contains(%x): unwritten key reported present", p)
		}
		if want == nil {
			if g.Err != "NotFound" {
				return false, fmt.Sprintf("Get(%x): unwritten key found (err=%q)", p, g.Err)
			}
		} else if g.Err != "" || g.Nil != want.Nil || !bytes.Equal(g.V, want.val()) {
			return false, fmt.Sprintf("Get(%x): wrong result for a written key (err=%q)", p, g.Err)
		}
		if c.Froms[i].Err != "" || !tblEq(c.Froms[i].KVs, from) {
			return false, fmt.Sprintf("ScanStartingAt(%x) wrong (err=%q, %d entries, want %d)", p, c.Froms[i].Err, len(c.Froms[i].KVs), len(from))
		}
	}
	for i, b := range c.Bounds {
		got := c.Ranges[i]
		if bytes.Compare(b[0], b[1]) > 0 {
			if got.Err == "" {
				return false, fmt.Sprintf("ScanRange(%x,%x): lower > upper not rejected", b[0], b[1])
			}
			continue
		}
		var want []tblKV
		for j := range c.KVs {
			if bytes.Compare(c.KVs[j].K, b[0]) >= 0 && bytes.Compare(c.KVs[j].K, b[1]) <= 0 {
				want = append(want, c.KVs[j])
			}
		}
		if got.Err != "" || !tblEq(got.KVs, want) {
			return false, fmt.Sprintf("ScanRange(%x,%x) wrong (err=%q, %d entries, want %d)", b[0], b[1], got.Err, len(got.KVs), len(want))
		}
	}
	return true, ""
}

func (c *c03Case) Sx() string {
	if c.Fatal != "" || c.OpenErr != "" {
		return ""
	}
	for _, kv := range c.KVs {
		if len(kv.V) > 256<<10 {
			return "" // megabyte values: oracle only
		}
	}
	if len(c.KVs) > 400 {
		return "" // tables of thousands of keys are judged by the oracle only (the model's byte-level evaluation of such files needs tens of gigabytes)
	}
	var gets, froms, ranges []string
	for i, p := range c.Probes {
		g := c.Gets[i]
		if g.CErr != "" {
			return ""
		}
		gets = append(gets, sxL(sxB(p), sxBool(g.Contains), sxRes(sxOBn(g.V, g.Nil), g.Err)))
		froms = append(froms, sxL(sxB(p), c.Froms[i].sx()))
	}
	for i, b := range c.Bounds {
		r := c.Ranges[i]
		if len(r.Err) > 5 && r.Err[:5] == "Open:" {
			ranges = append(ranges, sxL(sxB(b[0]), sxB(b[1]), "()"))
		} else {
			ranges = append(ranges, sxL(sxB(b[0]), sxB(b[1]), sxL(r.sx())))
		}
	}
	return sxL(sxI(c.Opts.IndexComp), sxI(c.Opts.DataComp), compTable(c.Opts.IndexComp, c.IdxPay), compTable(c.Opts.DataComp, valuesOf(c.KVs)),
		sxTblKVs(c.KVs), sxLoader(c.Loader, c.SeekLen), sxB(c.Index), sxB(c.Data), sxMeta(c.Meta),
		sxList(gets), c.All.sx(), sxList(froms), sxList(ranges))
}

func (c *c03Case) Nontrivial() bool {
	abs, outside := false, false
	for _, p := range c.Probes {
		found := false
		for _, kv := range c.KVs {
			if bytes.Equal(kv.K, p) {
				found = true
			}
		}
		if !found {
			abs = true
		}
	}
	for _, b := range c.Bounds {
		if len(c.KVs) > 0 && (bytes.Compare(b[1], c.KVs[0].K) < 0 || bytes.Compare(b[0], c.KVs[len(c.KVs)-1].K) > 0) {
			outside = true
		}
	}
	return len(c.KVs) >= 3 && abs && outside
}

func (c *c03Case) Kind() string {
	w := "stream"
	if c.Simple {
		w = "simple"
	}
	return fmt.Sprintf("%s/%s/i%d/d%d/n=%s", c.Loader, w, c.Opts.IndexComp, c.Opts.DataComp, bucket(len(c.KVs)))
}

func tblKey(r *rand.Rand, width int) []byte {
	if width < 0 {
		b := make([]byte, r.Intn(-width+1))
		alphabet := []byte{0, 'a', 'b'}
		for i := range b {
			b[i] = alphabet[r.Intn(len(alphabet))]
		}
		return b
	}
	if width > 0 {
		b := make([]byte, width)
		alphabet := []byte{0, 'a', 'b', 0x91}
		for i := range b {
			b[i] = alphabet[r.Intn(len(alphabet))]
		}
		return b
	}
	if r.Intn(14) == 0 {
		// a marker lookalike followed by bytes that make the trial parse of a "record" at that position fail in one
		// particular way: overlong varint, wrong magic continuation, wrong checksum, a header cut by the end of the key
		tails := [][]byte{
			{0x00, 0xff, 0xff, 0xff, 0xff, 0xff, 0xff, 0xff, 0xff, 0xff, 0xff, 0x01},
			{0x01, 0x80, 0x80, 0x80, 0x80, 0x80, 0x80, 0x80, 0x80, 0x80, 0x80, 0x80},
			{0x00, 0x05, 0x00, 0x01, 0x02, 0x03},
			{0x00, 0x85},
			{0x02, 0x00, 0x00, 0x00},
		}
		k := []byte{byte('a' + r.Intn(3))}
		k = append(k, 0x91, 0x8d, 0x4c)
		return append(k, tails[r.Intn(len(tails))]...)
	}
	n := r.Intn(5)
	switch r.Intn(12) {
	case 0:
		n = 0
	case 1:
		n = 100 + r.Intn(500)
	}
	b := make([]byte, n)
	alphabet := []byte{0, 1, 'a', 'b', 'c', 0x91, 0x8d, 0x4c, 0xff}
	for i := range b {
		b[i] = alphabet[r.Intn(len(alphabet))]
	}
	return b
}

func tblValue(r *rand.Rand) tblKV {
	switch r.Intn(8) {
	case 0:
		return tblKV{Nil: true}
	case 1:
		return tblKV{V: []byte{}}
	}
	return tblKV{V: advPayload(r, 30)}
}

func genTable(r *rand.Rand, n int, width int) []tblKV {
	seen := map[string]bool{}
	var kvs []tblKV
	for tries := 0; len(kvs) < n && tries < 20*n+20; tries++ {
		k := tblKey(r, width)
		if seen[string(k)] {
			continue
		}
		seen[string(k)] = true
		kv := tblValue(r)
		kv.K = k
		kvs = append(kvs, kv)
	}
	sort.Slice(kvs, func(i, j int) bool { return bytes.Compare(kvs[i].K, kvs[j].K) < 0 })
	return kvs
}

func tblProbes(r *rand.Rand, kvs []tblKV, width int, maxProbes int) ([][]byte, [][2][]byte) {
	seen := map[string]bool{}
	var probes [][]byte
	add := func(k []byte) {
		if !seen[string(k)] {
			seen[string(k)] = true
			probes = append(probes, k)
		}
	}
	for _, kv := range kvs {
		add(kv.K)
	}
	for i := 0; i < 5; i++ {
		add(tblKey(r, width))
	}
	if width == 0 {
		add([]byte{})
		add(bytes.Repeat([]byte{0xff}, 6))
		for _, kv := range kvs {
			if r.Intn(3) == 0 {
				add(append(append([]byte{}, kv.K...), 0))
			}
			if r.Intn(3) == 0 && len(kv.K) > 0 {
				add(kv.K[:len(kv.K)-1])
			}
		}
	}
	if len(probes) > maxProbes {
		r.Shuffle(len(probes), func(i, j int) { probes[i], probes[j] = probes[j], probes[i] })
		probes = probes[:maxProbes]
	}
	var bounds [][2][]byte
	if width == 0 {
		bounds = append(bounds, [2][]byte{{}, {}}, [2][]byte{{}, bytes.Repeat([]byte{0xff}, 6)}, [2][]byte{bytes.Repeat([]byte{0xff}, 6), {}})
	}
	if len(kvs) > 0 && width == 0 {
		min, max := kvs[0].K, kvs[len(kvs)-1].K
		if len(min) > 0 {
			bounds = append(bounds, [2][]byte{{}, min[:len(min)-1]}) // upper bound below the minimum
		}
		bounds = append(bounds, [2][]byte{append(append([]byte{}, max...), 0), bytes.Repeat([]byte{0xff}, 7)}) // above the maximum
		bounds = append(bounds, [2][]byte{min, min}, [2][]byte{max, max}, [2][]byte{min, max})
	}
	for i := 0; i < 6 && len(probes) > 0; i++ {
		a, b := probes[r.Intn(len(probes))], probes[r.Intn(len(probes))]
		if i < 4 && bytes.Compare(a, b) > 0 {
			a, b = b, a
		}
		bounds = append(bounds, [2][]byte{a, b})
	}
	return probes, bounds
}

func genC03(r *rand.Rand, tier string) []Case {
	n, maxKeys := 400, 40
	if tier == "thorough" {
		n, maxKeys = 8000, 300
	}
	loaders := []string{"slice", "skiplist", "disk", "map4", "slice", "disk", "map20", "skiplist"}
	bufs := []int{1, 7, 64, 4096, 1 << 20}
	var cases []Case
	for i := 0; i < n; i++ {
		c := &c03Case{Loader: loaders[i%len(loaders)], RBuf: bufs[r.Intn(len(bufs))], Simple: i%5 == 4}
		c.Opts = tblOpts{IndexComp: r.Intn(4), DataComp: r.Intn(4), BloomN: []uint64{1, 10, 1000}[r.Intn(3)], BloomP: []float64{0.0001, 0.01, 0.5}[r.Intn(3)], WBuf: bufs[r.Intn(len(bufs))]}
		width := 0
		if c.Loader == "map4" {
			width = 4
		} else if c.Loader == "map20" {
			width = 20
		}
		if c.Loader == "map4" && i%16 == 3 {
			width = -4 // keys and probes of 0..4 bytes: exercises the zero padding of the mapper (F-C03c)
		}
		nk := r.Intn(maxKeys)
		if i%17 == 0 {
			nk = r.Intn(4)
		}
		if tier == "thorough" && i%400 == 0 {
			nk = 2000 + r.Intn(3000)
		}
		c.KVs = genTable(r, nk, width)
		if c.Loader == "disk" {
			c.SeekLen = []int{0, 4, 7, 16, 64}[r.Intn(5)]
		}
		c.Probes, c.Bounds = tblProbes(r, c.KVs, width, 16)
		cases = append(cases, c)
	}
	// values above one mebibyte (buffer pools have size classes), uncompressed and compressed data files
	for k := 0; k < 2; k++ {
		c := &c03Case{Loader: []string{"slice", "disk"}[k], RBuf: 4096}
		c.Opts = tblOpts{IndexComp: 0, DataComp: []int{0, 2}[k], BloomN: 10, BloomP: 0.01, WBuf: 4096}
		big := make([]byte, 1<<20+1+r.Intn(1000))
		r.Read(big)
		c.KVs = []tblKV{{K: []byte("a"), V: []byte("small")}, {K: []byte("b"), V: big}, {K: []byte("c"), V: []byte("after")}}
		c.Probes = [][]byte{[]byte("a"), []byte("b"), []byte("c"), []byte("bb")}
		c.Bounds = [][2][]byte{{[]byte("a"), []byte("c")}, {[]byte("b"), []byte("b")}}
		cases = append(cases, c)
	}
	// a key that contains the complete image of an index record (under the disk loader the index file is scanned for
	// record markers)
	for k := 0; k < 2; k++ {
		entry, _ := proto.Marshal(&sproto.IndexEntry{Key: []byte("zzzz"), ValueOffset: 8})
		evil := append([]byte("b"), recImage(entry)...)
		c := &c03Case{Loader: "disk", RBuf: 4096, SeekLen: []int{0, 16}[k]}
		c.Opts = tblOpts{IndexComp: 0, DataComp: 0, BloomN: 10, BloomP: 0.01, WBuf: 4096}
		c.KVs = []tblKV{{K: []byte("a"), V: []byte("va")}, {K: evil, V: []byte("vb")}, {K: []byte("c"), V: []byte("vc")}, {K: []byte("d"), V: []byte("vd")}}
		c.Probes = [][]byte{[]byte("a"), evil, []byte("c"), []byte("d"), []byte("zzzz"), []byte("bb")}
		c.Bounds = [][2][]byte{{[]byte("a"), []byte("d")}, {[]byte("b"), []byte("c")}}
		cases = append(cases, c)
	}
	return cases
}

// embedsIndexRecord: do the bytes start with a complete, checksum-correct record whose payload parses as an index entry
func embedsIndexRecord(b []byte) bool {
	if len(b) < 7 || b[3] != 0 {
		return false
	}
	usz, n1 := binary.Uvarint(b[4:])
	if n1 <= 0 || len(b) < 4+n1+1 {
		return false
	}
	csz, n2 := binary.Uvarint(b[4+n1:])
	if n2 <= 0 || csz != 0 {
		return false
	}
	hl := 4 + n1 + n2
	crc, n3 := binary.Uvarint(b[hl:])
	if n3 <= 0 || uint64(crc32.Checksum(b[:hl], crc32.MakeTable(crc32.Castagnoli))) != crc {
		return false
	}
	if uint64(len(b)) < uint64(hl+n3)+usz {
		return false
	}
	e := &sproto.IndexEntry{}
	return proto.Unmarshal(b[hl+n3:uint64(hl+n3)+usz], e) == nil
}

func init() {
	register(&Prop{
		ID: "C03", Num: 3,
		Gen: genC03,
		New: func() Case { return &c03Case{} },
		Classify: func(cs Case, msg string) string {
			c := cs.(*c03Case)
			if c.Loader == "disk" && c.Opts.IndexComp == 0 {
				// F-C03d: a key embeds the complete image of an index record; the disk index finds its records by scanning
				// for the marker and cannot tell the image from a record
				for _, kv := range c.KVs {
					for i := 0; i+3 <= len(kv.K); i++ {
						if kv.K[i] == 0x91 && kv.K[i+1] == 0x8d && kv.K[i+2] == 0x4c && embedsIndexRecord(kv.K[i:]) {
							return "F-C03d"
						}
					}
				}
			}
			if c.Loader != "map4" && c.Loader != "map20" {
				return ""
			}
			if len(c.Gets) != len(c.Probes) {
				return "" // the run did not get as far as the probes
			}
			w := 4
			if c.Loader == "map20" {
				w = 20
			}
			pad := func(b []byte) string { x := make([]byte, w); copy(x, b); return string(x) }
			// every wrong Get must be explained by a written key of different length with the same zero padding
			explained := false
			for i, p := range c.Probes {
				g := c.Gets[i]
				var want *tblKV
				for j := range c.KVs {
					if bytes.Equal(c.KVs[j].K, p) {
						want = &c.KVs[j]
					}
				}
				wrong := (want == nil && g.Err != "NotFound") || (want != nil && (g.Err != "" || g.Nil != want.Nil || !bytes.Equal(g.V, want.val()))) ||
					(g.CErr == "" && g.Contains && want == nil)
				if !wrong {
					continue
				}
				twin := false
				for _, kv := range c.KVs {
					if !bytes.Equal(kv.K, p) && pad(kv.K) == pad(p) {
						twin = true
					}
				}
				if !twin {
					return ""
				}
				explained = true
			}
			if explained && (strings.HasPrefix(msg, "Get(") || (strings.HasPrefix(msg, "Contains(") && strings.Contains(msg, "unwritten key reported present"))) {
				return "F-C03c"
			}
			return ""
		},
		Rule: "tables of 0..40 (thorough: ..5000) strictly ascending keys (lengths 0..600, marker bytes, a long key dominating the index) with nil/empty/adversarial values, written through the stream or skip-list writer, 4x4 compression pairs, bloom n in {1,10,1000} x p in {1e-4,.01,.5}, write/read buffers {1,7,64,4096,1Mi}; opened with slice / skip-list / map(4,20 with fixed-width keys) / disk (scan window {4096,4,7,16,64}) loaders; probes: every written key, absent keys (random, empty, above max, key+00, key minus last byte); bounds: empty, full, below minimum, above maximum, equal, random incl. lower>upper. Non-trivial: >=3 keys, an absent probe and a bound pair outside the key range.",
	})
}
