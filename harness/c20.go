package main

import (
	"bytes"
	"fmt"
	"math/rand"
	"os"
	"path/filepath"
	"regexp"
	"strconv"
	"strings"

	"github.com/kaitai-io/kaitai_struct_go_runtime/kaitai"
	"github.com/thomasjungblut/go-sstables/kaitai/gokaitai"
	"github.com/thomasjungblut/go-sstables/recordio"
)

type ksRec struct {
	Nil     uint8  `json:"nil"`
	USize   int    `json:"usize"`
	CSize   int    `json:"csize"`
	Payload []byte `json:"payload"`
}

type c20Case struct {
	Comp int      `json:"comp"`
	Recs []c12Rec `json:"recs"`
	// a writer program with a seek-back: Recs[:TailAt], then Tail, then Seek back to where Tail began, then Recs[TailAt:]
	Tail   []c12Rec `json:"tail,omitempty"`
	TailAt int      `json:"tail_at,omitempty"`
	// probe mode: which compression codes does the writer accept at all (each must be named by the schema)
	Sync     bool  `json:"sync,omitempty"` // every second record goes through WriteSync
	Probe    bool  `json:"probe,omitempty"`
	Accepted []int `json:"accepted,omitempty"`
	Unnamed  []int `json:"unnamed,omitempty"`
	// observations
	File    []byte   `json:"file"`
	Offs    []uint64 `json:"offs"`
	End     uint64   `json:"end"`
	KErr    string   `json:"kerr,omitempty"`
	Version uint32   `json:"version"`
	KComp   int      `json:"kcomp"`
	EnumKsy bool     `json:"enum_ksy"` // the compression code of the file is named by the schema's enum / by the generated Go constants
	EnumGo  bool     `json:"enum_go"`
	KRecs   []ksRec  `json:"krecs"`
	Native  []recOut `json:"native"`
	Fatal   string   `json:"fatal,omitempty"`
}

func (c *c20Case) rec(i int) []byte {
	if c.Recs[i].Nil {
		return nil
	}
	if c.Recs[i].Rec == nil {
		return []byte{}
	}
	return c.Recs[i].Rec
}

func (c *c20Case) Exec() {
	defer func() {
		if r := recover(); r != nil {
			c.Fatal = fmt.Sprint("panic: ", r)
		}
	}()
	c.Fatal, c.KErr, c.KRecs, c.Offs, c.Native, c.Accepted, c.Unnamed = "", "", nil, nil, nil, nil, nil
	dir := tmpDir("c20-")
	defer os.RemoveAll(dir)
	if c.Probe {
		for code := 0; code < 64; code++ {
			p := filepath.Join(dir, fmt.Sprintf("probe%d.rio", code))
			ok := func() (ok bool) {
				defer func() {
					if recover() != nil {
						ok = false
					}
				}()
				w, err := recordio.NewFileWriter(recordio.Path(p), recordio.CompressionType(code))
				if err != nil || w.Open() != nil {
					return false
				}
				if _, err := w.Write([]byte("probe record")); err != nil {
					return false
				}
				return w.Close() == nil
			}()
			if !ok {
				continue
			}
			// the code that is really in the file header
			b, _ := os.ReadFile(p)
			if len(b) < 8 {
				continue
			}
			written := int(b[4]) | int(b[5])<<8 | int(b[6])<<16 | int(b[7])<<24
			c.Accepted = append(c.Accepted, written)
			if inKsy, inGo := schemaNamesCompression(written); !inKsy || !inGo {
				c.Unnamed = append(c.Unnamed, written)
			}
		}
		return
	}
	path := filepath.Join(dir, "f.rio")
	w, err := recordio.NewFileWriter(recordio.Path(path), recordio.CompressionType(c.Comp), recordio.BufferSizeBytes(4096))
	must(err)
	must(w.Open())
	for i := range c.Recs {
		if len(c.Tail) > 0 && i == c.TailAt {
			mark := w.Size()
			for _, t := range c.Tail {
				var b []byte
				if !t.Nil {
					b = t.Rec
					if b == nil {
						b = []byte{}
					}
				}
				_, err := w.Write(b)
				must(err)
			}
			must(w.Seek(mark))
		}
		var off uint64
		var err error
		if c.Sync && i%2 == 0 {
			off, err = w.WriteSync(c.rec(i))
		} else {
			off, err = w.Write(c.rec(i))
		}
		must(err)
		c.Offs = append(c.Offs, off)
	}
	c.End = w.Size()
	must(w.Close())
	c.File, _ = os.ReadFile(path)
	c.Native = readAllSeq(path, 4096, false, len(c.Recs)+2)
	f, err := os.Open(path)
	must(err)
	defer f.Close()
	rio := gokaitai.NewRecordioV4()
	if err := rio.Read(kaitai.NewStream(f), nil, rio); err != nil {
		c.KErr = err.Error()
	}
	if rio.FileHeader != nil {
		c.Version = rio.FileHeader.Version
		c.KComp = int(rio.FileHeader.CompressionType)
		c.EnumKsy, c.EnumGo = schemaNamesCompression(c.KComp)
	}
	for _, r := range rio.Record {
		if r == nil || r.UncompressedPayloadLen == nil || r.CompressedPayloadLen == nil {
			continue
		}
		u, _ := r.UncompressedPayloadLen.Value()
		cs, _ := r.CompressedPayloadLen.Value()
		c.KRecs = append(c.KRecs, ksRec{Nil: r.RecordNil, USize: u, CSize: cs, Payload: append([]byte{}, r.Payload...)})
	}
}

// stored payload bytes of record i as they are in the file (what the native reader reads before decompressing)
func (c *c20Case) stored(i int) []byte {
	if c.Recs[i].Nil {
		return []byte{}
	}
	if c.Comp == 0 {
		return c.rec(i)
	}
	return compressBytes(c.Comp, c.rec(i))
}

func (c *c20Case) Oracle() (bool, string) {
	if c.Fatal != "" {
		return false, c.Fatal
	}
	if c.Probe {
		if len(c.Unnamed) > 0 {
			return false, fmt.Sprintf("the writer accepts and writes compression code %d, which the compression enum of the schema (ksy / generated Go) does not name", c.Unnamed[0])
		}
		return true, ""
	}
	if c.KErr != "" {
		return false, "kaitai parse failed: " + c.KErr
	}
	if c.Version != 4 || c.KComp != c.Comp {
		return false, "file header decoded differently"
	}
	if !c.EnumKsy || !c.EnumGo {
		return false, fmt.Sprintf("the writer emitted compression code %d, which the compression enum of the schema does not name (ksy: %v, generated Go: %v)", c.KComp, c.EnumKsy, c.EnumGo)
	}
	if len(c.KRecs) != len(c.Recs) {
		return false, fmt.Sprintf("kaitai decoded %d records, %d were written", len(c.KRecs), len(c.Recs))
	}
	for i := range c.Recs {
		k := c.KRecs[i]
		if (k.Nil == 1) != c.Recs[i].Nil || k.Nil > 1 {
			return false, fmt.Sprintf("record %d: nil flag differs", i)
		}
		if !bytes.Equal(k.Payload, c.stored(i)) {
			return false, fmt.Sprintf("record %d: stored payload differs (kaitai %d bytes, file %d bytes)", i, len(k.Payload), len(c.stored(i)))
		}
		n := c.Native[i]
		if n.Err != "" || n.Nil != c.Recs[i].Nil {
			return false, fmt.Sprintf("record %d: native reader differs", i)
		}
	}
	return true, ""
}

func (c *c20Case) Sx() string {
	if c.Fatal != "" || c.Probe {
		return ""
	}
	total := 0
	for i := range c.Recs {
		total += len(c.Recs[i].Rec)
	}
	if total > 64<<10 {
		return "" // judged by the oracle only
	}
	var recs, ctab, krecs []string
	seen := map[string]bool{}
	for i := range c.Recs {
		recs = append(recs, sxOBn(c.Recs[i].Rec, c.Recs[i].Nil))
		if c.Comp != 0 && !seen[string(c.rec(i))] {
			seen[string(c.rec(i))] = true
			ctab = append(ctab, sxL(sxB(c.rec(i)), sxB(compressBytes(c.Comp, c.rec(i)))))
		}
	}
	if c.Comp != 0 && !seen[""] {
		ctab = append(ctab, sxL(sxB(nil), sxB(compressBytes(c.Comp, []byte{}))))
	}
	for _, k := range c.KRecs {
		krecs = append(krecs, sxL(sxI(int(k.Nil)), sxI(k.USize), sxI(k.CSize), sxB(k.Payload)))
	}
	return sxL(sxI(c.Comp), sxList(ctab), sxList(recs), sxB(c.File), sxBool(c.KErr != ""), sxN(uint64(c.Version)), sxI(c.KComp), sxList(krecs))
}

func (c *c20Case) Nontrivial() bool { return len(c.Recs) >= 2 || len(c.Accepted) >= 2 }
func (c *c20Case) Kind() string     { return fmt.Sprintf("comp=%d/recs=%s", c.Comp, bucket(len(c.Recs))) }

func genC20(r *rand.Rand, tier string) []Case {
	n := 200
	if tier == "thorough" {
		n = 5000
	}
	var cases []Case
	for i := 0; i < n; i++ {
		c := &c20Case{Comp: i % 4}
		nrec := r.Intn(8)
		maxLen := 40
		if i%20 == 0 {
			maxLen = 3000
		}
		if i%40 == 7 {
			maxLen = 40000 // stored lengths needing a three-byte varint
		}
		if tier == "thorough" && i%500 == 0 {
			maxLen = 1 << 20
		}
		for j := 0; j < nrec; j++ {
			switch r.Intn(6) {
			case 0:
				c.Recs = append(c.Recs, c12Rec{Nil: true})
			case 1:
				c.Recs = append(c.Recs, c12Rec{Rec: []byte{}})
			default:
				c.Recs = append(c.Recs, c12Rec{Rec: advPayload(r, maxLen)})
			}
		}
		if i%5 == 2 && len(c.Recs) > 0 {
			// some records were written beyond and given up again: a tail (often nil records, which have no payload)
			// is written, then the writer seeks back over it and goes on
			c.TailAt = r.Intn(len(c.Recs) + 1)
			for j := 0; j < 1+r.Intn(4); j++ {
				if r.Intn(2) == 0 {
					c.Tail = append(c.Tail, c12Rec{Nil: true})
				} else {
					c.Tail = append(c.Tail, c12Rec{Rec: advPayload(r, 60)})
				}
			}
			if r.Intn(2) == 0 {
				c.Tail = append(c.Tail, c12Rec{Nil: true}, c12Rec{Nil: true}) // the very end of the file is a nil record
			}
		}
		cases = append(cases, c)
	}
	// records that compress to a fraction of their length (their uncompressed length exceeds the size of the whole file),
	// and files some of whose records were appended with WriteSync
	for k := 0; k < 4; k++ {
		c := &c20Case{Comp: k, Sync: k%2 == 1}
		for j := 0; j < 3; j++ {
			c.Recs = append(c.Recs, c12Rec{Rec: bytes.Repeat([]byte{byte('a' + j), byte('b' + j)}, 20000+r.Intn(25000))})
		}
		c.Recs = append(c.Recs, c12Rec{Nil: true}, c12Rec{Rec: []byte("tail")})
		cases = append(cases, c)
	}
	for k := 0; k < 4; k++ {
		c := &c20Case{Comp: k, Sync: true}
		for j := 0; j < 2+r.Intn(4); j++ {
			c.Recs = append(c.Recs, c12Rec{Rec: advPayload(r, 60)})
		}
		cases = append(cases, c)
	}
	cases = append(cases, &c20Case{Probe: true})
	return cases
}

func init() {
	register(&Prop{
		ID: "C20", Num: 20,
		Gen:  genC20,
		New:  func() Case { return &c20Case{} },
		Rule: "files of 0-7 records (nil, empty, adversarial payloads up to 3000 bytes; 1 MiB in the thorough tier) under each of the 4 compression types, written by the real writer and parsed by the generated Kaitai reader; compared record by record with the file bytes and the native reader. Non-trivial: >=2 records.",
	})
}

// schemaNamesCompression: is the code a member of the compression enum in kaitai/recordio_v4.ksy and among the
// generated constants of kaitai/gokaitai/recordio_v4.go (both read from /repo's working tree)
func schemaNamesCompression(code int) (bool, bool) {
	inKsy, inGo := false, false
	if data, err := os.ReadFile(filepath.Join(repoRoot, "kaitai", "recordio_v4.ksy")); err == nil {
		src := string(data)
		if i := strings.Index(src, "enums:"); i >= 0 {
			re := regexp.MustCompile(`(?m)^\s+(\d+):\s*([A-Za-z_][A-Za-z0-9_]*)\s*$`)
			for _, m := range re.FindAllStringSubmatch(src[i:], -1) {
				if v, _ := strconv.Atoi(m[1]); v == code {
					inKsy = true
				}
			}
		}
	}
	if data, err := os.ReadFile(filepath.Join(repoRoot, "kaitai", "gokaitai", "recordio_v4.go")); err == nil {
		re := regexp.MustCompile(`(?m)^\s*RecordioV4_Compression__\w+\s+RecordioV4_Compression\s*=\s*(\d+)`)
		for _, m := range re.FindAllStringSubmatch(string(data), -1) {
			if v, _ := strconv.Atoi(m[1]); v == code {
				inGo = true
			}
		}
	}
	return inKsy, inGo
}
