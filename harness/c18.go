package main

// C18: documented concurrent use is data-race free and gives single-threaded answers.
// Every case runs in a child process of this (race-detector enabled) binary: N goroutines issue
// random calls against ONE shared handle; every result is compared with the answer the same call
// gave single-threaded (readers) / with a per-goroutine reference (database, goroutine-owned keys);
// the race detector's reports are collected from its log files.

import (
	"bytes"
	"encoding/json"
	"errors"
	"flag"
	"fmt"
	"io"
	"math/rand"
	"os"
	"os/exec"
	"path/filepath"
	"strings"
	"sync"
	"sync/atomic"
	"time"

	"github.com/thomasjungblut/go-sstables/recordio"
	"github.com/thomasjungblut/go-sstables/simpledb"
	"github.com/thomasjungblut/go-sstables/sstables"
)

var raceEnabled = false

type c18Case struct {
	Mode       string `json:"mode"` // mmap | table | db
	Seed       int64  `json:"seed"`
	Procs      int    `json:"procs"`
	Goroutines int    `json:"goroutines"`
	Calls      int    `json:"calls"` // per goroutine
	Comp       int    `json:"comp"`  // compression type of the data
	Records    int    `json:"records"`
	Loader     string `json:"loader,omitempty"`
	Memstore   uint64 `json:"memstore,omitempty"`
	Closer     bool   `json:"closer,omitempty"` // db: goroutine 0 closes the handle while the others are still calling
	// observations
	Done       int      `json:"done"`
	Mismatches []string `json:"mismatches,omitempty"`
	Races      int      `json:"races"`
	RaceSample string   `json:"race_sample,omitempty"`
	Fatal      string   `json:"fatal,omitempty"`
}

type c18Result struct {
	Done       int      `json:"done"`
	Mismatches []string `json:"mismatches,omitempty"`
}

func (c *c18Case) Exec() {
	c.Done, c.Mismatches, c.Races, c.RaceSample, c.Fatal = 0, nil, 0, "", ""
	if !raceEnabled {
		c.Fatal = "harness binary was built without -race: C18 cannot be decided"
		return
	}
	dir := tmpDir("c18-")
	defer os.RemoveAll(dir)
	self, _ := os.Executable()
	a, _ := json.Marshal(c)
	af := filepath.Join(dir, "args.json")
	must(os.WriteFile(af, a, 0644))
	cmd := exec.Command(self, "c18child", "--args", "@"+af, "--dir", dir)
	cmd.Env = append(os.Environ(), fmt.Sprintf("GOMAXPROCS=%d", c.Procs),
		"GORACE=halt_on_error=0 exitcode=0 history_size=2 log_path="+filepath.Join(dir, "race"))
	var out, errb bytes.Buffer
	cmd.Stdout, cmd.Stderr = &out, &errb
	done := make(chan error, 1)
	must(cmd.Start())
	go func() { done <- cmd.Wait() }()
	select {
	case err := <-done:
		if err != nil {
			msg := errb.String()
			if len(msg) > 1500 {
				msg = msg[:1500]
			}
			c.Fatal = "child crashed: " + err.Error() + " " + msg
		}
	case <-time.After(5 * time.Minute):
		cmd.Process.Kill()
		c.Fatal = "child hangs (deadlock?)"
	}
	var res c18Result
	if c.Fatal == "" {
		if err := json.Unmarshal(out.Bytes(), &res); err != nil {
			c.Fatal = "child output: " + err.Error()
		}
	}
	c.Done, c.Mismatches = res.Done, res.Mismatches
	logs, _ := filepath.Glob(filepath.Join(dir, "race.*"))
	for _, l := range logs {
		b, _ := os.ReadFile(l)
		n := strings.Count(string(b), "WARNING: DATA RACE")
		c.Races += n
		if n > 0 && c.RaceSample == "" {
			s := string(b)
			// keep the frames inside the library, which identify the racing accesses
			var keep []string
			for _, ln := range strings.Split(s, "\n") {
				if strings.Contains(ln, "DATA RACE") || strings.Contains(ln, "go-sstables") || strings.HasPrefix(ln, "Read at") || strings.HasPrefix(ln, "Write at") || strings.HasPrefix(ln, "Previous") {
					keep = append(keep, strings.TrimSpace(ln))
				}
				if len(keep) > 24 {
					break
				}
			}
			c.RaceSample = strings.Join(keep, " | ")
		}
	}
}

func (c *c18Case) Oracle() (bool, string) {
	if c.Fatal != "" {
		return false, c.Fatal
	}
	if c.Races > 0 {
		return false, fmt.Sprintf("%d data race reports, first: %s", c.Races, c.RaceSample)
	}
	if len(c.Mismatches) > 0 {
		return false, fmt.Sprintf("%d calls answered differently than alone, first: %s", len(c.Mismatches), c.Mismatches[0])
	}
	return true, ""
}

func (c *c18Case) Sx() string       { return "" }
func (c *c18Case) Nontrivial() bool { return c.Done >= 100 }
func (c *c18Case) Kind() string {
	return fmt.Sprintf("%s/comp=%d/procs=%d", c.Mode, c.Comp, c.Procs)
}
func (c *c18Case) Evals() int { return c.Done }

// ---- child

type mismatchLog struct {
	mu  sync.Mutex
	out []string
	n   int
}

func (m *mismatchLog) add(format string, a ...interface{}) {
	m.mu.Lock()
	defer m.mu.Unlock()
	if len(m.out) < 20 {
		m.out = append(m.out, fmt.Sprintf(format, a...))
	}
}
func (m *mismatchLog) did() {
	m.mu.Lock()
	m.n++
	m.mu.Unlock()
}

func errClass(err error) string {
	if err == nil {
		return ""
	}
	if errors.Is(err, io.EOF) {
		return "EOF"
	}
	if errors.Is(err, sstables.NotFound) {
		return "NotFound"
	}
	if errors.Is(err, sstables.Done) {
		return "Done"
	}
	if errors.Is(err, simpledb.ErrNotFound) {
		return "NotFound"
	}
	return "Other:" + err.Error()
}

func c18Child(args []string) int {
	fs := flag.NewFlagSet("c18child", flag.ExitOnError)
	av := fs.String("args", "", "")
	dir := fs.String("dir", "", "")
	_ = fs.Parse(args)
	var c c18Case
	childArgs(*av, &c)
	ml := &mismatchLog{}
	func() {
		defer func() {
			if r := recover(); r != nil {
				ml.add("panic: %v", r)
			}
		}()
		switch c.Mode {
		case "mmap":
			c18Mmap(&c, *dir, ml)
		case "table":
			c18Table(&c, *dir, ml)
		case "db":
			c18Db(&c, *dir, ml)
		}
	}()
	js, _ := json.Marshal(c18Result{Done: ml.n, Mismatches: ml.out})
	fmt.Println(string(js))
	return 0
}

func init() { subcommands["c18child"] = c18Child }

// run g goroutines; a panic in one of them is reported as a mismatch (and not as a crashed child)
func parallel(g int, ml *mismatchLog, f func(id int, r *rand.Rand), seed int64) {
	var wg sync.WaitGroup
	start := make(chan struct{})
	for i := 0; i < g; i++ {
		wg.Add(1)
		go func(id int) {
			defer wg.Done()
			defer func() {
				if p := recover(); p != nil {
					ml.add("panic in goroutine %d: %v", id, p)
				}
			}()
			<-start
			f(id, rand.New(rand.NewSource(seed*1000+int64(id))))
		}(i)
	}
	close(start)
	wg.Wait()
}

func c18Payload(r *rand.Rand) []byte {
	n := []int{0, 1, 7, 30, 200, 1500, 5000}[r.Intn(7)]
	b := make([]byte, n)
	if r.Intn(2) == 0 {
		for i := range b {
			b[i] = byte('a' + i%7) // compressible
		}
	} else {
		r.Read(b)
	}
	if n >= 7 && r.Intn(3) == 0 {
		copy(b[r.Intn(n-3):], []byte{0x91, 0x8d, 0x4c}) // the record marker inside a payload
	}
	return b
}

type seekAns struct {
	off uint64
	rec []byte
	err string
}

func c18Mmap(c *c18Case, dir string, ml *mismatchLog) {
	r := rand.New(rand.NewSource(c.Seed))
	path := filepath.Join(dir, "data.rio")
	w, err := recordio.NewFileWriter(recordio.Path(path), recordio.CompressionType(c.Comp))
	must(err)
	must(w.Open())
	var offs []uint64
	for i := 0; i < c.Records; i++ {
		o, err := w.Write(c18Payload(r))
		must(err)
		offs = append(offs, o)
	}
	must(w.Close())
	rd, err := recordio.NewMemoryMappedReaderWithPath(path)
	must(err)
	must(rd.Open())
	defer rd.Close()
	size := rd.(interface{ Size() uint64 }).Size()
	// the single-threaded answers
	readAns := map[uint64]seekAns{}
	for _, o := range offs {
		rec, err := rd.ReadNextAt(o)
		readAns[o] = seekAns{o, append([]byte{}, rec...), errClass(err)}
	}
	var seekOffs []uint64
	for i := 0; i < 60; i++ {
		seekOffs = append(seekOffs, uint64(r.Int63n(int64(size)+10)))
	}
	seekAnsw := map[uint64]seekAns{}
	for _, o := range seekOffs {
		no, rec, err := rd.SeekNext(o)
		seekAnsw[o] = seekAns{no, append([]byte{}, rec...), errClass(err)}
	}
	parallel(c.Goroutines, ml, func(id int, r *rand.Rand) {
		for i := 0; i < c.Calls; i++ {
			if r.Intn(4) == 0 {
				o := seekOffs[r.Intn(len(seekOffs))]
				no, rec, err := rd.SeekNext(o)
				want := seekAnsw[o]
				if no != want.off || !bytes.Equal(rec, want.rec) || errClass(err) != want.err {
					ml.add("SeekNext(%d) = (%d, %d bytes, %q) but alone (%d, %d bytes, %q)", o, no, len(rec), errClass(err), want.off, len(want.rec), want.err)
				}
			} else {
				o := offs[r.Intn(len(offs))]
				rec, err := rd.ReadNextAt(o)
				want := readAns[o]
				if !bytes.Equal(rec, want.rec) || errClass(err) != want.err {
					ml.add("ReadNextAt(%d) = (%d bytes, %q) but alone (%d bytes, %q)", o, len(rec), errClass(err), len(want.rec), want.err)
				}
			}
			ml.did()
		}
	}, c.Seed)
}

func drain(it sstables.SSTableIteratorI, err error, max int) (string, int) {
	if err != nil {
		return "open:" + errClass(err), 0
	}
	var sb strings.Builder
	n := 0
	for max < 0 || n < max {
		k, v, err := it.Next()
		if err != nil {
			if !errors.Is(err, sstables.Done) {
				sb.WriteString("err:" + errClass(err))
			}
			break
		}
		fmt.Fprintf(&sb, "%x=%x;", k, v)
		n++
	}
	return sb.String(), n
}

func c18Table(c *c18Case, dir string, ml *mismatchLog) {
	r := rand.New(rand.NewSource(c.Seed))
	tdir := filepath.Join(dir, "tbl")
	must(os.MkdirAll(tdir, 0755))
	var kvs []tblKV
	for i := 0; i < c.Records; i++ {
		kvs = append(kvs, tblKV{K: []byte(fmt.Sprintf("key-%05d", i*2)), V: c18Payload(r)})
		if len(kvs[i].V) == 0 {
			kvs[i].V = []byte{1}
		}
	}
	o := defaultTblOpts()
	o.DataComp = c.Comp
	o.BloomN = uint64(c.Records)
	_, err := writeTable(tdir, o, kvs)
	must(err)
	ropts := []sstables.ReadOption{sstables.ReadBasePath(tdir)}
	if c.Seed%2 == 1 {
		// per-read checksum verification instead of verification at load time
		ropts = append(ropts, sstables.SkipHashCheckOnLoad(), sstables.EnableHashCheckOnReads())
	}
	if c.Loader != "" {
		ropts = append(ropts, sstables.ReadIndexLoader(loaderFor(c.Loader, 4096)))
	}
	tr, err := sstables.NewSSTableReader(ropts...)
	must(err)
	defer func() { tr.Close() }()
	key := func(i int) []byte { return []byte(fmt.Sprintf("key-%05d", i)) } // odd = missing
	type ans struct {
		get  []byte
		gerr string
		cont bool
	}
	single := make([]ans, 2*c.Records+2)
	for i := range single {
		v, err := tr.Get(key(i))
		ct, _ := tr.Contains(key(i))
		single[i] = ans{append([]byte{}, v...), errClass(err), ct}
	}
	it, err := tr.Scan()
	full, _ := drain(it, err, -1)
	rangeAns := map[[2]int]string{}
	startAns := map[int]string{}
	parallel(1, ml, func(int, *rand.Rand) {}, 0)
	for i := 0; i < 25; i++ {
		lo := r.Intn(2 * c.Records)
		hi := lo + r.Intn(40)
		it, err := tr.ScanRange(key(lo), key(hi))
		rangeAns[[2]int{lo, hi}], _ = drain(it, err, -1)
		it, err = tr.ScanStartingAt(key(lo))
		startAns[lo], _ = drain(it, err, 5)
	}
	var rangeKeys [][2]int
	for k := range rangeAns {
		rangeKeys = append(rangeKeys, k)
	}
	sortPairs(rangeKeys)
	// the concurrent calls go to a fresh reader that has not answered anything yet: whatever a reader sets up on its
	// first lookup is set up under concurrency
	must(tr.Close())
	tr, err = sstables.NewSSTableReader(ropts...)
	must(err)
	parallel(c.Goroutines, ml, func(id int, r *rand.Rand) {
		for i := 0; i < c.Calls; i++ {
			switch x := r.Intn(20); {
			case x < 8:
				k := r.Intn(len(single))
				v, err := tr.Get(key(k))
				if !bytes.Equal(v, single[k].get) || errClass(err) != single[k].gerr {
					ml.add("Get(%s) = (%d bytes, %q) but alone (%d bytes, %q)", key(k), len(v), errClass(err), len(single[k].get), single[k].gerr)
				}
			case x < 14:
				k := r.Intn(len(single))
				ct, err := tr.Contains(key(k))
				if ct != single[k].cont || err != nil {
					ml.add("Contains(%s) = (%v, %q) but alone %v", key(k), ct, errClass(err), single[k].cont)
				}
			case x < 17:
				rk := rangeKeys[r.Intn(len(rangeKeys))]
				it, err := tr.ScanRange(key(rk[0]), key(rk[1]))
				if got, _ := drain(it, err, -1); got != rangeAns[rk] {
					ml.add("ScanRange(%d,%d) differs from the single-threaded scan", rk[0], rk[1])
				}
			case x < 19:
				rk := rangeKeys[r.Intn(len(rangeKeys))]
				it, err := tr.ScanStartingAt(key(rk[0]))
				if got, _ := drain(it, err, 5); got != startAns[rk[0]] {
					ml.add("ScanStartingAt(%d) differs from the single-threaded scan", rk[0])
				}
			default:
				it, err := tr.Scan()
				if got, _ := drain(it, err, -1); got != full {
					ml.add("full Scan differs from the single-threaded scan")
				}
			}
			ml.did()
		}
	}, c.Seed)
}

func sortPairs(p [][2]int) {
	for i := 1; i < len(p); i++ {
		for j := i; j > 0 && (p[j][0] < p[j-1][0] || (p[j][0] == p[j-1][0] && p[j][1] < p[j-1][1])); j-- {
			p[j], p[j-1] = p[j-1], p[j]
		}
	}
}

func c18Db(c *c18Case, dir string, ml *mismatchLog) {
	ddir := filepath.Join(dir, "db")
	must(os.MkdirAll(ddir, 0755))
	db, err := simpledb.NewSimpleDB(ddir, simpledb.MemstoreSizeBytes(c.Memstore), simpledb.CompactionFileThreshold(2),
		simpledb.CompactionRunInterval(time.Millisecond), simpledb.EnableAsyncWAL())
	must(err)
	must(db.Open())
	// keys that are present for the whole run and never written again
	for i := 0; i < 20; i++ {
		must(db.Put(fmt.Sprintf("const-%02d", i), fmt.Sprintf("constant-value-%02d", i)))
	}
	// keys that every goroutine overwrites with equal-length values made of one letter: a Get must return one of
	// the values that were put, whole
	for i := 0; i < 3; i++ {
		must(db.Put(fmt.Sprintf("shared-%d", i), strings.Repeat("_", 24)))
	}
	closer := c.Seed%3 == 0 || c.Closer // goroutine 0 closes the handle while the others are still calling
	var closing int32
	closedOK := func(err error) bool {
		return atomic.LoadInt32(&closing) == 1 && errors.Is(err, simpledb.ErrAlreadyClosed)
	}
	parallel(c.Goroutines, ml, func(id int, r *rand.Rand) {
		own := map[string]string{}
		for i := 0; i < c.Calls; i++ {
			if closer && id == 0 && i == c.Calls/2 {
				atomic.StoreInt32(&closing, 1)
				if err := db.Close(); err != nil {
					ml.add("Close: %v", err)
				}
				// afterwards every call on the handle is refused, nothing else
				if _, err := db.Get("const-00"); !errors.Is(err, simpledb.ErrAlreadyClosed) {
					ml.add("Get after Close returned: %v", err)
				}
				if err := db.Put("late", "x"); !errors.Is(err, simpledb.ErrAlreadyClosed) {
					ml.add("Put after Close returned: %v", err)
				}
				return
			}
			if r.Intn(5) == 0 {
				k := fmt.Sprintf("shared-%d", r.Intn(3))
				if r.Intn(2) == 0 {
					if err := db.Put(k, strings.Repeat(string(rune('a'+(id+i)%26)), 24)); err != nil && !closedOK(err) {
						ml.add("Put(%s): %v", k, err)
					}
				} else {
					v, err := db.Get(k)
					if closedOK(err) {
						// refused: fine
					} else if err != nil || len(v) != 24 || strings.Count(v, v[:1]) != 24 {
						ml.add("Get(%s) = (%q, %q): not one of the values that were ever put", k, v, errClass(err))
					}
				}
				ml.did()
				continue
			}
			switch x := r.Intn(10); {
			case x < 3:
				k := fmt.Sprintf("const-%02d", r.Intn(20))
				v, err := db.Get(k)
				if !closedOK(err) && (err != nil || v != "constant-value-"+k[6:]) {
					ml.add("Get(%s) = (%q, %q): the key is present and never rewritten", k, v, errClass(err))
				}
			case x < 6:
				k := fmt.Sprintf("g%d-%02d", id, r.Intn(12))
				v := fmt.Sprintf("v-%d-%d-%s", id, i, strings.Repeat("x", r.Intn(60)))
				if err := db.Put(k, v); err != nil {
					if !closedOK(err) {
						ml.add("Put(%s): %v", k, err)
					}
				} else {
					own[k] = v
				}
			case x < 7:
				k := fmt.Sprintf("g%d-%02d", id, r.Intn(12))
				if err := db.Delete(k); err != nil {
					if !closedOK(err) {
						ml.add("Delete(%s): %v", k, err)
					}
				} else {
					delete(own, k)
				}
			default:
				k := fmt.Sprintf("g%d-%02d", id, r.Intn(12))
				v, err := db.Get(k)
				want, ok := own[k]
				if closedOK(err) {
					break
				}
				if ok && (err != nil || v != want) {
					ml.add("Get(%s) = (%q, %q) but only this goroutine writes the key and it last put %q", k, v, errClass(err), want)
				}
				if !ok && !errors.Is(err, simpledb.ErrNotFound) {
					ml.add("Get(%s) = (%q, %q) but only this goroutine writes the key and it is deleted/absent", k, v, errClass(err))
				}
			}
			ml.did()
		}
	}, c.Seed)
	if err := db.Close(); err != nil && !(closer && errors.Is(err, simpledb.ErrAlreadyClosed)) {
		ml.add("Close: %v", err)
	}
}

func genC18(r *rand.Rand, tier string) []Case {
	n := 18
	if tier == "thorough" {
		n = 240
	}
	var cases []Case
	for i := 0; i < n; i++ {
		c := &c18Case{Seed: r.Int63n(1 << 40), Procs: []int{2, 4, 16}[r.Intn(3)], Goroutines: 3 + r.Intn(6)}
		switch i % 3 {
		case 0:
			c.Mode, c.Comp, c.Records, c.Calls = "mmap", (i/3)%4, 60+r.Intn(100), 400
		case 1:
			c.Mode, c.Comp, c.Records, c.Calls = "table", (i/3)%4, 80+r.Intn(150), 300
		default:
			c.Mode, c.Calls, c.Memstore = "db", 500, []uint64{200, 1500, 20000}[r.Intn(3)]
		}
		if tier == "thorough" {
			c.Calls *= 4
		}
		cases = append(cases, c)
	}
	// Close while many goroutines are in the middle of Put / Get / Delete
	nc := 5
	if tier == "thorough" {
		nc = 40
	}
	for i := 0; i < nc; i++ {
		cases = append(cases, &c18Case{Seed: r.Int63n(1 << 40), Procs: []int{2, 4, 16}[i%3], Goroutines: 6 + r.Intn(3), Mode: "db", Calls: 150, Memstore: []uint64{200, 20000}[i%2], Closer: true})
	}
	return cases
}

func init() {
	register(&Prop{
		ID: "C18", Num: 18,
		Gen:  genC18,
		New:  func() Case { return &c18Case{} },
		Rule: "each case = one child process of the race-detector build with GOMAXPROCS in {2,4,16}: 3-8 goroutines against ONE handle - (mmap) ReadNextAt on every record offset and SeekNext on random offsets of a RecordIO file under each compression (none/gzip/snappy/lzw), payloads 0-5000 bytes incl. embedded record markers; (table) Get/Contains of present and absent keys, ScanRange, ScanStartingAt and full Scan on one table reader under each data compression; (db) Put/Get/Delete of goroutine-owned keys plus Gets of constant keys on one SimpleDB with tiny memstores and a 1 ms background compactor. Every answer is compared with the single-threaded answer of the same call (readers) or the goroutine's own reference map (db); race detector reports, panics, crashes and hangs are failures. Non-trivial: >=100 calls completed.",
	})
}
