(* Runner around the extracted model: parses one case per line
     <property number> <s-expression>
   into Model.sx and prints the 0-based line numbers whose check returns false.
   Syntax: "(" ")" "x<hex>" "n<decimal>" separated by blanks. *)
open Model

let rec pos_of_int (n : int) : positive =
  if n = 1 then XH
  else if n land 1 = 1 then XI (pos_of_int (n lsr 1))
  else XO (pos_of_int (n lsr 1))

let n_of_int (n : int) : n = if n = 0 then N0 else Npos (pos_of_int n)

(* decimal string -> N without going through OCaml ints (values up to 2^64 and beyond):
   repeated halving of the decimal digit array gives the bits, least significant first *)
let n_of_decimal (s : string) : n =
  let d = Array.init (String.length s) (fun i -> Char.code s.[i] - 48) in
  let len = Array.length d in
  let is_zero () = Array.for_all (fun x -> x = 0) d in
  let halve () =
    let carry = ref 0 in
    for i = 0 to len - 1 do
      let cur = !carry * 10 + d.(i) in
      d.(i) <- cur / 2;
      carry := cur mod 2
    done;
    !carry
  in
  let rec bits () = if is_zero () then [] else let b = halve () in b :: bits () in
  let rec build = function
    | [] -> None
    | b :: r -> (
        match build r with
        | None -> if b = 1 then Some XH else None
        | Some p -> Some (if b = 1 then XI p else XO p))
  in
  match build (bits ()) with None -> N0 | Some p -> Npos p

let byte_tab = Array.init 256 n_of_int

let hexv c =
  match c with
  | '0' .. '9' -> Char.code c - 48
  | 'a' .. 'f' -> Char.code c - 87
  | _ -> failwith "bad hex"

let parse_line (s : string) (start : int) : sx =
  let n = String.length s in
  let pos = ref start in
  let rec skip () = if !pos < n && (s.[!pos] = ' ' || s.[!pos] = '\t') then (incr pos; skip ()) in
  let rec item () : sx =
    skip ();
    if !pos >= n then failwith "unexpected end";
    match s.[!pos] with
    | '(' ->
        incr pos;
        let rec items acc =
          skip ();
          if !pos >= n then failwith "unclosed";
          if s.[!pos] = ')' then (incr pos; List.rev acc) else items (item () :: acc)
        in
        L (items [])
    | 'x' ->
        incr pos;
        let st = !pos in
        while !pos < n && s.[!pos] <> ' ' && s.[!pos] <> ')' && s.[!pos] <> '(' do incr pos done;
        let len = !pos - st in
        if len land 1 = 1 then failwith "odd hex";
        let rec build i acc =
          if i < 0 then acc
          else build (i - 2) (byte_tab.((hexv s.[st + i] lsl 4) lor hexv s.[st + i + 1]) :: acc)
        in
        B (build (len - 2) [])
    | 'n' ->
        incr pos;
        let st = !pos in
        while !pos < n && s.[!pos] >= '0' && s.[!pos] <= '9' do incr pos done;
        I (n_of_decimal (String.sub s st (!pos - st)))
    | c -> failwith (Printf.sprintf "bad char %c at %d" c !pos)
  in
  item ()

let () =
  let ic = if Array.length Sys.argv > 1 then open_in Sys.argv.(1) else stdin in
  let lineno = ref 0 in
  let bad = ref 0 in
  (try
     while true do
       let line = input_line ic in
       (if String.length line > 0 then
          let sp = String.index line ' ' in
          let id = int_of_string (String.sub line 0 sp) in
          let ok =
            try check_by_id (n_of_int id) (parse_line line (sp + 1))
            with Failure m -> (Printf.eprintf "line %d: %s\n" !lineno m; false)
          in
          if not ok then (incr bad; Printf.printf "MISMATCH %d\n" !lineno));
       incr lineno
     done
   with End_of_file -> ());
  Printf.printf "DONE lines=%d mismatches=%d\n" !lineno !bad
