#!/bin/bash
# tools/stress.sh <seed> [parallel]: all quick checks with one seed, several at a time; prints the ones that alarm
seed=${1:-2}; par=${2:-5}
cd /verif
mkdir -p /var/tmp/stress
ls seeded >/dev/null
printf '%s\n' C01 C02 C03 C04 C05 C06 C07 C08 C09 C10 C11 C12 C13 C14 C15 C16 C17 C18 C19 C20 | \
  xargs -P $par -I{} sh -c "VERIF_SEED=$seed ./check {} --tier quick > /var/tmp/stress/{}.$seed.out 2>&1; echo {} seed=$seed exit=\$? viol=\$(grep -c VIOLATION /var/tmp/stress/{}.$seed.out)"
