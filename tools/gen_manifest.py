#!/usr/bin/env python3
"""Regenerate MANIFEST.json from lib/props.py (claimed checks) and properties.jsonl."""
import json, os, sys
sys.path.insert(0, '/verif/lib')
from props import PROPS, NOT_CLAIMED
props = [json.loads(l)['id'] for l in open('/verif/properties.jsonl')]
hooks = os.popen("git -C /repo log --format=%h --grep='^verif hooks'").read().split()
checks = []
for pid in props:
    if pid not in PROPS or not PROPS[pid].get('claimed'):
        continue
    c = PROPS[pid]
    checks.append({
        "property_id": pid,
        "quick_cmd": "./check %s --tier quick" % pid,
        "thorough_cmd": "./check %s --tier thorough" % pid,
        "evidence_file": "/verif/evidence/%s.json" % pid,
        "replay_cmd_template": "./check %s --replay {path}" % pid,
        "engine": "coq-model+go-harness",
        "level_claimed": {"category": c["level"], "text": c["text"], "design_ref": c.get("design_ref", "DESIGN.md section 6 (%s)" % pid)},
        "level_note": c["note"],
        "technique": c.get("technique", "machine-checked proof in Coq 8.16.1 about a Gallina model + differential correspondence (extracted model vs implementation)"),
    })
na = []
for pid in props:
    if pid in PROPS and PROPS[pid].get('claimed'):
        continue
    na.append({"property_id": pid, "reason": NOT_CLAIMED.get(pid, "check under construction in this round (not yet claimed); see DESIGN.md section 6")})
m = {"version": 1, "setup_cmd": "./check --setup",
     "hooks": {"guard": "verif", "enable": "go build -tags verif (harness module replaces github.com/thomasjungblut/go-sstables => /repo)",
               "baseline_off_cmd": "cd /repo && GOFLAGS=-mod=mod GOPROXY=off go test -vet=off -count=1 -timeout 25m ./...",
               "source_commits": hooks, "add_only": True},
     "engines": [{"name": "coq-model", "path": "coq/", "serves_properties": [c["property_id"] for c in checks], "kind_free_text": "Gallina model + theorems (Coq 8.16.1, full .vo build), extracted with ExtrOcamlBasic to the OCaml runner (runner/driver.ml)"},
                 {"name": "go-harness", "path": "harness/", "serves_properties": [c["property_id"] for c in checks], "kind_free_text": "differential executor and model-independent property oracles over the real packages built from /repo with -tags verif; fact translators (harness factgen -> coq/gen)"}],
     "checks": checks, "not_applicable": na,
     "notes": "All checks go through ./check <id> (lib/driver.py): regenerate facts from /repo, build the theorem file of the property, run the harness on the implementation, run the extracted model on the same cases, apply known_findings.jsonl. See DESIGN.md."}
json.dump(m, open('/verif/MANIFEST.json', 'w'), indent=1)
print(len(checks), "checks,", len(na), "not claimed")
