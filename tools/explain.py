#!/usr/bin/env python3
"""explain.py <cases.sx> <line> [coq expression over `c` (the decoded case)]:
evaluate a Corr module's pieces on one case inside Coq (vm_compute)."""
import sys, re, subprocess, os
path, line = sys.argv[1], int(sys.argv[2])
expr = sys.argv[3] if len(sys.argv) > 3 else None
l = open(path).read().split('\n')[line]
num, sx = l.split(' ', 1)
def conv(tokens):
    out = []
    t = tokens.pop(0)
    if t == '(':
        items = []
        while tokens[0] != ')':
            items.append(conv(tokens))
        tokens.pop(0)
        return 'L [' + '; '.join(items) + ']'
    if t.startswith('x'):
        return '(B (hx "%s"))' % t[1:]
    if t.startswith('n'):
        return '(I %s%%N)' % t[1:]
    raise SystemExit('bad token ' + t)
tokens = re.findall(r'\(|\)|[xn][0-9a-f]*', sx)
term = conv(tokens)
n = int(num)
if n == 9:
    mod, imp, dec = 'SST', 'C09', 'C09.decode'
elif n == 19:
    mod, imp, dec = 'DB', 'C19', 'C19.decode'
elif n == 7:
    mod, imp, dec = 'DB', 'C07', 'C07.decode'
elif n in (1, 6, 17):
    mod, imp, dec = 'DB', 'DBC', 'DBC.decode'
elif n in (3, 8, 11, 15):
    mod, imp, dec = 'SST', 'SSTC', 'SSTC.decode_c%02d' % n
else:
    mod = imp = 'C%02d' % n
    dec = '%s.decode' % mod
expr = expr or ('%s.explain c' % imp)
src = '''From GoSST Require Import Base.Bytes Base.Sx Corr.%s.
From Coq Require Import String.
Import %s.
Definition s : sx := %s.
Definition r := Eval vm_compute in (match %s s with Some c => Some (%s) | None => None end).
Print r.
''' % (mod, imp, term, dec, expr)
open('/tmp/explain.v', 'w').write(src)
print(subprocess.run(['coqc', '-Q', '/verif/coq/theories', 'GoSST', '-Q', '/verif/coq/gen', 'GoSSTGen', '/tmp/explain.v'], capture_output=True, text=True, cwd='/tmp').stdout[-6000:])
