#!/bin/bash
# tools/thorough_harness.sh <parallel> <prop>...: the implementation side of the thorough tier only (generators, real
# code, oracles), from a frozen copy of the harness, several properties at a time. For hunting false alarms of the
# thorough generators while the sources are being worked on. Prints the failing cases that are not open findings.
par=$1; shift
F=/var/tmp/thr; rm -rf $F; mkdir -p $F; cp -r /verif/harness $F/harness
export GOFLAGS=-mod=mod GOPROXY=off
(cd $F/harness && go build -tags verif -o $F/hs . && go build -race -tags verif -o $F/hs_race .) || exit 2
one() {
  p=$1; F=/var/tmp/thr; bin=$F/hs; [ $p = C18 ] && bin=$F/hs_race
  mkdir -p $F/$p/out $F/$p/tmp; s=$(date +%s)
  VERIF_NO_SHRINK=1 VERIF_TMP=$F/$p/tmp $bin $p --tier thorough --seed ${VERIF_SEED:-1} --out $F/$p/out --corpus /verif/corpus > $F/$p/out/log 2>&1
  python3 - $p $F $(( $(date +%s) - s )) <<'PY'
import json, sys
p, f, secs = sys.argv[1:4]
open_ids = {json.loads(l)['id'] for l in open('/verif/known_findings.jsonl') if l.strip() and json.loads(l).get('status') == 'open' and json.loads(l).get('property') == p}
try:
    s = json.load(open('%s/%s/out/summary.json' % (f, p)))
    nf = [x for x in (s.get('oracle_fails') or []) if (x.get('finding') or '') not in open_ids]
    print(p, 'cases=%d' % s['cases'], 'fails=%d' % len(nf), 'secs=' + secs, (nf[0]['msg'][:200] if nf else ''))
except Exception as e:
    print(p, 'NO-SUMMARY', e, 'secs=' + secs)
PY
  rm -rf $F/$p/tmp
}
export -f one
printf '%s\n' "$@" | xargs -P $par -I{} bash -c 'one {}'
