#!/bin/bash
# verify_seed.sh <seed-dir> : confirm a seeded change in a scratch worktree:
#   demo passes without the change; with it: builds, existing suite passes, demo fails.
set -u
S=$1
WT=/tmp/wt-verify-$$
export GOFLAGS=-mod=mod GOPROXY=off
git -C /repo worktree add --detach $WT HEAD >/dev/null 2>&1 || exit 2
trap 'git -C /repo worktree remove --force $WT >/dev/null 2>&1' EXIT
demo=$(ls $S/*_test.go 2>/dev/null | head -1)
pkg=$(python3 -c "import json,sys; m=json.load(open('$S/meta.json')); d=m.get('demo'); print(d if isinstance(d,str) else (d.get('package_dir') or d.get('dir') or d.get('package') or ''))" 2>/dev/null)
# find package dir: look for 'package xxx' in demo
pk=$(grep -m1 '^package ' $demo | awk '{print $2}' | sed 's/_test$//')
dir=$(cd $WT && grep -rl --include=*.go "^package $pk\$" . | grep -v _test.go | head -1 | xargs dirname)
cp $demo $WT/$dir/
name=$(basename $demo)
cd $WT
echo "== demo on clean tree (expect PASS)"
go test -vet=off -count=1 ./$dir -run "$(grep -o 'func Test[A-Za-z0-9_]*' $dir/$name | sed 's/func //' | paste -sd'|')" 2>&1 | tail -3
git apply $S/patch.diff || { echo "PATCH DOES NOT APPLY"; exit 3; }
echo "== build with change"
go build ./... 2>&1 | tail -3
echo "== existing suite with change (demo removed)"
rm $dir/$name
go test -vet=off -count=1 ./... 2>&1 | grep -v '^ok\|no test files' | tail -5
echo "(suite done)"
cp $demo $dir/
echo "== demo with change (expect FAIL)"
go test -vet=off -count=1 ./$dir -run "$(grep -o 'func Test[A-Za-z0-9_]*' $dir/$name | sed 's/func //' | paste -sd'|')" 2>&1 | tail -4
