#!/bin/bash
# tools/seedquick.sh <seed-dir> <prop> [race]: harness-only run (no proof/model side) with the seed applied; always reverts
S=$1; P=$2
cd /repo && git apply $S/patch.diff || { echo "patch does not apply"; exit 3; }
trap 'git -C /repo checkout -- . ; git -C /repo clean -fdq' EXIT
cd /verif/harness && export GOFLAGS=-mod=mod GOPROXY=off
if [ "$3" = race ]; then go build -race -tags verif -o /tmp/hs . || exit 4; else go build -tags verif -o /tmp/hs . || exit 4; fi
rm -rf /tmp/osq; mkdir -p /tmp/osq /var/tmp/vsq
VERIF_TMP=/var/tmp/vsq /tmp/hs $P --tier quick --seed 1 --out /tmp/osq --corpus /verif/corpus > /tmp/osq/log 2>&1
echo "$(basename $S) on $P: failing cases=$(ls /tmp/osq | grep -c '^fail_') harness_rc=$?"
python3 - <<'PY'
import json
try:
    s=json.load(open('/tmp/osq/summary.json'))
    for f in (s.get('oracle_fails') or [])[:2]:
        print('   ', f.get('finding') or '-', f['msg'][:220])
except Exception as e: print('    no summary', e)
PY
