#!/bin/bash
# tools/seedregress.sh [parallel] [seed-id ...]: harness-only regression of the kept seeded changes, several at a time.
# Each seed gets its own scratch worktree of /repo and its own copy of the harness (module replace and repoRoot point
# at the worktree), so /repo is never touched. Prints one line per seed: id, property, failing cases that are not
# open findings. Scratch lives under /var/tmp/reg and is removed per seed.
par=${1:-6}; shift
ids="$@"
[ -z "$ids" ] && ids=$(ls /verif/seeded)
mkdir -p /var/tmp/reg
one() {
  # an argument is a kept seed id (C07-3), or a directory holding patch.diff, optionally followed by :PROP
  arg=$1; src=${arg%%:*}
  if [ -d "$src" ]; then dir=$src; id=$(basename $src); id=${id#seed-}; else dir=/verif/seeded/$src; id=$src; fi
  prop=${id%-*}; case "$arg" in *:*) prop=${arg##*:};; esac
  W=/var/tmp/reg/$id.$prop
  rm -rf $W; mkdir -p $W
  git -C /repo worktree add --detach $W/repo HEAD >/dev/null 2>&1 || { echo "$id $prop WORKTREE-FAILED"; return; }
  if ! git -C $W/repo apply $dir/patch.diff 2>/dev/null; then
    echo "$id $prop PATCH-DOES-NOT-APPLY"
    git -C /repo worktree remove --force $W/repo >/dev/null 2>&1; rm -rf $W; return
  fi
  cp -r /verif/harness $W/harness
  sed -i "s#=> /repo#=> $W/repo#" $W/harness/go.mod
  sed -i "s#const repoRoot = \"/repo\"#const repoRoot = \"$W/repo\"#" $W/harness/factgen.go
  export GOFLAGS=-mod=mod GOPROXY=off
  race=""; [ "$prop" = C18 ] && race="-race"
  if ! (cd $W/harness && go build $race -tags verif -o $W/hs . 2>$W/build.log); then
    echo "$id $prop BUILD-FAILED $(head -c 200 $W/build.log | tr '\n' ' ')"
    git -C /repo worktree remove --force $W/repo >/dev/null 2>&1; rm -rf $W; return
  fi
  mkdir -p $W/out $W/tmp
  VERIF_NO_SHRINK=1 VERIF_STOP_AFTER_FAILS=1 VERIF_TMP=$W/tmp timeout 1500 $W/hs $prop --tier quick --seed 1 --out $W/out --corpus /verif/corpus > $W/out/log 2>&1
  python3 - "$id" "$prop" "$W" <<'PY'
import json, sys
sid, prop, w = sys.argv[1:4]
open_ids = set()
for l in open('/verif/known_findings.jsonl'):
    l = l.strip()
    if l:
        f = json.loads(l)
        if f.get('status') == 'open' and f.get('property') == prop:
            open_ids.add(f['id'])
try:
    s = json.load(open(w + '/out/summary.json'))
    fs = s.get('oracle_fails') or []
    nf = [f for f in fs if (f.get('finding') or '') not in open_ids]
    print(sid, prop, 'caught=%d' % len(nf), (nf[0]['msg'][:110].replace('\n', ' ') if nf else 'MISSED-BY-HARNESS'))
except Exception as e:
    try: log = open(w + '/out/log', errors='replace').read()
    except Exception: log = ''
    if 'panic:' in log or 'fatal error:' in log:
        print(sid, prop, 'caught=crash (the harness process was stopped; the check reports it with no-failing-input-found)', log[log.find('panic:'):][:120].replace('\n', ' '))
    else:
        print(sid, prop, 'NO-SUMMARY', e)
PY
  git -C /repo worktree remove --force $W/repo >/dev/null 2>&1
  [ -n "$KEEP_REG" ] || rm -rf $W
}
export -f one
printf '%s\n' $ids | xargs -P $par -I{} bash -c 'one {}'
git -C /repo worktree prune
