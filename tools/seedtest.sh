#!/bin/bash
# seedtest.sh <seed-dir> <property> [tier]: apply a seeded change to /repo, run the check, undo it.
S=$1; P=$2; T=${3:-quick}
git -C /repo diff --quiet || { echo "/repo is dirty"; exit 2; }
git -C /repo apply $S/patch.diff || { echo "patch does not apply"; exit 3; }
cd /verif && ./check $P --tier $T 2>/dev/null | head -5
echo "exit=${PIPESTATUS[0]}"
git -C /repo checkout -- .
