#!/bin/bash
# seedtest.sh <seed-dir> <property> [tier]: apply a seeded change to /repo, run the check, undo it (always).
S=$1; P=$2; T=${3:-quick}
git -C /repo diff --quiet || { echo "/repo is dirty"; exit 2; }
trap 'git -C /repo checkout -- . ; git -C /repo clean -fdq' EXIT
trap '' PIPE
git -C /repo apply $S/patch.diff || { echo "patch does not apply"; exit 3; }
cd /verif && ./check $P --tier $T > /tmp/seedtest.out 2>/dev/null
rc=$?
grep -v '^KNOWN-FINDING' /tmp/seedtest.out | head -4 2>/dev/null
echo "exit=$rc"
