#!/usr/bin/env python3
"""keep_seed.py <tmp seed dir> <seeded id> <caught-by text>: copy a confirmed seeded change into /verif/seeded/<id>/"""
import json, os, shutil, sys, glob
src, sid, caught = sys.argv[1], sys.argv[2], sys.argv[3]
dst = os.path.join('/verif/seeded', sid)
os.makedirs(dst, exist_ok=True)
shutil.copy(os.path.join(src, 'patch.diff'), dst)
for f in glob.glob(os.path.join(src, '*_test.go')) + glob.glob(os.path.join(src, '*.go')):
    shutil.copy(f, os.path.join(dst, os.path.basename(f) + '.txt'))
m = json.load(open(os.path.join(src, 'meta.json')))
m['confirmed'] = 'tools/verify_seed.sh: demo passes on the clean tree; with the change the tree builds, the pinned suite passes and the demo fails'
m['check_result'] = caught
json.dump(m, open(os.path.join(dst, 'meta.json'), 'w'), indent=1)
