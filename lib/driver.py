import fcntl, glob, hashlib, json, os, re, shutil, subprocess, sys, time

ROOT = os.path.dirname(os.path.dirname(os.path.abspath(__file__)))
COQ = os.path.join(ROOT, "coq")
RUNNER_DIR = os.path.join(ROOT, "runner")
HARNESS_DIR = os.path.join(ROOT, "harness")
BUILD = os.path.join(ROOT, ".build")
EVID = os.path.join(ROOT, "evidence")
OUT = os.path.join(ROOT, "out")  # replay files of the last run of each check (not under /tmp)
REPO = "/repo"

GOENV = dict(os.environ, GOFLAGS="-mod=mod", GOPROXY="off", CGO_ENABLED="0")
for k in ("GOSUMDB", "GOTOOLCHAIN"):
    GOENV.pop(k, None)

STMT_RE = re.compile(r"^\s*(Theorem|Lemma|Example|Corollary|Fact|Proposition|Remark)\s+([A-Za-z0-9_']+)", re.M)
BAD_RE = re.compile(r"\b(Admitted|admit|Axiom|Parameter|Conjecture|Admit Obligations|Unset Guard Checking|bypass_check|Unset Positivity|Unset Universe Checking)\b")

TRUSTED_COMMON = [
    "Coq 8.16.1 kernel (coqc, full .vo build; vm_compute used in witness Examples; native_compute not used)",
    "axioms: none declared by this development; Print Assumptions output of every property theorem is copied below",
    "extraction: ExtrOcamlBasic only (Extract Inductive bool, option, unit, list, prod, sumbool, sumor; no Extract Constant); N/Z/nat/positive stay extracted inductives; OCaml 4.13.1; runner/driver.ml (text -> sx parser, ~100 lines)",
    "Go harness (generators, error-enum mapping, canonicalisation, property oracles) and lib/driver.py",
    "modelled, not verified: Go runtime and standard library, snappy/gzip/lzw, protobuf, bloom filter library, mmap; see DESIGN.md section 7",
]


def log(*a):
    print(*a, file=sys.stderr, flush=True)


def run(cmd, cwd=None, env=None, timeout=None, capture=True):
    t0 = time.time()
    try:
        p = subprocess.run(cmd, cwd=cwd, env=env, timeout=timeout, stdout=subprocess.PIPE if capture else None,
                           stderr=subprocess.STDOUT if capture else None, text=True, shell=isinstance(cmd, str))
        return p.returncode, p.stdout or "", time.time() - t0
    except subprocess.TimeoutExpired as e:
        out = e.stdout if isinstance(e.stdout, str) else (e.stdout or b"").decode(errors="replace")
        return 124, out + "\nTIMEOUT", time.time() - t0


class Lock:
    def __init__(self, name):
        os.makedirs(BUILD, exist_ok=True)
        self.path = os.path.join(BUILD, name + ".lock")

    def __enter__(self):
        self.f = open(self.path, "w")
        fcntl.flock(self.f, fcntl.LOCK_EX)
        return self

    def __exit__(self, *a):
        fcntl.flock(self.f, fcntl.LOCK_UN)
        self.f.close()


# ---------------------------------------------------------------- builds

def build_harness():
    """Build the Go harness against /repo's current working tree with the verif tag."""
    os.makedirs(BUILD, exist_ok=True)
    with Lock("go"):
        shutil.copyfile(os.path.join(REPO, "go.sum"), os.path.join(HARNESS_DIR, "go.sum"))
        rc, out, dt = run(["go", "build", "-tags", "verif", "-o", os.path.join(BUILD, "harness"), "."],
                          cwd=HARNESS_DIR, env=GOENV, timeout=900)
    return rc == 0, out


def build_harness_race():
    os.makedirs(BUILD, exist_ok=True)
    env = dict(GOENV, CGO_ENABLED="1")
    with Lock("go"):
        rc, out, dt = run(["go", "build", "-race", "-tags", "verif", "-o", os.path.join(BUILD, "harness_race"), "."],
                          cwd=HARNESS_DIR, env=env, timeout=1200)
    return rc == 0, out


def factgen():
    """Regenerate coq/gen/Facts*.v from /repo (rewritten only when content changes)."""
    tmp = os.path.join(BUILD, "gen.tmp")
    shutil.rmtree(tmp, ignore_errors=True)
    os.makedirs(tmp)
    rc, out, _ = run([os.path.join(BUILD, "harness"), "factgen", "--out", tmp], cwd=REPO, timeout=120)
    if rc != 0:
        return False, out
    os.makedirs(os.path.join(COQ, "gen"), exist_ok=True)
    for f in os.listdir(tmp):
        src, dst = os.path.join(tmp, f), os.path.join(COQ, "gen", f)
        new = open(src).read()
        if not os.path.exists(dst) or open(dst).read() != new:
            with open(dst, "w") as fh:
                fh.write(new)
    return True, out


def coq_files():
    fs = []
    for d in ("theories", "gen"):
        fs += sorted(glob.glob(os.path.join(COQ, d, "**", "*.v"), recursive=True))
    return [os.path.relpath(f, COQ) for f in fs]


def coq_makefile():
    files = coq_files()
    stamp = os.path.join(BUILD, "coqfiles.txt")
    cur = "\n".join(files)
    if not os.path.exists(os.path.join(COQ, "Makefile")) or not os.path.exists(stamp) or open(stamp).read() != cur:
        rc, out, _ = run(["coq_makefile", "-f", "_CoqProject"] + files + ["-o", "Makefile"], cwd=COQ, timeout=60)
        if rc != 0:
            raise RuntimeError(out)
        open(stamp, "w").write(cur)


def coq_make(targets, timeout=3000):
    with Lock("coq"):
        coq_makefile()
        cmd = ["make", "-j16", "-k"] + targets
        rc, out, dt = run(cmd, cwd=COQ, timeout=timeout)
    return rc == 0, out, " ".join(["timeout", str(timeout)] + cmd)


def build_runner():
    """Extract the model (needs Corr/All.vo) and build the OCaml runner; rebuilt when any model .vo is newer."""
    ok, out, _ = coq_make(["theories/Corr/All.vo"])
    if not ok:
        return False, out
    runner = os.path.join(BUILD, "runner")
    newest = max(os.path.getmtime(f) for f in glob.glob(os.path.join(COQ, "theories", "**", "*.vo"), recursive=True))
    srcs = [os.path.join(RUNNER_DIR, "driver.ml"), os.path.join(COQ, "extract", "Extract.v")]
    newest = max([newest] + [os.path.getmtime(f) for f in srcs])
    if os.path.exists(runner) and os.path.getmtime(runner) >= newest:
        return True, ""
    with Lock("ocaml"):
        work = os.path.join(BUILD, "runner_src")
        shutil.rmtree(work, ignore_errors=True)
        os.makedirs(work)
        rc, out, _ = run(["coqc", "-Q", os.path.join(COQ, "theories"), "GoSST", "-Q", os.path.join(COQ, "gen"), "GoSSTGen",
                          os.path.join(COQ, "extract", "Extract.v")], cwd=work, timeout=600)
        if rc != 0:
            return False, out
        shutil.copyfile(os.path.join(RUNNER_DIR, "driver.ml"), os.path.join(work, "driver.ml"))
        rc, out2, _ = run(["ocamlfind", "ocamlopt", "-O3", "-w", "-a", "model.mli", "model.ml", "driver.ml", "-o", runner + ".tmp"],
                          cwd=work, timeout=600)
        if rc != 0:
            return False, out + out2
        os.replace(runner + ".tmp", runner)
    return True, out


# ---------------------------------------------------------------- proof side

def dep_closure(vfile):
    """Transitive closure of project-local dependencies of a .v file (paths relative to coq/)."""
    seen, todo = set(), [vfile]
    while todo:
        f = todo.pop()
        if f in seen or not os.path.exists(os.path.join(COQ, f)):
            continue
        seen.add(f)
        src = open(os.path.join(COQ, f)).read()
        for m in re.finditer(r"From\s+(GoSSTGen|GoSST)\s+Require\s+(?:Import\s+|Export\s+)?(.*?)\.(?=\s)", src, flags=re.S):
            root = "theories" if m.group(1) == "GoSST" else "gen"
            for mod in m.group(2).split():
                todo.append(os.path.join(root, mod.replace(".", "/") + ".v"))
    return sorted(seen)


def scan_statements(files):
    n, bad = 0, []
    names = []
    for f in files:
        src = open(os.path.join(COQ, f)).read()
        src_nc = re.sub(r"\(\*.*?\*\)", "", src, flags=re.S)
        for m in STMT_RE.finditer(src_nc):
            n += 1
            names.append(m.group(2))
        for m in BAD_RE.finditer(src_nc):
            bad.append("%s: %s" % (f, m.group(1)))
    return n, bad, names


def proof_side(pid, tier="quick"):
    """Build Properties/<pid>.vo; returns dict(ok, obligations, discharged, checker_cmd, assumptions, log, theorems).
    In the thorough tier the compiled property file and everything it depends on is re-checked with coqchk."""
    vfile = "theories/Properties/%s.v" % pid
    res = dict(ok=False, obligations=0, discharged=0, checker_cmd="", assumptions=[], log="", theorems=[], broken="")
    if not os.path.exists(os.path.join(COQ, vfile)):
        res["log"] = "no property file " + vfile
        res["broken"] = vfile
        return res
    files = dep_closure(vfile)
    n, bad, _ = scan_statements(files)
    _, _, thms = scan_statements([vfile])
    res["theorems"] = thms
    res["obligations"] = n
    ok, out, cmd = coq_make([vfile + "o"])
    res["checker_cmd"] = "cd /verif/coq && " + cmd
    res["log"] = out[-4000:]
    if not ok:
        m = re.search(r'File "\./([^"]+)", line (\d+)', out)
        res["broken"] = "%s:%s" % (m.group(1), m.group(2)) if m else vfile
        # which statement encloses the failing line?
        if m:
            try:
                lines = open(os.path.join(COQ, m.group(1))).read().split("\n")[: int(m.group(2))]
                for ln in reversed(lines):
                    mm = STMT_RE.match(ln)
                    if mm:
                        res["broken"] += " (%s %s)" % (mm.group(1), mm.group(2))
                        break
            except Exception:
                pass
        return res
    if bad:
        res["log"] += "\nforbidden constructs: " + "; ".join(bad)
        res["broken"] = bad[0]
        return res
    # Print Assumptions: recompile the (tiny) property file to capture its output
    with Lock("coq"):
        rc, out2, _ = run(["coqc", "-Q", "theories", "GoSST", "-Q", "gen", "GoSSTGen", "-w", "-all", vfile], cwd=COQ, timeout=600)
    if rc != 0:
        res["log"] += out2[-2000:]
        res["broken"] = vfile
        return res
    res["assumptions"] = [l for l in re.sub(r"\s+\n", "\n", out2).strip().split("\n") if l.strip()][:80]
    if tier == "thorough":
        # independent re-check of the .vo files of the property and its whole dependency closure
        chk = ["coqchk", "-silent", "-o", "-Q", "theories", "GoSST", "-Q", "gen", "GoSSTGen", "GoSST.Properties.%s" % pid]
        with Lock("coq"):
            rc, out3, _ = run(chk, cwd=COQ, timeout=3600)
        summary = out3[out3.find("CONTEXT SUMMARY"):] if "CONTEXT SUMMARY" in out3 else out3[-1500:]
        res["coqchk"] = [l.strip() for l in summary.split("\n") if l.strip()][:20]
        res["checker_cmd"] += " && " + " ".join(chk)
        if rc != 0 or "* Axioms: <none>" not in re.sub(r"\s+", " ", out3):
            res["log"] += "\ncoqchk: " + out3[-2000:]
            res["broken"] = "coqchk GoSST.Properties.%s" % pid
            return res
    res["ok"] = True
    res["discharged"] = n
    return res


# ---------------------------------------------------------------- known findings

def load_findings(pid):
    path = os.path.join(ROOT, "known_findings.jsonl")
    out = []
    if os.path.exists(path):
        for l in open(path):
            l = l.strip()
            if l and not l.startswith("#"):
                e = json.loads(l)
                if e.get("property") == pid:
                    out.append(e)
    return out


# ---------------------------------------------------------------- main check

def scratch_dir(pid):
    base = os.environ.get("VERIF_TMP") or "/var/tmp"
    d = os.path.join(base, "verif.%s.%d" % (pid, os.getpid()))
    shutil.rmtree(d, ignore_errors=True)
    os.makedirs(d)
    return d


def write_evidence(pid, ev):
    os.makedirs(EVID, exist_ok=True)
    with open(os.path.join(EVID, pid + ".json"), "w") as f:
        json.dump(ev, f, indent=1, sort_keys=True)


def keep_replay(pid, src, name):
    d = os.path.join(OUT, pid)
    os.makedirs(d, exist_ok=True)
    dst = os.path.join(d, name)
    if src != dst:
        shutil.copyfile(src, dst)
    return dst


def write_obligation_replay(pid, kind, what, detail, case=None):
    d = os.path.join(OUT, pid)
    os.makedirs(d, exist_ok=True)
    path = os.path.join(d, "broken_%s.json" % kind)
    with open(path, "w") as f:
        json.dump({"property": pid, "kind": "broken-obligation", "theorem_or_correspondence": what,
                   "detail": detail[-3000:], "case": case}, f, indent=1)
    return path


def run_harness(pid, tier, seed, out_dir, binary="harness", extra_env=None, timeout=None):
    env = dict(os.environ)
    env["VERIF_TMP"] = out_dir
    if extra_env:
        env.update(extra_env)
    cmd = [os.path.join(BUILD, binary), pid, "--tier", tier, "--seed", str(seed), "--out", out_dir,
           "--corpus", os.path.join(ROOT, "corpus")]
    to = timeout or (900 if tier == "quick" else 6 * 3600)
    return run(cmd, cwd=out_dir, env=env, timeout=to)


def run_runner(sx_path):
    rc, out, _ = run("ulimit -s unlimited; exec %s %s" % (os.path.join(BUILD, "runner"), sx_path), timeout=3 * 3600)
    mism = [int(m.group(1)) for m in re.finditer(r"^MISMATCH (\d+)", out, re.M)]
    done = re.search(r"^DONE lines=(\d+) mismatches=(\d+)", out, re.M)
    return (rc == 0 and done is not None), mism, out


def check(pid, tier, seed):
    from props import PROPS
    cfg = PROPS[pid]
    t0 = time.time()
    shutil.rmtree(os.path.join(OUT, pid), ignore_errors=True)
    violations = []  # (replay_path, suffix)
    known_lines = []
    notes = []

    ok, out = build_harness()
    if not ok:
        # the working tree does not build with hooks on: nothing can be shown
        p = write_obligation_replay(pid, "build", "go build -tags verif (harness against /repo)", out)
        print("VIOLATION property=%s replay=%s no-failing-input-found" % (pid, p))
        write_evidence(pid, dict(property_id=pid, tier=tier, seed=seed, level=cfg["level"], wall_s=time.time() - t0, violations=1,
                                 coverage=dict(obligations=1, discharged=0, checker_cmd="go build -tags verif", trusted_base=TRUSTED_COMMON,
                                               evaluations=1, distinct_nontrivial=0, explanation="harness build failed: " + out[-500:])))
        return 1
    if cfg.get("binary") == "harness_race":
        ok, out = build_harness_race()
        if not ok:
            p = write_obligation_replay(pid, "build", "go build -race -tags verif (harness against /repo)", out)
            print("VIOLATION property=%s replay=%s no-failing-input-found" % (pid, p))
            write_evidence(pid, dict(property_id=pid, tier=tier, seed=seed, level=cfg["level"], wall_s=time.time() - t0, violations=1,
                                     coverage=dict(obligations=1, discharged=0, checker_cmd="go build -race -tags verif", trusted_base=TRUSTED_COMMON,
                                                   evaluations=1, distinct_nontrivial=0, explanation="race harness build failed: " + out[-500:])))
            return 1
    fok, fout = factgen()
    if not fok:
        notes.append("factgen failed: " + fout[-500:])

    proof = proof_side(pid, tier)
    rok, rout = build_runner()

    work = scratch_dir(pid)
    summary = None
    mismatches = []
    try:
        hrc, hout, hdt = run_harness(pid, tier, seed, work, binary=cfg.get("binary", "harness"), extra_env=cfg.get("env"))
        if cfg.get("binary") == "harness_race":
            pass
        spath = os.path.join(work, "summary.json")
        if hrc != 0 or not os.path.exists(spath):
            p = write_obligation_replay(pid, "harness", "harness run for %s" % pid, hout)
            violations.append((p, " no-failing-input-found"))
            summary = dict(evaluations=0, distinct_nontrivial=0, kinds={}, model_cases=0, oracle_fails=[], samples=[], sx_index=[])
        else:
            summary = json.load(open(spath))
        findings = load_findings(pid)
        open_ids = {f["id"]: f for f in findings if f.get("status") == "open"}
        seen_known = {}
        for of in (summary.get("oracle_fails") or []):
            fid = of.get("finding") or ""
            if fid and fid in open_ids:
                seen_known.setdefault(fid, of)
                continue
            name = "fail_%d.json" % of["case_id"]
            nfail = len([v for v in violations if v[1] == ""])
            p = keep_replay(pid, of["file"], name) if (nfail < 3 and os.path.exists(of["file"])) else os.path.join(OUT, pid, name)
            violations.append((p, ""))
        # every open finding must still reproduce through its committed witness; report it once
        for fid, f in open_ids.items():
            w = f.get("witness")
            reproduced = fid in seen_known
            if w and not reproduced:
                rc, o, _ = run([os.path.join(BUILD, cfg.get("binary", "harness")), pid, "--replay", os.path.join(ROOT, w)],
                               cwd=work, env=dict(os.environ, VERIF_TMP=work), timeout=600)
                reproduced = (rc == 1 and "oracle_ok=false" in o)
            if reproduced:
                known_lines.append("KNOWN-FINDING: property=%s %s %s" % (pid, fid, f.get("summary", "")))
            else:
                notes.append("open finding %s no longer reproduces" % fid)
        # model vs implementation
        traces_ok = 0
        if summary.get("model_cases", 0) > 0:
            if not rok:
                p = write_obligation_replay(pid, "runner", "extraction/build of the model runner (Corr/All.v)", rout)
                violations.append((p, " no-failing-input-found"))
            else:
                ok2, mismatches, o = run_runner(os.path.join(work, "cases.sx"))
                if not ok2:
                    p = write_obligation_replay(pid, "runner", "model runner crashed", o)
                    violations.append((p, " no-failing-input-found"))
                traces_ok = summary["model_cases"] - len(mismatches)
                if mismatches:
                    # a disagreement between model and implementation: the oracle above is the search for a failing input
                    ids = [summary["sx_index"][m] for m in mismatches[:5]]
                    lines = open(os.path.join(work, "cases.jsonl")).read().split("\n")
                    case = json.loads(lines[ids[0]]) if ids and ids[0] < len(lines) else None
                    p = write_obligation_replay(pid, "correspondence", "Corr/%s.v check (model vs implementation) on %d case(s), first case ids %s"
                                                % (pid, len(mismatches), ids), "model and implementation disagree", case)
                    if not [v for v in violations if v[1] == ""]:
                        violations.append((p, " no-failing-input-found"))
        # extra, property-specific stage
        extra_cov = {}
        if cfg.get("extra"):
            ev, viol, kn = cfg["extra"](pid, tier, seed, work, findings)
            extra_cov.update(ev)
            violations += viol
            known_lines += kn
        if not proof["ok"]:
            p = write_obligation_replay(pid, "proof", "theorem build broken at %s" % proof["broken"], proof["log"])
            if not [v for v in violations if v[1] == ""]:
                violations.append((p, " no-failing-input-found"))
    finally:
        shutil.rmtree(work, ignore_errors=True)

    # output
    for l in known_lines:
        print(l)
    seen = set()
    for p, suffix in violations:
        if p in seen:
            continue
        seen.add(p)
        if len(seen) <= 3:
            print("VIOLATION property=%s replay=%s%s" % (pid, p, suffix))
    if len(seen) > 3:
        log("(%d further violations not printed; see evidence)" % (len(seen) - 3))
    cov = dict(
        obligations=max(proof["obligations"], 1), discharged=proof["discharged"],
        checker_cmd=proof["checker_cmd"] or "make (not run)",
        trusted_base=TRUSTED_COMMON + cfg.get("trusted", []) + ["Print Assumptions: " + " | ".join(proof["assumptions"])]
        + (["coqchk -o: " + " | ".join(proof["coqchk"])] if proof.get("coqchk") else []),
        theorems=proof["theorems"],
        evaluations=summary["evaluations"], cases=summary.get("cases", summary["evaluations"]), distinct_nontrivial=summary["distinct_nontrivial"],
        rule=cfg.get("rule", "") or summary.get("rule", ""),
        samples=summary.get("samples") or [{"note": "no sample"}],
        traces_validated_against_impl=traces_ok,
        model_cases=summary.get("model_cases", 0), model_mismatches=len(mismatches),
        input_distribution=summary.get("kinds", {}),
        oracle_failures=len(summary.get("oracle_fails") or []),
        known_findings_reported=[l for l in known_lines],
        notes=notes, exhaustive=False,
    )
    cov.update(summary.get("extra") or {})
    cov.update(extra_cov)
    if not proof["ok"]:
        cov.pop("discharged", None)
    if cfg["level"] == "other":
        cov["explanation"] = cfg.get("explanation") or cfg.get("text") or "see DESIGN.md section 0.2"
    ev = dict(property_id=pid, tier=tier, seed=seed, level=cfg["level"], coverage=cov,
              assumptions=cfg.get("assumptions", []), wall_s=round(time.time() - t0, 2), violations=len(seen))
    write_evidence(pid, ev)
    return 1 if seen else 0


def setup():
    ok, out = build_harness()
    if not ok:
        log(out)
        return 1
    fok, fout = factgen()
    if not fok:
        log(fout)
    with Lock("coq"):
        coq_makefile()
    ok, out, _ = coq_make([])
    if not ok:
        log(out[-6000:])
        return 1
    ok, out = build_runner()
    if not ok:
        log(out[-6000:])
        return 1
    okr, outr = build_harness_race()
    if not okr:
        log("race build failed (C18 will report it): " + outr[-2000:])
    log("setup ok")
    return 0


def main(argv):
    if not argv or argv[0] in ("-h", "--help"):
        print(__doc__ or "usage: check Cxx [--tier quick|thorough] [--replay FILE] | --setup")
        return 2
    if argv[0] == "--setup":
        return setup()
    pid = argv[0]
    tier = os.environ.get("VERIF_TIER", "quick")
    replay = None
    i = 1
    while i < len(argv):
        if argv[i] == "--tier":
            tier = argv[i + 1]; i += 2
        elif argv[i] == "--replay":
            replay = argv[i + 1]; i += 2
        else:
            i += 1
    seed = int(os.environ.get("VERIF_SEED", "1") or 1)
    if replay:
        ok, out = build_harness()
        if not ok:
            print(out)
            return 2
        data = json.load(open(replay))
        if data.get("kind") == "broken-obligation" and not data.get("case"):
            print(json.dumps(data, indent=1))
            print("this replay names a broken obligation, not a failing input; re-run ./check %s" % pid)
            return 1
        work = scratch_dir(pid)
        try:
            tmp = replay
            if data.get("kind") == "broken-obligation":
                tmp = os.path.join(work, "case.json")
                json.dump(data["case"], open(tmp, "w"))
            from props import PROPS
            binary = PROPS.get(pid, {}).get("binary", "harness")
            if binary == "harness_race":
                build_harness_race()
            rc, o, _ = run([os.path.join(BUILD, binary), pid, "--replay", os.path.abspath(tmp)], cwd=work,
                           env=dict(os.environ, VERIF_TMP=work))
            print(o)
            return rc
        finally:
            shutil.rmtree(work, ignore_errors=True)
    return check(pid, tier, seed)
