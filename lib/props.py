"""Per-property configuration of the driver."""

PROPS = {
    "C08": dict(level="proof", num=8, rule="see harness c08.go"),
    "C11": dict(level="proof", num=11, rule="see harness c11.go"),
    "C15": dict(level="proof", num=15, rule="see harness c15.go"),
    "C03": dict(level="proof", num=3, rule="see harness c03.go"),
    "C20": dict(level="proof", num=20, rule="see harness c20.go",
                trusted=["Kaitai runtime semantics (repeat: eos, u1/u4le, contents check, vlq_base128_le value of <= 8 groups) are modelled in RecordIO/Kaitai.v; the payload length expression, magic contents and compression enum are regenerated from recordio_v4.ksy (gen/FactsKsy.v); agreement of the generated Go reader with that model is checked by the correspondence"]),
    "C12": dict(level="proof", num=12, rule="see harness c12.go"),
    "C04": dict(level="proof", num=4, rule="see harness c04.go"),
    "C14": dict(level="proof", num=14,
                rule="see harness c14.go: random call programs over universes of 3/12/200 keys incl. nil/empty keys and values; raw estimate after every call; both flush variants read back",
                trusted=["flush path: the table writer/reader are the L4 model's concern (C03/C15); here the flushed table is read back through the real reader and compared with the pairs the model hands to the writer"]),
    "C16": dict(level="proof", num=16,
                rule="see harness c16.go: all permutations of <=6/7 keys + random maps x 3 comparators; heap inputs with duplicates and injected faults",
                trusted=["skip-list pointer structure is modelled as 'level-l chain = towers of height > l' (Struct/SkipList.v); math/rand heights are universally quantified"]),
}
