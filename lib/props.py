"""Per-property configuration of the driver."""

PROPS = {
    "C16": dict(level="proof", num=16,
                rule="see harness c16.go: all permutations of <=6/7 keys + random maps x 3 comparators; heap inputs with duplicates and injected faults",
                trusted=["skip-list pointer structure is modelled as 'level-l chain = towers of height > l' (Struct/SkipList.v); math/rand heights are universally quantified"]),
}
