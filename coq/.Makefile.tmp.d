theories/Base/Bytes.vo theories/Base/Bytes.glob theories/Base/Bytes.v.beautified theories/Base/Bytes.required_vo: theories/Base/Bytes.v 
theories/Base/Bytes.vio: theories/Base/Bytes.v 
theories/Base/Bytes.vos theories/Base/Bytes.vok theories/Base/Bytes.required_vos: theories/Base/Bytes.v 
theories/Struct/SkipList.vo theories/Struct/SkipList.glob theories/Struct/SkipList.v.beautified theories/Struct/SkipList.required_vo: theories/Struct/SkipList.v theories/Base/Bytes.vo
theories/Struct/SkipList.vio: theories/Struct/SkipList.v theories/Base/Bytes.vio
theories/Struct/SkipList.vos theories/Struct/SkipList.vok theories/Struct/SkipList.required_vos: theories/Struct/SkipList.v theories/Base/Bytes.vos
theories/Struct/Heap.vo theories/Struct/Heap.glob theories/Struct/Heap.v.beautified theories/Struct/Heap.required_vo: theories/Struct/Heap.v theories/Base/Bytes.vo
theories/Struct/Heap.vio: theories/Struct/Heap.v theories/Base/Bytes.vio
theories/Struct/Heap.vos theories/Struct/Heap.vok theories/Struct/Heap.required_vos: theories/Struct/Heap.v theories/Base/Bytes.vos
