(* Correspondence for C14 (memstore). *)
From GoSST Require Import Base.Bytes Base.Sx Struct.SkipList Mem.MemStore.

Module C14.
  Record case := mkCase {
    c_ops : list msop;
    c_outs : list (msout * N);
    c_iter : list (bytes * option bytes);
    c_size : nat;
    c_tombs : bool;
    c_table : list (bytes * option bytes)
  }.

  Definition dOp (s : sx) : option msop :=
    match s with
    | L [I t; k; v] =>
        do k' <- dOB k; do v' <- dOB v;
        match t with
        | 0%N => Some (OAdd k' v') | 1%N => Some (OUpsert k' v') | 2%N => Some (ODelete k')
        | 3%N => Some (ODeleteIfExists k') | 4%N => Some (OTombstone k') | 5%N => Some (OGet k')
        | 6%N => Some (OContains k') | 7%N => Some (OIsTombstoned k') | 8%N => Some OSize
        | _ => None
        end
    | _ => None
    end.

  Definition dMsErr (s : sx) : option (option mserr) :=
    match s with
    | I 0%N => Some None | I 1%N => Some (Some KeyAlreadyExists) | I 2%N => Some (Some KeyNotFound)
    | I 3%N => Some (Some KeyTombstoned) | I 4%N => Some (Some KeyNil) | I 5%N => Some (Some ValueNil)
    | _ => None
    end.

  Definition dOut (s : sx) : option msout :=
    match s with
    | L [I 0%N; e] => do e' <- dMsErr e; Some (RErr e')
    | L [I 1%N; L [I 0%N; B v]] => Some (RGet (inl v))
    | L [I 1%N; L [I 1%N; e]] => match dMsErr e with Some (Some e') => Some (RGet (inr e')) | _ => None end
    | L [I 2%N; b] => do b' <- dBool b; Some (RBool b')
    | L [I 3%N; n] => do n' <- dNat n; Some (RSize n')
    | _ => None
    end.

  Definition decode (s : sx) : option case :=
    match s with
    | L [ops; outs; iter; sz; tombs; table] =>
        do ops' <- dList dOp ops;
        do outs' <- dList (dPair dOut dN) outs;
        do iter' <- dList (dPair dB dOB) iter;
        do sz' <- dNat sz;
        do tombs' <- dBool tombs;
        do table' <- dList (dPair dB dOB) table;
        Some (mkCase ops' outs' iter' sz' tombs' table')
    | _ => None
    end.

  Definition mserr_eqb (a b : mserr) : bool :=
    match a, b with
    | KeyAlreadyExists, KeyAlreadyExists | KeyNotFound, KeyNotFound | KeyTombstoned, KeyTombstoned
    | KeyNil, KeyNil | ValueNil, ValueNil => true
    | _, _ => false
    end.

  Definition out_eqb (a b : msout) : bool :=
    match a, b with
    | RErr x, RErr y => opt_eqb mserr_eqb x y
    | RGet (inl x), RGet (inl y) => bytes_eqb x y
    | RGet (inr x), RGet (inr y) => mserr_eqb x y
    | RBool x, RBool y => Bool.eqb x y
    | RSize x, RSize y => Nat.eqb x y
    | _, _ => false
    end.

  Definition kvo_eqb (a b : bytes * option bytes) : bool :=
    bytes_eqb (fst a) (fst b) && obytes_eqb (snd a) (snd b).

  (* heights: deterministic but varied, results do not depend on them *)
  Fixpoint heights (n : nat) : list nat :=
    match n with O => [] | S n' => (1 + Nat.modulo n 5)%nat :: heights n' end.

  Definition check (c : case) : bool :=
    let '(s, outs) := ms_run (heights (length (c_ops c))) ms_empty (c_ops c) in
    list_eqb (fun a b => out_eqb (fst a) (fst b) && N.eqb (snd a) (snd b)) outs (c_outs c)
    && list_eqb kvo_eqb (ms_iter s) (c_iter c)
    && Nat.eqb (ms_size s) (c_size c)
    && list_eqb kvo_eqb (ms_flush_pairs (c_tombs c) s) (c_table c).

  Definition check_sx (s : sx) : bool :=
    match decode s with Some c => check c | None => false end.
End C14.
