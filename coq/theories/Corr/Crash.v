(* Correspondence for the crash properties C02 / C10 / C13: the abstract disks of real directory
   images (harness absimg.go) at every system-call boundary of traced sessions and recoveries.
   For every image: [view] must be what the real Open reads back, [recover] must leave the tables
   the real Open leaves; every change between consecutive images must be one atomic effect of
   Fs/Crash.v (or a batch of WAL appends written by one system call). *)
From GoSST Require Import Base.Bytes Base.Sx Db.Logical Fs.Crash.
Local Open Scope N_scope.

Module CRC.
  Record obs := mkObs { o_ok : bool; o_vals : list (option bytes); o_tabs : list N }.
  Record nimg := mkN { n_disk : disk; n_alt : bool; n_obs : obs }.
  Record img := mkI { i_disk : disk; i_obs : obs; i_nested : list nimg }.
  Record case := mkCase { c_keys : list bytes; c_async : bool; c_imgs : list img }.

  Definition dMut (s : sx) : option mutation :=
    match s with
    | L [I 0; B k; B v] => Some (MPut k v)
    | L [I 1; B k] => Some (MDel k)
    | _ => None
    end.
  Definition dData : sx -> option ltable := dList (dPair dB dOB).
  Definition dTab (s : sx) : option tdir :=
    match s with
    | L [I g; I st; data] =>
        do data' <- dData data;
        match st with
        | 0 => Some (mkT g TPartial data') | 1 => Some (mkT g TComplete data') | 2 => Some (mkT g THalf data')
        | _ => None
        end
    | _ => None
    end.
  Definition dFlag (s : sx) : option cflag :=
    match s with
    | I 0 => Some FlagNone | I 1 => Some FlagBad
    | L [gens] => do gens' <- dList dN gens; Some (FlagGood gens')
    | _ => None
    end.
  Definition dComp (s : sx) : option (option cdir) :=
    match s with
    | L [] => Some None
    | L [L [flag; merged; complete]] =>
        do f <- dFlag flag; do m <- dData merged; do c <- dBool complete; Some (Some (mkCd f m c))
    | _ => None
    end.
  Definition dDisk (s : sx) : option disk :=
    match s with
    | L [tabs; wals; comp] =>
        do tabs' <- dList dTab tabs; do wals' <- dList (dPair dN (dList dMut)) wals; do comp' <- dComp comp;
        Some (mkDisk tabs' wals' comp')
    | _ => None
    end.
  Definition dObs (ok vals tabs : sx) : option obs :=
    do ok' <- dBool ok; do vals' <- dList dOB vals; do tabs' <- dList dN tabs; Some (mkObs ok' vals' tabs').
  Definition dNimg (s : sx) : option nimg :=
    match s with
    | L [d; alt; ok; vals; tabs] => do d' <- dDisk d; do alt' <- dBool alt; do o <- dObs ok vals tabs; Some (mkN d' alt' o)
    | _ => None
    end.
  Definition dImg (s : sx) : option img :=
    match s with
    | L [d; ok; vals; tabs; nested] =>
        do d' <- dDisk d; do o <- dObs ok vals tabs; do ns <- dList dNimg nested; Some (mkI d' o ns)
    | _ => None
    end.
  Definition decode (s : sx) : option case :=
    match s with
    | L [keys; async; imgs] => do keys' <- dList dB keys; do async' <- dBool async; do imgs' <- dList dImg imgs; Some (mkCase keys' async' imgs')
    | _ => None
    end.

  (* ---- equality of disks *)
  Definition mval_eqb (a b : mval) : bool := obytes_eqb a b.
  Definition ltable_eqb : ltable -> ltable -> bool :=
    list_eqb (fun x y => bytes_eqb (fst x) (fst y) && mval_eqb (snd x) (snd y)).
  Definition tstate_eqb (a b : tstate) : bool :=
    match a, b with TPartial, TPartial | TComplete, TComplete | THalf, THalf => true | _, _ => false end.
  (* the content of a directory that is not a complete table is irrelevant *)
  Definition tdir_eqb (a b : tdir) : bool :=
    (t_gen a =? t_gen b) && tstate_eqb (t_state a) (t_state b)
    && (match t_state a with TComplete => ltable_eqb (t_data a) (t_data b) | _ => true end).
  Definition mut_eqb (a b : mutation) : bool :=
    match a, b with
    | MPut k v, MPut k' v' => bytes_eqb k k' && bytes_eqb v v'
    | MDel k, MDel k' => bytes_eqb k k'
    | _, _ => false
    end.
  Definition cflag_eqb (a b : cflag) : bool :=
    match a, b with
    | FlagNone, FlagNone | FlagBad, FlagBad => true
    | FlagGood x, FlagGood y => list_eqb N.eqb x y
    | _, _ => false
    end.
  Definition cdir_eqb (a b : cdir) : bool :=
    cflag_eqb (cd_flag a) (cd_flag b) && Bool.eqb (cd_complete a) (cd_complete b)
    && (if cd_complete a then ltable_eqb (cd_merged a) (cd_merged b) else true).
  Definition disk_eqb (a b : disk) : bool :=
    list_eqb tdir_eqb (k_tabs a) (k_tabs b)
    && list_eqb (fun x y => (fst x =? fst y) && list_eqb mut_eqb (snd x) (snd y)) (k_wals a) (k_wals b)
    && match k_comp a, k_comp b with
       | None, None => true
       | Some x, Some y => cdir_eqb x y
       | _, _ => false
       end.

  (* ---- one observed change is one atomic effect *)
  Definition gens_of (d : disk) : list N := map t_gen (k_tabs d).
  Definition candidates (d d' : disk) : list fsop :=
    let gs := gens_of d ++ gens_of d' in
    flat_map (fun g => [OTblMkdir g; OTblUnlink g false; OTblUnlink g true; OTblGone g;
                        OTblComplete g (match find_tab g (k_tabs d') with Some t => t_data t | None => [] end)]) gs
    ++ map (fun w => OWalRemove (fst w)) (k_wals d)
    ++ [OWalClear; OCompMkdir; OCompDamage; OCompGone; OCompRename]
    ++ match k_comp d' with
       | Some c => [OCompWritten (cd_merged c); OCompFlag (cd_flag c)]
       | None => []
       end.
  (* several complete records can reach the newest WAL file with one write *)
  Definition appended (d d' : disk) : bool :=
    match rev (k_wals d') with
    | (n, recs') :: _ =>
        let old := match find (fun w => fst w =? n) (k_wals d) with Some w => snd w | None => [] end in
        let extra := skipn (length old) recs' in
        match extra with
        | [] => false
        | _ => match append_all d n extra with Some x => disk_eqb x d' | None => false end
        end
    | [] => false
    end.
  Definition allowed (d d' : disk) : bool :=
    disk_eqb d d' || appended d d'
    || existsb (fun o => match fs_apply d o with Some x => disk_eqb x d' | None => false end) (candidates d d').

  (* ---- one image against the real Open *)
  Definition image_ok (keys : list bytes) (d : disk) (o : obs) : bool :=
    match view d, recover d with
    | Some m, Some d' =>
        o_ok o && list_eqb obytes_eqb (map m keys) (o_vals o) && list_eqb N.eqb (map t_gen (k_tabs d')) (o_tabs o)
    | _, _ => negb (o_ok o)
    end.

  Fixpoint nested_ok (keys : list bytes) (prev : disk) (ns : list nimg) : bool :=
    match ns with
    | [] => true
    | n :: r =>
        image_ok keys (n_disk n) (n_obs n)
        && (if n_alt n then nested_ok keys prev r else allowed prev (n_disk n) && nested_ok keys (n_disk n) r)
    end.

  Fixpoint imgs_ok (keys : list bytes) (prev : option disk) (l : list img) : bool :=
    match l with
    | [] => true
    | i :: r =>
        image_ok keys (i_disk i) (i_obs i)
        && match prev with Some p => allowed p (i_disk i) | None => true end
        && nested_ok keys (i_disk i) (i_nested i)
        && imgs_ok keys (Some (i_disk i)) r
    end.

  Definition check (c : case) : bool := imgs_ok (c_keys c) None (c_imgs c).
  Definition check_sx (s : sx) : bool := match decode s with Some c => check c | None => false end.

  (* diagnosis *)
  Definition explain (c : case) :=
    map (fun i => (image_ok (c_keys c) (i_disk i) (i_obs i), map (fun n => image_ok (c_keys c) (n_disk n) (n_obs n)) (i_nested i))) (c_imgs c).
End CRC.
