(* Correspondence for C12 (cut files, altered header bytes, file header values). *)
From GoSST Require Import Base.Bytes Base.Sx RecordIO.Format RecordIO.Writer RecordIO.SeqReader RecordIO.MmapReader Corr.C04.
Local Open Scope N_scope.

Module C12.
  Import C04.

  Record head := mkHead { h_ct : N; h_tab : ctab; h_recs : list (option bytes); h_file : bytes; h_offs : list N }.

  Inductive case :=
  | Cut (h : head) (cuts : list (N * list (res (option bytes)) * list (res (option bytes))
                                * list (list bool * list (res (option (option bytes))))))
  | Hdr (h : head) (alts : list (N * N * N * list (res (option bytes)) * res (option bytes)))
  | FileHdr (h : head) (fhs : list (N * N * bool * bool)).

  Definition dHead (s : sx) : option head :=
    match s with
    | L [ct; tab; recs; file; offs] =>
        do ct' <- dN ct; do tab' <- dList (dPair dB dB) tab; do recs' <- dList dOB recs;
        do file' <- dB file; do offs' <- dList dN offs;
        Some (mkHead ct' tab' recs' file' offs')
    | _ => None
    end.

  (* a read/skip program over the cut file and what it returned *)
  Definition dMix (s : sx) :=
    match s with
    | L [prog; out] => do p' <- dList dBool prog; do o' <- dList dMixed out; Some (p', o')
    | _ => None
    end.
  Definition dCut (s : sx) :=
    match s with
    | L [n; seq; at_] =>
        do n' <- dN n; do seq' <- dList dRecRes seq; do at' <- dList dRecRes at_; Some (n', seq', at', [])
    | L [n; seq; at_; mixes] =>
        do n' <- dN n; do seq' <- dList dRecRes seq; do at' <- dList dRecRes at_; do m' <- dList dMix mixes;
        Some (n', seq', at', m')
    | _ => None
    end.
  Definition dAlt (s : sx) :=
    match s with
    | L [p; v; off; seq; at_] =>
        do p' <- dN p; do v' <- dN v; do off' <- dN off; do seq' <- dList dRecRes seq; do at' <- dRecRes at_;
        Some (p', v', off', seq', at')
    | _ => None
    end.
  Definition dFh (s : sx) :=
    match s with
    | L [v; ct; o; m] => do v' <- dN v; do ct' <- dN ct; do o' <- dBool o; do m' <- dBool m; Some (v', ct', o', m')
    | _ => None
    end.

  Definition decode (s : sx) : option case :=
    match s with
    | L [I 0; h; cuts] => do h' <- dHead h; do c' <- dList dCut cuts; Some (Cut h' c')
    | L [I 1; h; alts] => do h' <- dHead h; do a' <- dList dAlt alts; Some (Hdr h' a')
    | L [I 2; h; fhs] => do h' <- dHead h; do f' <- dList dFh fhs; Some (FileHdr h' f')
    | _ => None
    end.

  Definition set_byte (l : bytes) (pos : N) (v : N) : bytes :=
    firstn (N.to_nat pos) l ++ v :: skipn (S (N.to_nat pos)) l.

  Definition seq_eqb := list_eqb (res_eqb obytes_eqb).

  (* the written file itself must be what the model writes *)
  Definition head_ok (h : head) : bool :=
    let cd := codec_of (h_ct h) (h_tab h) in
    let '(s, outs) := w_run cd (map WWrite (h_recs h)) (w_open cd) in
    bytes_eqb (w_close s) (h_file h) && list_eqb N.eqb (map fst outs) (h_offs h).

  Definition check (c : case) : bool :=
    match c with
    | Cut h cuts =>
        let cd := codec_of (h_ct h) (h_tab h) in
        let fuel := (length (h_recs h) + 2)%nat in
        head_ok h &&
        forallb (fun t => match t with (n, seq, at_, mixes) =>
          let f := firstn (N.to_nat n) (h_file h) in
          seq_eqb (map res_norm (read_all fuel cd f 8)) seq
          && list_eqb (res_eqb obytes_eqb) (map (read_at cd f) (h_offs h)) at_
          && forallb (fun m => list_eqb (res_eqb (opt_eqb obytes_eqb)) (map res_norm (read_mixed cd f 8 (fst m))) (snd m)) mixes
          end) cuts
    | Hdr h alts =>
        let cd := codec_of (h_ct h) (h_tab h) in
        let fuel := (length (h_recs h) + 2)%nat in
        head_ok h &&
        forallb (fun t => match t with (p, v, off, seq, at_) =>
          let f := set_byte (h_file h) p v in
          seq_eqb (map res_norm (read_all fuel cd f 8)) seq
          && res_eqb obytes_eqb (read_at cd f off) at_ end) alts
    | FileHdr h fhs =>
        head_ok h &&
        forallb (fun t => match t with (v, ct, o, m) =>
          let f := le32 v ++ le32 ct ++ skipn 8 (h_file h) in
          let rej := match parse_file_hdr f with Ok _ => false | Err _ => true end in
          Bool.eqb rej o && Bool.eqb rej m end) fhs
    end.

  Definition explain (c : case) :=
    match c with
    | Hdr h alts =>
        let cd := codec_of (h_ct h) (h_tab h) in
        let fuel := (length (h_recs h) + 2)%nat in
        (head_ok h, map (fun t => match t with (p, v, off, seq, at_) =>
           let f := set_byte (h_file h) p v in (p, v, map res_norm (read_all fuel cd f 8), read_at cd f off) end)
         (filter (fun t => match t with (p, v, off, seq, at_) =>
          let f := set_byte (h_file h) p v in
          negb (seq_eqb (map res_norm (read_all fuel cd f 8)) seq
          && res_eqb obytes_eqb (read_at cd f off) at_) end) alts))
    | _ => (true, [])
    end.

  Definition check_sx (s : sx) : bool :=
    match decode s with Some c => check c | None => false end.
End C12.
