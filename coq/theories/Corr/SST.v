(* Correspondence for the table layer: C03 (tables through every loader), C15 (writer with
   injected append failures, metadata), C08 (stacked reader and merges), C11 (faults in merges). *)
From GoSST Require Import Base.Bytes Base.Sx Base.Crc RecordIO.Format RecordIO.Writer.
From GoSST Require Import SST.TableWriter SST.Index SST.TableReader SST.Merge SST.Super Corr.C04.
Local Open Scope N_scope.

Module SSTC.
  Import C04.
  Definition kvo := (bytes * option bytes)%type.
  Definition kvo_eqb (a b : kvo) : bool := bytes_eqb (fst a) (fst b) && obytes_eqb (snd a) (snd b).
  Definition dKVO : sx -> option kvo := dPair dB dOB.

  (* scan observation: (pairs, optional error) *)
  Definition dScan (s : sx) : option (list kvo * option err) :=
    match s with
    | L [kvs; e] => do kvs' <- dList dKVO kvs; do e' <- dOpt dErr e; Some (kvs', e')
    | _ => None
    end.

  Definition oerr_eqb (a b : option err) : bool :=
    match a, b with
    | None, None => true
    | Some x, Some y => err_eqb (norm_err x) (norm_err y)
    | _, _ => false
    end.
  Definition scan_eqb (a b : list kvo * option err) : bool :=
    list_eqb kvo_eqb (fst a) (fst b) && oerr_eqb (snd a) (snd b).

  Definition dLoader (s : sx) : option loader :=
    match s with
    | L [I 0] => Some LSlice | L [I 1] => Some LSkipList
    | L [I 2; I w] => Some (LMap (N.to_nat w)) | L [I 3; I sl] => Some (LDisk sl)
    | _ => None
    end.

  (* ---------------- C03 *)
  Record c03 := mkC03 {
    a_ict : N; a_dct : N; a_itab : ctab; a_dtab : ctab; a_kvs : list kvo; a_loader : loader;
    a_index : bytes; a_data : bytes;
    a_meta : N * N * bytes * bytes * N * N;          (* num nulls min max data_bytes index_bytes *)
    a_gets : list (bytes * bool * res (option bytes));
    a_all : list kvo * option err;
    a_froms : list (bytes * (list kvo * option err));
    a_ranges : list (bytes * bytes * option (list kvo * option err))
  }.

  Definition dMeta (s : sx) :=
    match s with
    | L [a; b; c; d; e; f] =>
        do a' <- dN a; do b' <- dN b; do c' <- dB c; do d' <- dB d; do e' <- dN e; do f' <- dN f;
        Some (a', b', c', d', e', f')
    | _ => None
    end.

  Definition decode_c03 (s : sx) : option c03 :=
    match s with
    | L [ict; dct; itab; dtab; kvs; ld; idx; data; meta; gets; all; froms; ranges] =>
        do ict' <- dN ict; do dct' <- dN dct; do itab' <- dList (dPair dB dB) itab; do dtab' <- dList (dPair dB dB) dtab;
        do kvs' <- dList dKVO kvs; do ld' <- dLoader ld; do idx' <- dB idx; do data' <- dB data;
        do meta' <- dMeta meta;
        do gets' <- dList (dTriple dB dBool (dRes dOB)) gets;
        do all' <- dScan all;
        do froms' <- dList (dPair dB dScan) froms;
        do ranges' <- dList (dTriple dB dB (dOpt dScan)) ranges;
        Some (mkC03 ict' dct' itab' dtab' kvs' ld' idx' data' meta' gets' all' froms' ranges')
    | _ => None
    end.

  Definition ob (o : option bytes) : bytes := match o with Some b => b | None => [] end.

  Definition meta_ok (t : table_files) (m : N * N * bytes * bytes * N * N) : bool :=
    match m with (num, nulls, mn, mx, db, ib) =>
      N.eqb (tf_num t) num && N.eqb (tf_nulls t) nulls && bytes_eqb (ob (tf_min t)) mn
      && bytes_eqb (ob (tf_max t)) mx && N.eqb (tf_data_bytes t) db && N.eqb (tf_index_bytes t) ib end.

  Definition res_ob_eqb (a b : res (option bytes)) : bool :=
    match a, b with
    | Ok x, Ok y => obytes_eqb x y
    | Err x, Err y => err_eqb (norm_err x) (norm_err y)
    | _, _ => false
    end.

  Definition check_c03 (c : c03) : bool :=
    let ci := codec_of (a_ict c) (a_itab c) in
    let cd := codec_of (a_dct c) (a_dtab c) in
    let t := write_table ci cd (a_kvs c) in
    bytes_eqb (tf_index t) (a_index c) && bytes_eqb (tf_data t) (a_data c) && meta_ok t (a_meta c)
    && match open_table (a_loader c) t ci cd with
       | Err _ => false
       | Ok r =>
           forallb (fun g => match g with (k, cont, get) =>
              (* Contains depends on the bloom filter only through false positives on absent keys,
                 where the index answers false anyway *)
              match idx_get r k with
              | Ok (Some _) => if r_bloom r k then cont else true   (* not added but indexed (map twin): a bloom false positive decides *)
              | Ok None => negb cont
              | Err _ => false
              end
              && res_ob_eqb (rd_get r k) get end) (a_gets c)
           && scan_eqb (rd_scan r) (a_all c)
           && forallb (fun f => scan_eqb (rd_scan_from r (fst f)) (snd f)) (a_froms c)
           && forallb (fun t3 => match t3 with (lo, hi, o) =>
                opt_eqb scan_eqb (rd_scan_range r lo hi) o end) (a_ranges c)
       end.

  Definition explain_c03 (c : c03) :=
    let ci := codec_of (a_ict c) (a_itab c) in
    let cd := codec_of (a_dct c) (a_dtab c) in
    let t := write_table ci cd (a_kvs c) in
    (bytes_eqb (tf_index t) (a_index c), bytes_eqb (tf_data t) (a_data c), meta_ok t (a_meta c),
     match open_table (a_loader c) t ci cd with
       | Err e => ([], Some e, [], [])
       | Ok r =>
           (map (fun g => match g with (k, cont, get) =>
              (k, rd_contains r k, cont, rd_get r k, get) end)
              (filter (fun g => match g with (k, cont, get) => negb (match rd_contains r k with Ok b => Bool.eqb b cont | Err _ => false end
              && res_ob_eqb (rd_get r k) get) end) (a_gets c)),
            (if scan_eqb (rd_scan r) (a_all c) then None else Some Other),
            filter (fun f => negb (scan_eqb (rd_scan_from r (fst f)) (snd f))) (a_froms c),
            filter (fun t3 => match t3 with (lo, hi, o) =>
                negb (opt_eqb scan_eqb (rd_scan_range r lo hi) o) end) (a_ranges c))
       end).

  (* ---------------- C15 *)
  Record c15 := mkC15 {
    b_ict : N; b_dct : N; b_itab : ctab; b_dtab : ctab;
    b_calls : list (tw_fault * bytes * option bytes);
    b_errs : list N;                          (* 0 ok, 1 rejected, 2 injected failure reported *)
    b_table : list kvo * option err;
    b_meta : N * N * bytes * bytes * N * N;
    b_index_len : N; b_data_len : N
  }.

  Definition dCall (s : sx) : option (tw_fault * bytes * option bytes) :=
    match s with
    | L [I f; k; v] =>
        do k' <- dB k; do v' <- dOB v;
        match f with 0 => Some (NoFault, k', v') | 1 => Some (FailData, k', v') | 2 => Some (FailIndex, k', v') | _ => None end
    | _ => None
    end.

  Definition decode_c15 (s : sx) : option c15 :=
    match s with
    | L [ict; dct; itab; dtab; calls; errs; table; meta; il; dl] =>
        do ict' <- dN ict; do dct' <- dN dct; do itab' <- dList (dPair dB dB) itab; do dtab' <- dList (dPair dB dB) dtab;
        do calls' <- dList dCall calls; do errs' <- dList dN errs; do table' <- dScan table;
        do meta' <- dMeta meta; do il' <- dN il; do dl' <- dN dl;
        Some (mkC15 ict' dct' itab' dtab' calls' errs' table' meta' il' dl')
    | _ => None
    end.

  Definition err_code (r : res unit) : N := match r with Ok _ => 0 | Err Rejected => 1 | Err _ => 2 end.

  Definition check_c15 (c : c15) : bool :=
    let ci := codec_of (b_ict c) (b_itab c) in
    let cd := codec_of (b_dct c) (b_dtab c) in
    let '(s, rs) := tw_run (b_calls c) (tw_open ci cd) in
    let t := tw_close s in
    list_eqb N.eqb (map err_code rs) (b_errs c)
    && meta_ok t (b_meta c)
    && N.eqb (lenN (tf_index t)) (b_index_len c) && N.eqb (lenN (tf_data t)) (b_data_len c)
    && match open_table LSlice t ci cd with
       | Err _ => false
       | Ok r => scan_eqb (rd_scan r) (b_table c)
       end.

  (* ---------------- C08 *)
  Definition kvb := (bytes * bytes)%type.
  Definition dScanB (s : sx) : option (list kvo * option err) := dScan s.

  Record c08 := mkC08 {
    d_tab : ctab; d_tables : list (list kvo);
    d_gets : list (bytes * res bool * res (option bytes));
    d_all : list kvo * option err;
    d_froms : list (bytes * (list kvo * option err));
    d_ranges : list (bytes * bytes * option (list kvo * option err));
    d_compact : list kvo * option err;
    d_compact_st : list kvo * option err;
    d_merge : option (list kvo * option err)
  }.

  Definition dResBool (s : sx) : option (res bool) := dRes dBool s.

  Definition decode_c08 (s : sx) : option c08 :=
    match s with
    | L [tab; tables; gets; all; froms; ranges; comp; compst; mrg] =>
        do tab' <- dList (dPair dB dB) tab;
        do tables' <- dList (dList dKVO) tables;
        do gets' <- dList (dTriple dB dResBool (dRes dOB)) gets;
        do all' <- dScan all;
        do froms' <- dList (dPair dB dScan) froms;
        do ranges' <- dList (dTriple dB dB (dOpt dScan)) ranges;
        do comp' <- dScan comp; do compst' <- dScan compst; do mrg' <- dOpt dScan mrg;
        Some (mkC08 tab' tables' gets' all' froms' ranges' comp' compst' mrg')
    | _ => None
    end.

  Definition lift (p : list kvb * option err) : list kvo * option err :=
    (map (fun kv => (fst kv, Some (snd kv))) (fst p), snd p).

  Definition res_bool_eqb (a b : res bool) : bool :=
    match a, b with Ok x, Ok y => Bool.eqb x y | Err x, Err y => err_eqb x y | _, _ => false end.

  (* a real table writer as merge sink *)
  Definition tw_sink : sink tw := fun s k v => tw_write_next NoFault k v s.

  Definition merged_table (ci cd : codec) (f : tw -> tw * res unit) : list kvo * option err :=
    match f (tw_open ci cd) with
    | (s, Ok _) =>
        match open_table LSlice (tw_close s) ci cd with
        | Ok r => rd_scan r
        | Err e => ([], Some e)
        end
    | (_, Err e) => ([], Some e)
    end.

  Definition check_c08 (c : c08) : bool :=
    let ci := codec_of 0 (d_tab c) in
    let cd := codec_of 2 (d_tab c) in
    let readers := mapM (fun kvs => match open_table LSlice (write_table ci cd kvs) ci cd with Ok r => Some r | Err _ => None end) (d_tables c) in
    match readers with
    | None => false
    | Some rs =>
        let streams := map (fun r => to_stream (rd_scan r)) rs in
        forallb (fun g => match g with (k, cont, get) =>
            res_bool_eqb (super_contains rs k) cont && res_ob_eqb (super_get rs k) get end) (d_gets c)
        && scan_eqb (lift (super_scan rs)) (d_all c)
        && forallb (fun f => scan_eqb (lift (super_scan_from rs (fst f))) (snd f)) (d_froms c)
        && forallb (fun t3 => match t3 with (lo, hi, o) =>
              opt_eqb scan_eqb (match super_scan_range rs lo hi with Some x => Some (lift x) | None => None end) o end) (d_ranges c)
        && scan_eqb (merged_table ci cd (merge_compact reduce_latest_wins tw_sink streams)) (d_compact c)
        && scan_eqb (merged_table ci cd (merge_compact reduce_latest_wins_skip_tombstones tw_sink streams)) (d_compact_st c)
        && match d_merge c with
           | None => true
           | Some m => scan_eqb (merged_table ci cd (merge tw_sink streams)) m
           end
    end.

  (* ---------------- C11: merges over faulty inputs into a recording writer failing at call n *)
  Record c11 := mkC11 {
    e_mode : N;                       (* 0 merge, 1 compact, 2 compact skip tombstones *)
    e_inputs : list mstream;
    e_fail_at : N;
    e_failed : bool;
    e_writes : list kvo;
    e_calls : N
  }.

  Definition dItem (s : sx) : option (res (bytes * mval)) :=
    match s with
    | L [I 0; k; v] => do k' <- dB k; do v' <- dOB v; Some (Ok (k', v'))
    | L [I 1] => Some (Err Other)
    | _ => None
    end.

  Definition decode_c11 (s : sx) : option c11 :=
    match s with
    | L [m; inputs; fa; failed; writes; calls] =>
        do m' <- dN m; do inputs' <- dList (dList dItem) inputs; do fa' <- dN fa; do failed' <- dBool failed;
        do writes' <- dList dKVO writes; do calls' <- dN calls;
        Some (mkC11 m' inputs' fa' failed' writes' calls')
    | _ => None
    end.

  (* recording writer: state = (calls so far, received pairs in reverse) *)
  Definition rec_sink (fail_at : N) : sink (N * list kvo) :=
    fun s k v => let n := fst s + 1 in
                 if n =? fail_at then ((n, snd s), Err Other) else ((n, (k, v) :: snd s), Ok tt).

  Definition check_c11 (c : c11) : bool :=
    let w := rec_sink (e_fail_at c) in
    let '(s, r) :=
      match e_mode c with
      | 0 => merge w (e_inputs c) (0, [])
      | 1 => merge_compact reduce_latest_wins w (e_inputs c) (0, [])
      | _ => merge_compact reduce_latest_wins_skip_tombstones w (e_inputs c) (0, [])
      end in
    Bool.eqb (match r with Ok _ => false | Err _ => true end) (e_failed c)
    && list_eqb kvo_eqb (rev (snd s)) (e_writes c)
    && N.eqb (fst s) (e_calls c).

  (* dispatch *)
  Definition check_sx (which : N) (s : sx) : bool :=
    match which with
    | 3 => match decode_c03 s with Some c => check_c03 c | None => false end
    | 15 => match decode_c15 s with Some c => check_c15 c | None => false end
    | 8 => match decode_c08 s with Some c => check_c08 c | None => false end
    | 11 => match decode_c11 s with Some c => check_c11 c | None => false end
    | _ => false
    end.
End SSTC.

(* ---------------- C09: damaged data files (uncompressed tables) *)
From GoSST Require Import RecordIO.Format.
Module C09.
  Import C04 SSTC.
  Inductive damage := DByte (pos v : N) | DCut (n : N) | DSwap (data : bytes).

  Record obs := mkObs { o_dmg : damage; o_open : bool; o_gets : list (res (option bytes));
                        o_scan : list kvo * option err; o_from : list kvo * option err }.
  Record case := mkCase { c_kvs : list kvo; c_on_read : bool; c_index : bytes; c_data : bytes; c_obs : list obs }.

  Definition dDamage (s : sx) : option damage :=
    match s with
    | L [I 0; I p; I v] => Some (DByte p v)
    | L [I 1; I n] => Some (DCut n)
    | L [I 2; B d] => Some (DSwap d)
    | _ => None
    end.

  Definition dObs (s : sx) : option obs :=
    match s with
    | L [d; o; gets; sc; fr] =>
        do d' <- dDamage d; do o' <- dBool o; do gets' <- dList (dRes dOB) gets; do sc' <- dScan sc; do fr' <- dScan fr;
        Some (mkObs d' o' gets' sc' fr')
    | _ => None
    end.

  Definition decode (s : sx) : option case :=
    match s with
    | L [kvs; onr; idx; data; obs] =>
        do kvs' <- dList dKVO kvs; do onr' <- dBool onr; do idx' <- dB idx; do data' <- dB data; do obs' <- dList dObs obs;
        Some (mkCase kvs' onr' idx' data' obs')
    | _ => None
    end.

  Definition apply_damage (d : damage) (data : bytes) : bytes :=
    match d with
    | DByte p v => firstn (N.to_nat p) data ++ v :: skipn (S (N.to_nat p)) data
    | DCut n => firstn (N.to_nat n) data
    | DSwap m => m
    end.

  Definition idc : codec := codec_of 0 [].

  Definition check (c : case) : bool :=
    let t := write_table idc idc (c_kvs c) in
    bytes_eqb (tf_index t) (c_index c) && bytes_eqb (tf_data t) (c_data c)
    && forallb (fun o =>
         let data := apply_damage (o_dmg o) (c_data c) in
         match open_reader LSlice idc idc (c_index c) data (fun _ => true) (c_on_read c) (c_on_read c) with
         | Err _ => negb (o_open o)
         | Ok r =>
             o_open o
             && list_eqb res_ob_eqb (map (fun kv => rd_get r (fst kv)) (c_kvs c)) (o_gets o)
             && scan_eqb (rd_scan r) (o_scan o)
             && scan_eqb (rd_scan_from r []) (o_from o)
         end) (c_obs c).

  Definition explain (c : case) :=
    let t := write_table idc idc (c_kvs c) in
    (bytes_eqb (tf_index t) (c_index c), bytes_eqb (tf_data t) (c_data c),
     firstn 3 (map (fun o =>
         let data := apply_damage (o_dmg o) (c_data c) in
         (o_dmg o, o_open o, match open_reader LSlice idc idc (c_index c) data (fun _ => true) (c_on_read c) (c_on_read c) with
         | Err e => ([], ([], Some e), ([], Some e))
         | Ok r => (map (fun kv => rd_get r (fst kv)) (c_kvs c), rd_scan r, rd_scan_from r [])
         end, o_gets o, o_scan o, o_from o))
      (filter (fun o =>
         let data := apply_damage (o_dmg o) (c_data c) in
         negb match open_reader LSlice idc idc (c_index c) data (fun _ => true) (c_on_read c) (c_on_read c) with
         | Err _ => negb (o_open o)
         | Ok r =>
             o_open o
             && list_eqb res_ob_eqb (map (fun kv => rd_get r (fst kv)) (c_kvs c)) (o_gets o)
             && scan_eqb (rd_scan r) (o_scan o)
             && scan_eqb (rd_scan_from r []) (o_from o)
         end) (c_obs c)))).

  Definition check_sx (s : sx) : bool :=
    match decode s with Some c => check c | None => false end.
End C09.
