(* Dispatch from a property number to its correspondence check (one entry point for extraction). *)
From GoSST Require Import Base.Bytes Base.Sx.
From GoSST Require Corr.C16 Corr.C14 Corr.C04 Corr.C12 Corr.C20 Corr.SST Corr.DB Corr.Crash Corr.Buf Corr.Life.

Definition check_by_id (id : N) (s : sx) : bool :=
  match id with
  | 1%N | 6%N => DB.DBC.check_sx s
  (* C17: database programs, and call sequences over the life cycle of one handle *)
  | 17%N => if Life.LIFE.is_life s then Life.LIFE.check_sx s else DB.DBC.check_sx s
  | 3%N => SST.SSTC.check_sx 3 s
  | 7%N => DB.C07.check_sx s
  | 2%N | 10%N => Crash.CRC.check_sx s
  (* C13: crash sessions, and programs on the buffered writer in front of the log *)
  | 13%N => if Buf.BUF.is_buf s then Buf.BUF.check_sx s else Crash.CRC.check_sx s
  | 19%N => DB.C19.check_sx s
  | 8%N => SST.SSTC.check_sx 8 s
  | 9%N => SST.C09.check_sx s
  | 11%N => SST.SSTC.check_sx 11 s
  | 15%N => SST.SSTC.check_sx 15 s
  | 4%N => C04.C04.check_sx s
  | 12%N => C12.C12.check_sx s
  | 14%N => C14.C14.check_sx s
  | 16%N => C16.C16.check_sx s
  | 20%N => C20.C20.check_sx s
  | _ => false
  end.
