(* Correspondence for C04 (RecordIO round trip). *)
From GoSST Require Import Base.Bytes Base.Sx RecordIO.Format RecordIO.Writer RecordIO.SeqReader RecordIO.MmapReader.
Local Open Scope N_scope.

Module C04.
  (* compressor oracle table: (input, output of the real compressor) *)
  Definition ctab := list (bytes * bytes).
  Fixpoint tab_comp (t : ctab) (x : bytes) : bytes :=
    match t with [] => [] | (i, o) :: r => if bytes_eqb i x then o else tab_comp r x end.
  Fixpoint tab_decomp (t : ctab) (z : bytes) : res bytes :=
    match t with [] => Err Decompress | (i, o) :: r => if bytes_eqb o z then Ok i else tab_decomp r z end.
  Definition codec_of (ct : N) (t : ctab) : codec := mkCodec ct (tab_comp t) (tab_decomp t).

  Record case := mkCase {
    c_ct : N; c_tab : ctab; c_seeklen : N;
    c_prog : list wop;
    c_offs : list (N * bool);
    c_size : N; c_file : bytes;
    c_seq : list (res (option bytes));
    c_at : list (N * res (option bytes));
    c_rprog : list bool;
    c_mixed : list (res (option (option bytes)));
    c_seeks : list (N * N * res (option bytes))
  }.

  Definition dWop (s : sx) : option wop :=
    match s with
    | L [I 0%N; r] | L [I 1%N; r] => do r' <- dOB r; Some (WWrite r')
    | L [I 2%N; I off] => Some (WSeek off)
    | _ => None
    end.

  Definition dRecRes : sx -> option (res (option bytes)) := dRes dOB.
  (* mixed: Ok () = skip, Ok (x..)/(()) ... encoded as option of option bytes: skip = (), read = (ob) *)
  Definition dMixed (s : sx) : option (res (option (option bytes))) :=
    match s with
    | L [I 0%N; L []] => Some (Ok None)
    | L [I 0%N; L [a]] => match dOB a with Some x => Some (Ok (Some x)) | None => None end
    | L [I 1%N; e] => match dErr e with Some x => Some (Err x) | None => None end
    | _ => None
    end.

  Definition decode (s : sx) : option case :=
    match s with
    | L [ct; tab; sl; prog; offs; size; file; seq; at_; rprog; mixed; seeks] =>
        do ct' <- dN ct;
        do tab' <- dList (dPair dB dB) tab;
        do sl' <- dN sl;
        do prog' <- dList dWop prog;
        do offs' <- dList (dPair dN dBool) offs;
        do size' <- dN size;
        do file' <- dB file;
        do seq' <- dList dRecRes seq;
        do at' <- dList (dPair dN dRecRes) at_;
        do rprog' <- dList dBool rprog;
        do mixed' <- dList dMixed mixed;
        do seeks' <- dList (dTriple dN dN dRecRes) seeks;
        Some (mkCase ct' tab' sl' prog' offs' size' file' seq' at' rprog' mixed' seeks')
    | _ => None
    end.

  Definition res_eqb {A} (eqb : A -> A -> bool) (a b : res A) : bool :=
    match a, b with
    | Ok x, Ok y => eqb x y
    | Err x, Err y => err_eqb x y
    | _, _ => false
    end.

  (* errors.Is-level comparison: the harness reports wrapped and bare EOF alike as EOF except for ReadNextAt *)
  Definition norm_err (e : err) : err := match e with WrappedEOF => EOF | x => x end.
  Definition res_norm {A} (r : res A) : res A := match r with Err e => Err (norm_err e) | x => x end.

  Definition check (c : case) : bool :=
    let cd := codec_of (c_ct c) (c_tab c) in
    let '(s, outs) := w_run cd (c_prog c) (w_open cd) in
    let f := w_close s in
    list_eqb (fun a b => N.eqb (fst a) (fst b) && Bool.eqb (snd a) (snd b)) outs (c_offs c)
    && N.eqb (w_size s) (c_size c)
    && bytes_eqb f (c_file c)
    && list_eqb (res_eqb obytes_eqb) (map res_norm (read_all (S (length (c_prog c)) + 2) cd f 8)) (c_seq c)
    && forallb (fun p => res_eqb obytes_eqb (read_at cd f (fst p)) (snd p)) (c_at c)
    && list_eqb (res_eqb (opt_eqb obytes_eqb)) (map res_norm (read_mixed cd f 8 (c_rprog c))) (c_mixed c)
    && forallb (fun t => match t with (from, off, r) =>
          match seek_next cd (c_seeklen c) f from, r with
          | Ok (o, rec), Ok rec' => N.eqb o off && obytes_eqb rec rec'
          | Err e, Err e' => err_eqb (norm_err e) e'
          | _, _ => false
          end end) (c_seeks c).

  Definition explain (c : case) :=
    let cd := codec_of (c_ct c) (c_tab c) in
    let '(s, outs) := w_run cd (c_prog c) (w_open cd) in
    let f := w_close s in
    (list_eqb (fun a b => N.eqb (fst a) (fst b) && Bool.eqb (snd a) (snd b)) outs (c_offs c),
     N.eqb (w_size s) (c_size c), bytes_eqb f (c_file c),
     list_eqb (res_eqb obytes_eqb) (map res_norm (read_all (S (length (c_prog c)) + 2) cd f 8)) (c_seq c),
     map (fun p => res_eqb obytes_eqb (read_at cd f (fst p)) (snd p)) (c_at c),
     list_eqb (res_eqb (opt_eqb obytes_eqb)) (map res_norm (read_mixed cd f 8 (c_rprog c))) (c_mixed c),
     map (fun t => match t with (from, off, r) =>
          match seek_next cd (c_seeklen c) f from, r with
          | Ok (o, rec), Ok rec' => N.eqb o off && obytes_eqb rec rec'
          | Err e, Err e' => err_eqb (norm_err e) e'
          | _, _ => false
          end end) (c_seeks c)).

  Definition check_sx (s : sx) : bool :=
    match decode s with Some c => check c | None => false end.
End C04.
