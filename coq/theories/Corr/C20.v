(* Correspondence for C20 (Kaitai schema vs written files). *)
From GoSST Require Import Base.Bytes Base.Sx RecordIO.Format RecordIO.Writer RecordIO.Kaitai Corr.C04.
Local Open Scope N_scope.

Module C20.
  Import C04.
  Record case := mkCase {
    c_ct : N; c_tab : ctab; c_recs : list (option bytes); c_file : bytes;
    c_kerr : bool; c_version : N; c_kcomp : N; c_krecs : list (N * N * N * bytes)
  }.

  Definition dK (s : sx) : option (N * N * N * bytes) :=
    match s with
    | L [a; b; c; d] => do a' <- dN a; do b' <- dN b; do c' <- dN c; do d' <- dB d; Some (a', b', c', d')
    | _ => None
    end.

  Definition decode (s : sx) : option case :=
    match s with
    | L [ct; tab; recs; file; kerr; ver; kcomp; krecs] =>
        do ct' <- dN ct; do tab' <- dList (dPair dB dB) tab; do recs' <- dList dOB recs; do file' <- dB file;
        do kerr' <- dBool kerr; do ver' <- dN ver; do kcomp' <- dN kcomp; do krecs' <- dList dK krecs;
        Some (mkCase ct' tab' recs' file' kerr' ver' kcomp' krecs')
    | _ => None
    end.

  Definition k_eqb (a : ks_record) (b : N * N * N * bytes) : bool :=
    match b with (n, u, c, p) => N.eqb (k_nil a) n && N.eqb (k_usz a) u && N.eqb (k_csz a) c && bytes_eqb (k_payload a) p end.

  Fixpoint list_eqb2 {A B} (eqb : A -> B -> bool) (a : list A) (b : list B) : bool :=
    match a, b with
    | [], [] => true
    | x :: a', y :: b' => eqb x y && list_eqb2 eqb a' b'
    | _, _ => false
    end.

  Definition check (c : case) : bool :=
    let cd := codec_of (c_ct c) (c_tab c) in
    let '(s, _) := w_run cd (map WWrite (c_recs c)) (w_open cd) in
    bytes_eqb (w_close s) (c_file c)
    && match ks_parse (c_file c) with
       | None => c_kerr c
       | Some (v, ct, rs) =>
           negb (c_kerr c) && N.eqb v (c_version c) && N.eqb ct (c_kcomp c) && list_eqb2 k_eqb rs (c_krecs c)
       end.

  Definition check_sx (s : sx) : bool :=
    match decode s with Some c => check c | None => false end.
End C20.
