(* Correspondence for the buffered writer (recordio/bufio_vendor.go): a program of Write / Flush / Seek / Close calls
   on a writer made by NewWriterBuf over a recording file, and what each call handed to the file. *)
From GoSST Require Import Base.Bytes Base.Sx RecordIO.BufWriter.
Local Open Scope N_scope.

Module BUF.
  Definition dOp (s : sx) : option bop :=
    match s with
    | L [I 0; B p] => Some (BWrite p)
    | L [I 1] => Some BFlush
    | L [I 2; I off] => Some (BSeek off)
    | L [I 3] => Some BClose
    | _ => None
    end.
  Definition dEv (s : sx) : option bev :=
    match s with
    | L [I 0; B c] => Some (EWrite c)
    | L [I 1; I off] => Some (ESeek off)
    | L [I 2] => Some EClose
    | _ => None
    end.

  Record case := mkCase { c_cap : nat; c_ops : list bop; c_emits : list (list bev) }.

  Definition decode (s : sx) : option case :=
    match s with
    | L [I 77; cap; ops; emits] =>
        do cap' <- dNat cap; do ops' <- dList dOp ops; do em' <- dList (dList dEv) emits;
        Some (mkCase cap' ops' em')
    | _ => None
    end.

  Definition bev_eqb (a b : bev) : bool :=
    match a, b with
    | EWrite x, EWrite y => bytes_eqb x y
    | ESeek x, ESeek y => N.eqb x y
    | EClose, EClose => true
    | _, _ => false
    end.

  Definition check (c : case) : bool :=
    list_eqb (list_eqb bev_eqb) (fst (bw_run (c_cap c) [] (c_ops c))) (c_emits c).

  Definition is_buf (s : sx) : bool := match s with L (I 77 :: _) => true | _ => false end.
  Definition check_sx (s : sx) : bool := match decode s with Some c => check c | None => false end.
  Definition explain (s : sx) := match decode s with Some c => Some (fst (bw_run (c_cap c) [] (c_ops c))) | None => None end.
End BUF.
