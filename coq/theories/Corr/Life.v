(* Correspondence for the life cycle of a database handle (C17): a sequence of Open / Close / Put / Delete / Get calls on
   ONE handle over a fresh directory, and what each call answered. *)
From GoSST Require Import Base.Bytes Base.Sx Db.Logical Db.Handle.
Local Open Scope N_scope.

Module LIFE.
  Definition dCall (s : sx) : option hcall :=
    match s with
    | L [I 0] => Some HOpen
    | L [I 1] => Some HClose
    | L [I 2; k; v] => do k' <- dOB k; do v' <- dOB v; Some (HPut k' v')
    | L [I 3; k] => do k' <- dOB k; Some (HDelete k')
    | L [I 4; B k] => Some (HGet k)
    | _ => None
    end.
  Definition dOut (s : sx) : option hout :=
    match s with
    | L [I 0; I 0] => Some (HRefused ENotOpenedYet)
    | L [I 0; I 1] => Some (HRefused EAlreadyClosed)
    | L [I 0; I 2] => Some (HRefused EAlreadyOpen)
    | L [I 1; I 0; ok] => do ok' <- dBool ok; Some (HDone (OPut ok'))
    | L [I 1; I 1] => Some (HDone ODone)
    | L [I 1; I 2; v] => do v' <- dOB v; Some (HDone (OGet v'))
    | _ => None
    end.

  Definition herr_eqb (a b : herr) : bool :=
    match a, b with
    | ENotOpenedYet, ENotOpenedYet | EAlreadyClosed, EAlreadyClosed | EAlreadyOpen, EAlreadyOpen => true
    | _, _ => false
    end.
  Definition hout_eqb (a b : hout) : bool :=
    match a, b with
    | HRefused x, HRefused y => herr_eqb x y
    | HDone (OPut x), HDone (OPut y) => Bool.eqb x y
    | HDone ODone, HDone ODone => true
    | HDone (OGet x), HDone (OGet y) => obytes_eqb x y
    | _, _ => false
    end.

  Definition is_life (s : sx) : bool := match s with L (I 78 :: _) => true | _ => false end.

  Definition check_sx (s : sx) : bool :=
    match s with
    | L [I 78; calls; outs] =>
        match dList dCall calls, dList dOut outs with
        | Some cs, Some os => list_eqb hout_eqb (snd (h_run (handle_new db_empty) cs)) os
        | _, _ => false
        end
    | _ => false
    end.
End LIFE.
