(* Correspondence for C16: typed case decoded from the harness' s-expression, and the check
   comparing the model's answers with what the implementation returned. *)
From GoSST Require Import Base.Bytes Base.Sx Struct.SkipList Struct.Heap.

Module C16.
  Definition kv := (bytes * bytes)%type.
  Definition kv_eqb (a b : kv) : bool := bytes_eqb (fst a) (fst b) && bytes_eqb (snd a) (snd b).
  Definition kvs_eqb := list_eqb kv_eqb.

  Inductive case :=
  | SL (ins : list (bytes * bytes * nat)) (o_size : nat) (o_all : list kv)
       (gets : list (bytes * option bytes * bool))
       (froms : list (bytes * list kv))
       (betw : list (bytes * bytes * option (list kv)))
       (* second phase: insert (k, v); the map scanned from q before and after, Contains q and Size after *)
       (late : list (bytes * bytes * bytes * list kv * list kv * bool * nat))
  | PQ (inputs : list (list (res kv))) (out : list (bytes * bytes * N)) (status : N).

  Definition dKV := dPair dB dB.

  Definition dLate (s : sx) :=
    match s with
    | L [k; v; q; before; after; has; sz] =>
        do k' <- dB k; do v' <- dB v; do q' <- dB q; do b' <- dList dKV before; do a' <- dList dKV after;
        do h' <- dBool has; do s' <- dNat sz;
        Some (k', v', q', b', a', h', s')
    | _ => None
    end.

  Definition decode (s : sx) : option case :=
    match s with
    | L [I 0%N; ins; sz; all; gets; froms; betw] =>
        do ins' <- dList (dTriple dB dB dNat) ins;
        do sz' <- dNat sz;
        do all' <- dList dKV all;
        do gets' <- dList (dTriple dB dOB dBool) gets;
        do froms' <- dList (dPair dB (dList dKV)) froms;
        do betw' <- dList (dTriple dB dB (dOpt (dList dKV))) betw;
        Some (SL ins' sz' all' gets' froms' betw' [])
    | L [I 0%N; ins; sz; all; gets; froms; betw; late] =>
        do ins' <- dList (dTriple dB dB dNat) ins;
        do sz' <- dNat sz;
        do all' <- dList dKV all;
        do gets' <- dList (dTriple dB dOB dBool) gets;
        do froms' <- dList (dPair dB (dList dKV)) froms;
        do betw' <- dList (dTriple dB dB (dOpt (dList dKV))) betw;
        do late' <- dList dLate late;
        Some (SL ins' sz' all' gets' froms' betw' late')
    | L [I 1%N; inputs; out; st] =>
        do inputs' <- dList (dList (dRes dKV)) inputs;
        do out' <- dList (dTriple dB dB dN) out;
        do st' <- dN st;
        Some (PQ inputs' out' st')
    | _ => None
    end.

  Fixpoint number {A} (i : N) (l : list A) : list (N * A) :=
    match l with [] => [] | x :: r => (i, x) :: number (i + 1)%N r end.

  Definition triple_eqb (a b : bytes * bytes * N) : bool :=
    match a, b with (k1, v1, c1), (k2, v2, c2) => bytes_eqb k1 k2 && bytes_eqb v1 v2 && N.eqb c1 c2 end.

  (* drain the heap until Done (status 0) or an error (status 2); 3 = out of fuel *)
  Fixpoint pq_go (fuel : nat) (h : heap) (acc : list (bytes * bytes * N))
    : list (bytes * bytes * N) * N :=
    match fuel with
    | O => (rev acc, 3%N)
    | S f =>
        match next bcmp h with
        | Err _ => (rev acc, 2%N)
        | Ok (None, _) => (rev acc, 0%N)
        | Ok (Some x, h') => pq_go f h' (x :: acc)
        end
    end.

  (* lookups interleaved with further inserts *)
  Fixpoint late_ok (late : list (bytes * bytes * bytes * list kv * list kv * bool * nat)) (m : @sl bytes bytes) : bool :=
    match late with
    | [] => true
    | (k, v, q, before, after, has, sz) :: rest =>
        kvs_eqb (scan_from bcmp q m) before &&
        match insert bcmp k v 1 m with
        | None => false
        | Some m' =>
            kvs_eqb (scan_from bcmp q m') after && Bool.eqb (contains bcmp q m') has && Nat.eqb (size m') sz
            && late_ok rest m'
        end
    end.

  Definition check (c : case) : bool :=
    match c with
    | SL ins o_size o_all gets froms betw late =>
        match inserts bcmp ins [] with
        | None => false
        | Some m =>
            late_ok late m &&
            Nat.eqb (size m) o_size
            && kvs_eqb (scan_all bcmp m) o_all
            && forallb (fun g => match g with (k, ov, oc) =>
                  obytes_eqb (get bcmp k m) ov && Bool.eqb (contains bcmp k m) oc end) gets
            && forallb (fun f => kvs_eqb (scan_from bcmp (fst f) m) (snd f)) froms
            && forallb (fun b => match b with (lo, hi, o) =>
                  opt_eqb kvs_eqb (scan_between bcmp lo hi m) o end) betw
        end
    | PQ inputs out status =>
        let its := number 0%N inputs in
        match init bcmp its with
        | Err _ => N.eqb status 1 && match out with [] => true | _ => false end
        | Ok h =>
            let '(l, st) := pq_go (S (total_len its)) h [] in
            list_eqb triple_eqb l out && N.eqb st status
        end
    end.

  Definition check_sx (s : sx) : bool :=
    match decode s with Some c => check c | None => false end.
End C16.
