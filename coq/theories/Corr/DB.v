(* Correspondence for the database level: C01 / C06 / C17 programs against Db/Logical.v. *)
From GoSST Require Import Base.Bytes Base.Sx Db.Logical.
Local Open Scope N_scope.

Module DBC.
  (* observed table list entry: generation, records, nil values *)
  Definition tinfo := (N * N * N)%type.

  Inductive obs :=
  | BPut (ok : bool) | BDel (ok : bool) | BGet (v : option bytes)
  | BRotate (ts : list tinfo) | BCompact (sel : list N) (ts : list tinfo) | BReopen (ts : list tinfo).

  Record case := mkCase {
    c_steps : list (dstep * obs);
    c_sweeps : list (list (bytes * option bytes));   (* Get of every key after each structural step and at the end *)
    c_flood : list (list bool * list bool);
    c_pre : bool                                      (* an extra sweep immediately before every compaction cycle *)
  }.

  Definition dCfg (s : sx) : option cfg :=
    match s with L [I t; I m; I r] => Some (mkCfg t m r) | _ => None end.
  Definition dTinfo : sx -> option tinfo := dTriple dN dN dN.

  Definition dStep (s : sx) : option (dstep * obs) :=
    match s with
    | L [I 0; k; v; ok] => do k' <- dOB k; do v' <- dOB v; do ok' <- dBool ok; Some (SPut k' v', BPut ok')
    | L [I 1; k; ok] => do k' <- dOB k; do ok' <- dBool ok; Some (SDelete k', BDel ok')
    | L [I 2; k; v] => do k' <- dB k; do v' <- dOB v; Some (SGet k', BGet v')
    | L [I 3; ts] => do ts' <- dList dTinfo ts; Some (SRotate, BRotate ts')
    | L [I 4; c; sizes; sel; ts] =>
        do c' <- dCfg c; do sizes' <- dList dN sizes; do sel' <- dList dN sel; do ts' <- dList dTinfo ts;
        Some (SCompact c' sizes', BCompact sel' ts')
    | L [I 5; ts] => do ts' <- dList dTinfo ts; Some (SReopen, BReopen ts')
    | _ => None
    end.

  Definition decode (s : sx) : option case :=
    match s with
    | L [steps; sweeps; flood; pre] =>
        do steps' <- dList dStep steps;
        do sweeps' <- dList (dList (dPair dB dOB)) sweeps;
        do flood' <- dList (dPair (dList dBool) (dList dBool)) flood;
        do pre' <- dBool pre;
        Some (mkCase steps' sweeps' flood' pre')
    | _ => None
    end.

  Definition tinfo_of (t : N * ltable) : tinfo := (fst t, N.of_nat (length (snd t)), count_nil (snd t)).
  Definition tinfo_eqb (a b : tinfo) : bool :=
    match a, b with (g, n, z), (g', n', z') => N.eqb g g' && N.eqb n n' && N.eqb z z' end.
  Definition tables_ok (s : db) (ts : list tinfo) : bool := list_eqb tinfo_eqb (map tinfo_of (d_tables s)) ts.

  Definition sweep_ok (s : db) (sw : list (bytes * option bytes)) : bool :=
    forallb (fun p => obytes_eqb (db_get s (fst p)) (snd p)) sw.

  (* run, checking every observation; sweeps are consumed after each structural step *)
  Fixpoint go (pre : bool) (s : db) (steps : list (dstep * obs)) (sweeps : list (list (bytes * option bytes))) : bool :=
    match steps with
    | [] => match sweeps with [sw] => sweep_ok s sw | [] => true | _ => false end
    | (st, ob) :: rest =>
        let is_compact := match st with SCompact _ _ => true | _ => false end in
        let pre_ok := if pre && is_compact then match sweeps with sw :: _ => sweep_ok s sw | [] => false end else true in
        let sweeps := if pre && is_compact then tl sweeps else sweeps in
        pre_ok &&
        let '(s', o) := db_step s st in
        let structural := match st with SRotate | SCompact _ _ | SReopen => true | _ => false end in
        let ok :=
          match o, ob with
          | OPut a, BPut b => Bool.eqb a b
          | ODone, BDel b => b
          | OGet a, BGet b => obytes_eqb a b
          | ODone, BRotate ts => tables_ok s' ts
          | OCompact sel, BCompact sel' ts => list_eqb N.eqb sel sel' && tables_ok s' ts
          | ODone, BReopen ts => tables_ok s' ts
          | _, _ => false
          end in
        if structural then
          match sweeps with
          | sw :: more => ok && sweep_ok s' sw && go pre s' rest more
          | [] => false
          end
        else ok && go pre s' rest sweeps
    end.

  Definition check (c : case) : bool :=
    go (c_pre c) db_empty (c_steps c) (c_sweeps c)
    && forallb (fun p => list_eqb Bool.eqb (flood_fill (fst p)) (snd p)) (c_flood c).

  Definition check_sx (s : sx) : bool :=
    match decode s with Some c => check c | None => false end.
End DBC.

(* ---------------- C07: WAL programs (uncompressed logs): files with sizes, replay output *)
From GoSST Require Import RecordIO.Format RecordIO.Writer RecordIO.BufWriter Wal.Wal Wal.LogProgram Corr.C04.
Module C07.
  (* [c_sys]: for sessions traced at system-call level - the write buffer size, one flag per append (synchronous or
     not), and per log file (by number) the lengths of the write system calls that went to it, in order *)
  Record case := mkCase { c_max : N; c_ops : list wop; c_files : list (N * N); c_recs : list bytes;
                          c_sys : option (nat * list bool * list (N * list N)) }.

  Definition dOp (s : sx) : option wop :=
    match s with
    | L [I 0; B r] => Some (WAppend r)
    | L [I 1] => Some WRotate
    | _ => None
    end.

  Definition decode (s : sx) : option case :=
    match s with
    | L [I m; ops; files; recs] =>
        do ops' <- dList dOp ops; do files' <- dList (dPair dN dN) files; do recs' <- dList dB recs;
        Some (mkCase m ops' files' recs' None)
    | L [I m; ops; files; recs; L [cap; syncs; writes]] =>
        do ops' <- dList dOp ops; do files' <- dList (dPair dN dN) files; do recs' <- dList dB recs;
        do cap' <- dNat cap; do syncs' <- dList dBool syncs; do writes' <- dList (dPair dN (dList dN)) writes;
        Some (mkCase m ops' files' recs' (Some (cap', syncs', writes')))
    | _ => None
    end.

  Definition idc : codec := C04.codec_of 0 [].

  (* what the buffered writer hands to the file for one log file that is closed in the end *)
  Definition chunk_lens (cap : nat) (g : list (bool * bytes)) : list N :=
    flat_map (fun e => match e with EWrite ch => [lenN ch] | _ => [] end)
             (concat (fst (bw_run cap [] (log_ops idc g ++ [BClose])))).

  Definition sys_ok (c : case) : bool :=
    match c_sys c with
    | None => true
    | Some (cap, syncs, writes) =>
        let gs := log_groups idc (c_max c) (c_ops c) syncs 8 [] [] in
        list_eqb (fun x y => N.eqb (fst x) (fst y) && list_eqb N.eqb (snd x) (snd y))
                 (combine (map N.of_nat (seq 0 (length gs))) (map (chunk_lens cap) gs)) writes
    end.

  Definition check (c : case) : bool :=
    let a := fold_left (app_step idc (c_max c)) (c_ops c) (app_new idc) in
    let files := app_files a in
    negb (a_failed a)
    && list_eqb (fun x y => N.eqb (fst x) (fst y) && N.eqb (snd x) (snd y)) (map (fun f => (fst f, lenN (snd f))) files) (c_files c)
    && match replay idc files with
       | (rs, None) => list_eqb bytes_eqb rs (c_recs c)
       | (_, Some _) => false
       end
    && sys_ok c.

  Definition explain (c : case) :=
    match c_sys c with
    | Some (cap, syncs, writes) => map (chunk_lens cap) (log_groups idc (c_max c) (c_ops c) syncs 8 [] [])
    | None => []
    end.

  Definition check_sx (s : sx) : bool :=
    match decode s with Some c => check c | None => false end.
End C07.

(* ---------------- C19: resource ledger against /proc measurements after every step *)
From GoSST Require Import Db.Ledger.
Module C19.
  Definition robs := (N * N * N)%type.    (* mappings, descriptors, goroutines *)
  Inductive case :=
  | DbCase (compactor : bool) (steps : list (dstep * DBC.obs)) (after : list robs) (closed : robs)
  | RdCase (ops : list rop) (after : list (N * N)) (closed : N * N).

  Definition dRobs : sx -> option robs := dTriple dN dN dN.
  Definition dRop (s : sx) : option rop :=
    match s with
    | I 0 => Some ScanFull | I 1 => Some ScanAbandoned | I 2 => Some ScanRange
    | I 3 => Some OpenMmap | I 4 => Some OpenSeq | I 5 => Some OpenWriter
    | _ => None
    end.

  Definition decode (s : sx) : option case :=
    match s with
    | L [I 0; comp; steps; after; closed] =>
        do comp' <- dBool comp; do steps' <- dList DBC.dStep steps; do after' <- dList dRobs after; do closed' <- dRobs closed;
        Some (DbCase comp' steps' after' closed')
    | L [I 1; ops; after; closed] =>
        do ops' <- dList dRop ops; do after' <- dList (dPair dN dN) after; do closed' <- dPair dN dN closed;
        Some (RdCase ops' after' closed')
    | _ => None
    end.

  Definition robs_of (l : option ledger) : option robs :=
    match l with Some l => Some (count is_map l, count is_fd l, count is_gor l) | None => None end.
  Definition robs_eqb (a : option robs) (b : robs) : bool :=
    match a, b with
    | Some (m, f, g), (m', f', g') => (m =? m') && (f =? f') && (g =? g')
    | None, _ => false
    end.

  Definition tables_match (s : db) (ob : DBC.obs) : bool :=
    match ob with
    | DBC.BRotate ts | DBC.BCompact _ ts | DBC.BReopen ts => DBC.tables_ok s ts
    | _ => true
    end.

  Fixpoint go (run : list (db * option ledger)) (obs : list DBC.obs) (after : list robs) : bool :=
    match run, obs, after with
    | [], [], [] => true
    | (s, l) :: r, ob :: obs', a :: after' => tables_match s ob && robs_eqb (robs_of l) a && go r obs' after'
    | _, _, _ => false
    end.

  Fixpoint rgo (s : rstate) (ops : list rop) (after : list (N * N)) : bool :=
    match ops, after with
    | [], [] => true
    | o :: ops', (f, m) :: after' =>
        let s' := r_step s o in (r_fds s' =? f) && (r_maps s' =? m) && rgo s' ops' after'
    | _, _ => false
    end.

  Definition check (c : case) : bool :=
    match c with
    | DbCase comp steps after closed =>
        let prog := map fst steps in
        go (lrun comp db_empty (apply_evs (Some []) (open_events comp db_empty)) prog) (map snd steps) after
        && robs_eqb (robs_of (session_end comp prog)) closed
    | RdCase ops after closed =>
        rgo r_open ops after
        && let e := r_close_reader (r_close_handles (fold_left r_step ops r_open)) in
           (r_fds e =? fst closed) && (r_maps e =? snd closed)
    end.

  Definition check_sx (s : sx) : bool :=
    match decode s with Some c => check c | None => false end.
End C19.
