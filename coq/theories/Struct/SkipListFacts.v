(* Theorems about the skip-list model (Struct/SkipList.v): for every insertion order, every tower
   height assignment and every comparator satisfying cmp_laws, the model behaves as a sorted map. *)
From GoSST Require Import Base.Bytes Base.Order Struct.SkipList.
From Coq Require Import Lia Sorting.Sorted Sorting.Permutation.

Section Facts.
  Context {K V : Type}.
  Variable cmp : K -> K -> comparison.
  Hypothesis L : cmp_laws cmp.

  Definition sorted (m : @sl K V) : Prop :=
    StronglySorted (fun a b => cmp (tkey a) (tkey b) = Lt) m.
  Definition heights_ok (m : @sl K V) : Prop := Forall (fun t => 1 <= th t)%nat m.

  (* specification-side functions *)
  Fixpoint drop_lt (key : K) (m : @sl K V) : @sl K V :=
    match m with
    | [] => []
    | t :: r => match cmp (tkey t) key with Lt => drop_lt key r | _ => m end
    end.

  Fixpoint assoc (key : K) (l : list (K * V)) : option V :=
    match l with
    | [] => None
    | (k, v) :: r => match cmp key k with Eq => Some v | _ => assoc key r end
    end.

  Definition ge_key (key : K) (kv : K * V) : bool :=
    match cmp (fst kv) key with Lt => false | _ => true end.
  Definition le_key (key : K) (kv : K * V) : bool :=
    match cmp (fst kv) key with Gt => false | _ => true end.

  Notation ltk key := (fun t : @tower K V => cmp (tkey t) key = Lt).
  Notation R := (fun a b : @tower K V => cmp (tkey a) (tkey b) = Lt).

  (* ---------- generic list helpers ---------- *)
  Lemma ssorted_app {A} (P : A -> A -> Prop) (l1 l2 : list A) :
    StronglySorted P (l1 ++ l2) <->
    StronglySorted P l1 /\ StronglySorted P l2 /\ Forall (fun a => Forall (P a) l2) l1.
  Proof.
    induction l1 as [|a l1 IH]; simpl.
    - split.
      + intros H. repeat split; [constructor | exact H | constructor].
      + intros [_ [H _]]. exact H.
    - split.
      + intros H. inversion H as [|a' l' Hs Hf]; subst.
        apply IH in Hs. destruct Hs as [H1 [H2 H3]].
        apply Forall_app in Hf. destruct Hf as [Hf1 Hf2].
        repeat split; [constructor; assumption | assumption | constructor; assumption].
      + intros [H1 [H2 H3]].
        inversion H1 as [|a' l' Hs Hf]; subst.
        inversion H3 as [|a'' l'' Ha Hr]; subst.
        constructor.
        * apply IH. repeat split; assumption.
        * apply Forall_app. split; assumption.
  Qed.

  Lemma filter_andb {A} (f g : A -> bool) (l : list A) :
    filter (fun x => f x && g x) l = filter g (filter f l).
  Proof.
    induction l as [|a l IH]; simpl; [reflexivity|].
    destruct (f a); simpl; [destruct (g a); rewrite IH; reflexivity | exact IH].
  Qed.

  Lemma filter_all_true {A} (f : A -> bool) (l : list A) :
    Forall (fun x => f x = true) l -> filter f l = l.
  Proof.
    induction 1 as [|a l Ha _ IH]; simpl; [reflexivity|]. rewrite Ha, IH. reflexivity.
  Qed.

  Lemma filter_all_false {A} (f : A -> bool) (l : list A) :
    Forall (fun x => f x = false) l -> filter f l = [].
  Proof.
    induction 1 as [|a l Ha _ IH]; simpl; [reflexivity|]. rewrite Ha, IH. reflexivity.
  Qed.

  (* ---------- sortedness helpers ---------- *)
  Lemma sorted_inv (t : @tower K V) (r : @sl K V) :
    sorted (t :: r) -> sorted r /\ Forall (fun x => cmp (tkey t) (tkey x) = Lt) r.
  Proof. intros H. inversion H; subst. split; assumption. Qed.

  Lemma heights_inv (t : @tower K V) (r : @sl K V) : heights_ok (t :: r) -> (1 <= th t)%nat /\ heights_ok r.
  Proof. intros H. inversion H; subst. split; assumption. Qed.

  Lemma sorted_suffix (pre s : @sl K V) : sorted (pre ++ s) -> sorted s.
  Proof. intros H. apply ssorted_app in H. tauto. Qed.

  Lemma heights_suffix (pre s : @sl K V) : heights_ok (pre ++ s) -> heights_ok s.
  Proof. intros H. apply Forall_app in H. tauto. Qed.

  (* all towers after a tower >= key are > key *)
  Lemma tail_gt key (t : @tower K V) (r : @sl K V) :
    cmp (tkey t) key <> Lt -> Forall (fun x => cmp (tkey t) (tkey x) = Lt) r ->
    Forall (fun x => cmp key (tkey x) = Lt) r.
  Proof.
    intros Ht Hr. eapply Forall_impl; [|exact Hr]. intros x Hx. simpl in Hx.
    apply (cmp_le_lt_trans cmp L key (tkey t) (tkey x)); [|exact Hx].
    intros Hg. apply (cmp_gt_lt cmp L) in Hg. contradiction.
  Qed.

  (* ---------- drop_lt ---------- *)
  Lemma drop_lt_app key (pre s : @sl K V) :
    Forall (ltk key) pre -> drop_lt key (pre ++ s) = drop_lt key s.
  Proof.
    induction 1 as [|t pre Ht _ IH]; simpl; [reflexivity|]. rewrite Ht. exact IH.
  Qed.

  Lemma drop_lt_split key (m : @sl K V) :
    exists pre, m = pre ++ drop_lt key m /\ Forall (ltk key) pre.
  Proof.
    induction m as [|t r IH]; simpl.
    - exists []. split; [reflexivity | constructor].
    - destruct IH as [pre [Hm Hp]].
      destruct (cmp (tkey t) key) eqn:E.
      + exists []. split; [reflexivity | constructor].
      + exists (t :: pre). split; [simpl; f_equal; exact Hm | constructor; assumption].
      + exists []. split; [reflexivity | constructor].
  Qed.

  Lemma drop_lt_head key (m : @sl K V) t r :
    drop_lt key m = t :: r -> cmp (tkey t) key <> Lt.
  Proof.
    induction m as [|a m IH]; simpl; [discriminate|].
    destruct (cmp (tkey a) key) eqn:E.
    - intros H. inversion H; subst. congruence.
    - exact IH.
    - intros H. inversion H; subst. congruence.
  Qed.

  Lemma drop_lt_sorted key m : sorted m -> sorted (drop_lt key m).
  Proof.
    intros Hs. destruct (drop_lt_split key m) as [pre [Hm _]].
    rewrite Hm in Hs. eapply sorted_suffix; exact Hs.
  Qed.

  Lemma drop_lt_length key (m : @sl K V) : (length (drop_lt key m) <= length m)%nat.
  Proof.
    destruct (drop_lt_split key m) as [pre [Hm _]].
    rewrite Hm at 2. rewrite app_length. lia.
  Qed.

  (* ---------- the descent ---------- *)
  Lemma adv_spec l key (s s' : @sl K V) :
    sorted s -> adv cmp l key s = Some s' ->
    exists p pre, s = (p :: pre) ++ s' /\ Forall (ltk key) (p :: pre).
  Proof.
    revert s'. induction s as [|t r IH]; intros s' Hs; simpl; [discriminate|].
    apply sorted_inv in Hs. destruct Hs as [Hr Ht].
    destruct (Nat.ltb l (th t)).
    - destruct (cmp key (tkey t)) eqn:E; try discriminate.
      apply (cmp_gt_lt cmp L) in E.
      destruct (adv cmp l key r) as [s2|] eqn:E2; intros H; inversion H; subst.
      + destruct (IH s' Hr eq_refl) as [p [pre [Hr' Hp]]].
        exists t, (p :: pre). split; [simpl; f_equal; exact Hr' | constructor; assumption].
      + exists t, []. split; [reflexivity | constructor; [exact E | constructor]].
    - intros H. destruct (IH s' Hr H) as [p [pre [Hr' Hp]]].
      exists t, (p :: pre). split; [simpl; f_equal; exact Hr'|].
      constructor; [|exact Hp].
      pose proof (Forall_inv Hp) as Hpk. simpl in Hpk.
      apply (cl_trans _ L _ (tkey p)); [|exact Hpk].
      rewrite Hr' in Ht. simpl in Ht. exact (Forall_inv Ht).
  Qed.

  Lemma advance_spec l key (s : @sl K V) :
    sorted s -> exists pre, s = pre ++ advance cmp l key s /\ Forall (ltk key) pre.
  Proof.
    intros Hs. unfold advance. destruct (adv cmp l key s) as [s'|] eqn:E.
    - destruct (adv_spec l key s s' Hs E) as [p [pre [H1 H2]]].
      exists (p :: pre). split; assumption.
    - exists []. split; [reflexivity | constructor].
  Qed.

  Lemma advance0 key (s : @sl K V) : heights_ok s -> advance cmp 0 key s = drop_lt key s.
  Proof.
    unfold advance. induction s as [|t r IH]; intros Hh; simpl; [reflexivity|].
    apply heights_inv in Hh. destruct Hh as [Ht Hr].
    assert (Hlt : Nat.ltb 0 (th t) = true) by (apply Nat.ltb_lt; lia).
    rewrite Hlt. rewrite (cl_antisym _ L (tkey t) key).
    destruct (cmp (tkey t) key) eqn:E; simpl; try reflexivity.
    rewrite <- (IH Hr). reflexivity.
  Qed.

  Lemma descend_spec lvl key (s : @sl K V) :
    sorted s -> heights_ok s -> descend cmp lvl key s = drop_lt key s.
  Proof.
    revert s. induction lvl as [|l IH]; intros s Hs Hh; simpl.
    - apply advance0. exact Hh.
    - destruct (advance_spec (S l) key s Hs) as [pre [Hm Hp]].
      rewrite IH.
      + rewrite Hm at 2. rewrite drop_lt_app by exact Hp. reflexivity.
      + rewrite Hm in Hs. eapply sorted_suffix; exact Hs.
      + rewrite Hm in Hh. eapply heights_suffix; exact Hh.
  Qed.

  (* findGreaterOrEqual returns the first node whose key is >= the target, whatever the heights *)
  Lemma find_ge_spec key m : sorted m -> heights_ok m -> find_ge cmp key m = drop_lt key m.
  Proof. intros Hs Hh. unfold find_ge. apply descend_spec; assumption. Qed.

  (* ---------- assoc ---------- *)
  Lemma assoc_none_iff key (l : list (K * V)) : assoc key l = None <-> ~ In key (map fst l).
  Proof.
    induction l as [|[k v] l IH]; simpl.
    - split; [intros _ H; exact H | reflexivity].
    - destruct (cmp key k) eqn:E.
      + split; [discriminate|]. intros H. exfalso. apply H. left.
        symmetry. apply (cl_eq _ L). exact E.
      + rewrite IH. split; [|tauto]. intros H [H1|H1]; [|tauto].
        subst. rewrite (cl_refl _ L) in E. discriminate.
      + rewrite IH. split; [|tauto]. intros H [H1|H1]; [|tauto].
        subst. rewrite (cl_refl _ L) in E. discriminate.
  Qed.

  Lemma assoc_all_gt key (r : @sl K V) :
    Forall (fun x => cmp key (tkey x) = Lt) r -> assoc key (kvs r) = None.
  Proof.
    induction 1 as [|t r Ht _ IH]; simpl; [reflexivity|]. rewrite Ht. exact IH.
  Qed.

  Lemma assoc_drop_lt key m : sorted m ->
    assoc key (kvs m) =
    match drop_lt key m with
    | t :: _ => match cmp key (tkey t) with Eq => Some (tval t) | _ => None end
    | [] => None
    end.
  Proof.
    induction m as [|t r IH]; intros Hs; simpl; [reflexivity|].
    apply sorted_inv in Hs. destruct Hs as [Hr Ht].
    pose proof (cl_antisym _ L (tkey t) key) as Hanti.
    destruct (cmp (tkey t) key) eqn:E; simpl in Hanti; simpl; rewrite ?Hanti.
    - reflexivity.
    - apply IH. exact Hr.
    - apply assoc_all_gt. apply (tail_gt key t r); [congruence | exact Ht].
  Qed.

  Lemma get_spec key m : sorted m -> heights_ok m -> get cmp key m = assoc key (kvs m).
  Proof.
    intros Hs Hh. unfold get. rewrite find_ge_spec by assumption.
    rewrite assoc_drop_lt by assumption. reflexivity.
  Qed.

  Lemma contains_spec key m : sorted m -> heights_ok m ->
    contains cmp key m = match assoc key (kvs m) with Some _ => true | None => false end.
  Proof. intros Hs Hh. unfold contains. rewrite get_spec by assumption. reflexivity. Qed.

  (* ---------- insert ---------- *)
  Lemma firstn_prefix (pre s : @sl K V) :
    firstn (length (pre ++ s) - length s) (pre ++ s) = pre.
  Proof.
    rewrite app_length.
    replace (length pre + length s - length s)%nat with (length pre + 0)%nat by lia.
    rewrite firstn_app_2. simpl. apply app_nil_r.
  Qed.

  (* if key is absent, everything from drop_lt on is strictly greater *)
  Lemma drop_lt_all_gt key m : sorted m -> assoc key (kvs m) = None ->
    Forall (fun x => cmp key (tkey x) = Lt) (drop_lt key m).
  Proof.
    intros Hs Ha. rewrite assoc_drop_lt in Ha by exact Hs.
    pose proof (drop_lt_sorted key m Hs) as Hds.
    destruct (drop_lt key m) as [|t r] eqn:E; [constructor|].
    pose proof (drop_lt_head key m t r E) as Hh.
    apply sorted_inv in Hds. destruct Hds as [_ Ht].
    constructor; [|apply (tail_gt key t r); assumption].
    rewrite (cl_antisym _ L (tkey t) key).
    destruct (cmp (tkey t) key) eqn:E2; simpl; try reflexivity; try congruence.
    rewrite (cl_antisym _ L (tkey t) key), E2 in Ha. simpl in Ha. discriminate.
  Qed.

  Lemma insert_spec key v h m :
    sorted m -> heights_ok m -> (1 <= h)%nat -> assoc key (kvs m) = None ->
    exists m', insert cmp key v h m = Some m' /\ sorted m' /\ heights_ok m'
               /\ Permutation (kvs m') ((key, v) :: kvs m).
  Proof.
    intros Hs Hh Hh1 Ha. unfold insert. rewrite find_ge_spec by assumption.
    pose proof (drop_lt_all_gt key m Hs Ha) as Hgt.
    destruct (drop_lt_split key m) as [pre [Hm Hp]].
    set (s := drop_lt key m) in *.
    assert (Hdup : match s with
                   | t :: _ => match cmp key (tkey t) with Eq => true | _ => false end
                   | [] => false end = false).
    { destruct s as [|t r]; [reflexivity|]. inversion Hgt as [|t' r' Ht _]; subst.
      rewrite Ht. reflexivity. }
    rewrite Hdup. eexists. split; [reflexivity|].
    assert (Hf : firstn (length m - length s) m = pre).
    { rewrite Hm at 1 2. apply firstn_prefix. }
    rewrite Hf. rewrite Hm in Hs, Hh. rewrite Hm.
    apply ssorted_app in Hs. destruct Hs as [Hs1 [Hs2 Hs3]].
    apply Forall_app in Hh. destruct Hh as [Hh2 Hh3].
    repeat split.
    - apply ssorted_app. repeat split.
      + exact Hs1.
      + constructor; [exact Hs2|]. exact Hgt.
      + apply Forall_forall. intros a Ha'.
        rewrite Forall_forall in Hs3, Hp.
        constructor; [apply Hp; exact Ha' | apply Hs3; exact Ha'].
    - apply Forall_app. split; [exact Hh2|]. constructor; [exact Hh1 | exact Hh3].
    - unfold kvs. rewrite !map_app. simpl. symmetry. apply Permutation_middle.
  Qed.

  Lemma insert_dup key v h m :
    sorted m -> heights_ok m -> assoc key (kvs m) <> None -> insert cmp key v h m = None.
  Proof.
    intros Hs Hh Ha. unfold insert. rewrite find_ge_spec by assumption.
    rewrite assoc_drop_lt in Ha by exact Hs.
    destruct (drop_lt key m) as [|t r]; [congruence|].
    destruct (cmp key (tkey t)); congruence.
  Qed.

  Definition keys_distinct (l : list (K * V * nat)) : Prop := NoDup (map (fun x => fst (fst x)) l).

  Lemma inserts_gen (l : list (K * V * nat)) : forall m,
    keys_distinct l -> Forall (fun x => 1 <= snd x)%nat l ->
    sorted m -> heights_ok m ->
    (forall x, In x l -> ~ In (fst (fst x)) (map fst (kvs m))) ->
    exists m', inserts cmp l m = Some m' /\ sorted m' /\ heights_ok m'
               /\ Permutation (kvs m') (map fst l ++ kvs m).
  Proof.
    induction l as [|[[k v] h] r IH]; intros m Hd Hh Hs Hho Hfresh; simpl.
    - exists m. repeat split; try assumption. apply Permutation_refl.
    - unfold keys_distinct in Hd. simpl in Hd. inversion Hd as [|k' r' Hnk Hdr]; subst.
      inversion Hh as [|x' r' Hh1 Hhr]; subst. simpl in Hh1.
      assert (Ha : assoc k (kvs m) = None).
      { apply assoc_none_iff. apply (Hfresh (k, v, h)). left. reflexivity. }
      destruct (insert_spec k v h m Hs Hho Hh1 Ha) as [m1 [Hi [Hs1 [Hh1' Hp1]]]].
      rewrite Hi.
      destruct (IH m1 Hdr Hhr Hs1 Hh1') as [m' [Hi' [Hs' [Hh' Hp']]]].
      + intros x Hx Hin.
        apply (Permutation_in _ (Permutation_map fst Hp1)) in Hin. simpl in Hin.
        destruct Hin as [Hin|Hin].
        * apply Hnk. rewrite Hin. apply (in_map (fun y => fst (fst y))). exact Hx.
        * apply (Hfresh x); [right; exact Hx | exact Hin].
      + exists m'. repeat split; try assumption.
        eapply Permutation_trans; [exact Hp'|].
        eapply Permutation_trans; [apply Permutation_app_head; exact Hp1|].
        symmetry. apply (Permutation_middle (map fst r) (kvs m) (k, v)).
  Qed.

  Theorem inserts_spec (l : list (K * V * nat)) :
    keys_distinct l -> Forall (fun x => 1 <= snd x)%nat l ->
    exists m, inserts cmp l [] = Some m /\ sorted m /\ heights_ok m
              /\ size m = length l /\ Permutation (kvs m) (map fst l).
  Proof.
    intros Hd Hh.
    destruct (inserts_gen l [] Hd Hh) as [m [Hi [Hs [Hho Hp]]]].
    - constructor.
    - constructor.
    - intros x _ Hin. exact Hin.
    - rewrite app_nil_r in Hp. exists m. repeat split; try assumption.
      apply Permutation_length in Hp. unfold kvs in Hp. rewrite !map_length in Hp. exact Hp.
  Qed.

  (* ---------- iterators ---------- *)
  Lemma drain_unbounded fuel (s : @sl K V) :
    (length s < fuel)%nat -> drain cmp fuel (mkIter s None false) = kvs s.
  Proof.
    revert fuel. induction s as [|t r IH]; intros fuel Hf; (destruct fuel as [|f]; [simpl in Hf; lia|]).
    - reflexivity.
    - simpl. f_equal. apply IH. simpl in Hf. lia.
  Qed.

  Lemma drain_done fuel (s : @sl K V) hi : drain cmp fuel (mkIter s hi true) = [].
  Proof. destruct fuel as [|f]; [reflexivity|]. destruct s as [|t r]; reflexivity. Qed.

  Lemma drain_bounded hi fuel (s : @sl K V) :
    sorted s -> (length s < fuel)%nat ->
    drain cmp fuel (mkIter s (Some hi) false) = filter (le_key hi) (kvs s).
  Proof.
    revert fuel. induction s as [|t r IH]; intros fuel Hs Hf; (destruct fuel as [|f]; [simpl in Hf; lia|]).
    - reflexivity.
    - apply sorted_inv in Hs. destruct Hs as [Hr Ht].
      assert (Hgt : cmp (tkey t) hi <> Lt -> filter (le_key hi) (kvs r) = []).
      { intros Hn. apply filter_all_false. unfold kvs. apply Forall_map.
        eapply Forall_impl; [|exact (tail_gt hi t r Hn Ht)].
        intros x Hx. unfold le_key. simpl.
        apply (cmp_gt_lt cmp L) in Hx. rewrite Hx. reflexivity. }
      simpl. unfold iter_next. simpl. unfold le_key at 1. simpl.
      destruct (cmp (tkey t) hi) eqn:E.
      + rewrite drain_done. rewrite Hgt by congruence. reflexivity.
      + f_equal. apply IH; [exact Hr | simpl in Hf; lia].
      + symmetry. apply Hgt. congruence.
  Qed.

  Lemma scan_all_spec (m : @sl K V) : scan_all cmp m = kvs m.
  Proof. unfold scan_all, iterator. apply drain_unbounded. lia. Qed.

  Lemma filter_ge_drop_lt key m : sorted m -> filter (ge_key key) (kvs m) = kvs (drop_lt key m).
  Proof.
    induction m as [|t r IH]; intros Hs; [reflexivity|].
    apply sorted_inv in Hs. destruct Hs as [Hr Ht].
    assert (Hall : cmp (tkey t) key <> Lt ->
                   filter (ge_key key) (kvs (t :: r)) = kvs (t :: r)).
    { intros Hn. apply filter_all_true. unfold kvs. apply Forall_map. constructor.
      - unfold ge_key. simpl. destruct (cmp (tkey t) key); congruence.
      - eapply Forall_impl; [|exact (tail_gt key t r Hn Ht)].
        intros x Hx. unfold ge_key. simpl.
        apply (cmp_gt_lt cmp L) in Hx. rewrite Hx. reflexivity. }
    simpl drop_lt. destruct (cmp (tkey t) key) eqn:E.
    - apply Hall. congruence.
    - simpl. unfold ge_key at 1. simpl. rewrite E. apply IH. exact Hr.
    - apply Hall. congruence.
  Qed.

  Lemma scan_from_spec key m : sorted m -> heights_ok m ->
    scan_from cmp key m = filter (ge_key key) (kvs m).
  Proof.
    intros Hs Hh. unfold scan_from, iterator_starting_at.
    rewrite find_ge_spec by assumption. rewrite filter_ge_drop_lt by exact Hs.
    apply drain_unbounded. pose proof (drop_lt_length key m). lia.
  Qed.

  Lemma scan_between_spec lo hi m : sorted m -> heights_ok m -> cmp lo hi <> Gt ->
    scan_between cmp lo hi m = Some (filter (fun kv => ge_key lo kv && le_key hi kv) (kvs m)).
  Proof.
    intros Hs Hh Hc. unfold scan_between, iterator_between.
    assert (Hd : drain cmp (S (length m)) (mkIter (find_ge cmp lo m) (Some hi) false)
                 = filter (fun kv => ge_key lo kv && le_key hi kv) (kvs m)).
    { rewrite find_ge_spec by assumption. rewrite filter_andb.
      rewrite filter_ge_drop_lt by exact Hs.
      apply drain_bounded; [apply drop_lt_sorted; exact Hs|].
      pose proof (drop_lt_length lo m). lia. }
    destruct (cmp lo hi); try congruence; rewrite Hd; reflexivity.
  Qed.

  Lemma scan_between_rejects lo hi (m : @sl K V) : cmp lo hi = Gt -> scan_between cmp lo hi m = None.
  Proof. intros H. unfold scan_between, iterator_between. rewrite H. reflexivity. Qed.

  (* the sorted association list is unique: kvs m is THE sorted list of the inserted pairs *)
  Lemma kvs_sorted m : sorted m ->
    StronglySorted (fun a b => cmp (fst a) (fst b) = Lt) (kvs m).
  Proof.
    induction m as [|t r IH]; intros Hs; simpl; [constructor|].
    apply sorted_inv in Hs. destruct Hs as [Hr Ht].
    constructor; [apply IH; exact Hr|].
    unfold kvs. apply Forall_map. exact Ht.
  Qed.

  (* main theorem: any insertion order, any heights *)
  Theorem skiplist_sorted_map (l : list (K * V * nat)) :
    keys_distinct l -> Forall (fun x => 1 <= snd x)%nat l ->
    exists m,
      inserts cmp l [] = Some m
      /\ size m = length l
      /\ StronglySorted (fun a b => cmp (fst a) (fst b) = Lt) (kvs m)
      /\ Permutation (kvs m) (map fst l)
      /\ (forall key, get cmp key m = assoc key (kvs m))
      /\ (forall key, contains cmp key m = match assoc key (kvs m) with Some _ => true | None => false end)
      /\ scan_all cmp m = kvs m
      /\ (forall key, scan_from cmp key m = filter (ge_key key) (kvs m))
      /\ (forall lo hi, cmp lo hi <> Gt ->
            scan_between cmp lo hi m = Some (filter (fun kv => ge_key lo kv && le_key hi kv) (kvs m)))
      /\ (forall lo hi, cmp lo hi = Gt -> scan_between cmp lo hi m = None).
  Proof.
    intros Hd Hh.
    destruct (inserts_spec l Hd Hh) as [m [Hi [Hs [Hho [Hsz Hp]]]]].
    exists m. repeat split.
    - exact Hi.
    - exact Hsz.
    - apply kvs_sorted. exact Hs.
    - exact Hp.
    - intros key. apply get_spec; assumption.
    - intros key. apply contains_spec; assumption.
    - apply scan_all_spec.
    - intros key. apply scan_from_spec; assumption.
    - intros lo hi Hc. apply scan_between_spec; assumption.
    - intros lo hi Hc. apply scan_between_rejects; assumption.
  Qed.

  (* assoc on the sorted list agrees with membership in the inserted list *)
  Lemma assoc_some_in key v (l : list (K * V)) : assoc key l = Some v -> In (key, v) l.
  Proof.
    induction l as [|[k w] l IH]; simpl; [discriminate|].
    destruct (cmp key k) eqn:E.
    - intros H. inversion H; subst. apply (cl_eq _ L) in E. subst. left. reflexivity.
    - intros H. right. apply IH. exact H.
    - intros H. right. apply IH. exact H.
  Qed.

  Lemma assoc_in key v (l : list (K * V)) :
    NoDup (map fst l) -> In (key, v) l -> assoc key l = Some v.
  Proof.
    induction l as [|[k w] l IH]; simpl; intros Hn Hin; [contradiction|].
    inversion Hn as [|k' l' Hnk Hnl]; subst.
    destruct Hin as [Hin|Hin].
    - inversion Hin; subst. rewrite (cl_refl _ L). reflexivity.
    - destruct (cmp key k) eqn:E.
      + apply (cl_eq _ L) in E. subst. exfalso. apply Hnk.
        apply (in_map fst) in Hin. exact Hin.
      + apply IH; assumption.
      + apply IH; assumption.
  Qed.

  Lemma assoc_perm (l1 l2 : list (K * V)) key :
    NoDup (map fst l1) -> Permutation l1 l2 ->
    assoc key l1 = assoc key l2.
  Proof.
    intros Hn Hp.
    assert (Hn2 : NoDup (map fst l2)).
    { eapply Permutation_NoDup; [apply Permutation_map; exact Hp | exact Hn]. }
    destruct (assoc key l1) as [v|] eqn:E1.
    - symmetry. apply assoc_in; [exact Hn2|].
      eapply Permutation_in; [exact Hp|]. apply assoc_some_in. exact E1.
    - destruct (assoc key l2) as [v|] eqn:E2; [|reflexivity].
      apply assoc_some_in in E2.
      apply (Permutation_in _ (Permutation_sym Hp)) in E2.
      apply (assoc_in key v l1 Hn) in E2. congruence.
  Qed.
End Facts.

(* non-vacuity: a concrete map over bytes with mixed heights *)
Example skiplist_example :
  exists m, inserts bcmp [([3%N], [30%N], 2%nat); ([1%N], [10%N], 5%nat); ([2%N; 0%N], [20%N], 1%nat)] [] = Some m
            /\ kvs m = [([1%N], [10%N]); ([2%N; 0%N], [20%N]); ([3%N], [30%N])]
            /\ get bcmp [2%N; 0%N] m = Some [20%N]
            /\ scan_between bcmp [1%N; 5%N] [3%N] m = Some [([2%N; 0%N], [20%N]); ([3%N], [30%N])].
Proof.
  eexists. split; [vm_compute; reflexivity|].
  split; [vm_compute; reflexivity|].
  split; vm_compute; reflexivity.
Qed.

Print Assumptions skiplist_sorted_map.
Print Assumptions inserts_spec.
Print Assumptions find_ge_spec.
Print Assumptions assoc_perm.
Print Assumptions skiplist_example.
