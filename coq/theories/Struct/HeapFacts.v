(* Theorems about the priority-queue model (Struct/Heap.v): the k-way merge over non-descending
   inputs returns every element exactly once, in non-descending key order, tagged with its input. *)
From GoSST Require Import Base.Bytes Base.Order Struct.Heap.
From Coq Require Import Lia Sorting.Sorted Sorting.Permutation.

Section Facts.
  Context {K V : Type}.
  Variable cmp : K -> K -> comparison.
  Hypothesis L : cmp_laws cmp.

  Definition all_ok (s : @stream K V) : Prop := Forall (fun x => exists kv, x = Ok kv) s.

  Fixpoint oks (s : @stream K V) : list (K * V) :=
    match s with
    | [] => []
    | Ok kv :: r => kv :: oks r
    | Err _ :: r => oks r
    end.

  Definition nondesc (l : list (K * V)) : Prop :=
    StronglySorted (fun a b => cmp (fst a) (fst b) <> Gt) l.

  Definition out_nondesc (l : list (K * V * N)) : Prop :=
    StronglySorted (fun a b => cmp (fst (fst a)) (fst (fst b)) <> Gt) l.

  Definition of_ctx (c : N) (out : list (K * V * N)) : list (K * V) :=
    map fst (filter (fun x => N.eqb (snd x) c) out).

  Notation elem := (@elem K V).
  Notation heap := (@heap K V).

  (* ---------- key order on elements ---------- *)
  Definition kle (a b : elem) : Prop := cmp (ekey a) (ekey b) <> Gt.

  Lemma kle_refl a : kle a a.
  Proof. unfold kle. rewrite (cl_refl _ L). discriminate. Qed.

  Lemma kle_trans a b c : kle a b -> kle b c -> kle a c.
  Proof. unfold kle. apply (cmp_le_trans cmp L). Qed.

  Lemma less_true_kle a b : less cmp a b = true -> kle a b.
  Proof. unfold less, kle. destruct (cmp (ekey a) (ekey b)); congruence. Qed.

  Lemma less_false_kle a b : less cmp a b = false -> kle b a.
  Proof.
    unfold less, kle. intros H G. apply (cmp_gt_lt cmp L) in G. rewrite G in H. discriminate.
  Qed.

  (* ---------- div2 ---------- *)
  Lemma div2_cases k : k = 2 * Nat.div2 k \/ k = 2 * Nat.div2 k + 1.
  Proof.
    pose proof (Nat.div2_odd k) as H. destruct (Nat.odd k); simpl Nat.b2n in H; lia.
  Qed.

  (* ---------- slots ---------- *)
  Lemma hset_length (h : heap) i e : length (hset h i e) = length h.
  Proof. revert i; induction h as [|x r IH]; intros [|i]; simpl; auto. Qed.

  Lemma nth_hset_same (h : heap) i e d : i < length h -> nth i (hset h i e) d = e.
  Proof.
    revert i; induction h as [|x r IH]; intros [|i]; simpl; intros Hi; try lia; auto.
    apply IH. lia.
  Qed.

  Lemma nth_hset_other (h : heap) i k e d : i <> k -> nth k (hset h i e) d = nth k h d.
  Proof.
    revert i k; induction h as [|x r IH]; intros [|i] [|k]; simpl; intros Hik; try lia; auto.
  Qed.

  Lemma hset_exchange (h : heap) i e d :
    i < length h -> Permutation (nth i h d :: hset h i e) (e :: h).
  Proof.
    revert i; induction h as [|x r IH]; intros [|i]; simpl; intros Hi; try lia.
    - apply perm_swap.
    - eapply perm_trans; [apply perm_swap|].
      eapply perm_trans; [apply perm_skip, IH; lia|]. apply perm_swap.
  Qed.

  Lemma hput_length (h : heap) i e : length (hput h i e) = length h.
  Proof. apply hset_length. Qed.

  Lemma hget_hput_same (h : heap) i e d : 1 <= i <= length h -> hget (hput h i e) i d = e.
  Proof. intros Hi. unfold hget, hput. apply nth_hset_same. lia. Qed.

  Lemma hget_hput_other (h : heap) i k e d :
    1 <= i -> 1 <= k -> i <> k -> hget (hput h i e) k d = hget h k d.
  Proof. intros Hi Hk Hik. unfold hget, hput. apply nth_hset_other. lia. Qed.

  Lemma hget_indep (h : heap) i d d' : 1 <= i <= length h -> hget h i d = hget h i d'.
  Proof. intros Hi. unfold hget. apply nth_indep. lia. Qed.

  Lemma hput_exchange (h : heap) i e d :
    1 <= i <= length h -> Permutation (hget h i d :: hput h i e) (e :: h).
  Proof. intros Hi. unfold hget, hput. apply hset_exchange. lia. Qed.

  (* ---------- heap order ---------- *)
  Definition heap_ok (h : heap) : Prop :=
    forall k d, 2 <= k <= length h -> kle (hget h (Nat.div2 k) d) (hget h k d).

  (* ---------- up_heap ---------- *)
  (* hole at i, [e] to be placed: all edges not ending in i are fine, e is below the
     children of i, and the parent of i is below the children of i *)
  Definition up_inv (h : heap) (i : nat) (e : elem) : Prop :=
    (forall k d, 2 <= k <= length h -> k <> i -> kle (hget h (Nat.div2 k) d) (hget h k d)) /\
    (forall c d, 2 <= c <= length h -> Nat.div2 c = i -> kle e (hget h c d)) /\
    (forall c d, 2 <= c <= length h -> Nat.div2 c = i -> 2 <= i ->
                 kle (hget h (Nat.div2 i) d) (hget h c d)).

  Lemma up_inv_done h i e :
    1 <= i <= length h -> up_inv h i e ->
    (2 <= i -> kle (hget h (Nat.div2 i) e) e) ->
    heap_ok (hput h i e).
  Proof.
    intros Hi (HA & HB & HC) Hpar k d Hk. rewrite hput_length in Hk.
    pose proof (div2_cases k) as Dk.
    destruct (Nat.eq_dec k i) as [->|Hki].
    - rewrite hget_hput_same by lia. rewrite hget_hput_other by lia.
      rewrite (hget_indep h _ d e) by lia. apply Hpar. lia.
    - rewrite (hget_hput_other h i k) by lia.
      destruct (Nat.eq_dec (Nat.div2 k) i) as [Hd|Hd].
      + rewrite Hd. rewrite hget_hput_same by lia. apply HB; [lia|exact Hd].
      + rewrite hget_hput_other by lia. apply HA; [lia|exact Hki].
  Qed.

  Lemma up_inv_step h i e :
    1 <= i <= length h -> up_inv h i e ->
    0 < Nat.div2 i -> less cmp e (hget h (Nat.div2 i) e) = true ->
    up_inv (hput h i (hget h (Nat.div2 i) e)) (Nat.div2 i) e.
  Proof.
    intros Hi (HA & HB & HC) Hj Hless.
    pose proof (div2_cases i) as Di. set (j := Nat.div2 i) in *.
    apply less_true_kle in Hless.
    repeat split.
    - intros k d Hk Hkj. rewrite hput_length in Hk. pose proof (div2_cases k) as Dk.
      destruct (Nat.eq_dec k i) as [->|Hki].
      + fold j. rewrite hget_hput_same by lia. rewrite hget_hput_other by lia.
        rewrite (hget_indep h j d e) by lia. apply kle_refl.
      + rewrite (hget_hput_other h i k) by lia.
        destruct (Nat.eq_dec (Nat.div2 k) i) as [Hd|Hd].
        * rewrite Hd. rewrite hget_hput_same by lia.
          rewrite (hget_indep h j e d) by lia. apply HC; [lia|exact Hd|lia].
        * rewrite hget_hput_other by lia. apply HA; [lia|exact Hki].
    - intros c d Hc Hcj. rewrite hput_length in Hc.
      destruct (Nat.eq_dec c i) as [->|Hci].
      + rewrite hget_hput_same by lia. exact Hless.
      + rewrite hget_hput_other by lia. eapply kle_trans; [exact Hless|].
        rewrite <- Hcj. rewrite (hget_indep h _ e d) by (pose proof (div2_cases c); lia).
        apply HA; [lia|exact Hci].
    - intros c d Hc Hcj Hj2. rewrite hput_length in Hc.
      pose proof (div2_cases j) as Dj.
      rewrite (hget_hput_other h i (Nat.div2 j)) by lia.
      assert (Hpj : kle (hget h (Nat.div2 j) d) (hget h j d)) by (apply HA; lia).
      destruct (Nat.eq_dec c i) as [->|Hci].
      + rewrite hget_hput_same by lia. rewrite (hget_indep h j e d) by lia. exact Hpj.
      + rewrite hget_hput_other by lia. eapply kle_trans; [exact Hpj|].
        rewrite <- Hcj. apply HA; [lia|exact Hci].
  Qed.

  Lemma up_loop_ok fuel : forall (h : heap) (e : elem) i,
    1 <= i <= length h -> i <= fuel -> up_inv h i e -> heap_ok (up_loop cmp fuel h e i).
  Proof.
    induction fuel as [|f IH]; intros h e i Hi Hf Hinv; [lia|]. simpl.
    pose proof (div2_cases i) as Di.
    destruct (Nat.ltb 0 (Nat.div2 i)) eqn:Hj; simpl.
    - apply Nat.ltb_lt in Hj.
      destruct (less cmp e (hget h (Nat.div2 i) e)) eqn:Hless.
      + apply IH; [rewrite hput_length; lia|lia|]. apply up_inv_step; assumption.
      + apply up_inv_done; try assumption. intros _. apply less_false_kle. exact Hless.
    - apply Nat.ltb_ge in Hj. apply up_inv_done; try assumption. intros Hi2. lia.
  Qed.

  Lemma up_loop_perm fuel : forall (h : heap) (e : elem) i d,
    1 <= i <= length h -> Permutation (hget h i d :: up_loop cmp fuel h e i) (e :: h).
  Proof.
    induction fuel as [|f IH]; intros h e i d Hi; simpl.
    - apply hput_exchange. exact Hi.
    - pose proof (div2_cases i) as Di.
      destruct (Nat.ltb 0 (Nat.div2 i) && less cmp e (hget h (Nat.div2 i) e)) eqn:Hc.
      + apply andb_prop in Hc. destruct Hc as [Hj _]. apply Nat.ltb_lt in Hj.
        set (j := Nat.div2 i) in *. set (h1 := hput h i (hget h j e)).
        assert (H1 : Permutation (hget h1 j d :: up_loop cmp f h1 e j) (e :: h1))
          by (apply IH; unfold h1; rewrite hput_length; lia).
        unfold h1 in H1 at 1. rewrite hget_hput_other in H1 by lia.
        assert (H2 : Permutation (hget h i d :: h1) (hget h j e :: h))
          by (apply hput_exchange; lia).
        rewrite (hget_indep h j e d) in H2 by lia.
        apply (Permutation_cons_inv (a := hget h j d)).
        eapply perm_trans; [apply perm_swap|].
        eapply perm_trans; [apply perm_skip, H1|].
        eapply perm_trans; [apply perm_swap|].
        eapply perm_trans; [apply perm_skip, H2|]. apply perm_swap.
      + apply hput_exchange. exact Hi.
  Qed.

  Lemma heap_ok_snoc_inv (h : heap) e :
    heap_ok h -> up_inv (h ++ [e]) (S (length h)) e.
  Proof.
    intros Hok. repeat split.
    - intros k d Hk Hne. rewrite app_length in Hk. simpl in Hk.
      pose proof (div2_cases k) as Dk. unfold hget.
      rewrite !app_nth1 by lia. apply Hok. lia.
    - intros c d Hc Hd. rewrite app_length in Hc. simpl in Hc.
      pose proof (div2_cases c). lia.
    - intros c d Hc Hd. rewrite app_length in Hc. simpl in Hc.
      pose proof (div2_cases c). lia.
  Qed.

  Lemma up_heap_snoc_ok (h : heap) e :
    heap_ok h -> heap_ok (up_heap cmp (h ++ [e]) (length (h ++ [e]))).
  Proof.
    intros Hok. unfold up_heap. rewrite app_length. simpl length.
    replace (length h + 1 - 1) with (length h) by lia.
    rewrite nth_error_app2 by lia. rewrite Nat.sub_diag. simpl.
    replace (length h + 1) with (S (length h)) by lia.
    apply up_loop_ok; [rewrite app_length; simpl; lia|lia|].
    apply heap_ok_snoc_inv. exact Hok.
  Qed.

  Lemma up_heap_snoc_perm (h : heap) e :
    Permutation (up_heap cmp (h ++ [e]) (length (h ++ [e]))) (h ++ [e]).
  Proof.
    unfold up_heap. rewrite app_length. simpl length.
    replace (length h + 1 - 1) with (length h) by lia.
    rewrite nth_error_app2 by lia. rewrite Nat.sub_diag. simpl.
    apply (Permutation_cons_inv (a := e)).
    assert (He : hget (h ++ [e]) (length h + 1) e = e).
    { unfold hget. replace (length h + 1 - 1) with (length h) by lia.
      rewrite app_nth2 by lia. rewrite Nat.sub_diag. reflexivity. }
    rewrite <- He at 1. apply up_loop_perm. rewrite app_length. simpl. lia.
  Qed.

  (* ---------- down_heap ---------- *)
  Lemma pick_child_shape (h : heap) n i d :
    Nat.div2 (pick_child cmp h n i d) = i /\ 2 * i <= pick_child cmp h n i d.
  Proof.
    unfold pick_child.
    destruct (Nat.leb (2 * i + 1) n && less cmp (hget h (2 * i + 1) d) (hget h (2 * i) d)).
    - pose proof (div2_cases (2 * i + 1)). lia.
    - pose proof (div2_cases (2 * i)). lia.
  Qed.

  Lemma pick_child_min (h : heap) i d c d' :
    1 <= i -> 2 <= c <= length h -> Nat.div2 c = i ->
    pick_child cmp h (length h) i d <= length h /\
    kle (hget h (pick_child cmp h (length h) i d) d') (hget h c d').
  Proof.
    intros Hi Hc Hd. pose proof (div2_cases c) as Dc. unfold pick_child.
    destruct (Nat.leb (2 * i + 1) (length h)) eqn:Hk; cbn [andb].
    - apply Nat.leb_le in Hk.
      destruct (less cmp (hget h (2 * i + 1) d) (hget h (2 * i) d)) eqn:Hl.
      + split; [lia|]. destruct Dc as [Dc|Dc]; rewrite Dc, Hd.
        * apply less_true_kle in Hl.
          rewrite (hget_indep h (2 * i + 1) d d'), (hget_indep h (2 * i) d d') in Hl by lia.
          exact Hl.
        * apply kle_refl.
      + split; [lia|]. destruct Dc as [Dc|Dc]; rewrite Dc, Hd.
        * apply kle_refl.
        * apply less_false_kle in Hl.
          rewrite (hget_indep h (2 * i + 1) d d'), (hget_indep h (2 * i) d d') in Hl by lia.
          exact Hl.
    - apply Nat.leb_gt in Hk. split; [lia|].
      replace c with (2 * i) by lia. apply kle_refl.
  Qed.

  Definition down_inv (h : heap) (i : nat) (e : elem) : Prop :=
    (forall k d, 2 <= k <= length h -> Nat.div2 k <> i ->
                 kle (hget h (Nat.div2 k) d) (hget h k d)) /\
    (forall d, 2 <= i -> kle (hget h (Nat.div2 i) d) e) /\
    (forall c d, 2 <= c <= length h -> Nat.div2 c = i -> 2 <= i ->
                 kle (hget h (Nat.div2 i) d) (hget h c d)).

  Lemma down_inv_done (h : heap) i e :
    1 <= i <= length h -> down_inv h i e ->
    (forall c d, 2 <= c <= length h -> Nat.div2 c = i -> kle e (hget h c d)) ->
    heap_ok (hput h i e).
  Proof.
    intros Hi (HA & HB & HC) Hch k d Hk. rewrite hput_length in Hk.
    pose proof (div2_cases k) as Dk.
    destruct (Nat.eq_dec k i) as [->|Hki].
    - rewrite hget_hput_same by lia. rewrite hget_hput_other by lia. apply HB. lia.
    - rewrite (hget_hput_other h i k) by lia.
      destruct (Nat.eq_dec (Nat.div2 k) i) as [Hd|Hd].
      + rewrite Hd. rewrite hget_hput_same by lia. apply Hch; [lia|exact Hd].
      + rewrite hget_hput_other by lia. apply HA; [lia|exact Hd].
  Qed.

  Lemma down_inv_step (h : heap) i e :
    1 <= i <= length h -> down_inv h i e ->
    let j := pick_child cmp h (length h) i e in
    j <= length h -> less cmp (hget h j e) e = true ->
    down_inv (hput h i (hget h j e)) j e.
  Proof.
    intros Hi (HA & HB & HC) j Hj Hless.
    destruct (pick_child_shape h (length h) i e) as [Hdj Hge]. fold j in Hdj, Hge.
    apply less_true_kle in Hless.
    repeat split.
    - intros k d Hk Hkj. rewrite hput_length in Hk. pose proof (div2_cases k) as Dk.
      destruct (Nat.eq_dec k i) as [->|Hki].
      + rewrite hget_hput_same by lia. rewrite hget_hput_other by lia.
        rewrite (hget_indep h j e d) by lia. apply HC; [lia|exact Hdj|lia].
      + rewrite (hget_hput_other h i k) by lia.
        destruct (Nat.eq_dec (Nat.div2 k) i) as [Hd|Hd].
        * rewrite Hd. rewrite hget_hput_same by lia.
          rewrite (hget_indep h j e d) by lia.
          apply (pick_child_min h i e k d); [lia|lia|exact Hd].
        * rewrite hget_hput_other by lia. apply HA; [lia|exact Hd].
    - intros d Hj2. rewrite Hdj. rewrite hget_hput_same by lia. exact Hless.
    - intros c d Hc Hcj Hj2. rewrite hput_length in Hc. pose proof (div2_cases c) as Dc.
      rewrite Hdj. rewrite hget_hput_same by lia. rewrite hget_hput_other by lia.
      rewrite (hget_indep h j e d) by lia. rewrite <- Hcj. apply HA; lia.
  Qed.

  Lemma down_loop_ok fuel : forall (h : heap) n (e : elem) i,
    n = length h -> 1 <= i <= n -> n < fuel + i -> down_inv h i e ->
    heap_ok (down_loop cmp fuel h n e i (pick_child cmp h n i e)).
  Proof.
    induction fuel as [|f IH]; intros h n e i Hn Hi Hf Hinv; [lia|]. subst n. simpl.
    set (j := pick_child cmp h (length h) i e).
    destruct (pick_child_shape h (length h) i e) as [Hdj Hge]. fold j in Hdj, Hge.
    destruct (Nat.leb j (length h)) eqn:Hj; cbn [andb].
    - apply Nat.leb_le in Hj.
      destruct (less cmp (hget h j e) e) eqn:Hless.
      + apply IH; [rewrite hput_length; reflexivity|lia|lia|].
        apply down_inv_step; try assumption.
      + apply down_inv_done; [lia|exact Hinv|]. intros c d Hc Hd.
        apply less_false_kle in Hless. eapply kle_trans; [exact Hless|].
        rewrite (hget_indep h j e d) by lia.
        apply (pick_child_min h i e c d); [lia|lia|exact Hd].
    - apply Nat.leb_gt in Hj. apply down_inv_done; [lia|exact Hinv|]. intros c d Hc Hd.
      destruct (pick_child_min h i e c d) as [Hle _]; [lia|lia|exact Hd|].
      fold j in Hle. lia.
  Qed.

  Lemma down_loop_perm fuel : forall (h : heap) n (e : elem) i j d,
    n = length h -> 1 <= i <= n -> i < j ->
    Permutation (hget h i d :: down_loop cmp fuel h n e i j) (e :: h).
  Proof.
    induction fuel as [|f IH]; intros h n e i j d Hn Hi Hij; simpl.
    - apply hput_exchange. lia.
    - destruct (Nat.leb j n && less cmp (hget h j e) e) eqn:Hc.
      + apply andb_prop in Hc. destruct Hc as [Hj _]. apply Nat.leb_le in Hj.
        set (h1 := hput h i (hget h j e)).
        destruct (pick_child_shape h1 n j e) as [_ Hge].
        assert (H1 : Permutation
                       (hget h1 j d :: down_loop cmp f h1 n e j (pick_child cmp h1 n j e))
                       (e :: h1))
          by (apply IH; [unfold h1; rewrite hput_length; exact Hn|lia|lia]).
        unfold h1 in H1 at 1. rewrite hget_hput_other in H1 by lia.
        assert (H2 : Permutation (hget h i d :: h1) (hget h j e :: h))
          by (apply hput_exchange; lia).
        rewrite (hget_indep h j e d) in H2 by lia.
        apply (Permutation_cons_inv (a := hget h j d)).
        eapply perm_trans; [apply perm_swap|].
        eapply perm_trans; [apply perm_skip, H1|].
        eapply perm_trans; [apply perm_swap|].
        eapply perm_trans; [apply perm_skip, H2|]. apply perm_swap.
      + apply hput_exchange. lia.
  Qed.

  Lemma down_heap_perm (h : heap) : Permutation (down_heap cmp h) h.
  Proof.
    destruct h as [|e r]; [constructor|]. unfold down_heap.
    apply (Permutation_cons_inv (a := e)).
    change e with (hget (e :: r) 1 e) at 1.
    apply down_loop_perm; [reflexivity|simpl; lia|].
    destruct (pick_child_shape (e :: r) (length (e :: r)) 1 e). lia.
  Qed.

  Definition heap_ok_below_root (h : heap) : Prop :=
    forall k d, 2 <= k <= length h -> Nat.div2 k <> 1 ->
                kle (hget h (Nat.div2 k) d) (hget h k d).

  Lemma down_heap_ok (h : heap) : heap_ok_below_root h -> heap_ok (down_heap cmp h).
  Proof.
    intros Hb. destruct h as [|e r].
    - simpl. intros k d Hk. simpl in Hk. lia.
    - unfold down_heap. apply down_loop_ok; [reflexivity|simpl; lia|simpl; lia|].
      repeat split.
      + exact Hb.
      + intros d H2. lia.
      + intros c d _ _ H2. lia.
  Qed.

  (* ---------- the root is minimal ---------- *)
  Lemma heap_root_min (h : heap) : heap_ok h ->
    forall k d, 1 <= k <= length h -> kle (hget h 1 d) (hget h k d).
  Proof.
    intros Hok k. induction k as [k IH] using (well_founded_induction lt_wf). intros d Hk.
    destruct (Nat.eq_dec k 1) as [->|Hk1]; [apply kle_refl|].
    pose proof (div2_cases k) as Dk.
    eapply kle_trans; [apply (IH (Nat.div2 k)); lia|]. apply Hok; lia.
  Qed.

  Lemma heap_top_min (top : elem) rest e :
    heap_ok (top :: rest) -> In e rest -> kle top e.
  Proof.
    intros Hok Hin. destruct (In_nth rest e top Hin) as (n & Hn & Hnth).
    pose proof (heap_root_min _ Hok (S (S n)) top) as H. unfold hget in H. simpl in H.
    rewrite Hnth in H. apply H. lia.
  Qed.

  (* ---------- one step of [next] ---------- *)
  Definition pop_last (top : elem) (rest : heap) : heap :=
    removelast (hput (top :: rest) 1 (hget (top :: rest) (length (top :: rest)) top)).

  Lemma next_done (top : elem) rest :
    erest top = [] ->
    next cmp (top :: rest)
    = Ok (Some (ekey top, eval_ top, ectx top), down_heap cmp (pop_last top rest)).
  Proof. intros Hr. unfold next. rewrite Hr. reflexivity. Qed.

  Lemma next_fill (top : elem) rest k v r :
    erest top = Ok (k, v) :: r ->
    next cmp (top :: rest)
    = Ok (Some (ekey top, eval_ top, ectx top),
          down_heap cmp (mkElem k v (ectx top) r :: rest)).
  Proof. intros Hr. unfold next. rewrite Hr. reflexivity. Qed.

  Lemma next_err (top : elem) rest er r :
    erest top = Err er :: r -> next cmp (top :: rest) = Err er.
  Proof. intros Hr. unfold next. rewrite Hr. reflexivity. Qed.

  Lemma last_perm (l : heap) d :
    l <> [] -> Permutation (nth (length l - 1) l d :: removelast l) l.
  Proof.
    induction l as [|x [|y r] IH]; intros Hne; [congruence|apply Permutation_refl|].
    assert (IH' : Permutation (nth (length (y :: r) - 1) (y :: r) d :: removelast (y :: r))
                              (y :: r)) by (apply IH; discriminate).
    change (removelast (x :: y :: r)) with (x :: removelast (y :: r)).
    replace (nth (length (x :: y :: r) - 1) (x :: y :: r) d)
      with (nth (length (y :: r) - 1) (y :: r) d)
      by (simpl; rewrite Nat.sub_0_r; reflexivity).
    eapply perm_trans; [apply perm_swap|]. apply perm_skip. exact IH'.
  Qed.

  Lemma nth_removelast (l : heap) i d :
    i < length l - 1 -> nth i (removelast l) d = nth i l d.
  Proof.
    revert i; induction l as [|x [|y r] IH]; intros i Hi; [reflexivity|simpl in Hi; lia|].
    change (removelast (x :: y :: r)) with (x :: removelast (y :: r)).
    destruct i as [|i]; [reflexivity|]. cbn [nth]. apply IH. simpl in *. lia.
  Qed.

  Lemma pop_last_cons (top x : elem) r :
    pop_last top (x :: r)
    = nth (length (x :: r) - 1) (x :: r) top :: removelast (x :: r).
  Proof.
    unfold pop_last, hput, hget. simpl length. simpl hset.
    replace (S (S (length r)) - 1) with (S (length r)) by lia.
    replace (S (length r) - 1) with (length r) by lia. reflexivity.
  Qed.

  Lemma pop_last_perm (top : elem) rest : Permutation (pop_last top rest) rest.
  Proof.
    destruct rest as [|x r]; [apply Permutation_refl|].
    rewrite pop_last_cons. apply last_perm. discriminate.
  Qed.

  Lemma below_root_transfer (h h' : heap) :
    heap_ok h -> length h' <= length h ->
    (forall k d, 2 <= k <= length h' -> hget h' k d = hget h k d) ->
    heap_ok_below_root h'.
  Proof.
    intros Hok Hlen Hsame k d Hk Hd. pose proof (div2_cases k) as Dk.
    rewrite !Hsame by lia. apply Hok. lia.
  Qed.

  Lemma pop_last_below (top : elem) rest :
    heap_ok (top :: rest) -> heap_ok_below_root (pop_last top rest).
  Proof.
    intros Hok. destruct rest as [|x r].
    - intros k d Hk. simpl in Hk. lia.
    - apply (below_root_transfer (top :: x :: r)); [exact Hok| |].
      + pose proof (Permutation_length (pop_last_perm top (x :: r))) as Hl. simpl in *. lia.
      + intros k d Hk. rewrite pop_last_cons in *. cbn [length] in Hk.
        assert (Hl : length (removelast (x :: r)) = length r).
        { pose proof (last_perm (x :: r) top) as Hp.
          apply Permutation_length in Hp; [|discriminate]. simpl in *. lia. }
        rewrite Hl in Hk. unfold hget.
        destruct k as [|[|k]]; try lia.
        replace (S (S k) - 1) with (S k) by lia.
        cbn [nth]. apply nth_removelast. simpl. lia.
  Qed.

  Lemma fill_below (top e' : elem) rest :
    heap_ok (top :: rest) -> heap_ok_below_root (e' :: rest).
  Proof.
    intros Hok. apply (below_root_transfer (top :: rest)); [exact Hok|simpl; lia|].
    intros k d Hk. unfold hget. destruct k as [|[|k]]; try lia. reflexivity.
  Qed.

  (* ---------- stream-level invariants ---------- *)
  Definition content (e : elem) : list (K * V) := (ekey e, eval_ e) :: oks (erest e).
  Definition elem_ok (e : elem) : Prop := all_ok (erest e) /\ nondesc (content e).
  Definition hsize (h : heap) : nat := list_sum (map (fun e => S (length (erest e))) h).
  Definition heap_inv (h : heap) : Prop :=
    heap_ok h /\ Forall elem_ok h /\ NoDup (map ectx h).

  (* X is the heap content after one pop of [top :: rest] *)
  Definition popped (top : elem) (rest X : heap) : Prop :=
    (erest top = [] /\ X = rest) \/
    (exists k v r, erest top = Ok (k, v) :: r /\ X = mkElem k v (ectx top) r :: rest).

  Lemma next_step (top : elem) rest :
    heap_ok (top :: rest) -> all_ok (erest top) ->
    exists h' X,
      next cmp (top :: rest) = Ok (Some (ekey top, eval_ top, ectx top), h')
      /\ heap_ok h' /\ Permutation h' X /\ popped top rest X.
  Proof.
    intros Hok Hall. destruct (erest top) as [|[[k v]|er] r] eqn:Hr.
    - exists (down_heap cmp (pop_last top rest)), rest. split; [apply next_done; exact Hr|].
      split; [apply down_heap_ok, pop_last_below; exact Hok|].
      split; [|left; split; [exact Hr|reflexivity]].
      eapply perm_trans; [apply down_heap_perm|apply pop_last_perm].
    - exists (down_heap cmp (mkElem k v (ectx top) r :: rest)), (mkElem k v (ectx top) r :: rest).
      split; [apply next_fill; exact Hr|].
      split; [apply down_heap_ok, (fill_below top); exact Hok|].
      split; [apply down_heap_perm|]. right. exists k, v, r. split; [exact Hr|reflexivity].
    - apply Forall_inv in Hall. destruct Hall as [kv Hkv]. discriminate.
  Qed.

  Lemma popped_sub (top : elem) rest X e : popped top rest X -> In e rest -> In e X.
  Proof.
    intros [[_ ->]|(k & v & r & _ & ->)] Hin; [exact Hin|right; exact Hin].
  Qed.

  Lemma popped_ctx (top : elem) rest X c :
    popped top rest X -> In c (map ectx X) -> In c (map ectx (top :: rest)).
  Proof.
    intros [[_ ->]|(k & v & r & _ & ->)] Hin; simpl in *; tauto.
  Qed.

  Lemma popped_size (top : elem) rest X :
    popped top rest X -> hsize (top :: rest) = S (hsize X).
  Proof.
    intros [[Hr ->]|(k & v & r & Hr & ->)]; unfold hsize; simpl; rewrite Hr; reflexivity.
  Qed.

  Lemma popped_inv (top : elem) rest X :
    popped top rest X -> Forall elem_ok (top :: rest) -> NoDup (map ectx (top :: rest)) ->
    Forall elem_ok X /\ NoDup (map ectx X).
  Proof.
    intros Hp Hel Hnd. simpl in Hnd. apply NoDup_cons_iff in Hnd. destruct Hnd as [Hni Hnd].
    pose proof (Forall_inv Hel) as [Hall Hsort]. apply Forall_inv_tail in Hel.
    destruct Hp as [[_ ->]|(k & v & r & Hr & ->)]; [split; assumption|]. split.
    - constructor; [|exact Hel]. unfold elem_ok, content in *. simpl. rewrite Hr in *.
      split; [apply (Forall_inv_tail Hall)|]. simpl in Hsort.
      apply StronglySorted_inv in Hsort. apply Hsort.
    - simpl. constructor; assumption.
  Qed.

  (* what remains of top's own stream is exactly what X holds under top's tag *)
  Lemma popped_top (top : elem) rest X :
    popped top rest X -> NoDup (map ectx (top :: rest)) ->
    (oks (erest top) = [] /\ ~ In (ectx top) (map ectx X)) \/
    (exists e', In e' X /\ ectx e' = ectx top /\ content e' = oks (erest top)).
  Proof.
    intros Hp Hnd. simpl in Hnd. apply NoDup_cons_iff in Hnd. destruct Hnd as [Hni _].
    destruct Hp as [[Hr ->]|(k & v & r & Hr & ->)].
    - left. rewrite Hr. split; [reflexivity|exact Hni].
    - right. exists (mkElem k v (ectx top) r). split; [left; reflexivity|].
      split; [reflexivity|]. rewrite Hr. reflexivity.
  Qed.

  Definition key_below (k : K) (l : list (K * V)) : Prop :=
    Forall (fun kv => cmp k (fst kv) <> Gt) l.

  Lemma elem_ok_below (e : elem) : elem_ok e -> key_below (ekey e) (content e).
  Proof.
    intros [_ Hs]. unfold content in *. apply StronglySorted_inv in Hs. destruct Hs as [_ Hf].
    constructor; [|exact Hf]. simpl. rewrite (cl_refl _ L). discriminate.
  Qed.

  Lemma key_below_trans k k' l : cmp k k' <> Gt -> key_below k' l -> key_below k l.
  Proof.
    intros Hk Hl. unfold key_below in *. eapply Forall_impl; [|exact Hl].
    intros kv Hkv. simpl in Hkv. eapply (cmp_le_trans cmp L); eassumption.
  Qed.

  Lemma popped_below (top : elem) rest X e :
    popped top rest X -> heap_ok (top :: rest) -> Forall elem_ok (top :: rest) ->
    In e X -> key_below (ekey top) (content e).
  Proof.
    intros Hp Hok Hel Hin. rewrite Forall_forall in Hel.
    assert (Hrest : forall e0, In e0 rest -> key_below (ekey top) (content e0)).
    { intros e0 H0. apply (key_below_trans _ (ekey e0)).
      - apply (heap_top_min top rest e0 Hok H0).
      - apply elem_ok_below, Hel. right. exact H0. }
    destruct Hp as [[_ ->]|(k & v & r & Hr & ->)]; [apply Hrest; exact Hin|].
    destruct Hin as [<-|Hin]; [|apply Hrest; exact Hin].
    destruct (Hel top (or_introl eq_refl)) as [_ Hs]. unfold content in *. simpl.
    rewrite Hr in Hs. simpl in Hs. apply StronglySorted_inv in Hs. apply Hs.
  Qed.

  (* ---------- of_ctx ---------- *)
  Lemma of_ctx_cons_eq c (x : K * V * N) l :
    snd x = c -> of_ctx c (x :: l) = fst x :: of_ctx c l.
  Proof. intros <-. unfold of_ctx. simpl. rewrite N.eqb_refl. reflexivity. Qed.

  Lemma of_ctx_cons_ne c (x : K * V * N) l :
    snd x <> c -> of_ctx c (x :: l) = of_ctx c l.
  Proof.
    intros Hne. unfold of_ctx. simpl. apply N.eqb_neq in Hne. rewrite Hne. reflexivity.
  Qed.

  Lemma of_ctx_none c (l : list (K * V * N)) :
    (forall y, In y l -> snd y <> c) -> of_ctx c l = [].
  Proof.
    induction l as [|x l IH]; intros H; [reflexivity|].
    rewrite of_ctx_cons_ne by (apply H; left; reflexivity).
    apply IH. intros y Hy. apply H. right. exact Hy.
  Qed.

  Lemma in_of_ctx (y : K * V * N) l : In y l -> In (fst y) (of_ctx (snd y) l).
  Proof.
    intros Hin. unfold of_ctx. apply in_map. apply filter_In. split; [exact Hin|].
    apply N.eqb_refl.
  Qed.

  (* ---------- draining ---------- *)
  Definition drain_spec (h : heap) (out : list (K * V * N)) : Prop :=
    out_nondesc out
    /\ (forall e, In e h -> of_ctx (ectx e) out = content e)
    /\ Forall (fun x => In (snd x) (map ectx h)) out
    /\ length out = hsize h.

  Lemma drain_step (top : elem) rest X h' out :
    heap_inv (top :: rest) -> popped top rest X -> Permutation h' X ->
    drain_spec h' out ->
    drain_spec (top :: rest) ((ekey top, eval_ top, ectx top) :: out).
  Proof.
    intros (Hok & Hel & Hnd) Hp Hperm (Hs & Hof & Htag & Hlen).
    assert (HinX : forall e, In e X -> In e h')
      by (intros e He; eapply Permutation_in; [apply Permutation_sym, Hperm|exact He]).
    rewrite Forall_forall in Htag.
    assert (Htag' : forall y, In y out -> In (snd y) (map ectx X)).
    { intros y Hy. eapply Permutation_in; [apply Permutation_map, Hperm|]. apply Htag, Hy. }
    repeat split.
    - apply SSorted_cons; [exact Hs|]. apply Forall_forall. intros y Hy. simpl.
      pose proof (Htag' y Hy) as Hc. apply in_map_iff in Hc. destruct Hc as (e & Hec & HeX).
      pose proof (in_of_ctx y out Hy) as Hy'. rewrite <- Hec in Hy'.
      rewrite (Hof e (HinX e HeX)) in Hy'.
      pose proof (popped_below top rest X e Hp Hok Hel HeX) as Hb.
      unfold key_below in Hb. rewrite Forall_forall in Hb. apply (Hb _ Hy').
    - intros e [<-|Hin].
      + rewrite of_ctx_cons_eq by reflexivity. unfold content. simpl. f_equal.
        destruct (popped_top top rest X Hp Hnd) as [[Hnil Hni]|(e' & He' & Hc' & Hcont)].
        * rewrite Hnil. apply of_ctx_none. intros y Hy Hc. apply Hni. rewrite <- Hc.
          apply Htag', Hy.
        * rewrite <- Hc', <- Hcont. apply Hof, HinX, He'.
      + simpl in Hnd. apply NoDup_cons_iff in Hnd. destruct Hnd as [Hni _].
        rewrite of_ctx_cons_ne.
        * apply Hof, HinX. eapply popped_sub; eassumption.
        * simpl. intros Hc. apply Hni. rewrite Hc. apply in_map. exact Hin.
    - constructor; [simpl; left; reflexivity|]. apply Forall_forall. intros y Hy.
      apply (popped_ctx top rest X _ Hp). apply Htag', Hy.
    - simpl length. rewrite Hlen. rewrite (popped_size top rest X Hp). f_equal.
      unfold hsize. apply Permutation_list_sum, Permutation_map, Hperm.
  Qed.

  Lemma drain_ok fuel : forall h : heap,
    heap_inv h -> hsize h < fuel ->
    exists out, drain_heap cmp fuel h = Ok out /\ drain_spec h out.
  Proof.
    induction fuel as [|f IH]; intros h Hinv Hf; [lia|].
    destruct h as [|top rest].
    - exists []. split; [reflexivity|]. repeat split; try constructor. intros e [].
    - pose proof Hinv as (Hok & Hel & Hnd).
      destruct (next_step top rest Hok) as (h' & X & Hnext & Hok' & Hperm & Hp).
      { apply (Forall_inv Hel). }
      destruct (popped_inv top rest X Hp Hel Hnd) as [HelX HndX].
      assert (Hinv' : heap_inv h').
      { split; [exact Hok'|]. split.
        - eapply Permutation_Forall; [apply Permutation_sym, Hperm|exact HelX].
        - eapply Permutation_NoDup; [apply Permutation_map, Permutation_sym, Hperm|exact HndX]. }
      assert (Hsz : hsize h' = hsize X)
        by (unfold hsize; apply Permutation_list_sum, Permutation_map, Hperm).
      destruct (IH h' Hinv') as (out & Hdrain & Hspec).
      { rewrite Hsz. rewrite (popped_size top rest X Hp) in Hf. lia. }
      exists ((ekey top, eval_ top, ectx top) :: out). split.
      + cbn [drain_heap]. rewrite Hnext, Hdrain. reflexivity.
      + eapply drain_step; eassumption.
  Qed.

  (* ---------- init ---------- *)
  Definition elems_of (its : list (N * @stream K V)) : heap :=
    flat_map (fun p => match snd p with
                       | Ok (k, v) :: r => [mkElem k v (fst p) r]
                       | _ => []
                       end) its.

  Lemma init_from_ok (its : list (N * @stream K V)) : forall h : heap,
    Forall (fun p => all_ok (snd p)) its -> heap_ok h ->
    exists hf, init_from cmp its h = Ok hf /\ heap_ok hf /\ Permutation hf (h ++ elems_of its).
  Proof.
    induction its as [|[c s] its IH]; intros h Hall Hok.
    - exists h. split; [reflexivity|]. split; [exact Hok|]. simpl. rewrite app_nil_r.
      apply Permutation_refl.
    - pose proof (Forall_inv Hall) as Hs. apply Forall_inv_tail in Hall. simpl in Hs.
      destruct s as [|[[k v]|er] r].
      + simpl. apply IH; assumption.
      + destruct (IH (up_heap cmp (h ++ [mkElem k v c r]) (length (h ++ [mkElem k v c r]))) Hall)
          as (hf & Hinit & Hokf & Hperm); [apply up_heap_snoc_ok; exact Hok|].
        exists hf. split; [exact Hinit|]. split; [exact Hokf|].
        eapply perm_trans; [exact Hperm|].
        change (elems_of ((c, Ok (k, v) :: r) :: its)) with ([mkElem k v c r] ++ elems_of its).
        rewrite (app_assoc h [mkElem k v c r]). apply Permutation_app_tail.
        apply up_heap_snoc_perm.
      + apply Forall_inv in Hs. destruct Hs as [kv Hkv]. discriminate.
  Qed.

  Lemma elems_of_in (its : list (N * @stream K V)) e :
    In e (elems_of its) -> In (ectx e, Ok (ekey e, eval_ e) :: erest e) its.
  Proof.
    unfold elems_of. intros Hin. apply in_flat_map in Hin. destruct Hin as ([c s] & Hp & He).
    simpl in He. destruct s as [|[[k v]|er] r]; try contradiction.
    destruct He as [<-|[]]. simpl. exact Hp.
  Qed.

  Lemma in_elems_of (its : list (N * @stream K V)) c k v r :
    In (c, Ok (k, v) :: r) its -> In (mkElem k v c r) (elems_of its).
  Proof.
    intros Hin. unfold elems_of. apply in_flat_map. exists (c, Ok (k, v) :: r).
    split; [exact Hin|]. simpl. left. reflexivity.
  Qed.

  Lemma elems_of_ctx (its : list (N * @stream K V)) c :
    In c (map ectx (elems_of its)) -> In c (map fst its).
  Proof.
    intros Hin. apply in_map_iff in Hin. destruct Hin as (e & <- & He).
    apply elems_of_in in He. apply (in_map fst) in He. exact He.
  Qed.

  Lemma elems_of_nodup (its : list (N * @stream K V)) :
    NoDup (map fst its) -> NoDup (map ectx (elems_of its)).
  Proof.
    induction its as [|[c s] its IH]; intros Hnd; [constructor|].
    simpl in Hnd. apply NoDup_cons_iff in Hnd. destruct Hnd as [Hni Hnd].
    change (elems_of ((c, s) :: its))
      with (match s with Ok (k, v) :: r => [mkElem k v c r] | _ => [] end ++ elems_of its).
    destruct s as [|[[k v]|er] r]; simpl; try (apply IH; exact Hnd).
    constructor; [|apply IH; exact Hnd]. intros Hin. apply Hni, elems_of_ctx, Hin.
  Qed.

  Lemma elems_of_ok (its : list (N * @stream K V)) :
    Forall (fun p => all_ok (snd p) /\ nondesc (oks (snd p))) its ->
    Forall elem_ok (elems_of its).
  Proof.
    intros H. rewrite Forall_forall in *. intros e He. apply elems_of_in in He.
    destruct (H _ He) as [Hall Hs]. simpl in *. split; [apply (Forall_inv_tail Hall)|exact Hs].
  Qed.

  Lemma elems_of_size (its : list (N * @stream K V)) :
    Forall (fun p => all_ok (snd p)) its -> hsize (elems_of its) = total_len its.
  Proof.
    induction its as [|[c s] its IH]; intros Hall; [reflexivity|].
    pose proof (Forall_inv Hall) as Hs. apply Forall_inv_tail in Hall. simpl in Hs.
    change (elems_of ((c, s) :: its))
      with (match s with Ok (k, v) :: r => [mkElem k v c r] | _ => [] end ++ elems_of its).
    unfold hsize in *. simpl total_len. rewrite map_app, list_sum_app, (IH Hall).
    destruct s as [|[[k v]|er] r]; simpl; try lia.
    apply Forall_inv in Hs. destruct Hs as [kv Hkv]. discriminate.
  Qed.

  Lemma nodup_fst_fun (its : list (N * @stream K V)) c s s' :
    NoDup (map fst its) -> In (c, s) its -> In (c, s') its -> s = s'.
  Proof.
    induction its as [|[c0 s0] its IH]; intros Hnd H1 H2; [contradiction|].
    simpl in Hnd. apply NoDup_cons_iff in Hnd. destruct Hnd as [Hni Hnd].
    destruct H1 as [H1|H1], H2 as [H2|H2].
    - congruence.
    - exfalso. apply Hni. inversion H1; subst. apply (in_map fst) in H2. exact H2.
    - exfalso. apply Hni. inversion H2; subst. apply (in_map fst) in H1. exact H1.
    - apply IH; assumption.
  Qed.

  (* every element of every input exactly once, in non-descending order, with its input's identity:
     the sub-sequence of the output tagged c is exactly input c, and no other tags occur *)
  Theorem heap_merge_sorted (its : list (N * @stream K V)) :
    NoDup (map fst its) ->
    Forall (fun p => all_ok (snd p) /\ nondesc (oks (snd p))) its ->
    exists out,
      merge_all cmp its = Ok out
      /\ out_nondesc out
      /\ (forall c s, In (c, s) its -> of_ctx c out = oks s)
      /\ Forall (fun x => In (snd x) (map fst its)) out
      /\ length out = total_len its.
  Proof.
    intros Hnd Hits.
    assert (Hall : Forall (fun p => all_ok (snd p)) its)
      by (eapply Forall_impl; [|exact Hits]; intros p Hp; apply Hp).
    destruct (init_from_ok its [] Hall) as (hf & Hinit & Hokf & Hperm).
    { intros k d Hk. simpl in Hk. lia. }
    simpl in Hperm.
    assert (Hin : forall e, In e hf <-> In e (elems_of its)).
    { intros e. split; apply Permutation_in; [|apply Permutation_sym]; exact Hperm. }
    assert (Hinv : heap_inv hf).
    { split; [exact Hokf|]. split.
      - eapply Permutation_Forall; [apply Permutation_sym, Hperm|apply elems_of_ok, Hits].
      - eapply Permutation_NoDup; [apply Permutation_map, Permutation_sym, Hperm|].
        apply elems_of_nodup, Hnd. }
    assert (Hsz : hsize hf = total_len its).
    { rewrite <- (elems_of_size its Hall). unfold hsize.
      apply Permutation_list_sum, Permutation_map, Hperm. }
    destruct (drain_ok (S (total_len its)) hf Hinv) as (out & Hdrain & Hs & Hof & Htag & Hlen);
      [lia|].
    assert (Htag' : forall y, In y out -> exists e, In e (elems_of its) /\ ectx e = snd y).
    { rewrite Forall_forall in Htag. intros y Hy. pose proof (Htag y Hy) as Hc.
      apply in_map_iff in Hc. destruct Hc as (e & Hec & He). exists e.
      split; [apply Hin, He|exact Hec]. }
    exists out. unfold merge_all, init. rewrite Hinit.
    split; [exact Hdrain|]. split; [exact Hs|]. split; [|split].
    - intros c s Hcs. rewrite Forall_forall in Hits. destruct (Hits _ Hcs) as [Hsall _].
      simpl in Hsall. destruct s as [|[[k v]|er] r].
      + apply of_ctx_none. intros y Hy Hc. destruct (Htag' y Hy) as (e & He & Hec).
        apply elems_of_in in He. rewrite Hec, Hc in He.
        pose proof (nodup_fst_fun its c _ _ Hnd Hcs He) as Habs. discriminate.
      + apply in_elems_of in Hcs. apply Hin in Hcs. apply Hof in Hcs. exact Hcs.
      + apply Forall_inv in Hsall. destruct Hsall as [kv Hkv]. discriminate.
    - apply Forall_forall. intros y Hy. destruct (Htag' y Hy) as (e & He & Hec).
      rewrite <- Hec. apply elems_of_ctx, in_map, He.
    - rewrite Hlen. exact Hsz.
  Qed.

  (* ---------- errors ---------- *)
  Definition has_err (h : heap) : Prop :=
    exists e, In e h /\ exists er, In (Err er) (erest e).

  Lemma has_err_perm (h h' : heap) : Permutation h h' -> has_err h -> has_err h'.
  Proof.
    intros Hp (e & He & Her). exists e. split; [eapply Permutation_in; eassumption|exact Her].
  Qed.

  Lemma drain_err fuel : forall h : heap,
    has_err h -> exists e, drain_heap cmp fuel h = Err e.
  Proof.
    induction fuel as [|f IH]; intros h Hbad; [exists OutOfFuel; reflexivity|].
    destruct h as [|top rest]; [destruct Hbad as (e & [] & _)|].
    cbn [drain_heap]. destruct (erest top) as [|[[k v]|er] r] eqn:Hr.
    - rewrite (next_done top rest Hr).
      destruct (IH (down_heap cmp (pop_last top rest))) as [e0 He0].
      + apply (has_err_perm rest).
        * apply Permutation_sym. eapply perm_trans; [apply down_heap_perm|apply pop_last_perm].
        * destruct Hbad as (e & [<-|He] & er & Her); [rewrite Hr in Her; contradiction|].
          exists e. split; [exact He|exists er; exact Her].
      + rewrite He0. exists e0. reflexivity.
    - rewrite (next_fill top rest k v r Hr).
      destruct (IH (down_heap cmp (mkElem k v (ectx top) r :: rest))) as [e0 He0].
      + apply (has_err_perm (mkElem k v (ectx top) r :: rest));
          [apply Permutation_sym, down_heap_perm|].
        destruct Hbad as (e & [<-|He] & er & Her).
        * rewrite Hr in Her. destruct Her as [Her|Her]; [discriminate|].
          exists (mkElem k v (ectx top) r). split; [left; reflexivity|exists er; exact Her].
        * exists e. split; [right; exact He|exists er; exact Her].
      + rewrite He0. exists e0. reflexivity.
    - rewrite (next_err top rest er r Hr). exists er. reflexivity.
  Qed.

  Definition bad_its (its : list (N * @stream K V)) : Prop :=
    exists c s e, In (c, s) its /\ In (Err e) s.

  Lemma init_from_err (its : list (N * @stream K V)) : forall h : heap,
    has_err h \/ bad_its its ->
    (exists e, init_from cmp its h = Err e) \/
    (exists hf, init_from cmp its h = Ok hf /\ has_err hf).
  Proof.
    induction its as [|[c s] its IH]; intros h Hbad.
    - right. exists h. split; [reflexivity|].
      destruct Hbad as [Hh|(c & s & e & [] & _)]. exact Hh.
    - destruct s as [|[[k v]|er] r].
      + simpl. apply IH. destruct Hbad as [Hh|(c' & s' & e & [Heq|Hin] & He)].
        * left. exact Hh.
        * inversion Heq; subst. contradiction.
        * right. exists c', s', e. split; assumption.
      + set (e0 := mkElem k v c r).
        change (init_from cmp ((c, Ok (k, v) :: r) :: its) h)
          with (init_from cmp its (up_heap cmp (h ++ [e0]) (length (h ++ [e0])))).
        apply IH.
        assert (Hup : forall x, In x (h ++ [e0]) ->
                                In x (up_heap cmp (h ++ [e0]) (length (h ++ [e0]))))
          by (intros x; apply Permutation_in, Permutation_sym, up_heap_snoc_perm).
        destruct Hbad as [(e & He & Her)|(c' & s' & e & [Heq|Hin] & He)].
        * left. exists e. split; [apply Hup, in_or_app; left; exact He|exact Her].
        * inversion Heq; subst. destruct He as [He|He]; [discriminate|].
          left. exists e0. split; [apply Hup, in_or_app; right; left; reflexivity|].
          exists e. exact He.
        * right. exists c', s', e. split; assumption.
      + left. exists er. reflexivity.
  Qed.

  (* an error of any input propagates: the merge never reports success *)
  Theorem heap_merge_error (its : list (N * @stream K V)) :
    (exists c s e, In (c, s) its /\ In (Err e) s) ->
    exists e, merge_all cmp its = Err e.
  Proof.
    intros Hbad. unfold merge_all, init.
    destruct (init_from_err its [] (or_intror Hbad)) as [[e He]|(hf & Hf & Hhf)].
    - rewrite He. exists e. reflexivity.
    - rewrite Hf. apply drain_err. exact Hhf.
  Qed.
End Facts.

Example heap_example :
  merge_all bcmp [(0%N, [Ok ([1%N], [10%N]); Ok ([5%N], [50%N])]); (1%N, []); (2%N, [Ok ([1%N], [11%N]); Ok ([3%N], [30%N])])]
  = Ok [([1%N], [10%N], 0%N); ([1%N], [11%N], 2%N); ([3%N], [30%N], 2%N); ([5%N], [50%N], 0%N)].
Proof. vm_compute. reflexivity. Qed.

Print Assumptions heap_merge_sorted.
Print Assumptions heap_merge_error.
Print Assumptions heap_example.
