(* Model of skiplist/map_generic.go.
   Representation: the level-0 chain as a list of towers (key, value, height); the level-l chain
   is the sub-list of towers whose height exceeds l (that is what the next[] pointers encode).
   find_ge is the staircase descent of findGreaterOrEqual, written over that representation.
   Heights come from a list supplied by the caller (math/rand in the code): every theorem
   quantifies over it. *)
From GoSST Require Import Base.Bytes.

Section SkipList.
  Context {K V : Type}.
  Variable cmp : K -> K -> comparison.

  Record tower := mkTower { tkey : K; tval : V; th : nat }.
  Definition sl := list tower.

  Definition max_height : nat := 12.

  (* one level of the descent: starting with x "just before" [suf], follow level-l pointers
     while the target is greater than the next key.  None = x did not move. *)
  Fixpoint adv (l : nat) (key : K) (suf : sl) : option sl :=
    match suf with
    | [] => None
    | t :: r =>
        if Nat.ltb l (th t) then
          match cmp key (tkey t) with
          | Gt => Some (match adv l key r with Some s => s | None => r end)
          | _ => None
          end
        else adv l key r
    end.

  Definition advance (l : nat) (key : K) (suf : sl) : sl :=
    match adv l key suf with Some s => s | None => suf end.

  (* findGreaterOrEqual: returns the suffix of the level-0 chain that starts at the returned node
     (empty = nil node) *)
  Fixpoint descend (lvl : nat) (key : K) (suf : sl) : sl :=
    let s := advance lvl key suf in
    match lvl with
    | O => s
    | S l' => descend l' key s
    end.

  Definition find_ge (key : K) (m : sl) : sl := descend (max_height - 1) key m.

  Definition get (key : K) (m : sl) : option V :=
    match find_ge key m with
    | t :: _ => match cmp key (tkey t) with Eq => Some (tval t) | _ => None end
    | [] => None
    end.

  Definition contains (key : K) (m : sl) : bool :=
    match get key m with Some _ => true | None => false end.

  Definition size (m : sl) : nat := length m.

  (* Insert: the new tower is spliced in directly before the node find_ge returned.
     res = None models the panic on duplicate keys. *)
  Definition insert (key : K) (v : V) (h : nat) (m : sl) : option sl :=
    let s := find_ge key m in
    let dup := match s with
               | t :: _ => match cmp key (tkey t) with Eq => true | _ => false end
               | [] => false
               end in
    if dup then None
    else Some (firstn (length m - length s) m ++ mkTower key v h :: s).

  (* iterators: state = (current suffix, keyHigher, doneNext); Next as coded *)
  Record iter := mkIter { inode : sl; ihigh : option K; idone : bool }.

  Definition iter_next (it : iter) : option (K * V) * iter :=
    match inode it with
    | [] => (None, it)
    | cur :: rest =>
        if idone it then (None, it)
        else
          let it' := mkIter rest (ihigh it) (idone it) in
          match ihigh it with
          | None => (Some (tkey cur, tval cur), it')
          | Some hi =>
              match cmp (tkey cur) hi with
              | Eq => (Some (tkey cur, tval cur), mkIter rest (ihigh it) true)
              | Gt => (None, it')
              | Lt => (Some (tkey cur, tval cur), it')
              end
          end
    end.

  (* drain an iterator: call Next until it reports Done (fuel = remaining chain length + 1) *)
  Fixpoint drain (fuel : nat) (it : iter) : list (K * V) :=
    match fuel with
    | O => []
    | S f =>
        match iter_next it with
        | (Some kv, it') => kv :: drain f it'
        | (None, _) => []
        end
    end.

  Definition iterator (m : sl) : iter := mkIter m None false.
  Definition iterator_starting_at (key : K) (m : sl) : iter := mkIter (find_ge key m) None false.
  Definition iterator_between (lo hi : K) (m : sl) : option iter :=
    match cmp lo hi with
    | Gt => None
    | _ => Some (mkIter (find_ge lo m) (Some hi) false)
    end.

  Definition scan_all (m : sl) : list (K * V) := drain (S (length m)) (iterator m).
  Definition scan_from (key : K) (m : sl) : list (K * V) :=
    drain (S (length m)) (iterator_starting_at key m).
  Definition scan_between (lo hi : K) (m : sl) : option (list (K * V)) :=
    match iterator_between lo hi m with
    | Some it => Some (drain (S (length m)) it)
    | None => None
    end.

  (* build a map from insertions (key, value, height) *)
  Fixpoint inserts (l : list (K * V * nat)) (m : sl) : option sl :=
    match l with
    | [] => Some m
    | (k, v, h) :: r =>
        match insert k v h m with
        | Some m' => inserts r m'
        | None => None
        end
    end.

  (* specification side: plain sorted association list *)
  Definition kvs (m : sl) : list (K * V) := map (fun t => (tkey t, tval t)) m.
End SkipList.

Arguments mkTower {K V}.
Arguments tkey {K V}.
Arguments tval {K V}.
Arguments th {K V}.
