(* Model of pq/priority_queue.go: binary min-heap of iterators keyed by their current head.
   The heap slice with its reserved slot 0 is a list whose element i (1-based) is [nth (i-1)].
   An iterator is its residual stream: a list of items, each Ok (key, value) or an error;
   running off the end is Done. *)
From GoSST Require Import Base.Bytes.

Section Heap.
  Context {K V : Type}.
  Variable cmp : K -> K -> comparison.

  Definition stream := list (res (K * V)).

  Record elem := mkElem { ekey : K; eval_ : V; ectx : N; erest : stream }.

  Definition heap := list elem.   (* 1-based: slot i = nth (i-1) *)

  Definition less (a b : elem) : bool :=
    match cmp (ekey a) (ekey b) with Lt => true | _ => false end.

  Definition hget (h : heap) (i : nat) (d : elem) : elem := nth (i - 1) h d.

  Fixpoint hset (h : heap) (i : nat) (e : elem) : heap :=   (* i is 0-based here *)
    match h, i with
    | [], _ => []
    | _ :: r, O => e :: r
    | x :: r, S i' => x :: hset r i' e
    end.
  Definition hput (h : heap) (i : nat) (e : elem) : heap := hset h (i - 1) e.

  (* upHeap(i): element := heap[i]; j := i/2; while j>0 && element < heap[j] { heap[i]=heap[j]; i=j; j/=2 }; heap[i]=element *)
  Fixpoint up_loop (fuel : nat) (h : heap) (element : elem) (i : nat) : heap :=
    match fuel with
    | O => hput h i element
    | S f =>
        let j := Nat.div2 i in
        if (Nat.ltb 0 j) && less element (hget h j element) then
          up_loop f (hput h i (hget h j element)) element j
        else hput h i element
    end.
  Definition up_heap (h : heap) (i : nat) : heap :=
    match nth_error h (i - 1) with
    | Some element => up_loop i h element i
    | None => h
    end.

  (* downHeap as coded (always from the root) *)
  Definition pick_child (h : heap) (size : nat) (i : nat) (d : elem) : nat :=
    let j := 2 * i in
    let k := j + 1 in
    if (Nat.leb k size) && less (hget h k d) (hget h j d) then k else j.

  Fixpoint down_loop (fuel : nat) (h : heap) (size : nat) (element : elem) (i j : nat) : heap :=
    match fuel with
    | O => hput h i element
    | S f =>
        if (Nat.leb j size) && less (hget h j element) element then
          let h' := hput h i (hget h j element) in
          let i' := j in
          down_loop f h' size element i' (pick_child h' size i' element)
        else hput h i element
    end.
  Definition down_heap (h : heap) : heap :=
    match h with
    | [] => []
    | element :: _ =>
        let size := length h in
        down_loop size h size element 1 (pick_child h size 1 element)
    end.

  (* fillNext on a fresh element / on the root *)
  Inductive fill := FillOk (e : elem) | FillDone | FillErr (e : err).
  Definition fill_next (ctx : N) (s : stream) : fill :=
    match s with
    | [] => FillDone
    | Ok (k, v) :: r => FillOk (mkElem k v ctx r)
    | Err e :: _ => FillErr e
    end.

  (* init: for each iterator fill, append, upHeap(size); Done iterators are skipped; errors abort *)
  Fixpoint init_from (its : list (N * stream)) (h : heap) : res heap :=
    match its with
    | [] => Ok h
    | (ctx, s) :: r =>
        match fill_next ctx s with
        | FillOk e => let h' := h ++ [e] in init_from r (up_heap h' (length h'))
        | FillDone => init_from r h
        | FillErr e => Err e
        end
    end.
  Definition init (its : list (N * stream)) : res heap := init_from its [].

  (* Next: None = Done *)
  Definition next (h : heap) : res (option (K * V * N) * heap) :=
    match h with
    | [] => Ok (None, h)
    | top :: rest =>
        match fill_next (ectx top) (erest top) with
        | FillErr e => Err e
        | FillOk e' => Ok (Some (ekey top, eval_ top, ectx top), down_heap (e' :: rest))
        | FillDone =>
            (* swap(1,size); chop; downHeap *)
            let size := length h in
            let last := hget h size top in
            let h1 := removelast (hput h 1 last) in
            Ok (Some (ekey top, eval_ top, ectx top), down_heap h1)
        end
    end.

  Fixpoint drain_heap (fuel : nat) (h : heap) : res (list (K * V * N)) :=
    match fuel with
    | O => Err OutOfFuel
    | S f =>
        match next h with
        | Err e => Err e
        | Ok (None, _) => Ok []
        | Ok (Some x, h') =>
            match drain_heap f h' with
            | Ok l => Ok (x :: l)
            | Err e => Err e
            end
        end
    end.

  Definition total_len (its : list (N * stream)) : nat :=
    fold_right (fun p acc => length (snd p) + acc)%nat 0%nat its.

  Definition merge_all (its : list (N * stream)) : res (list (K * V * N)) :=
    match init its with
    | Ok h => drain_heap (S (total_len its)) h
    | Err e => Err e
    end.
End Heap.

Arguments mkElem {K V}.
Arguments ekey {K V}.
Arguments eval_ {K V}.
Arguments ectx {K V}.
Arguments erest {K V}.
