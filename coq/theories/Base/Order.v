(* Comparator laws (Go comparators return <0 / 0 / >0; modelled as Coq's comparison) and the
   proof that bcmp (bytes.Compare) satisfies them. *)
From GoSST Require Import Base.Bytes.
From Coq Require Import Lia.

Record cmp_laws {K} (cmp : K -> K -> comparison) : Prop := {
  cl_refl : forall a, cmp a a = Eq;
  cl_eq : forall a b, cmp a b = Eq -> a = b;
  cl_antisym : forall a b, cmp b a = CompOpp (cmp a b);
  cl_trans : forall a b c, cmp a b = Lt -> cmp b c = Lt -> cmp a c = Lt
}.

Lemma bcmp_refl a : bcmp a a = Eq.
Proof. induction a as [|x a IH]; simpl; [reflexivity|]. rewrite N.compare_refl. exact IH. Qed.

Lemma bcmp_eq a b : bcmp a b = Eq -> a = b.
Proof.
  revert b; induction a as [|x a IH]; intros [|y b]; simpl; try discriminate; [reflexivity|].
  destruct (N.compare x y) eqn:E; try discriminate.
  apply N.compare_eq in E. intros H. f_equal; [exact E | apply IH; exact H].
Qed.

Lemma bcmp_antisym a b : bcmp b a = CompOpp (bcmp a b).
Proof.
  revert b; induction a as [|x a IH]; intros [|y b]; simpl; try reflexivity.
  rewrite (N.compare_antisym x y). destruct (N.compare x y); simpl; try reflexivity. apply IH.
Qed.

Lemma bcmp_trans a b c : bcmp a b = Lt -> bcmp b c = Lt -> bcmp a c = Lt.
Proof.
  revert b c; induction a as [|x a IH]; intros [|y b] [|z c]; simpl; try discriminate; try reflexivity.
  destruct (N.compare x y) eqn:E1; destruct (N.compare y z) eqn:E2; try discriminate; intros H1 H2.
  - apply N.compare_eq in E1, E2. subst. rewrite N.compare_refl. eapply IH; eassumption.
  - apply N.compare_eq in E1. subst. rewrite E2. reflexivity.
  - apply N.compare_eq in E2. subst. rewrite E1. reflexivity.
  - rewrite N.compare_lt_iff in *. assert (x < z)%N by lia.
    destruct (N.compare x z) eqn:E3; try reflexivity; [apply N.compare_eq in E3|rewrite N.compare_gt_iff in E3]; lia.
Qed.

Lemma bcmp_laws : cmp_laws bcmp.
Proof. constructor; [apply bcmp_refl|apply bcmp_eq|apply bcmp_antisym|apply bcmp_trans]. Qed.

(* derived facts used everywhere *)
Section Derived.
  Context {K} (cmp : K -> K -> comparison) (L : cmp_laws cmp).

  Lemma cmp_gt_lt a b : cmp a b = Gt <-> cmp b a = Lt.
  Proof. rewrite (cl_antisym _ L a b). destruct (cmp a b); simpl; split; congruence. Qed.

  Lemma cmp_eq_sym a b : cmp a b = Eq -> cmp b a = Eq.
  Proof. intros H. rewrite (cl_antisym _ L a b), H. reflexivity. Qed.

  Lemma cmp_eq_iff a b : cmp a b = Eq <-> a = b.
  Proof. split; [apply (cl_eq _ L)|intros ->; apply (cl_refl _ L)]. Qed.

  Lemma cmp_lt_irrefl a : cmp a a <> Lt.
  Proof. rewrite (cl_refl _ L). discriminate. Qed.

  Lemma cmp_le_lt_trans a b c : cmp a b <> Gt -> cmp b c = Lt -> cmp a c = Lt.
  Proof.
    intros H1 H2. destruct (cmp a b) eqn:E; try congruence.
    - apply (cl_eq _ L) in E. subst. exact H2.
    - eapply (cl_trans _ L); eassumption.
  Qed.

  Lemma cmp_lt_le_trans a b c : cmp a b = Lt -> cmp b c <> Gt -> cmp a c = Lt.
  Proof.
    intros H1 H2. destruct (cmp b c) eqn:E; try congruence.
    - apply (cl_eq _ L) in E. subst. exact H1.
    - eapply (cl_trans _ L); eassumption.
  Qed.

  Lemma cmp_le_trans a b c : cmp a b <> Gt -> cmp b c <> Gt -> cmp a c <> Gt.
  Proof.
    intros H1 H2. destruct (cmp a b) eqn:E; try congruence.
    - apply (cl_eq _ L) in E. subst. exact H2.
    - rewrite (cmp_lt_le_trans a b c E H2). discriminate.
  Qed.
End Derived.
