(* Facts about the uvarint codec: decoding an encoding (followed by anything) returns the value and
   exactly the rest, for every value below 2^64. *)
From GoSST Require Import Base.Bytes Base.Varint.
From Coq Require Import Lia.
Local Open Scope N_scope.

Lemma split7 x : N.lor (N.land x 127) (N.shiftl (N.shiftr x 7) 7) = x.
Proof.
  apply N.bits_inj; intro n. rewrite N.lor_spec, N.land_spec.
  change 127 with (N.ones 7).
  destruct (N.ltb_spec n 7) as [H|H].
  - rewrite N.ones_spec_low by lia. rewrite N.shiftl_spec_low by lia. rewrite andb_true_r, orb_false_r. reflexivity.
  - rewrite N.ones_spec_high by lia. rewrite N.shiftl_spec_high' by lia. rewrite N.shiftr_spec'.
    rewrite andb_false_r. cbn [orb]. f_equal. lia.
Qed.

Lemma low7_or128_ge x : 128 <= N.lor (N.land x 127) 128.
Proof.
  apply N.le_trans with (N.lor 128 (N.land x 127)); [|rewrite N.lor_comm; lia].
  destruct (N.eq_dec (N.land x 127) 0) as [->|Hn]; [simpl; lia|].
  assert (Hb : N.testbit (N.lor 128 (N.land x 127)) 7 = true).
  { rewrite N.lor_spec. reflexivity. }
  apply N.testbit_true in Hb. change (2^7) with 128 in Hb.
  destruct (N.lt_ge_cases (N.lor 128 (N.land x 127)) 128) as [Hlt|]; [|assumption].
  rewrite N.div_small in Hb by assumption. discriminate.
Qed.

Lemma land127_of_or x : N.land (N.lor (N.land x 127) 128) 127 = N.land x 127.
Proof.
  apply N.bits_inj; intro n. rewrite !N.land_spec, N.lor_spec, N.land_spec.
  change 127 with (N.ones 7). change 128 with (2^7). rewrite N.pow2_bits_eqb.
  destruct (N.ltb_spec n 7) as [H|H].
  - rewrite N.ones_spec_low by lia. replace (7 =? n) with false by (symmetry; apply N.eqb_neq; lia).
    rewrite andb_true_r, orb_false_r. reflexivity.
  - rewrite N.ones_spec_high by lia. rewrite !andb_false_r. reflexivity.
Qed.

Lemma shiftr7_lt x k : x < 2 ^ (k + 7) -> N.shiftr x 7 < 2 ^ k.
Proof.
  intro H. rewrite N.shiftr_div_pow2. apply N.div_lt_upper_bound; [apply N.pow_nonzero; lia|].
  rewrite <- N.pow_add_r. rewrite N.add_comm. exact H.
Qed.

(* generalised round trip: i bytes consumed so far, k = 10 - i groups may still follow,
   x fits in the 64 - 7 i remaining bits *)
Lemma uv_roundtrip_gen : forall (k : nat) (fe fd : nat) (i acc x : N) rest,
  (k <= fe)%nat -> (k <= fd)%nat -> N.of_nat k + i = 10 -> (0 < k)%nat ->
  x < 2 ^ (64 - 7 * i) ->
  uv_dec_go fd i acc (7 * i) (uv_enc_fuel fe x ++ rest) = Ok (N.lor acc (N.shiftl x (7 * i)), rest).
Proof.
  induction k as [|k IH]; intros fe fd i acc x rest Hfe Hfd Hk Hpos Hx; [lia|].
  destruct fe as [|fe]; [lia|]. destruct fd as [|fd]; [lia|].
  cbn [uv_enc_fuel]. destruct (N.ltb_spec x 128) as [Hs|Hb].
  - cbn [app uv_dec_go]. replace (x <? 128) with true by (symmetry; apply N.ltb_lt; exact Hs).
    destruct (N.eqb_spec i 9) as [E|E]; cbn [andb]; [|reflexivity].
    subst i. change (64 - 7 * 9) with 1 in Hx. change (2 ^ 1) with 2 in Hx.
    replace (1 <? x) with false by (symmetry; apply N.ltb_ge; lia). reflexivity.
  - cbn [app uv_dec_go].
    replace (N.lor (N.land x 127) 128 <? 128) with false by (symmetry; apply N.ltb_ge; apply low7_or128_ge).
    rewrite land127_of_or.
    destruct k as [|k].
    { (* i = 9: x < 2 contradicts 128 <= x *)
      assert (i = 9) by lia. subst i. change (64 - 7 * 9) with 1 in Hx. change (2 ^ 1) with 2 in Hx. lia. }
    replace (7 * i + 7) with (7 * (i + 1)) by lia.
    rewrite (IH fe fd (i + 1) _ (N.shiftr x 7) rest); try lia.
    + f_equal. f_equal. rewrite <- N.lor_assoc. f_equal.
      replace (7 * (i + 1)) with (7 + 7 * i) by lia.
      rewrite <- N.shiftl_shiftl, <- N.shiftl_lor. f_equal. apply split7.
    + apply shiftr7_lt. replace (64 - 7 * (i + 1) + 7) with (64 - 7 * i) by lia. exact Hx.
Qed.

Theorem uv_roundtrip x rest : x < 2 ^ 64 -> uv_dec (uv_enc x ++ rest) = Ok (x, rest).
Proof.
  intro H. unfold uv_dec, uv_enc.
  change 0 with (7 * 0) at 3.
  rewrite (uv_roundtrip_gen 10 10 10 0 0 x rest); try lia; [|exact H].
  rewrite N.lor_0_l. change (7 * 0) with 0. rewrite N.shiftl_0_r. reflexivity.
Qed.

(* ---- the value of a uvarint byte string (low 7 bits of each byte, little endian) ---- *)
Lemma land127_small b : b < 128 -> N.land b 127 = b.
Proof. intro H. change 127 with (N.ones 7). rewrite N.land_ones. apply N.mod_small. exact H. Qed.

Lemma group_low a c : N.land (N.lor (N.land a 127) (N.shiftl c 7)) 127 = N.land a 127.
Proof.
  apply N.bits_inj; intro n. rewrite !N.land_spec, N.lor_spec, N.land_spec.
  change 127 with (N.ones 7).
  destruct (N.ltb_spec n 7) as [H|H].
  - rewrite N.ones_spec_low by lia. rewrite N.shiftl_spec_low by lia.
    rewrite !andb_true_r, orb_false_r. reflexivity.
  - rewrite N.ones_spec_high by lia. rewrite !andb_false_r. reflexivity.
Qed.

Lemma group_high a c : N.shiftr (N.lor (N.land a 127) (N.shiftl c 7)) 7 = c.
Proof.
  apply N.bits_inj; intro n. rewrite N.shiftr_spec', N.lor_spec, N.land_spec.
  change 127 with (N.ones 7).
  rewrite N.ones_spec_high by lia. rewrite andb_false_r. cbn [orb].
  rewrite N.shiftl_spec_high' by lia. f_equal. lia.
Qed.

(* a continuation byte is its low 7 bits with bit 7 set *)
Lemma cont_byte c : 128 <= c -> c < 256 -> N.lor (N.land c 127) 128 = c.
Proof.
  intros H1 H2.
  assert (Hd : N.land (N.land c 127) 128 = 0).
  { rewrite <- N.land_assoc. change (N.land 127 128) with 0. apply N.land_0_r. }
  rewrite <- N.lxor_lor by exact Hd. rewrite <- N.add_nocarry_lxor by exact Hd.
  change 127 with (N.ones 7). rewrite N.land_ones. change (2 ^ 7) with 128.
  replace c with ((c - 128) + 1 * 128) at 1 by lia. rewrite N.mod_add by lia.
  rewrite N.mod_small by lia. lia.
Qed.

Fixpoint uv_val (e : bytes) : N :=
  match e with [] => 0 | b :: t => N.lor (N.land b 127) (N.shiftl (uv_val t) 7) end.

Lemma uv_val_single b : b < 128 -> uv_val [b] = b.
Proof. intro H. cbn [uv_val]. rewrite N.shiftl_0_l, N.lor_0_r. apply land127_small. exact H. Qed.

(* what ReadUvarint accepts: continuation bytes, then one byte below 128; the value is uv_val of them *)
Lemma uv_dec_go_shape : forall fuel i acc s l v rest,
  uv_dec_go fuel i acc s l = Ok (v, rest) ->
  exists pre b, l = pre ++ b :: rest /\ Forall (fun c => 128 <= c) pre /\ b < 128
    /\ v = N.lor acc (N.shiftl (uv_val (pre ++ [b])) s).
Proof.
  induction fuel as [|f IH]; intros i acc s l v rest H; cbn [uv_dec_go] in H; [discriminate|].
  destruct l as [|b t]; [destruct (i =? 0); discriminate|].
  destruct (N.ltb_spec b 128) as [Hb|Hb].
  - destruct (andb (i =? 9) (1 <? b)); [discriminate|]. injection H as Hv Hr. subst v t.
    exists [], b. cbn [app]. rewrite uv_val_single by exact Hb.
    split; [reflexivity|]. split; [constructor|]. split; [exact Hb|reflexivity].
  - apply IH in H. destruct H as (pre & c & Hl & HF & Hc & Hv). subst t v.
    exists (b :: pre), c. cbn [app uv_val].
    split; [reflexivity|]. split; [constructor; assumption|]. split; [exact Hc|].
    rewrite N.shiftl_lor, N.shiftl_shiftl, N.lor_assoc. replace (7 + s) with (s + 7) by lia. reflexivity.
Qed.

Lemma uv_dec_shape l v rest : uv_dec l = Ok (v, rest) ->
  exists pre b, l = pre ++ b :: rest /\ Forall (fun c => 128 <= c) pre /\ b < 128
    /\ v = uv_val (pre ++ [b]).
Proof.
  unfold uv_dec. intro H. apply uv_dec_go_shape in H.
  destruct H as (pre & b & Hl & HF & Hb & Hv). exists pre, b.
  rewrite N.lor_0_l, N.shiftl_0_r in Hv. repeat split; assumption.
Qed.

(* the encoder reproduces a byte string of that shape from its value as soon as the lengths agree *)
Lemma uv_enc_fuel_canon : forall pre b f,
  Forall (fun c => 128 <= c) pre -> Forall (fun c => c < 256) pre -> b < 128 ->
  length (uv_enc_fuel f (uv_val (pre ++ [b]))) = S (length pre) ->
  uv_enc_fuel f (uv_val (pre ++ [b])) = pre ++ [b].
Proof.
  induction pre as [|a pre IH]; intros b f HF HW Hb HL.
  - cbn [app] in *. rewrite uv_val_single in * by exact Hb.
    destruct f as [|f]; [cbn in HL; discriminate|]. cbn [uv_enc_fuel].
    replace (b <? 128) with true by (symmetry; apply N.ltb_lt; exact Hb). reflexivity.
  - cbn [app uv_val length] in *.
    destruct f as [|f]; [cbn in HL; discriminate|]. cbn [uv_enc_fuel] in *.
    destruct (N.ltb_spec (N.lor (N.land a 127) (N.shiftl (uv_val (pre ++ [b])) 7)) 128) as [Hs|Hs].
    + cbn [length] in HL. lia.
    + rewrite group_low, group_high in *. cbn [length] in HL.
      inversion HF as [|a' pre' Ha HF']; subst a' pre'.
      inversion HW as [|a' pre' Ha2 HW']; subst a' pre'.
      rewrite cont_byte by assumption. f_equal. apply IH; try assumption. lia.
Qed.

(* ---- readMinimalUvarint ---- *)
Lemma uv_dec_min_inv l v rest : uv_dec_min l = Ok (v, rest) ->
  uv_dec l = Ok (v, rest) /\ (length l - length rest)%nat = length (uv_enc v).
Proof.
  unfold uv_dec_min, uv_min_len. destruct (uv_dec l) as [[v' rest']|e]; [|discriminate].
  destruct (Nat.eqb_spec (length l - length rest') (length (uv_enc v'))) as [E|E]; [|discriminate].
  intro H. injection H as Hv Hr. subst v' rest'. split; [reflexivity|exact E].
Qed.

Lemma uv_dec_min_dec l v rest : uv_dec_min l = Ok (v, rest) -> uv_dec l = Ok (v, rest).
Proof. intro H. apply uv_dec_min_inv in H. apply H. Qed.

Lemma uv_dec_min_err l e : uv_dec l = Err e -> uv_dec_min l = Err e.
Proof. intro H. unfold uv_dec_min. rewrite H. reflexivity. Qed.

(* on error the minimal reader reports ReadUvarint's error or a header checksum mismatch *)
Lemma uv_dec_min_err_inv l e : uv_dec_min l = Err e -> uv_dec l = Err e \/ e = HeaderChecksum.
Proof.
  unfold uv_dec_min. destruct (uv_dec l) as [[v rest]|e']; [|intro H; left; exact H].
  destruct (Nat.eqb (length l - length rest) (uv_min_len v)); [discriminate|].
  intro H. injection H as H. right. symmetry. exact H.
Qed.

Theorem uv_dec_min_roundtrip x rest : x < 2 ^ 64 -> uv_dec_min (uv_enc x ++ rest) = Ok (x, rest).
Proof.
  intro H. unfold uv_dec_min, uv_min_len. rewrite uv_roundtrip by exact H.
  rewrite app_length. replace (length (uv_enc x) + length rest - length rest)%nat with (length (uv_enc x)) by lia.
  rewrite Nat.eqb_refl. reflexivity.
Qed.

(* CANONICITY: the bytes the minimal reader consumes have the length of the minimal encoding of the
   value, and (being bytes) they ARE the minimal encoding.  The byte-range condition is needed in
   this model because list elements are unbounded numbers: [1000; 1] decodes like [232; 1]. *)
Theorem uv_dec_min_consumed l v rest : uv_dec_min l = Ok (v, rest) ->
  exists e, l = e ++ rest /\ length e = length (uv_enc v)
    /\ (Forall (fun b => b < 256) e -> e = uv_enc v).
Proof.
  intro H. apply uv_dec_min_inv in H. destruct H as [Hd Hlen].
  apply uv_dec_shape in Hd. destruct Hd as (pre & b & Hl & HF & Hb & Hv).
  exists (pre ++ [b]). subst l.
  assert (Hlen' : length (uv_enc v) = S (length pre)).
  { rewrite <- Hlen. rewrite app_length. cbn [length]. lia. }
  split; [rewrite <- app_assoc; reflexivity|].
  split; [rewrite app_length; cbn [length]; lia|].
  intro HW. apply Forall_app in HW. destruct HW as [HW _].
  subst v. symmetry. apply uv_enc_fuel_canon; assumption.
Qed.

Theorem uv_dec_min_canonical l v rest :
  Forall (fun b => b < 256) l -> uv_dec_min l = Ok (v, rest) -> l = uv_enc v ++ rest.
Proof.
  intros HW H. destruct (uv_dec_min_consumed l v rest H) as (e & Hl & _ & He).
  subst l. apply Forall_app in HW. destruct HW as [HW _]. rewrite <- (He HW). reflexivity.
Qed.

(* without the byte-range condition the statement is false in the model *)
Example uv_dec_min_canonical_needs_bytes :
  uv_dec_min [1000; 1] = Ok (232, []) /\ uv_enc 232 = [232; 1].
Proof. split; vm_compute; reflexivity. Qed.

(* two accepted encodings of the same value are the same bytes *)
Corollary uv_dec_min_unique l1 l2 v r1 r2 :
  Forall (fun b => b < 256) l1 -> Forall (fun b => b < 256) l2 ->
  uv_dec_min l1 = Ok (v, r1) -> uv_dec_min l2 = Ok (v, r2) ->
  exists e, l1 = e ++ r1 /\ l2 = e ++ r2.
Proof.
  intros W1 W2 H1 H2. exists (uv_enc v).
  split; apply uv_dec_min_canonical; assumption.
Qed.

Print Assumptions uv_dec_min_roundtrip.
Print Assumptions uv_dec_min_canonical.
