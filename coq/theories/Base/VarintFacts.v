(* Facts about the uvarint codec: decoding an encoding (followed by anything) returns the value and
   exactly the rest, for every value below 2^64. *)
From GoSST Require Import Base.Bytes Base.Varint.
From Coq Require Import Lia.
Local Open Scope N_scope.

Lemma split7 x : N.lor (N.land x 127) (N.shiftl (N.shiftr x 7) 7) = x.
Proof.
  apply N.bits_inj; intro n. rewrite N.lor_spec, N.land_spec.
  change 127 with (N.ones 7).
  destruct (N.ltb_spec n 7) as [H|H].
  - rewrite N.ones_spec_low by lia. rewrite N.shiftl_spec_low by lia. rewrite andb_true_r, orb_false_r. reflexivity.
  - rewrite N.ones_spec_high by lia. rewrite N.shiftl_spec_high' by lia. rewrite N.shiftr_spec'.
    rewrite andb_false_r. cbn [orb]. f_equal. lia.
Qed.

Lemma low7_or128_ge x : 128 <= N.lor (N.land x 127) 128.
Proof.
  apply N.le_trans with (N.lor 128 (N.land x 127)); [|rewrite N.lor_comm; lia].
  destruct (N.eq_dec (N.land x 127) 0) as [->|Hn]; [simpl; lia|].
  assert (Hb : N.testbit (N.lor 128 (N.land x 127)) 7 = true).
  { rewrite N.lor_spec. reflexivity. }
  apply N.testbit_true in Hb. change (2^7) with 128 in Hb.
  destruct (N.lt_ge_cases (N.lor 128 (N.land x 127)) 128) as [Hlt|]; [|assumption].
  rewrite N.div_small in Hb by assumption. discriminate.
Qed.

Lemma land127_of_or x : N.land (N.lor (N.land x 127) 128) 127 = N.land x 127.
Proof.
  apply N.bits_inj; intro n. rewrite !N.land_spec, N.lor_spec, N.land_spec.
  change 127 with (N.ones 7). change 128 with (2^7). rewrite N.pow2_bits_eqb.
  destruct (N.ltb_spec n 7) as [H|H].
  - rewrite N.ones_spec_low by lia. replace (7 =? n) with false by (symmetry; apply N.eqb_neq; lia).
    rewrite andb_true_r, orb_false_r. reflexivity.
  - rewrite N.ones_spec_high by lia. rewrite !andb_false_r. reflexivity.
Qed.

Lemma shiftr7_lt x k : x < 2 ^ (k + 7) -> N.shiftr x 7 < 2 ^ k.
Proof.
  intro H. rewrite N.shiftr_div_pow2. apply N.div_lt_upper_bound; [apply N.pow_nonzero; lia|].
  rewrite <- N.pow_add_r. rewrite N.add_comm. exact H.
Qed.

(* generalised round trip: i bytes consumed so far, k = 10 - i groups may still follow,
   x fits in the 64 - 7 i remaining bits *)
Lemma uv_roundtrip_gen : forall (k : nat) (fe fd : nat) (i acc x : N) rest,
  (k <= fe)%nat -> (k <= fd)%nat -> N.of_nat k + i = 10 -> (0 < k)%nat ->
  x < 2 ^ (64 - 7 * i) ->
  uv_dec_go fd i acc (7 * i) (uv_enc_fuel fe x ++ rest) = Ok (N.lor acc (N.shiftl x (7 * i)), rest).
Proof.
  induction k as [|k IH]; intros fe fd i acc x rest Hfe Hfd Hk Hpos Hx; [lia|].
  destruct fe as [|fe]; [lia|]. destruct fd as [|fd]; [lia|].
  cbn [uv_enc_fuel]. destruct (N.ltb_spec x 128) as [Hs|Hb].
  - cbn [app uv_dec_go]. replace (x <? 128) with true by (symmetry; apply N.ltb_lt; exact Hs).
    destruct (N.eqb_spec i 9) as [E|E]; cbn [andb]; [|reflexivity].
    subst i. change (64 - 7 * 9) with 1 in Hx. change (2 ^ 1) with 2 in Hx.
    replace (1 <? x) with false by (symmetry; apply N.ltb_ge; lia). reflexivity.
  - cbn [app uv_dec_go].
    replace (N.lor (N.land x 127) 128 <? 128) with false by (symmetry; apply N.ltb_ge; apply low7_or128_ge).
    rewrite land127_of_or.
    destruct k as [|k].
    { (* i = 9: x < 2 contradicts 128 <= x *)
      assert (i = 9) by lia. subst i. change (64 - 7 * 9) with 1 in Hx. change (2 ^ 1) with 2 in Hx. lia. }
    replace (7 * i + 7) with (7 * (i + 1)) by lia.
    rewrite (IH fe fd (i + 1) _ (N.shiftr x 7) rest); try lia.
    + f_equal. f_equal. rewrite <- N.lor_assoc. f_equal.
      replace (7 * (i + 1)) with (7 + 7 * i) by lia.
      rewrite <- N.shiftl_shiftl, <- N.shiftl_lor. f_equal. apply split7.
    + apply shiftr7_lt. replace (64 - 7 * (i + 1) + 7) with (64 - 7 * i) by lia. exact Hx.
Qed.

Theorem uv_roundtrip x rest : x < 2 ^ 64 -> uv_dec (uv_enc x ++ rest) = Ok (x, rest).
Proof.
  intro H. unfold uv_dec, uv_enc.
  change 0 with (7 * 0) at 3.
  rewrite (uv_roundtrip_gen 10 10 10 0 0 x rest); try lia; [|exact H].
  rewrite N.lor_0_l. change (7 * 0) with 0. rewrite N.shiftl_0_r. reflexivity.
Qed.
