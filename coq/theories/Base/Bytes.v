(* Base definitions shared by all layers: bytes, hex literals, lexicographic order, results.
   Models only; proofs live in *Facts.v files. *)
From Coq Require Export List NArith ZArith Bool.
From Coq Require Import String Ascii.
Export ListNotations.
Local Open Scope N_scope.

Definition bytes := list N.

(* hex literal decoding, used by generated case files: hx "918d4c" = [145;141;76] *)
Definition hexval (c : ascii) : N :=
  let n := N_of_ascii c in
  if (48 <=? n) && (n <=? 57) then n - 48
  else if (97 <=? n) && (n <=? 102) then n - 87 else 0.

Fixpoint hx (s : string) : bytes :=
  match s with
  | String a (String b r) => (16 * hexval a + hexval b) :: hx r
  | _ => []
  end.

Arguments hx _%string.

(* Go's bytes.Compare *)
Fixpoint bcmp (a b : bytes) : comparison :=
  match a, b with
  | [], [] => Eq
  | [], _ :: _ => Lt
  | _ :: _, [] => Gt
  | x :: a', y :: b' =>
      match N.compare x y with
      | Eq => bcmp a' b'
      | c => c
      end
  end.

Definition beqb (a b : bytes) : bool := match bcmp a b with Eq => true | _ => false end.
Definition bltb (a b : bytes) : bool := match bcmp a b with Lt => true | _ => false end.
Definition bleb (a b : bytes) : bool := match bcmp a b with Gt => false | _ => true end.

Definition wf_byte (b : N) : bool := b <? 256.
Definition wf_bytes (l : bytes) : bool := forallb wf_byte l.

(* error enum shared with the Go harness (harness/errs.go maps Go errors to these names) *)
Inductive err :=
| EOF | UnexpectedEOF | MagicMismatch | HeaderChecksum | ValueChecksum | Decompress
| NotFound | Rejected | Overflow | OutOfFuel | Other | WrappedEOF.

Inductive res (A : Type) := Ok (a : A) | Err (e : err).
Arguments Ok {A} a.
Arguments Err {A} e.

Definition err_eqb (a b : err) : bool :=
  match a, b with
  | EOF, EOF | UnexpectedEOF, UnexpectedEOF | MagicMismatch, MagicMismatch
  | HeaderChecksum, HeaderChecksum | ValueChecksum, ValueChecksum | Decompress, Decompress
  | NotFound, NotFound | Rejected, Rejected | Overflow, Overflow | OutOfFuel, OutOfFuel
  | Other, Other | WrappedEOF, WrappedEOF => true
  | _, _ => false
  end.

Definition bind {A B} (r : res A) (f : A -> res B) : res B :=
  match r with Ok a => f a | Err e => Err e end.

(* generic helpers for case files *)
Fixpoint list_eqb {A} (eqb : A -> A -> bool) (a b : list A) : bool :=
  match a, b with
  | [], [] => true
  | x :: a', y :: b' => eqb x y && list_eqb eqb a' b'
  | _, _ => false
  end.

Definition opt_eqb {A} (eqb : A -> A -> bool) (a b : option A) : bool :=
  match a, b with
  | None, None => true
  | Some x, Some y => eqb x y
  | _, _ => false
  end.

Definition bytes_eqb : bytes -> bytes -> bool := list_eqb N.eqb.
Definition obytes_eqb : option bytes -> option bytes -> bool := opt_eqb bytes_eqb.

(* indices of cases whose check function returns false *)
Fixpoint mismatches_from {A} (chk : A -> bool) (i : N) (l : list A) : list N :=
  match l with
  | [] => []
  | c :: r => if chk c then mismatches_from chk (i + 1) r else i :: mismatches_from chk (i + 1) r
  end.
Definition mismatches {A} (chk : A -> bool) (l : list A) : list N := mismatches_from chk 0 l.
