(* Facts about the reflected CRC: linearity over xor, width preservation and the burst lemma -
   two inputs of equal length that differ in exactly one byte have different CRCs. *)
From GoSST Require Import Base.Bytes Base.Crc.
From Coq Require Import Lia.
Local Open Scope N_scope.

Example crc_check_values :
  crc32c [49;50;51;52;53;54;55;56;57] = 0xE3069283 /\ crc64iso [49;50;51;52;53;54;55;56;57] = 0xb90956c775a41001.
Proof. split; vm_compute; reflexivity. Qed.

Lemma odd_lxor a b : N.odd (N.lxor a b) = xorb (N.odd a) (N.odd b).
Proof. rewrite <- !N.bit0_odd. apply N.lxor_spec. Qed.

Lemma step1_lxor p a b : step1 p (N.lxor a b) = N.lxor (step1 p a) (step1 p b).
Proof.
  unfold step1. rewrite odd_lxor, N.shiftr_lxor.
  destruct (N.odd a), (N.odd b); cbn [xorb]; apply N.bits_inj; intro n;
    rewrite ?N.lxor_spec;
    destruct (N.testbit (N.shiftr a 1) n), (N.testbit (N.shiftr b 1) n), (N.testbit p n); reflexivity.
Qed.

Lemma steps_lxor n p : forall a b, steps n p (N.lxor a b) = N.lxor (steps n p a) (steps n p b).
Proof. induction n as [|n IH]; intros a b; cbn [steps]; [reflexivity|]. rewrite step1_lxor. apply IH. Qed.

(* width discipline *)
Definition fits (w : N) (s : N) : Prop := s < 2 ^ w.

Lemma step1_zero_inv w p d :
  0 < w -> N.testbit p (w - 1) = true -> fits w d -> step1 p d = 0 -> d = 0.
Proof.
  intros Hw Hp Hd H. unfold step1 in H. destruct (N.odd d) eqn:Ho.
  - exfalso. apply N.lxor_eq in H.
    assert (Hb : N.testbit (N.shiftr d 1) (w - 1) = true) by (rewrite H; exact Hp).
    rewrite N.shiftr_spec' in Hb. replace (w - 1 + 1) with w in Hb by lia.
    assert (N.testbit d w = false).
    { destruct (N.eq_dec d 0) as [->|Hn]; [apply N.bits_0|].
      apply N.bits_above_log2. apply N.log2_lt_pow2; [lia|exact Hd]. }
    congruence.
  - apply N.shiftr_eq_0_iff in H. destruct H as [H|[_ H]]; [exact H|].
    assert (N.log2 d = 0) by lia.
    destruct (N.eq_dec d 0) as [->|Hn]; [reflexivity|].
    assert (d = 1).
    { pose proof (N.log2_spec d ltac:(lia)) as [L1 L2]. rewrite H0 in *. simpl in *. lia. }
    subst d. discriminate Ho.
Qed.

Lemma step1_fits w p s : 0 < w -> fits w p -> fits w s -> fits w (step1 p s).
Proof.
  intros Hw Hp Hs. unfold step1, fits in *.
  assert (Hsh : N.shiftr s 1 < 2 ^ w).
  { rewrite N.shiftr_div_pow2. change (2^1) with 2. apply N.lt_le_trans with (m := s / 2 + 1); [lia|].
    assert (s / 2 <= s) by (apply N.div_le_upper_bound; lia).
    assert (s / 2 < 2 ^ w) by lia. lia. }
  destruct (N.odd s); [|exact Hsh].
  destruct (N.eq_dec (N.lxor (N.shiftr s 1) p) 0) as [->|Hn]; [apply N.neq_0_lt_0; apply N.pow_nonzero; lia|].
  apply N.log2_lt_pow2; [lia|].
  eapply N.le_lt_trans; [apply N.log2_lxor|].
  apply N.max_lub_lt.
  - destruct (N.eq_dec (N.shiftr s 1) 0) as [->|]; [simpl; lia|]. apply N.log2_lt_pow2; [lia|exact Hsh].
  - destruct (N.eq_dec p 0) as [->|]; [simpl; lia|]. apply N.log2_lt_pow2; [lia|exact Hp].
Qed.

Lemma steps_fits n w p : 0 < w -> fits w p -> forall s, fits w s -> fits w (steps n p s).
Proof. intros Hw Hp. induction n as [|n IH]; intros s Hs; cbn [steps]; [exact Hs|]. apply IH. apply step1_fits; assumption. Qed.

Lemma steps_zero_inv n w p :
  0 < w -> N.testbit p (w - 1) = true -> fits w p ->
  forall d, fits w d -> steps n p d = 0 -> d = 0.
Proof.
  intros Hw Hb Hp. induction n as [|n IH]; intros d Hd H; cbn [steps] in H; [exact H|].
  apply IH in H; [|apply step1_fits; assumption].
  eapply step1_zero_inv; eassumption.
Qed.

Section Burst.
  Variables (w p : N).
  Hypothesis Hw : 8 <= w.
  Hypothesis Hp : fits w p.
  Hypothesis Htop : N.testbit p (w - 1) = true.

  Lemma fits_lxor a b : fits w a -> fits w b -> fits w (N.lxor a b).
  Proof.
    unfold fits; intros Ha Hb.
    destruct (N.eq_dec (N.lxor a b) 0) as [->|Hn]; [apply N.neq_0_lt_0; apply N.pow_nonzero; lia|].
    apply N.log2_lt_pow2; [lia|]. eapply N.le_lt_trans; [apply N.log2_lxor|].
    apply N.max_lub_lt.
    - destruct (N.eq_dec a 0) as [->|]; [simpl; lia|]. apply N.log2_lt_pow2; [lia|exact Ha].
    - destruct (N.eq_dec b 0) as [->|]; [simpl; lia|]. apply N.log2_lt_pow2; [lia|exact Hb].
  Qed.

  Lemma byte_fits b : b < 256 -> fits w b.
  Proof. unfold fits; intros. apply N.lt_le_trans with (2^8); [exact H|]. apply N.pow_le_mono_r; lia. Qed.

  Lemma upd_fits s b : fits w s -> b < 256 -> fits w (upd p s b).
  Proof. intros. unfold upd. apply steps_fits; try assumption; [lia|]. apply fits_lxor; [assumption|apply byte_fits; assumption]. Qed.

  Lemma upd_diff s1 s2 b1 b2 :
    N.lxor (upd p s1 b1) (upd p s2 b2) = steps 8 p (N.lxor (N.lxor s1 s2) (N.lxor b1 b2)).
  Proof.
    unfold upd. rewrite <- steps_lxor. f_equal.
    apply N.bits_inj; intro n; rewrite !N.lxor_spec.
    destruct (N.testbit s1 n), (N.testbit s2 n), (N.testbit b1 n), (N.testbit b2 n); reflexivity.
  Qed.

  Lemma tail_keeps_diff post : Forall (fun b => b < 256) post ->
    forall s1 s2, fits w s1 -> fits w s2 -> s1 <> s2 ->
    fold_left (upd p) post s1 <> fold_left (upd p) post s2.
  Proof.
    induction post as [|c post IH]; intros Hall s1 s2 H1 H2 Hne; cbn [fold_left]; [exact Hne|].
    inversion Hall as [|? ? Hc Hall']; subst.
    apply IH; [assumption|apply upd_fits; assumption|apply upd_fits; assumption|].
    intro Heq. apply N.lxor_eq_0_iff in Heq. rewrite upd_diff, N.lxor_nilpotent, N.lxor_0_r in Heq.
    assert (Hz : N.lxor s1 s2 = 0).
    { apply (steps_zero_inv 8 w p); [lia|exact Htop|exact Hp|apply fits_lxor; assumption|exact Heq]. }
    apply N.lxor_eq in Hz. contradiction.
  Qed.

  Theorem one_byte_change_detected init pre b b' post :
    fits w init -> Forall (fun x => x < 256) pre -> Forall (fun x => x < 256) post ->
    b < 256 -> b' < 256 -> b <> b' ->
    crc_raw p init (pre ++ b :: post) <> crc_raw p init (pre ++ b' :: post).
  Proof.
    intros Hi Hpre Hpost Hb Hb' Hne. unfold crc_raw. rewrite !fold_left_app. cbn [fold_left].
    set (s := fold_left (upd p) pre init).
    assert (Hs : fits w s).
    { subst s. clear -Hi Hpre Hw Hp. revert init Hi. induction pre as [|c pre IH]; intros init Hi; cbn [fold_left]; [exact Hi|].
      inversion Hpre; subst. apply IH; [assumption|]. apply upd_fits; assumption. }
    apply tail_keeps_diff; [assumption|apply upd_fits; assumption|apply upd_fits; assumption|].
    intro Heq. apply N.lxor_eq_0_iff in Heq. rewrite upd_diff, N.lxor_nilpotent, N.lxor_0_l in Heq.
    assert (Hz : N.lxor b b' = 0).
    { apply (steps_zero_inv 8 w p); [lia|exact Htop|exact Hp|apply fits_lxor; apply byte_fits; assumption|exact Heq]. }
    apply N.lxor_eq in Hz. contradiction.
  Qed.
End Burst.

Theorem crc32c_one_byte pre b b' post :
  Forall (fun x => x < 256) pre -> Forall (fun x => x < 256) post -> b < 256 -> b' < 256 -> b <> b' ->
  crc32c (pre ++ b :: post) <> crc32c (pre ++ b' :: post).
Proof.
  intros. unfold crc32c. intro E.
  apply (f_equal (fun z => N.lxor z M32)) in E.
  rewrite !N.lxor_assoc, N.lxor_nilpotent, !N.lxor_0_r in E. revert E.
  apply (one_byte_change_detected 32 P32); try assumption; try (vm_compute; congruence); reflexivity.
Qed.

Theorem crc64iso_one_byte pre b b' post :
  Forall (fun x => x < 256) pre -> Forall (fun x => x < 256) post -> b < 256 -> b' < 256 -> b <> b' ->
  crc64iso (pre ++ b :: post) <> crc64iso (pre ++ b' :: post).
Proof.
  intros. unfold crc64iso. intro E.
  apply (f_equal (fun z => N.lxor z M64)) in E.
  rewrite !N.lxor_assoc, N.lxor_nilpotent, !N.lxor_0_r in E. revert E.
  apply (one_byte_change_detected 64 P64); try assumption; try (vm_compute; congruence); reflexivity.
Qed.

(* width: the register never leaves w bits, so a CRC-32 fits a 5-byte uvarint *)
Lemma crc_raw_fits w p init bs :
  8 <= w -> fits w p -> fits w init -> Forall (fun x => x < 256) bs -> fits w (crc_raw p init bs).
Proof.
  intros Hw Hp Hi Hb. unfold crc_raw. revert init Hi.
  induction bs as [|c bs IH]; intros init Hi; cbn [fold_left]; [exact Hi|].
  inversion Hb as [|? ? Hc Hb']; subst. apply IH; [assumption|]. apply upd_fits; assumption.
Qed.

Lemma crc32c_lt bs : Forall (fun x => x < 256) bs -> crc32c bs < 2 ^ 32.
Proof.
  intros Hb. unfold crc32c.
  apply (fits_lxor 32); [lia| |vm_compute; reflexivity].
  apply crc_raw_fits; try assumption; try (vm_compute; reflexivity). lia.
Qed.
