(* Which hash / checksum constructors the writer and the reader side call, as read off the Go syntax
   trees of /repo on this run (gen/FactsCode.v).  The models use one function on both sides
   (crc32c for record headers, CRC-64/ISO for values, one key hash for the bloom filter); these
   equations are what justifies that, and they stop being provable when one side is changed. *)
From Coq Require Import String.
From GoSSTGen Require Import FactsCode.

Lemma hash_facts :
  bloom_hash_writer = bloom_hash_reader /\
  value_crc_writer_iso = true /\ value_crc_reader_iso = true /\
  header_crc_writer_castagnoli = true /\ header_crc_reader_castagnoli = true.
Proof. repeat split; reflexivity. Qed.
