(* S-expression carrier for correspondence cases.  The Go harness prints one case per line in a
   tiny text syntax ( "(" ")" "x<hex>" "n<decimal>" ); the OCaml driver parses that text into [sx]
   (the only hand-written glue) and every decoding step from [sx] to a typed case is Gallina. *)
From GoSST Require Import Base.Bytes.

Inductive sx := B (b : bytes) | I (n : N) | L (l : list sx).

Definition dB (s : sx) : option bytes := match s with B b => Some b | _ => None end.
Definition dN (s : sx) : option N := match s with I n => Some n | _ => None end.
Definition dNat (s : sx) : option nat := match s with I n => Some (N.to_nat n) | _ => None end.
Definition dBool (s : sx) : option bool :=
  match s with I 0%N => Some false | I 1%N => Some true | _ => None end.

Fixpoint mapM {A B} (f : A -> option B) (l : list A) : option (list B) :=
  match l with
  | [] => Some []
  | x :: r => match f x, mapM f r with Some y, Some ys => Some (y :: ys) | _, _ => None end
  end.

Definition dList {A} (d : sx -> option A) (s : sx) : option (list A) :=
  match s with L l => mapM d l | _ => None end.

Definition dOpt {A} (d : sx -> option A) (s : sx) : option (option A) :=
  match s with
  | L [] => Some None
  | L [x] => match d x with Some v => Some (Some v) | None => None end
  | _ => None
  end.

Definition dPair {A B} (da : sx -> option A) (db : sx -> option B) (s : sx) : option (A * B) :=
  match s with
  | L [a; b] => match da a, db b with Some x, Some y => Some (x, y) | _, _ => None end
  | _ => None
  end.

Definition dTriple {A B C} (da : sx -> option A) (db : sx -> option B) (dc : sx -> option C)
  (s : sx) : option (A * B * C) :=
  match s with
  | L [a; b; c] =>
      match da a, db b, dc c with Some x, Some y, Some z => Some (x, y, z) | _, _, _ => None end
  | _ => None
  end.

(* option bytes: nil vs empty *)
Definition dOB : sx -> option (option bytes) := dOpt dB.

Definition dErr (s : sx) : option err :=
  match s with
  | I 1%N => Some EOF | I 2%N => Some UnexpectedEOF | I 3%N => Some MagicMismatch
  | I 4%N => Some HeaderChecksum | I 5%N => Some ValueChecksum | I 6%N => Some Decompress
  | I 7%N => Some NotFound | I 8%N => Some Rejected | I 9%N => Some Overflow
  | I 10%N => Some OutOfFuel | I 11%N => Some Other | I 12%N => Some WrappedEOF
  | _ => None
  end.

(* res A as (0 a) | (1 err) *)
Definition dRes {A} (d : sx -> option A) (s : sx) : option (res A) :=
  match s with
  | L [I 0%N; a] => match d a with Some x => Some (Ok x) | None => None end
  | L [I 1%N; e] => match dErr e with Some x => Some (Err x) | None => None end
  | _ => None
  end.

Notation "'do' x <- e ; k" := (match e with Some x => k | None => None end)
  (at level 200, x pattern, e at level 100, k at level 200, only parsing).
