(* Protobuf wire format for the messages the library stores (proto3: zero / empty fields are
   omitted, fields are written in field-number order).  Decoding is the generic tag/value loop:
   unknown fields are skipped, later occurrences override. *)
From GoSST Require Import Base.Bytes Base.Varint.
Local Open Scope N_scope.

Definition pb_varint_field (num v : N) : bytes :=
  if v =? 0 then [] else uv_enc (num * 8) ++ uv_enc v.
Definition pb_bytes_field (num : N) (b : bytes) : bytes :=
  match b with [] => [] | _ => uv_enc (num * 8 + 2) ++ uv_enc (N.of_nat (length b)) ++ b end.

(* sstables/proto IndexEntry { bytes key = 1; uint64 valueOffset = 2; uint64 checksum = 3; } *)
Definition pb_index_entry (key : bytes) (off crc : N) : bytes :=
  pb_bytes_field 1 key ++ pb_varint_field 2 off ++ pb_varint_field 3 crc.

Inductive pb_val := PbVarint (v : N) | PbBytes (b : bytes).

(* one field: (number, value, rest) *)
Definition pb_field (l : bytes) : res (N * pb_val * bytes) :=
  match uv_dec l with
  | Err e => Err e
  | Ok (tag, l1) =>
      let num := tag / 8 in
      let wt := tag mod 8 in
      if wt =? 0 then
        match uv_dec l1 with Ok (v, l2) => Ok (num, PbVarint v, l2) | Err e => Err e end
      else if wt =? 2 then
        match uv_dec l1 with
        | Ok (n, l2) =>
            if N.of_nat (length l2) <? n then Err UnexpectedEOF
            else Ok (num, PbBytes (firstn (N.to_nat n) l2), skipn (N.to_nat n) l2)
        | Err e => Err e
        end
      else if wt =? 1 then
        if N.of_nat (length l1) <? 8 then Err UnexpectedEOF else Ok (num, PbVarint 0, skipn 8 l1)
      else if wt =? 5 then
        if N.of_nat (length l1) <? 4 then Err UnexpectedEOF else Ok (num, PbVarint 0, skipn 4 l1)
      else Err Other
  end.

Fixpoint pb_fields (fuel : nat) (l : bytes) : res (list (N * pb_val)) :=
  match fuel with
  | O => Err OutOfFuel
  | S f =>
      match l with
      | [] => Ok []
      | _ => match pb_field l with
             | Err e => Err e
             | Ok (num, v, rest) =>
                 match pb_fields f rest with Ok fs => Ok ((num, v) :: fs) | Err e => Err e end
             end
      end
  end.

Fixpoint pb_last_varint (num : N) (fs : list (N * pb_val)) (d : N) : N :=
  match fs with
  | [] => d
  | (n, PbVarint v) :: r => pb_last_varint num r (if n =? num then v else d)
  | _ :: r => pb_last_varint num r d
  end.
Fixpoint pb_last_bytes (num : N) (fs : list (N * pb_val)) (d : bytes) : bytes :=
  match fs with
  | [] => d
  | (n, PbBytes b) :: r => pb_last_bytes num r (if n =? num then b else d)
  | _ :: r => pb_last_bytes num r d
  end.

Definition pb_dec_index_entry (l : bytes) : res (bytes * N * N) :=
  match pb_fields (S (length l)) l with
  | Err e => Err e
  | Ok fs => Ok (pb_last_bytes 1 fs [], pb_last_varint 2 fs 0, pb_last_varint 3 fs 0)
  end.
