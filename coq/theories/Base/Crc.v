(* Reflected (LSB-first) CRCs as hash/crc32 (Castagnoli) and hash/crc64 (ISO) compute them. *)
From GoSST Require Import Base.Bytes.
Local Open Scope N_scope.

Definition step1 (poly s : N) : N :=
  if N.odd s then N.lxor (N.shiftr s 1) poly else N.shiftr s 1.
Fixpoint steps (n : nat) (poly s : N) : N :=
  match n with O => s | S k => steps k poly (step1 poly s) end.
Definition upd (poly s b : N) : N := steps 8 poly (N.lxor s b).
Definition crc_raw (poly init : N) (bs : list N) : N := fold_left (upd poly) bs init.

Definition P32 : N := 0x82F63B78.
Definition M32 : N := 0xFFFFFFFF.
Definition crc32c (bs : list N) : N := N.lxor (crc_raw P32 M32 bs) M32.
Definition P64 : N := 0xD800000000000000.
Definition M64 : N := 0xFFFFFFFFFFFFFFFF.
Definition crc64iso (bs : list N) : N := N.lxor (crc_raw P64 M64 bs) M64.
