(* Protobuf wire round trip for the index entry message. *)
From GoSST Require Import Base.Bytes Base.Varint Base.VarintFacts Base.ProtoWire.
From Coq Require Import Lia.
Local Open Scope N_scope.

(* one varint field (wire type 0) with a one-byte tag *)
Lemma pb_field_varint num v rest :
  num < 16 -> v < 2 ^ 64 ->
  pb_field (uv_enc (num * 8) ++ uv_enc v ++ rest) = Ok (num, PbVarint v, rest).
Proof.
  intros Hn Hv. unfold pb_field.
  rewrite uv_roundtrip by lia.
  rewrite N.div_mul by lia. rewrite N.mod_mul by lia.
  change (0 =? 0) with true. cbv iota beta.
  rewrite uv_roundtrip by exact Hv. reflexivity.
Qed.

(* the length-delimited key field (field 1, wire type 2, tag byte 10) *)
Lemma pb_field_key (b rest : bytes) :
  N.of_nat (length b) < 2 ^ 64 ->
  pb_field (uv_enc (1 * 8 + 2) ++ uv_enc (N.of_nat (length b)) ++ b ++ rest) = Ok (1, PbBytes b, rest).
Proof.
  intros Hb. unfold pb_field. change (1 * 8 + 2) with 10.
  rewrite uv_roundtrip by lia.
  change (10 / 8) with 1. change (10 mod 8) with 2.
  change (2 =? 0) with false. change (2 =? 2) with true. cbv iota beta.
  rewrite uv_roundtrip by exact Hb.
  replace (N.of_nat (length (b ++ rest)) <? N.of_nat (length b)) with false.
  - rewrite Nat2N.id. rewrite firstn_app, skipn_app. rewrite firstn_all, skipn_all.
    rewrite Nat.sub_diag. cbn [firstn skipn app]. rewrite app_nil_r. reflexivity.
  - symmetry. apply N.ltb_ge. rewrite app_length. lia.
Qed.

(* the fields a message decodes to: zero / empty values are not on the wire *)
Definition vfield (num v : N) : list (N * pb_val) := if v =? 0 then [] else [(num, PbVarint v)].
Definition bfield (num : N) (b : bytes) : list (N * pb_val) :=
  match b with [] => [] | _ => [(num, PbBytes b)] end.

(* "rest parses to fs with any fuel exceeding its length" *)
Definition parses (rest : bytes) (fs : list (N * pb_val)) : Prop :=
  forall f, (length rest < f)%nat -> pb_fields f rest = Ok fs.

Lemma parses_nil : parses [] [].
Proof. intros f Hf. destruct f as [|f]; [inversion Hf|reflexivity]. Qed.

Lemma uv_enc_small x : x < 128 -> uv_enc x = [x].
Proof.
  intros Hx. unfold uv_enc. cbn [uv_enc_fuel].
  replace (x <? 128) with true by (symmetry; apply N.ltb_lt; exact Hx). reflexivity.
Qed.

Lemma parses_varint num v rest fs :
  num < 16 -> v < 2 ^ 64 -> parses rest fs ->
  parses (pb_varint_field num v ++ rest) (vfield num v ++ fs).
Proof.
  intros Hn Hv Hrest. unfold pb_varint_field, vfield.
  destruct (v =? 0); [exact Hrest|].
  intros f Hf. destruct f as [|f]; [inversion Hf|].
  rewrite <- app_assoc in *. cbn [pb_fields].
  rewrite pb_field_varint by assumption.
  rewrite (uv_enc_small (num * 8)) in * by lia. cbn [app] in *.
  rewrite Hrest; [reflexivity|].
  cbn [length] in Hf. rewrite app_length in Hf. lia.
Qed.

Lemma parses_key (b rest : bytes) fs :
  N.of_nat (length b) < 2 ^ 64 -> parses rest fs ->
  parses (pb_bytes_field 1 b ++ rest) (bfield 1 b ++ fs).
Proof.
  intros Hb Hrest. unfold pb_bytes_field, bfield.
  destruct b as [|x b]; [exact Hrest|].
  intros f Hf. destruct f as [|f]; [inversion Hf|].
  rewrite <- !app_assoc in *. cbn [pb_fields].
  rewrite pb_field_key by assumption.
  change (uv_enc (1 * 8 + 2)) with [10] in *. cbn [app] in *.
  rewrite Hrest; [reflexivity|].
  cbn [length] in Hf. rewrite !app_length in Hf. cbn [length] in Hf. rewrite ?app_length in Hf. lia.
Qed.

Lemma last_bytes_key (b : bytes) off crc :
  pb_last_bytes 1 (bfield 1 b ++ vfield 2 off ++ vfield 3 crc) [] = b.
Proof.
  unfold bfield, vfield.
  destruct b as [|x b]; destruct (off =? 0); destruct (crc =? 0); reflexivity.
Qed.

Lemma last_varint_off (b : bytes) off crc :
  pb_last_varint 2 (bfield 1 b ++ vfield 2 off ++ vfield 3 crc) 0 = off.
Proof.
  unfold bfield, vfield.
  destruct b as [|x b]; destruct (N.eqb_spec off 0) as [->|Ho]; destruct (crc =? 0); reflexivity.
Qed.

Lemma last_varint_crc (b : bytes) off crc :
  pb_last_varint 3 (bfield 1 b ++ vfield 2 off ++ vfield 3 crc) 0 = crc.
Proof.
  unfold bfield, vfield.
  destruct b as [|x b]; destruct (off =? 0); destruct (N.eqb_spec crc 0) as [->|Hc]; reflexivity.
Qed.

Theorem pb_index_entry_roundtrip (key : bytes) (off crc : N) :
  N.of_nat (length key) < 2 ^ 64 -> off < 2 ^ 64 -> crc < 2 ^ 64 ->
  pb_dec_index_entry (pb_index_entry key off crc) = Ok (key, off, crc).
Proof.
  intros Hk Ho Hc.
  assert (P : parses (pb_index_entry key off crc) (bfield 1 key ++ vfield 2 off ++ vfield 3 crc)).
  { unfold pb_index_entry.
    apply parses_key; [exact Hk|].
    apply parses_varint; [lia|exact Ho|].
    rewrite <- (app_nil_r (pb_varint_field 3 crc)), <- (app_nil_r (vfield 3 crc)).
    apply parses_varint; [lia|exact Hc|apply parses_nil]. }
  unfold pb_dec_index_entry. rewrite P by lia.
  rewrite last_bytes_key, last_varint_off, last_varint_crc. reflexivity.
Qed.

Print Assumptions pb_index_entry_roundtrip.
