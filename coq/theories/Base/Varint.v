(* encoding/binary's PutUvarint / ReadUvarint, as the Go loops are written. *)
From GoSST Require Import Base.Bytes.
Local Open Scope N_scope.

Fixpoint uv_enc_fuel (fuel : nat) (x : N) : bytes :=
  match fuel with
  | O => []
  | S f => if x <? 128 then [x] else (N.lor (N.land x 127) 128) :: uv_enc_fuel f (N.shiftr x 7)
  end.
Definition uv_enc (x : N) : bytes := uv_enc_fuel 10 x.

(* ReadUvarint over a byte list: i = bytes consumed so far, x = accumulator, s = shift.
   Returns the value and the unread rest.  EOF before the first byte is EOF, later UnexpectedEOF;
   the tenth byte may only be 0 or 1; more than ten bytes overflow. *)
Fixpoint uv_dec_go (fuel : nat) (i : N) (x s : N) (l : bytes) : res (N * bytes) :=
  match fuel with
  | O => Err Overflow
  | S f =>
    match l with
    | [] => if i =? 0 then Err EOF else Err UnexpectedEOF
    | b :: tl =>
      if b <? 128 then
        if andb (i =? 9) (1 <? b) then Err Overflow
        else Ok (N.lor x (N.shiftl b s), tl)
      else uv_dec_go f (i + 1) (N.lor x (N.shiftl (N.land b 127) s)) (s + 7) tl
    end
  end.
Definition uv_dec (l : bytes) : res (N * bytes) := uv_dec_go 10 0 0 0 l.

(* readMinimalUvarint (recordio/common_reader.go): ReadUvarint, then the number of bytes consumed must be the
   length of the minimal encoding of the value; anything longer is reported as a header checksum mismatch *)
Definition uv_min_len (v : N) : nat := length (uv_enc v).
Definition uv_dec_min (l : bytes) : res (N * bytes) :=
  match uv_dec l with
  | Ok (v, rest) => if Nat.eqb (length l - length rest) (uv_min_len v) then Ok (v, rest) else Err HeaderChecksum
  | Err e => Err e
  end.
