(* Concurrent calls on one reader handle that share a buffer pool (recordio/mmap_reader.go:
   ReadNextAt / SeekNext take their scratch buffers from the reader's pool, fill them from the
   immutable mapping, decode, copy the result out and give the buffers back).
   The machine interleaves the atomic sub-steps of any number of calls.  [window] is what ReadAt
   copies out of the mapping for a call at an offset, [decode] what the call computes from its
   buffer - the sequential reader model (RecordIO/MmapReader.v) instantiates them; here they are
   arbitrary, the theorem is about the ownership discipline of the pool. *)
From GoSST Require Import Base.Bytes.
Local Open Scope N_scope.

Section Pool.
  Variable R : Type.
  Variable window : N -> bytes.
  Variable decode : bytes -> R.

  Inductive pphase :=
  | PIdle
  | PWant (off : N)
  | PGot (off b : N)              (* owns buffer b *)
  | PFilled (off b : N)
  | PDone (off : N) (r : R) (b : N)   (* result copied out, buffer still owned (deferred Put) *)
  | PRet (off : N) (r : R).

  Record pstate := mkP {
    p_free : list N;               (* buffers in the pool *)
    p_next : N;                    (* next fresh buffer *)
    p_content : list (N * bytes);  (* buffer contents, newest binding first *)
    p_calls : list (N * pphase)
  }.
  Definition p_init : pstate := mkP [] 0 [] [].

  Fixpoint pget (t : N) (l : list (N * pphase)) : pphase :=
    match l with [] => PIdle | (t', p) :: r => if t =? t' then p else pget t r end.
  Fixpoint pset (t : N) (p : pphase) (l : list (N * pphase)) : list (N * pphase) :=
    match l with
    | [] => [(t, p)]
    | (t', p') :: r => if t =? t' then (t, p) :: r else (t', p') :: pset t p r
    end.
  Fixpoint cget (b : N) (l : list (N * bytes)) : bytes :=
    match l with [] => [] | (b', c) :: r => if b =? b' then c else cget b r end.

  Inductive pact := ACall (t off : N) | AGet (t : N) | AFill (t : N) | ADecode (t : N) | APut (t : N) | AAck (t : N).

  Definition pstep (s : pstate) (a : pact) : option (pstate * list (N * N * R)) :=
    match a with
    | ACall t off =>
        match pget t (p_calls s) with
        | PIdle => Some (mkP (p_free s) (p_next s) (p_content s) (pset t (PWant off) (p_calls s)), [])
        | _ => None
        end
    | AGet t =>
        match pget t (p_calls s) with
        | PWant off =>
            match p_free s with
            | b :: rest => Some (mkP rest (p_next s) (p_content s) (pset t (PGot off b) (p_calls s)), [])
            | [] => Some (mkP [] (p_next s + 1) (p_content s) (pset t (PGot off (p_next s)) (p_calls s)), [])
            end
        | _ => None
        end
    | AFill t =>
        match pget t (p_calls s) with
        | PGot off b => Some (mkP (p_free s) (p_next s) ((b, window off) :: p_content s) (pset t (PFilled off b) (p_calls s)), [])
        | _ => None
        end
    | ADecode t =>
        match pget t (p_calls s) with
        | PFilled off b => Some (mkP (p_free s) (p_next s) (p_content s) (pset t (PDone off (decode (cget b (p_content s))) b) (p_calls s)), [])
        | _ => None
        end
    | APut t =>
        match pget t (p_calls s) with
        | PDone off r b => Some (mkP (b :: p_free s) (p_next s) (p_content s) (pset t (PRet off r) (p_calls s)), [])
        | _ => None
        end
    | AAck t =>
        match pget t (p_calls s) with
        | PRet off r => Some (mkP (p_free s) (p_next s) (p_content s) (pset t PIdle (p_calls s)), [(t, off, r)])
        | _ => None
        end
    end.

  (* the answers delivered by a schedule (it stops at the first action that is not enabled) *)
  Fixpoint panswers (s : pstate) (acts : list pact) : list (N * N * R) :=
    match acts with
    | [] => []
    | a :: rest => match pstep s a with Some (s', out) => out ++ panswers s' rest | None => [] end
    end.
End Pool.
