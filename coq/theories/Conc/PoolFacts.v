(* Proofs about the pooled-buffer reader machine (Conc/Pool.v). *)
From Coq Require Import Lia.
From GoSST Require Import Base.Bytes Conc.Pool.
Local Open Scope N_scope.

Section PoolProofs.
  Variable R : Type.
  Variable window : N -> bytes.
  Variable decode : bytes -> R.

  (* ---- the association list of calls *)
  Lemma pget_pset t' t p l : pget R t' (pset R t p l) = if t' =? t then p else pget R t' l.
  Proof.
    induction l as [|[t0 p0] l IH]; simpl.
    - reflexivity.
    - destruct (t =? t0) eqn:E; simpl.
      + apply N.eqb_eq in E. subst t0. destruct (t' =? t); reflexivity.
      + rewrite IH. destruct (t' =? t0) eqn:E2; [|reflexivity].
        apply N.eqb_eq in E2. subst t0. destruct (t' =? t) eqn:E3; [|reflexivity].
        apply N.eqb_eq in E3. subst t'. rewrite N.eqb_refl in E. discriminate.
  Qed.

  Lemma pget_pset_same t p l : pget R t (pset R t p l) = p.
  Proof. rewrite pget_pset, N.eqb_refl. reflexivity. Qed.

  Lemma pget_pset_other t' t p l : t <> t' -> pget R t' (pset R t p l) = pget R t' l.
  Proof.
    intros Hne. rewrite pget_pset. destruct (t' =? t) eqn:E; [|reflexivity].
    apply N.eqb_eq in E. congruence.
  Qed.

  (* the buffer a call owns *)
  Definition owned (p : pphase R) : option N :=
    match p with
    | PGot _ _ b => Some b
    | PFilled _ _ b => Some b
    | PDone _ _ _ b => Some b
    | _ => None
    end.

  (* what a call knows about its buffer / its result *)
  Definition val_ok (content : list (N * bytes)) (p : pphase R) : Prop :=
    match p with
    | PFilled _ off b => cget b content = window off
    | PDone _ off r _ => r = decode (window off)
    | PRet _ off r => r = decode (window off)
    | _ => True
    end.

  Lemma owned_pset t' t p l :
    owned (pget R t' (pset R t p l)) = if t' =? t then owned p else owned (pget R t' l).
  Proof. rewrite pget_pset. destruct (t' =? t); reflexivity. Qed.

  (* ---- ownership discipline *)
  Record OwnInv (free : list N) (next : N) (calls : list (N * pphase R)) : Prop := mkOwn {
    oi_free_lt : forall b, In b free -> b < next;
    oi_own_lt : forall t b, owned (pget R t calls) = Some b -> b < next;
    oi_nodup : NoDup free;
    oi_sep : forall t b, owned (pget R t calls) = Some b -> ~ In b free;
    oi_excl : forall t1 t2 b,
      owned (pget R t1 calls) = Some b -> owned (pget R t2 calls) = Some b -> t1 = t2
  }.

  (* a step of thread t that keeps what t owns *)
  Lemma own_set_same free next calls t p :
    owned p = owned (pget R t calls) -> OwnInv free next calls -> OwnInv free next (pset R t p calls).
  Proof.
    intros Hp [Hfl Hol Hnd Hsep Hex].
    assert (forall t', owned (pget R t' (pset R t p calls)) = owned (pget R t' calls)) as Hk.
    { intros t'. rewrite owned_pset. destruct (t' =? t) eqn:E; [|reflexivity].
      apply N.eqb_eq in E. subst t'. exact Hp. }
    split.
    - exact Hfl.
    - intros t' b H. rewrite Hk in H. eapply Hol. exact H.
    - exact Hnd.
    - intros t' b H. rewrite Hk in H. eapply Hsep. exact H.
    - intros t1 t2 b H1 H2. rewrite Hk in H1, H2. eapply Hex; eassumption.
  Qed.

  (* thread t takes the first pooled buffer *)
  Lemma own_take b rest next calls t p :
    owned p = Some b -> owned (pget R t calls) = None ->
    OwnInv (b :: rest) next calls -> OwnInv rest next (pset R t p calls).
  Proof.
    intros Hp Hold [Hfl Hol Hnd Hsep Hex]. split.
    - intros x Hx. apply Hfl. right. exact Hx.
    - intros t' x H. rewrite owned_pset in H. destruct (t' =? t).
      + rewrite Hp in H. inversion H; subst x. apply Hfl. left. reflexivity.
      + eapply Hol. exact H.
    - inversion Hnd as [|y ys Hnotin Hnd']; subst. exact Hnd'.
    - intros t' x H. rewrite owned_pset in H. destruct (t' =? t).
      + rewrite Hp in H. inversion H; subst x.
        inversion Hnd as [|y ys Hnotin Hnd']; subst. exact Hnotin.
      + intros Hin. eapply Hsep; [exact H|]. right. exact Hin.
    - intros t1 t2 x H1 H2. rewrite owned_pset in H1, H2.
      destruct (t1 =? t) eqn:E1; destruct (t2 =? t) eqn:E2.
      + apply N.eqb_eq in E1, E2. congruence.
      + rewrite Hp in H1. inversion H1; subst x. exfalso. eapply Hsep; [exact H2|]. left. reflexivity.
      + rewrite Hp in H2. inversion H2; subst x. exfalso. eapply Hsep; [exact H1|]. left. reflexivity.
      + eapply Hex; eassumption.
  Qed.

  (* the pool is empty: thread t gets a fresh buffer *)
  Lemma own_fresh next calls t p :
    owned p = Some next -> owned (pget R t calls) = None ->
    OwnInv [] next calls -> OwnInv [] (next + 1) (pset R t p calls).
  Proof.
    intros Hp Hold [Hfl Hol Hnd Hsep Hex]. split.
    - intros x Hx. destruct Hx.
    - intros t' x H. rewrite owned_pset in H. destruct (t' =? t).
      + rewrite Hp in H. inversion H; subst x. lia.
      + specialize (Hol t' x H). lia.
    - constructor.
    - intros t' x H Hin. destruct Hin.
    - intros t1 t2 x H1 H2. rewrite owned_pset in H1, H2.
      destruct (t1 =? t) eqn:E1; destruct (t2 =? t) eqn:E2.
      + apply N.eqb_eq in E1, E2. congruence.
      + rewrite Hp in H1. inversion H1; subst x. specialize (Hol t2 next H2). lia.
      + rewrite Hp in H2. inversion H2; subst x. specialize (Hol t1 next H1). lia.
      + eapply Hex; eassumption.
  Qed.

  (* thread t gives its buffer back *)
  Lemma own_put b free next calls t p :
    owned p = None -> owned (pget R t calls) = Some b ->
    OwnInv free next calls -> OwnInv (b :: free) next (pset R t p calls).
  Proof.
    intros Hp Hold [Hfl Hol Hnd Hsep Hex]. split.
    - intros x [Hx|Hx].
      + subst x. eapply Hol. exact Hold.
      + apply Hfl. exact Hx.
    - intros t' x H. rewrite owned_pset in H. destruct (t' =? t).
      + rewrite Hp in H. discriminate.
      + eapply Hol. exact H.
    - constructor; [|exact Hnd]. eapply Hsep. exact Hold.
    - intros t' x H. rewrite owned_pset in H. destruct (t' =? t) eqn:E.
      + rewrite Hp in H. discriminate.
      + intros [Hin|Hin].
        * subst x. assert (t' = t) as Ht by (eapply Hex; eassumption).
          subst t'. rewrite N.eqb_refl in E. discriminate.
        * eapply Hsep; eassumption.
    - intros t1 t2 x H1 H2. rewrite owned_pset in H1, H2.
      destruct (t1 =? t); [rewrite Hp in H1; discriminate|].
      destruct (t2 =? t); [rewrite Hp in H2; discriminate|].
      eapply Hex; eassumption.
  Qed.

  (* ---- contents and results *)
  Definition ValInv (content : list (N * bytes)) (calls : list (N * pphase R)) : Prop :=
    forall t, val_ok content (pget R t calls).

  Lemma val_set content calls t p :
    val_ok content p -> ValInv content calls -> ValInv content (pset R t p calls).
  Proof.
    intros Hp Hv t'. rewrite pget_pset. destruct (t' =? t); [exact Hp|apply Hv].
  Qed.

  (* filling the buffer a thread owns does not disturb the buffers of the others *)
  Lemma val_fill free next content calls t off b :
    OwnInv free next calls -> pget R t calls = PGot R off b -> ValInv content calls ->
    ValInv ((b, window off) :: content) (pset R t (PFilled R off b) calls).
  Proof.
    intros Hown Hget Hv t'. rewrite pget_pset. destruct (t' =? t) eqn:E.
    - simpl. rewrite N.eqb_refl. reflexivity.
    - specialize (Hv t'). destruct (pget R t' calls) as [|off0|off0 b0|off0 b0|off0 r0 b0|off0 r0] eqn:Hp;
        simpl in *; try exact Hv.
      destruct (b0 =? b) eqn:Eb; [|exact Hv].
      apply N.eqb_eq in Eb. subst b0. exfalso.
      assert (t' = t) as Ht.
      { apply (oi_excl _ _ _ Hown t' t b); [rewrite Hp|rewrite Hget]; reflexivity. }
      subst t'. rewrite N.eqb_refl in E. discriminate.
  Qed.

  Definition PInv (s : pstate R) : Prop :=
    OwnInv (p_free R s) (p_next R s) (p_calls R s) /\ ValInv (p_content R s) (p_calls R s).

  Lemma pinv_init : PInv (p_init R).
  Proof.
    split.
    - split; simpl.
      + intros b H. destruct H.
      + intros t b H. discriminate.
      + constructor.
      + intros t b H. discriminate.
      + intros t1 t2 b H. discriminate.
    - intros t. exact I.
  Qed.

  Lemma pstep_inv s a s' out : PInv s -> pstep R window decode s a = Some (s', out) -> PInv s'.
  Proof.
    intros [Hown Hval] Hstep.
    destruct a as [t off|t|t|t|t|t]; simpl in Hstep;
      destruct (pget R t (p_calls R s)) as [|off0|off0 b0|off0 b0|off0 r0 b0|off0 r0] eqn:Hp;
      try discriminate.
    - (* ACall *) inversion Hstep; subst s' out. split; simpl.
      + apply own_set_same; [rewrite Hp; reflexivity|exact Hown].
      + apply val_set; [exact I|exact Hval].
    - (* AGet *) destruct (p_free R s) as [|b rest] eqn:Hfree; inversion Hstep; subst s' out; split; simpl.
      + apply own_fresh; [reflexivity|rewrite Hp; reflexivity|exact Hown].
      + apply val_set; [exact I|exact Hval].
      + apply own_take with (b := b); [reflexivity|rewrite Hp; reflexivity|exact Hown].
      + apply val_set; [exact I|exact Hval].
    - (* AFill *) inversion Hstep; subst s' out. split; simpl.
      + apply own_set_same; [rewrite Hp; reflexivity|exact Hown].
      + eapply val_fill; eassumption.
    - (* ADecode *) inversion Hstep; subst s' out. split; simpl.
      + apply own_set_same; [rewrite Hp; reflexivity|exact Hown].
      + apply val_set; [|exact Hval]. simpl.
        specialize (Hval t). rewrite Hp in Hval. simpl in Hval. rewrite Hval. reflexivity.
    - (* APut *) inversion Hstep; subst s' out. split; simpl.
      + apply own_put; [reflexivity|rewrite Hp; reflexivity|exact Hown].
      + apply val_set; [|exact Hval]. simpl.
        specialize (Hval t). rewrite Hp in Hval. exact Hval.
    - (* AAck *) inversion Hstep; subst s' out. split; simpl.
      + apply own_set_same; [rewrite Hp; reflexivity|exact Hown].
      + apply val_set; [exact I|exact Hval].
  Qed.

  Lemma pstep_out s a s' out : PInv s -> pstep R window decode s a = Some (s', out) ->
    Forall (fun a => snd a = decode (window (snd (fst a)))) out.
  Proof.
    intros [Hown Hval] Hstep.
    destruct a as [t off|t|t|t|t|t]; simpl in Hstep;
      destruct (pget R t (p_calls R s)) as [|off0|off0 b0|off0 b0|off0 r0 b0|off0 r0] eqn:Hp;
      try discriminate.
    - inversion Hstep; constructor.
    - destruct (p_free R s); inversion Hstep; constructor.
    - inversion Hstep; constructor.
    - inversion Hstep; constructor.
    - inversion Hstep; constructor.
    - inversion Hstep; subst s' out. constructor; [|constructor]. simpl.
      specialize (Hval t). rewrite Hp in Hval. exact Hval.
  Qed.

  Lemma panswers_inv acts : forall s, PInv s ->
    Forall (fun a => snd a = decode (window (snd (fst a)))) (panswers R window decode s acts).
  Proof.
    induction acts as [|a acts IH]; intros s Hinv; simpl; [constructor|].
    destruct (pstep R window decode s a) as [[s' out]|] eqn:Hstep; [|constructor].
    apply Forall_app. split.
    - eapply pstep_out; eassumption.
    - apply IH. eapply pstep_inv; eassumption.
  Qed.
End PoolProofs.

(* whatever the interleaving of the sub-steps of any number of concurrent calls, every call is
   answered exactly as it would be alone: decode (window off) *)
Theorem pooled_calls_answer_as_alone (R : Type) (window : N -> bytes) (decode : bytes -> R) (acts : list (pact)) :
  Forall (fun a => snd a = decode (window (snd (fst a)))) (panswers R window decode (p_init R) acts).
Proof.
  apply panswers_inv. apply pinv_init.
Qed.

(* non-vacuity: two calls whose sub-steps interleave, the second re-using the buffer of the first *)
Example pooled_schedule :
  panswers (list N) (fun off => [off; off + 1]) (fun b => rev b) (p_init _)
    [ACall 1 10; ACall 2 20; AGet 1; AGet 2; AFill 1; AFill 2; ADecode 2; ADecode 1; APut 1; AAck 1;
     ACall 1 30; AGet 1; AFill 1; APut 2; ADecode 1; AAck 2; APut 1; AAck 1]
  = [(1, 10, [11; 10]); (2, 20, [21; 20]); (1, 30, [31; 30])].
Proof. vm_compute. reflexivity. Qed.

Print Assumptions pooled_calls_answer_as_alone.
Print Assumptions pooled_schedule.
