(* The life cycle of one database handle (simpledb/db.go: the open / closed flags that Open, Close, Get, Put and Delete
   test before anything else).  A handle is opened at most once and closed at most once; every call outside the window
   between its successful Open and its successful Close is refused: ErrNotOpenedYet before, ErrAlreadyClosed after,
   ErrAlreadyOpen for a second Open.  [h_db] is the logical content (Db/Logical.v): what the directory holds before Open,
   the running database in between, what Close left on disk afterwards. *)
From GoSST Require Import Base.Bytes Db.Logical.

Record handle := mkHandle { h_open : bool; h_closed : bool; h_db : db }.

Definition handle_new (stored : db) : handle := mkHandle false false stored.

Inductive hcall :=
| HOpen | HClose
| HPut (k v : option bytes) | HDelete (k : option bytes) | HGet (k : bytes).

Inductive herr := ENotOpenedYet | EAlreadyClosed | EAlreadyOpen.

Inductive hout := HRefused (e : herr) | HDone (o : dout).

(* Put / PutBytes validate their arguments before they look at the flags: an empty or nil key or value is refused as
   such (OPut false) whatever the state of the handle *)
Definition put_args_ok (k v : option bytes) : bool :=
  match k, v with Some (_ :: _), Some (_ :: _) => true | _, _ => false end.

(* the test every data call and Close begin with *)
Definition refusal (h : handle) : option herr :=
  if negb (h_open h) then Some ENotOpenedYet
  else if h_closed h then Some EAlreadyClosed
  else None.

Definition h_step (h : handle) (c : hcall) : handle * hout :=
  match c with
  | HOpen =>
      if h_open h then (h, HRefused EAlreadyOpen)
      else (mkHandle true (h_closed h) (db_reopen (h_db h)), HDone ODone)       (* recovery: tables by name, fresh memstores *)
  | HClose =>
      match refusal h with
      | Some e => (h, HRefused e)
      | None => (mkHandle true true (db_reopen (h_db h)), HDone ODone)          (* rotation + flush *)
      end
  | HPut k v =>
      if negb (put_args_ok k v) then (h, HDone (OPut false)) else
      match refusal h with
      | Some e => (h, HRefused e)
      | None => let '(s, o) := db_step (h_db h) (SPut k v) in (mkHandle true false s, HDone o)
      end
  | HDelete k =>
      match refusal h with
      | Some e => (h, HRefused e)
      | None => let '(s, o) := db_step (h_db h) (SDelete k) in (mkHandle true false s, HDone o)
      end
  | HGet k =>
      match refusal h with
      | Some e => (h, HRefused e)
      | None => let '(s, o) := db_step (h_db h) (SGet k) in (mkHandle true false s, HDone o)
      end
  end.

Fixpoint h_run (h : handle) (cs : list hcall) : handle * list hout :=
  match cs with
  | [] => (h, [])
  | c :: r => let '(h', o) := h_step h c in let '(h'', os) := h_run h' r in (h'', o :: os)
  end.

(* what a call answers outside the window *)
Definition outside (e : herr) (c : hcall) : hout :=
  match c with
  | HPut k v => if put_args_ok k v then HRefused e else HDone (OPut false)
  | HOpen => HRefused EAlreadyOpen
  | _ => HRefused e
  end.

(* the data calls of a program as steps of the logical database *)
Definition data_step (c : hcall) : option dstep :=
  match c with
  | HPut k v => Some (SPut k v)
  | HDelete k => Some (SDelete k)
  | HGet k => Some (SGet k)
  | _ => None
  end.
