(* Consequences of linearizability used by the C18 check: what a goroutine reads from keys that only
   it writes, and from keys nobody writes. *)
From Coq Require Import Lia.
From GoSST Require Import Base.Bytes Db.Logical Db.LogicalFacts Db.Conc Db.ConcFacts.
Local Open Scope N_scope.

(* the key an operation writes, if any *)
Definition writes_key (o : cop) (k : bytes) : bool :=
  match o with
  | CGet _ => false
  | CPut k' v => put_ok k' v && beqb (okey k') k
  | CDel k' => beqb (okey k') k
  end.

(* thread t is the only writer of k in a sequence of linearized operations *)
Definition only_writer (t : N) (k : bytes) (l : list (N * cop * cres)) : Prop :=
  forall t' o r, In (t', o, r) l -> writes_key o k = true -> t' = t.

(* the value of k after replaying only thread t's own operations *)
Definition own_view (t : N) (k : bytes) (l : list (N * cop * cres)) : option bytes :=
  fold_left (fun m e => fst (kv_step m (snd (fst e)))) (filter (fun e => fst (fst e) =? t) l) kv_empty k.

(* ---- helpers: the value at one key after replaying a sequence *)

(* a Get in a legal sequence returns what replaying the operations before it leaves at its key *)
Lemma legal_get_reads_replay pre : forall m t' k v post,
  legal m (pre ++ (t', CGet k, RGet v) :: post) -> v = replay pre m k.
Proof.
  induction pre as [|[[t0 o0] r0] pre IH]; intros m t' k v post Hleg.
  - simpl in Hleg. destruct Hleg as [Hres _]. inversion Hres. reflexivity.
  - simpl in Hleg. destruct Hleg as [_ Hrest]. simpl. eapply IH. exact Hrest.
Qed.

(* an operation that does not write k leaves the value at k alone *)
Lemma kv_step_not_written m o k : writes_key o k = false -> fst (kv_step m o) k = m k.
Proof.
  intros Hw. destruct o as [k0|k0 v0|k0]; simpl in *.
  - reflexivity.
  - destruct (put_ok k0 v0); simpl in *; [|reflexivity].
    unfold kv_set. rewrite beqb_sym, Hw. reflexivity.
  - unfold kv_set. rewrite beqb_sym, Hw. reflexivity.
Qed.

(* the value at k after an operation depends only on the value at k before it *)
Lemma kv_step_at_key m m' o k : m k = m' k -> fst (kv_step m o) k = fst (kv_step m' o) k.
Proof.
  intros Hk. destruct o as [k0|k0 v0|k0]; simpl.
  - exact Hk.
  - destruct (put_ok k0 v0); simpl; [|exact Hk].
    unfold kv_set. destruct (beqb k (okey k0)); [reflexivity|exact Hk].
  - unfold kv_set. destruct (beqb k (okey k0)); [reflexivity|exact Hk].
Qed.

(* at key k, replaying a sequence is replaying any sub-selection that keeps all the writers of k *)
Lemma replay_filter_at_key (p : N * cop * cres -> bool) k l : forall m m',
  (forall e, In e l -> writes_key (snd (fst e)) k = true -> p e = true) ->
  m k = m' k ->
  replay l m k = replay (filter p l) m' k.
Proof.
  induction l as [|e l IH]; intros m m' Hall Hk.
  - simpl. exact Hk.
  - simpl. destruct (p e) eqn:Hp.
    + simpl. apply IH.
      * intros e' Hin Hw. apply Hall; [right; exact Hin|exact Hw].
      * apply kv_step_at_key. exact Hk.
    + apply IH.
      * intros e' Hin Hw. apply Hall; [right; exact Hin|exact Hw].
      * destruct (writes_key (snd (fst e)) k) eqn:Hw.
        -- rewrite (Hall e (or_introl eq_refl) Hw) in Hp. discriminate.
        -- rewrite (kv_step_not_written m _ k Hw). exact Hk.
Qed.

(* if only t writes k then, in every schedule, every Get of k - by ANY thread - returns what t's own
   operations linearized so far have left there; in particular t reads its own last write, whatever the
   other threads, the flusher and the compactor do in between *)
Theorem owned_key_reads_own_writes (acts : list action) (s : cstate) (t : N) (k : bytes) :
  crun c_init acts = Some s ->
  only_writer t k (lin_points c_init acts) ->
  forall pre t' v post, lin_points c_init acts = pre ++ (t', CGet k, RGet v) :: post ->
  v = own_view t k pre.
Proof.
  intros Hrun Honly pre t' v post Heq.
  pose proof (lin_points_legal acts s Hrun) as Hleg. rewrite Heq in Hleg.
  rewrite (legal_get_reads_replay pre kv_empty t' k v post Hleg).
  unfold own_view. apply (replay_filter_at_key (fun e => fst (fst e) =? t) k pre kv_empty kv_empty).
  - intros [[t0 o0] r0] Hin Hw. simpl in *.
    assert (t0 = t) as ->.
    { apply (Honly t0 o0 r0); [|exact Hw]. rewrite Heq. apply in_or_app. left. exact Hin. }
    apply N.eqb_refl.
  - reflexivity.
Qed.

(* per-thread program order is kept by the linearization: the operations of one thread appear in
   lin_points in the order in which the thread invoked them *)
Fixpoint invoked_by (t : N) (s : cstate) (acts : list action) : list cop :=
  match acts with
  | [] => []
  | a :: rest =>
      match cstep s a with
      | None => []
      | Some s' =>
          match a with
          | AInv t' o => if t' =? t then o :: invoked_by t s' rest else invoked_by t s' rest
          | _ => invoked_by t s' rest
          end
      end
  end.

Definition is_prefix {A} (a b : list A) : Prop := exists c, b = a ++ c.

(* ---- helpers: the generalisation of program order to any state.
   From a state s, the operations of t in lin_points are a prefix of the operation t has in flight
   before its linearization point (if any) followed by what t invokes from then on. *)
Definition ops_of (t : N) (l : list (N * cop * cres)) : list cop :=
  map (fun e => snd (fst e)) (filter (fun e => fst (fst e) =? t) l).

Definition pend_ph (p : phase) : list cop :=
  match p with Invoked o => [o] | GotTables k _ => [CGet k] | _ => [] end.
Definition pending (t : N) (s : cstate) : list cop := pend_ph (ph_get t (c_phase s)).

(* the linearization event and the invocation of t contributed by one step *)
Definition ev_of (a : action) (s' : cstate) : list (N * cop * cres) :=
  match point_of a with
  | Some t0 => match ph_get t0 (c_phase s') with Finished o r => [(t0, o, r)] | _ => [] end
  | None => []
  end.
Definition inv_of (t : N) (a : action) : list cop :=
  match a with AInv t' o => if t' =? t then [o] else [] | _ => [] end.

Lemma ops_of_app t l1 l2 : ops_of t (l1 ++ l2) = ops_of t l1 ++ ops_of t l2.
Proof. unfold ops_of. rewrite filter_app, map_app. reflexivity. Qed.

Lemma invoked_by_cons t s a acts s' : cstep s a = Some s' ->
  invoked_by t s (a :: acts) = inv_of t a ++ invoked_by t s' acts.
Proof.
  intros H. simpl. rewrite H. destruct a as [t0 o|t0|t0|t0|t0| | |c sizes| ]; try reflexivity.
  simpl. destruct (t0 =? t); reflexivity.
Qed.

(* a step of thread t0 that moves it from phase p to phase p' *)
Lemma pending_set t t0 s d p' :
  pending t (with_phase (with_db s d) t0 p') = if t0 =? t then pend_ph p' else pending t s.
Proof.
  unfold pending. simpl. rewrite ph_get_set, (N.eqb_sym t t0). destruct (t0 =? t); reflexivity.
Qed.

Lemma pending_set' t t0 s p' :
  pending t (with_phase s t0 p') = if t0 =? t then pend_ph p' else pending t s.
Proof.
  unfold pending. simpl. rewrite ph_get_set, (N.eqb_sym t t0). destruct (t0 =? t); reflexivity.
Qed.

Lemma step_pending t s a s' : cstep s a = Some s' ->
  pending t s ++ inv_of t a = ops_of t (ev_of a s') ++ pending t s'.
Proof.
  intros Hstep. destruct a as [t0 o|t0|t0|t0|t0| | |c sizes| ].
  - (* AInv *) simpl in Hstep. destruct (ph_get t0 (c_phase s)) eqn:Hph; try discriminate.
    inversion Hstep; subst s'. rewrite pending_set'. unfold ev_of, inv_of. simpl.
    destruct (t0 =? t) eqn:E.
    + apply N.eqb_eq in E. subst t0. unfold pending. rewrite Hph. reflexivity.
    + apply app_nil_r.
  - (* ABody *) simpl in Hstep. destruct (reader_inside (c_phase s)); [discriminate|].
    destruct (ph_get t0 (c_phase s)) as [|[k|k v|k]|k tv|o r] eqn:Hph; try discriminate.
    + destruct (db_put (c_db s) k v) as [d ok]. inversion Hstep; subst s'.
      rewrite pending_set. unfold ev_of, inv_of, ops_of. simpl. rewrite ph_get_set, N.eqb_refl. simpl.
      destruct (t0 =? t) eqn:E; simpl.
      * apply N.eqb_eq in E. subst t0. unfold pending. rewrite Hph. reflexivity.
      * apply app_nil_r.
    + inversion Hstep; subst s'.
      rewrite pending_set. unfold ev_of, inv_of, ops_of. simpl. rewrite ph_get_set, N.eqb_refl. simpl.
      destruct (t0 =? t) eqn:E; simpl.
      * apply N.eqb_eq in E. subst t0. unfold pending. rewrite Hph. reflexivity.
      * apply app_nil_r.
  - (* AGetTables *) simpl in Hstep.
    destruct (ph_get t0 (c_phase s)) as [|[k|k v|k]|k tv|o r] eqn:Hph; try discriminate.
    inversion Hstep; subst s'. rewrite pending_set'. unfold ev_of, inv_of. simpl.
    destruct (t0 =? t) eqn:E.
    + apply N.eqb_eq in E. subst t0. unfold pending. rewrite Hph. reflexivity.
    + apply app_nil_r.
  - (* AGetMem *) simpl in Hstep.
    destruct (ph_get t0 (c_phase s)) as [|o|k tv|o r] eqn:Hph; try discriminate.
    inversion Hstep; subst s'.
    rewrite pending_set'. unfold ev_of, inv_of, ops_of. simpl. rewrite ph_get_set, N.eqb_refl. simpl.
    destruct (t0 =? t) eqn:E; simpl.
    + apply N.eqb_eq in E. subst t0. unfold pending. rewrite Hph. reflexivity.
    + apply app_nil_r.
  - (* ARes *) simpl in Hstep.
    destruct (ph_get t0 (c_phase s)) as [|o|k tv|o r] eqn:Hph; try discriminate.
    inversion Hstep; subst s'. rewrite pending_set'. unfold ev_of, inv_of. simpl.
    destruct (t0 =? t) eqn:E.
    + apply N.eqb_eq in E. subst t0. unfold pending. rewrite Hph. reflexivity.
    + apply app_nil_r.
  - unfold pending. rewrite (silent_phase _ _ _ Hstep eq_refl). apply app_nil_r.
  - unfold pending. rewrite (silent_phase _ _ _ Hstep eq_refl). apply app_nil_r.
  - unfold pending. rewrite (silent_phase _ _ _ Hstep eq_refl). apply app_nil_r.
  - unfold pending. rewrite (silent_phase _ _ _ Hstep eq_refl). apply app_nil_r.
Qed.

Lemma program_order_from t acts : forall s,
  is_prefix (ops_of t (lin_points s acts)) (pending t s ++ invoked_by t s acts).
Proof.
  induction acts as [|a acts IH]; intros s.
  - exists (pending t s ++ []). reflexivity.
  - destruct (cstep s a) as [s'|] eqn:Hstep.
    + rewrite (lin_points_cons _ _ _ _ Hstep), (invoked_by_cons t _ _ _ _ Hstep).
      fold (ev_of a s'). rewrite ops_of_app.
      destruct (IH s') as [c Hc]. exists c.
      rewrite app_assoc, (step_pending t _ _ _ Hstep), <- !app_assoc. f_equal. exact Hc.
    + simpl. rewrite Hstep. eexists. reflexivity.
Qed.

Theorem program_order_kept (acts : list action) (t : N) :
  is_prefix (map (fun e => snd (fst e)) (filter (fun e => fst (fst e) =? t) (lin_points c_init acts)))
            (invoked_by t c_init acts).
Proof.
  exact (program_order_from t acts c_init).
Qed.

Print Assumptions owned_key_reads_own_writes.
Print Assumptions program_order_kept.
