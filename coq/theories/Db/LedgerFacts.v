(* Proofs about the resource ledger (Db/Ledger.v). *)
From Coq Require Import Lia Permutation.
From GoSST Require Import Base.Bytes Db.Logical Db.LogicalFacts Db.Ledger.
Local Open Scope N_scope.

(* what an open database holds between two operations: one mapping per live table, the WAL
   descriptor, its goroutines *)
Definition held (compactor : bool) (s : db) : ledger :=
  map RMap (gens s) ++ RWal :: goroutines compactor.

Definition opened (compactor : bool) : option ledger := apply_evs (Some []) (open_events compactor db_empty).


(* ---- the ledger as a multiset *)
Lemma res_eqb_true a b : res_eqb a b = true <-> a = b.
Proof.
  split.
  - destruct a, b; simpl; intros H; try discriminate; try reflexivity;
      apply N.eqb_eq in H; subst; reflexivity.
  - intros ->. destruct b; simpl; try reflexivity; apply N.eqb_refl.
Qed.

Lemma remove1_in r l : In r l -> exists l', remove1 r l = Some l' /\ Permutation l (r :: l').
Proof.
  induction l as [|x t IH]; intros Hin; [destruct Hin|]. simpl.
  destruct (res_eqb r x) eqn:E.
  - apply res_eqb_true in E. subst x. exists t. split; reflexivity.
  - destruct Hin as [Hx|Hin].
    + subst x. assert (res_eqb r r = true) as E' by (apply res_eqb_true; reflexivity). congruence.
    + destruct (IH Hin) as (t' & Ht & Hp). rewrite Ht. exists (x :: t'). split; [reflexivity|].
      rewrite Hp. apply perm_swap.
Qed.

Lemma remove1_length r l : forall l', remove1 r l = Some l' -> length l = S (length l').
Proof.
  induction l as [|x t IH]; intros l' H; simpl in H; [discriminate|].
  destruct (res_eqb r x).
  - inversion H; subst. reflexivity.
  - destruct (remove1 r t) as [t'|]; [|discriminate]. inversion H; subst. simpl. rewrite (IH t' eq_refl). reflexivity.
Qed.

Lemma apply_evs_app ol a b : apply_evs ol (a ++ b) = apply_evs (apply_evs ol a) b.
Proof. apply fold_left_app. Qed.

Lemma apply_evs_none es : apply_evs None es = None.
Proof. induction es as [|e es IH]; [reflexivity|exact IH]. Qed.

(* [lperm ol m]: no release failed and the ledger is the multiset m *)
Definition lperm (ol : option ledger) (m : ledger) : Prop := exists l, ol = Some l /\ Permutation l m.

Lemma lperm_perm ol m m' : lperm ol m -> Permutation m m' -> lperm ol m'.
Proof. intros (l & Hl & Hp) Hm. exists l. split; [exact Hl|]. rewrite Hp. exact Hm. Qed.

Lemma lperm_acq ol m r : lperm ol m -> lperm (apply_ev ol (Acq r)) (r :: m).
Proof. intros (l & -> & Hp). exists (r :: l). split; [reflexivity|]. apply perm_skip. exact Hp. Qed.

Lemma lperm_rel ol m r : lperm ol (r :: m) -> lperm (apply_ev ol (Rel r)) m.
Proof.
  intros (l & -> & Hp). simpl.
  assert (In r l) as Hin by (eapply Permutation_in; [symmetry; exact Hp|left; reflexivity]).
  destruct (remove1_in r l Hin) as (l' & Hr & Hp'). rewrite Hr. exists l'. split; [reflexivity|].
  apply Permutation_cons_inv with (a := r). rewrite <- Hp'. exact Hp.
Qed.

(* triples: from the multiset m the events succeed and lead to the multiset m' *)
Definition trip (m : ledger) (es : list lev) (m' : ledger) : Prop :=
  forall ol, lperm ol m -> lperm (apply_evs ol es) m'.

Lemma trip_nil m : trip m [] m.
Proof. intros ol H. exact H. Qed.

Lemma trip_app m m1 m2 a b : trip m a m1 -> trip m1 b m2 -> trip m (a ++ b) m2.
Proof. intros Ha Hb ol H. rewrite apply_evs_app. apply Hb, Ha, H. Qed.

Lemma trip_perm_pre m m0 m' es : Permutation m m0 -> trip m0 es m' -> trip m es m'.
Proof. intros Hp Ht ol H. apply Ht. eapply lperm_perm; eassumption. Qed.

Lemma trip_perm_post m m0 m' es : trip m es m0 -> Permutation m0 m' -> trip m es m'.
Proof. intros Ht Hp ol H. eapply lperm_perm; [apply Ht, H|exact Hp]. Qed.

Lemma trip_acqs m rs : trip m (map Acq rs) (rs ++ m).
Proof.
  revert m. induction rs as [|r rs IH]; intros m ol H; [exact H|].
  change (lperm (apply_evs (apply_ev ol (Acq r)) (map Acq rs)) ((r :: rs) ++ m)).
  eapply lperm_perm; [apply (IH (r :: m)), lperm_acq, H|].
  symmetry. apply Permutation_middle.
Qed.

Lemma trip_rels0 rs : forall m, trip (rs ++ m) (map Rel rs) m.
Proof.
  induction rs as [|r rs IH]; intros m ol H; [exact H|].
  change (lperm (apply_evs (apply_ev ol (Rel r)) (map Rel rs)) m).
  apply IH, lperm_rel. exact H.
Qed.

Lemma trip_rels a rs m : trip (a ++ rs ++ m) (map Rel rs) (a ++ m).
Proof. eapply trip_perm_pre; [apply Permutation_app_swap_app|apply trip_rels0]. Qed.

Lemma trip_some m es m' (l : ledger) : trip m es m' -> Permutation l m ->
  exists l', apply_evs (Some l) es = Some l' /\ Permutation l' m'.
Proof. intros Ht Hp. apply (Ht (Some l)). exists l. split; [reflexivity|exact Hp]. Qed.

(* ---- what is held *)
Lemma held_tables b s s' : d_tables s = d_tables s' -> held b s = held b s'.
Proof. intros H. unfold held, gens. rewrite H. reflexivity. Qed.

Lemma held_perm b s : Permutation (held b s) (goroutines b ++ [RWal] ++ map RMap (gens s) ++ []).
Proof.
  unfold held. rewrite app_nil_r. etransitivity; [apply Permutation_app_comm|].
  apply (Permutation_middle (goroutines b) (map RMap (gens s)) RWal).
Qed.

Lemma held_length b s : (length (held b s) <= length (d_tables s) + 3)%nat.
Proof. unfold held, gens. rewrite app_length, !map_length. destruct b; simpl; lia. Qed.

(* ---- rotation *)
Lemma trip_writer m : trip m writer_events m.
Proof.
  apply (trip_app m ([RTmpFile 0; RTmpFile 1] ++ m) m (map Acq [RTmpFile 0; RTmpFile 1]) (map Rel [RTmpFile 0; RTmpFile 1])).
  - apply trip_acqs.
  - apply (trip_rels0 [RTmpFile 0; RTmpFile 1] m).
Qed.

Lemma trip_rotate b s : trip (held b s) (rotate_events s) (held b (db_rotate s)).
Proof.
  unfold rotate_events. apply trip_app with (m1 := held b s).
  - unfold held.
    apply (trip_app _ (map RMap (gens s) ++ goroutines b) _ (map Rel [RWal]) (map Acq [RWal])).
    + apply (trip_rels (map RMap (gens s)) [RWal] (goroutines b)).
    + eapply trip_perm_post; [apply trip_acqs|]. simpl. apply Permutation_middle.
  - unfold flush_events, db_rotate. destruct (d_wr s) as [|x w].
    + apply trip_nil.
    + apply trip_app with (m1 := held b s); [apply trip_writer|].
      eapply trip_perm_post; [apply (trip_acqs _ [RMap (d_gen s + 1)])|].
      unfold held, gens. cbn [d_tables]. rewrite !map_app, <- app_assoc. simpl. apply Permutation_middle.
Qed.

(* ---- compaction *)
Lemma db_compact_eq c sizes s : exists sel, seg sel /\
  db_compact c sizes s =
  if N.of_nat (length (select_by sel (d_tables s))) <=? c_threshold c then (s, [])
  else (mkDb (replace_run sel (d_tables s) (merged_of sel (d_tables s)) false) (d_rd s) (d_wr s) (d_gen s),
        map fst (select_by sel (d_tables s))).
Proof.
  exists (flood_fill (map (fun p => preselect c (fst p) (snd (snd p))) (combine sizes (d_tables s)))).
  split; [apply flood_fill_seg|reflexivity].
Qed.

(* nothing happens, or a non-empty contiguous run is replaced by one table under the name of its
   first member, and exactly the run's names are reported *)
Lemma db_compact_cases2 c sizes s :
  db_compact c sizes s = (s, [])
  \/ exists pre g t run post m,
       d_tables s = pre ++ ((g, t) :: run) ++ post
       /\ db_compact c sizes s = (mkDb (pre ++ (g, m) :: post) (d_rd s) (d_wr s) (d_gen s), g :: map fst run).
Proof.
  destruct (db_compact_eq c sizes s) as (sel & Hseg & ->).
  destruct (N.leb_spec (N.of_nat (length (select_by sel (d_tables s)))) (c_threshold c)) as [Hle|Hgt];
    [left; reflexivity|right].
  destruct (sel_seg sel Hseg (d_tables s) (merged_of sel (d_tables s))) as (pre & run & post & Hts & Hrun & Hrep & _).
  rewrite Hrep, Hrun in *. destruct run as [|[g t] run].
  - simpl in Hgt. lia.
  - exists pre, g, t, run, post, (merged_of sel (d_tables s)). split; [exact Hts|reflexivity].
Qed.

Definition tmps (sel : list N) : list res := flat_map (fun g => [RTmpMap g; RTmpScan g]) sel.
Definition tmps' (sel : list N) : list res := flat_map (fun g => [RTmpScan g; RTmpMap g]) sel.

Lemma tmps_acq sel : flat_map (fun g => [Acq (RTmpMap g); Acq (RTmpScan g)]) sel = map Acq (tmps sel).
Proof. induction sel as [|g sel IH]; simpl; [reflexivity|]. rewrite IH. reflexivity. Qed.

Lemma tmps_rel sel : flat_map (fun g => [Rel (RTmpScan g); Rel (RTmpMap g)]) sel = map Rel (tmps' sel).
Proof. induction sel as [|g sel IH]; simpl; [reflexivity|]. rewrite IH. reflexivity. Qed.

Lemma tmps_perm sel : Permutation (tmps sel) (tmps' sel).
Proof. induction sel as [|g sel IH]; simpl; [reflexivity|]. rewrite IH. apply perm_swap. Qed.

Lemma tmps_length sel : length (tmps sel) = (2 * length sel)%nat.
Proof. induction sel as [|g sel IH]; simpl; [reflexivity|]. rewrite IH. lia. Qed.

Definition run_events (sel : list N) (g0 : N) : list lev :=
  [Acq (RTmpFile 0); Acq (RTmpFile 1)]
  ++ flat_map (fun g => [Acq (RTmpMap g); Acq (RTmpScan g)]) sel
  ++ [Rel (RTmpFile 0); Rel (RTmpFile 1)]
  ++ flat_map (fun g => [Rel (RTmpScan g); Rel (RTmpMap g)]) sel
  ++ map (fun g => Rel (RMap g)) sel
  ++ [Acq (RMap g0)].

Lemma trip_run sel g0 a b K :
  trip (map RMap a ++ map RMap sel ++ map RMap b ++ K) (run_events sel g0)
       (map RMap a ++ RMap g0 :: map RMap b ++ K).
Proof.
  unfold run_events. set (H := map RMap a ++ map RMap sel ++ map RMap b ++ K).
  rewrite tmps_acq, tmps_rel, <- (map_map RMap Rel).
  apply trip_app with (m1 := [RTmpFile 0; RTmpFile 1] ++ H).
  { apply (trip_acqs H [RTmpFile 0; RTmpFile 1]). }
  apply trip_app with (m1 := tmps sel ++ [RTmpFile 0; RTmpFile 1] ++ H).
  { apply trip_acqs. }
  apply trip_app with (m1 := tmps sel ++ H).
  { apply (trip_rels (tmps sel) [RTmpFile 0; RTmpFile 1] H). }
  apply trip_app with (m1 := H).
  { eapply trip_perm_pre; [apply Permutation_app_tail, tmps_perm|]. apply trip_rels0. }
  apply trip_app with (m1 := map RMap a ++ map RMap b ++ K).
  { apply trip_rels. }
  eapply trip_perm_post; [apply (trip_acqs _ [RMap g0])|]. simpl. apply Permutation_middle.
Qed.

Lemma compact_events_run c sizes s g sel s' :
  db_compact c sizes s = (s', g :: sel) -> compact_events c sizes s = run_events (g :: sel) g.
Proof. intros E. unfold compact_events. rewrite E. reflexivity. Qed.

Lemma trip_compact b c sizes s :
  trip (held b s) (compact_events c sizes s) (held b (fst (db_compact c sizes s))).
Proof.
  destruct (db_compact_cases2 c sizes s) as [E|(pre & g & t & run & post & m & Hts & E)].
  - unfold compact_events. rewrite E. apply trip_nil.
  - rewrite (compact_events_run _ _ _ _ _ _ E), E. cbn [fst].
    eapply trip_perm_pre;
      [|eapply trip_perm_post;
         [apply (trip_run (g :: map fst run) g (map fst pre) (map fst post) (RWal :: goroutines b))|]].
    + unfold held, gens. rewrite Hts, !map_app, <- !app_assoc. reflexivity.
    + unfold held, gens. cbn [d_tables]. rewrite !map_app, <- app_assoc. reflexivity.
Qed.

(* ---- Close and Open *)
Lemma trip_close b s : trip (held b s) (close_events b s) [].
Proof.
  unfold close_events. apply trip_app with (m1 := held b (db_rotate s)); [apply trip_rotate|].
  eapply trip_perm_pre; [apply held_perm|].
  rewrite <- (map_map RMap Rel).
  apply trip_app with (m1 := [RWal] ++ map RMap (gens (db_rotate s)) ++ []); [apply trip_rels0|].
  apply trip_app with (m1 := map RMap (gens (db_rotate s)) ++ []); [apply (trip_rels0 [RWal])|].
  apply trip_rels0.
Qed.

Lemma trip_open b s : trip [] (open_events b s) (held b s).
Proof.
  unfold open_events. rewrite <- (map_map RMap Acq).
  eapply trip_perm_post; [|symmetry; apply held_perm].
  apply trip_app with (m1 := map RMap (gens s) ++ []); [apply trip_acqs|].
  apply trip_app with (m1 := [RWal] ++ map RMap (gens s) ++ []); [apply (trip_acqs _ [RWal])|].
  apply trip_acqs.
Qed.

Lemma gens_reopen s : gens (db_reopen s) = gens (db_rotate s).
Proof. reflexivity. Qed.

(* ---- every step *)
Lemma db_step_compact s c sizes : fst (db_step s (SCompact c sizes)) = fst (db_compact c sizes s).
Proof. simpl. destruct (db_compact c sizes s) as [s' sel]. reflexivity. Qed.

Lemma db_step_put_tables s k v : d_tables (fst (db_step s (SPut k v))) = d_tables s.
Proof. simpl. unfold db_put. destruct k as [[|kb kr]|], v as [[|vb vr]|]; reflexivity. Qed.

Lemma trip_step b s st : trip (held b s) (step_events b s st) (held b (fst (db_step s st))).
Proof.
  destruct st as [k v|k|k| |c sizes|].
  - rewrite (held_tables b _ s (db_step_put_tables s k v)). apply trip_nil.
  - apply trip_nil.
  - apply trip_nil.
  - apply trip_rotate.
  - rewrite db_step_compact. apply trip_compact.
  - cbn [step_events db_step fst]. apply trip_app with (m1 := []); [apply trip_close|].
    apply trip_open.
Qed.

Lemma lrun_exact b steps : forall s ol, lperm ol (held b s) ->
  Forall (fun p => lperm (snd p) (held b (fst p))) (lrun b s ol steps).
Proof.
  induction steps as [|st steps IH]; intros s ol H; cbn [lrun]; [constructor|].
  assert (lperm (apply_evs ol (step_events b s st)) (held b (fst (db_step s st)))) as H' by (apply trip_step, H).
  constructor; [exact H'|]. apply IH. exact H'.
Qed.

Lemma opened_held b : lperm (opened b) (held b db_empty).
Proof. apply trip_open. exists []. split; reflexivity. Qed.

(* after EVERY step of EVERY program nothing was released twice and the ledger is exactly [held] *)
Theorem ledger_exact (compactor : bool) (steps : list dstep) :
  Forall (fun p => exists l, snd p = Some l /\ Permutation l (held compactor (fst p)))
         (lrun compactor db_empty (opened compactor) steps).
Proof. apply (lrun_exact compactor steps db_empty (opened compactor)), opened_held. Qed.

(* counting is invariant under permutation *)
Lemma count_perm p l l' : Permutation l l' -> count p l = count p l'.
Proof.
  intros H. unfold count. f_equal.
  induction H as [|x l l' H IH|x y l|l l' l'' H1 IH1 H2 IH2]; simpl.
  - reflexivity.
  - destruct (p x); simpl; rewrite IH; reflexivity.
  - destruct (p x), (p y); reflexivity.
  - rewrite IH1. exact IH2.
Qed.

Lemma filter_maps p gs : (forall g, p (RMap g) = true) -> filter p (map RMap gs) = map RMap gs.
Proof. intros Hp. induction gs as [|g gs IH]; simpl; [reflexivity|]. rewrite Hp, IH. reflexivity. Qed.

Lemma filter_maps_none p gs : (forall g, p (RMap g) = false) -> filter p (map RMap gs) = [].
Proof. intros Hp. induction gs as [|g gs IH]; simpl; [reflexivity|]. rewrite Hp. exact IH. Qed.

Lemma held_counts b s :
  count is_map (held b s) = N.of_nat (length (d_tables s))
  /\ count is_fd (held b s) = 1
  /\ count is_gor (held b s) = (if b then 2 else 1).
Proof.
  unfold count, held. rewrite !filter_app.
  rewrite (filter_maps is_map) by reflexivity.
  rewrite (filter_maps_none is_fd), (filter_maps_none is_gor) by reflexivity.
  rewrite app_length. unfold gens. rewrite !map_length.
  destruct b; simpl; repeat split; try reflexivity; f_equal; lia.
Qed.

(* hence the counts the harness measures *)
Theorem resources_bounded (compactor : bool) (steps : list dstep) :
  Forall (fun p => exists l, snd p = Some l
                    /\ count is_map l = N.of_nat (length (d_tables (fst p)))
                    /\ count is_fd l = 1
                    /\ count is_gor l = (if compactor then 2 else 1))
         (lrun compactor db_empty (opened compactor) steps).
Proof.
  eapply Forall_impl; [|apply ledger_exact].
  intros p (l & Hs & Hp). exists l. split; [exact Hs|].
  rewrite !(count_perm _ _ _ Hp). apply held_counts.
Qed.

(* ---- peaks: a trace that ends well never failed, and grows by at most its acquisitions *)
Definition is_acq (e : lev) : bool := match e with Acq _ => true | Rel _ => false end.
Definition nacq (es : list lev) : nat := length (filter is_acq es).

Lemma nacq_app a b : nacq (a ++ b) = (nacq a + nacq b)%nat.
Proof. unfold nacq. rewrite filter_app, app_length. reflexivity. Qed.

Lemma nacq_map_acq rs : nacq (map Acq rs) = length rs.
Proof. unfold nacq. induction rs as [|r rs IH]; simpl; [reflexivity|]. rewrite IH. reflexivity. Qed.

Lemma nacq_map_rel rs : nacq (map Rel rs) = 0%nat.
Proof. unfold nacq. induction rs as [|r rs IH]; simpl; [reflexivity|exact IH]. Qed.

Definition ok_trace (B : nat) (ol : option ledger) (es : list lev) : Prop :=
  Forall (fun x => exists l', x = Some l' /\ (length l' <= B)%nat) (trace_evs ol es).

Lemma trace_evs_app a : forall ol b,
  trace_evs ol (a ++ b) = trace_evs ol a ++ trace_evs (apply_evs ol a) b.
Proof.
  induction a as [|e a IH]; intros ol b; [reflexivity|].
  cbn [trace_evs app]. rewrite IH. reflexivity.
Qed.

Lemma ok_trace_app B ol a b : ok_trace B ol a -> ok_trace B (apply_evs ol a) b -> ok_trace B ol (a ++ b).
Proof. intros Ha Hb. unfold ok_trace. rewrite trace_evs_app. apply Forall_app. split; assumption. Qed.

Lemma ok_trace_crude B es : forall l lf,
  apply_evs (Some l) es = Some lf -> (length l + nacq es <= B)%nat -> ok_trace B (Some l) es.
Proof.
  induction es as [|e es IH]; intros l lf Hf Hb; [constructor|].
  unfold ok_trace. cbn [trace_evs].
  change (apply_evs (Some l) (e :: es)) with (apply_evs (apply_ev (Some l) e) es) in Hf.
  destruct (apply_ev (Some l) e) as [l1|] eqn:E1; [|rewrite apply_evs_none in Hf; discriminate].
  assert (length l1 + nacq es <= B)%nat as Hb1.
  { unfold nacq in *. destruct e as [r|r]; simpl in E1, Hb.
    - inversion E1; subst. simpl. lia.
    - apply remove1_length in E1. lia. }
  constructor; [exists l1; split; [reflexivity|lia]|]. exact (IH l1 lf Hf Hb1).
Qed.

Lemma ok_trace_trip B m es m' l : trip m es m' -> Permutation l m ->
  (length m + nacq es <= B)%nat -> ok_trace B (Some l) es.
Proof.
  intros Ht Hp Hb. destruct (trip_some m es m' l Ht Hp) as (l' & Hl' & _).
  apply ok_trace_crude with (lf := l'); [exact Hl'|]. rewrite (Permutation_length Hp). exact Hb.
Qed.

Lemma nacq_rotate s : (nacq (rotate_events s) <= 4)%nat.
Proof. unfold rotate_events, flush_events. destruct (d_wr s); cbv; lia. Qed.

Lemma nacq_run sel g0 : nacq (run_events sel g0) = (2 * length sel + 3)%nat.
Proof.
  unfold run_events. rewrite tmps_acq, tmps_rel, <- (map_map RMap Rel).
  rewrite !nacq_app, nacq_map_acq, !nacq_map_rel, tmps_length. cbv [nacq filter is_acq length]. lia.
Qed.

Lemma nacq_compact c sizes s : (nacq (compact_events c sizes s) <= 2 * length (d_tables s) + 3)%nat.
Proof.
  destruct (db_compact_cases2 c sizes s) as [E|(pre & g & t & run & post & m & Hts & E)].
  - unfold compact_events. rewrite E. cbv [snd nacq filter length]. lia.
  - rewrite (compact_events_run _ _ _ _ _ _ E), nacq_run, Hts.
    cbn [length]. rewrite !app_length, map_length. cbn [length]. lia.
Qed.

Lemma nacq_close b s : (nacq (close_events b s) <= 4)%nat.
Proof.
  unfold close_events. rewrite <- (map_map RMap Rel), !nacq_app, !nacq_map_rel.
  pose proof (nacq_rotate s) as H. change (nacq [Rel RWal]) with 0%nat. lia.
Qed.

Lemma nacq_open b s : (nacq (open_events b s) <= length (d_tables s) + 3)%nat.
Proof.
  unfold open_events. rewrite <- (map_map RMap Acq), !nacq_app, !nacq_map_acq.
  unfold gens. rewrite !map_length. change (nacq [Acq RWal]) with 1%nat. destruct b; simpl; lia.
Qed.

(* inside a step (while a flush or a compaction is at work) the ledger never fails and never
   exceeds three handles per live table plus a constant *)
Theorem peak_bounded (compactor : bool) (s : db) (l : ledger) (st : dstep) :
  Permutation l (held compactor s) ->
  Forall (fun x => exists l', x = Some l' /\
                   (length l' <= 3 * Nat.max (length (d_tables s)) (length (d_tables (fst (db_step s st)))) + 8)%nat)
         (trace_evs (Some l) (step_events compactor s st)).
Proof.
  intros Hl.
  pose proof (held_length compactor s) as Hlen.
  pose proof (Nat.le_max_l (length (d_tables s)) (length (d_tables (fst (db_step s st))))) as Hmax1.
  pose proof (Nat.le_max_r (length (d_tables s)) (length (d_tables (fst (db_step s st))))) as Hmax2.
  set (T := Nat.max _ _) in *.
  change (ok_trace (3 * T + 8) (Some l) (step_events compactor s st)).
  destruct st as [k v|k|k| |c sizes|].
  - constructor.
  - constructor.
  - constructor.
  - apply (ok_trace_trip _ _ _ _ _ (trip_rotate compactor s) Hl).
    pose proof (nacq_rotate s) as Hn. lia.
  - apply (ok_trace_trip _ _ _ _ _ (trip_compact compactor c sizes s) Hl).
    pose proof (nacq_compact c sizes s) as Hn. lia.
  - cbn [step_events db_step fst] in *. apply ok_trace_app.
    + apply (ok_trace_trip _ _ _ _ _ (trip_close compactor s) Hl).
      pose proof (nacq_close compactor s) as Hn. lia.
    + destruct (trip_some _ _ _ l (trip_close compactor s) Hl) as (l' & -> & Hnil).
      apply Permutation_sym, Permutation_nil in Hnil. subst l'.
      apply (ok_trace_trip _ _ _ _ _ (trip_open compactor (db_reopen s)) (Permutation_refl [])).
      pose proof (nacq_open compactor (db_reopen s)) as Hn. simpl length at 1. lia.
Qed.

Lemma last_Forall {A} (P : A -> Prop) l : forall d, Forall P l -> P d -> P (last l d).
Proof.
  induction l as [|x l IH]; intros d Hl Hd; [exact Hd|].
  inversion Hl as [|? ? Hx Hl']; subst. destruct l as [|y l]; [exact Hx|].
  exact (IH d Hl' Hd).
Qed.

(* Open ... Close: nothing is left, whatever happened in between *)
Theorem close_releases_all (compactor : bool) (steps : list dstep) :
  session_end compactor steps = Some [].
Proof.
  unfold session_end.
  assert (lperm (snd (final compactor steps)) (held compactor (fst (final compactor steps)))) as H.
  { unfold final. apply (last_Forall (fun p => lperm (snd p) (held compactor (fst p)))).
    - apply lrun_exact, opened_held.
    - apply opened_held. }
  destruct (final compactor steps) as [s ol]. cbn [fst snd] in H.
  destruct (trip_close compactor s ol H) as (l' & -> & Hnil).
  apply Permutation_sym, Permutation_nil in Hnil. subst l'. reflexivity.
Qed.

Lemma filter_neg_filter {A} (p : A -> bool) l : filter p (filter (fun r => negb (p r)) l) = [].
Proof.
  induction l as [|x l IH]; simpl; [reflexivity|].
  destruct (p x) eqn:E; simpl; [exact IH|]. rewrite E. exact IH.
Qed.

Lemma filter_filter_neg {A} (p : A -> bool) l : filter (fun r => negb (p r)) (filter p l) = [].
Proof.
  induction l as [|x l IH]; simpl; [reflexivity|].
  destruct (p x) eqn:E; simpl; [|exact IH]. rewrite E. exact IH.
Qed.

(* table reader: closing the reader alone releases its mapping and every scanner created from it,
   complete or abandoned; with the independent handles closed too, nothing is left *)
Theorem reader_close_releases_owned (ops : list rop) :
  filter r_owned_by_reader (snd (r_close_reader (fold_left r_step ops r_open))) = [].
Proof. unfold r_close_reader. cbn [snd]. apply filter_neg_filter. Qed.

Theorem reader_close_releases_all (ops : list rop) :
  snd (r_close_reader (r_close_handles (fold_left r_step ops r_open))) = [].
Proof. unfold r_close_reader, r_close_handles. cbn [snd]. apply filter_filter_neg. Qed.

(* non-vacuity: a session with a compaction that really merges *)
Example ledger_session :
  let steps := [SPut (Some [1]) (Some [1]); SRotate; SPut (Some [2]) (Some [2]); SRotate;
                SCompact (mkCfg 1 1000 100) [10; 10]; SReopen; SDelete (Some [1]); SRotate] in
  map (fun p => option_map (fun l => (count is_map l, count is_fd l)) (snd p)) (lrun true db_empty (opened true) steps)
  = [Some (0, 1); Some (1, 1); Some (1, 1); Some (2, 1); Some (1, 1); Some (1, 1); Some (1, 1); Some (2, 1)]
  /\ session_end true steps = Some [].
Proof. intros steps. split; vm_compute; reflexivity. Qed.

Print Assumptions ledger_exact.
Print Assumptions resources_bounded.
Print Assumptions peak_bounded.
Print Assumptions close_releases_all.
Print Assumptions reader_close_releases_owned.
Print Assumptions reader_close_releases_all.
Print Assumptions ledger_session.
