(* C17, life cycle: a refused call changes nothing - neither the flags nor the content - and whatever mix of refused
   calls surrounds them, the calls between the Open and the Close of a handle run exactly as the program of the logical
   database. *)
From GoSST Require Import Base.Bytes Db.Logical Db.Handle.

Theorem refused_call_has_no_effect (h : handle) (c : hcall) (e : herr) :
  snd (h_step h c) = HRefused e -> fst (h_step h c) = h.
Proof.
  destruct c as [| |k v|k|k]; cbn [h_step].
  - destruct (h_open h); cbn; [reflexivity|discriminate].
  - destruct (refusal h); cbn; [reflexivity|discriminate].
  - destruct (put_args_ok k v); cbn [negb]; [|reflexivity].
    destruct (refusal h); [reflexivity|]. destruct (db_step (h_db h) (SPut k v)); cbn. discriminate.
  - destruct (refusal h); [reflexivity|]. destruct (db_step (h_db h) (SDelete k)); cbn. discriminate.
  - destruct (refusal h); [reflexivity|]. destruct (db_step (h_db h) (SGet k)); cbn. discriminate.
Qed.

(* which calls are refused, and with what *)
Lemma before_open_all_refused (d : db) (c : hcall) :
  c <> HOpen -> h_step (handle_new d) c = (handle_new d, outside ENotOpenedYet c).
Proof.
  destruct c as [| |k v|k|k]; intro H; try reflexivity; [contradiction|].
  cbn [h_step outside]. destruct (put_args_ok k v); reflexivity.
Qed.

Lemma after_close_all_refused (d : db) (c : hcall) :
  h_step (mkHandle true true d) c = (mkHandle true true d, outside EAlreadyClosed c).
Proof. destruct c as [| |k v|k|k]; try reflexivity. cbn [h_step outside]. destruct (put_args_ok k v); reflexivity. Qed.

Lemma run_before_open (d : db) (cs : list hcall) :
  Forall (fun c => c <> HOpen) cs ->
  h_run (handle_new d) cs = (handle_new d, map (outside ENotOpenedYet) cs).
Proof.
  induction 1 as [|c cs Hc _ IH]; [reflexivity|].
  cbn [h_run map]. rewrite (before_open_all_refused d c Hc), IH. reflexivity.
Qed.

Lemma run_after_close (d : db) (cs : list hcall) :
  h_run (mkHandle true true d) cs = (mkHandle true true d, map (outside EAlreadyClosed) cs).
Proof.
  induction cs as [|c cs IH]; [reflexivity|].
  cbn [h_run map]. rewrite after_close_all_refused, IH. reflexivity.
Qed.

(* between Open and Close: data calls are the steps of the logical database, a second Open is refused *)
Fixpoint window_outs (s : db) (cs : list hcall) : db * list hout :=
  match cs with
  | [] => (s, [])
  | c :: r =>
      match data_step c with
      | Some st => let '(s', o) := db_step s st in let '(s'', os) := window_outs s' r in (s'', HDone o :: os)
      | None => let '(s'', os) := window_outs s r in (s'', HRefused EAlreadyOpen :: os)     (* HOpen; HClose is excluded below *)
      end
  end.

Lemma run_window (cs : list hcall) : Forall (fun c => c <> HClose) cs ->
  forall s, h_run (mkHandle true false s) cs
            = (mkHandle true false (fst (window_outs s cs)), snd (window_outs s cs)).
Proof.
  induction 1 as [|c cs Hc _ IH]; intro s; [reflexivity|].
  destruct c as [| |k v|k|k]; cbn [h_run h_step refusal h_open h_closed h_db negb window_outs data_step].
  - rewrite IH. destruct (window_outs s cs). reflexivity.
  - contradiction.
  - cbn [db_step]. unfold db_put, put_args_ok.
    destruct k as [[|kb kr]|]; destruct v as [[|vb vr]|]; cbn [negb]; rewrite IH;
      match goal with |- context [window_outs ?x cs] => destruct (window_outs x cs) end; reflexivity.
  - destruct (db_step s (SDelete k)) as [s' o]. rewrite IH. destruct (window_outs s' cs). reflexivity.
  - destruct (db_step s (SGet k)) as [s' o]. rewrite IH. destruct (window_outs s' cs). reflexivity.
Qed.

Lemma h_run_app (h : handle) (a b : list hcall) :
  h_run h (a ++ b) = let '(h1, o1) := h_run h a in let '(h2, o2) := h_run h1 b in (h2, o1 ++ o2).
Proof.
  revert h; induction a as [|c a IH]; intro h.
  - cbn. destruct (h_run h b). reflexivity.
  - cbn [app h_run]. destruct (h_step h c) as [h' o]. rewrite IH.
    destruct (h_run h' a) as [h1 o1]. destruct (h_run h1 b) as [h2 o2]. reflexivity.
Qed.

(* the whole life of a handle: refused calls, Open, the window, Close, refused calls *)
Theorem handle_life (stored : db) (pre window post : list hcall) :
  Forall (fun c => c <> HOpen) pre -> Forall (fun c => c <> HClose) window ->
  let opened := db_reopen stored in
  h_run (handle_new stored) (pre ++ [HOpen] ++ window ++ [HClose] ++ post)
  = (mkHandle true true (db_reopen (fst (window_outs opened window))),
     map (outside ENotOpenedYet) pre ++ [HDone ODone] ++ snd (window_outs opened window) ++ [HDone ODone]
     ++ map (outside EAlreadyClosed) post).
Proof.
  intros Hpre Hwin opened.
  rewrite h_run_app, (run_before_open stored pre Hpre).
  rewrite h_run_app. cbn [h_run h_step handle_new h_open h_closed h_db].
  rewrite h_run_app, (run_window window Hwin).
  rewrite h_run_app. cbn [h_run h_step refusal h_open h_closed h_db negb].
  rewrite run_after_close. reflexivity.
Qed.

(* non-vacuity: Close before Open is refused and the handle still opens and works; after Close everything is refused *)
Local Open Scope N_scope.
Example handle_example :
  snd (h_run (handle_new db_empty)
         [HClose; HGet [1]; HOpen; HPut (Some [1]) (Some [7]); HOpen; HGet [1]; HClose; HGet [1]; HOpen; HClose])
  = [HRefused ENotOpenedYet; HRefused ENotOpenedYet; HDone ODone; HDone (OPut true); HRefused EAlreadyOpen;
     HDone (OGet (Some [7])); HDone ODone; HRefused EAlreadyClosed; HRefused EAlreadyOpen; HRefused EAlreadyClosed].
Proof. reflexivity. Qed.

Print Assumptions refused_call_has_no_effect.
Print Assumptions handle_life.
