(* SimpleDB as a logical state machine (simpledb/db.go, rw_memstore.go, flush.go, compaction.go,
   sstable_manager.go, recovery.go at the level of table contents): tables oldest first, read and
   write memstore, generation counter.  Tables are sorted association lists key -> value where
   None is a tombstone (nil) and Some [] the empty value that a partial compaction writes in place
   of a tombstone; both read as "not found".  That each on-disk table behaves as such a list is
   C03/C15, that the memstore behaves as one is C14, that merging yields the union is C08. *)
From GoSST Require Import Base.Bytes.
Local Open Scope N_scope.

Definition mval := option bytes.
Definition ltable := list (bytes * mval).

Fixpoint lt_get (k : bytes) (t : ltable) : option mval :=
  match t with
  | [] => None
  | (k', v) :: r => if beqb k k' then Some v else lt_get k r
  end.

Fixpoint lt_set (k : bytes) (v : mval) (l : ltable) : ltable :=
  match l with
  | [] => [(k, v)]
  | (k', v') :: r =>
      match bcmp k k' with
      | Lt => (k, v) :: l
      | Eq => (k, v) :: r
      | Gt => (k', v') :: lt_set k v r
      end
  end.

Definition lt_overlay (base newer : ltable) : ltable :=
  fold_left (fun acc kv => lt_set (fst kv) (snd kv) acc) newer base.
Definition lt_union (tables : list ltable) : ltable := fold_left lt_overlay tables [].

Record cfg := mkCfg { c_threshold : N; c_max_size : N; c_ratio_pct : N }.

Record db := mkDb {
  d_tables : list (N * ltable);      (* (generation number in the directory name, content), oldest first *)
  d_rd : ltable;                     (* read store: the memstore handed to the flusher last *)
  d_wr : ltable;                     (* write store *)
  d_gen : N
}.

Definition db_empty : db := mkDb [] [] [] 0.

(* SuperSSTableReader.Get over the table list: newest first *)
Fixpoint tables_get_rev (ts : list (N * ltable)) (k : bytes) : option mval :=
  match ts with
  | [] => None
  | (_, t) :: r => match lt_get k t with Some v => Some v | None => tables_get_rev r k end
  end.
Definition tables_get (ts : list (N * ltable)) (k : bytes) : option mval := tables_get_rev (rev ts) k.

(* GetBytes: None = ErrNotFound *)
Definition db_get (s : db) (k : bytes) : option bytes :=
  let from_tables :=
    match tables_get (d_tables s) k with
    | Some (Some (b :: r)) => Some (b :: r)
    | _ => None                       (* not found, nil or empty *)
    end in
  match lt_get k (d_wr s) with
  | Some (Some v) => Some v
  | Some None => None                 (* tombstoned in the write store *)
  | None =>
      match lt_get k (d_rd s) with
      | Some (Some v) => Some v
      | Some None => None
      | None => from_tables
      end
  end.

(* Put / PutBytes: empty or nil keys and values are rejected before anything happens *)
Definition db_put (s : db) (k v : option bytes) : db * bool :=
  match k, v with
  | Some (kb :: kr), Some (vb :: vr) =>
      (mkDb (d_tables s) (d_rd s) (lt_set (kb :: kr) (Some (vb :: vr)) (d_wr s)) (d_gen s), true)
  | _, _ => (s, false)
  end.

(* Delete / DeleteBytes: always a tombstone in the write store (nil key = empty key) *)
Definition db_delete (s : db) (k : option bytes) : db :=
  let kb := match k with Some b => b | None => [] end in
  mkDb (d_tables s) (d_rd s) (lt_set kb None (d_wr s)) (d_gen s).

(* rotation + completed flush: the write store becomes the read store; if it holds entries it is
   written (with tombstones) as the table of the next generation *)
Definition db_rotate (s : db) : db :=
  match d_wr s with
  | [] => mkDb (d_tables s) [] [] (d_gen s)
  | w => mkDb (d_tables s ++ [(d_gen s + 1, w)]) w [] (d_gen s + 1)
  end.

(* ---- compaction *)
Definition count_nil (t : ltable) : N :=
  N.of_nat (length (filter (fun kv => match snd kv with None => true | Some _ => false end) t)).

(* per-table pre-selection from the metadata: size below the limit, or tombstone ratio reached *)
Definition preselect (c : cfg) (bytes_ : N) (t : ltable) : bool :=
  let num := N.of_nat (length t) in
  (bytes_ <? c_max_size c) || ((0 <? num) && (c_ratio_pct c * num <=? 100 * count_nil t)).

(* floodFill as the loops are written: from each true, look for the next true and fill the gap *)
Fixpoint next_true (a : list bool) (j : nat) : option nat :=
  match a with
  | [] => None
  | b :: r => if b then Some j else next_true r (S j)
  end.
Fixpoint fill (a : list bool) (i j : nat) (pos : nat) : list bool :=
  match a with
  | [] => []
  | b :: r => ((Nat.leb i pos && Nat.leb pos j) || b) :: fill r i j (S pos)
  end.
Fixpoint flood_loop (fuel : nat) (a : list bool) (i : nat) : list bool :=
  match fuel with
  | O => a
  | S f =>
      if Nat.ltb i (length a) then
        if nth i a false then
          match next_true (skipn (S i) a) (S i) with
          | Some j => flood_loop f (fill a i j 0) j      (* i = j - 1, then i++ *)
          | None => a                                     (* hit the end: done *)
          end
        else flood_loop f a (S i)
      else a
  end.
Definition flood_fill (a : list bool) : list bool := flood_loop (S (length a)) a 0.

Fixpoint select_by {A} (sel : list bool) (l : list A) : list A :=
  match sel, l with
  | true :: s, x :: r => x :: select_by s r
  | false :: s, _ :: r => select_by s r
  | _, _ => []
  end.

Definition keep_tombstones (t : ltable) : ltable :=
  map (fun kv => (fst kv, match snd kv with None => Some [] | v => v end)) t.
Definition drop_tombstones (t : ltable) : ltable :=
  filter (fun kv => match snd kv with Some (_ :: _) => true | _ => false end) t.

(* replace the selected run by the merged table at the position (and under the name) of its first member *)
Fixpoint replace_run (sel : list bool) (ts : list (N * ltable)) (merged : ltable) (placed : bool) : list (N * ltable) :=
  match sel, ts with
  | true :: s, (g, _) :: r => if placed then replace_run s r merged true else (g, merged) :: replace_run s r merged true
  | false :: s, x :: r => x :: replace_run s r merged placed
  | _, rest => rest
  end.

(* one compaction cycle; [sizes] = TotalBytes of each live table (taken from the implementation's
   metadata in the correspondence, universally quantified in the theorems).
   Returns the new state and the selected generation numbers ([] = nothing compacted). *)
Definition db_compact (c : cfg) (sizes : list N) (s : db) : db * list N :=
  let pre := map (fun p => preselect c (fst p) (snd (snd p))) (combine sizes (d_tables s)) in
  let sel := flood_fill pre in
  let chosen := select_by sel (d_tables s) in
  if N.of_nat (length chosen) <=? c_threshold c then (s, [])
  else
    let u := lt_union (map snd chosen) in
    let includes_oldest := match sel with true :: _ => true | _ => false end in
    let merged := if includes_oldest then drop_tombstones u else keep_tombstones u in
    (mkDb (replace_run sel (d_tables s) merged false) (d_rd s) (d_wr s) (d_gen s), map fst chosen).

(* Close (flush what is in the write store) and Open (tables by name, empty memstores) *)
Definition db_reopen (s : db) : db :=
  let s' := db_rotate s in
  mkDb (d_tables s') [] [] (fold_left N.max (map fst (d_tables s')) 0).

(* ---- programs *)
Inductive dstep :=
| SPut (k v : option bytes) | SDelete (k : option bytes) | SGet (k : bytes)
| SRotate | SCompact (c : cfg) (sizes : list N) | SReopen.

Inductive dout := OPut (ok : bool) | ODone | OGet (v : option bytes) | OCompact (selected : list N).

Definition db_step (s : db) (st : dstep) : db * dout :=
  match st with
  | SPut k v => let '(s', ok) := db_put s k v in (s', OPut ok)
  | SDelete k => (db_delete s k, ODone)
  | SGet k => (s, OGet (db_get s k))
  | SRotate => (db_rotate s, ODone)
  | SCompact c sizes => let '(s', sel) := db_compact c sizes s in (s', OCompact sel)
  | SReopen => (db_reopen s, ODone)
  end.

Fixpoint db_run (s : db) (steps : list dstep) : db * list dout :=
  match steps with
  | [] => (s, [])
  | st :: r => let '(s', o) := db_step s st in let '(s'', os) := db_run s' r in (s'', o :: os)
  end.
