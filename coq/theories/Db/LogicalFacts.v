(* C01 / C06 / C17 over the logical database machine (Db/Logical.v): every Get returns the value of
   the most recent Put (or not-found), wherever rotations+flushes, compaction cycles (ANY
   configuration, ANY table sizes, hence any selectable run) and close/reopen are placed;
   a compaction cycle never changes what a key reads as; rejected calls have no effect. *)
From GoSST Require Import Base.Bytes Base.Order Db.Logical.
From Coq Require Import Lia Sorting.Sorted.
Local Open Scope N_scope.

(* ---- floodFill *)
Fixpoint last_true (a : list bool) (pos : nat) (acc : option nat) : option nat :=
  match a with
  | [] => acc
  | b :: r => last_true r (S pos) (if b then Some pos else acc)
  end.

(* the selection after floodFill: everything between the first and the last pre-selected table *)
Definition flood_spec (a : list bool) : list bool :=
  match next_true a 0, last_true a 0 None with
  | Some f, Some l => fill a f l 0
  | _, _ => a
  end.

(* -- helper facts about fill / next_true / last_true *)
Lemma fill_length a : forall i j pos, length (fill a i j pos) = length a.
Proof. induction a as [|b a IH]; intros i j pos; simpl; [reflexivity|]. rewrite IH. reflexivity. Qed.

Lemma fill_nth a : forall i j pos p,
  nth p (fill a i j pos) false =
  if (p <? length a)%nat then (Nat.leb i (pos + p) && Nat.leb (pos + p) j) || nth p a false else false.
Proof.
  induction a as [|b a IH]; intros i j pos p; simpl.
  - destruct p; reflexivity.
  - destruct p as [|p].
    + rewrite Nat.add_0_r. reflexivity.
    + rewrite IH. rewrite Nat.add_succ_r. simpl.
      change (S p <? S (length a))%nat with (p <? length a)%nat. reflexivity.
Qed.

Ltac leb_cases :=
  repeat match goal with
  | |- context [Nat.leb ?x ?y] => destruct (Nat.leb_spec x y)
  | |- context [Nat.ltb ?x ?y] => destruct (Nat.ltb_spec x y)
  end; simpl; try lia; auto.

Lemma fill_fill a i j l : (i <= j <= l)%nat -> fill (fill a i j 0) j l 0 = fill a i l 0.
Proof.
  intros H. apply nth_ext with (d := false) (d' := false).
  - rewrite !fill_length. reflexivity.
  - intros p _. rewrite !fill_nth, !fill_length. simpl.
    destruct (nth p a false); leb_cases.
Qed.

Lemma fill_id a i j :
  (forall p, (i <= p <= j)%nat -> (p < length a)%nat -> nth p a false = true) -> fill a i j 0 = a.
Proof.
  intros H. apply nth_ext with (d := false) (d' := false).
  - apply fill_length.
  - intros p Hp. rewrite fill_length in Hp. rewrite fill_nth. simpl.
    destruct (Nat.ltb_spec p (length a)) as [_|Hge]; [|lia].
    destruct (Nat.leb_spec i p) as [H1|H1]; simpl; auto.
    destruct (Nat.leb_spec p j) as [H2|H2]; simpl; auto.
    symmetry. apply H; lia.
Qed.

Lemma nth_skipn_add n : forall (a : list bool) p, nth p (skipn n a) false = nth (n + p) a false.
Proof.
  induction n as [|n IH]; intros a p; simpl; [reflexivity|].
  destruct a as [|b a]; simpl; [destruct p; reflexivity|apply IH].
Qed.

Lemma next_true_Some a : forall j f, next_true a j = Some f ->
  exists p, f = (j + p)%nat /\ nth p a false = true /\ forall q, (q < p)%nat -> nth q a false = false.
Proof.
  induction a as [|b a IH]; intros j f H; simpl in H; [discriminate|].
  destruct b.
  - inversion H; subst. exists O. repeat split; [lia|]. intros q Hq; lia.
  - apply IH in H. destruct H as (p & Hf & Hp & Hq). exists (S p). repeat split; [lia|exact Hp|].
    intros [|q] Hlt; simpl; [reflexivity|apply Hq; lia].
Qed.

Lemma next_true_None a : forall j, next_true a j = None -> forall p, nth p a false = false.
Proof.
  induction a as [|b a IH]; intros j H p; simpl in H.
  - destruct p; reflexivity.
  - destruct b; [discriminate|]. destruct p as [|p]; simpl; [reflexivity|]. eapply IH; eassumption.
Qed.

Lemma last_true_Some a : forall pos acc l, last_true a pos acc = Some l ->
  (acc = Some l /\ forall p, nth p a false = false)
  \/ exists p, l = (pos + p)%nat /\ nth p a false = true /\ forall q, (p < q)%nat -> nth q a false = false.
Proof.
  induction a as [|b a IH]; intros pos acc l H; simpl in H.
  - left. split; [exact H|]. intros [|p]; reflexivity.
  - apply IH in H. destruct H as [[Hacc Hall]|(p & Hl & Hp & Hq)].
    + destruct b.
      * right. exists O. inversion Hacc; subst. repeat split; [lia|].
        intros [|q] Hlt; [lia|]. simpl. apply Hall.
      * left. split; [exact Hacc|]. intros [|p]; simpl; [reflexivity|apply Hall].
    + right. exists (S p). repeat split; [lia|exact Hp|].
      intros [|q] Hlt; [lia|]. simpl. apply Hq; lia.
Qed.

Lemma last_true_None a : forall pos acc, last_true a pos acc = None ->
  acc = None /\ forall p, nth p a false = false.
Proof.
  induction a as [|b a IH]; intros pos acc H; simpl in H.
  - split; [exact H|]. intros [|p]; reflexivity.
  - apply IH in H. destruct H as [Hacc Hall]. destruct b; [discriminate|].
    split; [exact Hacc|]. intros [|p]; simpl; [reflexivity|apply Hall].
Qed.

(* the loop: below i nothing is looked at any more; from i on, the first true f is extended up to
   the last true l *)
Lemma flood_loop_spec : forall fuel a i, (length a < fuel + i)%nat ->
  ((forall p, (i <= p)%nat -> nth p a false = false) -> flood_loop fuel a i = a)
  /\ (forall f l, (i <= f)%nat -> nth f a false = true ->
        (forall p, (i <= p < f)%nat -> nth p a false = false) ->
        nth l a false = true -> (forall p, (l < p)%nat -> nth p a false = false) ->
        flood_loop fuel a i = fill a f l 0).
Proof.
  induction fuel as [|n IH]; intros a i Hlen.
  - split; [reflexivity|]. intros f l Hif Hf _ _ _.
    rewrite nth_overflow in Hf by lia. discriminate.
  - cbn [flood_loop]. destruct (Nat.ltb_spec i (length a)) as [Hi|Hi].
    + destruct (nth i a false) eqn:Hnth.
      * split.
        { intros Hall. rewrite Hall in Hnth by lia. discriminate. }
        intros f l Hif Hf Hbefore Hl Hafter.
        assert (f = i) as ->.
        { destruct (Nat.eq_dec f i) as [E|E]; [exact E|]. rewrite Hbefore in Hnth by lia. discriminate. }
        assert (i <= l)%nat as Hil.
        { destruct (Nat.le_gt_cases i l) as [E|E]; [exact E|]. rewrite Hafter in Hnth by lia. discriminate. }
        destruct (next_true (skipn (S i) a) (S i)) as [j|] eqn:Hnt.
        -- apply next_true_Some in Hnt. destruct Hnt as (p & -> & Hp & Hq).
           rewrite nth_skipn_add in Hp.
           assert (S i + p <= l)%nat as Hjl.
           { destruct (Nat.le_gt_cases (S i + p) l) as [E|E]; [exact E|]. rewrite Hafter in Hp by lia. discriminate. }
           destruct (IH (fill a i (S i + p) 0) (S i + p)%nat) as [_ IHB].
           { rewrite fill_length. lia. }
           rewrite (IHB (S i + p)%nat l).
           ++ apply fill_fill. lia.
           ++ lia.
           ++ rewrite fill_nth. cbn [Nat.add] in *. destruct (Nat.ltb_spec (S (i + p)) (length a)) as [E|E].
              ** rewrite Hp. apply orb_true_r.
              ** rewrite nth_overflow in Hp by lia. discriminate.
           ++ intros q Hq'. lia.
           ++ rewrite fill_nth. simpl. destruct (Nat.ltb_spec l (length a)) as [E|E].
              ** rewrite Hl. apply orb_true_r.
              ** rewrite nth_overflow in Hl by lia. discriminate.
           ++ intros q Hq'. rewrite fill_nth. cbn [Nat.add] in *. rewrite Hafter by lia.
              destruct (q <? length a)%nat; [|reflexivity]. leb_cases.
        -- assert (l = i) as ->.
           { destruct (Nat.eq_dec l i) as [E|E]; [exact E|].
             pose proof (next_true_None _ _ Hnt (l - S i)%nat) as Hx. rewrite nth_skipn_add in Hx.
             replace (S i + (l - S i))%nat with l in Hx by lia. rewrite Hx in Hl. discriminate. }
           symmetry. apply fill_id. intros p Hp _. assert (p = i) as -> by lia. exact Hnth.
      * destruct (IH a (S i)) as [IHA IHB]; [lia|]. split.
        -- intros Hall. apply IHA. intros p Hp. apply Hall. lia.
        -- intros f l Hif Hf Hbefore Hl Hafter.
           assert (f <> i) as Hne by (intros ->; rewrite Hf in Hnth; discriminate).
           apply IHB; auto; [lia|]. intros p Hp. apply Hbefore. lia.
    + split; [reflexivity|]. intros f l Hif Hf _ _ _.
      rewrite nth_overflow in Hf by lia. discriminate.
Qed.

Theorem flood_fill_contiguous (a : list bool) : flood_fill a = flood_spec a.
Proof.
  unfold flood_fill, flood_spec.
  destruct (flood_loop_spec (S (length a)) a 0) as [HA HB]; [lia|].
  destruct (next_true a 0) as [f|] eqn:Hf.
  - apply next_true_Some in Hf. destruct Hf as (p & -> & Hp & Hq). simpl.
    destruct (last_true a 0 None) as [l|] eqn:Hl.
    + apply last_true_Some in Hl. destruct Hl as [[Hacc _]|(q & -> & Hq1 & Hq2)]; [discriminate|].
      simpl. apply HB; auto; [lia|]. intros r Hr. apply Hq. lia.
    + apply last_true_None in Hl. destruct Hl as [_ Hall]. rewrite Hall in Hp. discriminate.
  - apply HA. intros p _. eapply next_true_None; eassumption.
Qed.

(* the specification in closed form *)
Lemma flood_spec_cases a :
  (flood_spec a = a /\ forall p, nth p a false = false)
  \/ exists f l, (f <= l < length a)%nat /\ flood_spec a = fill a f l 0
       /\ forall p, nth p a false = true -> (f <= p <= l)%nat.
Proof.
  unfold flood_spec.
  destruct (next_true a 0) as [f|] eqn:Hf.
  - apply next_true_Some in Hf. destruct Hf as (p & -> & Hp & Hq). simpl.
    destruct (last_true a 0 None) as [l|] eqn:Hl.
    + apply last_true_Some in Hl. destruct Hl as [[Hacc _]|(q & -> & Hq1 & Hq2)]; [discriminate|].
      simpl. right. exists p, q.
      assert (q < length a)%nat as Hqlen.
      { destruct (Nat.lt_ge_cases q (length a)) as [E|E]; [exact E|]. rewrite nth_overflow in Hq1 by lia. discriminate. }
      assert (p <= q)%nat as Hpq.
      { destruct (Nat.le_gt_cases p q) as [E|E]; [exact E|]. rewrite Hq2 in Hp by lia. discriminate. }
      split; [lia|]. split; [reflexivity|].
      intros r Hr. split.
      * destruct (Nat.le_gt_cases p r) as [E|E]; [exact E|]. rewrite Hq in Hr by lia. discriminate.
      * destruct (Nat.le_gt_cases r q) as [E|E]; [exact E|]. rewrite Hq2 in Hr by lia. discriminate.
    + apply last_true_None in Hl. destruct Hl as [_ Hall]. rewrite Hall in Hp. discriminate.
  - left. split; [reflexivity|]. intros p. eapply next_true_None; eassumption.
Qed.

Lemma fill_nth_true a f l p : (f <= l < length a)%nat ->
  (forall q, nth q a false = true -> (f <= q <= l)%nat) ->
  (nth p (fill a f l 0) false = true <-> (f <= p <= l)%nat).
Proof.
  intros Hfl Hin. rewrite fill_nth. simpl. split.
  - destruct (Nat.ltb_spec p (length a)) as [E|E]; [|discriminate].
    destruct (nth p a false) eqn:Hp; [intros _; apply Hin; exact Hp|].
    rewrite orb_false_r. destruct (Nat.leb_spec f p), (Nat.leb_spec p l); simpl; try discriminate. lia.
  - intros H. destruct (Nat.ltb_spec p (length a)) as [E|E]; [|lia].
    destruct (Nat.leb_spec f p), (Nat.leb_spec p l); simpl; try lia; reflexivity.
Qed.

(* consequences: a superset of the pre-selection, of the same length, without gaps *)
Corollary flood_fill_props (a : list bool) :
  length (flood_fill a) = length a
  /\ (forall i, nth i a false = true -> nth i (flood_fill a) false = true)
  /\ (forall i j k, (i <= j <= k)%nat -> nth i (flood_fill a) false = true -> nth k (flood_fill a) false = true ->
        nth j (flood_fill a) false = true).
Proof.
  rewrite flood_fill_contiguous.
  destruct (flood_spec_cases a) as [[-> Hall]|(f & l & Hfl & -> & Hin)].
  - split; [reflexivity|]. split; [auto|]. intros i j k _ Hi _. rewrite Hall in Hi. discriminate.
  - split; [apply fill_length|]. split.
    + intros i Hi. apply fill_nth_true; auto.
    + intros i j k Hijk Hi Hk. apply fill_nth_true in Hi; auto. apply fill_nth_true in Hk; auto.
      apply fill_nth_true; auto. lia.
Qed.

(* ---- the map specification *)
Definition smap := bytes -> option bytes.
Definition s_empty : smap := fun _ => None.
Definition s_set (m : smap) (k : bytes) (v : option bytes) : smap := fun k' => if beqb k' k then v else m k'.

Definition valid_put (k v : option bytes) : bool :=
  match k, v with Some (_ :: _), Some (_ :: _) => true | _, _ => false end.

Definition spec_step (m : smap) (st : dstep) : smap * dout :=
  match st with
  | SPut k v =>
      if valid_put k v then (s_set m (match k with Some b => b | None => [] end) v, OPut true) else (m, OPut false)
  | SDelete k => (s_set m (match k with Some b => b | None => [] end) None, ODone)
  | SGet k => (m, OGet (m k))
  | SRotate => (m, ODone)
  | SCompact _ _ => (m, ODone)
  | SReopen => (m, ODone)
  end.

Fixpoint spec_run (m : smap) (steps : list dstep) : smap * list dout :=
  match steps with
  | [] => (m, [])
  | st :: r => let '(m', o) := spec_step m st in let '(m'', os) := spec_run m' r in (m'', o :: os)
  end.

(* outputs compared up to what a compaction reports about its selection *)
Definition out_same (a b : dout) : Prop :=
  match a, b with
  | OCompact _, ODone => True
  | x, y => x = y
  end.

(* ---- invariant of reachable states *)
Definition lsorted (t : ltable) : Prop := StronglySorted (fun a b => bcmp (fst a) (fst b) = Lt) t.

(* what a stored value reads as *)
Definition eff (v : option mval) : option bytes :=
  match v with Some (Some (b :: r)) => Some (b :: r) | _ => None end.

(* a memstore never holds an empty value (Put rejects them).  Without this clause the flush and
   reopen theorems below are false: see Remark inv_needs_vals_ok. *)
Definition vals_ok (t : ltable) : Prop := forall k v, lt_get k t = Some (Some v) -> v <> [].

Definition Inv (s : db) : Prop :=
  Forall (fun t => lsorted (snd t)) (d_tables s) /\ lsorted (d_rd s) /\ lsorted (d_wr s)
  /\ (* what the read store says about a key is what the tables alone say *)
     (forall k v, lt_get k (d_rd s) = Some v -> eff (tables_get (d_tables s) k) = eff (Some v))
  /\ vals_ok (d_rd s) /\ vals_ok (d_wr s).

(* ---- sorted association lists *)
Lemma beqb_true a b : beqb a b = true <-> a = b.
Proof.
  unfold beqb. split.
  - destruct (bcmp a b) eqn:E; try discriminate. intros _. apply bcmp_eq. exact E.
  - intros ->. rewrite bcmp_refl. reflexivity.
Qed.

Lemma beqb_refl a : beqb a a = true.
Proof. apply beqb_true. reflexivity. Qed.

Lemma beqb_sym a b : beqb a b = beqb b a.
Proof. unfold beqb. rewrite (bcmp_antisym b a). destruct (bcmp b a); reflexivity. Qed.

Lemma lt_get_set k k' v l : lt_get k (lt_set k' v l) = if beqb k k' then Some v else lt_get k l.
Proof.
  induction l as [|[k2 v2] l IH]; simpl; [reflexivity|].
  destruct (bcmp k' k2) eqn:E; simpl.
  - apply bcmp_eq in E. subst k2. destruct (beqb k k'); reflexivity.
  - reflexivity.
  - rewrite IH. destruct (beqb k k2) eqn:E2; [|reflexivity].
    apply beqb_true in E2. subst k2.
    destruct (beqb k k') eqn:E3; [|reflexivity].
    apply beqb_true in E3. subst k'. rewrite bcmp_refl in E. discriminate.
Qed.

Lemma lt_set_Forall x k v l :
  bcmp x k = Lt -> Forall (fun b => bcmp x (fst b) = Lt) l -> Forall (fun b => bcmp x (fst b) = Lt) (lt_set k v l).
Proof.
  induction l as [|[k2 v2] l IH]; simpl; intros Hk Hl.
  - constructor; auto.
  - inversion Hl as [|? ? H1 H2]; subst. destruct (bcmp k k2); constructor; simpl; auto.
Qed.

Lemma lsorted_nil : lsorted [].
Proof. constructor. Qed.

Lemma lt_set_sorted k v l : lsorted l -> lsorted (lt_set k v l).
Proof.
  unfold lsorted. induction l as [|[k2 v2] l IH]; simpl; intros Hs.
  - constructor; constructor.
  - inversion Hs as [|? ? Hs' Hall]; subst. destruct (bcmp k k2) eqn:E.
    + apply bcmp_eq in E. subst k2. constructor; auto.
    + constructor; auto. constructor; simpl; auto.
      eapply Forall_impl; [|exact Hall]. intros [k3 v3] H. simpl in *. eapply bcmp_trans; eassumption.
    + constructor; auto. apply lt_set_Forall; auto. simpl. rewrite bcmp_antisym, E. reflexivity.
Qed.

Lemma lt_get_above k l : Forall (fun b => bcmp k (fst b) = Lt) l -> lt_get k l = None.
Proof.
  induction l as [|[k2 v2] l IH]; simpl; intros H; [reflexivity|].
  inversion H as [|? ? H1 H2]; subst. simpl in H1. unfold beqb. rewrite H1. apply IH. exact H2.
Qed.

Lemma lt_overlay_sorted newer : forall base, lsorted base -> lsorted (lt_overlay base newer).
Proof.
  unfold lt_overlay. induction newer as [|[k v] newer IH]; intros base Hb; simpl; [exact Hb|].
  apply IH. apply lt_set_sorted. exact Hb.
Qed.

Lemma fold_overlay_sorted ts : forall acc, lsorted acc -> lsorted (fold_left lt_overlay ts acc).
Proof.
  induction ts as [|t ts IH]; intros acc Ha; simpl; [exact Ha|]. apply IH. apply lt_overlay_sorted. exact Ha.
Qed.

Lemma lt_union_sorted ts : lsorted (lt_union ts).
Proof. apply fold_overlay_sorted. apply lsorted_nil. Qed.

Definition orelse {A} (a b : option A) : option A := match a with Some v => Some v | None => b end.

Lemma lt_overlay_get k newer : forall base, lsorted newer ->
  lt_get k (lt_overlay base newer) = orelse (lt_get k newer) (lt_get k base).
Proof.
  unfold lt_overlay. induction newer as [|[k' v'] newer IH]; intros base Hs; simpl; [reflexivity|].
  inversion Hs as [|? ? Hs' Hall]; subst.
  rewrite IH by exact Hs'. rewrite lt_get_set.
  destruct (beqb k k') eqn:E.
  - apply beqb_true in E. subst k'. rewrite (lt_get_above k newer) by exact Hall. reflexivity.
  - reflexivity.
Qed.

(* ---- the table stack *)
Lemma tables_get_rev_app x y k : tables_get_rev (x ++ y) k = orelse (tables_get_rev x k) (tables_get_rev y k).
Proof.
  induction x as [|[g t] x IH]; simpl; [reflexivity|].
  destruct (lt_get k t); [reflexivity|exact IH].
Qed.

Lemma tables_get_app x y k : tables_get (x ++ y) k = orelse (tables_get y k) (tables_get x k).
Proof. unfold tables_get. rewrite rev_app_distr. apply tables_get_rev_app. Qed.

Lemma tables_get_nil k : tables_get [] k = None.
Proof. reflexivity. Qed.

Lemma tables_get_one g t k : tables_get [(g, t)] k = lt_get k t.
Proof. unfold tables_get. simpl. destruct (lt_get k t); reflexivity. Qed.

Lemma tables_get_cons g t ts k : tables_get ((g, t) :: ts) k = orelse (tables_get ts k) (lt_get k t).
Proof. change ((g, t) :: ts) with ([(g, t)] ++ ts). rewrite tables_get_app, tables_get_one. reflexivity. Qed.

Lemma fold_overlay_get k run : forall acc, Forall (fun t => lsorted (snd t)) run ->
  lt_get k (fold_left lt_overlay (map snd run) acc) = orelse (tables_get run k) (lt_get k acc).
Proof.
  induction run as [|[g t] run IH]; intros acc Hs; simpl; [reflexivity|].
  inversion Hs as [|? ? H1 H2]; subst. simpl in H1.
  rewrite IH by exact H2. rewrite lt_overlay_get by exact H1. rewrite tables_get_cons.
  destruct (tables_get run k); reflexivity.
Qed.

Lemma lt_union_get k run : Forall (fun t => lsorted (snd t)) run ->
  lt_get k (lt_union (map snd run)) = tables_get run k.
Proof.
  intros Hs. unfold lt_union. rewrite fold_overlay_get by exact Hs. simpl.
  destruct (tables_get run k); reflexivity.
Qed.

(* ---- tombstone handling of the merged table *)
Lemma lt_get_keep k u :
  lt_get k (keep_tombstones u) = option_map (fun v => match v with None => Some [] | Some x => Some x end) (lt_get k u).
Proof.
  induction u as [|[k' v'] u IH]; simpl; [reflexivity|].
  destruct (beqb k k'); [|exact IH]. destruct v'; reflexivity.
Qed.

Lemma lt_get_drop k u : lsorted u ->
  lt_get k (drop_tombstones u) = match lt_get k u with Some (Some (b :: r)) => Some (Some (b :: r)) | _ => None end.
Proof.
  induction u as [|[k' v'] u IH]; simpl; intros Hs; [reflexivity|].
  inversion Hs as [|? ? Hs' Hall]; subst. simpl in Hall.
  destruct (beqb k k') eqn:E.
  - apply beqb_true in E. subst k'.
    destruct v' as [[|b r]|]; simpl; rewrite ?beqb_refl; try reflexivity;
      rewrite IH by exact Hs'; rewrite (lt_get_above k u) by exact Hall; reflexivity.
  - destruct v' as [[|b r]|]; simpl; rewrite ?E; apply IH; exact Hs'.
Qed.

Lemma Forall_filter {A} (P : A -> Prop) p l : Forall P l -> Forall P (filter p l).
Proof.
  intros H. apply Forall_forall. intros x Hx. apply filter_In in Hx. destruct Hx as [Hx _].
  revert x Hx. apply Forall_forall. exact H.
Qed.

Lemma filter_sorted {A} (R : A -> A -> Prop) p l : StronglySorted R l -> StronglySorted R (filter p l).
Proof.
  induction l as [|x l IH]; simpl; intros Hs; [constructor|].
  inversion Hs as [|? ? Hs' Hall]; subst.
  destruct (p x); auto. constructor; auto. apply Forall_filter. exact Hall.
Qed.

Lemma drop_sorted u : lsorted u -> lsorted (drop_tombstones u).
Proof. apply filter_sorted. Qed.

Lemma keep_sorted u : lsorted u -> lsorted (keep_tombstones u).
Proof.
  unfold lsorted, keep_tombstones. induction u as [|kv u IH]; simpl; intros Hs; [constructor|].
  inversion Hs as [|? ? Hs' Hall]; subst. constructor; auto.
  apply Forall_forall. intros x Hx. apply in_map_iff in Hx. destruct Hx as (y & <- & Hy). simpl.
  revert y Hy. apply Forall_forall. exact Hall.
Qed.

(* ---- a gap-free selection picks a contiguous run of tables *)
Definition all_false (l : list bool) : Prop := Forall (fun b => b = false) l.
Fixpoint seg_tail (l : list bool) : Prop :=
  match l with [] => True | true :: r => seg_tail r | false :: r => all_false r end.
Fixpoint seg (l : list bool) : Prop :=
  match l with [] => True | false :: r => seg r | true :: r => seg_tail r end.
Definition nogap (l : list bool) : Prop :=
  forall i j k, (i <= j <= k)%nat -> nth i l false = true -> nth k l false = true -> nth j l false = true.

Lemma nogap_tail b r : nogap (b :: r) -> nogap r.
Proof. intros H i j k Hijk Hi Hk. apply (H (S i) (S j) (S k)); [lia|exact Hi|exact Hk]. Qed.

Lemma nogap_seg_tail r : nogap (true :: r) -> seg_tail r.
Proof.
  induction r as [|b r IH]; simpl; intros H; [exact I|].
  destruct b.
  - apply IH. eapply nogap_tail. exact H.
  - apply Forall_forall. intros x Hx. destruct x; [|reflexivity].
    apply (In_nth _ _ false) in Hx. destruct Hx as (n & _ & Hn).
    specialize (H 0%nat 1%nat (S (S n))). simpl in H. symmetry. apply H; [lia|reflexivity|exact Hn].
Qed.

Lemma nogap_seg l : nogap l -> seg l.
Proof.
  induction l as [|b l IH]; simpl; intros H; [exact I|].
  destruct b; [apply nogap_seg_tail; exact H|]. apply IH. eapply nogap_tail. exact H.
Qed.

Lemma flood_fill_seg a : seg (flood_fill a).
Proof. apply nogap_seg. destruct (flood_fill_props a) as (_ & _ & H). exact H. Qed.

Notation tbl := (N * ltable)%type (only parsing).

Lemma sel_all_false sel : all_false sel -> forall (ts : list tbl) m placed,
  select_by sel ts = [] /\ replace_run sel ts m placed = ts.
Proof.
  induction sel as [|b sel IH]; intros Hall ts m placed.
  - destruct ts; split; reflexivity.
  - inversion Hall as [|? ? Hb Hall']; subst. destruct ts as [|x ts]; simpl; [split; reflexivity|].
    destruct (IH Hall' ts m placed) as [H1 H2]. rewrite H1, H2. split; reflexivity.
Qed.

Lemma sel_seg_tail sel : seg_tail sel -> forall (ts : list tbl) m,
  exists run post, ts = run ++ post /\ select_by sel ts = run /\ replace_run sel ts m true = post.
Proof.
  induction sel as [|b sel IH]; intros Hseg ts m.
  - exists [], ts. destruct ts; repeat split; reflexivity.
  - destruct b; simpl in Hseg.
    + destruct ts as [|[g t] ts].
      * exists [], []. repeat split; reflexivity.
      * destruct (IH Hseg ts m) as (run & post & Hts & Hrun & Hrep).
        exists ((g, t) :: run), post. simpl. rewrite Hrun, Hrep, Hts at 1. repeat split; reflexivity.
    + exists [], ts. destruct ts as [|x ts]; [repeat split; reflexivity|].
      destruct (sel_all_false sel Hseg ts m true) as [H1 H2]. simpl. rewrite H1, H2. repeat split; reflexivity.
Qed.

Lemma sel_seg sel : seg sel -> forall (ts : list tbl) m,
  exists pre run post, ts = pre ++ run ++ post /\ select_by sel ts = run
    /\ replace_run sel ts m false = match run with [] => ts | (g, _) :: _ => pre ++ (g, m) :: post end
    /\ (forall s, sel = true :: s -> pre = []).
Proof.
  induction sel as [|b sel IH]; intros Hseg ts m.
  - exists [], [], ts. destruct ts; repeat split; reflexivity.
  - destruct b; simpl in Hseg.
    + destruct ts as [|[g t] ts].
      * exists [], [], []. repeat split; reflexivity.
      * destruct (sel_seg_tail sel Hseg ts m) as (run & post & Hts & Hrun & Hrep).
        exists [], ((g, t) :: run), post. simpl. rewrite Hrun, Hrep, Hts at 1. repeat split; reflexivity.
    + destruct ts as [|x ts].
      * exists [], [], []. repeat split; reflexivity.
      * destruct (IH Hseg ts m) as (pre & run & post & Hts & Hrun & Hrep & _).
        exists (x :: pre), run, post. simpl. rewrite Hrun, Hrep, Hts at 1.
        split; [reflexivity|]. split; [reflexivity|]. split.
        -- destruct run as [|[g t] run]; reflexivity.
        -- intros s Hs. discriminate.
Qed.

Lemma replace_run_sorted merged : lsorted merged -> forall sel (ts : list tbl) placed,
  Forall (fun t => lsorted (snd t)) ts -> Forall (fun t => lsorted (snd t)) (replace_run sel ts merged placed).
Proof.
  intros Hm. induction sel as [|b sel IH]; intros ts placed Hts.
  - destruct ts; exact Hts.
  - destruct ts as [|[g t] ts]; [destruct b; exact Hts|].
    inversion Hts as [|? ? H1 H2]; subst.
    destruct b; simpl.
    + destruct placed; [apply IH; exact H2|]. constructor; [exact Hm|apply IH; exact H2].
    + constructor; [exact H1|apply IH; exact H2].
Qed.

(* the merged table of one cycle, as db_compact computes it *)
Definition merged_of (sel : list bool) (ts : list tbl) : ltable :=
  let u := lt_union (map snd (select_by sel ts)) in
  if match sel with true :: _ => true | _ => false end then drop_tombstones u else keep_tombstones u.

Lemma merged_sorted sel ts : lsorted (merged_of sel ts).
Proof.
  unfold merged_of. destruct (match sel with true :: _ => true | _ => false end).
  - apply drop_sorted, lt_union_sorted.
  - apply keep_sorted, lt_union_sorted.
Qed.

Lemma eff_orelse_keep (x y : option mval) :
  eff (orelse (option_map (fun v => match v with None => Some [] | Some z => Some z end) x) y) = eff (orelse x y).
Proof. destruct x as [[z|]|]; reflexivity. Qed.

Lemma eff_drop (x : option mval) :
  eff (match x with Some (Some (b :: r)) => Some (Some (b :: r)) | _ => None end) = eff x.
Proof. destruct x as [[[|b r]|]|]; reflexivity. Qed.

Lemma replace_eff sel (ts : list tbl) k :
  seg sel -> Forall (fun t => lsorted (snd t)) ts ->
  eff (tables_get (replace_run sel ts (merged_of sel ts) false) k) = eff (tables_get ts k).
Proof.
  intros Hseg Hts.
  destruct (sel_seg sel Hseg ts (merged_of sel ts)) as (pre & run & post & Hdec & Hrun & Hrep & Hold).
  rewrite Hrep. destruct run as [|[g t] run]; [reflexivity|].
  assert (Forall (fun t => lsorted (snd t)) ((g, t) :: run)) as Hrs.
  { rewrite Hdec in Hts. apply Forall_app in Hts. destruct Hts as [_ Hts].
    apply Forall_app in Hts. destruct Hts as [Hts _]. exact Hts. }
  unfold merged_of. rewrite Hrun. rewrite Hdec.
  change (pre ++ (g, ?m) :: post) with (pre ++ [(g, m)] ++ post).
  rewrite !tables_get_app, tables_get_one.
  destruct (tables_get post k) as [vp|]; [reflexivity|]. cbn [orelse].
  destruct sel as [|[] s].
  - rewrite lt_get_keep, lt_union_get by exact Hrs. apply eff_orelse_keep.
  - rewrite (Hold s eq_refl). rewrite !tables_get_nil.
    rewrite lt_get_drop by apply lt_union_sorted. rewrite lt_union_get by exact Hrs.
    destruct (tables_get ((g, t) :: run) k) as [[[|b r]|]|]; reflexivity.
  - rewrite lt_get_keep, lt_union_get by exact Hrs. apply eff_orelse_keep.
Qed.

Lemma db_get_eff s k :
  db_get s k =
  match lt_get k (d_wr s) with
  | Some (Some v) => Some v
  | Some None => None
  | None => match lt_get k (d_rd s) with
            | Some (Some v) => Some v
            | Some None => None
            | None => eff (tables_get (d_tables s) k)
            end
  end.
Proof. reflexivity. Qed.

(* one compaction cycle in terms of the helpers *)
Lemma db_compact_cases c sizes s :
  fst (db_compact c sizes s) = s
  \/ exists sel, seg sel /\
       fst (db_compact c sizes s)
       = mkDb (replace_run sel (d_tables s) (merged_of sel (d_tables s)) false) (d_rd s) (d_wr s) (d_gen s).
Proof.
  unfold db_compact.
  set (sel := flood_fill _).
  destruct (N.of_nat (length (select_by sel (d_tables s))) <=? c_threshold c); [left; reflexivity|].
  right. exists sel. split; [apply flood_fill_seg|]. reflexivity.
Qed.

Lemma compact_tables_eff c sizes s k :
  Forall (fun t => lsorted (snd t)) (d_tables s) ->
  eff (tables_get (d_tables (fst (db_compact c sizes s))) k) = eff (tables_get (d_tables s) k).
Proof.
  intros Hts. destruct (db_compact_cases c sizes s) as [->|(sel & Hseg & ->)]; [reflexivity|].
  simpl. apply replace_eff; assumption.
Qed.

Lemma compact_stores c sizes s :
  d_rd (fst (db_compact c sizes s)) = d_rd s /\ d_wr (fst (db_compact c sizes s)) = d_wr s.
Proof.
  destruct (db_compact_cases c sizes s) as [->|(sel & Hseg & ->)]; split; reflexivity.
Qed.

Lemma compact_tables_sorted c sizes s :
  Forall (fun t => lsorted (snd t)) (d_tables s) ->
  Forall (fun t => lsorted (snd t)) (d_tables (fst (db_compact c sizes s))).
Proof.
  intros Hts. destruct (db_compact_cases c sizes s) as [->|(sel & Hseg & ->)]; [exact Hts|].
  simpl. apply replace_run_sorted; [apply merged_sorted|exact Hts].
Qed.

(* C06: one compaction cycle - any thresholds, any sizes, hence any selected run, including runs
   that exclude the oldest table - never changes what any key reads as *)
Theorem compaction_preserves_reads (c : cfg) (sizes : list N) (s : db) (k : bytes) :
  Inv s -> db_get (fst (db_compact c sizes s)) k = db_get s k.
Proof.
  intros (Hts & _). rewrite !db_get_eff.
  destruct (compact_stores c sizes s) as [-> ->]. rewrite compact_tables_eff by exact Hts. reflexivity.
Qed.

(* ---- the invariant *)
Lemma vals_ok_nil : vals_ok [].
Proof. intros k v H. discriminate. Qed.

Lemma vals_ok_set_some k b r t : vals_ok t -> vals_ok (lt_set k (Some (b :: r)) t).
Proof.
  intros Ht k' v H. rewrite lt_get_set in H. destruct (beqb k' k).
  - inversion H; subst. discriminate.
  - eapply Ht. exact H.
Qed.

Lemma vals_ok_set_none k t : vals_ok t -> vals_ok (lt_set k None t).
Proof.
  intros Ht k' v H. rewrite lt_get_set in H. destruct (beqb k' k); [discriminate|]. eapply Ht. exact H.
Qed.

Lemma inv_empty : Inv db_empty.
Proof.
  unfold Inv, db_empty. simpl. repeat split; try apply lsorted_nil; try apply vals_ok_nil.
  - constructor.
  - intros k v H. discriminate.
Qed.

Lemma inv_put s k v : Inv s -> Inv (fst (db_put s k v)).
Proof.
  intros Hinv. unfold db_put. destruct k as [[|kb kr]|]; try exact Hinv.
  destruct v as [[|vb vr]|]; try exact Hinv.
  destruct Hinv as (H1 & H2 & H3 & H4 & H5 & H6). simpl. unfold Inv. simpl.
  repeat split; auto; [apply lt_set_sorted; exact H3|apply vals_ok_set_some; exact H6].
Qed.

Lemma inv_delete s k : Inv s -> Inv (db_delete s k).
Proof.
  intros (H1 & H2 & H3 & H4 & H5 & H6). unfold db_delete, Inv. simpl.
  repeat split; auto; [apply lt_set_sorted; exact H3|apply vals_ok_set_none; exact H6].
Qed.

Lemma inv_rotate s : Inv s -> Inv (db_rotate s).
Proof.
  intros (H1 & H2 & H3 & H4 & H5 & H6). unfold db_rotate.
  destruct (d_wr s) as [|x w] eqn:Hw; unfold Inv; cbn [d_tables d_rd d_wr].
  - repeat split; auto; try apply lsorted_nil; try apply vals_ok_nil. intros k v H. discriminate.
  - repeat split; auto; try apply lsorted_nil; try apply vals_ok_nil.
    + apply Forall_app. split; [exact H1|]. constructor; [exact H3|constructor].
    + intros k v H. rewrite tables_get_app, tables_get_one. rewrite H. reflexivity.
Qed.

Lemma inv_compact c sizes s : Inv s -> Inv (fst (db_compact c sizes s)).
Proof.
  intros (H1 & H2 & H3 & H4 & H5 & H6). unfold Inv.
  destruct (compact_stores c sizes s) as [-> ->].
  repeat split; auto.
  - apply compact_tables_sorted. exact H1.
  - intros k v H. rewrite compact_tables_eff by exact H1. apply H4. exact H.
Qed.

Lemma inv_reopen s : Inv s -> Inv (db_reopen s).
Proof.
  intros Hinv. apply inv_rotate in Hinv. destruct Hinv as (H1 & _). unfold db_reopen, Inv. simpl.
  repeat split; auto; try apply lsorted_nil; try apply vals_ok_nil. intros k v H. discriminate.
Qed.

Lemma inv_step s st : Inv s -> Inv (fst (db_step s st)).
Proof.
  intros Hinv. destruct st as [k v|k|k| |c sizes|]; simpl.
  - pose proof (inv_put s k v Hinv) as H. destruct (db_put s k v) as [s' ok]. exact H.
  - apply inv_delete. exact Hinv.
  - exact Hinv.
  - apply inv_rotate. exact Hinv.
  - pose proof (inv_compact c sizes s Hinv) as H. destruct (db_compact c sizes s) as [s' sel]. exact H.
  - apply inv_reopen. exact Hinv.
Qed.

(* ---- C17 *)
(* under the invariant the read store may be skipped *)
Lemma rd_agrees s k : Inv s ->
  match lt_get k (d_rd s) with
  | Some (Some v) => Some v
  | Some None => None
  | None => eff (tables_get (d_tables s) k)
  end = eff (tables_get (d_tables s) k).
Proof.
  intros (_ & _ & _ & H4 & H5 & _).
  destruct (lt_get k (d_rd s)) as [[v|]|] eqn:E; [| |reflexivity].
  - rewrite (H4 _ _ E). specialize (H5 _ _ E). destruct v; [congruence|reflexivity].
  - rewrite (H4 _ _ E). reflexivity.
Qed.

Lemma db_get_no_wr s k : Inv s -> d_wr s = [] -> db_get s k = eff (tables_get (d_tables s) k).
Proof. intros Hinv Hw. rewrite db_get_eff, Hw. simpl. apply rd_agrees. exact Hinv. Qed.

(* C17: what a key reads as never changes merely because a flush or a restart happened *)
Theorem flush_preserves_reads (s : db) (k : bytes) : Inv s -> db_get (db_rotate s) k = db_get s k.
Proof.
  intros Hinv. rewrite (db_get_eff s). unfold db_rotate.
  destruct (d_wr s) as [|x w] eqn:Hw.
  - rewrite db_get_eff. simpl. symmetry. apply rd_agrees. exact Hinv.
  - rewrite db_get_eff. cbn [d_wr d_rd d_tables]. change (lt_get k []) with (@None mval). cbv iota.
    destruct (lt_get k (x :: w)) as [[v|]|] eqn:E; try reflexivity.
    rewrite tables_get_app, tables_get_one, E. cbn [orelse]. symmetry. apply rd_agrees. exact Hinv.
Qed.

Theorem reopen_preserves_reads (s : db) (k : bytes) : Inv s -> db_get (db_reopen s) k = db_get s k.
Proof.
  intros Hinv. rewrite <- (flush_preserves_reads s k Hinv).
  rewrite (db_get_no_wr (db_rotate s)).
  - reflexivity.
  - apply inv_rotate. exact Hinv.
  - unfold db_rotate. destruct (d_wr s); reflexivity.
Qed.

(* the two memstore clauses of Inv are needed: a state that satisfies the other four clauses but
   holds an empty value in the read store reads differently after a flush / a restart *)
Remark inv_needs_vals_ok :
  let s0 := mkDb [] [([1], Some [])] [] 0 in
  (Forall (fun t => lsorted (snd t)) (d_tables s0) /\ lsorted (d_rd s0) /\ lsorted (d_wr s0)
   /\ (forall k v, lt_get k (d_rd s0) = Some v -> eff (tables_get (d_tables s0) k) = eff (Some v)))
  /\ db_get s0 [1] = Some [] /\ db_get (db_rotate s0) [1] = None /\ db_get (db_reopen s0) [1] = None.
Proof.
  simpl. repeat split; try reflexivity.
  - constructor.
  - constructor; constructor.
  - constructor.
  - intros k v. destruct (beqb k [1]); [|discriminate]. intros H. inversion H; subst. reflexivity.
Qed.

(* C17: a call that returns an error leaves the database exactly as it was *)
Theorem error_has_no_effect (s : db) (k v : option bytes) : snd (db_put s k v) = false -> fst (db_put s k v) = s.
Proof.
  unfold db_put. destruct k as [[|kb kr]|]; try reflexivity.
  destruct v as [[|vb vr]|]; try reflexivity. simpl. discriminate.
Qed.
Theorem put_rejects_exactly (s : db) (k v : option bytes) : snd (db_put s k v) = valid_put k v.
Proof.
  unfold db_put, valid_put. destruct k as [[|kb kr]|]; try reflexivity.
  destruct v as [[|vb vr]|]; reflexivity.
Qed.

(* ---- C01 *)
Definition refines (s : db) (m : smap) : Prop := (forall k, db_get s k = m k) /\ Inv s.

Lemma db_get_wr_set s k' v k :
  db_get (mkDb (d_tables s) (d_rd s) (lt_set k' v (d_wr s)) (d_gen s)) k
  = if beqb k k' then match v with Some x => Some x | None => None end else db_get s k.
Proof.
  rewrite !db_get_eff. cbn [d_wr d_rd d_tables]. rewrite lt_get_set.
  destruct (beqb k k'); [destruct v|]; reflexivity.
Qed.

Lemma step_refines s m st : refines s m ->
  refines (fst (db_step s st)) (fst (spec_step m st)) /\ out_same (snd (db_step s st)) (snd (spec_step m st)).
Proof.
  intros [Hget Hinv]. split; [split|].
  - (* reads *)
    intros k0. destruct st as [k v|k|k| |c sizes|]; simpl.
    + unfold db_put, valid_put. destruct k as [[|kb kr]|]; try apply Hget.
      destruct v as [[|vb vr]|]; try apply Hget.
      simpl. rewrite db_get_wr_set. unfold s_set. destruct (beqb k0 (kb :: kr)); [reflexivity|apply Hget].
    + unfold db_delete. rewrite db_get_wr_set. unfold s_set.
      destruct (beqb k0 _); [reflexivity|apply Hget].
    + apply Hget.
    + rewrite flush_preserves_reads by exact Hinv. apply Hget.
    + pose proof (compaction_preserves_reads c sizes s k0 Hinv) as H.
      destruct (db_compact c sizes s) as [s' sel]. simpl in *. rewrite H. apply Hget.
    + rewrite reopen_preserves_reads by exact Hinv. apply Hget.
  - apply inv_step. exact Hinv.
  - (* outputs *)
    destruct st as [k v|k|k| |c sizes|]; simpl; try reflexivity.
    + pose proof (put_rejects_exactly s k v) as H. destruct (db_put s k v) as [s' ok]. simpl in *. subst ok.
      destruct (valid_put k v); reflexivity.
    + rewrite Hget. reflexivity.
    + destruct (db_compact c sizes s) as [s' sel]. exact I.
Qed.

Lemma run_refines steps : forall s m, refines s m ->
  Forall2 out_same (snd (db_run s steps)) (snd (spec_run m steps))
  /\ refines (fst (db_run s steps)) (fst (spec_run m steps)).
Proof.
  induction steps as [|st steps IH]; intros s m Href; simpl.
  - split; [constructor|exact Href].
  - destruct (step_refines s m st Href) as [Href' Hout].
    destruct (db_step s st) as [s' o]. destruct (spec_step m st) as [m' o']. simpl in *.
    destruct (IH s' m' Href') as [Houts Hfin].
    destruct (db_run s' steps) as [s'' os]. destruct (spec_run m' steps) as [m'' os']. simpl in *.
    split; [constructor; assumption|exact Hfin].
Qed.

Lemma refines_empty : refines db_empty s_empty.
Proof. split; [intros k; reflexivity|apply inv_empty]. Qed.

(* C01: every program, every placement of rotations / compactions (any configuration, any sizes) /
   reopens: every output equals the map specification's, and the final state reads like the map *)
Theorem db_refines_map (steps : list dstep) :
  let '(s, outs) := db_run db_empty steps in
  let '(m, souts) := spec_run s_empty steps in
  Forall2 out_same outs souts /\ (forall k, db_get s k = m k) /\ Inv s.
Proof.
  pose proof (run_refines steps db_empty s_empty refines_empty) as [Houts [Hget Hinv]].
  destruct (db_run db_empty steps) as [s outs]. destruct (spec_run s_empty steps) as [m souts].
  simpl in *. auto.
Qed.

(* C06 corollary: a deleted key stays deleted through any later cycles, flushes and restarts that
   do not put it again *)
Definition touches (k : bytes) (st : dstep) : bool :=
  match st with
  | SPut (Some k') _ => beqb k' k
  | _ => false
  end.

Lemma spec_run_app a : forall m b,
  fst (spec_run m (a ++ b)) = fst (spec_run (fst (spec_run m a)) b).
Proof.
  induction a as [|st a IH]; intros m b; simpl; [reflexivity|].
  destruct (spec_step m st) as [m' o]. specialize (IH m' b).
  destruct (spec_run m' (a ++ b)) as [m1 o1]. destruct (spec_run m' a) as [m2 o2]. simpl in *. exact IH.
Qed.

Lemma spec_untouched k after : forall m,
  forallb (fun st => negb (touches k st)) after = true -> m k = None -> fst (spec_run m after) k = None.
Proof.
  induction after as [|st after IH]; intros m Hall Hm; simpl; [exact Hm|].
  simpl in Hall. apply andb_true_iff in Hall. destruct Hall as [Hst Hall].
  assert (fst (spec_step m st) k = None) as Hm'.
  { destruct st as [k' v|k'|k'| |c sizes|]; simpl; try exact Hm.
    - destruct (valid_put k' v) eqn:Hv; simpl; [|exact Hm].
      unfold s_set. destruct k' as [k'|]; simpl in *.
      + rewrite beqb_sym. destruct (beqb k' k); [discriminate|exact Hm].
      + discriminate.
    - unfold s_set. destruct (beqb k _); [reflexivity|exact Hm]. }
  destruct (spec_step m st) as [m' o]. simpl in Hm'. specialize (IH m' Hall Hm').
  destruct (spec_run m' after) as [m'' os]. exact IH.
Qed.

Corollary deleted_stays_deleted (before after : list dstep) (k : bytes) :
  forallb (fun st => negb (touches k st)) after = true ->
  db_get (fst (db_run db_empty (before ++ SDelete (Some k) :: after))) k = None.
Proof.
  intros Hall.
  destruct (run_refines (before ++ SDelete (Some k) :: after) db_empty s_empty refines_empty) as [_ [Hget _]].
  rewrite Hget. rewrite spec_run_app. simpl.
  set (m0 := fst (spec_run s_empty before)).
  pose proof (spec_untouched k after (s_set m0 k None) Hall) as H.
  destruct (spec_run (s_set m0 k None) after) as [m1 os]. simpl in *. apply H.
  unfold s_set. rewrite beqb_refl. reflexivity.
Qed.

(* non-vacuity and regression of the repaired F-C06a: a run that excludes the oldest table *)
Example compaction_example :
  let steps := [SPut (Some [1]) (Some [10]); SPut (Some [2]) (Some [20]); SRotate;
                SDelete (Some [1]); SPut (Some [3]) (Some [30]); SRotate;
                SPut (Some [3]) (Some [31]); SRotate;
                SCompact (mkCfg 1 500 100) [900; 100; 100]; SGet [1]; SGet [2]; SGet [3]; SReopen; SGet [1]] in
  snd (db_run db_empty steps)
  = [OPut true; OPut true; ODone; ODone; OPut true; ODone; OPut true; ODone;
     OCompact [2; 3]; OGet None; OGet (Some [20]); OGet (Some [31]); ODone; OGet None]
  /\ map fst (d_tables (fst (db_run db_empty steps))) = [1; 2].
Proof. vm_compute. split; reflexivity. Qed.

Print Assumptions flood_fill_contiguous.
Print Assumptions flood_fill_props.
Print Assumptions inv_step.
Print Assumptions compaction_preserves_reads.
Print Assumptions flush_preserves_reads.
Print Assumptions reopen_preserves_reads.
Print Assumptions error_has_no_effect.
Print Assumptions put_rejects_exactly.
Print Assumptions db_refines_map.
Print Assumptions deleted_stays_deleted.
Print Assumptions compaction_example.
