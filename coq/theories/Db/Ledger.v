(* Resource ledger of SimpleDB and of a table reader: which descriptors, memory mappings and
   goroutines are held, as a function of the operations performed.  Every step of the logical
   machine (Db/Logical.v) is annotated with the acquire/release events the code performs, in the
   order of the code:
     Open      recovery opens one reader (= one mapping of its data file) per table directory,
               then the WAL appender (one descriptor), then starts the flusher (and, if compactions
               are enabled, the compactor) goroutine                      simpledb/db.go Open
     Put/Delete/Get   nothing is acquired that outlives the call
     rotation  the WAL file is closed and the next one opened; a non-empty store is written by a
               table writer (index and data file, both closed by Close) and a reader is opened on
               the new table and added to the manager                     simpledb/flush.go
     compaction  the writer's two files; per input table an own reader (mapping) and a scanner on
               it (descriptor, owned by that reader); writer closed, then the own readers; then
               reflectCompactionResult closes the manager's reader of every input and opens one on
               the merged table                                            simpledb/compaction.go, sstable_manager.go
     Close     a last rotation, the goroutines end, the WAL is closed, all manager readers closed.
   The correspondence compares the ledger's counts with /proc/self/fd, /proc/self/maps and the
   goroutine count of the implementation after EVERY step of generated programs. *)
From GoSST Require Import Base.Bytes Db.Logical.
Local Open Scope N_scope.

Inductive res :=
| RMap (g : N)         (* mapping: the manager's reader of table g *)
| RWal                 (* descriptor of the current WAL file *)
| RGor (n : N)         (* goroutine: 1 flusher, 2 compactor *)
| RTmpMap (g : N)      (* mapping: the compaction's own reader of input g *)
| RTmpScan (g : N)     (* descriptor: the scanner the compaction opened on its reader of g *)
| RTmpFile (n : N).    (* descriptor: a table writer's index (0) / data (1) file *)

Definition res_eqb (a b : res) : bool :=
  match a, b with
  | RMap x, RMap y | RGor x, RGor y | RTmpMap x, RTmpMap y | RTmpScan x, RTmpScan y | RTmpFile x, RTmpFile y => x =? y
  | RWal, RWal => true
  | _, _ => false
  end.

Inductive lev := Acq (r : res) | Rel (r : res).
Definition ledger := list res.

Fixpoint remove1 (r : res) (l : ledger) : option ledger :=
  match l with
  | [] => None
  | x :: t => if res_eqb r x then Some t else match remove1 r t with Some t' => Some (x :: t') | None => None end
  end.

(* None: something was released that is not held (a double close) *)
Definition apply_ev (l : option ledger) (e : lev) : option ledger :=
  match l with
  | None => None
  | Some l => match e with Acq r => Some (r :: l) | Rel r => remove1 r l end
  end.
Definition apply_evs (l : option ledger) (es : list lev) : option ledger := fold_left apply_ev es l.

(* every ledger passed through while the events are applied *)
Fixpoint trace_evs (l : option ledger) (es : list lev) : list (option ledger) :=
  match es with
  | [] => []
  | e :: r => let l' := apply_ev l e in l' :: trace_evs l' r
  end.

Definition gens (s : db) : list N := map fst (d_tables s).

Definition writer_events : list lev :=
  [Acq (RTmpFile 0); Acq (RTmpFile 1); Rel (RTmpFile 0); Rel (RTmpFile 1)].

Definition flush_events (s : db) : list lev :=
  match d_wr s with
  | [] => []
  | _ => writer_events ++ [Acq (RMap (d_gen s + 1))]
  end.

Definition rotate_events (s : db) : list lev := [Rel RWal; Acq RWal] ++ flush_events s.

Definition compact_events (c : cfg) (sizes : list N) (s : db) : list lev :=
  match snd (db_compact c sizes s) with
  | [] => []
  | g0 :: rest =>
      let sel := g0 :: rest in
      [Acq (RTmpFile 0); Acq (RTmpFile 1)]
      ++ flat_map (fun g => [Acq (RTmpMap g); Acq (RTmpScan g)]) sel
      ++ [Rel (RTmpFile 0); Rel (RTmpFile 1)]
      ++ flat_map (fun g => [Rel (RTmpScan g); Rel (RTmpMap g)]) sel
      ++ map (fun g => Rel (RMap g)) sel
      ++ [Acq (RMap g0)]
  end.

Definition goroutines (compactor : bool) : list res := RGor 1 :: (if compactor then [RGor 2] else []).

(* Close: the state after the last rotation is [db_rotate s] *)
Definition close_events (compactor : bool) (s : db) : list lev :=
  rotate_events s
  ++ map Rel (goroutines compactor)
  ++ [Rel RWal]
  ++ map (fun g => Rel (RMap g)) (gens (db_rotate s)).

(* Open of a cleanly closed directory holding the tables of s *)
Definition open_events (compactor : bool) (s : db) : list lev :=
  map (fun g => Acq (RMap g)) (gens s) ++ [Acq RWal] ++ map Acq (goroutines compactor).

Definition step_events (compactor : bool) (s : db) (st : dstep) : list lev :=
  match st with
  | SPut _ _ | SDelete _ | SGet _ => []
  | SRotate => rotate_events s
  | SCompact c sizes => compact_events c sizes s
  | SReopen => close_events compactor s ++ open_events compactor (db_reopen s)
  end.

(* run a program on an open database: the state and the ledger after every step *)
Fixpoint lrun (compactor : bool) (s : db) (l : option ledger) (steps : list dstep) : list (db * option ledger) :=
  match steps with
  | [] => []
  | st :: r =>
      let s' := fst (db_step s st) in
      let l' := apply_evs l (step_events compactor s st) in
      (s', l') :: lrun compactor s' l' r
  end.

Definition final (compactor : bool) (steps : list dstep) : db * option ledger :=
  last (lrun compactor db_empty (apply_evs (Some []) (open_events compactor db_empty)) steps)
       (db_empty, apply_evs (Some []) (open_events compactor db_empty)).

(* the whole session: Open, the program, Close *)
Definition session_end (compactor : bool) (steps : list dstep) : option ledger :=
  let '(s, l) := final compactor steps in apply_evs l (close_events compactor s).

(* counts as the harness measures them *)
Definition is_map (r : res) : bool := match r with RMap _ | RTmpMap _ => true | _ => false end.
Definition is_fd (r : res) : bool := match r with RWal | RTmpScan _ | RTmpFile _ => true | _ => false end.
Definition is_gor (r : res) : bool := match r with RGor _ => true | _ => false end.
Definition count (p : res -> bool) (l : ledger) : N := N.of_nat (length (filter p l)).

(* ---- a table reader and what is created from it (sstables/sstable_reader.go), and RecordIO handles *)
Inductive rres := TMap | TScan (n : N) | HMap (n : N) | HFd (n : N).
Inductive rop :=
| ScanFull | ScanAbandoned     (* Scan(): a sequential reader on the data file, owned by the table reader *)
| ScanRange                    (* ScanRange: served from the mapping, nothing opened *)
| OpenMmap | OpenSeq | OpenWriter.   (* independent RecordIO handles, closed by their own Close *)

Definition rstate := (N * list rres)%type.    (* next number, held *)
Definition r_open : rstate := (0, [TMap]).
Definition r_step (s : rstate) (o : rop) : rstate :=
  let '(n, held) := s in
  match o with
  | ScanFull | ScanAbandoned => (n + 1, TScan n :: held)
  | ScanRange => (n, held)
  | OpenMmap => (n + 1, HMap n :: held)
  | OpenSeq | OpenWriter => (n + 1, HFd n :: held)
  end.
(* closing every independent handle, then the table reader *)
Definition r_owned_by_reader (r : rres) : bool := match r with TMap | TScan _ => true | _ => false end.
Definition r_close_handles (s : rstate) : rstate := (fst s, filter r_owned_by_reader (snd s)).
Definition r_close_reader (s : rstate) : rstate := (fst s, filter (fun r => negb (r_owned_by_reader r)) (snd s)).
Definition r_maps (s : rstate) : N := N.of_nat (length (filter (fun r => match r with TMap | HMap _ => true | _ => false end) (snd s))).
Definition r_fds (s : rstate) : N := N.of_nat (length (filter (fun r => match r with TScan _ | HFd _ => true | _ => false end) (snd s))).
