(* Proofs about the concurrent SimpleDB machine (Db/Conc.v). *)
From Coq Require Import Lia String.
From GoSST Require Import Base.Bytes Db.Logical Db.LogicalFacts Db.Conc.
From GoSSTGen Require Import FactsCode.
Local Open Scope N_scope.

(* the lock discipline the action granularity of Conc.v relies on, as read off the Go syntax trees
   of /repo on this run (gen/FactsCode.v) *)
Lemma lock_facts :
  put_takes_write_lock = true /\ delete_takes_write_lock = true /\ get_takes_read_lock = true /\
  get_tables_before_memstore = Some true /\ reflect_takes_db_lock_first = Some true /\
  (* the memstore pair is read by Get and written by Put/Delete and recovery only; it is swapped only by a
     rotation, which only Put and Close (both under the write lock) and recovery (under Open's lock) start:
     in particular the flusher and the compactor never touch it *)
  memstore_users = "DeleteBytes,GetBytes,PutBytes,replayAndSetupWriteAheadLog,swapMemstore"%string /\
  memstore_swappers = "replayAndSetupWriteAheadLog,rotateWalAndFlushMemstore"%string /\
  memstore_rotators = "Close,PutBytes"%string.
Proof. repeat split; reflexivity. Qed.

(* what the database reads as *)
Definition abs (s : cstate) : kv := fun k => db_get (c_db s) k.


(* ================= helpers ================= *)

(* ---- phases *)
Lemma ph_get_set t' t p l : ph_get t' (ph_set t p l) = if t' =? t then p else ph_get t' l.
Proof.
  induction l as [|[t0 p0] l IH]; simpl.
  - reflexivity.
  - destruct (t =? t0) eqn:E; simpl.
    + apply N.eqb_eq in E. subst t0. destruct (t' =? t); reflexivity.
    + rewrite IH. destruct (t' =? t0) eqn:E2; [|reflexivity].
      apply N.eqb_eq in E2. subst t0. destruct (t' =? t) eqn:E3; [|reflexivity].
      apply N.eqb_eq in E3. subst t'. rewrite N.eqb_refl in E. discriminate.
Qed.

Lemma reader_inside_get t k tv l : ph_get t l = GotTables k tv -> reader_inside l = true.
Proof.
  induction l as [|[t0 p0] l IH]; intros H; simpl in H; [discriminate|].
  change (reader_inside ((t0, p0) :: l))
    with ((match p0 with GotTables _ _ => true | _ => false end) || reader_inside l).
  destruct (t =? t0).
  - subst p0. reflexivity.
  - rewrite (IH H). apply orb_true_r.
Qed.

Definition pstat_of (p : phase) : option pstat :=
  match p with
  | Idle => None
  | Invoked o => Some (Pend o)
  | GotTables k _ => Some (Pend (CGet k))
  | Finished o r => Some (Lined o r)
  end.

Definition related (s : cstate) (m : kv) (P : pmap) : Prop :=
  (forall k, m k = abs s k) /\ (forall t, P t = pstat_of (ph_get t (c_phase s))).

(* ---- the sequential object *)
Lemma kv_step_ext m m' o : (forall k, m k = m' k) ->
  snd (kv_step m o) = snd (kv_step m' o) /\ forall k, fst (kv_step m o) k = fst (kv_step m' o) k.
Proof.
  intros H. destruct o as [k|k v|k]; simpl.
  - rewrite H. split; [reflexivity|exact H].
  - destruct (put_ok k v); simpl; (split; [reflexivity|]); [|exact H].
    intros k0. unfold kv_set. destruct (beqb k0 (okey k)); [reflexivity|apply H].
  - split; [reflexivity|]. intros k0. unfold kv_set. destruct (beqb k0 (okey k)); [reflexivity|apply H].
Qed.

Lemma put_ok_db_put d k v : snd (db_put d k v) = put_ok k v.
Proof. exact (put_rejects_exactly d k v). Qed.

Lemma abs_put d k v k0 : db_get (fst (db_put d k v)) k0 = fst (kv_step (db_get d) (CPut k v)) k0.
Proof.
  unfold db_put, kv_step, put_ok. destruct k as [[|kb kr]|]; try reflexivity.
  destruct v as [[|vb vr]|]; try reflexivity.
  simpl. rewrite db_get_wr_set. reflexivity.
Qed.

Lemma abs_delete d k k0 : db_get (db_delete d k) k0 = fst (kv_step (db_get d) (CDel k)) k0.
Proof. unfold db_delete. rewrite db_get_wr_set. reflexivity. Qed.

Lemma memget_eff d k tv :
  memget d k tv =
  match lt_get k (d_wr d) with
  | Some (Some v) => Some v
  | Some None => None
  | None => match lt_get k (d_rd d) with
            | Some (Some v) => Some v
            | Some None => None
            | None => eff tv
            end
  end.
Proof. reflexivity. Qed.

(* ---- tables appended behind a selection *)
Definition tsorted (ts : list (N * ltable)) : Prop := Forall (fun t => lsorted (snd t)) ts.

Lemma replace_run_app sel : forall (pre extra : list (N * ltable)) m placed,
  (length sel <= length pre)%nat ->
  replace_run sel (pre ++ extra) m placed = replace_run sel pre m placed ++ extra.
Proof.
  induction sel as [|b sel IH]; intros pre extra m placed Hlen.
  - destruct pre; reflexivity.
  - destruct pre as [|[g t] pre]; simpl in Hlen; [lia|].
    simpl. destruct b; [destruct placed|]; rewrite IH by lia; reflexivity.
Qed.

Lemma reflect_eff sel pre extra k :
  seg sel -> tsorted pre -> (length sel <= length pre)%nat ->
  eff (tables_get (replace_run sel (pre ++ extra) (merged_of sel pre) false) k) = eff (tables_get (pre ++ extra) k).
Proof.
  intros Hseg Hts Hlen. rewrite replace_run_app by exact Hlen. rewrite !tables_get_app.
  destruct (tables_get extra k); simpl; [reflexivity|]. apply replace_eff; assumption.
Qed.

(* ---- the invariant of the concurrent machine *)
Record CInv (s : cstate) : Prop := mkCInv {
  ci_ts : tsorted (d_tables (c_db s));
  ci_rd : lsorted (d_rd (c_db s));
  ci_wr : lsorted (d_wr (c_db s));
  ci_vrd : vals_ok (d_rd (c_db s));
  ci_vwr : vals_ok (d_wr (c_db s));
  (* flusher idle: the read store says what the tables say; busy: it is flushing the read store *)
  ci_fl : match c_flushing s with
          | None => forall k v, lt_get k (d_rd (c_db s)) = Some v ->
                      eff (tables_get (d_tables (c_db s)) k) = eff (Some v)
          | Some w => w = d_rd (c_db s)
          end;
  (* a pending merge was computed from a prefix of the table stack *)
  ci_mg : forall sel merged, c_merged s = Some (sel, merged) ->
          exists pre extra, d_tables (c_db s) = pre ++ extra /\ (length sel <= length pre)%nat
                            /\ seg sel /\ merged = merged_of sel pre;
  (* a reader between its two steps will read the current value *)
  ci_rdr : forall t k tv, ph_get t (c_phase s) = GotTables k tv ->
           memget (c_db s) k tv = db_get (c_db s) k
}.

Lemma cinv_init : CInv c_init.
Proof.
  split; simpl; try apply lsorted_nil; try apply vals_ok_nil.
  - constructor.
  - intros k v H. discriminate.
  - intros sel merged H. discriminate.
  - intros t k tv H. discriminate.
Qed.

Lemma cinv_inv s : CInv s -> c_flushing s = None -> Inv (c_db s).
Proof.
  intros [Hts Hrd Hwr Hvrd Hvwr Hfl _ _] Hnone. rewrite Hnone in Hfl.
  unfold Inv. repeat split; assumption.
Qed.

Lemma cinv_with_phase s t p : CInv s ->
  (forall k tv, p = GotTables k tv -> memget (c_db s) k tv = db_get (c_db s) k) ->
  CInv (with_phase s t p).
Proof.
  intros [Hts Hrd Hwr Hvrd Hvwr Hfl Hmg Hrdr] Hp. split; simpl; try assumption.
  intros t' k tv H. rewrite ph_get_set in H. destruct (t' =? t).
  - apply Hp. exact H.
  - eapply Hrdr. exact H.
Qed.

Lemma no_reader_after_set l t p t' k tv :
  reader_inside l = false -> (forall k0 tv0, p <> GotTables k0 tv0) ->
  ph_get t' (ph_set t p l) <> GotTables k tv.
Proof.
  intros Hno Hp H. rewrite ph_get_set in H. destruct (t' =? t).
  - eapply Hp. exact H.
  - apply reader_inside_get in H. congruence.
Qed.

Lemma cinv_body s d t p : CInv s -> reader_inside (c_phase s) = false ->
  d_tables d = d_tables (c_db s) -> d_rd d = d_rd (c_db s) -> lsorted (d_wr d) -> vals_ok (d_wr d) ->
  (forall k0 tv0, p <> GotTables k0 tv0) ->
  CInv (with_phase (with_db s d) t p).
Proof.
  intros [Hts Hrd Hwr Hvrd Hvwr Hfl Hmg Hrdr] Hno Et Er Hs Hv Hp.
  split; simpl; rewrite ?Et, ?Er; try assumption.
  intros t' k tv H. exfalso. eapply no_reader_after_set; eassumption.
Qed.

Lemma select_merge_cases c sizes s s' : cstep s (ASelectMerge c sizes) = Some s' ->
  s' = s \/ exists sel, seg sel /\ (length sel <= length (d_tables (c_db s)))%nat /\
              s' = mkC (c_db s) (c_flushing s) (Some (sel, merged_of sel (d_tables (c_db s)))) (c_phase s).
Proof.
  simpl. destruct (c_merged s) as [x|]; [discriminate|].
  set (sel := flood_fill _).
  assert (seg sel) as Hseg by apply flood_fill_seg.
  assert (length sel <= length (d_tables (c_db s)))%nat as Hlen.
  { unfold sel. destruct (flood_fill_props (map (fun p => preselect c (fst p) (snd (snd p))) (combine sizes (d_tables (c_db s))))) as [Hl _].
    rewrite Hl, map_length, combine_length. lia. }
  clearbody sel.
  destruct (N.of_nat (length (select_by sel (d_tables (c_db s)))) <=? c_threshold c); intros H; inversion H; [left; reflexivity|].
  right. exists sel. split; [exact Hseg|]. split; [exact Hlen|].
  unfold merged_of. destruct sel as [|[|] sel]; reflexivity.
Qed.

Lemma step_inv s a s' : CInv s -> cstep s a = Some s' -> CInv s'.
Proof.
  intros Hinv Hstep. destruct a as [t o|t|t|t|t| | |c sizes| ].
  - (* AInv *) simpl in Hstep. destruct (ph_get t (c_phase s)); try discriminate.
    inversion Hstep; subst s'. apply cinv_with_phase; [exact Hinv|]. intros k tv H. discriminate.
  - (* ABody *) simpl in Hstep. destruct (reader_inside (c_phase s)) eqn:Hno; [discriminate|].
    destruct (ph_get t (c_phase s)) as [|[k|k v|k]|k tv|o r]; try discriminate.
    + destruct (db_put (c_db s) k v) as [d ok] eqn:Hput. inversion Hstep; subst s'.
      pose proof (cinv_inv s) as _.
      assert (d = fst (db_put (c_db s) k v)) as -> by (rewrite Hput; reflexivity).
      clear Hput Hstep. unfold db_put.
      destruct k as [[|kb kr]|]; try (apply cinv_body; try reflexivity; try apply Hinv; try exact Hno; intros ? ? ?; discriminate).
      destruct v as [[|vb vr]|]; try (apply cinv_body; try reflexivity; try apply Hinv; try exact Hno; intros ? ? ?; discriminate).
      apply cinv_body; try reflexivity; try exact Hinv; try exact Hno; simpl.
      * apply lt_set_sorted, Hinv.
      * apply vals_ok_set_some, Hinv.
      * intros ? ? ?; discriminate.
    + inversion Hstep; subst s'. apply cinv_body; try reflexivity; try exact Hinv; try exact Hno; simpl.
      * apply lt_set_sorted, Hinv.
      * apply vals_ok_set_none, Hinv.
      * intros ? ? ?; discriminate.
  - (* AGetTables *) simpl in Hstep. destruct (ph_get t (c_phase s)) as [|[k|k v|k]|k tv|o r]; try discriminate.
    inversion Hstep; subst s'. apply cinv_with_phase; [exact Hinv|]. intros k' tv H. inversion H; subst. reflexivity.
  - (* AGetMem *) simpl in Hstep. destruct (ph_get t (c_phase s)); try discriminate.
    inversion Hstep; subst s'. apply cinv_with_phase; [exact Hinv|]. intros k' tv' H. discriminate.
  - (* ARes *) simpl in Hstep. destruct (ph_get t (c_phase s)); try discriminate.
    inversion Hstep; subst s'. apply cinv_with_phase; [exact Hinv|]. intros k' tv' H. discriminate.
  - (* ARotate *) simpl in Hstep. destruct (reader_inside (c_phase s)) eqn:Hno; [discriminate|].
    destruct (c_flushing s); [discriminate|]. inversion Hstep; subst s'.
    destruct Hinv as [Hts Hrd Hwr Hvrd Hvwr Hfl Hmg Hrdr]. split; simpl; try assumption.
    + apply lsorted_nil.
    + apply vals_ok_nil.
    + reflexivity.
    + intros t k tv H. apply reader_inside_get in H. congruence.
  - (* AInstall *) simpl in Hstep. destruct (c_flushing s) as [w|] eqn:Hw; [|discriminate].
    inversion Hstep; subst s'. clear Hstep.
    destruct Hinv as [Hts Hrd Hwr Hvrd Hvwr Hfl Hmg Hrdr]. rewrite Hw in Hfl. subst w.
    destruct (d_rd (c_db s)) as [|x w] eqn:Erd.
    + split; simpl; rewrite ?Erd; try assumption. intros k v H. discriminate.
    + rewrite <- Erd in Hrd, Hvrd |- *. split; simpl; try assumption.
      * apply Forall_app. split; [exact Hts|]. constructor; [exact Hrd|constructor].
      * intros k v H. rewrite tables_get_app, tables_get_one, H. reflexivity.
      * intros sel merged H. destruct (Hmg sel merged H) as (pre & extra & Hd & Hlen & Hseg & Hm).
        exists pre, (extra ++ [(d_gen (c_db s) + 1, d_rd (c_db s))]). rewrite Hd, app_assoc. auto.
      * intros t k tv H. specialize (Hrdr t k tv H). rewrite memget_eff, db_get_eff in *.
        cbn [d_wr d_rd d_tables].
        destruct (lt_get k (d_wr (c_db s))) as [[v|]|]; try reflexivity.
        destruct (lt_get k (d_rd (c_db s))) as [[v|]|] eqn:E; try reflexivity.
        rewrite tables_get_app, tables_get_one, E. exact Hrdr.
  - (* ASelectMerge *) apply select_merge_cases in Hstep.
    destruct Hstep as [->|(sel & Hseg & Hlen & ->)]; [exact Hinv|].
    destruct Hinv as [Hts Hrd Hwr Hvrd Hvwr Hfl Hmg Hrdr]. split; simpl; try assumption.
    intros sel' merged' H. inversion H; subst. exists (d_tables (c_db s)), []. rewrite app_nil_r. auto.
  - (* AReflect *) simpl in Hstep. destruct (reader_inside (c_phase s)) eqn:Hno; [discriminate|].
    destruct (c_merged s) as [[sel merged]|] eqn:Hm; [|discriminate]. inversion Hstep; subst s'. clear Hstep.
    destruct Hinv as [Hts Hrd Hwr Hvrd Hvwr Hfl Hmg Hrdr].
    destruct (Hmg sel merged Hm) as (pre & extra & Hd & Hlen & Hseg & ->).
    assert (tsorted pre) as Hpre.
    { unfold tsorted in Hts. rewrite Hd in Hts. apply Forall_app in Hts. apply Hts. }
    split; simpl; try assumption.
    + apply replace_run_sorted; [apply merged_sorted|exact Hts].
    + destruct (c_flushing s); [exact Hfl|]. intros k v H. rewrite Hd, reflect_eff by assumption.
      rewrite <- Hd. apply Hfl. exact H.
    + intros sel' merged' H. discriminate.
    + intros t k tv H. apply reader_inside_get in H. congruence.
Qed.

(* ---- what a step does to the abstract state *)
Definition point_of (a : action) : option N :=
  match a with ABody t | AGetMem t => Some t | _ => None end.

Lemma step_point s a s' t : CInv s -> cstep s a = Some s' -> point_of a = Some t ->
  exists o r, pstat_of (ph_get t (c_phase s)) = Some (Pend o)
    /\ c_phase s' = ph_set t (Finished o r) (c_phase s)
    /\ snd (kv_step (abs s) o) = r
    /\ forall k, abs s' k = fst (kv_step (abs s) o) k.
Proof.
  intros Hinv Hstep Hpt. destruct a as [t0 o|t0|t0|t0|t0| | |c sizes| ]; try discriminate;
    simpl in Hpt; inversion Hpt; subst t0; clear Hpt; simpl in Hstep.
  - destruct (reader_inside (c_phase s)); [discriminate|].
    destruct (ph_get t (c_phase s)) as [|[k|k v|k]|k tv|o r] eqn:Hph; try discriminate.
    + destruct (db_put (c_db s) k v) as [d ok] eqn:Hput. inversion Hstep; subst s'.
      pose proof (put_ok_db_put (c_db s) k v) as Hok. rewrite Hput in Hok. simpl in Hok. subst ok.
      exists (CPut k v), (RPut (put_ok k v)). split; [reflexivity|]. split; [reflexivity|]. split.
      * unfold kv_step. destruct (put_ok k v); reflexivity.
      * intros k0. pose proof (abs_put (c_db s) k v k0) as H. rewrite Hput in H. exact H.
    + inversion Hstep; subst s'. exists (CDel k), RDel.
      split; [reflexivity|]. split; [reflexivity|]. split; [reflexivity|].
      intros k0. apply abs_delete.
  - destruct (ph_get t (c_phase s)) as [|o|k tv|o r] eqn:Hph; try discriminate.
    inversion Hstep; subst s'. exists (CGet k), (RGet (memget (c_db s) k tv)).
    split; [reflexivity|]. split; [reflexivity|]. split.
    + simpl. unfold abs. rewrite (ci_rdr s Hinv t k tv Hph). reflexivity.
    + intros k0. reflexivity.
Qed.

Lemma step_internal s a s' : CInv s -> cstep s a = Some s' -> point_of a = None ->
  forall k, abs s' k = abs s k.
Proof.
  intros Hinv Hstep Hpt k. destruct a as [t o|t|t|t|t| | |c sizes| ]; try discriminate.
  - simpl in Hstep. destruct (ph_get t (c_phase s)); try discriminate. inversion Hstep; reflexivity.
  - simpl in Hstep. destruct (ph_get t (c_phase s)) as [|[k0|k0 v|k0]|k0 tv|o r]; try discriminate.
    inversion Hstep; reflexivity.
  - simpl in Hstep. destruct (ph_get t (c_phase s)); try discriminate. inversion Hstep; reflexivity.
  - (* ARotate *) simpl in Hstep. destruct (reader_inside (c_phase s)); [discriminate|].
    destruct (c_flushing s) eqn:Hfl; [discriminate|]. inversion Hstep; subst s'.
    unfold abs. rewrite !db_get_eff. cbn [c_db d_wr d_rd d_tables]. change (lt_get k []) with (@None mval). cbv iota.
    destruct (lt_get k (d_wr (c_db s))) as [[v|]|]; try reflexivity.
    symmetry. apply rd_agrees. apply cinv_inv; assumption.
  - (* AInstall *) simpl in Hstep. destruct (c_flushing s) as [w|] eqn:Hw; [|discriminate].
    inversion Hstep; subst s'. clear Hstep.
    pose proof (ci_fl s Hinv) as Hfl. rewrite Hw in Hfl. subst w.
    unfold abs. cbn [c_db]. destruct (d_rd (c_db s)) as [|x w] eqn:Erd; [reflexivity|].
    rewrite !db_get_eff. cbn [d_wr d_rd d_tables]. rewrite Erd.
    destruct (lt_get k (d_wr (c_db s))) as [[v|]|]; try reflexivity.
    destruct (lt_get k (x :: w)) as [[v|]|] eqn:E; try reflexivity.
    rewrite tables_get_app, tables_get_one, E. reflexivity.
  - (* ASelectMerge *) apply select_merge_cases in Hstep.
    destruct Hstep as [->|(sel & Hseg & Hlen & ->)]; reflexivity.
  - (* AReflect *) simpl in Hstep. destruct (reader_inside (c_phase s)); [discriminate|].
    destruct (c_merged s) as [[sel merged]|] eqn:Hm; [|discriminate]. inversion Hstep; subst s'. clear Hstep.
    destruct (ci_mg s Hinv sel merged Hm) as (pre & extra & Hd & Hlen & Hseg & ->).
    pose proof (ci_ts s Hinv) as Hts.
    assert (tsorted pre) as Hpre.
    { unfold tsorted in Hts. rewrite Hd in Hts. apply Forall_app in Hts. apply Hts. }
    unfold abs. rewrite !db_get_eff. cbn [c_db d_wr d_rd d_tables].
    rewrite Hd, reflect_eff by assumption. reflexivity.
Qed.

Definition silent (a : action) : bool :=
  match a with ARotate | AInstall | ASelectMerge _ _ | AReflect => true | _ => false end.

Lemma silent_phase s a s' : cstep s a = Some s' -> silent a = true -> c_phase s' = c_phase s.
Proof.
  intros Hstep Hs. destruct a as [t o|t|t|t|t| | |c sizes| ]; try discriminate.
  - simpl in Hstep. destruct (reader_inside (c_phase s)); [discriminate|].
    destruct (c_flushing s); [discriminate|]. inversion Hstep; reflexivity.
  - simpl in Hstep. destruct (c_flushing s); [|discriminate]. inversion Hstep; reflexivity.
  - apply select_merge_cases in Hstep. destruct Hstep as [->|(sel & _ & _ & ->)]; reflexivity.
  - simpl in Hstep. destruct (reader_inside (c_phase s)); [discriminate|].
    destruct (c_merged s) as [[sel merged]|]; [|discriminate]. inversion Hstep; reflexivity.
Qed.

(* ---- the forward simulation *)
Lemma lin_sim acts : forall s m P, CInv s -> related s m P -> Lin m P (history s acts).
Proof.
  induction acts as [|a acts IH]; intros s m P Hinv [Hm HP]; simpl; [constructor|].
  destruct (cstep s a) as [s'|] eqn:Hstep; [|constructor].
  pose proof (step_inv _ _ _ Hinv Hstep) as Hinv'.
  destruct (point_of a) as [t|] eqn:Hpt.
  - destruct (step_point _ _ _ _ Hinv Hstep Hpt) as (o & r & Hpend & Hph & Hr & Habs).
    destruct (kv_step_ext m (abs s) o Hm) as [E1 E2].
    assert (Lin m P (history s' acts)) as HL.
    { apply LinPoint with (m' := abs s') (P' := pm_upd P t (Some (Lined o r))) (t := t) (o := o) (r := r).
      - rewrite HP. exact Hpend.
      - rewrite E1. exact Hr.
      - intros k. rewrite Habs. symmetry. apply E2.
      - reflexivity.
      - apply IH; [exact Hinv'|]. split; [reflexivity|].
        intros t'. unfold pm_upd. rewrite Hph, ph_get_set. destruct (t' =? t); [reflexivity|apply HP]. }
    destruct a; try discriminate; exact HL.
  - pose proof (step_internal _ _ _ Hinv Hstep Hpt) as Habs.
    destruct a as [t o|t|t|t|t| | |c sizes| ]; try discriminate.
    + (* AInv *) simpl in Hstep. destruct (ph_get t (c_phase s)) eqn:Hph; try discriminate.
      inversion Hstep; subst s'. simpl.
      apply LinInv with (P' := pm_upd P t (Some (Pend o))).
      * rewrite HP, Hph. reflexivity.
      * reflexivity.
      * apply IH; [exact Hinv'|]. split; [exact Hm|].
        intros t'. simpl. rewrite ph_get_set. unfold pm_upd. destruct (t' =? t); [reflexivity|apply HP].
    + (* AGetTables *) simpl in Hstep.
      destruct (ph_get t (c_phase s)) as [|[k0|k0 v|k0]|k0 tv|o r] eqn:Hph; try discriminate.
      inversion Hstep; subst s'. simpl. apply IH; [exact Hinv'|]. split; [exact Hm|].
      intros t'. simpl. rewrite ph_get_set. destruct (t' =? t) eqn:E; [|apply HP].
      apply N.eqb_eq in E. subst t'. rewrite HP, Hph. reflexivity.
    + (* ARes *) simpl in Hstep. destruct (ph_get t (c_phase s)) as [|o|k0 tv|o r] eqn:Hph; try discriminate.
      inversion Hstep; subst s'. simpl.
      apply LinRes with (P' := pm_upd P t None).
      * rewrite HP, Hph. reflexivity.
      * reflexivity.
      * apply IH; [exact Hinv'|]. split; [exact Hm|].
        intros t'. simpl. rewrite ph_get_set. unfold pm_upd. destruct (t' =? t); [reflexivity|apply HP].
    + simpl. apply IH; [exact Hinv'|]. split.
      * intros k. rewrite Habs. apply Hm.
      * intros t'. rewrite (silent_phase _ _ _ Hstep eq_refl). apply HP.
    + simpl. apply IH; [exact Hinv'|]. split.
      * intros k. rewrite Habs. apply Hm.
      * intros t'. rewrite (silent_phase _ _ _ Hstep eq_refl). apply HP.
    + simpl. apply IH; [exact Hinv'|]. split.
      * intros k. rewrite Habs. apply Hm.
      * intros t'. rewrite (silent_phase _ _ _ Hstep eq_refl). apply HP.
    + simpl. apply IH; [exact Hinv'|]. split.
      * intros k. rewrite Habs. apply Hm.
      * intros t'. rewrite (silent_phase _ _ _ Hstep eq_refl). apply HP.
Qed.

(* every schedule the machine can run produces a linearizable history *)
Theorem histories_linearizable (acts : list action) (s : cstate) :
  crun c_init acts = Some s -> linearizable (history c_init acts).
Proof.
  intros _. apply lin_sim; [apply cinv_init|]. split; intros x; reflexivity.
Qed.

(* the linearization points chosen are the write-locked body of Put/Delete and the memstore read of
   Get: replaying the operations in that order on the map gives exactly the results returned *)
Fixpoint legal (m : kv) (l : list (N * cop * cres)) : Prop :=
  match l with
  | [] => True
  | (_, o, r) :: rest => snd (kv_step m o) = r /\ legal (fst (kv_step m o)) rest
  end.
Lemma lin_points_cons s a acts s' : cstep s a = Some s' ->
  lin_points s (a :: acts) =
  match point_of a with
  | Some t => match ph_get t (c_phase s') with Finished o r => [(t, o, r)] | _ => [] end
  | None => []
  end ++ lin_points s' acts.
Proof. intros H. simpl. rewrite H. destruct a; reflexivity. Qed.

Lemma legal_ext l : forall m m', (forall k, m k = m' k) -> legal m l -> legal m' l.
Proof.
  induction l as [|[[t o] r] l IH]; intros m m' H; simpl; [auto|].
  intros [H1 H2]. destruct (kv_step_ext m m' o H) as [E1 E2].
  split; [rewrite <- E1; exact H1|]. eapply IH; [exact E2|exact H2].
Qed.

Lemma legal_sim acts : forall s m, CInv s -> (forall k, m k = abs s k) -> legal m (lin_points s acts).
Proof.
  induction acts as [|a acts IH]; intros s m Hinv Hm; [exact I|].
  destruct (cstep s a) as [s'|] eqn:Hstep; [|simpl; rewrite Hstep; exact I].
  rewrite (lin_points_cons _ _ _ _ Hstep).
  pose proof (step_inv _ _ _ Hinv Hstep) as Hinv'.
  destruct (point_of a) as [t|] eqn:Hpt.
  - destruct (step_point _ _ _ _ Hinv Hstep Hpt) as (o & r & Hpend & Hph & Hr & Habs).
    destruct (kv_step_ext m (abs s) o Hm) as [E1 E2].
    rewrite Hph, ph_get_set, N.eqb_refl. simpl. split; [rewrite E1; exact Hr|].
    apply IH; [exact Hinv'|]. intros k. rewrite Habs. apply E2.
  - simpl. apply IH; [exact Hinv'|]. intros k.
    rewrite (step_internal _ _ _ Hinv Hstep Hpt). apply Hm.
Qed.

Theorem lin_points_legal (acts : list action) (s : cstate) :
  crun c_init acts = Some s -> legal kv_empty (lin_points c_init acts).
Proof.
  intros _. apply legal_sim; [apply cinv_init|]. intros k. reflexivity.
Qed.

(* and what is read at the end is what the map holds after those operations *)
Definition replay (l : list (N * cop * cres)) (m : kv) : kv :=
  fold_left (fun m e => fst (kv_step m (snd (fst e)))) l m.

Lemma replay_ext l : forall m m', (forall k, m k = m' k) -> forall k, replay l m k = replay l m' k.
Proof.
  induction l as [|[[t o] r] l IH]; intros m m' H k; simpl; [apply H|].
  apply IH. apply kv_step_ext. exact H.
Qed.

Lemma final_sim acts : forall s m s', CInv s -> (forall k, m k = abs s k) -> crun s acts = Some s' ->
  forall k, abs s' k = replay (lin_points s acts) m k.
Proof.
  induction acts as [|a acts IH]; intros s m s' Hinv Hm Hrun k.
  - simpl in Hrun. inversion Hrun; subst s'. simpl. symmetry. apply Hm.
  - simpl in Hrun. destruct (cstep s a) as [s1|] eqn:Hstep; [|discriminate].
    rewrite (lin_points_cons _ _ _ _ Hstep).
    pose proof (step_inv _ _ _ Hinv Hstep) as Hinv'.
    unfold replay. rewrite fold_left_app. fold (replay (lin_points s1 acts)).
    destruct (point_of a) as [t|] eqn:Hpt.
    + destruct (step_point _ _ _ _ Hinv Hstep Hpt) as (o & r & Hpend & Hph & Hr & Habs).
      destruct (kv_step_ext m (abs s) o Hm) as [E1 E2].
      rewrite Hph, ph_get_set, N.eqb_refl. simpl.
      apply IH; [exact Hinv'| |exact Hrun]. intros k0. rewrite Habs. apply E2.
    + simpl. apply IH; [exact Hinv'| |exact Hrun]. intros k0.
      rewrite (step_internal _ _ _ Hinv Hstep Hpt). apply Hm.
Qed.

Theorem final_state_is_map (acts : list action) (s : cstate) :
  crun c_init acts = Some s ->
  forall k, db_get (c_db s) k = fold_left (fun m e => fst (kv_step m (snd (fst e)))) (lin_points c_init acts) kv_empty k.
Proof.
  intros Hrun k. apply (final_sim acts c_init kv_empty s); [apply cinv_init| |exact Hrun].
  intros k0. reflexivity.
Qed.

(* non-vacuity: a schedule in which a Get overlaps a rotation's install and a compaction runs *)
Example schedule_runs :
  exists s, crun c_init
    [AInv 1 (CPut (Some [1]) (Some [7])); ABody 1; ARes 1; ARotate;
     AInv 2 (CGet [1]); AGetTables 2; AInstall; AGetMem 2; ARes 2;
     AInv 1 (CDel (Some [1])); ABody 1; ARotate; AInstall;
     ASelectMerge (mkCfg 0 100 1000) [10; 10]; AInv 2 (CGet [1]); AGetTables 2; AGetMem 2; AReflect; ARes 2] = Some s
    /\ history c_init
    [AInv 1 (CPut (Some [1]) (Some [7])); ABody 1; ARes 1; ARotate;
     AInv 2 (CGet [1]); AGetTables 2; AInstall; AGetMem 2; ARes 2] =
    [HInv 1 (CPut (Some [1]) (Some [7])); HRes 1 (CPut (Some [1]) (Some [7])) (RPut true);
     HInv 2 (CGet [1]); HRes 2 (CGet [1]) (RGet (Some [7]))].
Proof. eexists. split; vm_compute; reflexivity. Qed.

Print Assumptions histories_linearizable.
Print Assumptions lin_points_legal.
Print Assumptions final_state_is_map.
Print Assumptions schedule_runs.
