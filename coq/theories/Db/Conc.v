(* SimpleDB as a concurrent system: client threads, the flusher and the compactor as atomic actions
   over the logical machine (Db/Logical.v).  The granularity follows the lock discipline of the
   code (regenerated as gen/FactsCode.v and checked by ConcFacts.lock_facts):
     - PutBytes / DeleteBytes hold the database write lock for their whole body: one action each;
       a memstore rotation happens inside such a body (or is forced) and needs the flusher to be
       idle (unbuffered channel): one action;
     - GetBytes holds the read lock and reads the table stack first, the memstores second: two
       actions, between which no write-locked action can happen, but the flusher may install its
       table (addReader takes the manager lock only);
     - the flusher installs the flushed table; the compactor merges a snapshot of a run outside
       the locks and reflects the result under the database write lock.
   A schedule is a list of actions; [cstep] is a partial function (None = action not enabled). *)
From GoSST Require Import Base.Bytes Db.Logical.
Local Open Scope N_scope.

Inductive cop := CGet (k : bytes) | CPut (k v : option bytes) | CDel (k : option bytes).
Inductive cres := RGet (v : option bytes) | RPut (ok : bool) | RDel.

Inductive phase :=
| Idle
| Invoked (o : cop)
| GotTables (k : bytes) (tv : option mval)       (* inside GetBytes, after the table lookup, read lock held *)
| Finished (o : cop) (r : cres).

Record cstate := mkC {
  c_db : db;
  c_flushing : option ltable;                      (* memstore handed to the flusher, not yet installed *)
  c_merged : option (list bool * ltable);          (* compactor: selection and merged table, not yet reflected *)
  c_phase : list (N * phase)                       (* per client thread; absent = Idle *)
}.

Definition c_init : cstate := mkC db_empty None None [].

Fixpoint ph_get (t : N) (l : list (N * phase)) : phase :=
  match l with
  | [] => Idle
  | (t', p) :: r => if t =? t' then p else ph_get t r
  end.
Fixpoint ph_set (t : N) (p : phase) (l : list (N * phase)) : list (N * phase) :=
  match l with
  | [] => [(t, p)]
  | (t', p') :: r => if t =? t' then (t, p) :: r else (t', p') :: ph_set t p r
  end.

(* somebody holds the read lock in the middle of a Get *)
Definition reader_inside (l : list (N * phase)) : bool :=
  existsb (fun tp => match snd tp with GotTables _ _ => true | _ => false end) l.

Inductive action :=
| AInv (t : N) (o : cop)
| ABody (t : N)                    (* Put / Delete: the whole critical section *)
| AGetTables (t : N)
| AGetMem (t : N)
| ARes (t : N)
| ARotate                          (* swap the memstores and hand the old write store to the flusher *)
| AInstall                         (* flusher: the flushed table joins the table stack *)
| ASelectMerge (c : cfg) (sizes : list N)   (* compactor: choose a run and merge it (outside the locks) *)
| AReflect.                        (* compactor: replace the run by the merged table (write lock) *)

Definition with_db (s : cstate) (d : db) : cstate := mkC d (c_flushing s) (c_merged s) (c_phase s).
Definition with_phase (s : cstate) (t : N) (p : phase) : cstate :=
  mkC (c_db s) (c_flushing s) (c_merged s) (ph_set t p (c_phase s)).

Definition memget (d : db) (k : bytes) (from_tables : option mval) : option bytes :=
  match lt_get k (d_wr d) with
  | Some (Some v) => Some v
  | Some None => None
  | None =>
      match lt_get k (d_rd d) with
      | Some (Some v) => Some v
      | Some None => None
      | None => match from_tables with Some (Some (b :: r)) => Some (b :: r) | _ => None end
      end
  end.

Definition cstep (s : cstate) (a : action) : option cstate :=
  match a with
  | AInv t o =>
      match ph_get t (c_phase s) with Idle => Some (with_phase s t (Invoked o)) | _ => None end
  | ABody t =>
      if reader_inside (c_phase s) then None else
      match ph_get t (c_phase s) with
      | Invoked (CPut k v) =>
          let '(d, ok) := db_put (c_db s) k v in Some (with_phase (with_db s d) t (Finished (CPut k v) (RPut ok)))
      | Invoked (CDel k) =>
          Some (with_phase (with_db s (db_delete (c_db s) k)) t (Finished (CDel k) RDel))
      | _ => None
      end
  | AGetTables t =>
      match ph_get t (c_phase s) with
      | Invoked (CGet k) => Some (with_phase s t (GotTables k (tables_get (d_tables (c_db s)) k)))
      | _ => None
      end
  | AGetMem t =>
      match ph_get t (c_phase s) with
      | GotTables k tv => Some (with_phase s t (Finished (CGet k) (RGet (memget (c_db s) k tv))))
      | _ => None
      end
  | ARes t =>
      match ph_get t (c_phase s) with Finished _ _ => Some (with_phase s t Idle) | _ => None end
  | ARotate =>
      if reader_inside (c_phase s) then None else
      match c_flushing s with
      | Some _ => None                                   (* the flusher is busy: the channel send blocks *)
      | None =>
          let d := c_db s in
          Some (mkC (mkDb (d_tables d) (d_wr d) [] (d_gen d)) (Some (d_wr d)) (c_merged s) (c_phase s))
      end
  | AInstall =>
      match c_flushing s with
      | None => None
      | Some w =>
          let d := c_db s in
          let d' := match w with
                    | [] => d
                    | _ => mkDb (d_tables d ++ [(d_gen d + 1, w)]) (d_rd d) (d_wr d) (d_gen d + 1)
                    end in
          Some (mkC d' None (c_merged s) (c_phase s))
      end
  | ASelectMerge c sizes =>
      match c_merged s with
      | Some _ => None
      | None =>
          let d := c_db s in
          let pre := map (fun p => preselect c (fst p) (snd (snd p))) (combine sizes (d_tables d)) in
          let sel := flood_fill pre in
          let chosen := select_by sel (d_tables d) in
          if N.of_nat (length chosen) <=? c_threshold c then Some s
          else
            let u := lt_union (map snd chosen) in
            let merged := match sel with true :: _ => drop_tombstones u | _ => keep_tombstones u end in
            Some (mkC d (c_flushing s) (Some (sel, merged)) (c_phase s))
      end
  | AReflect =>
      if reader_inside (c_phase s) then None else
      match c_merged s with
      | None => None
      | Some (sel, merged) =>
          let d := c_db s in
          (* tables installed since the selection are at the end and are not part of the selection *)
          Some (mkC (mkDb (replace_run sel (d_tables d) merged false) (d_rd d) (d_wr d) (d_gen d)) (c_flushing s) None (c_phase s))
      end
  end.

Fixpoint crun (s : cstate) (acts : list action) : option cstate :=
  match acts with
  | [] => Some s
  | a :: r => match cstep s a with Some s' => crun s' r | None => None end
  end.

(* ---- histories *)
Inductive hevent := HInv (t : N) (o : cop) | HRes (t : N) (o : cop) (r : cres).

(* the history of a schedule: invocations and responses in schedule order *)
Fixpoint history (s : cstate) (acts : list action) : list hevent :=
  match acts with
  | [] => []
  | a :: rest =>
      match cstep s a with
      | None => []
      | Some s' =>
          let ev :=
            match a with
            | AInv t o => [HInv t o]
            | ARes t => match ph_get t (c_phase s) with Finished o r => [HRes t o r] | _ => [] end
            | _ => []
            end in
          ev ++ history s' rest
      end
  end.

(* the sequence of operations at their linearization points: Put/Delete at the body, Get at the
   memstore read *)
Fixpoint lin_points (s : cstate) (acts : list action) : list (N * cop * cres) :=
  match acts with
  | [] => []
  | a :: rest =>
      match cstep s a with
      | None => []
      | Some s' =>
          let ev :=
            match a with
            | ABody t | AGetMem t =>
                match ph_get t (c_phase s') with Finished o r => [(t, o, r)] | _ => [] end
            | _ => []
            end in
          ev ++ lin_points s' rest
      end
  end.

(* ---- linearizability, stated with the canonical atomic object: a history is linearizable iff
   it is a trace of the automaton in which every operation is invoked, takes effect atomically on
   the sequential object at some instant chosen by the automaton, and then responds.
   The sequential object is the map specification: [kv_step]. *)
Definition kv := bytes -> option bytes.
Definition kv_empty : kv := fun _ => None.
Definition put_ok (k v : option bytes) : bool :=
  match k, v with Some (_ :: _), Some (_ :: _) => true | _, _ => false end.
Definition okey (k : option bytes) : bytes := match k with Some b => b | None => [] end.
Definition kv_set (m : kv) (k : bytes) (v : option bytes) : kv := fun k' => if beqb k' k then v else m k'.
Definition kv_step (m : kv) (o : cop) : kv * cres :=
  match o with
  | CGet k => (m, RGet (m k))
  | CPut k v => if put_ok k v then (kv_set m (okey k) v, RPut true) else (m, RPut false)
  | CDel k => (kv_set m (okey k) None, RDel)
  end.

Inductive pstat := Pend (o : cop) | Lined (o : cop) (r : cres).
Definition pmap := N -> option pstat.
Definition pm_empty : pmap := fun _ => None.
Definition pm_upd (P : pmap) (t : N) (x : option pstat) : pmap := fun t' => if t' =? t then x else P t'.

(* [Lin m P h]: from object state m, with the operations in P in flight, the rest h of the history
   can be produced.  States are compared pointwise (no functional extensionality needed). *)
Inductive Lin : kv -> pmap -> list hevent -> Prop :=
| LinNil m P : Lin m P []
| LinInv m P P' t o h :
    P t = None -> (forall t', P' t' = pm_upd P t (Some (Pend o)) t') ->
    Lin m P' h -> Lin m P (HInv t o :: h)
| LinPoint m m' P P' t o r h :                         (* the operation takes effect: a silent step *)
    P t = Some (Pend o) ->
    snd (kv_step m o) = r -> (forall k, m' k = fst (kv_step m o) k) ->
    (forall t', P' t' = pm_upd P t (Some (Lined o r)) t') ->
    Lin m' P' h -> Lin m P h
| LinRes m P P' t o r h :
    P t = Some (Lined o r) -> (forall t', P' t' = pm_upd P t None t') ->
    Lin m P' h -> Lin m P (HRes t o r :: h).

Definition linearizable (h : list hevent) : Prop := Lin kv_empty pm_empty h.
