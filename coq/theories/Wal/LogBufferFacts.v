(* The log file behind its write buffer: whatever program of Write / Flush calls hands the bytes of a log file to the
   buffered writer, and whatever the buffer size, the file a kill leaves at ANY boundary between two calls to the
   underlying writer is a byte prefix of that log file - and replays, behind the intact older files, to the records
   completely contained in it (with the synchronous log: every acknowledged record, since its Flush came first; with
   the asynchronous log: a prefix of the appended records). *)
From GoSST Require Import Base.Bytes RecordIO.Format RecordIO.BufWriter RecordIO.BufWriterFacts Wal.Wal Wal.WalFacts Wal.LogProgram.
From Coq Require Import Lia.
Local Open Scope N_scope.

Theorem log_boundary_replay (c : codec) :
  (forall x, decomp c (comp c x) = Ok x) -> ctype c <= 3 ->
  forall (cap : nat) (ops : list bop) (closed : list (list bytes)) (last : list bytes) (k : nat),
  append_only ops = true ->
  Forall (Forall (rec_ok c)) closed -> Forall (rec_ok c) last ->
  handed ops = wal_file c last ->
  let file := written_by (firstn k (concat (fst (bw_run cap [] ops)))) in
  (exists rest, wal_file c last = file ++ rest)
  /\ replay_files c (map (wal_file c) closed ++ [file]) = (concat closed ++ contained c last (lenN file), None).
Proof.
  intros Hc Ht cap ops closed last k _ HF Hl Hh. cbv zeta.
  destruct (bw_file_is_prefix cap ops k) as [rest Hp]. cbv zeta in Hp.
  set (file := written_by (firstn k (concat (fst (bw_run cap [] ops))))) in *.
  rewrite Hh in Hp. split; [exists rest; exact Hp|].
  assert (Hf : file = firstn (N.to_nat (lenN file)) (wal_file c last)).
  { rewrite Hp. unfold lenN. rewrite Nat2N.id, firstn_app, firstn_all, PeanoNat.Nat.sub_diag.
    cbn [firstn]. rewrite app_nil_r. reflexivity. }
  rewrite Hf at 1. apply wal_crash_prefix; try assumption.
  rewrite Hp. unfold lenN. rewrite app_length. lia.
Qed.
Print Assumptions log_boundary_replay.

(* ---- the program the file writer really runs (recordio/file_writer.go): Open hands over the file header and flushes;
   an append hands over the record header and then the stored payload as two Write calls; a synchronous append flushes
   afterwards (and then fsyncs, which changes nothing that a kill could see) *)
Lemma handed_app a b : handed (a ++ b) = handed a ++ handed b.
Proof.
  induction a as [|o a IH]; [reflexivity|]. destruct o; cbn [app handed]; rewrite IH, ?app_assoc; reflexivity.
Qed.

Lemma append_only_app a b : append_only (a ++ b) = append_only a && append_only b.
Proof. unfold append_only. apply forallb_app. Qed.

Lemma rec_ops_handed c sync r : handed (rec_ops c sync r) = enc_rec c (Some r).
Proof.
  unfold rec_ops, enc_rec. cbv zeta. rewrite handed_app.
  destruct (compressed c); destruct sync; cbn [handed app]; rewrite ?app_nil_r; reflexivity.
Qed.

Lemma log_ops_handed c rs : handed (log_ops c rs) = wal_file c (map snd rs).
Proof.
  unfold log_ops, wal_file. cbn [app handed]. f_equal.
  induction rs as [|[sync r] rs IH]; [reflexivity|].
  cbn [recs_ops map flat_map snd]. rewrite handed_app, rec_ops_handed, IH. reflexivity.
Qed.

Lemma log_ops_append_only c rs : append_only (log_ops c rs) = true.
Proof.
  unfold log_ops. rewrite append_only_app. cbn [append_only forallb andb].
  induction rs as [|[sync r] rs IH]; [reflexivity|].
  cbn [recs_ops]. rewrite append_only_app, IH, Bool.andb_true_r.
  unfold rec_ops. cbv zeta. rewrite append_only_app. destruct sync; reflexivity.
Qed.

(* the log as written by the real program, killed at ANY boundary, with ANY buffer size and ANY mix of synchronous
   and asynchronous appends *)
Theorem log_program_boundary_replay (c : codec) :
  (forall x, decomp c (comp c x) = Ok x) -> ctype c <= 3 ->
  forall (cap : nat) (closed : list (list bytes)) (rs : list (bool * bytes)) (k : nat),
  Forall (Forall (rec_ok c)) closed -> Forall (rec_ok c) (map snd rs) ->
  let file := written_by (firstn k (concat (fst (bw_run cap [] (log_ops c rs))))) in
  replay_files c (map (wal_file c) closed ++ [file])
  = (concat closed ++ contained c (map snd rs) (lenN file), None).
Proof.
  intros Hc Ht cap closed rs k HF Hl. cbv zeta.
  apply (log_boundary_replay c Hc Ht cap (log_ops c rs) closed (map snd rs) k
           (log_ops_append_only c rs) HF Hl (log_ops_handed c rs)).
Qed.
Print Assumptions log_program_boundary_replay.

(* a synchronous append leaves nothing of the log in the buffer: when it returns, the file holds every record appended
   so far, whole (the fsync that follows makes it durable; C07 checks on the trace that it precedes the return) *)
Lemma recs_ops_app c a b : recs_ops c (a ++ b) = recs_ops c a ++ recs_ops c b.
Proof. induction a as [|[s r] a IH]; [reflexivity|]. cbn [app recs_ops]. rewrite IH, app_assoc. reflexivity. Qed.

Theorem sync_append_reaches_the_file (c : codec) (cap : nat) (rs : list (bool * bytes)) (r : bytes) :
  written_by (concat (fst (bw_run cap [] (log_ops c (rs ++ [(true, r)])))))
  = wal_file c (map snd (rs ++ [(true, r)])).
Proof.
  rewrite <- log_ops_handed.
  set (z := if compressed c then comp c r else r).
  set (pre := [BWrite (file_hdr (ctype c)); BFlush] ++ recs_ops c rs
              ++ [BWrite (hdr (lenN r) (if compressed c then lenN z else 0) false); BWrite z]).
  assert (E : log_ops c (rs ++ [(true, r)]) = pre ++ [BFlush]).
  { unfold log_ops, pre. rewrite recs_ops_app. cbn [recs_ops]. unfold rec_ops. cbv zeta. fold z.
    rewrite app_nil_r, <- !app_assoc. reflexivity. }
  rewrite E. rewrite (bw_flushed_all cap pre BFlush (or_introl eq_refl)).
  rewrite handed_app. cbn [handed]. rewrite app_nil_r. reflexivity.
Qed.
Print Assumptions sync_append_reaches_the_file.
