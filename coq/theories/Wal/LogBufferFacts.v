(* The log file behind its write buffer: whatever program of Write / Flush calls hands the bytes of a log file to the
   buffered writer, and whatever the buffer size, the file a kill leaves at ANY boundary between two calls to the
   underlying writer is a byte prefix of that log file - and replays, behind the intact older files, to the records
   completely contained in it (with the synchronous log: every acknowledged record, since its Flush came first; with
   the asynchronous log: a prefix of the appended records). *)
From GoSST Require Import Base.Bytes RecordIO.Format RecordIO.Writer RecordIO.WriteReadFacts RecordIO.BufWriter RecordIO.BufWriterFacts Wal.Wal Wal.WalFacts Wal.LogProgram.
From Coq Require Import Lia.
Local Open Scope N_scope.

Theorem log_boundary_replay (c : codec) :
  (forall x, decomp c (comp c x) = Ok x) -> ctype c <= 3 ->
  forall (cap : nat) (ops : list bop) (closed : list (list bytes)) (last : list bytes) (k : nat),
  append_only ops = true ->
  Forall (Forall (rec_ok c)) closed -> Forall (rec_ok c) last ->
  handed ops = wal_file c last ->
  let file := written_by (firstn k (concat (fst (bw_run cap [] ops)))) in
  (exists rest, wal_file c last = file ++ rest)
  /\ replay_files c (map (wal_file c) closed ++ [file]) = (concat closed ++ contained c last (lenN file), None).
Proof.
  intros Hc Ht cap ops closed last k _ HF Hl Hh. cbv zeta.
  destruct (bw_file_is_prefix cap ops k) as [rest Hp]. cbv zeta in Hp.
  set (file := written_by (firstn k (concat (fst (bw_run cap [] ops))))) in *.
  rewrite Hh in Hp. split; [exists rest; exact Hp|].
  assert (Hf : file = firstn (N.to_nat (lenN file)) (wal_file c last)).
  { rewrite Hp. unfold lenN. rewrite Nat2N.id, firstn_app, firstn_all, PeanoNat.Nat.sub_diag.
    cbn [firstn]. rewrite app_nil_r. reflexivity. }
  rewrite Hf at 1. apply wal_crash_prefix; try assumption.
  rewrite Hp. unfold lenN. rewrite app_length. lia.
Qed.
Print Assumptions log_boundary_replay.

(* ---- the program the file writer really runs (recordio/file_writer.go): Open hands over the file header and flushes;
   an append hands over the record header and then the stored payload as two Write calls; a synchronous append flushes
   afterwards (and then fsyncs, which changes nothing that a kill could see) *)
Lemma handed_app a b : handed (a ++ b) = handed a ++ handed b.
Proof.
  induction a as [|o a IH]; [reflexivity|]. destruct o; cbn [app handed]; rewrite IH, ?app_assoc; reflexivity.
Qed.

Lemma append_only_app a b : append_only (a ++ b) = append_only a && append_only b.
Proof. unfold append_only. apply forallb_app. Qed.

Lemma rec_ops_handed c sync r : handed (rec_ops c sync r) = enc_rec c (Some r).
Proof.
  unfold rec_ops, enc_rec. cbv zeta. rewrite handed_app.
  destruct (compressed c); destruct sync; cbn [handed app]; rewrite ?app_nil_r; reflexivity.
Qed.

Lemma log_ops_handed c rs : handed (log_ops c rs) = wal_file c (map snd rs).
Proof.
  unfold log_ops, wal_file. cbn [app handed]. f_equal.
  induction rs as [|[sync r] rs IH]; [reflexivity|].
  cbn [recs_ops map flat_map snd]. rewrite handed_app, rec_ops_handed, IH. reflexivity.
Qed.

Lemma log_ops_append_only c rs : append_only (log_ops c rs) = true.
Proof.
  unfold log_ops. rewrite append_only_app. cbn [append_only forallb andb].
  induction rs as [|[sync r] rs IH]; [reflexivity|].
  cbn [recs_ops]. rewrite append_only_app, IH, Bool.andb_true_r.
  unfold rec_ops. cbv zeta. rewrite append_only_app. destruct sync; reflexivity.
Qed.

(* the log as written by the real program, killed at ANY boundary, with ANY buffer size and ANY mix of synchronous
   and asynchronous appends *)
Theorem log_program_boundary_replay (c : codec) :
  (forall x, decomp c (comp c x) = Ok x) -> ctype c <= 3 ->
  forall (cap : nat) (closed : list (list bytes)) (rs : list (bool * bytes)) (k : nat),
  Forall (Forall (rec_ok c)) closed -> Forall (rec_ok c) (map snd rs) ->
  let file := written_by (firstn k (concat (fst (bw_run cap [] (log_ops c rs))))) in
  replay_files c (map (wal_file c) closed ++ [file])
  = (concat closed ++ contained c (map snd rs) (lenN file), None).
Proof.
  intros Hc Ht cap closed rs k HF Hl. cbv zeta.
  apply (log_boundary_replay c Hc Ht cap (log_ops c rs) closed (map snd rs) k
           (log_ops_append_only c rs) HF Hl (log_ops_handed c rs)).
Qed.
Print Assumptions log_program_boundary_replay.

(* a synchronous append leaves nothing of the log in the buffer: when it returns, the file holds every record appended
   so far, whole (the fsync that follows makes it durable; C07 checks on the trace that it precedes the return) *)
Lemma recs_ops_app c a b : recs_ops c (a ++ b) = recs_ops c a ++ recs_ops c b.
Proof. induction a as [|[s r] a IH]; [reflexivity|]. cbn [app recs_ops]. rewrite IH, app_assoc. reflexivity. Qed.

Theorem sync_append_reaches_the_file (c : codec) (cap : nat) (rs : list (bool * bytes)) (r : bytes) :
  written_by (concat (fst (bw_run cap [] (log_ops c (rs ++ [(true, r)])))))
  = wal_file c (map snd (rs ++ [(true, r)])).
Proof.
  rewrite <- log_ops_handed.
  set (z := if compressed c then comp c r else r).
  set (pre := [BWrite (file_hdr (ctype c)); BFlush] ++ recs_ops c rs
              ++ [BWrite (hdr (lenN r) (if compressed c then lenN z else 0) false); BWrite z]).
  assert (E : log_ops c (rs ++ [(true, r)]) = pre ++ [BFlush]).
  { unfold log_ops, pre. rewrite recs_ops_app. cbn [recs_ops]. unfold rec_ops. cbv zeta. fold z.
    rewrite app_nil_r, <- !app_assoc. reflexivity. }
  rewrite E. rewrite (bw_flushed_all cap pre BFlush (or_introl eq_refl)).
  rewrite handed_app. cbn [handed]. rewrite app_nil_r. reflexivity.
Qed.
Print Assumptions sync_append_reaches_the_file.

(* ---- the files of a whole session: [log_groups] (the appends of every log file with their flags, which the
   correspondence feeds to the write-buffer model file by file) are exactly the files of the appender model *)
Section Groups.
  Variable c : codec.
  Hypothesis codec_ok : forall x, decomp c (comp c x) = Ok x.
  Hypothesis ctype_ok : ctype c <= 3.

  Lemma fold_failed max : forall ops a, J a -> a_failed a = true -> a_failed (fold_left (app_step c max) ops a) = true.
  Proof.
    induction ops as [|o ops IH]; intros a Hj Hf; [exact Hf|].
    cbn [fold_left]. apply IH; [apply J_step; exact Hj|apply failed_step; assumption].
  Qed.

  Lemma log_groups_agree max : forall ops syncs a gs cur cs done,
    ainv c a gs cur -> J a -> map snd cs = cur -> map (map snd) done = gs ->
    Forall (wop_ok c) ops -> a_failed (fold_left (app_step c max) ops a) = false ->
    map (fun g => wal_file c (map snd g)) (log_groups c max ops syncs (w_size (a_cur a)) cs done)
    = map snd (app_files (fold_left (app_step c max) ops a)).
  Proof.
    induction ops as [|o ops IH]; intros syncs a gs cur cs done Hinv Hj Hcs Hdone Hok Hnf.
    - cbn [log_groups fold_left]. destruct Hinv as (Hs & Hf & Hn & Hi).
      destruct (inv_close c ctype_ok _ _ Hi) as [Hc _].
      unfold app_files. rewrite !map_app. cbn [map snd]. rewrite Hs, Hc, <- Hdone, <- Hcs, map_map.
      rewrite <- wal_file_encs. reflexivity.
    - inversion Hok as [|o' l' Ho Hok']; subst o' l'.
      cbn [fold_left] in *.
      assert (Hstep : a_failed (app_step c max a o) = false).
      { destruct (a_failed (app_step c max a o)) eqn:E; [|reflexivity].
        rewrite (fold_failed max ops _ (J_step c max a o Hj) E) in Hnf. discriminate Hnf. }
      destruct o as [r|]; cbn [log_groups app_step] in *.
      + unfold app_append in *. cbv zeta in *.
        destruct (max <? w_size (a_cur a) + lenN r) eqn:Ecmp.
        * (* rotation first *)
          destruct (a_failed (app_rotate c a)) eqn:Er; [cbv beta iota in Hstep; rewrite Er in Hstep; discriminate Hstep|].
          pose proof (ainv_rotate c ctype_ok a gs cur Hinv Er) as Hr.
          pose proof (ainv_write c ctype_ok _ _ _ r Hr Ho) as Hw. cbn [app] in Hw.
          set (a2 := mkApp (a_closed (app_rotate c a)) (a_num (app_rotate c a))
                           (fst (w_write c (Some r) (a_cur (app_rotate c a)))) false) in *.
          specialize (IH (tl syncs) a2 (gs ++ [cur]) [r]
                         [(match syncs with b :: _ => b | [] => false end, r)] (done ++ [cs]) Hw).
          assert (Hsz : w_size (a_cur a2) = 8 + lenN (enc_rec c (Some r))).
          { pose proof Hw as Hw'. destruct Hw' as (_ & _ & _ & Hi1). destruct Hi1 as (_ & Hc1 & _).
            unfold w_size. rewrite Hc1. cbn [map encs flat_map]. rewrite app_nil_r. reflexivity. }
          rewrite Hsz in IH. apply IH.
          -- unfold J. subst a2. cbn [a_failed]. discriminate.
          -- reflexivity.
          -- rewrite map_app, Hdone. cbn [map]. rewrite Hcs. reflexivity.
          -- exact Hok'.
          -- exact Hnf.
        * cbv beta iota in Hstep. destruct (a_failed a) eqn:Ea; [cbv beta iota in Hstep; rewrite Ea in Hstep; discriminate Hstep|].
          pose proof (ainv_write c ctype_ok a gs cur r Hinv Ho) as Hw.
          set (a2 := mkApp (a_closed a) (a_num a) (fst (w_write c (Some r) (a_cur a))) false) in *.
          specialize (IH (tl syncs) a2 gs (cur ++ [r])
                         (cs ++ [(match syncs with b :: _ => b | [] => false end, r)]) done Hw).
          assert (Hsz : w_size (a_cur a2) = w_size (a_cur a) + lenN (enc_rec c (Some r))).
          { subst a2. cbn [a_cur]. rewrite fst_w_write. reflexivity. }
          rewrite Hsz in IH. apply IH.
          -- unfold J. subst a2. cbn [a_failed]. discriminate.
          -- rewrite map_app, Hcs. reflexivity.
          -- exact Hdone.
          -- exact Hok'.
          -- exact Hnf.
      + (* forced rotation *)
        pose proof (ainv_rotate c ctype_ok a gs cur Hinv Hstep) as Hr.
        specialize (IH syncs (app_rotate c a) (gs ++ [cur]) [] [] (done ++ [cs]) Hr).
        assert (Hsz : w_size (a_cur (app_rotate c a)) = 8).
        { unfold app_rotate in *. cbv zeta in *.
          destruct (wal_limit <=? a_num a + 1); [cbn [a_failed] in Hstep; discriminate Hstep|reflexivity]. }
        rewrite Hsz in IH. apply IH.
        * apply J_rotate. exact Hj.
        * reflexivity.
        * rewrite map_app, Hdone. cbn [map]. rewrite Hcs. reflexivity.
        * exact Hok'.
        * exact Hnf.
  Qed.

  (* from a fresh appender *)
  Theorem log_groups_are_the_files (max : N) (ops : list wop) (syncs : list bool) :
    Forall (wop_ok c) ops -> a_failed (run c max ops) = false ->
    map (fun g => wal_file c (map snd g)) (log_groups c max ops syncs 8 [] [])
    = map snd (app_files (run c max ops)).
  Proof.
    intros Hok Hnf. unfold run.
    apply (log_groups_agree max ops syncs (app_new c) [] [] [] []); try reflexivity; try assumption.
    - unfold app_new, ainv. cbn [a_closed a_num a_cur map length seq].
      split; [reflexivity|]. split; [reflexivity|]. split; [reflexivity|]. apply inv_open.
    - unfold J, app_new. cbn [a_failed]. discriminate.
  Qed.
End Groups.
Print Assumptions log_groups_are_the_files.
