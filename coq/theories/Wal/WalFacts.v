(* C07: replay delivers exactly the appended records in order across any rotations; and for every
   byte-level crash image of the newest file (cut at ANY length) replay succeeds and delivers the
   records of the older files plus exactly the records wholly contained in the cut newest file. *)
From GoSST Require Import Base.Bytes RecordIO.Format RecordIO.FormatFacts RecordIO.Writer RecordIO.SeqReader RecordIO.WriteReadFacts.
From GoSST Require Import Wal.Wal.
From Coq Require Import Lia.
Local Open Scope N_scope.

Section Facts.
  Variable c : codec.
  Hypothesis codec_ok : forall x, decomp c (comp c x) = Ok x.
  Hypothesis ctype_ok : ctype c <= 3.

  Definition rec_ok (r : bytes) : Prop := lenN r < 2 ^ 64 /\ lenN (comp c r) < 2 ^ 64.
  Definition wop_ok (o : wop) : Prop := match o with WAppend r => rec_ok r | WRotate => True end.

  Fixpoint appended (ops : list wop) : list bytes :=
    match ops with
    | [] => []
    | WAppend r :: rest => r :: appended rest
    | WRotate :: rest => appended rest
    end.

  (* a WAL file holding the records rs *)
  Definition wal_file (rs : list bytes) : bytes :=
    file_hdr (ctype c) ++ flat_map (fun r => enc_rec c (Some r)) rs.

  Definition run (max : N) (ops : list wop) : appender := fold_left (app_step c max) ops (app_new c).


  (* ================= helper lemmas ================= *)
  Lemma lenN_app' (a b : bytes) : lenN (a ++ b) = lenN a + lenN b.
  Proof. unfold lenN. rewrite app_length. lia. Qed.

  Lemma encs_some rs : flat_map (fun r => enc_rec c (Some r)) rs = encs c (map Some rs).
  Proof.
    unfold encs. induction rs as [|r rs IH]; cbn [flat_map map]; [reflexivity|].
    rewrite IH. reflexivity.
  Qed.

  Lemma wal_file_encs rs : wal_file rs = file_hdr (ctype c) ++ encs c (map Some rs).
  Proof. unfold wal_file. rewrite encs_some. reflexivity. Qed.

  Lemma Forall_rec_size rs : Forall rec_ok rs -> Forall (size_ok c) (map Some rs).
  Proof.
    intro H. induction H as [|r rs Hr _ IH]; cbn [map]; constructor; [exact Hr|exact IH].
  Qed.

  Lemma appended_snoc ops o :
    appended (ops ++ [o]) = appended ops ++ match o with WAppend r => [r] | WRotate => [] end.
  Proof.
    induction ops as [|x ops IH]; [destruct o; reflexivity|].
    destruct x; cbn [app appended]; rewrite IH; reflexivity.
  Qed.

  Lemma appended_ok ops : Forall wop_ok ops -> Forall rec_ok (appended ops).
  Proof.
    intro H. induction H as [|o ops Ho _ IH]; [constructor|].
    destruct o as [r|]; cbn [appended]; [constructor; [exact Ho|exact IH]|exact IH].
  Qed.

  (* ---- the failed flag is sticky ---- *)
  Definition J (a : appender) : Prop := a_failed a = true -> wal_limit <= a_num a + 1.

  Lemma J_rotate a : J a -> J (app_rotate c a).
  Proof.
    intros _. unfold app_rotate, J. cbv zeta.
    destruct (N.leb_spec wal_limit (a_num a + 1)) as [H|H]; cbn [a_failed a_num]; intro Hf;
      [exact H|discriminate Hf].
  Qed.

  Lemma J_step max a o : J a -> J (app_step c max a o).
  Proof.
    intro HJ. destruct o as [r|]; cbn [app_step]; [|apply J_rotate; exact HJ].
    unfold app_append. cbv zeta.
    set (a1 := if max <? w_size (a_cur a) + lenN r then app_rotate c a else a).
    assert (H1 : J a1).
    { subst a1. destruct (max <? w_size (a_cur a) + lenN r); [apply J_rotate|]; exact HJ. }
    destruct (a_failed a1) eqn:Hf; [exact H1|].
    unfold J. cbn [a_failed]. intro Hx. discriminate Hx.
  Qed.

  Lemma failed_rotate a : J a -> a_failed a = true -> a_failed (app_rotate c a) = true.
  Proof.
    intros HJ Hf. specialize (HJ Hf). unfold app_rotate. cbv zeta.
    destruct (N.leb_spec wal_limit (a_num a + 1)) as [H|H]; [reflexivity|lia].
  Qed.

  Lemma failed_step max a o : J a -> a_failed a = true -> a_failed (app_step c max a o) = true.
  Proof.
    intros HJ Hf. destruct o as [r|]; cbn [app_step]; [|apply failed_rotate; assumption].
    unfold app_append. cbv zeta.
    set (a1 := if max <? w_size (a_cur a) + lenN r then app_rotate c a else a).
    assert (H1 : a_failed a1 = true).
    { subst a1. destruct (max <? w_size (a_cur a) + lenN r); [apply failed_rotate; assumption|exact Hf]. }
    rewrite H1. exact H1.
  Qed.

  Lemma run_snoc max ops o : run max (ops ++ [o]) = app_step c max (run max ops) o.
  Proof. unfold run. rewrite fold_left_app. reflexivity. Qed.

  Lemma J_run max ops : J (run max ops).
  Proof.
    induction ops as [|o ops IH] using rev_ind.
    - unfold run, app_new, J. cbn [fold_left a_failed]. intro Hx. discriminate Hx.
    - rewrite run_snoc. apply J_step. exact IH.
  Qed.

  Lemma not_failed_prefix max ops o :
    a_failed (run max (ops ++ [o])) = false -> a_failed (run max ops) = false.
  Proof.
    intro H. destruct (a_failed (run max ops)) eqn:Hf; [|reflexivity].
    rewrite run_snoc in H. rewrite failed_step in H; [discriminate H|apply J_run|exact Hf].
  Qed.

  (* ---- the appender invariant ---- *)
  Definition ainv (a : appender) (groups : list (list bytes)) (cur : list bytes) : Prop :=
    map snd (a_closed a) = map wal_file groups
    /\ map fst (a_closed a) = map N.of_nat (seq 0 (length groups))
    /\ a_num a = N.of_nat (length groups)
    /\ inv c (a_cur a) (map Some cur).

  Lemma ainv_rotate a groups cur :
    ainv a groups cur -> a_failed (app_rotate c a) = false ->
    ainv (app_rotate c a) (groups ++ [cur]) [].
  Proof.
    intros (Hs & Hf & Hn & Hi) Hnf. unfold app_rotate in *. cbv zeta in *.
    destruct (N.leb_spec wal_limit (a_num a + 1)) as [H|H];
      [cbn [a_failed] in Hnf; discriminate Hnf|].
    destruct (inv_close c ctype_ok _ _ Hi) as [Hc _].
    unfold ainv. cbn [a_closed a_num a_cur].
    rewrite !map_app, app_length, Hs, Hf. cbn [map fst snd length].
    split; [|split; [|split]].
    - rewrite Hc, <- wal_file_encs. reflexivity.
    - rewrite Nat.add_1_r, seq_S, map_app, Hn. reflexivity.
    - rewrite Hn. lia.
    - apply inv_open.
  Qed.

  Lemma ainv_write a groups cur r :
    ainv a groups cur -> rec_ok r ->
    ainv (mkApp (a_closed a) (a_num a) (fst (w_write c (Some r) (a_cur a))) false) groups (cur ++ [r]).
  Proof.
    intros (Hs & Hf & Hn & Hi) Hr. unfold ainv. cbn [a_closed a_num a_cur].
    split; [exact Hs|]. split; [exact Hf|]. split; [exact Hn|].
    rewrite map_app. cbn [map]. exact (inv_write c ctype_ok _ _ (Some r) Hi Hr).
  Qed.

  Lemma ainv_step max a groups cur o :
    ainv a groups cur -> wop_ok o -> a_failed (app_step c max a o) = false ->
    exists groups' cur', ainv (app_step c max a o) groups' cur'
      /\ concat groups' ++ cur'
         = (concat groups ++ cur) ++ match o with WAppend r => [r] | WRotate => [] end.
  Proof.
    intros Hinv Hok Hnf. destruct o as [r|]; cbn [app_step] in *.
    - unfold app_append in *. cbv zeta in *.
      set (a1 := if max <? w_size (a_cur a) + lenN r then app_rotate c a else a) in *.
      destruct (a_failed a1) eqn:Hf1; [cbv beta iota in Hnf; rewrite Hf1 in Hnf; discriminate Hnf|].
      assert (H1 : exists g1 c1, ainv a1 g1 c1 /\ concat g1 ++ c1 = concat groups ++ cur).
      { subst a1. destruct (max <? w_size (a_cur a) + lenN r).
        - exists (groups ++ [cur]), []. split; [apply ainv_rotate; assumption|].
          rewrite concat_app. cbn [concat]. rewrite !app_nil_r. reflexivity.
        - exists groups, cur. split; [assumption|reflexivity]. }
      destruct H1 as (g1 & c1 & Hi1 & Hc1).
      exists g1, (c1 ++ [r]). split; [apply ainv_write; assumption|].
      rewrite app_assoc, Hc1. reflexivity.
    - exists (groups ++ [cur]), []. split; [apply ainv_rotate; assumption|].
      rewrite concat_app. cbn [concat]. rewrite !app_nil_r. reflexivity.
  Qed.

  Lemma run_ainv max ops :
    Forall wop_ok ops -> a_failed (run max ops) = false ->
    exists groups cur, ainv (run max ops) groups cur /\ concat groups ++ cur = appended ops.
  Proof.
    induction ops as [|o ops IH] using rev_ind; intros Hok Hnf.
    - exists [], []. split; [|reflexivity].
      unfold run, app_new, ainv. cbn [fold_left a_closed a_num a_cur map length seq].
      split; [reflexivity|]. split; [reflexivity|]. split; [reflexivity|]. apply inv_open.
    - apply Forall_app in Hok. destruct Hok as [Hok Ho].
      inversion Ho as [|o' l' Ho' _]; subst o' l'.
      pose proof (not_failed_prefix max ops o Hnf) as Hp.
      destruct (IH Hok Hp) as (g & cu & Hi & Hc).
      rewrite run_snoc in *.
      destruct (ainv_step max _ g cu o Hi Ho' Hnf) as (g' & cu' & Hi' & Hc').
      exists g', cu'. split; [exact Hi'|]. rewrite Hc', Hc, appended_snoc. reflexivity.
  Qed.

  (* ---- the replayer on intact files ---- *)
  Lemma rwf_of_read_all f newest : forall l fuel fuel' pos e,
    read_all fuel c f pos = map (fun r => Ok r) l ++ [Err e] -> e <> OutOfFuel ->
    (length l < fuel')%nat ->
    read_wal_file fuel' c f pos newest
    = (map payload l,
       match e with EOF => None | _ => if newest && tolerated e then None else Some e end).
  Proof.
    induction l as [|r l IH]; intros fuel fuel' pos e H Hne Hlen;
      (destruct fuel' as [|k']; [cbn [length] in Hlen; lia|]);
      destruct fuel as [|k]; cbn [read_all map app] in H.
    - injection H as H. congruence.
    - cbn [read_wal_file]. destruct (read_next c f pos) as [[r'|e'] pos']; [discriminate H|].
      injection H as H. subst e'. destruct e; destruct newest; reflexivity.
    - discriminate H.
    - cbn [read_wal_file]. destruct (read_next c f pos) as [[r'|e'] pos']; [|discriminate H].
      injection H as Hr Hrest. subst r'.
      rewrite (IH k k' pos' e Hrest Hne) by (cbn [length] in Hlen; lia).
      reflexivity.
  Qed.

  Lemma map_payload_some (l : list bytes) : map payload (map Some l) = l.
  Proof. induction l as [|x l IH]; [reflexivity|]. cbn [map payload]. rewrite IH. reflexivity. Qed.

  Lemma encs_length_ge (l : list (option bytes)) : (length l <= length (encs c l))%nat.
  Proof.
    induction l as [|x l IH]; [cbn; lia|].
    rewrite encs_cons by assumption. rewrite app_length. cbn [length].
    pose proof (enc_rec_pos c ctype_ok x) as Hp. unfold lenN in Hp. lia.
  Qed.

  Lemma rwf_wal_file newest g : Forall rec_ok g ->
    read_wal_file (S (length (wal_file g))) c (wal_file g) 8 newest = (g, None).
  Proof.
    intro HF. rewrite wal_file_encs.
    pose proof (read_all_concat c codec_ok ctype_ok (map Some g) (S (length g)) (file_hdr (ctype c))
                  (Forall_rec_size g HF)) as H.
    rewrite map_length in H. specialize (H (Nat.lt_succ_diag_r _)).
    change (lenN (file_hdr (ctype c))) with 8 in H.
    rewrite (rwf_of_read_all _ newest _ _ _ _ _ H); [|discriminate|].
    - rewrite map_payload_some. reflexivity.
    - rewrite app_length. pose proof (encs_length_ge (map Some g)) as Hl.
      rewrite map_length in *. lia.
  Qed.

  Lemma r_open_wal_prefix rest : r_open (file_hdr (ctype c) ++ rest) = Ok 8.
  Proof. unfold r_open. rewrite parse_file_hdr_ok by exact ctype_ok. reflexivity. Qed.

  Lemma replay_files_cons g rest : Forall rec_ok g ->
    replay_files c (wal_file g :: rest)
    = let '(rs', e) := replay_files c rest in (g ++ rs', e).
  Proof.
    intro HF. cbn [replay_files].
    replace (r_open (wal_file g)) with (Ok (A:=N) 8)
      by (symmetry; unfold wal_file; apply r_open_wal_prefix).
    rewrite rwf_wal_file by exact HF. reflexivity.
  Qed.

  Lemma replay_files_intact groups : Forall (Forall rec_ok) groups ->
    replay_files c (map wal_file groups) = (concat groups, None).
  Proof.
    intro HF. induction HF as [|g groups Hg _ IH]; [reflexivity|].
    cbn [map concat]. rewrite replay_files_cons by exact Hg. rewrite IH. reflexivity.
  Qed.

  (* the directory after any program: consecutively numbered files, each the encoding of a group of
     records, the groups concatenating to the appended sequence *)
  Theorem app_files_shape (max : N) (ops : list wop) :
    Forall wop_ok ops -> a_failed (run max ops) = false ->
    exists groups : list (list bytes),
      map snd (app_files (run max ops)) = map wal_file groups
      /\ concat groups = appended ops
      /\ map fst (app_files (run max ops)) = map N.of_nat (seq 0 (length groups)).
  Proof.
    intros Hok Hnf. destruct (run_ainv max ops Hok Hnf) as (groups & cur & Hi & Hcat).
    destruct Hi as (Hs & Hf & Hn & Hinv).
    destruct (inv_close c ctype_ok _ _ Hinv) as [Hc _].
    exists (groups ++ [cur]). unfold app_files.
    rewrite !map_app, Hs, Hf, app_length. cbn [map fst snd length].
    split; [rewrite Hc, <- wal_file_encs; reflexivity|].
    split; [rewrite concat_app; cbn [concat]; rewrite app_nil_r; exact Hcat|].
    rewrite Nat.add_1_r, seq_S, map_app, Hn. reflexivity.
  Qed.

  (* C07, first half: replay = appended, whatever the size limit and the rotations *)
  Theorem replay_is_appended (max : N) (ops : list wop) :
    Forall wop_ok ops -> a_failed (run max ops) = false ->
    replay c (app_files (run max ops)) = (appended ops, None).
  Proof.
    intros Hok Hnf. destruct (app_files_shape max ops Hok Hnf) as (groups & Hs & Hcat & _).
    unfold replay. rewrite Hs. rewrite replay_files_intact; [rewrite Hcat; reflexivity|].
    apply Forall_concat. rewrite Hcat. apply appended_ok. exact Hok.
  Qed.

  (* records wholly contained in the first n bytes of a file *)
  Definition contained (rs : list bytes) (n : N) : list bytes :=
    if n <? 8 then []
    else flat_map (fun r => match r with Some b => [b] | None => [] end)
                  (complete_prefix c (map (fun r => Some r) rs) (n - 8)).


  (* ---- complete prefixes of lists of non-nil records ---- *)
  Fixpoint cp (rs : list bytes) (budget : N) : list bytes :=
    match rs with
    | [] => []
    | r :: rest =>
        if lenN (enc_rec c (Some r)) <=? budget
        then r :: cp rest (budget - lenN (enc_rec c (Some r))) else []
    end.

  Lemma cp_complete rs : forall b, complete_prefix c (map Some rs) b = map Some (cp rs b).
  Proof.
    induction rs as [|r rs IH]; intro b; cbn [map complete_prefix cp]; [reflexivity|].
    cbv zeta. destruct (lenN (enc_rec c (Some r)) <=? b); [|reflexivity].
    cbn [map]. rewrite IH. reflexivity.
  Qed.

  Lemma flat_map_some (l : list bytes) :
    flat_map (fun r : option bytes => match r with Some b => [b] | None => [] end) (map Some l) = l.
  Proof. induction l as [|x l IH]; [reflexivity|]. cbn [map flat_map app]. rewrite IH. reflexivity. Qed.

  Lemma contained_cp rs n : contained rs n = if n <? 8 then [] else cp rs (n - 8).
  Proof.
    unfold contained. destruct (n <? 8); [reflexivity|].
    rewrite cp_complete, flat_map_some. reflexivity.
  Qed.

  Lemma cp_prefix rs : forall b, exists rest, rs = cp rs b ++ rest.
  Proof.
    induction rs as [|r rs IH]; intro b; [exists []; reflexivity|].
    cbn [cp]. destruct (lenN (enc_rec c (Some r)) <=? b).
    - destruct (IH (b - lenN (enc_rec c (Some r)))) as (rest & Hr).
      exists rest. cbn [app]. rewrite <- Hr. reflexivity.
    - exists (r :: rs). reflexivity.
  Qed.

  Lemma cp_length rs : forall b, N.of_nat (length (cp rs b)) <= b.
  Proof.
    induction rs as [|r rs IH]; intro b; cbn [cp]; [cbn [length]; lia|].
    pose proof (enc_rec_pos c ctype_ok (Some r)) as Hp.
    destruct (N.leb_spec (lenN (enc_rec c (Some r))) b) as [H|H]; [|cbn [length]; lia].
    specialize (IH (b - lenN (enc_rec c (Some r)))). cbn [length]. lia.
  Qed.

  Lemma cp_full pre r post : forall b,
    lenN (flat_map (fun x => enc_rec c (Some x)) (pre ++ [r])) <= b ->
    exists rest, cp (pre ++ r :: post) b = pre ++ r :: rest.
  Proof.
    induction pre as [|x pre IH]; intros b H; cbn [app flat_map] in H; rewrite lenN_app' in H.
    - cbn [app cp].
      destruct (N.leb_spec (lenN (enc_rec c (Some r))) b) as [Hb|Hb]; [|lia].
      eexists. reflexivity.
    - cbn [app cp].
      destruct (N.leb_spec (lenN (enc_rec c (Some x))) b) as [Hb|Hb]; [|lia].
      destruct (IH (b - lenN (enc_rec c (Some x)))) as (rest & Hr); [lia|].
      exists rest. rewrite Hr. reflexivity.
  Qed.

  (* ---- the cut newest file ---- *)
  Lemma parse_file_hdr_short_tol (f : bytes) :
    lenN f < 8 -> exists e, tolerated e = true /\ parse_file_hdr f = Err e.
  Proof.
    intro H. unfold parse_file_hdr.
    assert (Hs : lenN (sub f 0 8) < 8).
    { unfold sub, lenN in *. change (N.to_nat 0) with 0%nat. cbn [skipn].
      pose proof (firstn_length_le' (N.to_nat 8) f) as Hle. lia. }
    replace (lenN (sub f 0 8) <? 8) with true by (symmetry; apply N.ltb_lt; exact Hs).
    destruct (lenN (sub f 0 8) =? 0); [exists EOF|exists UnexpectedEOF]; split; reflexivity.
  Qed.

  Lemma replay_cut last n :
    Forall rec_ok last -> n <= lenN (wal_file last) ->
    replay_files c [firstn (N.to_nat n) (wal_file last)] = (contained last n, None).
  Proof.
    intros HF Hn. rewrite contained_cp.
    set (x := firstn (N.to_nat n) (wal_file last)).
    assert (Hlx : length x = N.to_nat n).
    { subst x. rewrite firstn_length. unfold lenN in Hn. lia. }
    cbn [replay_files].
    destruct (N.ltb_spec n 8) as [H8|H8].
    - destruct (parse_file_hdr_short_tol x) as (e & He & Hp); [unfold lenN; lia|].
      unfold r_open. rewrite Hp, He. reflexivity.
    - assert (Hx : x = file_hdr (ctype c) ++ firstn (N.to_nat n - 8) (encs c (map Some last))).
      { subst x. rewrite wal_file_encs.
        rewrite firstn_app_long by (change (length (file_hdr (ctype c))) with 8%nat; lia).
        reflexivity. }
      replace (r_open x) with (Ok (A:=N) 8) by (symmetry; rewrite Hx; apply r_open_wal_prefix).
      destruct (truncation_prefix c codec_ok ctype_ok (map Some last) n (S (length (map Some last)))
                  (Forall_rec_size last HF) H8) as (e & He & Hrd).
      { rewrite wal_file_encs in Hn. exact Hn. }
      { apply Nat.lt_succ_diag_r. }
      change (file_hdr (ctype c) ++ flat_map (enc_rec c) (map Some last))
        with (file_hdr (ctype c) ++ encs c (map Some last)) in Hrd.
      rewrite <- wal_file_encs in Hrd. fold x in Hrd.
      rewrite (rwf_of_read_all x true _ _ (S (length x)) _ _ Hrd).
      + rewrite cp_complete, map_payload_some, app_nil_r.
        destruct He as [-> | ->]; reflexivity.
      + destruct He as [-> | ->]; discriminate.
      + rewrite cp_complete, map_length. pose proof (cp_length last (n - 8)) as Hl. lia.
  Qed.

  (* C07, crash half (byte level): older files intact, the newest file cut at ANY length n *)
  Theorem wal_crash_prefix (closed : list (list bytes)) (last : list bytes) (n : N) :
    Forall (Forall rec_ok) closed -> Forall rec_ok last -> n <= lenN (wal_file last) ->
    replay_files c (map wal_file closed ++ [firstn (N.to_nat n) (wal_file last)])
    = (concat closed ++ contained last n, None).
  Proof.
    intros HF Hl Hn. induction HF as [|g closed Hg _ IH]; cbn [map app concat].
    - apply replay_cut; assumption.
    - rewrite replay_files_cons by exact Hg. rewrite IH. rewrite app_assoc. reflexivity.
  Qed.

  (* the delivered records are a prefix of the appended ones *)
  Lemma contained_prefix (rs : list bytes) (n : N) : exists rest, rs = contained rs n ++ rest.
  Proof.
    rewrite contained_cp. destruct (n <? 8); [exists rs; reflexivity|]. apply cp_prefix.
  Qed.

  (* a record whose bytes are completely inside the cut is delivered *)
  Lemma contained_complete (pre : list bytes) (r : bytes) (post : list bytes) (n : N) :
    lenN (wal_file (pre ++ [r])) <= n ->
    exists rest, contained (pre ++ r :: post) n = pre ++ r :: rest.
  Proof.
    intro H. unfold wal_file in H. rewrite lenN_app' in H.
    change (lenN (file_hdr (ctype c))) with 8 in H.
    rewrite contained_cp. destruct (N.ltb_spec n 8) as [H8|H8]; [lia|].
    apply cp_full. lia.
  Qed.
End Facts.

Definition id_codec : codec := mkCodec 0 (fun x => x) (fun x => Ok x).

Example wal_example :
  let ops := [WAppend [1; 2; 3]; WAppend []; WRotate; WAppend [0x91; 0x8d; 0x4c]; WAppend [7]; WAppend [8; 8; 8; 8; 8; 8; 8; 8; 8; 8; 8; 8]] in
  let a := fold_left (app_step id_codec 30) ops (app_new id_codec) in
  map fst (app_files a) = [0; 1; 2]
  /\ replay id_codec (app_files a) = ([[1; 2; 3]; []; [0x91; 0x8d; 0x4c]; [7]; [8; 8; 8; 8; 8; 8; 8; 8; 8; 8; 8; 8]], None)
  /\ replay_files id_codec [snd (nth 0 (app_files a) (0, [])); firstn 20 (snd (nth 1 (app_files a) (0, [])))]
     = ([[1; 2; 3]; []], None).
Proof. vm_compute. repeat split; reflexivity. Qed.

Print Assumptions app_files_shape.
Print Assumptions replay_is_appended.
Print Assumptions wal_crash_prefix.
Print Assumptions contained_prefix.
Print Assumptions contained_complete.
Print Assumptions wal_example.
