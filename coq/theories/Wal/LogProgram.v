(* The calls the file writer makes on its buffered writer while a log file is written (recordio/file_writer.go): Open
   hands over the file header and flushes; an append hands over the record header and then the stored payload as two
   Write calls; a synchronous append flushes afterwards (and then fsyncs, which changes nothing a kill could see). *)
From GoSST Require Import Base.Bytes RecordIO.Format RecordIO.BufWriter.
Local Open Scope N_scope.

Definition rec_ops (c : codec) (sync : bool) (r : bytes) : list bop :=
  let z := if compressed c then comp c r else r in
  [BWrite (hdr (lenN r) (if compressed c then lenN z else 0) false); BWrite z] ++ (if sync then [BFlush] else []).

Fixpoint recs_ops (c : codec) (rs : list (bool * bytes)) : list bop :=
  match rs with
  | [] => []
  | (sync, r) :: rest => rec_ops c sync r ++ recs_ops c rest
  end.

Definition log_ops (c : codec) (rs : list (bool * bytes)) : list bop :=
  [BWrite (file_hdr (ctype c)); BFlush] ++ recs_ops c rs.

