(* The calls the file writer makes on its buffered writer while a log file is written (recordio/file_writer.go): Open
   hands over the file header and flushes; an append hands over the record header and then the stored payload as two
   Write calls; a synchronous append flushes afterwards (and then fsyncs, which changes nothing a kill could see). *)
From GoSST Require Import Base.Bytes RecordIO.Format RecordIO.BufWriter Wal.Wal.
Local Open Scope N_scope.

Definition rec_ops (c : codec) (sync : bool) (r : bytes) : list bop :=
  let z := if compressed c then comp c r else r in
  [BWrite (hdr (lenN r) (if compressed c then lenN z else 0) false); BWrite z] ++ (if sync then [BFlush] else []).

Fixpoint recs_ops (c : codec) (rs : list (bool * bytes)) : list bop :=
  match rs with
  | [] => []
  | (sync, r) :: rest => rec_ops c sync r ++ recs_ops c rest
  end.

Definition log_ops (c : codec) (rs : list (bool * bytes)) : list bop :=
  [BWrite (file_hdr (ctype c)); BFlush] ++ recs_ops c rs.


(* the appends of every log file of a session with their flags, by the rotation rule of the appender (app_append /
   app_rotate in Wal/Wal.v): [size] is the size of the current file, [cur] its appends so far, [done] the closed files *)
Fixpoint log_groups (c : codec) (max : N) (ops : list wop) (syncs : list bool) (size : N) (cur : list (bool * bytes))
                    (done : list (list (bool * bytes))) : list (list (bool * bytes)) :=
  match ops with
  | [] => done ++ [cur]
  | WRotate :: r => log_groups c max r syncs 8 [] (done ++ [cur])
  | WAppend rec :: r =>
      let s := match syncs with b :: _ => b | [] => false end in
      let n := lenN (enc_rec c (Some rec)) in
      if max <? size + lenN rec then log_groups c max r (tl syncs) (8 + n) [(s, rec)] (done ++ [cur])
      else log_groups c max r (tl syncs) (size + n) (cur ++ [(s, rec)]) done
  end.
