(* wal/appender.go and wal/replayer.go over the RecordIO model: size-triggered and forced
   rotation, six-digit file names, replay in name order stopping at EOF; a cut header or record
   at the end of the NEWEST file ends the replay (kill while appending), anywhere else it is an error. *)
From GoSST Require Import Base.Bytes RecordIO.Format RecordIO.Writer RecordIO.SeqReader.
Local Open Scope N_scope.

Record appender := mkApp {
  a_closed : list (N * bytes);     (* closed files, oldest first: number, content *)
  a_num : N;                       (* number of the current file *)
  a_cur : wstate;
  a_failed : bool                  (* more than a million files *)
}.

Definition wal_limit : N := 1000000.

Definition app_new (c : codec) : appender := mkApp [] 0 (w_open c) false.

Definition app_rotate (c : codec) (a : appender) : appender :=
  let closed := a_closed a ++ [(a_num a, w_close (a_cur a))] in
  if wal_limit <=? a_num a + 1 then mkApp closed (a_num a) (a_cur a) true
  else mkApp closed (a_num a + 1) (w_open c) false.

(* Append / AppendSync: rotate first when the record does not fit the size limit *)
Definition app_append (c : codec) (max : N) (rec : bytes) (a : appender) : appender :=
  let a1 := if max <? w_size (a_cur a) + lenN rec then app_rotate c a else a in
  if a_failed a1 then a1
  else mkApp (a_closed a1) (a_num a1) (fst (w_write c (Some rec) (a_cur a1))) false.

Inductive wop := WAppend (rec : bytes) | WRotate.

Definition app_step (c : codec) (max : N) (a : appender) (o : wop) : appender :=
  match o with
  | WAppend r => app_append c max r a
  | WRotate => app_rotate c a
  end.

(* the directory after Close: every file with its number *)
Definition app_files (a : appender) : list (N * bytes) := a_closed a ++ [(a_num a, w_close (a_cur a))].

(* ---- replay *)
Definition tolerated (e : err) : bool := match e with EOF | UnexpectedEOF => true | _ => false end.

(* read one file: records until EOF; [newest] allows a cut tail *)
Fixpoint read_wal_file (fuel : nat) (c : codec) (f : bytes) (pos : N) (newest : bool) : list bytes * option err :=
  match fuel with
  | O => ([], Some OutOfFuel)
  | S k =>
      match read_next c f pos with
      | (Err EOF, _) => ([], None)
      | (Err e, _) => if newest && tolerated e then ([], None) else ([], Some e)
      | (Ok r, pos') =>
          let '(rs, e) := read_wal_file k c f pos' newest in
          ((match r with Some b => b | None => [] end) :: rs, e)
      end
  end.

Fixpoint replay_files (c : codec) (fs : list bytes) : list bytes * option err :=
  match fs with
  | [] => ([], None)
  | f :: rest =>
      let newest := match rest with [] => true | _ => false end in
      match r_open f with
      | Err e => if newest && tolerated e then ([], None) else ([], Some e)
      | Ok pos =>
          match read_wal_file (S (length f)) c f pos newest with
          | (rs, Some e) => (rs, Some e)
          | (rs, None) => let '(rs', e) := replay_files c rest in (rs ++ rs', e)
          end
      end
  end.

(* replay of a directory: files in name order = numeric order below the million-file limit *)
Definition replay (c : codec) (files : list (N * bytes)) : list bytes * option err :=
  replay_files c (map snd files).
