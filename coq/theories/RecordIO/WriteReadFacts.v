(* C04: whatever program of Write / WriteSync / Seek(back to a boundary) / Close produced a file,
   every reader returns exactly the surviving records.  For every codec with decomp (comp x) = x,
   hence for every compression type; buffer sizes do not occur in the model (see DESIGN). *)
From GoSST Require Import Base.Bytes Base.Varint Base.VarintFacts Base.Crc Base.CrcFacts.
From GoSST Require Import RecordIO.Format RecordIO.FormatFacts RecordIO.Writer RecordIO.SeqReader RecordIO.MmapReader.
From Coq Require Import Lia.
Local Open Scope N_scope.

Section Facts.
  Variable c : codec.
  Hypothesis codec_ok : forall x, decomp c (comp c x) = Ok x.
  Hypothesis ctype_ok : ctype c <= 3.

  Definition payload (r : option bytes) : bytes := match r with Some p => p | None => [] end.
  (* lengths are uint64 in the code *)
  Definition size_ok (r : option bytes) : Prop :=
    lenN (payload r) < 2 ^ 64 /\ lenN (comp c (payload r)) < 2 ^ 64.

  Definition op_ok (o : wop) : Prop := match o with WWrite r => size_ok r | WSeek _ => True end.

  (* seeks go back to the start of a surviving record or stay at the current end *)
  Fixpoint prog_ok (ops : list wop) (cur : N) (acc : list (N * option bytes)) : bool :=
    match ops with
    | [] => true
    | WWrite r :: rest => prog_ok rest (cur + lenN (enc_rec c r)) (acc ++ [(cur, r)])
    | WSeek off :: rest =>
        (N.eqb off cur || existsb (fun p => N.eqb (fst p) off) acc)
        && prog_ok rest off (filter (fun p => fst p <? off) acc)
    end.

  Definition written (ops : list wop) : bytes := w_close (fst (w_run c ops (w_open c))).
  Definition surv (ops : list wop) : list (N * option bytes) := survivors c ops 8 [].

  (* ---- list / offset algebra ---- *)
  Lemma lenN_app (a b : bytes) : lenN (a ++ b) = lenN a + lenN b.
  Proof. unfold lenN. rewrite app_length. lia. Qed.

  Lemma to_nat_lenN (a : bytes) : N.to_nat (lenN a) = length a.
  Proof. unfold lenN. apply Nat2N.id. Qed.

  Lemma skipn_lenN_app (a b : bytes) : skipn (N.to_nat (lenN a)) (a ++ b) = b.
  Proof.
    rewrite to_nat_lenN, skipn_app, skipn_all, Nat.sub_diag. reflexivity.
  Qed.

  Lemma skipn_lenN_all (a : bytes) : skipn (N.to_nat (lenN a)) a = [].
  Proof. rewrite to_nat_lenN. apply skipn_all. Qed.

  Lemma sub_app_short (a b : bytes) n : sub (a ++ b) (lenN a) n = firstn (N.to_nat n) b.
  Proof. unfold sub. rewrite skipn_lenN_app. reflexivity. Qed.

  Lemma sub_app_exact (a b d : bytes) : sub (a ++ b ++ d) (lenN a) (lenN b) = b.
  Proof.
    rewrite sub_app_short, to_nat_lenN, firstn_app, firstn_all, Nat.sub_diag.
    cbn [firstn]. apply app_nil_r.
  Qed.

  Lemma file_hdr_len ct : length (file_hdr ct) = 8%nat.
  Proof. reflexivity. Qed.

  Lemma file_hdr_lenN ct : lenN (file_hdr ct) = 8.
  Proof. reflexivity. Qed.

  Definition encs (rs : list (option bytes)) : bytes := flat_map (enc_rec c) rs.

  Lemma encs_app a b : encs (a ++ b) = encs a ++ encs b.
  Proof. apply flat_map_app. Qed.

  Lemma encs_cons r rs : encs (r :: rs) = enc_rec c r ++ encs rs.
  Proof. reflexivity. Qed.

  Lemma flat_map_snd (l : list (N * option bytes)) :
    flat_map (fun p => enc_rec c (snd p)) l = encs (map snd l).
  Proof.
    induction l as [|p l IH]; [reflexivity|]. cbn [flat_map map]. rewrite IH. reflexivity.
  Qed.

  (* ---- shape of an encoded record ---- *)
  Definition isnone (r : option bytes) : bool := match r with None => true | Some _ => false end.

  Lemma enc_rec_shape r : size_ok r ->
    exists usz csz z, usz < 2 ^ 64 /\ csz < 2 ^ 64
      /\ enc_rec c r = hdr usz csz (isnone r) ++ z
      /\ match r with
         | None => z = []
         | Some p => payload_len c usz csz = lenN z /\ decode_payload c z = Ok (Some p)
         end.
  Proof.
    intros [Hp Hz]. unfold enc_rec, payload_len, decode_payload.
    destruct r as [p|]; cbn [payload isnone] in *.
    - destruct (compressed c).
      + exists (lenN p), (lenN (comp c p)), (comp c p).
        split; [exact Hp|]. split; [exact Hz|]. split; [reflexivity|].
        split; [reflexivity|]. rewrite codec_ok. reflexivity.
      + exists (lenN p), 0, p.
        split; [exact Hp|]. split; [reflexivity|]. split; [reflexivity|].
        split; reflexivity.
    - destruct (compressed c).
      + exists 0, (lenN (comp c [])), [].
        split; [reflexivity|]. split; [exact Hz|]. split; [symmetry; apply app_nil_r|reflexivity].
      + exists 0, 0, [].
        split; [reflexivity|]. split; [reflexivity|]. split; [symmetry; apply app_nil_r|reflexivity].
  Qed.

  Lemma hdr_nonempty usz csz b : exists x l, hdr usz csz b = x :: l.
  Proof.
    unfold hdr. cbv zeta. unfold hdr_prefix. rewrite uv_enc_magic. cbn [marker app].
    eexists. eexists. reflexivity.
  Qed.

  Lemma hdr_app_pos u cs b z : 0 < lenN (hdr u cs b ++ z).
  Proof.
    destruct (hdr_nonempty u cs b) as (x & l & ->). unfold lenN. cbn [app length]. lia.
  Qed.

  Lemma enc_rec_pos r : 0 < lenN (enc_rec c r).
  Proof.
    unfold enc_rec. destruct r as [p|]; destruct (compressed c).
    - apply hdr_app_pos.
    - apply hdr_app_pos.
    - rewrite <- (app_nil_r (hdr 0 (lenN (comp c [])) true)). apply hdr_app_pos.
    - rewrite <- (app_nil_r (hdr 0 0 true)). apply hdr_app_pos.
  Qed.

  Lemma parse_hdr_nil : parse_hdr [] = Err EOF.
  Proof. reflexivity. Qed.

  (* ---- one record, every reader ---- *)
  Lemma read_next_one pre r rest : size_ok r ->
    read_next c (pre ++ enc_rec c r ++ rest) (lenN pre) = (Ok r, lenN pre + lenN (enc_rec c r)).
  Proof.
    intro Hs. destruct (enc_rec_shape r Hs) as (u & cs & z & Hu & Hc & He & Hz).
    rewrite He. unfold read_next. cbv zeta. rewrite skipn_lenN_app. rewrite <- app_assoc.
    rewrite parse_hdr_stream_hdr by assumption.
    destruct r as [p|]; cbn [isnone].
    - destruct Hz as [Hn Hd]. rewrite Hn.
      rewrite <- lenN_app. rewrite (app_assoc pre). rewrite sub_app_exact.
      rewrite N.ltb_irrefl. rewrite Hd. f_equal. rewrite !lenN_app. lia.
    - subst z. rewrite app_nil_r. reflexivity.
  Qed.

  Lemma skip_next_one pre r rest : size_ok r ->
    skip_next c (pre ++ enc_rec c r ++ rest) (lenN pre) = (Ok tt, lenN pre + lenN (enc_rec c r)).
  Proof.
    intro Hs. destruct (enc_rec_shape r Hs) as (u & cs & z & Hu & Hc & He & Hz).
    rewrite He. unfold skip_next. cbv zeta. rewrite skipn_lenN_app. rewrite <- app_assoc.
    rewrite parse_hdr_stream_hdr by assumption.
    destruct r as [p|]; cbn [isnone].
    - destruct Hz as [Hn Hd]. rewrite Hn. f_equal. rewrite !lenN_app. lia.
    - subst z. rewrite app_nil_r. f_equal. lia.
  Qed.

  Lemma read_next_end pre : read_next c pre (lenN pre) = (Err EOF, lenN pre).
  Proof. unfold read_next. cbv zeta. rewrite skipn_lenN_all. reflexivity. Qed.

  Lemma skip_next_end pre : skip_next c pre (lenN pre) = (Err EOF, lenN pre).
  Proof. unfold skip_next. cbv zeta. rewrite skipn_lenN_all. reflexivity. Qed.

  Lemma read_at_one pre r rest : size_ok r ->
    read_at c (pre ++ enc_rec c r ++ rest) (lenN pre) = Ok r.
  Proof.
    intro Hs. destruct (enc_rec_shape r Hs) as (u & cs & z & Hu & Hc & He & Hz).
    rewrite He. unfold read_at. cbv zeta.
    replace (lenN (pre ++ (hdr u cs (isnone r) ++ z) ++ rest) <? lenN pre) with false
      by (symmetry; apply N.ltb_ge; rewrite lenN_app; lia).
    rewrite sub_app_short. rewrite <- app_assoc.
    pose proof (parse_hdr_window u cs (isnone r) (z ++ rest) Hu Hc) as Hp.
    change (N.to_nat max_header_size) with 36%nat.
    destruct (firstn 36 (hdr u cs (isnone r) ++ z ++ rest)) as [|w0 wl] eqn:Hw.
    { rewrite parse_hdr_nil in Hp. discriminate Hp. }
    rewrite Hp.
    destruct r as [p|]; cbn [isnone].
    - destruct Hz as [Hn Hd]. rewrite Hn.
      rewrite <- lenN_app. rewrite (app_assoc pre). rewrite sub_app_exact.
      rewrite N.ltb_irrefl. exact Hd.
    - reflexivity.
  Qed.

  (* ---- reading a concatenation of records ---- *)
  Lemma read_all_concat rs : forall fuel pre, Forall size_ok rs -> (length rs < fuel)%nat ->
    read_all fuel c (pre ++ encs rs) (lenN pre) = map (fun r => Ok r) rs ++ [Err EOF].
  Proof.
    induction rs as [|r rs IH]; intros fuel pre HF HL; (destruct fuel as [|fuel]; [cbn [length] in HL; lia|]).
    - cbn [encs flat_map map app read_all]. rewrite app_nil_r, read_next_end. reflexivity.
    - inversion HF as [|r' rs' Hr HF']; subst r' rs'.
      rewrite encs_cons. cbn [read_all]. rewrite read_next_one by exact Hr.
      rewrite <- lenN_app, app_assoc. rewrite IH; [reflexivity|exact HF'|cbn [length] in HL; lia].
  Qed.

  (* ---- cut records ---- *)
  Lemma pprefix_lenN t l : pprefix t l -> lenN t < lenN l.
  Proof. intro H. apply pprefix_length in H. unfold lenN. lia. Qed.

  Lemma read_next_cut pre r t : size_ok r -> pprefix t (enc_rec c r) ->
    exists e, eofish e /\ read_next c (pre ++ t) (lenN pre) = (Err e, lenN pre).
  Proof.
    intros Hs Hp. destruct (enc_rec_shape r Hs) as (u & cs & z & Hu & Hc & He & Hz).
    rewrite He in Hp. apply pprefix_app in Hp. destruct Hp as [Hp | (t' & -> & Hp)].
    - destruct (parse_hdr_stream_cut u cs (isnone r) t Hu Hc Hp) as (e & Hee & Hd).
      exists e. split; [exact Hee|]. unfold read_next. cbv zeta. rewrite skipn_lenN_app, Hd.
      destruct Hee as [-> | ->]; reflexivity.
    - destruct r as [p|]; [|subst z; exfalso; exact (pprefix_nil_r _ Hp)].
      destruct Hz as [Hn Hd]. cbn [isnone].
      exists (if lenN t' =? 0 then EOF else UnexpectedEOF).
      split; [destruct (lenN t' =? 0); [left|right]; reflexivity|].
      unfold read_next. cbv zeta. rewrite skipn_lenN_app.
      rewrite parse_hdr_stream_hdr by assumption. rewrite Hn.
      rewrite <- lenN_app, app_assoc, sub_app_short.
      pose proof (pprefix_lenN _ _ Hp) as Hlt.
      rewrite firstn_all2 by (rewrite to_nat_lenN; apply pprefix_length in Hp; lia).
      replace (lenN t' <? lenN z) with true by (symmetry; apply N.ltb_lt; exact Hlt).
      reflexivity.
  Qed.

  Lemma read_at_cut pre r t : size_ok r -> pprefix t (enc_rec c r) ->
    exists e, read_at c (pre ++ t) (lenN pre) = Err e.
  Proof.
    intros Hs Hp. destruct (enc_rec_shape r Hs) as (u & cs & z & Hu & Hc & He & Hz).
    rewrite He in Hp. unfold read_at. cbv zeta.
    replace (lenN (pre ++ t) <? lenN pre) with false
      by (symmetry; apply N.ltb_ge; rewrite lenN_app; lia).
    rewrite sub_app_short. change (N.to_nat max_header_size) with 36%nat.
    apply pprefix_app in Hp. destruct Hp as [Hp | (t' & -> & Hp)].
    - pose proof (pprefix_length _ _ Hp) as HL. pose proof (hdr_len u cs (isnone r) Hu Hc) as HH.
      rewrite firstn_all2 by lia.
      destruct (parse_hdr_cut u cs (isnone r) t Hu Hc Hp) as (e & Hee & Hd).
      destruct t as [|b t]; [eexists; reflexivity|]. rewrite Hd.
      destruct Hee as [-> | ->]; eexists; reflexivity.
    - destruct r as [p|]; [|subst z; exfalso; exact (pprefix_nil_r _ Hp)].
      destruct Hz as [Hn Hd]. cbn [isnone].
      pose proof (parse_hdr_window u cs false t' Hu Hc) as Hw.
      destruct (firstn 36 (hdr u cs false ++ t')) as [|w0 wl] eqn:Hf.
      { rewrite parse_hdr_nil in Hw. discriminate Hw. }
      rewrite Hw. rewrite Hn.
      rewrite <- lenN_app, app_assoc, sub_app_short.
      pose proof (pprefix_lenN _ _ Hp) as Hlt.
      rewrite firstn_all2 by (rewrite to_nat_lenN; apply pprefix_length in Hp; lia).
      replace (lenN t' <? lenN z) with true by (symmetry; apply N.ltb_lt; exact Hlt).
      eexists. reflexivity.
  Qed.

  (* ---- writer invariant ---- *)
  Fixpoint offs (base : N) (rs : list (option bytes)) : list (N * option bytes) :=
    match rs with
    | [] => []
    | r :: t => (base, r) :: offs (base + lenN (enc_rec c r)) t
    end.

  Lemma map_snd_offs rs : forall base, map snd (offs base rs) = rs.
  Proof. induction rs as [|r rs IH]; intro base; [reflexivity|]. cbn [offs map snd]. rewrite IH. reflexivity. Qed.

  Lemma offs_snoc rs : forall base r,
    offs base (rs ++ [r]) = offs base rs ++ [(base + lenN (encs rs), r)].
  Proof.
    induction rs as [|x rs IH]; intros base r.
    - cbn [app offs encs flat_map]. change (lenN []) with 0. rewrite N.add_0_r. reflexivity.
    - cbn [app offs]. rewrite IH. rewrite encs_cons, lenN_app, N.add_assoc. reflexivity.
  Qed.

  Lemma offs_split rs : forall base pre off r post, offs base rs = pre ++ (off, r) :: post ->
    off = base + lenN (encs (map snd pre)).
  Proof.
    induction rs as [|x rs IH]; intros base pre off r post H.
    - destruct pre; discriminate H.
    - destruct pre as [|q pre]; cbn [offs app] in H.
      + injection H as H1 _ _. subst off. cbn [map encs flat_map]. change (lenN []) with 0. lia.
      + injection H as Hq H. apply IH in H. subst q. cbn [map snd]. rewrite encs_cons, lenN_app. lia.
  Qed.

  Lemma filter_offs_none rs : forall base off, off <= base ->
    filter (fun p : N * option bytes => fst p <? off) (offs base rs) = [].
  Proof.
    induction rs as [|r rs IH]; intros base off H; [reflexivity|].
    cbn [offs filter fst]. replace (base <? off) with false by (symmetry; apply N.ltb_ge; exact H).
    apply IH. lia.
  Qed.

  Lemma filter_offs rs : forall k base,
    filter (fun p : N * option bytes => fst p <? base + lenN (encs (firstn k rs))) (offs base rs)
    = offs base (firstn k rs).
  Proof.
    induction rs as [|r rs IH]; intros k base.
    - rewrite firstn_nil. reflexivity.
    - destruct k as [|k].
      + cbn [firstn]. change (offs base []) with (@nil (N * option bytes)). apply filter_offs_none. cbn [encs flat_map]. change (lenN []) with 0. lia.
      + cbn [firstn offs filter fst]. rewrite encs_cons, lenN_app.
        pose proof (enc_rec_pos r) as Hpos.
        replace (base <? base + (lenN (enc_rec c r) + lenN (encs (firstn k rs)))) with true
          by (symmetry; apply N.ltb_lt; lia).
        rewrite N.add_assoc. rewrite IH. reflexivity.
  Qed.

  Lemma existsb_offs rs : forall base off,
    existsb (fun p : N * option bytes => N.eqb (fst p) off) (offs base rs) = true ->
    exists k, off = base + lenN (encs (firstn k rs)).
  Proof.
    induction rs as [|r rs IH]; intros base off H; [discriminate H|].
    cbn [offs existsb fst] in H. apply orb_true_iff in H. destruct H as [H|H].
    - apply N.eqb_eq in H. exists 0%nat. cbn [firstn encs flat_map]. change (lenN []) with 0. lia.
    - apply IH in H. destruct H as (k & H). exists (S k). cbn [firstn]. rewrite encs_cons, lenN_app. lia.
  Qed.

  Lemma encs_firstn_le k rs : lenN (encs (firstn k rs)) <= lenN (encs rs).
  Proof.
    rewrite <- (firstn_skipn k rs) at 2. rewrite encs_app, lenN_app. lia.
  Qed.

  Lemma Forall_firstn' {A} (P : A -> Prop) k (l : list A) : Forall P l -> Forall P (firstn k l).
  Proof.
    intro H. rewrite <- (firstn_skipn k l) in H. apply Forall_app in H. exact (proj1 H).
  Qed.

  Definition inv (s : wstate) (rs : list (option bytes)) : Prop :=
    firstn (N.to_nat (w_cur s)) (w_file s) = file_hdr (ctype c) ++ encs rs
    /\ w_cur s = 8 + lenN (encs rs)
    /\ lenN (w_file s) = N.max (w_largest s) (w_cur s)
    /\ Forall size_ok rs.

  Lemma inv_open : inv (w_open c) [].
  Proof.
    unfold inv, w_open. cbn [w_file w_cur w_largest encs flat_map].
    split; [rewrite app_nil_r; reflexivity|]. split; [reflexivity|]. split; [reflexivity|constructor].
  Qed.

  Lemma fst_w_write r s :
    fst (w_write c r s)
    = mkW (write_at (w_file s) (w_cur s) (enc_rec c r)) (w_cur s + lenN (enc_rec c r))
          (match r with None => w_largest s | Some _ => N.max (w_largest s) (w_cur s + lenN (enc_rec c r)) end).
  Proof. unfold w_write. destruct r; reflexivity. Qed.

  Lemma snd_w_write r s : snd (w_write c r s) = w_cur s.
  Proof. unfold w_write. destruct r; reflexivity. Qed.

  Lemma inv_write s rs r : inv s rs -> size_ok r -> inv (fst (w_write c r s)) (rs ++ [r]).
  Proof.
    intros (Hf & Hc & Hl & Hs) Hr. rewrite fst_w_write. unfold inv. cbn [w_file w_cur w_largest].
    set (e := enc_rec c r) in *.
    assert (Hcl : (N.to_nat (w_cur s) <= length (w_file s))%nat) by (unfold lenN in Hl; lia).
    assert (He : encs (rs ++ [r]) = encs rs ++ e).
    { rewrite encs_app. cbn [encs flat_map]. rewrite app_nil_r. reflexivity. }
    split; [|split; [|split]].
    - unfold write_at. rewrite Hf. rewrite He.
      rewrite (app_assoc (file_hdr (ctype c) ++ encs rs)).
      replace (N.to_nat (w_cur s + lenN e)) with (length ((file_hdr (ctype c) ++ encs rs) ++ e)).
      + rewrite firstn_app, firstn_all, Nat.sub_diag. cbn [firstn]. rewrite app_nil_r, app_assoc. reflexivity.
      + rewrite !app_length, file_hdr_len. rewrite Hc. unfold lenN. lia.
    - rewrite He, lenN_app. lia.
    - unfold write_at, lenN. rewrite !app_length, firstn_length, skipn_length.
      unfold lenN in *. destruct r; lia.
    - apply Forall_app. split; [exact Hs|]. constructor; [exact Hr|constructor].
  Qed.

  Lemma inv_seek s rs k :
    inv s rs ->
    inv (mkW (w_file s) (8 + lenN (encs (firstn k rs))) (N.max (w_largest s) (w_cur s))) (firstn k rs).
  Proof.
    intros (Hf & Hc & Hl & Hs). unfold inv. cbn [w_file w_cur w_largest].
    pose proof (encs_firstn_le k rs) as Hle.
    split; [|split; [|split]].
    - replace (N.to_nat (8 + lenN (encs (firstn k rs))))
        with (Nat.min (N.to_nat (8 + lenN (encs (firstn k rs)))) (N.to_nat (w_cur s))) by lia.
      rewrite <- firstn_firstn. rewrite Hf.
      assert (Hsp : encs rs = encs (firstn k rs) ++ encs (skipn k rs))
        by (rewrite <- encs_app, firstn_skipn; reflexivity).
      rewrite Hsp, app_assoc.
      replace (N.to_nat (8 + lenN (encs (firstn k rs)))) with (length (file_hdr (ctype c) ++ encs (firstn k rs))).
      + rewrite firstn_app, firstn_all, Nat.sub_diag. cbn [firstn]. apply app_nil_r.
      + rewrite app_length, file_hdr_len. unfold lenN. lia.
    - reflexivity.
    - lia.
    - apply Forall_firstn'. exact Hs.
  Qed.

  Lemma inv_close s rs : inv s rs ->
    w_close s = file_hdr (ctype c) ++ encs rs /\ w_cur s = lenN (w_close s).
  Proof.
    intros (Hf & Hc & Hl & Hs).
    assert (H : w_close s = firstn (N.to_nat (w_cur s)) (w_file s)).
    { unfold w_close. destruct (N.ltb_spec (w_cur s) (w_largest s)) as [H|H]; [reflexivity|].
      replace (N.to_nat (w_cur s)) with (length (w_file s)) by (unfold lenN in Hl; lia).
      symmetry. apply firstn_all. }
    rewrite H, Hf. split; [reflexivity|]. rewrite lenN_app, file_hdr_lenN. exact Hc.
  Qed.

  Lemma fst_w_run_write r rest s :
    fst (w_run c (WWrite r :: rest) s) = fst (w_run c rest (fst (w_write c r s))).
  Proof.
    cbn [w_run]. destruct (w_write c r s) as [s' off]. cbn [fst].
    destruct (w_run c rest s') as [s'' outs]. reflexivity.
  Qed.

  Lemma fst_w_run_seek off rest s s' : w_seek off s = Ok s' ->
    fst (w_run c (WSeek off :: rest) s) = fst (w_run c rest s').
  Proof.
    intro H. cbn [w_run]. rewrite H. destruct (w_run c rest s') as [s'' outs]. reflexivity.
  Qed.

  Lemma run_inv ops : forall s rs,
    inv s rs -> prog_ok ops (w_cur s) (offs 8 rs) = true -> Forall op_ok ops ->
    exists rs', survivors c ops (w_cur s) (offs 8 rs) = offs 8 rs' /\ inv (fst (w_run c ops s)) rs'.
  Proof.
    induction ops as [|o ops IH]; intros s rs Hinv Hp Hok.
    - exists rs. split; [reflexivity|exact Hinv].
    - inversion Hok as [|o' ops' Ho Hok']; subst o' ops'.
      destruct o as [r|off].
      + cbn [prog_ok survivors] in *. rewrite fst_w_run_write.
        pose proof (inv_write s rs r Hinv Ho) as Hinv'.
        destruct Hinv as (_ & Hc & _ & _).
        assert (Ho8 : offs 8 rs ++ [(w_cur s, r)] = offs 8 (rs ++ [r])).
        { rewrite offs_snoc, Hc. reflexivity. }
        rewrite Ho8 in *.
        specialize (IH (fst (w_write c r s)) (rs ++ [r]) Hinv').
        assert (Hcur : w_cur (fst (w_write c r s)) = w_cur s + lenN (enc_rec c r))
          by (rewrite fst_w_write; reflexivity).
        rewrite Hcur in IH.
        apply IH; assumption.
      + cbn [prog_ok] in Hp. apply andb_true_iff in Hp. destruct Hp as [Hsel Hp].
        pose proof Hinv as (_ & Hc & _ & _).
        assert (Hk : exists k, off = 8 + lenN (encs (firstn k rs))).
        { apply orb_true_iff in Hsel. destruct Hsel as [H|H].
          - apply N.eqb_eq in H. exists (length rs). rewrite firstn_all. lia.
          - apply existsb_offs in H. exact H. }
        destruct Hk as (k & Hk).
        pose proof (encs_firstn_le k rs) as Hle.
        pose proof (inv_seek s rs k Hinv) as Hinv'. rewrite <- Hk in Hinv'.
        assert (Hseek : w_seek off s = Ok (mkW (w_file s) off (N.max (w_largest s) (w_cur s)))).
        { unfold w_seek, file_header_size.
          replace (off <? 8) with false by (symmetry; apply N.ltb_ge; lia).
          replace (w_cur s <? off) with false by (symmetry; apply N.ltb_ge; lia). reflexivity. }
        rewrite (fst_w_run_seek _ _ _ _ Hseek).
        cbn [survivors]. unfold file_header_size.
        replace (off <? 8) with false by (symmetry; apply N.ltb_ge; lia).
        replace (w_cur s <? off) with false by (symmetry; apply N.ltb_ge; lia). cbn [orb].
        assert (Hfil : filter (fun p : N * option bytes => fst p <? off) (offs 8 rs) = offs 8 (firstn k rs)).
        { rewrite Hk. apply filter_offs. }
        rewrite Hfil in *.
        specialize (IH (mkW (w_file s) off (N.max (w_largest s) (w_cur s))) (firstn k rs) Hinv').
        cbn [w_cur] in IH. apply IH; assumption.
  Qed.

  Lemma run_inv_top ops :
    prog_ok ops 8 [] = true -> Forall op_ok ops ->
    exists rs, surv ops = offs 8 rs /\ Forall size_ok rs
      /\ written ops = file_hdr (ctype c) ++ encs rs
      /\ w_size (fst (w_run c ops (w_open c))) = lenN (written ops).
  Proof.
    intros Hp Hok.
    destruct (run_inv ops (w_open c) [] inv_open Hp Hok) as (rs & Hsv & Hinv).
    exists rs. split; [exact Hsv|]. split; [exact (proj2 (proj2 (proj2 Hinv)))|].
    apply inv_close in Hinv. exact Hinv.
  Qed.

  (* the closed file is exactly header + encodings of the surviving records, in order *)
  Theorem written_is_concat ops :
    prog_ok ops 8 [] = true -> Forall op_ok ops ->
    written ops = file_hdr (ctype c) ++ flat_map (fun p => enc_rec c (snd p)) (surv ops)
    /\ w_size (fst (w_run c ops (w_open c))) = lenN (written ops).
  Proof.
    intros Hp Hok. destruct (run_inv_top ops Hp Hok) as (rs & Hsv & Hsz & Hw & Hsize).
    split; [|exact Hsize]. rewrite Hw, Hsv, flat_map_snd, map_snd_offs. reflexivity.
  Qed.

  (* offsets in the survivor bookkeeping are where the encodings start *)
  Theorem surv_offsets ops :
    prog_ok ops 8 [] = true -> Forall op_ok ops ->
    forall pre off r post, surv ops = pre ++ (off, r) :: post ->
      off = 8 + lenN (flat_map (fun p => enc_rec c (snd p)) pre).
  Proof.
    intros Hp Hok pre off r post H.
    destruct (run_inv_top ops Hp Hok) as (rs & Hsv & _).
    rewrite Hsv in H. apply offs_split in H. rewrite flat_map_snd. exact H.
  Qed.

  (* offsets returned by the writer are those of the bookkeeping: a write returns the current offset *)
  Theorem write_returns_cur r s : snd (w_write c r s) = w_cur s.
  Proof. apply snd_w_write. Qed.

  Theorem write_then_read ops fuel :
    prog_ok ops 8 [] = true -> Forall op_ok ops -> (length (surv ops) < fuel)%nat ->
    r_open (written ops) = Ok 8
    /\ read_all fuel c (written ops) 8 = map (fun p => Ok (snd p)) (surv ops) ++ [Err EOF].
  Proof.
    intros Hp Hok Hfuel. destruct (run_inv_top ops Hp Hok) as (rs & Hsv & Hsz & Hw & _).
    rewrite Hw, Hsv. split.
    - unfold r_open. rewrite parse_file_hdr_ok by exact ctype_ok. reflexivity.
    - rewrite <- (file_hdr_lenN (ctype c)). rewrite read_all_concat.
      + rewrite <- (map_snd_offs rs 8) at 1. rewrite map_map. reflexivity.
      + exact Hsz.
      + rewrite Hsv in Hfuel. rewrite <- (map_snd_offs rs 8), map_length. exact Hfuel.
  Qed.

  Theorem offsets_are_addresses ops :
    prog_ok ops 8 [] = true -> Forall op_ok ops ->
    forall off r, In (off, r) (surv ops) -> read_at c (written ops) off = Ok r.
  Proof.
    intros Hp Hok off r Hin. destruct (run_inv_top ops Hp Hok) as (rs & Hsv & Hsz & Hw & _).
    rewrite Hsv in Hin. apply in_split in Hin. destruct Hin as (pre & post & Hsplit).
    pose proof (offs_split _ _ _ _ _ _ Hsplit) as Hoff.
    assert (Hrs : rs = map snd pre ++ r :: map snd post).
    { rewrite <- (map_snd_offs rs 8), Hsplit, map_app. reflexivity. }
    rewrite Hw, Hrs, encs_app, encs_cons, app_assoc.
    replace off with (lenN (file_hdr (ctype c) ++ encs (map snd pre)))
      by (rewrite lenN_app, file_hdr_lenN; symmetry; exact Hoff).
    apply read_at_one. rewrite Hrs in Hsz. apply Forall_app in Hsz. destruct Hsz as [_ Hsz].
    inversion Hsz; assumption.
  Qed.

  (* skipping = reading and discarding: a mixed program sees the same records at the same positions *)
  Fixpoint mix (prog : list bool) (recs : list (option bytes)) : list (res (option (option bytes))) :=
    match prog, recs with
    | [], _ => []
    | b :: p, r :: rs => Ok (if b then Some r else None) :: mix p rs
    | _ :: _, [] => [Err EOF]
    end.

  Lemma read_mixed_concat prog : forall rs pre, Forall size_ok rs ->
    read_mixed c (pre ++ encs rs) (lenN pre) prog = mix prog rs.
  Proof.
    induction prog as [|b prog IH]; intros rs pre HF; [reflexivity|].
    destruct rs as [|r rs].
    - cbn [encs flat_map]. rewrite app_nil_r. cbn [read_mixed mix].
      destruct b; [rewrite read_next_end|rewrite skip_next_end]; reflexivity.
    - inversion HF as [|r' rs' Hr HF']; subst r' rs'.
      rewrite encs_cons. cbn [read_mixed mix].
      destruct b.
      + rewrite read_next_one by exact Hr. rewrite <- lenN_app, app_assoc. rewrite IH by exact HF'. reflexivity.
      + rewrite skip_next_one by exact Hr. rewrite <- lenN_app, app_assoc. rewrite IH by exact HF'. reflexivity.
  Qed.

  Theorem skip_is_read_discard ops prog :
    prog_ok ops 8 [] = true -> Forall op_ok ops ->
    read_mixed c (written ops) 8 prog = mix prog (map snd (surv ops)).
  Proof.
    intros Hp Hok. destruct (run_inv_top ops Hp Hok) as (rs & Hsv & Hsz & Hw & _).
    rewrite Hw, Hsv, map_snd_offs. rewrite <- (file_hdr_lenN (ctype c)).
    apply read_mixed_concat. exact Hsz.
  Qed.

  (* C12, truncation: a file cut at any length yields exactly the records wholly inside the cut,
     then EOF or unexpected EOF - never anything else *)
  Fixpoint complete_prefix (rs : list (option bytes)) (budget : N) : list (option bytes) :=
    match rs with
    | [] => []
    | r :: rest =>
        let n := lenN (enc_rec c r) in
        if n <=? budget then r :: complete_prefix rest (budget - n) else []
    end.

  Lemma trunc_gen rs : forall fuel pre k, Forall size_ok rs -> (length rs < fuel)%nat ->
    exists e, eofish e
      /\ read_all fuel c (pre ++ firstn k (encs rs)) (lenN pre)
         = map (fun r => Ok r) (complete_prefix rs (N.of_nat k)) ++ [Err e].
  Proof.
    induction rs as [|r rs IH]; intros fuel pre k HF HL; (destruct fuel as [|fuel]; [cbn [length] in HL; lia|]).
    - exists EOF. split; [left; reflexivity|].
      cbn [encs flat_map]. rewrite firstn_nil, app_nil_r. cbn [read_all complete_prefix map app].
      rewrite read_next_end. reflexivity.
    - inversion HF as [|r' rs' Hr HF']; subst r' rs'.
      rewrite encs_cons. cbn [complete_prefix]. cbv zeta.
      destruct (Nat.le_gt_cases (length (enc_rec c r)) k) as [Hle|Hgt].
      + replace (lenN (enc_rec c r) <=? N.of_nat k) with true
          by (symmetry; apply N.leb_le; unfold lenN; lia).
        rewrite firstn_app_long by exact Hle.
        destruct (IH fuel (pre ++ enc_rec c r) (k - length (enc_rec c r))%nat HF') as (e & He & Hrd);
          [cbn [length] in HL; lia|].
        exists e. split; [exact He|].
        cbn [read_all]. rewrite read_next_one by exact Hr.
        rewrite <- lenN_app, app_assoc. rewrite Hrd.
        replace (N.of_nat (k - length (enc_rec c r))) with (N.of_nat k - lenN (enc_rec c r))
          by (unfold lenN; lia).
        reflexivity.
      + replace (lenN (enc_rec c r) <=? N.of_nat k) with false
          by (symmetry; apply N.leb_gt; unfold lenN; lia).
        rewrite firstn_app. replace (k - length (enc_rec c r))%nat with 0%nat by lia.
        cbn [firstn]. rewrite app_nil_r.
        destruct (read_next_cut pre r (firstn k (enc_rec c r)) Hr (pprefix_firstn k _ Hgt)) as (e & He & Hrd).
        exists e. split; [exact He|]. cbn [read_all]. rewrite Hrd. reflexivity.
  Qed.

  Theorem truncation_prefix (rs : list (option bytes)) (n : N) fuel :
    Forall size_ok rs -> 8 <= n ->
    let f := file_hdr (ctype c) ++ flat_map (enc_rec c) rs in
    n <= lenN f -> (length rs < fuel)%nat ->
    exists e, (e = EOF \/ e = UnexpectedEOF)
      /\ read_all fuel c (firstn (N.to_nat n) f) 8
         = map (fun r => Ok r) (complete_prefix rs (n - 8)) ++ [Err e].
  Proof.
    intros HF Hn f Hlen Hfuel. subst f.
    rewrite lenN_app, file_hdr_lenN in Hlen.
    rewrite firstn_app_long by (rewrite file_hdr_len; lia). rewrite file_hdr_len.
    destruct (trunc_gen rs fuel (file_hdr (ctype c)) (N.to_nat n - 8)%nat HF Hfuel) as (e & He & Hrd).
    exists e. split; [exact He|].
    rewrite file_hdr_lenN in Hrd. unfold encs in Hrd. rewrite Hrd.
    replace (N.of_nat (N.to_nat n - 8)) with (n - 8) by lia. reflexivity.
  Qed.

  (* C12, truncation under read/skip programs: whatever mix of ReadNext and SkipNext runs over a cut file, a record
     returned at step i is record i of the written file, and it lies completely inside the cut *)
  Lemma skip_next_cut pre r t : size_ok r -> pprefix t (enc_rec c r) ->
    (exists e, skip_next c (pre ++ t) (lenN pre) = (Err e, lenN pre))
    \/ (exists pos, skip_next c (pre ++ t) (lenN pre) = (Ok tt, pos) /\ lenN (pre ++ t) < pos).
  Proof.
    intros Hs Hp. destruct (enc_rec_shape r Hs) as (u & cs & z & Hu & Hc & He & Hz).
    rewrite He in Hp. apply pprefix_app in Hp. destruct Hp as [Hp | (t' & -> & Hp)].
    - left. destruct (parse_hdr_stream_cut u cs (isnone r) t Hu Hc Hp) as (e & Hee & Hd).
      exists e. unfold skip_next. cbv zeta. rewrite skipn_lenN_app, Hd.
      destruct Hee as [-> | ->]; reflexivity.
    - right. destruct r as [p|]; [|subst z; exfalso; exact (pprefix_nil_r _ Hp)].
      destruct Hz as [Hn Hd]. cbn [isnone].
      exists (lenN pre + lenN (hdr u cs false) + lenN z). split.
      + unfold skip_next. cbv zeta. rewrite skipn_lenN_app.
        rewrite parse_hdr_stream_hdr by assumption. rewrite Hn. reflexivity.
      + pose proof (pprefix_lenN _ _ Hp) as Hlt. rewrite !lenN_app. lia.
  Qed.

  Lemma read_mixed_beyond f pos prog : lenN f <= pos ->
    read_mixed c f pos prog = match prog with [] => [] | _ :: _ => [Err EOF] end.
  Proof.
    intros H. destruct prog as [|b p]; [reflexivity|].
    assert (S : skipn (N.to_nat pos) f = []) by (apply skipn_all2; unfold lenN in H; lia).
    cbn [read_mixed]. unfold read_next, skip_next. cbv zeta. rewrite S.
    destruct b; reflexivity.
  Qed.

  Ltac no_such_entry H i :=
    cbn [nth_error] in H; first [discriminate H | destruct i as [|i]; no_such_entry H i].

  Lemma mixed_cut_gen rs : forall prog pre k i x, Forall size_ok rs ->
    nth_error (read_mixed c (pre ++ firstn k (encs rs)) (lenN pre) prog) i = Some (Ok (Some x)) ->
    nth_error rs i = Some x /\ (length (encs (firstn (S i) rs)) <= k)%nat.
  Proof.
    induction rs as [|r rs IH]; intros prog pre k i x HF H.
    - exfalso. cbn [encs flat_map] in H. rewrite firstn_nil, app_nil_r in H.
      destruct prog as [|b p]; [destruct i; discriminate H|].
      cbn [read_mixed] in H.
      destruct b; [rewrite read_next_end in H|rewrite skip_next_end in H]; no_such_entry H i.
    - inversion HF as [|r' rs' Hr HF']; subst r' rs'.
      destruct prog as [|b p]; [destruct i; discriminate H|].
      rewrite encs_cons in H.
      destruct (Nat.le_gt_cases (length (enc_rec c r)) k) as [Hle|Hgt].
      + rewrite firstn_app_long in H by exact Hle. cbn [read_mixed] in H.
        destruct b.
        * rewrite read_next_one in H by exact Hr. rewrite <- lenN_app, app_assoc in H.
          destruct i as [|i].
          -- cbn [nth_error] in H. inversion H; subst x. split; [reflexivity|].
             cbn [firstn]. rewrite encs_cons. cbn [encs flat_map]. rewrite app_nil_r. exact Hle.
          -- cbn [nth_error] in H. apply IH in H; [|exact HF']. destruct H as [H1 H2].
             split; [exact H1|].
             change (firstn (S (S i)) (r :: rs)) with (r :: firstn (S i) rs).
             rewrite encs_cons, app_length. lia.
        * rewrite skip_next_one in H by exact Hr. rewrite <- lenN_app, app_assoc in H.
          destruct i as [|i]; [discriminate H|].
          cbn [nth_error] in H. apply IH in H; [|exact HF']. destruct H as [H1 H2].
          split; [exact H1|].
          change (firstn (S (S i)) (r :: rs)) with (r :: firstn (S i) rs).
          rewrite encs_cons, app_length. lia.
      + exfalso. rewrite firstn_app in H. replace (k - length (enc_rec c r))%nat with 0%nat in H by lia.
        cbn [firstn] in H. rewrite app_nil_r in H. cbn [read_mixed] in H.
        destruct b.
        * destruct (read_next_cut pre r (firstn k (enc_rec c r)) Hr (pprefix_firstn k _ Hgt)) as (e & _ & Hrd).
          rewrite Hrd in H. no_such_entry H i.
        * destruct (skip_next_cut pre r (firstn k (enc_rec c r)) Hr (pprefix_firstn k _ Hgt)) as [(e & Hsk)|(pos & Hsk & Hpos)].
          -- rewrite Hsk in H. no_such_entry H i.
          -- rewrite Hsk in H. rewrite read_mixed_beyond in H by lia.
             destruct p as [|b' p']; no_such_entry H i.
  Qed.

  Theorem truncation_mixed (rs : list (option bytes)) (n : N) (prog : list bool) :
    Forall size_ok rs -> 8 <= n ->
    let f := file_hdr (ctype c) ++ flat_map (enc_rec c) rs in
    n <= lenN f ->
    forall i x, nth_error (read_mixed c (firstn (N.to_nat n) f) 8 prog) i = Some (Ok (Some x)) ->
      nth_error rs i = Some x /\ 8 + lenN (flat_map (enc_rec c) (firstn (S i) rs)) <= n.
  Proof.
    intros HF Hn f Hlen i x H. subst f.
    rewrite lenN_app, file_hdr_lenN in Hlen.
    rewrite firstn_app_long in H by (rewrite file_hdr_len; lia). rewrite file_hdr_len in H.
    pose proof (mixed_cut_gen rs prog (file_hdr (ctype c)) (N.to_nat n - 8)%nat i x HF) as G.
    rewrite file_hdr_lenN in G. unfold encs in G. apply G in H. destruct H as [H1 H2].
    split; [exact H1|]. unfold lenN. lia.
  Qed.

  Lemma encs_app_cons pre r post :
    flat_map (enc_rec c) (pre ++ r :: post)
    = flat_map (enc_rec c) pre ++ enc_rec c r ++ flat_map (enc_rec c) post.
  Proof. rewrite flat_map_app. reflexivity. Qed.

  Theorem truncation_read_at (rs : list (option bytes)) (n : N) pre r post :
    Forall size_ok rs -> rs = pre ++ r :: post ->
    let f := file_hdr (ctype c) ++ flat_map (enc_rec c) rs in
    let off := 8 + lenN (flat_map (enc_rec c) pre) in
    n <= lenN f ->
    (off + lenN (enc_rec c r) <= n -> read_at c (firstn (N.to_nat n) f) off = Ok r)
    /\ (n < off + lenN (enc_rec c r) -> exists e, read_at c (firstn (N.to_nat n) f) off = Err e).
  Proof.
    intros HF Hrs f off Hlen. subst f off rs.
    assert (Hr : size_ok r).
    { apply Forall_app in HF. destruct HF as [_ HF]. inversion HF; assumption. }
    rewrite encs_app_cons in *.
    rewrite !lenN_app, file_hdr_lenN in Hlen.
    set (P := file_hdr (ctype c) ++ flat_map (enc_rec c) pre).
    assert (HP : 8 + lenN (flat_map (enc_rec c) pre) = lenN P)
      by (unfold P; rewrite lenN_app, file_hdr_lenN; reflexivity).
    assert (HPn : length P = N.to_nat (lenN P)) by (rewrite to_nat_lenN; reflexivity).
    rewrite HP in *. rewrite app_assoc. fold P.
    split.
    - intro Hn. rewrite firstn_app_long by lia. rewrite firstn_app_long by (unfold lenN in *; lia).
      apply read_at_one. exact Hr.
    - intro Hn. destruct (N.lt_ge_cases n (lenN P)) as [Hlt|Hge].
      + exists Other. unfold read_at.
        replace (lenN (firstn (N.to_nat n) (P ++ enc_rec c r ++ flat_map (enc_rec c) post)) <? lenN P) with true;
          [reflexivity|].
        symmetry. apply N.ltb_lt. unfold lenN in *. rewrite firstn_length. lia.
      + rewrite firstn_app_long by lia. rewrite firstn_app.
        replace (N.to_nat n - length P - length (enc_rec c r))%nat with 0%nat by (unfold lenN in *; lia).
        cbn [firstn]. rewrite app_nil_r.
        apply (read_at_cut P r); [exact Hr|]. apply pprefix_firstn. unfold lenN in *. lia.
  Qed.
End Facts.

(* non-vacuity: a program with a nil record, an empty record, a marker byte and a seek-back *)
Definition id_codec : codec := mkCodec 0 (fun x => x) (fun x => Ok x).
Example write_read_example :
  let ops := [WWrite (Some [1; 2; 0x91]); WWrite None; WWrite (Some []); WSeek 21; WWrite (Some [7])] in
  prog_ok id_codec ops 8 [] = true
  /\ surv id_codec ops = [(8, Some [1; 2; 0x91]); (21, Some [7])]
  /\ read_all 5 id_codec (written id_codec ops) 8 = [Ok (Some [1; 2; 0x91]); Ok (Some [7]); Err EOF].
Proof. vm_compute. repeat split; reflexivity. Qed.

Print Assumptions written_is_concat.
Print Assumptions surv_offsets.
Print Assumptions write_returns_cur.
Print Assumptions write_then_read.
Print Assumptions offsets_are_addresses.
Print Assumptions skip_is_read_discard.
Print Assumptions truncation_prefix.
Print Assumptions truncation_read_at.
Print Assumptions write_read_example.

(* non-vacuity of truncation_mixed: a file of three records (the middle one nil) cut inside the payload of the third;
   skip, read, skip, read: the nil record is returned at step 1, the skip of the cut record succeeds (it only seeks),
   nothing is returned after it *)
Example truncation_mixed_example :
  let rs := [Some [1; 2; 3]; None; Some [9; 9; 9; 9]] in
  let f := file_hdr 0 ++ flat_map (enc_rec id_codec) rs in
  lenN f = 47 /\
  read_mixed id_codec (firstn 45 f) 8 [false; true; false; true] = [Ok None; Ok (Some None); Ok None; Err EOF]
  /\ read_mixed id_codec (firstn 45 f) 8 [true; false; true] = [Ok (Some (Some [1; 2; 3])); Ok None; Err UnexpectedEOF].
Proof. vm_compute. repeat split; reflexivity. Qed.
Print Assumptions truncation_mixed.
