(* RecordIO v4 on-disk format (recordio/file_writer.go, common_reader.go).
   The compressor is a parameter: [codec] carries the compression type of the file header and the
   compress / decompress functions (snappy, gzip, lzw in the code; oracle tables in the runner). *)
From GoSST Require Import Base.Bytes Base.Varint Base.Crc.
Local Open Scope N_scope.

Definition magic : N := 0x130691.
Definition marker : bytes := [0x91; 0x8d; 0x4c].
Definition file_header_size : N := 8.
Definition max_header_size : N := 36.     (* RecordHeaderV4MaxSizeBytes *)
Definition current_version : N := 4.

Record codec := mkCodec {
  ctype : N;                        (* 0 none, 1 gzip, 2 snappy, 3 lzw *)
  comp : bytes -> bytes;
  decomp : bytes -> res bytes
}.
Definition compressed (c : codec) : bool := negb (ctype c =? 0).

Definition lenN (l : bytes) : N := N.of_nat (length l).

Definition le32 (x : N) : bytes :=
  [N.land x 255; N.land (N.shiftr x 8) 255; N.land (N.shiftr x 16) 255; N.land (N.shiftr x 24) 255].

Definition file_hdr (ct : N) : bytes := le32 current_version ++ le32 ct.

(* fillRecordHeaderV4 *)
Definition hdr_prefix (usz csz : N) (isnil : bool) : bytes :=
  uv_enc magic ++ [if isnil then 1 else 0] ++ uv_enc usz ++ uv_enc csz.
Definition hdr (usz csz : N) (isnil : bool) : bytes :=
  let pre := hdr_prefix usz csz isnil in pre ++ uv_enc (crc32c pre).

(* FileWriter.Write: a record is nil (None) or a byte string.  With a compressor the payload is the
   compressed form and csize its length - for nil records too, although no payload is written. *)
Definition enc_rec (c : codec) (r : option bytes) : bytes :=
  match r with
  | None => if compressed c then hdr 0 (lenN (comp c [])) true else hdr 0 0 true
  | Some p =>
      if compressed c then let z := comp c p in hdr (lenN p) (lenN z) false ++ z
      else hdr (lenN p) 0 false ++ p
  end.

Definition sub (l : bytes) (off len : N) : bytes := firstn (N.to_nat len) (skipn (N.to_nat off) l).

(* readFileHeaderFromBuffer on the first 8 bytes: version in 1..4, compression type <= 3 *)
Definition rd32 (l : bytes) : N :=
  match l with
  | [a; b; c; d] => a + 256 * b + 65536 * c + 16777216 * d
  | _ => 0
  end.
Definition parse_file_hdr (f : bytes) : res (N * N) :=
  let h := sub f 0 8 in
  if lenN h <? 8 then Err (if lenN h =? 0 then EOF else UnexpectedEOF)
  else
    let v := rd32 (sub h 0 4) in
    let ct := rd32 (sub h 4 4) in
    if (4 <? v) || (v <? 1) then Err Rejected
    else if 3 <? ct then Err Rejected
    else Ok (v, ct).

(* readRecordHeaderV4 over a byte list (the bytes available to the byte reader).
   [cap] is the capacity of the checksum reader's cache (36): reading byte number cap+1 fails with
   "out of range" (Other) unless the source ended first.
   Returns usize, csize, nil flag, header length. *)
Definition take_uv (l : bytes) : res (N * bytes) := uv_dec l.

Definition parse_hdr (l : bytes) : res (N * N * bool * N) :=
  match uv_dec_min l with
  | Err e => Err e
  | Ok (m, l1) =>
    if negb (m =? magic) then Err MagicMismatch else
    match l1 with
    | [] => Err EOF
    | nb :: l2 =>
      match uv_dec_min l2 with
      | Err e => Err e
      | Ok (usz, l3) =>
        match uv_dec_min l3 with
        | Err e => Err e
        | Ok (csz, l4) =>
          let consumed := (length l - length l4)%nat in
          let actual := crc32c (firstn consumed l) in
          match uv_dec_min l4 with
          | Err e => Err e
          | Ok (expected, l5) =>
            if actual =? expected then Ok (usz, csz, nb =? 1, N.of_nat (length l - length l5)%nat)
            else Err HeaderChecksum
          end
        end
      end
    end
  end.

(* the byte source of the sequential reader is the rest of the file; the checksum reader refuses to
   cache more than 36 bytes: model by parsing the first 36 bytes and mapping a premature end of that
   window (when the file itself continues) to the out-of-range error *)
Definition parse_hdr_stream (rest : bytes) : res (N * N * bool * N) :=
  let win := firstn 36 rest in
  match parse_hdr win with
  | Err EOF => if (36 <=? lenN rest) then Err Other else Err EOF
  | Err UnexpectedEOF => if (36 <=? lenN rest) then Err Other else Err UnexpectedEOF
  | r => r
  end.

Definition payload_len (c : codec) (usz csz : N) : N := if compressed c then csz else usz.

Definition decode_payload (c : codec) (p : bytes) : res (option bytes) :=
  if compressed c then
    match decomp c p with Ok d => Ok (Some d) | Err e => Err e end
  else Ok (Some p).
