(* C12: altering a byte of a record header makes reading that record fail.  Proved, without any
   probabilistic assumption: (1) every alteration that keeps the varint framing (uvarint injectivity
   and the CRC burst lemma), (2) EVERY alteration of a byte of the stored checksum varint, whatever
   follows the header (canonicity of the minimal uvarint reader), and (3) the reader accepts as a record
   header only byte strings the writer's [hdr] produces.  The alteration that the parser without the
   minimal-encoding check accepted (F-C12a) is shown rejected. *)
From GoSST Require Import Base.Bytes Base.Varint Base.VarintFacts Base.Crc Base.CrcFacts.
From GoSST Require Import RecordIO.Format RecordIO.FormatFacts RecordIO.SeqReader RecordIO.MmapReader.
From Coq Require Import Lia.
Local Open Scope N_scope.

Definition alter (l : bytes) (j : nat) (v : N) : bytes := firstn j l ++ v :: skipn (S j) l.

(* the alteration keeps the continuation bit of the byte (so varint boundaries stay where they are) *)
Definition same_framing (old v : N) : Prop := (old <? 128) = (v <? 128).

(* ---- bit-level facts ---- *)
(* land127_small, group_low, group_high and uv_val now live in Base/VarintFacts.v *)
Lemma mod128_cases a : a < 256 -> a mod 128 = if a <? 128 then a else a - 128.
Proof.
  intro H. destruct (N.ltb_spec a 128) as [Hs|Hb].
  - apply N.mod_small. exact Hs.
  - replace a with ((a - 128) + 1 * 128) at 1 by lia. rewrite N.mod_add by lia.
    apply N.mod_small. lia.
Qed.

Lemma byte_from_low7 a b :
  a < 256 -> b < 256 -> (a <? 128) = (b <? 128) -> N.land a 127 = N.land b 127 -> a = b.
Proof.
  intros Ha Hb Hf E. change 127 with (N.ones 7) in E. rewrite !N.land_ones in E.
  change (2 ^ 7) with 128 in E. rewrite (mod128_cases a Ha), (mod128_cases b Hb) in E.
  rewrite <- Hf in E.
  destruct (N.ltb_spec a 128) as [Hs|Hs]; symmetry in Hf.
  - exact E.
  - apply N.ltb_ge in Hf. lia.
Qed.

(* ---- framing of a uvarint byte string (its value uv_val is in Base/VarintFacts.v) ---- *)
Fixpoint framed (e : bytes) : bool :=
  match e with
  | [] => false
  | b :: t => if b <? 128 then (match t with [] => true | _ :: _ => false end) else framed t
  end.

Lemma dec_framed_go e rest : framed e = true -> forall fuel i acc s,
  match uv_dec_go fuel i acc s (e ++ rest) with
  | Ok (v, l) => v = N.lor acc (N.shiftl (uv_val e) s) /\ l = rest
  | Err _ => True
  end.
Proof.
  induction e as [|b t IH]; intros Hf fuel i acc s; [discriminate|].
  destruct fuel as [|f]; [exact I|].
  cbn [framed] in Hf. cbn [app uv_dec_go].
  destruct (N.ltb_spec b 128) as [Hb|Hb].
  - destruct t as [|c t]; [|discriminate]. destruct (andb (i =? 9) (1 <? b)); [exact I|].
    cbn [app uv_val]. split; [|reflexivity].
    rewrite land127_small by exact Hb. rewrite N.shiftl_0_l, N.lor_0_r. reflexivity.
  - specialize (IH Hf f (i + 1) (N.lor acc (N.shiftl (N.land b 127) s)) (s + 7)).
    destruct (uv_dec_go f (i + 1) (N.lor acc (N.shiftl (N.land b 127) s)) (s + 7) (t ++ rest))
      as [[v l]|er]; [|exact I].
    destruct IH as [-> ->]. split; [|reflexivity]. cbn [uv_val].
    rewrite N.shiftl_lor, N.shiftl_shiftl, N.lor_assoc. replace (7 + s) with (s + 7) by lia. reflexivity.
Qed.

Lemma dec_framed e rest v l :
  framed e = true -> uv_dec (e ++ rest) = Ok (v, l) -> v = uv_val e /\ l = rest.
Proof.
  intros Hf H. pose proof (dec_framed_go e rest Hf 10%nat 0 0 0) as G.
  unfold uv_dec in H. rewrite H in G. rewrite N.lor_0_l, N.shiftl_0_r in G. exact G.
Qed.

Lemma dec_min_framed e rest v l :
  framed e = true -> uv_dec_min (e ++ rest) = Ok (v, l) -> v = uv_val e /\ l = rest.
Proof. intros Hf H. apply uv_dec_min_dec in H. revert H. apply dec_framed. exact Hf. Qed.

Lemma enc_framed : forall fuel x, (0 < fuel)%nat -> x < 2 ^ (7 * N.of_nat fuel) ->
  framed (uv_enc_fuel fuel x) = true.
Proof.
  induction fuel as [|f IH]; intros x Hpos Hx; [lia|].
  cbn [uv_enc_fuel]. destruct (N.ltb_spec x 128) as [Hs|Hb].
  - cbn [framed]. replace (x <? 128) with true by (symmetry; apply N.ltb_lt; exact Hs). reflexivity.
  - cbn [framed].
    replace (N.lor (N.land x 127) 128 <? 128) with false by (symmetry; apply N.ltb_ge; apply low7_or128_ge).
    destruct f as [|f].
    { change (2 ^ (7 * N.of_nat 1)) with 128 in Hx. lia. }
    apply IH; [lia|]. apply shiftr7_lt.
    replace (7 * N.of_nat (S f) + 7) with (7 * N.of_nat (S (S f))) by lia. exact Hx.
Qed.

Lemma uv_enc_framed x : x < 2 ^ 64 -> framed (uv_enc x) = true.
Proof.
  intro H. apply enc_framed; [lia|]. change (2 ^ (7 * N.of_nat 10)) with (2 ^ 64 * 64).
  lia.
Qed.

Lemma uv_val_enc x : x < 2 ^ 64 -> uv_val (uv_enc x) = x.
Proof.
  intro H. pose proof (uv_roundtrip x [] H) as R.
  apply dec_framed in R; [|apply uv_enc_framed; exact H]. destruct R as [R _]. symmetry. exact R.
Qed.

(* ---- alteration of one byte ---- *)
Lemma alter_nil j v : alter [] j v = [v].
Proof. unfold alter. destruct j; reflexivity. Qed.
Lemma alter_0 b t v : alter (b :: t) 0 v = v :: t.
Proof. reflexivity. Qed.
Lemma alter_S b t j v : alter (b :: t) (S j) v = b :: alter t j v.
Proof. reflexivity. Qed.

Lemma alter_length l j v : (j < length l)%nat -> length (alter l j v) = length l.
Proof.
  revert j. induction l as [|b t IH]; intros j Hj; cbn [length] in *; [lia|].
  destruct j as [|j]; [reflexivity|]. rewrite alter_S. cbn [length]. rewrite IH by lia. reflexivity.
Qed.

Lemma alter_split l j v : (j < length l)%nat ->
  alter l j v = firstn j l ++ v :: skipn (S j) l /\ l = firstn j l ++ nth j l 0 :: skipn (S j) l.
Proof.
  intro Hj. split; [reflexivity|]. revert j Hj.
  induction l as [|b t IH]; intros j Hj; cbn [length] in *; [lia|].
  destruct j as [|j]; [reflexivity|]. cbn [firstn nth skipn app]. f_equal. apply IH. lia.
Qed.

(* where the altered index falls in a concatenation *)
Lemma alter_app a b j v : (j < length (a ++ b))%nat ->
  ((j < length a)%nat /\ alter (a ++ b) j v = alter a j v ++ b /\ nth j (a ++ b) 0 = nth j a 0)
  \/ (exists j', j = (length a + j')%nat /\ (j' < length b)%nat
        /\ alter (a ++ b) j v = a ++ alter b j' v /\ nth j (a ++ b) 0 = nth j' b 0).
Proof.
  revert j. induction a as [|x a IH]; intros j Hj.
  - right. exists j. cbn [app length] in *. repeat split; try lia. 
  - destruct j as [|j].
    + left. cbn [length app]. repeat split; lia.
    + cbn [app length] in Hj. destruct (IH j) as [(H1 & H2 & H3)|(j' & H1 & H2 & H3 & H4)]; [lia| |].
      * left. cbn [app length nth]. rewrite !alter_S, H2. repeat split; [lia|exact H3].
      * right. exists j'. cbn [app length nth]. rewrite alter_S, H3. repeat split; [lia|lia|exact H4].
Qed.

Lemma alter_framed e j v : framed e = true -> (j < length e)%nat ->
  same_framing (nth j e 0) v -> framed (alter e j v) = true.
Proof.
  revert j. induction e as [|b t IH]; intros j Hf Hj Hs; [discriminate|].
  destruct j as [|j].
  - rewrite alter_0. cbn [nth] in Hs. unfold same_framing in Hs. cbn [framed] in *.
    rewrite <- Hs. exact Hf.
  - rewrite alter_S. cbn [nth length] in *. cbn [framed] in *.
    destruct (b <? 128).
    + destruct t; [cbn [length] in Hj; lia|discriminate].
    + apply IH; [exact Hf|lia|exact Hs].
Qed.

Lemma alter_val_inj e j v : (j < length e)%nat -> v < 256 -> nth j e 0 < 256 ->
  same_framing (nth j e 0) v -> uv_val (alter e j v) = uv_val e -> v = nth j e 0.
Proof.
  revert j. induction e as [|b t IH]; intros j Hj Hv Hn Hs E; cbn [length] in Hj; [lia|].
  destruct j as [|j].
  - rewrite alter_0 in E. cbn [nth uv_val] in *.
    apply (f_equal (fun z => N.land z 127)) in E. rewrite !group_low in E.
    apply byte_from_low7; try assumption. symmetry. exact Hs.
  - rewrite alter_S in E. cbn [nth uv_val] in *.
    apply (f_equal (fun z => N.shiftr z 7)) in E. rewrite !group_high in E.
    apply IH; try assumption. lia.
Qed.

Lemma crc_alter l j v : Forall (fun x => x < 256) l -> (j < length l)%nat -> v < 256 ->
  v <> nth j l 0 -> crc32c (alter l j v) <> crc32c l.
Proof.
  intros Hl Hj Hv Hne. destruct (alter_split l j v Hj) as [E1 E2].
  rewrite E1. rewrite E2 at 3.
  assert (Hn : nth j l 0 < 256).
  { rewrite Forall_forall in Hl. apply Hl. apply nth_In. exact Hj. }
  rewrite E2 in Hl. apply Forall_app in Hl. destruct Hl as [Hp Hq].
  inversion Hq as [|? ? _ Hpost]; subst.
  apply crc32c_one_byte; assumption.
Qed.

(* ---- parsing a header whose four varints are well framed ---- *)
Lemma firstn_consumed (a b : bytes) : firstn (length (a ++ b) - length b) (a ++ b) = a.
Proof.
  rewrite app_length. replace (length a + length b - length b)%nat with (length a) by lia.
  rewrite firstn_app, Nat.sub_diag, firstn_all. cbn [firstn]. apply app_nil_r.
Qed.

Ltac norm_app := repeat (rewrite <- app_assoc || rewrite <- app_comm_cons); cbn [app].
Ltac norm_app_in H := repeat (rewrite <- app_assoc in H || rewrite <- app_comm_cons in H); cbn [app] in H.

Lemma parse_framed m nb eu ec ek rest r :
  framed m = true -> framed eu = true -> framed ec = true -> framed ek = true ->
  parse_hdr (m ++ nb :: eu ++ ec ++ ek ++ rest) = Ok r ->
  uv_val m = magic /\ crc32c (m ++ nb :: eu ++ ec) = uv_val ek.
Proof.
  intros Hm Hu Hc Hk. unfold parse_hdr.
  destruct (uv_dec_min (m ++ nb :: eu ++ ec ++ ek ++ rest)) as [[mv l1]|er] eqn:D1; [|discriminate].
  apply dec_min_framed in D1; [|exact Hm]. destruct D1 as [-> ->].
  destruct (N.eqb_spec (uv_val m) magic) as [Emag|Emag]; cbn [negb]; [|discriminate].
  destruct (uv_dec_min (eu ++ ec ++ ek ++ rest)) as [[uv l3]|er] eqn:D2; [|discriminate].
  apply dec_min_framed in D2; [|exact Hu]. destruct D2 as [-> ->].
  destruct (uv_dec_min (ec ++ ek ++ rest)) as [[cv l4]|er] eqn:D3; [|discriminate].
  apply dec_min_framed in D3; [|exact Hc]. destruct D3 as [-> ->].
  destruct (uv_dec_min (ek ++ rest)) as [[kv l5]|er] eqn:D4; [|discriminate].
  apply dec_min_framed in D4; [|exact Hk]. destruct D4 as [-> ->].
  replace (m ++ nb :: eu ++ ec ++ ek ++ rest) with ((m ++ nb :: eu ++ ec) ++ ek ++ rest)
    by (norm_app; reflexivity).
  rewrite firstn_consumed.
  destruct (N.eqb_spec (crc32c (m ++ nb :: eu ++ ec)) (uv_val ek)) as [Ecrc|Ecrc]; [|discriminate].
  intros _. split; assumption.
Qed.

Lemma enc_magic : uv_enc magic = marker.
Proof. vm_compute. reflexivity. Qed.

Lemma hdr_shape usz csz isnil :
  hdr usz csz isnil =
    marker ++ [if isnil then 1 else 0] ++ uv_enc usz ++ uv_enc csz
      ++ uv_enc (crc32c (marker ++ (if isnil then 1 else 0) :: uv_enc usz ++ uv_enc csz)).
Proof.
  unfold hdr, hdr_prefix. rewrite enc_magic. rewrite <- !app_assoc. reflexivity.
Qed.

Lemma header_alteration_not_ok usz csz isnil rest j v r :
  usz < 2 ^ 64 -> csz < 2 ^ 64 ->
  (j < length (hdr usz csz isnil))%nat -> v < 256 ->
  v <> nth j (hdr usz csz isnil) 0 ->
  (j = 3%nat \/ same_framing (nth j (hdr usz csz isnil) 0) v) ->
  parse_hdr (alter (hdr usz csz isnil) j v ++ rest) <> Ok r.
Proof.
  intros Hu Hc Hj Hv Hne Hfr HP.
  pose proof (hdr_bytes usz csz isnil) as HB.
  rewrite hdr_shape in *.
  set (nbv := if isnil then 1 else 0) in *.
  set (eu := uv_enc usz) in *. set (ec := uv_enc csz) in *.
  set (pre := marker ++ nbv :: eu ++ ec) in *.
  assert (Fm : framed marker = true) by reflexivity.
  assert (Fu : framed eu = true) by (apply uv_enc_framed; exact Hu).
  assert (Fc : framed ec = true) by (apply uv_enc_framed; exact Hc).
  assert (Bpre : Forall (fun x => x < 256) pre).
  { replace (marker ++ [nbv] ++ eu ++ ec ++ uv_enc (crc32c pre)) with (pre ++ uv_enc (crc32c pre)) in HB
      by (unfold pre; norm_app; reflexivity).
    apply Forall_app in HB. apply HB. }
  assert (Hk : crc32c pre < 2 ^ 64).
  { pose proof (crc32c_lt pre Bpre) as L. change (2 ^ 64) with (2 ^ 32 * 2 ^ 32). lia. }
  set (ek := uv_enc (crc32c pre)) in *.
  assert (Fk : framed ek = true) by (apply uv_enc_framed; exact Hk).
  assert (Vk : uv_val ek = crc32c pre) by (apply uv_val_enc; exact Hk).
  assert (Bm : Forall (fun x => x < 256) marker /\ Forall (fun x => x < 256) [nbv]
               /\ Forall (fun x => x < 256) eu /\ Forall (fun x => x < 256) ec
               /\ Forall (fun x => x < 256) ek).
  { rewrite !Forall_app in HB. tauto. }
  destruct Bm as (Bm & Bn & Bu & Bc & Bk).
  assert (Nth : forall l k, Forall (fun x => x < 256) l -> (k < length l)%nat -> nth k l 0 < 256).
  { intros l k Hl Hk'. rewrite Forall_forall in Hl. apply Hl. apply nth_In. exact Hk'. }
  destruct (alter_app marker ([nbv] ++ eu ++ ec ++ ek) j v Hj)
    as [(J1 & A1 & N1)|(j1 & J1 & L1 & A1 & N1)]; rewrite A1 in HP; rewrite N1 in Hne, Hfr; clear A1 N1.
  { (* a marker byte *)
    destruct Hfr as [->|Hfr]; [cbn [length marker] in J1; lia|].
    norm_app_in HP.
    apply parse_framed in HP; try assumption; [|apply alter_framed; assumption].
    destruct HP as [HP _]. apply Hne.
    apply alter_val_inj; [exact J1|exact Hv|apply Nth; assumption|exact Hfr|]. rewrite HP. reflexivity. }
  assert (J3 : j = 3%nat -> j1 = 0%nat) by (cbn [length marker] in J1; lia).
  destruct (alter_app [nbv] (eu ++ ec ++ ek) j1 v L1)
    as [(J2 & A2 & N2)|(j2 & J2 & L2 & A2 & N2)]; rewrite A2 in HP; rewrite N2 in Hne, Hfr; clear A2 N2.
  { (* the nil flag *)
    cbn [length] in J2. assert (j1 = 0%nat) by lia. subst j1.
    cbn [nth] in Hne. rewrite alter_0 in HP. norm_app_in HP.
    apply parse_framed in HP; try assumption. destruct HP as [_ HP].
    rewrite Vk in HP. unfold pre in HP. revert HP.
    apply crc32c_one_byte; try assumption.
    - apply Forall_app. split; assumption.
    - inversion Bn; assumption. }
  assert (Hfr' : same_framing (nth j2 (eu ++ ec ++ ek) 0) v).
  { destruct Hfr as [E|Hfr]; [|exact Hfr]. apply J3 in E. cbn [length] in J2. lia. }
  clear Hfr J3.
  destruct (alter_app eu (ec ++ ek) j2 v L2)
    as [(J3 & A3 & N3)|(j3 & J3 & L3 & A3 & N3)]; rewrite A3 in HP; rewrite N3 in Hne, Hfr'; clear A3 N3.
  { (* a byte of the uncompressed size *)
    norm_app_in HP.
    apply parse_framed in HP; try assumption; [|apply alter_framed; assumption].
    destruct HP as [_ HP]. rewrite Vk in HP. revert HP.
    destruct (alter_split eu j2 v J3) as [E1 E2]. unfold pre. rewrite E1. rewrite E2 at 3.
    rewrite E2 in Bu. apply Forall_app in Bu. destruct Bu as [Bu1 Bu2]. inversion Bu2 as [|? ? Bb Bu3]; subst.
    replace (marker ++ nbv :: (firstn j2 eu ++ v :: skipn (S j2) eu) ++ ec)
      with ((marker ++ nbv :: firstn j2 eu) ++ v :: skipn (S j2) eu ++ ec)
      by (norm_app; reflexivity).
    replace (marker ++ nbv :: (firstn j2 eu ++ nth j2 eu 0 :: skipn (S j2) eu) ++ ec)
      with ((marker ++ nbv :: firstn j2 eu) ++ nth j2 eu 0 :: skipn (S j2) eu ++ ec)
      by (norm_app; reflexivity).
    apply crc32c_one_byte; try assumption.
    - apply Forall_app. split; [assumption|]. constructor; [inversion Bn; assumption|assumption].
    - apply Forall_app. split; assumption. }
  destruct (alter_app ec ek j3 v L3)
    as [(J4 & A4 & N4)|(j4 & J4 & L4 & A4 & N4)]; rewrite A4 in HP; rewrite N4 in Hne, Hfr'; clear A4 N4.
  { (* a byte of the compressed size *)
    norm_app_in HP.
    apply parse_framed in HP; try assumption; [|apply alter_framed; assumption].
    destruct HP as [_ HP]. rewrite Vk in HP. revert HP.
    destruct (alter_split ec j3 v J4) as [E1 E2]. unfold pre. rewrite E1. rewrite E2 at 3.
    rewrite E2 in Bc. apply Forall_app in Bc. destruct Bc as [Bc1 Bc2]. inversion Bc2 as [|? ? Bb Bc3]; subst.
    replace (marker ++ nbv :: eu ++ firstn j3 ec ++ v :: skipn (S j3) ec)
      with ((marker ++ nbv :: eu ++ firstn j3 ec) ++ v :: skipn (S j3) ec)
      by (norm_app; reflexivity).
    replace (marker ++ nbv :: eu ++ firstn j3 ec ++ nth j3 ec 0 :: skipn (S j3) ec)
      with ((marker ++ nbv :: eu ++ firstn j3 ec) ++ nth j3 ec 0 :: skipn (S j3) ec)
      by (norm_app; reflexivity).
    apply crc32c_one_byte; try assumption.
    apply Forall_app. split; [assumption|]. constructor; [inversion Bn; assumption|].
    apply Forall_app. split; assumption. }
  (* a byte of the stored checksum *)
  norm_app_in HP.
  apply parse_framed in HP; try assumption; [|apply alter_framed; assumption].
  destruct HP as [_ HP]. fold pre in HP. apply Hne.
  apply alter_val_inj; try assumption; [apply Nth; assumption|]. rewrite <- HP. symmetry. exact Vk.
Qed.

(* index 3 is the nil flag (after the three marker bytes): a raw byte, any alteration allowed *)
Theorem header_byte_alteration_detected usz csz isnil rest j v :
  usz < 2 ^ 64 -> csz < 2 ^ 64 ->
  (j < length (hdr usz csz isnil))%nat -> v < 256 ->
  v <> nth j (hdr usz csz isnil) 0 ->
  (j = 3%nat \/ same_framing (nth j (hdr usz csz isnil) 0) v) ->
  exists e, parse_hdr (alter (hdr usz csz isnil) j v ++ rest) = Err e.
Proof.
  intros Hu Hc Hj Hv Hne Hfr.
  destruct (parse_hdr (alter (hdr usz csz isnil) j v ++ rest)) as [r|e] eqn:E.
  - exfalso. revert E. apply header_alteration_not_ok; assumption.
  - exists e. reflexivity.
Qed.

(* the 36-byte window of the readers contains the whole (altered) header *)
Lemma window_altered usz csz isnil tail j v :
  usz < 2 ^ 64 -> csz < 2 ^ 64 -> (j < length (hdr usz csz isnil))%nat ->
  firstn 36 (alter (hdr usz csz isnil) j v ++ tail)
  = alter (hdr usz csz isnil) j v ++ firstn (36 - length (hdr usz csz isnil)) tail.
Proof.
  intros Hu Hc Hj. pose proof (hdr_len usz csz isnil Hu Hc) as HL.
  rewrite firstn_app, alter_length by exact Hj.
  rewrite firstn_all2 by (rewrite alter_length by exact Hj; lia). reflexivity.
Qed.

Lemma skip_prefix (pre l : bytes) : skipn (N.to_nat (lenN pre)) (pre ++ l) = l.
Proof.
  unfold lenN. rewrite Nat2N.id, skipn_app, skipn_all, Nat.sub_diag. reflexivity.
Qed.

Lemma parse_hdr_stream_err l e : parse_hdr (firstn 36 l) = Err e -> exists e', parse_hdr_stream l = Err e'.
Proof.
  intro H. unfold parse_hdr_stream. rewrite H.
  destruct e; try (eexists; reflexivity); destruct (36 <=? lenN l); eexists; reflexivity.
Qed.

(* both readers: the record with the altered header is not returned *)
Corollary altered_header_read_next (c : codec) pre usz csz isnil tail j v :
  usz < 2 ^ 64 -> csz < 2 ^ 64 ->
  (j < length (hdr usz csz isnil))%nat -> v < 256 ->
  v <> nth j (hdr usz csz isnil) 0 ->
  (j = 3%nat \/ same_framing (nth j (hdr usz csz isnil) 0) v) ->
  exists e, fst (read_next c (pre ++ alter (hdr usz csz isnil) j v ++ tail) (lenN pre)) = Err e.
Proof.
  intros Hu Hc Hj Hv Hne Hfr. unfold read_next. rewrite skip_prefix.
  destruct (header_byte_alteration_detected usz csz isnil
              (firstn (36 - length (hdr usz csz isnil)) tail) j v Hu Hc Hj Hv Hne Hfr) as [e He].
  rewrite <- window_altered in He by assumption.
  destruct (parse_hdr_stream_err _ _ He) as [e' He']. rewrite He'.
  destruct e'; try (eexists; reflexivity).
  destruct (zero_tail (alter (hdr usz csz isnil) j v ++ tail)); eexists; reflexivity.
Qed.

Corollary altered_header_read_at (c : codec) pre usz csz isnil tail j v :
  usz < 2 ^ 64 -> csz < 2 ^ 64 ->
  (j < length (hdr usz csz isnil))%nat -> v < 256 ->
  v <> nth j (hdr usz csz isnil) 0 ->
  (j = 3%nat \/ same_framing (nth j (hdr usz csz isnil) 0) v) ->
  exists e, read_at c (pre ++ alter (hdr usz csz isnil) j v ++ tail) (lenN pre) = Err e.
Proof.
  intros Hu Hc Hj Hv Hne Hfr. unfold read_at.
  destruct (lenN (pre ++ alter (hdr usz csz isnil) j v ++ tail) <? lenN pre); [eexists; reflexivity|].
  unfold sub. rewrite skip_prefix. change (N.to_nat max_header_size) with 36%nat.
  destruct (header_byte_alteration_detected usz csz isnil
              (firstn (36 - length (hdr usz csz isnil)) tail) j v Hu Hc Hj Hv Hne Hfr) as [e He].
  rewrite <- window_altered in He by assumption.
  destruct (firstn 36 (alter (hdr usz csz isnil) j v ++ tail)) as [|w ws] eqn:W; [eexists; reflexivity|].
  rewrite He. destruct e; eexists; reflexivity.
Qed.

(* ================================================================================================
   The minimal-encoding check of the record-header parser.
   ================================================================================================ *)

Lemma app_eq_length_inv {A} (a c b d : list A) :
  a ++ b = c ++ d -> length a = length c -> a = c /\ b = d.
Proof.
  revert c. induction a as [|x a IH]; intros c E L; destruct c as [|y c]; cbn [length] in L; try lia.
  - split; [reflexivity|exact E].
  - cbn [app] in E. injection E as Exy E. destruct (IH c E) as [-> ->]; [lia|]. subst y. split; reflexivity.
Qed.

Lemma firstn_lenN_app (a b : bytes) : firstn (N.to_nat (lenN a)) (a ++ b) = a.
Proof.
  unfold lenN. rewrite Nat2N.id, firstn_app, Nat.sub_diag, firstn_all. cbn [firstn]. apply app_nil_r.
Qed.

Lemma alter_bytes l : forall j v, Forall (fun x => x < 256) l -> v < 256 -> Forall (fun x => x < 256) (alter l j v).
Proof.
  induction l as [|b t IH]; intros j v Hl Hv.
  - rewrite alter_nil. constructor; [exact Hv|constructor].
  - inversion Hl as [|b' t' Hb Ht]; subst b' t'. destruct j as [|j].
    + rewrite alter_0. constructor; assumption.
    + rewrite alter_S. constructor; [exact Hb|apply IH; assumption].
Qed.

Lemma alter_same l j v : (j < length l)%nat -> alter l j v = l -> v = nth j l 0.
Proof.
  intros Hj E. destruct (alter_split l j v Hj) as [E1 E2]. rewrite E1 in E. rewrite E2 in E at 3.
  apply app_inv_head in E. injection E as E. exact E.
Qed.

(* the three field varints of a written header parse to the written values; what is left is the
   comparison of the checksum of those bytes with whatever the fourth varint holds *)
Lemma parse_hdr_fields usz csz nb tl :
  usz < 2 ^ 64 -> csz < 2 ^ 64 ->
  let pre := uv_enc magic ++ [nb] ++ uv_enc usz ++ uv_enc csz in
  parse_hdr (pre ++ tl) =
    match uv_dec_min tl with
    | Err e => Err e
    | Ok (expected, l5) =>
        if crc32c pre =? expected
        then Ok (usz, csz, nb =? 1, N.of_nat (length (pre ++ tl) - length l5))
        else Err HeaderChecksum
    end.
Proof.
  intros Hu Hc pre.
  assert (Hl : pre ++ tl = uv_enc magic ++ nb :: uv_enc usz ++ uv_enc csz ++ tl).
  { unfold pre. norm_app. reflexivity. }
  unfold parse_hdr. rewrite Hl at 1.
  rewrite uv_dec_min_roundtrip by (vm_compute; reflexivity).
  rewrite N.eqb_refl. cbn [negb].
  rewrite uv_dec_min_roundtrip by exact Hu. rewrite uv_dec_min_roundtrip by exact Hc.
  cbv zeta. rewrite firstn_consumed. reflexivity.
Qed.

(* what an accepted header looks like: four byte strings of minimal length around the nil-flag byte *)
Lemma parse_hdr_inv l usz csz isnil n :
  parse_hdr l = Ok (usz, csz, isnil, n) ->
  exists e1 nb e2 e3 e4 l5,
    l = e1 ++ nb :: e2 ++ e3 ++ e4 ++ l5
    /\ isnil = (nb =? 1)
    /\ n = lenN (e1 ++ nb :: e2 ++ e3 ++ e4)
    /\ (Forall (fun b => b < 256) e1 -> e1 = uv_enc magic)
    /\ (Forall (fun b => b < 256) e2 -> e2 = uv_enc usz)
    /\ (Forall (fun b => b < 256) e3 -> e3 = uv_enc csz)
    /\ (Forall (fun b => b < 256) e4 -> e4 = uv_enc (crc32c (e1 ++ nb :: e2 ++ e3))).
Proof.
  unfold parse_hdr. intro H.
  destruct (uv_dec_min l) as [[m l1]|er] eqn:D1; [|discriminate].
  destruct (N.eqb_spec m magic) as [Em|Em]; cbn [negb] in H; [|discriminate].
  destruct l1 as [|nb l2]; [discriminate|].
  destruct (uv_dec_min l2) as [[u l3]|er] eqn:D2; [|discriminate].
  destruct (uv_dec_min l3) as [[c l4]|er] eqn:D3; [|discriminate].
  cbv zeta in H.
  destruct (uv_dec_min l4) as [[ex l5]|er] eqn:D4; [|discriminate].
  destruct (N.eqb_spec (crc32c (firstn (length l - length l4) l)) ex) as [Ec|Ec]; [|discriminate].
  injection H as Hu Hc Hn Hlen.
  apply uv_dec_min_consumed in D1. destruct D1 as (e1 & L1 & _ & C1).
  apply uv_dec_min_consumed in D2. destruct D2 as (e2 & L2 & _ & C2).
  apply uv_dec_min_consumed in D3. destruct D3 as (e3 & L3 & _ & C3).
  apply uv_dec_min_consumed in D4. destruct D4 as (e4 & L4 & _ & C4).
  subst l4 l3 l2 m u c.
  assert (EL : l = (e1 ++ nb :: e2 ++ e3) ++ e4 ++ l5) by (rewrite L1; norm_app; reflexivity).
  rewrite EL in Ec. rewrite firstn_consumed in Ec.
  exists e1, nb, e2, e3, e4, l5.
  split; [rewrite L1; reflexivity|]. split; [symmetry; exact Hn|].
  split.
  { rewrite <- Hlen. rewrite EL. unfold lenN. f_equal.
    repeat (rewrite app_length || cbn [length]). lia. }
  split; [exact C1|]. split; [exact C2|]. split; [exact C3|].
  rewrite Ec. exact C4.
Qed.

(* TASK 1 of the minimal-encoding check: the only byte strings the reader accepts as a record header
   are the ones the writer produces for the same field values.  [nb] is the nil-flag byte (a raw
   byte: the reader takes 1 as "nil" and everything else as "not nil"; the writer only writes 0 or 1,
   so for those the accepted bytes are literally [hdr usz csz isnil]). *)
Theorem parse_hdr_accepts_only_written_headers l usz csz isnil n :
  parse_hdr l = Ok (usz, csz, isnil, n) ->
  Forall (fun b => b < 256) (firstn (N.to_nat n) l) ->
  let nb := nth 3 l 0 in
  let pre := uv_enc magic ++ [nb] ++ uv_enc usz ++ uv_enc csz in
  firstn (N.to_nat n) l = pre ++ uv_enc (crc32c pre)
  /\ n = lenN (pre ++ uv_enc (crc32c pre))
  /\ isnil = (nb =? 1)
  /\ (nb <= 1 -> firstn (N.to_nat n) l = hdr usz csz isnil /\ n = lenN (hdr usz csz isnil)).
Proof.
  intros H HW.
  destruct (parse_hdr_inv l usz csz isnil n H) as (e1 & b & e2 & e3 & e4 & l5 & El & Enil & En & C1 & C2 & C3 & C4).
  assert (EL : l = (e1 ++ b :: e2 ++ e3 ++ e4) ++ l5) by (rewrite El; norm_app; reflexivity).
  rewrite En, EL, firstn_lenN_app in HW.
  rewrite !Forall_app, Forall_cons_iff, !Forall_app in HW.
  destruct HW as (W1 & Wb & W2 & W3 & W4).
  specialize (C1 W1). specialize (C2 W2). specialize (C3 W3). specialize (C4 W4). subst e1 e2 e3.
  assert (Enb : nth 3 l 0 = b) by (rewrite El, uv_enc_magic; reflexivity).
  cbv zeta. rewrite Enb.
  replace (uv_enc magic ++ [b] ++ uv_enc usz ++ uv_enc csz)
    with (uv_enc magic ++ b :: uv_enc usz ++ uv_enc csz) by reflexivity.
  rewrite <- C4.
  assert (EH : (uv_enc magic ++ b :: uv_enc usz ++ uv_enc csz) ++ e4
               = uv_enc magic ++ b :: uv_enc usz ++ uv_enc csz ++ e4) by (norm_app; reflexivity).
  assert (EF : firstn (N.to_nat n) l = (uv_enc magic ++ b :: uv_enc usz ++ uv_enc csz) ++ e4).
  { rewrite En, EL, firstn_lenN_app. symmetry. exact EH. }
  assert (EN : n = lenN ((uv_enc magic ++ b :: uv_enc usz ++ uv_enc csz) ++ e4)).
  { rewrite En, EH. reflexivity. }
  split; [exact EF|]. split; [exact EN|]. split; [exact Enil|].
  intro Hb.
  assert (EHdr : (uv_enc magic ++ b :: uv_enc usz ++ uv_enc csz) ++ e4 = hdr usz csz isnil).
  { unfold hdr, hdr_prefix. cbv zeta. rewrite C4.
    assert (Hb' : b = 0 \/ b = 1) by lia.
    destruct Hb' as [-> | ->]; rewrite Enil; reflexivity. }
  rewrite <- EHdr. split; [exact EF|exact EN].
Qed.

(* the same for a source of bytes: an accepted header IS a written header, the input continues after it *)
Corollary parse_hdr_accepted_is_hdr l usz csz isnil n :
  Forall (fun b => b < 256) l -> nth 3 l 0 <= 1 ->
  parse_hdr l = Ok (usz, csz, isnil, n) ->
  exists rest, l = hdr usz csz isnil ++ rest /\ n = lenN (hdr usz csz isnil).
Proof.
  intros HW Hb H.
  assert (HW' : Forall (fun b => b < 256) (firstn (N.to_nat n) l)).
  { rewrite <- (firstn_skipn (N.to_nat n) l) in HW. apply Forall_app in HW. apply HW. }
  destruct (parse_hdr_accepts_only_written_headers l usz csz isnil n H HW') as (_ & _ & _ & K).
  destruct (K Hb) as [K1 K2]. exists (skipn (N.to_nat n) l). split; [|exact K2].
  rewrite <- K1. symmetry. apply firstn_skipn.
Qed.

(* TASK 2: EVERY alteration of a byte of the stored checksum varint is detected, whatever follows the
   header.  The field bytes are unchanged, so the computed checksum is the written one; a checksum
   varint that is accepted and holds that value consists of exactly the written bytes (canonicity),
   and those are as long as the altered ones. *)
Theorem checksum_bytes_alteration_detected usz csz isnil rest j v :
  usz < 2 ^ 64 -> csz < 2 ^ 64 ->
  (length (hdr_prefix usz csz isnil) <= j < length (hdr usz csz isnil))%nat ->
  v < 256 -> v <> nth j (hdr usz csz isnil) 0 ->
  exists e, parse_hdr (alter (hdr usz csz isnil ++ rest) j v) = Err e.
Proof.
  intros Hu Hc Hj Hv Hne.
  destruct (alter_app (hdr usz csz isnil) rest j v) as [(_ & A1 & _)|(j0 & J0 & _)];
    [rewrite app_length; lia| |lia].
  rewrite A1. clear A1.
  unfold hdr in *. cbv zeta in *.
  set (pre := hdr_prefix usz csz isnil) in *. set (k := crc32c pre) in *. set (ek := uv_enc k) in *.
  destruct (alter_app pre ek j v) as [(J1 & _)|(j' & J1 & L1 & A2 & N2)]; [lia|lia|].
  rewrite A2. rewrite N2 in Hne. clear A2 N2.
  rewrite <- app_assoc.
  unfold pre at 1, hdr_prefix. rewrite (parse_hdr_fields usz csz (if isnil then 1 else 0)) by assumption.
  fold (hdr_prefix usz csz isnil). fold pre. fold k.
  destruct (uv_dec_min (alter ek j' v ++ rest)) as [[ex l5]|er] eqn:D; [|exists er; reflexivity].
  destruct (N.eqb_spec k ex) as [E|E]; [|exists HeaderChecksum; reflexivity].
  exfalso. subst ex.
  apply uv_dec_min_consumed in D. destruct D as (e & El & Elen & Ecan).
  fold ek in Elen, Ecan.
  apply app_eq_length_inv in El; [|rewrite alter_length by exact L1; symmetry; exact Elen].
  destruct El as [El _]. subst e.
  apply Hne. apply alter_same; [exact L1|]. apply Ecan.
  apply alter_bytes; [apply uv_enc_bytes|exact Hv].
Qed.

(* the partial theorem and the checksum theorem together *)
Theorem header_byte_alteration_detected_ext usz csz isnil rest j v :
  usz < 2 ^ 64 -> csz < 2 ^ 64 ->
  (j < length (hdr usz csz isnil))%nat -> v < 256 ->
  v <> nth j (hdr usz csz isnil) 0 ->
  (j = 3%nat \/ same_framing (nth j (hdr usz csz isnil) 0) v
   \/ (length (hdr_prefix usz csz isnil) <= j)%nat) ->
  exists e, parse_hdr (alter (hdr usz csz isnil) j v ++ rest) = Err e.
Proof.
  intros Hu Hc Hj Hv Hne [H | [H | H]].
  - apply header_byte_alteration_detected; try assumption. left. exact H.
  - apply header_byte_alteration_detected; try assumption. right. exact H.
  - destruct (alter_app (hdr usz csz isnil) rest j v) as [(_ & A1 & _)|(j0 & J0 & _)];
      [rewrite app_length; lia| |lia].
    rewrite <- A1. apply checksum_bytes_alteration_detected; try assumption. lia.
Qed.

(* both readers, for the extended class of alterations *)
Corollary altered_header_read_next_ext (c : codec) pre usz csz isnil tail j v :
  usz < 2 ^ 64 -> csz < 2 ^ 64 ->
  (j < length (hdr usz csz isnil))%nat -> v < 256 ->
  v <> nth j (hdr usz csz isnil) 0 ->
  (j = 3%nat \/ same_framing (nth j (hdr usz csz isnil) 0) v
   \/ (length (hdr_prefix usz csz isnil) <= j)%nat) ->
  exists e, fst (read_next c (pre ++ alter (hdr usz csz isnil) j v ++ tail) (lenN pre)) = Err e.
Proof.
  intros Hu Hc Hj Hv Hne Hfr. unfold read_next. rewrite skip_prefix.
  destruct (header_byte_alteration_detected_ext usz csz isnil
              (firstn (36 - length (hdr usz csz isnil)) tail) j v Hu Hc Hj Hv Hne Hfr) as [e He].
  rewrite <- window_altered in He by assumption.
  destruct (parse_hdr_stream_err _ _ He) as [e' He']. rewrite He'.
  destruct e'; try (eexists; reflexivity).
  destruct (zero_tail (alter (hdr usz csz isnil) j v ++ tail)); eexists; reflexivity.
Qed.

Corollary altered_header_read_at_ext (c : codec) pre usz csz isnil tail j v :
  usz < 2 ^ 64 -> csz < 2 ^ 64 ->
  (j < length (hdr usz csz isnil))%nat -> v < 256 ->
  v <> nth j (hdr usz csz isnil) 0 ->
  (j = 3%nat \/ same_framing (nth j (hdr usz csz isnil) 0) v
   \/ (length (hdr_prefix usz csz isnil) <= j)%nat) ->
  exists e, read_at c (pre ++ alter (hdr usz csz isnil) j v ++ tail) (lenN pre) = Err e.
Proof.
  intros Hu Hc Hj Hv Hne Hfr. unfold read_at.
  destruct (lenN (pre ++ alter (hdr usz csz isnil) j v ++ tail) <? lenN pre); [eexists; reflexivity|].
  unfold sub. rewrite skip_prefix. change (N.to_nat max_header_size) with 36%nat.
  destruct (header_byte_alteration_detected_ext usz csz isnil
              (firstn (36 - length (hdr usz csz isnil)) tail) j v Hu Hc Hj Hv Hne Hfr) as [e He].
  rewrite <- window_altered in He by assumption.
  destruct (firstn 36 (alter (hdr usz csz isnil) j v ++ tail)) as [|w ws] eqn:W; [eexists; reflexivity|].
  rewrite He. destruct e; eexists; reflexivity.
Qed.

Definition id_codec : codec := mkCodec 0 (fun x => x) (fun x => Ok x).

(* The alteration the parser without the minimal-encoding check accepted (F-C12a): continuation bit
   set on the last checksum byte (header byte 10: 05 -> 85) and 0x00 as the next byte, payload
   00 01 02 03 04 05.  It is rejected now, by the parser and by both readers. *)
Example old_witness_now_rejected :
  parse_hdr (alter (hdr 6 0 false) 10 0x85 ++ [0; 1; 2; 3; 4; 5]) = Err HeaderChecksum.
Proof. vm_compute. reflexivity. Qed.

Example old_witness_readers_reject :
  let f := file_hdr 0 ++ alter (hdr 6 0 false) 10 0x85 ++ [0; 1; 2; 3; 4; 5] ++ enc_rec id_codec (Some [9]) in
  nth 10 (hdr 6 0 false) 0 = 0x05
  /\ read_at id_codec f 8 = Err HeaderChecksum
  /\ fst (read_next id_codec f 8) = Err HeaderChecksum.
Proof.
  cbv zeta. split; [vm_compute; reflexivity|]. split; vm_compute; reflexivity.
Qed.

Print Assumptions header_byte_alteration_detected.
Print Assumptions altered_header_read_next.
Print Assumptions altered_header_read_at.
Print Assumptions parse_hdr_accepts_only_written_headers.
Print Assumptions parse_hdr_accepted_is_hdr.
Print Assumptions checksum_bytes_alteration_detected.
Print Assumptions header_byte_alteration_detected_ext.
Print Assumptions altered_header_read_next_ext.
Print Assumptions altered_header_read_at_ext.
Print Assumptions old_witness_now_rejected.
Print Assumptions old_witness_readers_reject.
