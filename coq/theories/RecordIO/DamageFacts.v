(* C12: altering a byte of a record header makes reading that record fail (for the class of
   alterations that keep the varint framing, proved without any probabilistic assumption from
   uvarint injectivity and the CRC burst lemma), and the one alteration class that is NOT
   detected (F-C12a), exhibited by a concrete witness. *)
From GoSST Require Import Base.Bytes Base.Varint Base.VarintFacts Base.Crc Base.CrcFacts.
From GoSST Require Import RecordIO.Format RecordIO.FormatFacts RecordIO.SeqReader RecordIO.MmapReader.
From Coq Require Import Lia.
Local Open Scope N_scope.

Definition alter (l : bytes) (j : nat) (v : N) : bytes := firstn j l ++ v :: skipn (S j) l.

(* the alteration keeps the continuation bit of the byte (so varint boundaries stay where they are) *)
Definition same_framing (old v : N) : Prop := (old <? 128) = (v <? 128).

(* ---- bit-level facts ---- *)
Lemma land127_small b : b < 128 -> N.land b 127 = b.
Proof. intro H. change 127 with (N.ones 7). rewrite N.land_ones. apply N.mod_small. exact H. Qed.

Lemma group_low a c : N.land (N.lor (N.land a 127) (N.shiftl c 7)) 127 = N.land a 127.
Proof.
  apply N.bits_inj; intro n. rewrite !N.land_spec, N.lor_spec, N.land_spec.
  change 127 with (N.ones 7).
  destruct (N.ltb_spec n 7) as [H|H].
  - rewrite N.ones_spec_low by lia. rewrite N.shiftl_spec_low by lia.
    rewrite !andb_true_r, orb_false_r. reflexivity.
  - rewrite N.ones_spec_high by lia. rewrite !andb_false_r. reflexivity.
Qed.

Lemma group_high a c : N.shiftr (N.lor (N.land a 127) (N.shiftl c 7)) 7 = c.
Proof.
  apply N.bits_inj; intro n. rewrite N.shiftr_spec', N.lor_spec, N.land_spec.
  change 127 with (N.ones 7).
  rewrite N.ones_spec_high by lia. rewrite andb_false_r. cbn [orb].
  rewrite N.shiftl_spec_high' by lia. f_equal. lia.
Qed.

Lemma mod128_cases a : a < 256 -> a mod 128 = if a <? 128 then a else a - 128.
Proof.
  intro H. destruct (N.ltb_spec a 128) as [Hs|Hb].
  - apply N.mod_small. exact Hs.
  - replace a with ((a - 128) + 1 * 128) at 1 by lia. rewrite N.mod_add by lia.
    apply N.mod_small. lia.
Qed.

Lemma byte_from_low7 a b :
  a < 256 -> b < 256 -> (a <? 128) = (b <? 128) -> N.land a 127 = N.land b 127 -> a = b.
Proof.
  intros Ha Hb Hf E. change 127 with (N.ones 7) in E. rewrite !N.land_ones in E.
  change (2 ^ 7) with 128 in E. rewrite (mod128_cases a Ha), (mod128_cases b Hb) in E.
  rewrite <- Hf in E.
  destruct (N.ltb_spec a 128) as [Hs|Hs]; symmetry in Hf.
  - exact E.
  - apply N.ltb_ge in Hf. lia.
Qed.

(* ---- value and framing of a uvarint byte string ---- *)
Fixpoint uv_val (e : bytes) : N :=
  match e with [] => 0 | b :: t => N.lor (N.land b 127) (N.shiftl (uv_val t) 7) end.

Fixpoint framed (e : bytes) : bool :=
  match e with
  | [] => false
  | b :: t => if b <? 128 then (match t with [] => true | _ :: _ => false end) else framed t
  end.

Lemma dec_framed_go e rest : framed e = true -> forall fuel i acc s,
  match uv_dec_go fuel i acc s (e ++ rest) with
  | Ok (v, l) => v = N.lor acc (N.shiftl (uv_val e) s) /\ l = rest
  | Err _ => True
  end.
Proof.
  induction e as [|b t IH]; intros Hf fuel i acc s; [discriminate|].
  destruct fuel as [|f]; [exact I|].
  cbn [framed] in Hf. cbn [app uv_dec_go].
  destruct (N.ltb_spec b 128) as [Hb|Hb].
  - destruct t as [|c t]; [|discriminate]. destruct (andb (i =? 9) (1 <? b)); [exact I|].
    cbn [app uv_val]. split; [|reflexivity].
    rewrite land127_small by exact Hb. rewrite N.shiftl_0_l, N.lor_0_r. reflexivity.
  - specialize (IH Hf f (i + 1) (N.lor acc (N.shiftl (N.land b 127) s)) (s + 7)).
    destruct (uv_dec_go f (i + 1) (N.lor acc (N.shiftl (N.land b 127) s)) (s + 7) (t ++ rest))
      as [[v l]|er]; [|exact I].
    destruct IH as [-> ->]. split; [|reflexivity]. cbn [uv_val].
    rewrite N.shiftl_lor, N.shiftl_shiftl, N.lor_assoc. replace (7 + s) with (s + 7) by lia. reflexivity.
Qed.

Lemma dec_framed e rest v l :
  framed e = true -> uv_dec (e ++ rest) = Ok (v, l) -> v = uv_val e /\ l = rest.
Proof.
  intros Hf H. pose proof (dec_framed_go e rest Hf 10%nat 0 0 0) as G.
  unfold uv_dec in H. rewrite H in G. rewrite N.lor_0_l, N.shiftl_0_r in G. exact G.
Qed.

Lemma enc_framed : forall fuel x, (0 < fuel)%nat -> x < 2 ^ (7 * N.of_nat fuel) ->
  framed (uv_enc_fuel fuel x) = true.
Proof.
  induction fuel as [|f IH]; intros x Hpos Hx; [lia|].
  cbn [uv_enc_fuel]. destruct (N.ltb_spec x 128) as [Hs|Hb].
  - cbn [framed]. replace (x <? 128) with true by (symmetry; apply N.ltb_lt; exact Hs). reflexivity.
  - cbn [framed].
    replace (N.lor (N.land x 127) 128 <? 128) with false by (symmetry; apply N.ltb_ge; apply low7_or128_ge).
    destruct f as [|f].
    { change (2 ^ (7 * N.of_nat 1)) with 128 in Hx. lia. }
    apply IH; [lia|]. apply shiftr7_lt.
    replace (7 * N.of_nat (S f) + 7) with (7 * N.of_nat (S (S f))) by lia. exact Hx.
Qed.

Lemma uv_enc_framed x : x < 2 ^ 64 -> framed (uv_enc x) = true.
Proof.
  intro H. apply enc_framed; [lia|]. change (2 ^ (7 * N.of_nat 10)) with (2 ^ 64 * 64).
  lia.
Qed.

Lemma uv_val_enc x : x < 2 ^ 64 -> uv_val (uv_enc x) = x.
Proof.
  intro H. pose proof (uv_roundtrip x [] H) as R.
  apply dec_framed in R; [|apply uv_enc_framed; exact H]. destruct R as [R _]. symmetry. exact R.
Qed.

(* ---- alteration of one byte ---- *)
Lemma alter_nil j v : alter [] j v = [v].
Proof. unfold alter. destruct j; reflexivity. Qed.
Lemma alter_0 b t v : alter (b :: t) 0 v = v :: t.
Proof. reflexivity. Qed.
Lemma alter_S b t j v : alter (b :: t) (S j) v = b :: alter t j v.
Proof. reflexivity. Qed.

Lemma alter_length l j v : (j < length l)%nat -> length (alter l j v) = length l.
Proof.
  revert j. induction l as [|b t IH]; intros j Hj; cbn [length] in *; [lia|].
  destruct j as [|j]; [reflexivity|]. rewrite alter_S. cbn [length]. rewrite IH by lia. reflexivity.
Qed.

Lemma alter_split l j v : (j < length l)%nat ->
  alter l j v = firstn j l ++ v :: skipn (S j) l /\ l = firstn j l ++ nth j l 0 :: skipn (S j) l.
Proof.
  intro Hj. split; [reflexivity|]. revert j Hj.
  induction l as [|b t IH]; intros j Hj; cbn [length] in *; [lia|].
  destruct j as [|j]; [reflexivity|]. cbn [firstn nth skipn app]. f_equal. apply IH. lia.
Qed.

(* where the altered index falls in a concatenation *)
Lemma alter_app a b j v : (j < length (a ++ b))%nat ->
  ((j < length a)%nat /\ alter (a ++ b) j v = alter a j v ++ b /\ nth j (a ++ b) 0 = nth j a 0)
  \/ (exists j', j = (length a + j')%nat /\ (j' < length b)%nat
        /\ alter (a ++ b) j v = a ++ alter b j' v /\ nth j (a ++ b) 0 = nth j' b 0).
Proof.
  revert j. induction a as [|x a IH]; intros j Hj.
  - right. exists j. cbn [app length] in *. repeat split; try lia. 
  - destruct j as [|j].
    + left. cbn [length app]. repeat split; lia.
    + cbn [app length] in Hj. destruct (IH j) as [(H1 & H2 & H3)|(j' & H1 & H2 & H3 & H4)]; [lia| |].
      * left. cbn [app length nth]. rewrite !alter_S, H2. repeat split; [lia|exact H3].
      * right. exists j'. cbn [app length nth]. rewrite alter_S, H3. repeat split; [lia|lia|exact H4].
Qed.

Lemma alter_framed e j v : framed e = true -> (j < length e)%nat ->
  same_framing (nth j e 0) v -> framed (alter e j v) = true.
Proof.
  revert j. induction e as [|b t IH]; intros j Hf Hj Hs; [discriminate|].
  destruct j as [|j].
  - rewrite alter_0. cbn [nth] in Hs. unfold same_framing in Hs. cbn [framed] in *.
    rewrite <- Hs. exact Hf.
  - rewrite alter_S. cbn [nth length] in *. cbn [framed] in *.
    destruct (b <? 128).
    + destruct t; [cbn [length] in Hj; lia|discriminate].
    + apply IH; [exact Hf|lia|exact Hs].
Qed.

Lemma alter_val_inj e j v : (j < length e)%nat -> v < 256 -> nth j e 0 < 256 ->
  same_framing (nth j e 0) v -> uv_val (alter e j v) = uv_val e -> v = nth j e 0.
Proof.
  revert j. induction e as [|b t IH]; intros j Hj Hv Hn Hs E; cbn [length] in Hj; [lia|].
  destruct j as [|j].
  - rewrite alter_0 in E. cbn [nth uv_val] in *.
    apply (f_equal (fun z => N.land z 127)) in E. rewrite !group_low in E.
    apply byte_from_low7; try assumption. symmetry. exact Hs.
  - rewrite alter_S in E. cbn [nth uv_val] in *.
    apply (f_equal (fun z => N.shiftr z 7)) in E. rewrite !group_high in E.
    apply IH; try assumption. lia.
Qed.

Lemma crc_alter l j v : Forall (fun x => x < 256) l -> (j < length l)%nat -> v < 256 ->
  v <> nth j l 0 -> crc32c (alter l j v) <> crc32c l.
Proof.
  intros Hl Hj Hv Hne. destruct (alter_split l j v Hj) as [E1 E2].
  rewrite E1. rewrite E2 at 3.
  assert (Hn : nth j l 0 < 256).
  { rewrite Forall_forall in Hl. apply Hl. apply nth_In. exact Hj. }
  rewrite E2 in Hl. apply Forall_app in Hl. destruct Hl as [Hp Hq].
  inversion Hq as [|? ? _ Hpost]; subst.
  apply crc32c_one_byte; assumption.
Qed.

(* ---- parsing a header whose four varints are well framed ---- *)
Lemma firstn_consumed (a b : bytes) : firstn (length (a ++ b) - length b) (a ++ b) = a.
Proof.
  rewrite app_length. replace (length a + length b - length b)%nat with (length a) by lia.
  rewrite firstn_app, Nat.sub_diag, firstn_all. cbn [firstn]. apply app_nil_r.
Qed.

Ltac norm_app := repeat (rewrite <- app_assoc || rewrite <- app_comm_cons); cbn [app].
Ltac norm_app_in H := repeat (rewrite <- app_assoc in H || rewrite <- app_comm_cons in H); cbn [app] in H.

Lemma parse_framed m nb eu ec ek rest r :
  framed m = true -> framed eu = true -> framed ec = true -> framed ek = true ->
  parse_hdr (m ++ nb :: eu ++ ec ++ ek ++ rest) = Ok r ->
  uv_val m = magic /\ crc32c (m ++ nb :: eu ++ ec) = uv_val ek.
Proof.
  intros Hm Hu Hc Hk. unfold parse_hdr.
  destruct (uv_dec (m ++ nb :: eu ++ ec ++ ek ++ rest)) as [[mv l1]|er] eqn:D1; [|discriminate].
  apply dec_framed in D1; [|exact Hm]. destruct D1 as [-> ->].
  destruct (N.eqb_spec (uv_val m) magic) as [Emag|Emag]; cbn [negb]; [|discriminate].
  destruct (uv_dec (eu ++ ec ++ ek ++ rest)) as [[uv l3]|er] eqn:D2; [|discriminate].
  apply dec_framed in D2; [|exact Hu]. destruct D2 as [-> ->].
  destruct (uv_dec (ec ++ ek ++ rest)) as [[cv l4]|er] eqn:D3; [|discriminate].
  apply dec_framed in D3; [|exact Hc]. destruct D3 as [-> ->].
  destruct (uv_dec (ek ++ rest)) as [[kv l5]|er] eqn:D4; [|discriminate].
  apply dec_framed in D4; [|exact Hk]. destruct D4 as [-> ->].
  replace (m ++ nb :: eu ++ ec ++ ek ++ rest) with ((m ++ nb :: eu ++ ec) ++ ek ++ rest)
    by (norm_app; reflexivity).
  rewrite firstn_consumed.
  destruct (N.eqb_spec (crc32c (m ++ nb :: eu ++ ec)) (uv_val ek)) as [Ecrc|Ecrc]; [|discriminate].
  intros _. split; assumption.
Qed.

Lemma enc_magic : uv_enc magic = marker.
Proof. vm_compute. reflexivity. Qed.

Lemma hdr_shape usz csz isnil :
  hdr usz csz isnil =
    marker ++ [if isnil then 1 else 0] ++ uv_enc usz ++ uv_enc csz
      ++ uv_enc (crc32c (marker ++ (if isnil then 1 else 0) :: uv_enc usz ++ uv_enc csz)).
Proof.
  unfold hdr, hdr_prefix. rewrite enc_magic. rewrite <- !app_assoc. reflexivity.
Qed.

Lemma header_alteration_not_ok usz csz isnil rest j v r :
  usz < 2 ^ 64 -> csz < 2 ^ 64 ->
  (j < length (hdr usz csz isnil))%nat -> v < 256 ->
  v <> nth j (hdr usz csz isnil) 0 ->
  (j = 3%nat \/ same_framing (nth j (hdr usz csz isnil) 0) v) ->
  parse_hdr (alter (hdr usz csz isnil) j v ++ rest) <> Ok r.
Proof.
  intros Hu Hc Hj Hv Hne Hfr HP.
  pose proof (hdr_bytes usz csz isnil) as HB.
  rewrite hdr_shape in *.
  set (nbv := if isnil then 1 else 0) in *.
  set (eu := uv_enc usz) in *. set (ec := uv_enc csz) in *.
  set (pre := marker ++ nbv :: eu ++ ec) in *.
  assert (Fm : framed marker = true) by reflexivity.
  assert (Fu : framed eu = true) by (apply uv_enc_framed; exact Hu).
  assert (Fc : framed ec = true) by (apply uv_enc_framed; exact Hc).
  assert (Bpre : Forall (fun x => x < 256) pre).
  { replace (marker ++ [nbv] ++ eu ++ ec ++ uv_enc (crc32c pre)) with (pre ++ uv_enc (crc32c pre)) in HB
      by (unfold pre; norm_app; reflexivity).
    apply Forall_app in HB. apply HB. }
  assert (Hk : crc32c pre < 2 ^ 64).
  { pose proof (crc32c_lt pre Bpre) as L. change (2 ^ 64) with (2 ^ 32 * 2 ^ 32). lia. }
  set (ek := uv_enc (crc32c pre)) in *.
  assert (Fk : framed ek = true) by (apply uv_enc_framed; exact Hk).
  assert (Vk : uv_val ek = crc32c pre) by (apply uv_val_enc; exact Hk).
  assert (Bm : Forall (fun x => x < 256) marker /\ Forall (fun x => x < 256) [nbv]
               /\ Forall (fun x => x < 256) eu /\ Forall (fun x => x < 256) ec
               /\ Forall (fun x => x < 256) ek).
  { rewrite !Forall_app in HB. tauto. }
  destruct Bm as (Bm & Bn & Bu & Bc & Bk).
  assert (Nth : forall l k, Forall (fun x => x < 256) l -> (k < length l)%nat -> nth k l 0 < 256).
  { intros l k Hl Hk'. rewrite Forall_forall in Hl. apply Hl. apply nth_In. exact Hk'. }
  destruct (alter_app marker ([nbv] ++ eu ++ ec ++ ek) j v Hj)
    as [(J1 & A1 & N1)|(j1 & J1 & L1 & A1 & N1)]; rewrite A1 in HP; rewrite N1 in Hne, Hfr; clear A1 N1.
  { (* a marker byte *)
    destruct Hfr as [->|Hfr]; [cbn [length marker] in J1; lia|].
    norm_app_in HP.
    apply parse_framed in HP; try assumption; [|apply alter_framed; assumption].
    destruct HP as [HP _]. apply Hne.
    apply alter_val_inj; [exact J1|exact Hv|apply Nth; assumption|exact Hfr|]. rewrite HP. reflexivity. }
  assert (J3 : j = 3%nat -> j1 = 0%nat) by (cbn [length marker] in J1; lia).
  destruct (alter_app [nbv] (eu ++ ec ++ ek) j1 v L1)
    as [(J2 & A2 & N2)|(j2 & J2 & L2 & A2 & N2)]; rewrite A2 in HP; rewrite N2 in Hne, Hfr; clear A2 N2.
  { (* the nil flag *)
    cbn [length] in J2. assert (j1 = 0%nat) by lia. subst j1.
    cbn [nth] in Hne. rewrite alter_0 in HP. norm_app_in HP.
    apply parse_framed in HP; try assumption. destruct HP as [_ HP].
    rewrite Vk in HP. unfold pre in HP. revert HP.
    apply crc32c_one_byte; try assumption.
    - apply Forall_app. split; assumption.
    - inversion Bn; assumption. }
  assert (Hfr' : same_framing (nth j2 (eu ++ ec ++ ek) 0) v).
  { destruct Hfr as [E|Hfr]; [|exact Hfr]. apply J3 in E. cbn [length] in J2. lia. }
  clear Hfr J3.
  destruct (alter_app eu (ec ++ ek) j2 v L2)
    as [(J3 & A3 & N3)|(j3 & J3 & L3 & A3 & N3)]; rewrite A3 in HP; rewrite N3 in Hne, Hfr'; clear A3 N3.
  { (* a byte of the uncompressed size *)
    norm_app_in HP.
    apply parse_framed in HP; try assumption; [|apply alter_framed; assumption].
    destruct HP as [_ HP]. rewrite Vk in HP. revert HP.
    destruct (alter_split eu j2 v J3) as [E1 E2]. unfold pre. rewrite E1. rewrite E2 at 3.
    rewrite E2 in Bu. apply Forall_app in Bu. destruct Bu as [Bu1 Bu2]. inversion Bu2 as [|? ? Bb Bu3]; subst.
    replace (marker ++ nbv :: (firstn j2 eu ++ v :: skipn (S j2) eu) ++ ec)
      with ((marker ++ nbv :: firstn j2 eu) ++ v :: skipn (S j2) eu ++ ec)
      by (norm_app; reflexivity).
    replace (marker ++ nbv :: (firstn j2 eu ++ nth j2 eu 0 :: skipn (S j2) eu) ++ ec)
      with ((marker ++ nbv :: firstn j2 eu) ++ nth j2 eu 0 :: skipn (S j2) eu ++ ec)
      by (norm_app; reflexivity).
    apply crc32c_one_byte; try assumption.
    - apply Forall_app. split; [assumption|]. constructor; [inversion Bn; assumption|assumption].
    - apply Forall_app. split; assumption. }
  destruct (alter_app ec ek j3 v L3)
    as [(J4 & A4 & N4)|(j4 & J4 & L4 & A4 & N4)]; rewrite A4 in HP; rewrite N4 in Hne, Hfr'; clear A4 N4.
  { (* a byte of the compressed size *)
    norm_app_in HP.
    apply parse_framed in HP; try assumption; [|apply alter_framed; assumption].
    destruct HP as [_ HP]. rewrite Vk in HP. revert HP.
    destruct (alter_split ec j3 v J4) as [E1 E2]. unfold pre. rewrite E1. rewrite E2 at 3.
    rewrite E2 in Bc. apply Forall_app in Bc. destruct Bc as [Bc1 Bc2]. inversion Bc2 as [|? ? Bb Bc3]; subst.
    replace (marker ++ nbv :: eu ++ firstn j3 ec ++ v :: skipn (S j3) ec)
      with ((marker ++ nbv :: eu ++ firstn j3 ec) ++ v :: skipn (S j3) ec)
      by (norm_app; reflexivity).
    replace (marker ++ nbv :: eu ++ firstn j3 ec ++ nth j3 ec 0 :: skipn (S j3) ec)
      with ((marker ++ nbv :: eu ++ firstn j3 ec) ++ nth j3 ec 0 :: skipn (S j3) ec)
      by (norm_app; reflexivity).
    apply crc32c_one_byte; try assumption.
    apply Forall_app. split; [assumption|]. constructor; [inversion Bn; assumption|].
    apply Forall_app. split; assumption. }
  (* a byte of the stored checksum *)
  norm_app_in HP.
  apply parse_framed in HP; try assumption; [|apply alter_framed; assumption].
  destruct HP as [_ HP]. fold pre in HP. apply Hne.
  apply alter_val_inj; try assumption; [apply Nth; assumption|]. rewrite <- HP. symmetry. exact Vk.
Qed.

(* index 3 is the nil flag (after the three marker bytes): a raw byte, any alteration allowed *)
Theorem header_byte_alteration_detected usz csz isnil rest j v :
  usz < 2 ^ 64 -> csz < 2 ^ 64 ->
  (j < length (hdr usz csz isnil))%nat -> v < 256 ->
  v <> nth j (hdr usz csz isnil) 0 ->
  (j = 3%nat \/ same_framing (nth j (hdr usz csz isnil) 0) v) ->
  exists e, parse_hdr (alter (hdr usz csz isnil) j v ++ rest) = Err e.
Proof.
  intros Hu Hc Hj Hv Hne Hfr.
  destruct (parse_hdr (alter (hdr usz csz isnil) j v ++ rest)) as [r|e] eqn:E.
  - exfalso. revert E. apply header_alteration_not_ok; assumption.
  - exists e. reflexivity.
Qed.

(* the 36-byte window of the readers contains the whole (altered) header *)
Lemma window_altered usz csz isnil tail j v :
  usz < 2 ^ 64 -> csz < 2 ^ 64 -> (j < length (hdr usz csz isnil))%nat ->
  firstn 36 (alter (hdr usz csz isnil) j v ++ tail)
  = alter (hdr usz csz isnil) j v ++ firstn (36 - length (hdr usz csz isnil)) tail.
Proof.
  intros Hu Hc Hj. pose proof (hdr_len usz csz isnil Hu Hc) as HL.
  rewrite firstn_app, alter_length by exact Hj.
  rewrite firstn_all2 by (rewrite alter_length by exact Hj; lia). reflexivity.
Qed.

Lemma skip_prefix (pre l : bytes) : skipn (N.to_nat (lenN pre)) (pre ++ l) = l.
Proof.
  unfold lenN. rewrite Nat2N.id, skipn_app, skipn_all, Nat.sub_diag. reflexivity.
Qed.

Lemma parse_hdr_stream_err l e : parse_hdr (firstn 36 l) = Err e -> exists e', parse_hdr_stream l = Err e'.
Proof.
  intro H. unfold parse_hdr_stream. rewrite H.
  destruct e; try (eexists; reflexivity); destruct (36 <=? lenN l); eexists; reflexivity.
Qed.

(* both readers: the record with the altered header is not returned *)
Corollary altered_header_read_next (c : codec) pre usz csz isnil tail j v :
  usz < 2 ^ 64 -> csz < 2 ^ 64 ->
  (j < length (hdr usz csz isnil))%nat -> v < 256 ->
  v <> nth j (hdr usz csz isnil) 0 ->
  (j = 3%nat \/ same_framing (nth j (hdr usz csz isnil) 0) v) ->
  exists e, fst (read_next c (pre ++ alter (hdr usz csz isnil) j v ++ tail) (lenN pre)) = Err e.
Proof.
  intros Hu Hc Hj Hv Hne Hfr. unfold read_next. rewrite skip_prefix.
  destruct (header_byte_alteration_detected usz csz isnil
              (firstn (36 - length (hdr usz csz isnil)) tail) j v Hu Hc Hj Hv Hne Hfr) as [e He].
  rewrite <- window_altered in He by assumption.
  destruct (parse_hdr_stream_err _ _ He) as [e' He']. rewrite He'.
  destruct e'; try (eexists; reflexivity).
  destruct (zero_tail (alter (hdr usz csz isnil) j v ++ tail)); eexists; reflexivity.
Qed.

Corollary altered_header_read_at (c : codec) pre usz csz isnil tail j v :
  usz < 2 ^ 64 -> csz < 2 ^ 64 ->
  (j < length (hdr usz csz isnil))%nat -> v < 256 ->
  v <> nth j (hdr usz csz isnil) 0 ->
  (j = 3%nat \/ same_framing (nth j (hdr usz csz isnil) 0) v) ->
  exists e, read_at c (pre ++ alter (hdr usz csz isnil) j v ++ tail) (lenN pre) = Err e.
Proof.
  intros Hu Hc Hj Hv Hne Hfr. unfold read_at.
  destruct (lenN (pre ++ alter (hdr usz csz isnil) j v ++ tail) <? lenN pre); [eexists; reflexivity|].
  unfold sub. rewrite skip_prefix. change (N.to_nat max_header_size) with 36%nat.
  destruct (header_byte_alteration_detected usz csz isnil
              (firstn (36 - length (hdr usz csz isnil)) tail) j v Hu Hc Hj Hv Hne Hfr) as [e He].
  rewrite <- window_altered in He by assumption.
  destruct (firstn 36 (alter (hdr usz csz isnil) j v ++ tail)) as [|w ws] eqn:W; [eexists; reflexivity|].
  rewrite He. destruct e; eexists; reflexivity.
Qed.

(* The full statement ("ANY single-byte alteration of a header byte is detected") is false of the
   code: setting the continuation bit of the last checksum byte makes ReadUvarint absorb the next
   byte; when that byte is 0x00 the decoded checksum is unchanged and a shifted payload is returned.
   Witness: payload 00 01 02 03 04 05, header byte 10: 05 -> 85. *)
Theorem header_alteration_refuted :
  exists usz csz isnil rest j v,
    usz < 2 ^ 64 /\ csz < 2 ^ 64 /\ (j < length (hdr usz csz isnil))%nat /\ v < 256
    /\ v <> nth j (hdr usz csz isnil) 0
    /\ exists r, parse_hdr (alter (hdr usz csz isnil) j v ++ rest) = Ok r.
Proof.
  exists 6, 0, false, [0; 1; 2; 3; 4; 5], 10%nat, 0x85.
  split; [reflexivity|]. split; [reflexivity|].
  split; [vm_compute; lia|]. split; [reflexivity|].
  split; [vm_compute; discriminate|].
  eexists. vm_compute. reflexivity.
Qed.

Definition id_codec : codec := mkCodec 0 (fun x => x) (fun x => Ok x).

(* ... and what the readers then return: the payload shifted by one byte, without error *)
Example f_c12a_witness :
  let f := file_hdr 0 ++ alter (hdr 6 0 false) 10 0x85 ++ [0; 1; 2; 3; 4; 5] ++ enc_rec id_codec (Some [9]) in
  nth 10 (hdr 6 0 false) 0 = 0x05
  /\ read_at id_codec f 8 = Ok (Some [1; 2; 3; 4; 5; 0x91])
  /\ fst (read_next id_codec f 8) = Ok (Some [1; 2; 3; 4; 5; 0x91]).
Proof.
  cbv zeta. split; [vm_compute; reflexivity|]. split; vm_compute; reflexivity.
Qed.

Print Assumptions header_byte_alteration_detected.
Print Assumptions altered_header_read_next.
Print Assumptions altered_header_read_at.
Print Assumptions header_alteration_refuted.
Print Assumptions f_c12a_witness.
