(* Header round trip: parsing the bytes of a written record header (followed by anything) returns
   exactly the written fields and the header length. *)
From GoSST Require Import Base.Bytes Base.Varint Base.VarintFacts Base.Crc Base.CrcFacts RecordIO.Format.
From Coq Require Import Lia.
Local Open Scope N_scope.

(* ---- helpers on the uvarint encoder ---- *)
Lemma lor_low7_128_lt x : N.lor (N.land x 127) 128 < 256.
Proof.
  change 256 with (2 ^ 8).
  destruct (N.eq_dec (N.lor (N.land x 127) 128) 0) as [E|E]; [rewrite E; reflexivity|].
  apply N.log2_lt_pow2; [lia|].
  rewrite N.log2_lor. apply N.max_lub_lt; [|reflexivity].
  destruct (N.eq_dec (N.land x 127) 0) as [E0|E0]; [rewrite E0; reflexivity|].
  apply N.log2_lt_pow2; [lia|].
  change 127 with (N.ones 7). rewrite N.land_ones. 
  apply N.lt_trans with (2 ^ 7); [apply N.mod_lt; discriminate|reflexivity].
Qed.

Lemma uv_enc_fuel_bytes f : forall x, Forall (fun b => b < 256) (uv_enc_fuel f x).
Proof.
  induction f as [|f IH]; intro x; cbn [uv_enc_fuel]; [constructor|].
  destruct (N.ltb_spec x 128) as [H|H].
  - constructor; [lia|constructor].
  - constructor; [apply lor_low7_128_lt|apply IH].
Qed.

Lemma uv_enc_fuel_len_le f : forall x, (length (uv_enc_fuel f x) <= f)%nat.
Proof.
  induction f as [|f IH]; intro x; cbn [uv_enc_fuel]; [cbn; lia|].
  destruct (x <? 128); cbn [length]; [lia|]. specialize (IH (N.shiftr x 7)). lia.
Qed.

(* values below 2^(7k) need at most k bytes *)
Lemma uv_enc_fuel_len_small f : forall (k : nat) x, (0 < k)%nat -> x < 2 ^ (7 * N.of_nat k) ->
  (length (uv_enc_fuel f x) <= k)%nat.
Proof.
  induction f as [|f IH]; intros k x Hk Hx; cbn [uv_enc_fuel]; [cbn; lia|].
  destruct (N.ltb_spec x 128) as [H|H]; cbn [length]; [lia|].
  destruct k as [|k]; [lia|]. destruct k as [|k].
  - change (2 ^ (7 * N.of_nat 1)) with 128 in Hx. lia.
  - assert (Hl : (length (uv_enc_fuel f (N.shiftr x 7)) <= S k)%nat); [|lia].
    apply IH; [lia|]. apply shiftr7_lt.
    replace (7 * N.of_nat (S k) + 7) with (7 * N.of_nat (S (S k))) by lia. exact Hx.
Qed.

Lemma uv_enc_bytes x : Forall (fun b => b < 256) (uv_enc x).
Proof. apply uv_enc_fuel_bytes. Qed.

Lemma uv_enc_len x : (1 <= length (uv_enc x) <= 10)%nat.
Proof.
  split; [|apply uv_enc_fuel_len_le].
  unfold uv_enc. cbn [uv_enc_fuel]. destruct (x <? 128); cbn [length]; lia.
Qed.

Lemma uv_enc_magic : uv_enc magic = marker.
Proof. vm_compute. reflexivity. Qed.

Lemma hdr_prefix_bytes usz csz isnil : Forall (fun b => b < 256) (hdr_prefix usz csz isnil).
Proof.
  unfold hdr_prefix. repeat (apply Forall_app; split); try apply uv_enc_bytes.
  constructor; [destruct isnil; lia|constructor].
Qed.

Lemma hdr_bytes usz csz isnil : Forall (fun b => b < 256) (hdr usz csz isnil).
Proof.
  unfold hdr. cbv zeta. apply Forall_app; split; [apply hdr_prefix_bytes|apply uv_enc_bytes].
Qed.

Lemma hdr_crc_lt usz csz isnil : crc32c (hdr_prefix usz csz isnil) < 2 ^ 32.
Proof. apply crc32c_lt. apply hdr_prefix_bytes. Qed.

(* a v4 header is at most 3 + 1 + 10 + 10 + 5 = 29 bytes, so it fits the 36-byte window *)
Lemma hdr_len usz csz isnil : usz < 2 ^ 64 -> csz < 2 ^ 64 -> (6 <= length (hdr usz csz isnil) <= 29)%nat.
Proof.
  intros _ _. pose proof (hdr_crc_lt usz csz isnil) as Hcrc.
  unfold hdr. cbv zeta. set (k := crc32c (hdr_prefix usz csz isnil)) in *.
  unfold hdr_prefix. rewrite uv_enc_magic.
  rewrite !app_length. cbn [length marker].
  pose proof (uv_enc_len usz) as H1. pose proof (uv_enc_len csz) as H2.
  pose proof (uv_enc_len k) as H3.
  assert (H4 : (length (uv_enc k) <= 5)%nat).
  { apply uv_enc_fuel_len_small; [lia|].
    apply N.lt_trans with (2 ^ 32); [exact Hcrc|reflexivity]. }
  lia.
Qed.

Lemma hdr_starts_with_marker usz csz isnil : firstn 3 (hdr usz csz isnil) = marker.
Proof.
  unfold hdr. cbv zeta. unfold hdr_prefix. rewrite uv_enc_magic. reflexivity.
Qed.

Theorem parse_hdr_hdr usz csz isnil rest :
  usz < 2 ^ 64 -> csz < 2 ^ 64 ->
  parse_hdr (hdr usz csz isnil ++ rest) = Ok (usz, csz, isnil, lenN (hdr usz csz isnil)).
Proof.
  intros Hu Hc.
  pose proof (hdr_crc_lt usz csz isnil) as Hcrc.
  assert (Hcrc64 : crc32c (hdr_prefix usz csz isnil) < 2 ^ 64).
  { apply N.lt_trans with (2 ^ 32); [exact Hcrc|reflexivity]. }
  set (k := crc32c (hdr_prefix usz csz isnil)) in *.
  assert (Hl : hdr usz csz isnil ++ rest
    = uv_enc magic ++ (if isnil then 1 else 0) :: uv_enc usz ++ uv_enc csz ++ uv_enc k ++ rest).
  { unfold hdr. cbv zeta. fold k. unfold hdr_prefix. rewrite <- !app_assoc. reflexivity. }
  assert (Hlen : length (hdr usz csz isnil ++ rest) = (length (hdr_prefix usz csz isnil) + length (uv_enc k ++ rest))%nat).
  { unfold hdr. cbv zeta. fold k. rewrite <- app_assoc. apply app_length. }
  assert (Hfirst : firstn (length (hdr_prefix usz csz isnil)) (hdr usz csz isnil ++ rest) = hdr_prefix usz csz isnil).
  { unfold hdr. cbv zeta. rewrite <- app_assoc. rewrite firstn_app, firstn_all, Nat.sub_diag. cbn [firstn]. apply app_nil_r. }
  unfold parse_hdr.
  rewrite Hl at 1. rewrite uv_dec_min_roundtrip by (vm_compute; reflexivity).
  rewrite N.eqb_refl. cbn [negb].
  rewrite uv_dec_min_roundtrip by exact Hu. rewrite uv_dec_min_roundtrip by exact Hc.
  replace (length (hdr usz csz isnil ++ rest) - length (uv_enc k ++ rest))%nat
    with (length (hdr_prefix usz csz isnil)) by lia.
  rewrite Hfirst. fold k. rewrite uv_dec_min_roundtrip by exact Hcrc64.
  rewrite N.eqb_refl. rewrite app_length.
  replace (length (hdr usz csz isnil) + length rest - length rest)%nat with (length (hdr usz csz isnil)) by lia.
  destruct isnil; reflexivity.
Qed.

Lemma firstn_app_long (a b : bytes) n : (length a <= n)%nat -> firstn n (a ++ b) = a ++ firstn (n - length a) b.
Proof. intro H. rewrite firstn_app. rewrite firstn_all2 by exact H. reflexivity. Qed.

(* the 36-byte window does not matter for a genuine header *)
Theorem parse_hdr_window usz csz isnil rest :
  usz < 2 ^ 64 -> csz < 2 ^ 64 ->
  parse_hdr (firstn 36 (hdr usz csz isnil ++ rest)) = Ok (usz, csz, isnil, lenN (hdr usz csz isnil)).
Proof.
  intros Hu Hc. pose proof (hdr_len usz csz isnil Hu Hc) as Hl.
  rewrite firstn_app_long by lia. apply parse_hdr_hdr; assumption.
Qed.

Theorem parse_hdr_stream_hdr usz csz isnil rest :
  usz < 2 ^ 64 -> csz < 2 ^ 64 ->
  parse_hdr_stream (hdr usz csz isnil ++ rest) = Ok (usz, csz, isnil, lenN (hdr usz csz isnil)).
Proof.
  intros Hu Hc. unfold parse_hdr_stream. rewrite parse_hdr_window by assumption. reflexivity.
Qed.

Lemma parse_file_hdr_ok ct rest : ct <= 3 -> parse_file_hdr (file_hdr ct ++ rest) = Ok (4, ct).
Proof.
  intro H.
  assert (Hc : ct = 0 \/ ct = 1 \/ ct = 2 \/ ct = 3) by lia.
  destruct Hc as [-> | [-> | [-> | ->]]]; reflexivity.
Qed.

Lemma sub_0_8_len (f : bytes) : 8 <= lenN f ->
  exists a b c d e g h i r, f = a :: b :: c :: d :: e :: g :: h :: i :: r.
Proof.
  unfold lenN. intro H.
  do 8 (destruct f as [|? f]; [cbn in H; lia|]).
  repeat eexists.
Qed.

(* C12: a file header with an unsupported version or compression code is rejected *)
Theorem file_header_rejected (f : bytes) :
  8 <= lenN f ->
  let v := rd32 (sub f 0 4) in
  let ct := rd32 (sub f 4 4) in
  (v < 1 \/ 4 < v \/ 3 < ct) -> parse_file_hdr f = Err Rejected.
Proof.
  intros Hlen v ct H.
  destruct (sub_0_8_len f Hlen) as (b0 & b1 & b2 & b3 & b4 & b5 & b6 & b7 & r & ->).
  unfold parse_file_hdr.
  change (sub (b0 :: b1 :: b2 :: b3 :: b4 :: b5 :: b6 :: b7 :: r) 0 8) with [b0; b1; b2; b3; b4; b5; b6; b7].
  change (lenN [b0; b1; b2; b3; b4; b5; b6; b7]) with 8.
  change (8 <? 8) with false. cbv iota.
  change (sub [b0; b1; b2; b3; b4; b5; b6; b7] 0 4) with [b0; b1; b2; b3].
  change (sub [b0; b1; b2; b3; b4; b5; b6; b7] 4 4) with [b4; b5; b6; b7].
  change (sub (b0 :: b1 :: b2 :: b3 :: b4 :: b5 :: b6 :: b7 :: r) 0 4) with [b0; b1; b2; b3] in v.
  change (sub (b0 :: b1 :: b2 :: b3 :: b4 :: b5 :: b6 :: b7 :: r) 4 4) with [b4; b5; b6; b7] in ct.
  fold v ct.
  destruct H as [H | [H | H]].
  - replace (v <? 1) with true by (symmetry; apply N.ltb_lt; exact H). rewrite orb_true_r. reflexivity.
  - replace (4 <? v) with true by (symmetry; apply N.ltb_lt; exact H). reflexivity.
  - replace (3 <? ct) with true by (symmetry; apply N.ltb_lt; exact H).
    destruct ((4 <? v) || (v <? 1)); reflexivity.
Qed.

Lemma firstn_length_le' {A} n (l : list A) : (length (firstn n l) <= length l)%nat.
Proof. rewrite firstn_length. lia. Qed.

Theorem file_header_short (f : bytes) : lenN f < 8 -> exists e, parse_file_hdr f = Err e.
Proof.
  intro H. unfold parse_file_hdr.
  assert (Hs : lenN (sub f 0 8) < 8).
  { unfold sub, lenN in *. change (N.to_nat 0) with 0%nat. cbn [skipn].
    pose proof (firstn_length_le' (N.to_nat 8) f) as Hle. lia. }
  replace (lenN (sub f 0 8) <? 8) with true by (symmetry; apply N.ltb_lt; exact Hs).
  eexists. reflexivity.
Qed.

(* ---- truncated headers: a proper prefix of a header parses to EOF / unexpected EOF ---- *)
Definition eofish (e : err) : Prop := e = EOF \/ e = UnexpectedEOF.
Definition pprefix (t l : bytes) : Prop := exists s, s <> [] /\ l = t ++ s.

Lemma pprefix_nil_r t : ~ pprefix t [].
Proof.
  intros (s & Hs & H). symmetry in H. apply app_eq_nil in H. destruct H as [_ H]. contradiction.
Qed.

Lemma pprefix_length t l : pprefix t l -> (length t < length l)%nat.
Proof.
  intros (s & Hs & ->). rewrite app_length. destruct s as [|x s]; [contradiction|]. cbn [length]. lia.
Qed.

Lemma pprefix_firstn k (l : bytes) : (k < length l)%nat -> pprefix (firstn k l) l.
Proof.
  intro H. exists (skipn k l). split.
  - intro E. apply (f_equal (@length N)) in E. rewrite skipn_length in E. cbn in E. lia.
  - symmetry. apply firstn_skipn.
Qed.

Lemma pprefix_app a : forall t b, pprefix t (a ++ b) ->
  pprefix t a \/ exists t', t = a ++ t' /\ pprefix t' b.
Proof.
  induction a as [|x a IH]; intros t b H.
  - right. exists t. split; [reflexivity|exact H].
  - destruct t as [|y t].
    + left. exists (x :: a). split; [discriminate|reflexivity].
    + destruct H as (s & Hs & H). cbn [app] in H. injection H as Hxy H. subst y.
      destruct (IH t b) as [Hl | (t' & Ht & Hp)].
      * exists s. split; assumption.
      * left. destruct Hl as (s' & Hs' & ->). exists s'. split; [assumption|reflexivity].
      * right. exists t'. split; [subst t; reflexivity|exact Hp].
Qed.

Lemma uv_enc_fuel_pprefix f : forall x t, pprefix t (uv_enc_fuel f x) ->
  Forall (fun b => 128 <= b) t /\ (length t < f)%nat.
Proof.
  induction f as [|f IH]; intros x t H; cbn [uv_enc_fuel] in H.
  - exfalso. exact (pprefix_nil_r t H).
  - destruct t as [|y t]; [split; [apply Forall_nil|cbn [length]; lia]|].
    destruct H as (s & Hs & H). destruct (x <? 128).
    + cbn [app] in H. injection H as _ H. destruct t; [|discriminate H].
      cbn [app] in H. subst s. contradiction.
    + cbn [app] in H. injection H as Hy H.
      destruct (IH (N.shiftr x 7) t) as [HF HL]; [exists s; split; assumption|].
      split; [constructor; [subst y; apply low7_or128_ge|exact HF]|cbn [length]; lia].
Qed.

Lemma uv_dec_go_cont fuel : forall i acc s t, Forall (fun b => 128 <= b) t -> (length t < fuel)%nat ->
  exists e, eofish e /\ uv_dec_go fuel i acc s t = Err e.
Proof.
  induction fuel as [|fuel IH]; intros i acc s t HF HL; [lia|].
  destruct t as [|b t]; cbn [uv_dec_go].
  - destruct (i =? 0); eexists; (split; [|reflexivity]); [left|right]; reflexivity.
  - inversion HF as [|b' t' Hb HF']; subst b' t'.
    replace (b <? 128) with false by (symmetry; apply N.ltb_ge; exact Hb).
    apply IH; [exact HF'|cbn [length] in HL; lia].
Qed.

Lemma uv_dec_pprefix x t : pprefix t (uv_enc x) -> exists e, eofish e /\ uv_dec t = Err e.
Proof.
  intro H. destruct (uv_enc_fuel_pprefix 10 x t H) as [HF HL].
  apply uv_dec_go_cont; assumption.
Qed.

Lemma uv_dec_min_pprefix x t : pprefix t (uv_enc x) -> exists e, eofish e /\ uv_dec_min t = Err e.
Proof.
  intro H. destruct (uv_dec_pprefix x t H) as (e & He & Hd). exists e. split; [exact He|].
  apply uv_dec_min_err. exact Hd.
Qed.

Theorem parse_hdr_cut usz csz isnil t :
  usz < 2 ^ 64 -> csz < 2 ^ 64 -> pprefix t (hdr usz csz isnil) ->
  exists e, eofish e /\ parse_hdr t = Err e.
Proof.
  intros Hu Hc H.
  unfold hdr in H. cbv zeta in H. set (k := crc32c (hdr_prefix usz csz isnil)) in H.
  unfold hdr_prefix in H. rewrite <- !app_assoc in H.
  apply pprefix_app in H. destruct H as [H | (t1 & -> & H)].
  { destruct (uv_dec_min_pprefix _ _ H) as (e & He & Hd). exists e. split; [exact He|].
    unfold parse_hdr. rewrite Hd. reflexivity. }
  unfold parse_hdr. rewrite uv_dec_min_roundtrip by (vm_compute; reflexivity).
  rewrite N.eqb_refl. cbn [negb].
  apply pprefix_app in H. destruct H as [H | (t2 & -> & H)].
  { destruct t1 as [|b t1]; [exists EOF; split; [left|]; reflexivity|].
    exfalso. apply pprefix_length in H. cbn [length] in H. lia. }
  cbn [app].
  apply pprefix_app in H. destruct H as [H | (t3 & -> & H)].
  { destruct (uv_dec_min_pprefix _ _ H) as (e & He & Hd). exists e. split; [exact He|].
    rewrite Hd. reflexivity. }
  rewrite uv_dec_min_roundtrip by exact Hu.
  apply pprefix_app in H. destruct H as [H | (t4 & -> & H)].
  { destruct (uv_dec_min_pprefix _ _ H) as (e & He & Hd). exists e. split; [exact He|].
    rewrite Hd. reflexivity. }
  rewrite uv_dec_min_roundtrip by exact Hc.
  destruct (uv_dec_min_pprefix _ _ H) as (e & He & Hd). exists e. split; [exact He|].
  cbv zeta. rewrite Hd. reflexivity.
Qed.

Lemma parse_hdr_stream_short t : (length t < 36)%nat -> parse_hdr_stream t = parse_hdr t.
Proof.
  intro H. unfold parse_hdr_stream. cbv zeta. rewrite firstn_all2 by lia.
  replace (36 <=? lenN t) with false by (symmetry; apply N.leb_gt; unfold lenN; lia).
  destruct (parse_hdr t) as [a|e]; [reflexivity|]. destruct e; reflexivity.
Qed.

Theorem parse_hdr_stream_cut usz csz isnil t :
  usz < 2 ^ 64 -> csz < 2 ^ 64 -> pprefix t (hdr usz csz isnil) ->
  exists e, eofish e /\ parse_hdr_stream t = Err e.
Proof.
  intros Hu Hc H. pose proof (pprefix_length _ _ H) as HL.
  pose proof (hdr_len usz csz isnil Hu Hc) as HH.
  rewrite parse_hdr_stream_short by lia. apply (parse_hdr_cut usz csz isnil); assumption.
Qed.

Print Assumptions parse_hdr_hdr.
Print Assumptions parse_hdr_window.
Print Assumptions parse_hdr_stream_hdr.
Print Assumptions hdr_len.
Print Assumptions parse_file_hdr_ok.
Print Assumptions file_header_rejected.
Print Assumptions file_header_short.
Print Assumptions parse_hdr_stream_cut.
