(* FileWriter: offsets bookkeeping, seek-back and truncate-on-close (recordio/file_writer.go).
   The buffered writer underneath is transparent for the final file content (checked by the
   correspondence on many buffer sizes); the file is modelled as bytes with overwrite-at-offset. *)
From GoSST Require Import Base.Bytes RecordIO.Format.
Local Open Scope N_scope.

Record wstate := mkW { w_file : bytes; w_cur : N; w_largest : N }.

Definition w_open (c : codec) : wstate := mkW (file_hdr (ctype c)) 8 8.

Definition write_at (f : bytes) (off : N) (d : bytes) : bytes :=
  firstn (N.to_nat off) f ++ d ++ skipn (N.to_nat off + length d) f.

(* Write / WriteSync: returns the offset of the record *)
Definition w_write (c : codec) (r : option bytes) (s : wstate) : wstate * N :=
  let e := enc_rec c r in
  let f' := write_at (w_file s) (w_cur s) e in
  let cur' := w_cur s + lenN e in
  match r with
  | None => (mkW f' cur' (w_largest s), w_cur s)
  | Some _ => (mkW f' cur' (N.max (w_largest s) cur'), w_cur s)
  end.

Definition w_seek (off : N) (s : wstate) : res wstate :=
  if off <? file_header_size then Err Rejected
  else if w_cur s <? off then Err Rejected
  else Ok (mkW (w_file s) off (N.max (w_largest s) (w_cur s))).

Definition w_size (s : wstate) : N := w_cur s.

Definition w_close (s : wstate) : bytes :=
  if w_cur s <? w_largest s then firstn (N.to_nat (w_cur s)) (w_file s) else w_file s.

(* writer programs *)
Inductive wop := WWrite (r : option bytes) | WSeek (off : N).

(* returns final state and, per op, (offset, failed?) *)
Fixpoint w_run (c : codec) (ops : list wop) (s : wstate) : wstate * list (N * bool) :=
  match ops with
  | [] => (s, [])
  | WWrite r :: rest =>
      let '(s', off) := w_write c r s in
      let '(s'', outs) := w_run c rest s' in (s'', (off, false) :: outs)
  | WSeek off :: rest =>
      match w_seek off s with
      | Ok s' => let '(s'', outs) := w_run c rest s' in (s'', (off, false) :: outs)
      | Err _ => let '(s'', outs) := w_run c rest s in (s'', (off, true) :: outs)
      end
  end.

(* logical content: the records that survive, with their offsets *)
Fixpoint survivors (c : codec) (ops : list wop) (cur : N) (acc : list (N * option bytes))
  : list (N * option bytes) :=
  match ops with
  | [] => acc
  | WWrite r :: rest => survivors c rest (cur + lenN (enc_rec c r)) (acc ++ [(cur, r)])
  | WSeek off :: rest =>
      if (off <? file_header_size) || (cur <? off) then survivors c rest cur acc
      else survivors c rest off (filter (fun p => fst p <? off) acc)
  end.
