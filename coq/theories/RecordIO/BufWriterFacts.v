(* The buffered writer never reorders, drops or invents bytes: what has reached the file plus what sits in the buffer
   is, at every moment, exactly what the caller handed over, in order - so the file is a byte prefix of the handed
   stream at every boundary between two calls to the underlying writer, and the whole stream after Flush / Close. *)
From GoSST Require Import Base.Bytes RecordIO.BufWriter.
From Coq Require Import Arith Lia.

Lemma written_by_app a b : written_by (a ++ b) = written_by a ++ written_by b.
Proof.
  induction a as [|e a IH]; [reflexivity|].
  destruct e; cbn [app written_by]; rewrite IH; [rewrite app_assoc|..]; reflexivity.
Qed.

Lemma bw_flush_stream buf : written_by (fst (bw_flush buf)) ++ snd (bw_flush buf) = buf /\ snd (bw_flush buf) = [].
Proof. destruct buf; cbn; [split; reflexivity|]. rewrite !app_nil_r. split; reflexivity. Qed.

Lemma bw_write_stream cap buf p : length buf <= cap ->
  written_by (fst (bw_write cap buf p)) ++ snd (bw_write cap buf p) = buf ++ p
  /\ length (snd (bw_write cap buf p)) <= cap.
Proof.
  intros Hb. unfold bw_write.
  destruct (Nat.leb_spec (length p) (cap - length buf)) as [Hfit|Hbig].
  - cbn [fst snd written_by app]. split; [reflexivity|]. rewrite app_length. lia.
  - destruct buf as [|b0 buf'].
    + cbn [fst snd written_by app length]. rewrite !app_nil_r. split; [reflexivity|lia].
    + remember (b0 :: buf') as buf eqn:Eb. set (n := cap - length buf).
      destruct (Nat.leb_spec (length (skipn n p)) cap) as [Hrest|Hrest].
      * cbn [fst snd written_by].
        rewrite app_nil_r, <- app_assoc, firstn_skipn. split; [reflexivity|exact Hrest].
      * cbn [fst snd written_by length].
        rewrite !app_nil_r, <- app_assoc, firstn_skipn. split; [reflexivity|lia].
Qed.

Lemma bw_step_stream cap buf o : length buf <= cap ->
  written_by (fst (bw_step cap buf o)) ++ snd (bw_step cap buf o)
  = buf ++ match o with BWrite p => p | _ => [] end
  /\ length (snd (bw_step cap buf o)) <= cap.
Proof.
  intros Hb. destruct o as [p| |off|]; cbn [bw_step].
  - apply bw_write_stream. exact Hb.
  - destruct (bw_flush_stream buf) as [H1 H2]. rewrite app_nil_r. split; [exact H1|rewrite H2; cbn; lia].
  - destruct (bw_flush_stream buf) as [H1 H2]. destruct (bw_flush buf) as [e b] eqn:E. cbn [fst snd] in *.
    rewrite written_by_app. cbn [written_by]. subst b. rewrite !app_nil_r in *.
    split; [exact H1|cbn; lia].
  - destruct (bw_flush_stream buf) as [H1 H2]. destruct (bw_flush buf) as [e b] eqn:E. cbn [fst snd] in *.
    rewrite written_by_app. cbn [written_by]. subst b. rewrite !app_nil_r in *.
    split; [exact H1|cbn; lia].
Qed.

(* the invariant over whole programs *)
Theorem bw_run_stream cap : forall ops buf, length buf <= cap ->
  written_by (concat (fst (bw_run cap buf ops))) ++ snd (bw_run cap buf ops) = buf ++ handed ops
  /\ length (snd (bw_run cap buf ops)) <= cap.
Proof.
  induction ops as [|o ops IH]; intros buf Hb.
  - cbn. rewrite app_nil_r. split; [reflexivity|exact Hb].
  - cbn [bw_run]. destruct (bw_step_stream cap buf o Hb) as [H1 H2].
    destruct (bw_step cap buf o) as [e b] eqn:E. cbn [fst snd] in H1, H2.
    destruct (IH b H2) as [H3 H4]. destruct (bw_run cap b ops) as [es b'] eqn:E2. cbn [fst snd] in *.
    cbn [concat]. rewrite written_by_app, <- app_assoc, H3. split; [|exact H4].
    rewrite app_assoc, H1. destruct o; cbn [handed]; rewrite <- ?app_assoc, ?app_nil_r; reflexivity.
Qed.

(* at EVERY boundary between two calls to the underlying writer the file is a byte prefix of the handed stream *)
Theorem bw_file_is_prefix cap ops k :
  let evs := concat (fst (bw_run cap [] ops)) in
  exists rest, handed ops = written_by (firstn k evs) ++ rest.
Proof.
  cbv zeta. destruct (bw_run_stream cap ops [] (Nat.le_0_l cap)) as [H _]. cbn [app] in H.
  set (evs := concat (fst (bw_run cap [] ops))) in *.
  exists (written_by (skipn k evs) ++ snd (bw_run cap [] ops)).
  rewrite app_assoc, <- written_by_app, firstn_skipn. symmetry. exact H.
Qed.

Corollary bw_file_is_firstn cap ops k :
  let evs := concat (fst (bw_run cap [] ops)) in
  written_by (firstn k evs) = firstn (length (written_by (firstn k evs))) (handed ops).
Proof.
  cbv zeta. destruct (bw_file_is_prefix cap ops k) as [rest H]. rewrite H.
  rewrite firstn_app, firstn_all, Nat.sub_diag. cbn [firstn]. rewrite app_nil_r. reflexivity.
Qed.

(* once the program ends with Flush or Close, everything handed over is in the file *)
Theorem bw_flushed_all cap ops last :
  last = BFlush \/ last = BClose ->
  written_by (concat (fst (bw_run cap [] (ops ++ [last])))) = handed ops.
Proof.
  intros Hl. destruct (bw_run_stream cap (ops ++ [last]) [] (Nat.le_0_l cap)) as [H _]. cbn [app] in H.
  assert (Hh : handed (ops ++ [last]) = handed ops).
  { clear H. induction ops as [|o ops IH]; [destruct Hl as [-> | ->]; reflexivity|].
    destruct o; cbn [app handed]; rewrite IH; reflexivity. }
  rewrite Hh in H.
  assert (Hb : forall ops buf, snd (bw_run cap buf (ops ++ [last])) = []).
  { clear H Hh. intros ops0. induction ops0 as [|o ops1 IH]; intros buf.
    - cbn [app bw_run]. destruct Hl as [-> | ->]; cbn [bw_step].
      + destruct (bw_flush_stream buf) as [_ H2]. destruct (bw_flush buf); cbn [snd] in *. exact H2.
      + destruct (bw_flush_stream buf) as [_ H2]. destruct (bw_flush buf); cbn [snd] in *. exact H2.
    - cbn [app bw_run]. destruct (bw_step cap buf o) as [e b]. specialize (IH b).
      destruct (bw_run cap b (ops1 ++ [last])); cbn [snd] in *. exact IH. }
  rewrite Hb, app_nil_r in H. exact H.
Qed.

Local Open Scope N_scope.
(* non-vacuity: a 4-byte buffer; a write that fits, one that fills and overflows the buffer, one that bypasses it *)
Example bw_example :
  bw_run 4%nat [] [BWrite [1; 2]; BWrite [3; 4; 5]; BWrite [6; 7; 8; 9; 10; 11]; BWrite [12; 13; 14; 15; 16; 17]; BWrite [18]; BClose]
  = ([[]; [EWrite [1; 2; 3; 4]]; [EWrite [5; 6; 7; 8]]; [EWrite [9; 10; 11; 12]; EWrite [13; 14; 15; 16; 17]]; [];
      [EWrite [18]; EClose]], []).
Proof. reflexivity. Qed.

Print Assumptions bw_run_stream.
Print Assumptions bw_file_is_prefix.
Print Assumptions bw_flushed_all.
