(* C04: SeekNext returns the first record image that starts at or after the offset - for every
   byte string, every offset and every scan-window size >= 4. *)
From GoSST Require Import Base.Bytes Base.Varint Base.VarintFacts Base.Crc Base.CrcFacts.
From GoSST Require Import RecordIO.Format RecordIO.FormatFacts RecordIO.Writer RecordIO.MmapReader.
From Coq Require Import Lia.
Local Open Scope N_scope.

Definition marker_at (f : bytes) (o : N) : bool := bytes_eqb (sub f o 3) marker.

(* a position is acceptable when the three marker bytes are there and a complete record parses *)
Definition acceptable (c : codec) (f : bytes) (o : N) : bool :=
  marker_at f o && match read_at c f o with Ok _ => true | Err _ => false end.


(* ---------- small list / N conversion lemmas ---------- *)
Lemma nth_nil_N (j : nat) (d : N) : nth j (@nil N) d = d.
Proof. destruct j; reflexivity. Qed.

Lemma nth_skipn' (l : bytes) : forall n k d, nth k (skipn n l) d = nth (n + k) l d.
Proof.
  induction l as [|x l IH]; intros n k d.
  - rewrite skipn_nil, !nth_nil_N. reflexivity.
  - destruct n as [|n]; simpl; [reflexivity | apply IH].
Qed.

Lemma nth_firstn' (l : bytes) : forall n k d, (k < n)%nat -> nth k (firstn n l) d = nth k l d.
Proof.
  induction l as [|x l IH]; intros n k d Hk.
  - rewrite firstn_nil. reflexivity.
  - destruct n as [|n]; [lia|]. destruct k as [|k]; simpl; [reflexivity | apply IH; lia].
Qed.

Lemma lenN_sub f o n : lenN (sub f o n) = N.min n (lenN f - o).
Proof. unfold lenN, sub. rewrite firstn_length, skipn_length. lia. Qed.

Lemma nth_sub f o n k d :
  k < lenN (sub f o n) -> nth (N.to_nat k) (sub f o n) d = nth (N.to_nat (o + k)) f d.
Proof.
  intros Hk. rewrite lenN_sub in Hk. unfold sub.
  rewrite nth_firstn' by lia. rewrite nth_skipn'. f_equal. lia.
Qed.

Lemma bytes_eqb_eq (a : bytes) : forall b, bytes_eqb a b = true <-> a = b.
Proof.
  unfold bytes_eqb. induction a as [|x a IH]; intros [|y b]; simpl; split; intros H;
    try reflexivity; try discriminate.
  - apply andb_true_iff in H. destruct H as [Hx Hab].
    apply N.eqb_eq in Hx. apply IH in Hab. subst. reflexivity.
  - injection H as Hx Hab. subst. rewrite N.eqb_refl. apply IH. reflexivity.
Qed.

(* byte of the file at a position; 256 (not a byte) beyond the end *)
Definition byte_at (f : bytes) (o : N) : N := nth (N.to_nat o) f 256.

Lemma marker_at_bytes f o :
  marker_at f o = true <->
  byte_at f o = 0x91 /\ byte_at f (o + 1) = 0x8d /\ byte_at f (o + 2) = 0x4c.
Proof.
  unfold marker_at, byte_at. rewrite bytes_eqb_eq. unfold sub.
  replace (N.to_nat (o + 1)) with (N.to_nat o + 1)%nat by lia.
  replace (N.to_nat (o + 2)) with (N.to_nat o + 2)%nat by lia.
  replace (N.to_nat o) with (N.to_nat o + 0)%nat at 2 by lia.
  rewrite <- !nth_skipn'.
  destruct (skipn (N.to_nat o) f) as [|a [|b [|c g]]]; unfold marker; simpl;
    (split; [intros H; try discriminate H | intros [H0 [H1 H2]]; try discriminate]).
  - injection H as Ha Hb Hc. subst. repeat split.
  - subst. reflexivity.
Qed.

Lemma marker_at_len f o : marker_at f o = true -> o + 3 <= lenN f.
Proof.
  unfold marker_at. rewrite bytes_eqb_eq. intros H.
  assert (HL : lenN (sub f o 3) = 3) by (rewrite H; reflexivity).
  rewrite lenN_sub in HL. lia.
Qed.

(* the marker cannot overlap itself: needed to continue three bytes after a failed trial read *)
Lemma marker_no_self_overlap f o : marker_at f o = true -> marker_at f (o + 1) = false /\ marker_at f (o + 2) = false.
Proof.
  intros H. apply marker_at_bytes in H. destruct H as [H0 [H1 H2]].
  split.
  - destruct (marker_at f (o + 1)) eqn:E; [|reflexivity].
    apply marker_at_bytes in E. destruct E as [E0 _]. rewrite H1 in E0. discriminate.
  - destruct (marker_at f (o + 2)) eqn:E; [|reflexivity].
    apply marker_at_bytes in E. destruct E as [E0 _]. rewrite H2 in E0. discriminate.
Qed.


(* ---------- acceptable positions ---------- *)
Lemma acceptable_marker c f o : acceptable c f o = true -> marker_at f o = true.
Proof. unfold acceptable. intros H. apply andb_true_iff in H. apply H. Qed.

Lemma acceptable_intro c f o r :
  marker_at f o = true -> read_at c f o = Ok r -> acceptable c f o = true.
Proof. unfold acceptable. intros Hm Hr. rewrite Hm, Hr. reflexivity. Qed.

Lemma not_acceptable_marker c f o : marker_at f o = false -> acceptable c f o = false.
Proof. unfold acceptable. intros H. rewrite H. reflexivity. Qed.

Lemma not_acceptable_read c f o e : read_at c f o = Err e -> acceptable c f o = false.
Proof. unfold acceptable. intros H. rewrite H. apply andb_false_r. Qed.

Lemma parse_hdr_marker_only : parse_hdr marker = Err EOF.
Proof. vm_compute. reflexivity. Qed.

(* a lone marker at the very end of the file is not a record *)
Lemma read_at_marker_at_end c f o :
  marker_at f o = true -> o + 3 = lenN f -> read_at c f o = Err WrappedEOF.
Proof.
  intros Hm Hlen. unfold read_at.
  assert (Hw : sub f o max_header_size = marker).
  { unfold marker_at in Hm. apply bytes_eqb_eq in Hm. rewrite <- Hm.
    unfold sub, max_header_size.
    assert (HL : length (skipn (N.to_nat o) f) = 3%nat).
    { rewrite skipn_length. unfold lenN in Hlen. lia. }
    rewrite !firstn_all2 by lia. reflexivity. }
  destruct (lenN f <? o) eqn:E; [apply N.ltb_lt in E; lia|].
  rewrite Hw. unfold marker at 1. rewrite parse_hdr_marker_only. reflexivity.
Qed.

Lemma acceptable_bound c f o : acceptable c f o = true -> o + 4 <= lenN f.
Proof.
  intros H. pose proof (acceptable_marker _ _ _ H) as Hm.
  pose proof (marker_at_len _ _ Hm) as Hl.
  destruct (N.eq_dec (o + 3) (lenN f)) as [Heq|Hne]; [|lia].
  rewrite (not_acceptable_read _ _ _ _ (read_at_marker_at_end c f o Hm Heq)) in H. discriminate.
Qed.

Lemma no_acceptable_near_end c f next :
  lenN f - next <= 3 -> forall o, next <= o -> acceptable c f o = false.
Proof.
  intros Hn o Ho. destruct (acceptable c f o) eqn:E; [|reflexivity].
  apply acceptable_bound in E. lia.
Qed.

(* ---------- the inner marker match ---------- *)
Lemma match_marker_spec f next seekLen win numRead i :
  win = sub f next seekLen -> numRead = lenN win -> i < numRead ->
  match match_marker win numRead i marker with
  | (ix, true) => numRead <= i + 3
  | (ix, false) =>
      (ix - i < 3 /\ marker_at f (next + i) = false)
      \/ (ix = i + 3 /\ i + 3 < numRead /\ marker_at f (next + i) = true)
  end.
Proof.
  intros Hwin Hnum Hi. subst win.
  assert (Hb : forall k, k < numRead ->
             nth (N.to_nat k) (sub f next seekLen) 256 = byte_at f (next + k)).
  { intros k Hk. subst numRead. apply nth_sub. exact Hk. }
  assert (Hno : forall k, k < 3 ->
             (k = 0 -> byte_at f (next + i) <> 0x91) ->
             (k = 1 -> byte_at f (next + i + 1) <> 0x8d) ->
             (k = 2 -> byte_at f (next + i + 2) <> 0x4c) ->
             marker_at f (next + i) = false).
  { intros k Hk H0 H1 H2. destruct (marker_at f (next + i)) eqn:E; [|reflexivity].
    apply marker_at_bytes in E. destruct E as [E0 [E1 E2]].
    assert (Hc : k = 0 \/ k = 1 \/ k = 2) by lia.
    destruct Hc as [Hc|[Hc|Hc]]; [elim (H0 Hc) | elim (H1 Hc) | elim (H2 Hc)]; assumption. }
  unfold marker. cbn [match_marker].
  rewrite (Hb i Hi).
  destruct (byte_at f (next + i) =? 145) eqn:E0.
  2:{ left. split; [lia|]. apply N.eqb_neq in E0. apply (Hno 0); intros; try lia; assumption. }
  destruct (numRead <=? i + 1) eqn:L1; [apply N.leb_le in L1; lia|]. apply N.leb_gt in L1.
  rewrite (Hb (i + 1) L1).
  replace (next + (i + 1)) with (next + i + 1) by lia.
  destruct (byte_at f (next + i + 1) =? 141) eqn:E1.
  2:{ left. split; [lia|]. apply N.eqb_neq in E1. apply (Hno 1); intros; try lia; assumption. }
  destruct (numRead <=? i + 1 + 1) eqn:L2; [apply N.leb_le in L2; lia|]. apply N.leb_gt in L2.
  rewrite (Hb (i + 1 + 1) L2).
  replace (next + (i + 1 + 1)) with (next + i + 2) by lia.
  destruct (byte_at f (next + i + 2) =? 76) eqn:E2.
  2:{ left. split; [lia|]. apply N.eqb_neq in E2. apply (Hno 2); intros; try lia; assumption. }
  destruct (numRead <=? i + 1 + 1 + 1) eqn:L3; [apply N.leb_le in L3; lia|]. apply N.leb_gt in L3.
  right. split; [lia|]. split; [lia|].
  apply marker_at_bytes. apply N.eqb_eq in E0, E1, E2. repeat split; assumption.
Qed.


(* ---------- the inner scan over one window ---------- *)
Lemma scan_spec c f next seekLen win numRead :
  win = sub f next seekLen -> numRead = lenN win ->
  forall fuel i,
  i <= numRead -> (N.to_nat numRead - N.to_nat i < fuel)%nat ->
  (forall o, next <= o -> o < next + i -> acceptable c f o = false) ->
  match scan fuel c f win next numRead i with
  | Found o r =>
      next <= o /\ acceptable c f o = true /\ read_at c f o = Ok r
      /\ (forall o', next <= o' -> o' < o -> acceptable c f o' = false)
  | Cont j =>
      i <= j /\ j <= numRead
      /\ (forall o, next <= o -> o < next + j -> acceptable c f o = false)
      /\ (j = 0 -> numRead <= 3)
  | ScanFuel => False
  end.
Proof.
  intros Hwin Hnum fuel.
  induction fuel as [|fu IH]; intros i Hi Hfuel Hinv; [lia|].
  cbn [scan].
  destruct (numRead <=? i) eqn:Hend.
  { apply N.leb_le in Hend. repeat split; try lia. exact Hinv. }
  apply N.leb_gt in Hend.
  pose proof (match_marker_spec f next seekLen win numRead i Hwin Hnum Hend) as Hmm.
  destruct (match_marker win numRead i marker) as [ix hit].
  destruct hit.
  { repeat split; try lia. exact Hinv. }
  destruct Hmm as [[Hlt Hnm] | [Hix [Hroom Hm]]].
  - (* mismatch: continue at i + 1 *)
    apply N.ltb_lt in Hlt. rewrite Hlt.
    assert (Hinv' : forall o, next <= o -> o < next + (i + 1) -> acceptable c f o = false).
    { intros o Ho1 Ho2. destruct (N.eq_dec o (next + i)) as [->|Hne].
      - apply not_acceptable_marker. exact Hnm.
      - apply Hinv; lia. }
    specialize (IH (i + 1) ltac:(lia) ltac:(lia) Hinv').
    destruct (scan fu c f win next numRead (i + 1)) as [o r|j|]; [exact IH | | exact IH].
    destruct IH as [H1 [H2 [H3 H4]]]. repeat split; try lia. exact H3.
  - (* full marker: trial read *)
    subst ix. destruct (i + 3 - i <? 3) eqn:Hlt; [apply N.ltb_lt in Hlt; lia|].
    destruct (read_at c f (next + i)) as [r|e] eqn:Hrd.
    + split; [lia|]. split; [exact (acceptable_intro _ _ _ _ Hm Hrd)|]. split; [exact Hrd|].
      exact Hinv.
    + assert (Hinv' : forall o, next <= o -> o < next + (i + 3) -> acceptable c f o = false).
      { intros o Ho1 Ho2.
        destruct (marker_no_self_overlap f (next + i) Hm) as [Hm1 Hm2].
        destruct (N.eq_dec o (next + i)) as [->|Hne0]; [exact (not_acceptable_read _ _ _ _ Hrd)|].
        destruct (N.eq_dec o (next + i + 1)) as [->|Hne1]; [exact (not_acceptable_marker _ _ _ Hm1)|].
        destruct (N.eq_dec o (next + i + 2)) as [->|Hne2]; [exact (not_acceptable_marker _ _ _ Hm2)|].
        apply Hinv; lia. }
      specialize (IH (i + 3) ltac:(lia) ltac:(lia) Hinv').
      destruct (scan fu c f win next numRead (i + 3)) as [o r|j|]; [exact IH | | exact IH].
      destruct IH as [H1 [H2 [H3 H4]]]. repeat split; try lia. exact H3.
Qed.

(* ---------- the outer loop over windows ---------- *)
Definition seek_post (c : codec) (f : bytes) (off : N) (res : res (N * option bytes)) : Prop :=
  match res with
  | Ok (o, r) =>
      off <= o /\ acceptable c f o = true /\ read_at c f o = Ok r
      /\ (forall o', off <= o' -> o' < o -> acceptable c f o' = false)
  | Err EOF => forall o', off <= o' -> acceptable c f o' = false
  | Err _ => False
  end.

Lemma seek_loop_spec c seekLen f off :
  4 <= seekLen ->
  forall fuel next,
  off <= next -> next <= lenN f -> (length f - N.to_nat next < fuel)%nat ->
  (forall o, off <= o -> o < next -> acceptable c f o = false) ->
  seek_post c f off (seek_loop fuel c seekLen f next).
Proof.
  intros Hseek fuel.
  induction fuel as [|fu IH]; intros next Hoff Hnext Hfuel Hinv; [lia|].
  cbn [seek_loop].
  destruct (lenN f <? next) eqn:Hbeyond; [apply N.ltb_lt in Hbeyond; lia|].
  pose proof (lenN_sub f next seekLen) as Hnum.
  remember (sub f next seekLen) as win eqn:Hwin.
  remember (lenN win) as numRead eqn:HnumRead.
  assert (Hall : lenN f - next <= 3 -> forall o', off <= o' -> acceptable c f o' = false).
  { intros Hshort o' Ho'. destruct (N.lt_ge_cases o' next) as [Hlt|Hge].
    - apply Hinv; assumption.
    - apply (no_acceptable_near_end c f next Hshort); assumption. }
  destruct (numRead =? 0) eqn:Hzero.
  { apply N.eqb_eq in Hzero. cbn [seek_post]. apply Hall. lia. }
  apply N.eqb_neq in Hzero.
  assert (Hfuel0 : (N.to_nat numRead - N.to_nat 0 < S (length win))%nat).
  { subst numRead. unfold lenN. lia. }
  pose proof (scan_spec c f next seekLen win numRead Hwin HnumRead (S (length win)) 0
                ltac:(lia) Hfuel0 ltac:(intros; lia)) as Hscan.
  destruct (scan (S (length win)) c f win next numRead 0) as [o r|j|]; [| |elim Hscan].
  - cbn [seek_post]. destruct Hscan as [H1 [H2 [H3 H4]]].
    split; [lia|]. split; [exact H2|]. split; [exact H3|].
    intros o' Ho1 Ho2. destruct (N.lt_ge_cases o' next) as [Hlt|Hge].
    + apply Hinv; assumption.
    + apply H4; assumption.
  - destruct Hscan as [_ [Hj [Hnone Hj0]]].
    destruct (j =? 0) eqn:Ej.
    + apply N.eqb_eq in Ej. cbn [seek_post]. apply Hall. specialize (Hj0 Ej). lia.
    + apply N.eqb_neq in Ej. apply IH; [lia | lia | unfold lenN in *; lia | ].
      intros o Ho1 Ho2. destruct (N.lt_ge_cases o next) as [Hlt|Hge].
      * apply Hinv; assumption.
      * apply Hnone; assumption.
Qed.

Theorem seek_next_first (c : codec) (seekLen : N) (f : bytes) (off : N) :
  4 <= seekLen -> off <= lenN f ->
  match seek_next c seekLen f off with
  | Ok (o, r) =>
      off <= o /\ acceptable c f o = true /\ read_at c f o = Ok r
      /\ (forall o', off <= o' -> o' < o -> acceptable c f o' = false)
  | Err EOF => forall o', off <= o' -> acceptable c f o' = false
  | Err _ => False
  end.
Proof.
  intros Hseek Hoff.
  apply (seek_loop_spec c seekLen f off Hseek (S (length f)) off); try lia.
Qed.


(* the specification determines the result *)
Lemma seek_post_of_seek_next c seekLen f off :
  4 <= seekLen -> off <= lenN f -> seek_post c f off (seek_next c seekLen f off).
Proof. intros Hs Ho. exact (seek_next_first c seekLen f off Hs Ho). Qed.

Lemma seek_post_ok_unique c f off o1 r1 o2 r2 :
  seek_post c f off (Ok (o1, r1)) -> seek_post c f off (Ok (o2, r2)) -> (o1, r1) = (o2, r2).
Proof.
  cbn [seek_post]. intros [Ha1 [Ha2 [Ha3 Ha4]]] [Hb1 [Hb2 [Hb3 Hb4]]].
  assert (Ho : o1 = o2).
  { destruct (N.lt_trichotomy o1 o2) as [Hlt|[Heq|Hgt]]; [|exact Heq|].
    - rewrite (Hb4 o1 Ha1 Hlt) in Ha2. discriminate.
    - rewrite (Ha4 o2 Hb1 Hgt) in Hb2. discriminate. }
  subst o2. rewrite Ha3 in Hb3. injection Hb3 as Hr. subst. reflexivity.
Qed.

Lemma seek_post_unique c f off x y : seek_post c f off x -> seek_post c f off y -> x = y.
Proof.
  intros Hx Hy.
  destruct x as [[o1 r1]|e1], y as [[o2 r2]|e2].
  - f_equal. exact (seek_post_ok_unique _ _ _ _ _ _ _ Hx Hy).
  - destruct e2; try (elim Hy). cbn [seek_post] in Hx, Hy.
    destruct Hx as [Ha1 [Ha2 _]]. rewrite (Hy o1 Ha1) in Ha2. discriminate.
  - destruct e1; try (elim Hx). cbn [seek_post] in Hx, Hy.
    destruct Hy as [Hb1 [Hb2 _]]. rewrite (Hx o2 Hb1) in Hb2. discriminate.
  - destruct e1; try (elim Hx); destruct e2; try (elim Hy). reflexivity.
Qed.

(* the result does not depend on the window size *)
Corollary seek_next_window_independent (c : codec) (s1 s2 : N) (f : bytes) (off : N) :
  4 <= s1 -> 4 <= s2 -> off <= lenN f -> seek_next c s1 f off = seek_next c s2 f off.
Proof.
  intros H1 H2 Ho.
  apply (seek_post_unique c f off); apply seek_post_of_seek_next; assumption.
Qed.

(* on a file whose only acceptable positions are the starts of its records (no payload embeds a
   complete record image - inherent to any self-synchronising format), SeekNext returns the first
   record that starts at or after the offset, else EOF *)
Fixpoint first_at_or_after (off : N) (recs : list (N * option bytes)) : option (N * option bytes) :=
  match recs with
  | [] => None
  | (o, r) :: rest => if off <=? o then Some (o, r) else first_at_or_after off rest
  end.


Lemma first_at_or_after_spec (off : N) (recs : list (N * option bytes)) :
  (forall pre o r post, recs = pre ++ (o, r) :: post -> Forall (fun p => fst p < o) pre) ->
  match first_at_or_after off recs with
  | Some (o, r) =>
      In (o, r) recs /\ off <= o /\ (forall o' r', In (o', r') recs -> off <= o' -> o <= o')
  | None => forall o' r', In (o', r') recs -> o' < off
  end.
Proof.
  induction recs as [|[o0 r0] rest IH]; intros Hsorted.
  - cbn [first_at_or_after]. intros o' r' Hin. destruct Hin.
  - cbn [first_at_or_after].
    assert (Hsorted' : forall pre o r post, rest = pre ++ (o, r) :: post ->
                         Forall (fun p => fst p < o) pre).
    { intros pre o r post Heq.
      assert (Hc : (o0, r0) :: rest = ((o0, r0) :: pre) ++ (o, r) :: post)
        by (rewrite Heq; reflexivity).
      pose proof (Hsorted _ _ _ _ Hc) as HF. inversion HF as [|x l Hx HF' Hxl]; subst. exact HF'. }
    assert (Hhead : forall o' r', In (o', r') rest -> o0 < o').
    { intros o' r' Hin. apply in_split in Hin. destruct Hin as [pre [post Heq]].
      assert (Hc : (o0, r0) :: rest = ((o0, r0) :: pre) ++ (o', r') :: post)
        by (rewrite Heq; reflexivity).
      pose proof (Hsorted _ _ _ _ Hc) as HF. inversion HF as [|x l Hx HF' Hxl]; subst. exact Hx. }
    specialize (IH Hsorted').
    destruct (off <=? o0) eqn:Hle.
    + apply N.leb_le in Hle. split; [left; reflexivity|]. split; [exact Hle|].
      intros o' r' [Heq|Hin] _.
      * injection Heq as Ho _. lia.
      * specialize (Hhead o' r' Hin). lia.
    + apply N.leb_gt in Hle.
      destruct (first_at_or_after off rest) as [[o r]|].
      * destruct IH as [Hin [Hoff Hleast]]. split; [right; exact Hin|]. split; [exact Hoff|].
        intros o' r' [Heq|Hin'] Ho'.
        -- injection Heq as Ho _. lia.
        -- exact (Hleast o' r' Hin' Ho').
      * intros o' r' [Heq|Hin'].
        -- injection Heq as Ho _. lia.
        -- exact (IH o' r' Hin').
Qed.

Lemma in_map_fst_inv (recs : list (N * option bytes)) o :
  In o (map fst recs) -> exists r, In (o, r) recs.
Proof.
  intros Hin. apply in_map_iff in Hin. destruct Hin as [[o' r] [Heq Hin]].
  cbn [fst] in Heq. subst o'. exists r. exact Hin.
Qed.

Theorem seek_next_written (c : codec) (seekLen : N) (f : bytes) (recs : list (N * option bytes)) (off : N) :
  4 <= seekLen -> off <= lenN f ->
  (* recs: ascending offsets, each readable and starting with the marker *)
  (forall pre o r post, recs = pre ++ (o, r) :: post -> Forall (fun p => fst p < o) pre) ->
  (forall o r, In (o, r) recs -> acceptable c f o = true /\ read_at c f o = Ok r) ->
  (forall o, acceptable c f o = true -> In o (map fst recs)) ->
  seek_next c seekLen f off =
    match first_at_or_after off recs with Some p => Ok p | None => Err EOF end.
Proof.
  intros Hseek Hoff Hsorted Hrecs Hcomplete.
  apply (seek_post_unique c f off); [apply seek_post_of_seek_next; assumption|].
  pose proof (first_at_or_after_spec off recs Hsorted) as Hfa.
  destruct (first_at_or_after off recs) as [[o r]|].
  - destruct Hfa as [Hin [Ho Hleast]]. destruct (Hrecs o r Hin) as [Hacc Hrd].
    cbn [seek_post]. split; [exact Ho|]. split; [exact Hacc|]. split; [exact Hrd|].
    intros o' Ho1 Ho2. destruct (acceptable c f o') eqn:E; [|reflexivity].
    apply Hcomplete in E. apply in_map_fst_inv in E. destruct E as [r' Hin'].
    specialize (Hleast o' r' Hin' Ho1). lia.
  - cbn [seek_post]. intros o' Ho'. destruct (acceptable c f o') eqn:E; [|reflexivity].
    apply Hcomplete in E. apply in_map_fst_inv in E. destruct E as [r' Hin'].
    specialize (Hfa o' r' Hin'). lia.
Qed.

Definition id_codec : codec := mkCodec 0 (fun x => x) (fun x => Ok x).

(* non-vacuity and regression of the repaired defects: a payload ending in 0x91 directly before a
   record; marker bytes near the end of the file; window sizes 4 and 4096 *)
Example seek_example :
  let f := file_hdr 0 ++ enc_rec id_codec (Some [1; 2; 0x91]) ++ enc_rec id_codec (Some [7; 7])
                      ++ enc_rec id_codec (Some [1; 2; 0x91; 0x8d; 0x4c; 0; 0xff]) in
  seek_next id_codec 4 f 9 = Ok (21, Some [7; 7])
  /\ seek_next id_codec 4096 f 9 = Ok (21, Some [7; 7])
  /\ seek_next id_codec 4 f 35 = Err EOF
  /\ seek_next id_codec 4096 f 35 = Err EOF.
Proof. vm_compute. repeat split; reflexivity. Qed.

(* F-C04e: the documented promise "SeekNext returns the first record that STARTS at or after the
   offset" is false: a payload may contain the complete image of a record (marker, nil flag, sizes,
   correct header checksum, payload).  Witness: uncompressed file with the three records
   "first", "xx" ++ IMAGE ++ "yy", "third", where IMAGE = enc_rec of the record "inner"; seeking
   from offset 25 (one byte into the second record) returns (37, "inner") - offset 37 lies inside the
   second record's payload and no record was written there - although the written record "third"
   starts at 55 >= 25. *)
From GoSST Require Import RecordIO.WriteReadFacts.

Definition emb_first : bytes := [0x66; 0x69; 0x72; 0x73; 0x74].      (* "first" *)
Definition emb_inner : bytes := [0x69; 0x6e; 0x6e; 0x65; 0x72].      (* "inner" *)
Definition emb_third : bytes := [0x74; 0x68; 0x69; 0x72; 0x64].      (* "third" *)
Definition emb_image : bytes := enc_rec SeekFacts.id_codec (Some emb_inner).
Definition emb_middle : bytes := [0x78; 0x78] ++ emb_image ++ [0x79; 0x79].   (* "xx" IMAGE "yy" *)
Definition emb_ops : list wop :=
  [WWrite (Some emb_first); WWrite (Some emb_middle); WWrite (Some emb_third)].

Example emb_image_bytes :
  emb_image = [0x91; 0x8d; 0x4c; 0; 5; 0; 0xf3; 0xd7; 0x9d; 0xe3; 0x06; 0x69; 0x6e; 0x6e; 0x65; 0x72].
Proof. vm_compute. reflexivity. Qed.

Example emb_file_bytes :
  written SeekFacts.id_codec emb_ops =
    [4; 0; 0; 0; 0; 0; 0; 0;
     0x91; 0x8d; 0x4c; 0; 5; 0; 0xf3; 0xd7; 0x9d; 0xe3; 0x06; 0x66; 0x69; 0x72; 0x73; 0x74;
     0x91; 0x8d; 0x4c; 0; 20; 0; 0x85; 0x84; 0x80; 0x80; 0x04; 0x78; 0x78;
       0x91; 0x8d; 0x4c; 0; 5; 0; 0xf3; 0xd7; 0x9d; 0xe3; 0x06; 0x69; 0x6e; 0x6e; 0x65; 0x72;
       0x79; 0x79;
     0x91; 0x8d; 0x4c; 0; 5; 0; 0xf3; 0xd7; 0x9d; 0xe3; 0x06; 0x74; 0x68; 0x69; 0x72; 0x64]
  /\ surv SeekFacts.id_codec emb_ops = [(8, Some emb_first); (24, Some emb_middle); (55, Some emb_third)].
Proof. vm_compute. split; reflexivity. Qed.

Theorem seek_next_embedded_refuted :
  exists (c : codec) (ops : list wop) (seekLen off o : N) (r : option bytes),
    (forall x, decomp c (comp c x) = Ok x) /\ ctype c <= 3
    /\ prog_ok c ops 8 [] = true /\ Forall (op_ok c) ops
    /\ 4 <= seekLen /\ off <= lenN (written c ops)
    /\ seek_next c seekLen (written c ops) off = Ok (o, r)
    (* what is returned is not one of the records that were written *)
    /\ ~ In o (map fst (surv c ops))
    (* although a written record starts at or after off *)
    /\ (exists o' r', In (o', r') (surv c ops) /\ off <= o').
Proof.
  exists SeekFacts.id_codec, emb_ops, 4, 25, 37, (Some emb_inner).
  split; [intros x; reflexivity|].
  split; [vm_compute; discriminate|].
  split; [vm_compute; reflexivity|].
  split.
  { repeat constructor; vm_compute; reflexivity. }
  split; [vm_compute; discriminate|].
  split; [vm_compute; discriminate|].
  split; [vm_compute; reflexivity|].
  split.
  - replace (map fst (surv SeekFacts.id_codec emb_ops)) with [8; 24; 55] by (vm_compute; reflexivity).
    intros [H|[H|[H|[]]]]; discriminate H.
  - exists 55, (Some emb_third). split.
    + replace (surv SeekFacts.id_codec emb_ops)
        with [(8, Some emb_first); (24, Some emb_middle); (55, Some emb_third)] by (vm_compute; reflexivity).
      right. right. left. reflexivity.
    + vm_compute. discriminate.
Qed.

(* the same for the large scan window *)
Example seek_next_embedded_4096 :
  seek_next SeekFacts.id_codec 4096 (written SeekFacts.id_codec emb_ops) 25 = Ok (37, Some emb_inner).
Proof. vm_compute. reflexivity. Qed.

Print Assumptions marker_no_self_overlap.
Print Assumptions seek_next_first.
Print Assumptions seek_next_window_independent.
Print Assumptions seek_next_written.
Print Assumptions seek_example.
Print Assumptions seek_next_embedded_refuted.
