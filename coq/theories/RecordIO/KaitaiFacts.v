(* C20: the published Kaitai schema decodes every written file to the same records.
   The schema's payload-length expression, magic and enum come from gen/FactsKsy.v (regenerated
   from kaitai/recordio_v4.ksy on every run): the three ksy_*_ok lemmas are the proof obligations
   on the generated text, so a change of the schema breaks them. *)
From GoSST Require Import Base.Bytes Base.Varint Base.VarintFacts Base.Crc Base.CrcFacts.
From GoSST Require Import RecordIO.Format RecordIO.FormatFacts RecordIO.Kaitai.
From GoSSTGen Require Import FactsKsy FactsConst.
From Coq Require Import Lia String.
From Coq Require Import List. (* after String: [length] is the list one in the helper lemmas *)
Local Open Scope N_scope.

Lemma ksy_len_known : ksy_len_payload_known = true.
Proof. reflexivity. Qed.

Lemma ksy_len_ok rnil usz csz ct :
  ksy_len_payload rnil usz csz ct = if rnil =? 1 then 0 else if ct =? 0 then usz else csz.
Proof. reflexivity. Qed.

Lemma ksy_magic_ok : ksy_magic = marker.
Proof. reflexivity. Qed.

(* every compression code the writer can emit is known to the schema, under the writer's name *)
Theorem enum_covers_writer :
  In (f_comp_none, "none"%string) ksy_compression_enum
  /\ In (f_comp_gzip, "gzip"%string) ksy_compression_enum
  /\ In (f_comp_snappy, "snappy"%string) ksy_compression_enum
  /\ In (f_comp_lzw, "lzw"%string) ksy_compression_enum
  /\ f_comp_none = 0 /\ f_comp_gzip = 1 /\ f_comp_snappy = 2 /\ f_comp_lzw = 3.
Proof. vm_compute. intuition. Qed.

(* the VLQ reader of the schema decodes what PutUvarint wrote, for values below 2^56 (8 groups) *)
(* x = low seven bits + 128 * the rest, under a common shift *)
Lemma split7_shift x s :
  N.shiftl (N.land x 127) s + N.shiftl (N.shiftr x 7) (s + 7) = N.shiftl x s.
Proof.
  change 127 with (N.ones 7). rewrite N.land_ones, N.shiftr_div_pow2, !N.shiftl_mul_pow2.
  rewrite N.pow_add_r. change (2 ^ 7) with 128.
  pose proof (N.div_mod x 128 ltac:(lia)) as Hdm.
  set (q := x / 128) in *. set (m := x mod 128) in *. set (p := 2 ^ s).
  clearbody q m p. subst x. lia.
Qed.

Lemma vlq_sum_nil n s : vlq_sum n s [] = 0.
Proof. destruct n; reflexivity. Qed.

(* the groups read back from an encoding of a value below 2^(7k): at most k groups, whose shifted
   sum is the value; the reader needs as much fuel as the encoding is long *)
Lemma vlq_groups_uv_enc : forall (k fe fg : nat) (x : N) rest,
  (0 < k)%nat -> (k <= fe)%nat -> (length (uv_enc_fuel fe x) <= fg)%nat ->
  x < 2 ^ (7 * N.of_nat k) ->
  exists gs, vlq_groups fg (uv_enc_fuel fe x ++ rest) = Some (gs, rest)
             /\ forall n s, (k <= n)%nat -> vlq_sum n s gs = N.shiftl x s.
Proof.
  induction k as [|k IH]; intros fe fg x rest Hk Hfe Hfg Hx; [lia|].
  destruct fe as [|fe]; [lia|].
  cbn [uv_enc_fuel] in *. destruct (N.ltb_spec x 128) as [Hs|Hb].
  - destruct fg as [|fg]; [cbn [length] in Hfg; lia|].
    cbn [app vlq_groups]. replace (x <? 128) with true by (symmetry; apply N.ltb_lt; exact Hs).
    exists [x]. split; [reflexivity|]. intros n s Hn. destruct n as [|n]; [lia|].
    cbn [vlq_sum]. rewrite vlq_sum_nil. lia.
  - destruct fg as [|fg]; [cbn [length] in Hfg; lia|]. cbn [length] in Hfg.
    destruct k as [|k].
    { change (2 ^ (7 * N.of_nat 1)) with 128 in Hx. lia. }
    destruct (IH fe fg (N.shiftr x 7) rest) as [gs [Hg Hsum]]; try lia.
    { apply shiftr7_lt. replace (7 * N.of_nat (S k) + 7) with (7 * N.of_nat (S (S k))) by lia. exact Hx. }
    cbn [app vlq_groups].
    replace (N.lor (N.land x 127) 128 <? 128) with false by (symmetry; apply N.ltb_ge; apply low7_or128_ge).
    rewrite Hg, land127_of_or. eexists. split; [reflexivity|].
    intros n s Hn. destruct n as [|n]; [lia|]. cbn [vlq_sum].
    rewrite Hsum by lia. apply split7_shift.
Qed.

Lemma vlq_uv_enc x rest : x < 2 ^ 56 -> vlq (uv_enc x ++ rest) = Some (x, rest).
Proof.
  intro Hx. unfold vlq, uv_enc.
  assert (Hlen : (length (uv_enc_fuel 10 x) <= S (length (uv_enc_fuel 10 x ++ rest)))%nat).
  { rewrite app_length. lia. }
  destruct (vlq_groups_uv_enc 8 10 _ x rest ltac:(lia) ltac:(lia) Hlen Hx) as [gs [Hg Hsum]].
  rewrite Hg. unfold vlq_value. rewrite Hsum by lia. rewrite N.shiftl_0_r. reflexivity.
Qed.

(* list algebra *)
Lemma firstn_len_app {A} (a b : list A) : firstn (length a) (a ++ b) = a.
Proof. induction a as [|x a IH]; cbn [length firstn app]; [destruct b; reflexivity|]. f_equal. exact IH. Qed.

Lemma skipn_len_app {A} (a b : list A) : skipn (length a) (a ++ b) = b.
Proof. induction a as [|x a IH]; cbn [length skipn app]; [reflexivity|exact IH]. Qed.

(* the written header, with the magic spelled out as its three marker bytes *)
Lemma hdr_eq usz csz isnil :
  hdr usz csz isnil =
  marker ++ [if isnil then 1 else 0] ++ uv_enc usz ++ uv_enc csz
         ++ uv_enc (crc32c (hdr_prefix usz csz isnil)).
Proof.
  unfold hdr. cbv zeta. set (crc := crc32c _). unfold hdr_prefix.
  change (uv_enc magic) with marker. rewrite <- !app_assoc. reflexivity.
Qed.

Lemma hdr_prefix_bytes usz csz isnil : Forall (fun b => b < 256) (hdr_prefix usz csz isnil).
Proof.
  unfold hdr_prefix. repeat (apply Forall_app; split); try apply uv_enc_bytes.
  constructor; [destruct isnil; lia|constructor].
Qed.

Lemma hdr_crc_lt usz csz isnil : crc32c (hdr_prefix usz csz isnil) < 2 ^ 56.
Proof.
  apply (N.lt_trans _ (2 ^ 32)); [apply crc32c_lt, hdr_prefix_bytes|].
  apply N.pow_lt_mono_r; lia.
Qed.

(* one written header followed by its payload is read as one record *)
Lemma ks_read_record_hdr ct usz csz (isnil : bool) pl rest :
  usz < 2 ^ 56 -> csz < 2 ^ 56 ->
  N.to_nat (ksy_len_payload (if isnil then 1 else 0) usz csz ct) = length pl ->
  ks_read_record ct (hdr usz csz isnil ++ pl ++ rest)
  = Some (mkKs (if isnil then 1 else 0) usz csz (crc32c (hdr_prefix usz csz isnil)) pl, rest).
Proof.
  intros Hu Hc Hn. unfold ks_read_record. rewrite hdr_eq.
  pose proof (hdr_crc_lt usz csz isnil) as Hcrc. set (crc := crc32c _) in *.
  rewrite <- !app_assoc. rewrite ksy_magic_ok. unfold marker. cbn [app firstn skipn].
  change (negb (bytes_eqb [145; 141; 76] [145; 141; 76])) with false. cbv iota.
  rewrite (vlq_uv_enc usz) by exact Hu. rewrite (vlq_uv_enc csz) by exact Hc.
  rewrite (vlq_uv_enc crc) by exact Hcrc.
  set (n := ksy_len_payload _ usz csz ct) in *.
  replace (lenN (pl ++ rest) <? n) with false.
  2:{ symmetry. apply N.ltb_ge. unfold lenN. rewrite app_length. lia. }
  rewrite Hn, firstn_len_app, skipn_len_app. reflexivity.
Qed.

Section Facts.
  Variable c : codec.
  Hypothesis ctype_ok : ctype c <= 3.

  Definition payload (r : option bytes) : bytes := match r with Some p => p | None => [] end.
  Definition stored (r : option bytes) : bytes :=
    match r with None => [] | Some p => if compressed c then comp c p else p end.
  Definition ksize_ok (r : option bytes) : Prop :=
    lenN (payload r) < 2 ^ 56 /\ lenN (comp c (payload r)) < 2 ^ 56.

  Definition agrees (r : option bytes) (k : ks_record) : Prop :=
    k_nil k = (match r with None => 1 | Some _ => 0 end)
    /\ k_payload k = stored r
    /\ k_usz k = lenN (payload r)
    /\ k_csz k = (if compressed c then lenN (comp c (payload r)) else 0).

  Lemma to_nat_lenN (l : bytes) : N.to_nat (lenN l) = length l.
  Proof. unfold lenN. apply Nat2N.id. Qed.

  Lemma ks_read_enc_rec r rest :
    ksize_ok r ->
    exists k, ks_read_record (ctype c) (enc_rec c r ++ rest) = Some (k, rest) /\ agrees r k.
  Proof.
    intros [Hu Hz]. assert (H0 : 0 < 2 ^ 56) by (change (0 < 72057594037927936); lia).
    unfold enc_rec, agrees, stored.
    destruct r as [p|]; cbn [payload] in *; unfold compressed in *;
      destruct (N.eqb_spec (ctype c) 0) as [E0|E0]; cbn [negb].
    - rewrite <- app_assoc.
      rewrite (ks_read_record_hdr (ctype c) (lenN p) 0 false p rest Hu H0).
      + eexists. split; [reflexivity|]. cbn [k_nil k_payload k_usz k_csz]. auto.
      + rewrite ksy_len_ok, E0. change (0 =? 1) with false. change (0 =? 0) with true.
        cbv iota. apply to_nat_lenN.
    - rewrite <- app_assoc.
      rewrite (ks_read_record_hdr (ctype c) (lenN p) (lenN (comp c p)) false (comp c p) rest Hu Hz).
      + eexists. split; [reflexivity|]. cbn [k_nil k_payload k_usz k_csz]. auto.
      + rewrite ksy_len_ok. change (0 =? 1) with false. cbv iota.
        replace (ctype c =? 0) with false by (symmetry; apply N.eqb_neq; exact E0).
        apply to_nat_lenN.
    - change (hdr 0 0 true ++ rest) with (hdr 0 0 true ++ [] ++ rest).
      rewrite (ks_read_record_hdr (ctype c) 0 0 true [] rest H0 H0).
      + eexists. split; [reflexivity|]. cbn [k_nil k_payload k_usz k_csz]. auto.
      + rewrite ksy_len_ok. reflexivity.
    - change (hdr 0 (lenN (comp c [])) true ++ rest) with (hdr 0 (lenN (comp c [])) true ++ [] ++ rest).
      rewrite (ks_read_record_hdr (ctype c) 0 (lenN (comp c [])) true [] rest H0 Hz).
      + eexists. split; [reflexivity|]. cbn [k_nil k_payload k_usz k_csz]. auto.
      + rewrite ksy_len_ok. reflexivity.
  Qed.

  Lemma enc_rec_nonempty r : (1 <= length (enc_rec c r))%nat.
  Proof.
    unfold enc_rec. destruct r as [p|]; destruct (compressed c);
      rewrite ?app_length, hdr_eq, app_length; cbn [marker length]; lia.
  Qed.

  (* each record consumes at least one byte, so fuel above the length is enough *)
  Lemma ks_records_enc (rs : list (option bytes)) :
    Forall ksize_ok rs ->
    forall fuel, (length (flat_map (enc_rec c) rs) < fuel)%nat ->
    exists krs, ks_records fuel (ctype c) (flat_map (enc_rec c) rs) = Some krs /\ Forall2 agrees rs krs.
  Proof.
    induction rs as [|r rs IH]; intros Hall fuel Hfuel.
    - destruct fuel as [|fuel]; [lia|]. exists []. split; [reflexivity|constructor].
    - inversion Hall as [|? ? Hr Hrs]; subst.
      destruct fuel as [|fuel]; [lia|].
      cbn [flat_map] in *. rewrite app_length in Hfuel.
      pose proof (enc_rec_nonempty r) as Hne.
      destruct (ks_read_enc_rec r (flat_map (enc_rec c) rs) Hr) as [k [Hk Hag]].
      destruct (IH Hrs fuel) as [krs [Hkrs Hags]]; [lia|].
      exists (k :: krs). split; [|constructor; assumption].
      cbn [ks_records]. rewrite Hk, Hkrs.
      destruct (enc_rec c r ++ flat_map (enc_rec c) rs) as [|b l] eqn:E; [|reflexivity].
      apply (f_equal (@length N)) in E. rewrite app_length in E. cbn [length] in E. lia.
  Qed.

  Lemma sub_hdr_version ct body : sub (file_hdr ct ++ body) 0 4 = le32 current_version.
  Proof. reflexivity. Qed.
  Lemma sub_hdr_ct ct body : sub (file_hdr ct ++ body) 4 4 = le32 ct.
  Proof. reflexivity. Qed.
  Lemma skipn_file_hdr ct body : skipn 8 (file_hdr ct ++ body) = body.
  Proof. reflexivity. Qed.
  Lemma rd32_le32_small ct : ct <= 3 -> rd32 (le32 ct) = ct.
  Proof.
    intro H. assert (Hc : ct = 0 \/ ct = 1 \/ ct = 2 \/ ct = 3) by lia.
    destruct Hc as [ -> | [ -> | [ -> | -> ] ] ]; reflexivity.
  Qed.

  Theorem kaitai_agrees (rs : list (option bytes)) :
    Forall ksize_ok rs ->
    exists krs,
      ks_parse (file_hdr (ctype c) ++ flat_map (enc_rec c) rs) = Some (4, ctype c, krs)
      /\ Forall2 agrees rs krs.
  Proof.
    intro Hall. unfold ks_parse.
    replace (lenN (file_hdr (ctype c) ++ flat_map (enc_rec c) rs) <? 8) with false.
    2:{ symmetry. apply N.ltb_ge. unfold lenN. rewrite app_length. cbn [file_hdr le32 length app]. lia. }
    rewrite sub_hdr_version, sub_hdr_ct, skipn_file_hdr.
    change (rd32 (le32 current_version)) with 4. rewrite rd32_le32_small by exact ctype_ok.
    destruct (ks_records_enc rs Hall (S (length (file_hdr (ctype c) ++ flat_map (enc_rec c) rs))))
      as [krs [Hk Hag]].
    { rewrite app_length. lia. }
    exists krs. rewrite Hk. split; [reflexivity|exact Hag].
  Qed.
End Facts.

Definition id_codec : codec := mkCodec 0 (fun x => x) (fun x => Ok x).
(* a "compressor" that is not the identity, to exercise the compressed branch incl. nil records *)
Definition pad_codec : codec := mkCodec 2 (fun x => 7 :: x ++ [9]) (fun z => Ok (removelast (tl z))).

Example kaitai_example :
  ks_parse (file_hdr 2 ++ flat_map (enc_rec pad_codec) [Some [1; 2; 3]; None; Some []])
  = Some (4, 2, [mkKs 0 3 5 (crc32c (hdr_prefix 3 5 false)) [7; 1; 2; 3; 9];
                 mkKs 1 0 2 (crc32c (hdr_prefix 0 2 true)) [];
                 mkKs 0 0 2 (crc32c (hdr_prefix 0 2 false)) [7; 9]]).
Proof. vm_compute. reflexivity. Qed.

Print Assumptions vlq_uv_enc.
Print Assumptions enum_covers_writer.
Print Assumptions kaitai_agrees.
Print Assumptions kaitai_example.
