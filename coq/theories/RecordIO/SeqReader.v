(* FileReader (sequential): ReadNext / SkipNext for v4 files (recordio/file_reader.go), as a
   function of the file bytes and the current offset. *)
From GoSST Require Import Base.Bytes Base.Varint RecordIO.Format.
Local Open Scope N_scope.

Definition all_zero (l : bytes) : bool := forallb (N.eqb 0) l.

(* after a magic mismatch: everything after the bytes of the mismatching varint must be zero *)
Definition zero_tail (rest : bytes) : bool :=
  match uv_dec (firstn 36 rest) with
  | Ok (_, l1) => all_zero (skipn (length (firstn 36 rest) - length l1) rest)
  | Err _ => false
  end.

Definition read_next (c : codec) (f : bytes) (pos : N) : res (option bytes) * N :=
  let rest := skipn (N.to_nat pos) f in
  match parse_hdr_stream rest with
  | Err MagicMismatch => if zero_tail rest then (Err EOF, pos) else (Err MagicMismatch, pos)
  | Err e => (Err e, pos)
  | Ok (usz, csz, isnil, hlen) =>
      if isnil then (Ok None, pos + hlen)
      else
        let n := payload_len c usz csz in
        let p := sub f (pos + hlen) n in
        if (lenN p <? n) then (Err (if lenN p =? 0 then EOF else UnexpectedEOF), pos)
        else (decode_payload c p, pos + hlen + n)
  end.

Definition skip_next (c : codec) (f : bytes) (pos : N) : res unit * N :=
  let rest := skipn (N.to_nat pos) f in
  match parse_hdr_stream rest with
  | Err MagicMismatch => if zero_tail rest then (Err EOF, pos) else (Err MagicMismatch, pos)
  | Err e => (Err e, pos)
  | Ok (usz, csz, isnil, hlen) =>
      (Ok tt, pos + hlen + (if isnil then 0 else payload_len c usz csz))
  end.

(* Open: parse the file header, position after it *)
Definition r_open (f : bytes) : res N :=
  match parse_file_hdr f with
  | Ok _ => Ok file_header_size
  | Err e => Err e
  end.

(* read everything until the first error (which is included, EOF normally) *)
Fixpoint read_all (fuel : nat) (c : codec) (f : bytes) (pos : N) : list (res (option bytes)) :=
  match fuel with
  | O => [Err OutOfFuel]
  | S k =>
      match read_next c f pos with
      | (Ok r, pos') => Ok r :: read_all k c f pos'
      | (Err e, _) => [Err e]
      end
  end.

(* mixed program: true = ReadNext, false = SkipNext (Ok None stands for a successful skip) *)
Fixpoint read_mixed (c : codec) (f : bytes) (pos : N) (prog : list bool) : list (res (option (option bytes))) :=
  match prog with
  | [] => []
  | true :: rest =>
      match read_next c f pos with
      | (Ok r, pos') => Ok (Some r) :: read_mixed c f pos' rest
      | (Err e, _) => [Err e]
      end
  | false :: rest =>
      match skip_next c f pos with
      | (Ok _, pos') => Ok None :: read_mixed c f pos' rest
      | (Err e, _) => [Err e]
      end
  end.
