(* The buffered writer under every log and table file (recordio/bufio_vendor.go, Writer.Write / Flush / Seek / Close,
   the non-aligned variant made by NewWriterBuf): a buffer of [cap] bytes in front of the file.  The model keeps the
   buffered bytes and emits what the code hands to the underlying writer, call by call: [EWrite chunk], [ESeek off],
   [EClose].  Errors of the underlying writer are not modelled (the fault checks of C11 inject them into the real code).

   Write(p), as coded:   while len(p) > Available():  if the buffer is empty, p goes to the file directly, whole;
                                                      otherwise the buffer is filled up from p and flushed;
                         then the rest of p is copied into the buffer. *)
From GoSST Require Import Base.Bytes.
From Coq Require Import Arith.

Inductive bev := EWrite (chunk : bytes) | ESeek (off : N) | EClose.

Inductive bop := BWrite (p : bytes) | BFlush | BSeek (off : N) | BClose.

Definition bw_flush (buf : bytes) : list bev * bytes :=
  match buf with
  | [] => ([], [])
  | _ => ([EWrite buf], [])
  end.

(* one Write call: the loop runs at most twice (after a flush the buffer is empty) *)
Definition bw_write (cap : nat) (buf p : bytes) : list bev * bytes :=
  if length p <=? cap - length buf then ([], buf ++ p)
  else
    match buf with
    | [] => ([EWrite p], [])
    | _ =>
        let n := cap - length buf in
        let p' := skipn n p in
        if length p' <=? cap then ([EWrite (buf ++ firstn n p)], p')
        else ([EWrite (buf ++ firstn n p); EWrite p'], [])
    end.

Definition bw_step (cap : nat) (buf : bytes) (o : bop) : list bev * bytes :=
  match o with
  | BWrite p => bw_write cap buf p
  | BFlush => bw_flush buf
  | BSeek off => let '(e, b) := bw_flush buf in (e ++ [ESeek off], b)
  | BClose => let '(e, b) := bw_flush buf in (e ++ [EClose], b)
  end.

(* a program of calls: what each call emitted, and the buffer at the end *)
Fixpoint bw_run (cap : nat) (buf : bytes) (ops : list bop) : list (list bev) * bytes :=
  match ops with
  | [] => ([], buf)
  | o :: rest =>
      let '(e, b) := bw_step cap buf o in
      let '(es, b') := bw_run cap b rest in
      (e :: es, b')
  end.

(* the bytes that reached the file through a list of events (append-only programs: no seek) *)
Fixpoint written_by (evs : list bev) : bytes :=
  match evs with
  | [] => []
  | EWrite c :: r => c ++ written_by r
  | _ :: r => written_by r
  end.

(* the bytes the caller handed over *)
Fixpoint handed (ops : list bop) : bytes :=
  match ops with
  | [] => []
  | BWrite p :: r => p ++ handed r
  | _ :: r => handed r
  end.

Definition append_only (ops : list bop) : bool :=
  forallb (fun o => match o with BSeek _ => false | _ => true end) ops.
