(* MMapReader: ReadNextAt and SeekNext (recordio/mmap_reader.go), the latter written as the loop is:
   windows of seekLen bytes, partial-marker carry-over ("break outer"), trial reads. *)
From GoSST Require Import Base.Bytes RecordIO.Format.
Local Open Scope N_scope.

(* errors: a bare io.EOF (EOF) only when nothing could be read at the offset; io.EOF wrapped by
   fmt.Errorf is WrappedEOF (callers in sstables compare with ==) *)
Definition read_at (c : codec) (f : bytes) (off : N) : res (option bytes) :=
  if lenN f <? off then Err Other else
  let win := sub f off max_header_size in
  match win with
  | [] => Err EOF
  | _ =>
    match parse_hdr win with
    | Err EOF => Err WrappedEOF
    | Err e => Err e
    | Ok (usz, csz, isnil, hlen) =>
      if isnil then Ok None else
      let n := payload_len c usz csz in
      let p := sub f (off + hlen) n in
      if lenN p <? n then Err WrappedEOF else decode_payload c p
    end
  end.

(* inner marker match as coded: compare up to three bytes starting at i; (ix, true) = ran into the
   end of the window while the bytes still matched ("break outer") *)
Fixpoint match_marker (win : bytes) (numRead ix : N) (m : bytes) : N * bool :=
  match m with
  | [] => (ix, false)
  | mb :: m' =>
    if nth (N.to_nat ix) win 256 =? mb then
      let ix' := ix + 1 in
      if numRead <=? ix' then (ix', true) else match_marker win numRead ix' m'
    else (ix, false)
  end.

Inductive scan_out := Found (o : N) (r : option bytes) | Cont (i : N) | ScanFuel.

Fixpoint scan (fuel : nat) (c : codec) (f win : bytes) (next numRead i : N) : scan_out :=
  match fuel with
  | O => ScanFuel
  | S fu =>
    if numRead <=? i then Cont i else
    let '(ix, hit) := match_marker win numRead i marker in
    if hit then Cont i
    else if ix - i <? 3 then scan fu c f win next numRead (i + 1)
    else match read_at c f (next + i) with
         | Ok r => Found (next + i) r
         | Err _ => scan fu c f win next numRead ix
         end
  end.

Fixpoint seek_loop (fuel : nat) (c : codec) (seekLen : N) (f : bytes) (next : N) : res (N * option bytes) :=
  match fuel with
  | O => Err OutOfFuel
  | S fu =>
    if lenN f <? next then Err Other else
    let win := sub f next seekLen in
    let numRead := lenN win in
    if numRead =? 0 then Err EOF else
    match scan (S (length win)) c f win next numRead 0 with
    | Found o r => Ok (o, r)
    | ScanFuel => Err OutOfFuel
    | Cont i => if i =? 0 then Err EOF else seek_loop fu c seekLen f (next + i)
    end
  end.

Definition seek_next (c : codec) (seekLen : N) (f : bytes) (off : N) : res (N * option bytes) :=
  seek_loop (S (length f)) c seekLen f off.
